(* M7, stage 2, unused side - an import reported unused by scan_for_import_issues is the binding of no read, for
   stage-2 programs whose imports are top-level statements binding names that are bound nowhere else at module level
   (Fragment.u2_block, Fragment.imports_once).
   The structural part comes from the tracking-off simulation through the erasure (Stage2Erase.v); this file adds
   the use-checker bookkeeping: which checker a needs-call marks, and that every read PySem resolves to an import
   either has marked that import's checker or sits in the deferred list with a stack on which it will. *)
From Coq Require Import NArith List Bool Arith Lia.
From Verif Require Import Scope.PySyntax Scope.Finder Scope.PySem Scope.Fragment Scope.AuxProofs Scope.FinderProofs
                          Scope.UnusedProofs Scope.Stage2Base Scope.Stage2Inv Scope.Stage2Steps Scope.Stage2Proofs
                          Scope.Stage2Stmt Scope.Stage2Final Scope.Stage2Erase
                          Scope.Stage3Comp Scope.Stage3Proofs Scope.Stage3Stmt Scope.Stage3Erase.
Import ListNotations.

(* ---------- checker lists that differ by marks only ---------- *)
Definition ckd : checker := mkChecker ([], []) 0 true.
Record MarkExt (cs cs' : list checker) : Prop := mkME {
  me_len : length cs' = length cs;
  me_line : forall c, c_line (nth c cs' ckd) = c_line (nth c cs ckd);
  me_imp : forall c, c_imp (nth c cs' ckd) = c_imp (nth c cs ckd);
  me_used : forall c, c_used (nth c cs ckd) = true -> c_used (nth c cs' ckd) = true }.

Lemma MarkExt_refl : forall cs, MarkExt cs cs.
Proof. intro cs. constructor; auto. Qed.
Lemma MarkExt_trans : forall a b c, MarkExt a b -> MarkExt b c -> MarkExt a c.
Proof.
  intros a b c [L1 A1 B1 C1] [L2 A2 B2 C2]. constructor. congruence.
  intro k. rewrite A2. apply A1. intro k. rewrite B2. apply B1. intros k H. apply C2, C1, H.
Qed.
Lemma mark_nth_facts : forall cs c k,
  c_line (nth k (mark cs c) ckd) = c_line (nth k cs ckd) /\ c_imp (nth k (mark cs c) ckd) = c_imp (nth k cs ckd) /\
  (c_used (nth k cs ckd) = true -> c_used (nth k (mark cs c) ckd) = true).
Proof.
  induction cs as [|x cs IH]; intros c k. destruct c; cbn; auto.
  destruct c as [|c]; destruct k as [|k]; cbn; auto.
Qed.
Lemma MarkExt_mark : forall cs c, MarkExt cs (mark cs c).
Proof.
  intros cs c. constructor. apply mark_length.
  intro k. apply mark_nth_facts. intro k. apply mark_nth_facts. intro k. apply mark_nth_facts.
Qed.
(* a state that differs from s in the marks of its checkers only *)
Definition Marks (s s' : st) : Prop := exists cs', s' = with_checkers s cs' /\ MarkExt (checkers s) cs'.
Lemma Marks_refl : forall s, Marks s s.
Proof. intro s. exists (checkers s). split. destruct s; reflexivity. apply MarkExt_refl. Qed.
Lemma Marks_trans : forall a b c, Marks a b -> Marks b c -> Marks a c.
Proof.
  intros a b c (c1 & -> & M1) (c2 & -> & M2). exists c2. split. reflexivity. cbn [checkers with_checkers] in M2.
  eapply MarkExt_trans; eauto.
Qed.
Lemma Marks_mark : forall s c, Marks s (mark_used s c).
Proof. intros s c. exists (mark (checkers s) c). split. reflexivity. apply MarkExt_mark. Qed.
Lemma Marks_marks : forall l s, Marks s (fold_left mark_used l s).
Proof.
  induction l as [|c l IH]; intro s; cbn [fold_left]. apply Marks_refl. eapply Marks_trans. apply Marks_mark. apply IH.
Qed.

Lemma needs_stack_marks : forall ps r s, Marks s (snd (needs_stack s r ps)).
Proof.
  intros ps r. induction r as [|i r IH]; intro s; cbn [needs_stack]. apply Marks_refl.
  destruct (first_present (scope_dict s i) ps) as [[|c|cs]|]; cbn [snd]; auto using Marks_refl, Marks_mark, Marks_marks.
Qed.
Lemma needs_marks : forall s stk n, Marks s (snd (needs s stk n)).
Proof. intros. unfold needs. apply needs_stack_marks. Qed.

(* which checker a needs-call marks: the scopes above hold no key rooted at x, the scope reached holds [x] -> Chk c and
   only single-name keys *)
Lemma first_present_root_none : forall d x a, rootclosed d -> dict_get d [x] = None ->
  first_present d (rev (prefixes (x :: a))) = None.
Proof.
  intros d x a Hr Hx. apply first_present_none. intros p Hp. apply in_rev in Hp.
  destruct (prefixes_head _ _ _ Hp) as (q & ->).
  destruct (dict_get d (x :: q)) eqn:E; auto. exfalso. apply (Hr x q). congruence. exact Hx.
Qed.
Lemma first_present_single_key : forall d x a e, (forall k v, In (k, v) d -> exists y, k = [y]) ->
  dict_get d [x] = Some e -> first_present d (rev (prefixes (x :: a))) = Some e.
Proof.
  intros d x a e Hk Hx.
  assert (G : forall ps, (forall p, In p ps -> p = [x] \/ exists y z q, p = y :: z :: q) -> In [x] ps ->
                first_present d ps = Some e).
  { induction ps as [|p ps IH]; intros Hs Hin. contradiction. cbn.
    destruct (Hs p (or_introl eq_refl)) as [->|(y & z & q & ->)].
    - rewrite Hx. reflexivity.
    - destruct (dict_get d (y :: z :: q)) eqn:E.
      + exfalso. clear - E Hk. induction d as [|[k v] d IHd]; cbn [dict_get] in E. discriminate.
        destruct (dotted_eqb (y :: z :: q) k) eqn:Ek.
        * apply dotted_eqb_eq in Ek. subst k. destruct (Hk _ _ (or_introl eq_refl)) as (w & Hw). discriminate.
        * apply IHd; auto. intros k' v' H'. eapply Hk. right. exact H'.
      + apply IH. intros p' Hp'. apply Hs. right. exact Hp'.
        destruct Hin as [Hin|Hin]; auto. discriminate. }
  apply G.
  - intros p Hp. apply in_rev in Hp. destruct (prefixes_head _ _ _ Hp) as (q & ->). destruct q as [|z q]; eauto.
  - apply -> in_rev. apply prefixes_first.
Qed.

Lemma needs_stack_found : forall s x a post i pre c,
  (forall j, In j post -> rootclosed (scope_dict s j) /\ dict_get (scope_dict s j) [x] = None) ->
  (forall k v, In (k, v) (scope_dict s i) -> exists y, k = [y]) ->
  dict_get (scope_dict s i) [x] = Some (Chk c) ->
  needs_stack s (rev post ++ i :: pre) (rev (prefixes (x :: a))) = (false, mark_used s c).
Proof.
  intros s x a post i pre c Hpost Hk Hx.
  assert (G : forall r, (forall j, In j r -> rootclosed (scope_dict s j) /\ dict_get (scope_dict s j) [x] = None) ->
              needs_stack s (r ++ i :: pre) (rev (prefixes (x :: a))) = (false, mark_used s c)).
  { induction r as [|j r IH]; intro Hr; cbn [app needs_stack].
    - rewrite (first_present_single_key _ x a (Chk c) Hk Hx). reflexivity.
    - destruct (Hr j (or_introl eq_refl)) as [R1 R2]. rewrite (first_present_root_none _ x a R1 R2).
      apply IH. intros j' Hj'. apply Hr. right. exact Hj'. }
  apply G. intros j Hj. apply Hpost. apply in_rev. exact Hj.
Qed.

Lemma needs_found : forall s x a pre i post c,
  (forall j, In j post -> rootclosed (scope_dict s j) /\ dict_get (scope_dict s j) [x] = None) ->
  (forall k v, In (k, v) (scope_dict s i) -> exists y, k = [y]) ->
  dict_get (scope_dict s i) [x] = Some (Chk c) ->
  needs s (pre ++ i :: post) (x :: a) = (false, mark_used s c).
Proof.
  intros. unfold needs. rewrite rev_app_distr. cbn [rev]. rewrite <- app_assoc. cbn [app].
  apply needs_stack_found; auto.
Qed.

(* ---------- the once-condition ---------- *)
Lemma count_name_app : forall x a b, count_name x (a ++ b) = count_name x a + count_name x b.
Proof. induction a as [|y a IH]; intro b; cbn. reflexivity. rewrite IH. lia. Qed.
Lemma count_name_In : forall x l, In x l -> 1 <= count_name x l.
Proof.
  induction l as [|y l IH]; cbn; intro H. contradiction. destruct H as [->|H]. rewrite N.eqb_refl. lia.
  specialize (IH H). lia.
Qed.
Lemma count_name_zero : forall x l, count_name x l = 0 -> ~ In x l.
Proof. intros x l H Hin. apply count_name_In in Hin. lia. Qed.

(* two different bindings of one name: the name is counted twice *)
Lemma count_two : forall (BS : list (name * bsrc)) x b b', In (x, b) BS -> In (x, b') BS -> b <> b' ->
  2 <= count_name x (map fst BS).
Proof.
  induction BS as [|[y c] BS IH]; intros x b b' H1 H2 Hne. contradiction. cbn [map fst count_name].
  destruct H1 as [H1|H1]; destruct H2 as [H2|H2].
  - congruence.
  - injection H1 as -> ->. rewrite N.eqb_refl. assert (In x (map fst BS)) by (apply in_map_iff; exists (x, b'); auto).
    apply count_name_In in H. lia.
  - injection H2 as -> ->. rewrite N.eqb_refl. assert (In x (map fst BS)) by (apply in_map_iff; exists (x, b); auto).
    apply count_name_In in H. lia.
  - specialize (IH x b b' H1 H2 Hne). lia.
Qed.

Definition Once (BS init : list (name * bsrc)) : Prop :=
  forall x l i, In (x, BImp l i) BS -> count_name x (map fst BS) = 1 /\ lookup_b x init = None.

Lemma imports_once_Once : forall bi ns p, imports_once bi ns p = true ->
  Once (bsrcs_block false p) (others (concat ns ++ bi)).
Proof.
  intros bi ns p H x l i Hin. unfold imports_once in H. rewrite forallb_forall in H. specialize (H _ Hin). cbn [fst snd] in H.
  apply andb_true_iff in H as [H1 H2]. apply Nat.eqb_eq in H1. split. exact H1.
  apply negb_true_iff in H2. destruct (lookup_b x (others (concat ns ++ bi))) eqn:E; auto. exfalso.
  assert (Hn : lookup_b x (others (concat ns ++ bi)) <> None) by congruence. apply lookup_b_others in Hn.
  assert (Hm : mem x (bi ++ concat ns) = true). { apply mem_In. rewrite in_app_iff in *. tauto. }
  congruence.
Qed.

(* the final module binding of a name: the last occurrence in BS, else the initial one *)
Lemma lookup_rev_In : forall BS init x b, lookup_b x (rev BS ++ init) = Some b -> In (x, b) BS \/ lookup_b x init = Some b.
Proof.
  intros BS init x b. induction BS as [|[y c] BS IH] using rev_ind; cbn. auto.
  rewrite rev_app_distr. cbn. destruct (N.eqb x y) eqn:E.
  - apply N.eqb_eq in E. subst y. intro H. injection H as ->. left. apply in_app_iff. right. left. reflexivity.
  - intro H. apply IH in H as [H|H]; auto. left. apply in_app_iff. auto.
Qed.

(* under Once: a name whose final binding is an import has no other binding *)
Lemma once_unique : forall BS I0 x l i b, Once BS (others I0) -> lookup_b x (rev BS ++ others I0) = Some (BImp l i) ->
  In (x, b) BS -> b = BImp l i.
Proof.
  intros BS I0 x l i b HO Hf Hin.
  apply lookup_rev_In in Hf as [Hf|Hf].
  - destruct (HO x l i Hf) as [Hc _].
    assert (Hd : {b = BImp l i} + {b <> BImp l i}) by (repeat decide equality).
    destruct Hd as [->|Hn]. reflexivity.
    pose proof (count_two BS x _ _ Hin Hf Hn) as H2. lia.
  - apply lookup_b_others_other in Hf. discriminate.
Qed.
Lemma final_import_in : forall BS I0 x l i, lookup_b x (rev BS ++ others I0) = Some (BImp l i) -> In (x, BImp l i) BS.
Proof.
  intros BS I0 x l i Hf. apply lookup_rev_In in Hf as [Hf|Hf]. exact Hf. apply lookup_b_others_other in Hf. discriminate.
Qed.

(* ---------- the environment on the tracking side: function frames bind nothing through an import ---------- *)
Definition AllOther (f : frame) : Prop :=
  (forall x b, lookup_b x (fdyn f) = Some b -> b = BOther) /\ (forall x b, lookup_b x (ffinal f) = Some b -> b = BOther).
Fixpoint EnvU (e : env) (Mb : frame) : Prop :=
  match e with
  | [] => False
  | f :: r => match r with [] => f = Mb | _ :: _ => AllOther f /\ EnvU r Mb end
  end.
Definition finM (M : frame) : frame := mkFrame (fk M) (flocals M) (ffinal M) (ffinal M).

Lemma EnvU_finalize : forall e Mb, EnvU e Mb -> EnvU (finalize e) (finM Mb).
Proof.
  induction e as [|f e IH]; intros Mb H. contradiction.
  destruct e as [|f' e'].
  - cbn in H |- *. subst. reflexivity.
  - destruct H as [[A1 A2] H]. specialize (IH Mb H).
    change (finalize (f :: f' :: e')) with (mkFrame (fk f) (flocals f) (ffinal f) (ffinal f) :: finalize (f' :: e')).
    cbn [finalize map] in IH |- *. cbn [EnvU]. split. split; exact A2. exact IH.
Qed.

Lemma resolve_imp : forall L e eaccs Mb x li ii, EnvI L e eaccs -> EnvU e Mb ->
  resolve_outer x e = Bound (BImp li ii) ->
  lookup_b x (fdyn Mb) = Some (BImp li ii) /\ forall l, In l (removelast L) -> ~ In x (l_P l ++ l_B l).
Proof.
  induction L as [|l L IH]; intros e eaccs Mb x li ii H HU Hr. destruct e; destruct eaccs; contradiction.
  destruct L as [|l' L'].
  - destruct e as [|f [|? ?]]; try contradiction. destruct eaccs as [|acc [|? ?]]; try contradiction.
    cbn in HU. subst f. cbn in Hr. split. destruct (lookup_b x (fdyn Mb)); congruence. intros l0 [].
  - destruct e as [|f [|f' e']]; try contradiction; destruct eaccs as [|acc [|acc' accs']]; try contradiction.
    destruct H as (Hk & Hs & Hd & Hi & Hrest). destruct HU as [[A1 A2] HU].
    rewrite resolve_outer_cons, Hk in Hr.
    destruct (mem x (flocals f)) eqn:Em.
    + destruct (lookup_b x (fdyn f)) eqn:E; try discriminate. apply A1 in E. subst. discriminate.
    + destruct (IH (f' :: e') (acc' :: accs') Mb x li ii Hrest HU Hr) as [R1 R2]. split. exact R1.
      intros l0 Hl0. change (removelast (l :: l' :: L')) with (l :: removelast (l' :: L')) in Hl0.
      destruct Hl0 as [<-|Hl0]. intro Hin. apply (proj1 Hs) in Hin. congruence. apply R2. exact Hl0.
Qed.

(* ---------- the tracking-side invariant ---------- *)
Definition Used (s : st) (l : nat) (i : import) : Prop :=
  exists c, c < length (checkers s) /\ c_line (checker_at s c) = l /\ c_imp (checker_at s c) = i /\
            c_used (checker_at s c) = true.
Definition Pend (T : nat) (exp : expmap) (s : st) (x : name) : Prop :=
  exists a stk ln, In (x :: a, stk, ln) (deferred s) /\
    exists pre post, stk = pre ++ T :: post /\ forall j, In j post -> ~ In x (exp j).

Record UI (T : nat) (BS : list (name * bsrc)) (I0 : list name) (exp : expmap) (s : st)
          (Mdyn : list (name * bsrc)) (tr : list rd) : Prop := mkUI {
  u_plain : forall i k v, i <> T -> In (k, v) (scope_dict s i) -> v = Plain;
  u_top : forall k v, In (k, v) (scope_dict s T) ->
          (exists x, k = [x]) /\ (v = Plain \/ exists c, v = Chk c /\ c < length (checkers s));
  u_mod1 : forall x c, dict_get (scope_dict s T) [x] = Some (Chk c) ->
           lookup_b x Mdyn = Some (BImp (c_line (checker_at s c)) (c_imp (checker_at s c)));
  u_mod2 : forall x l i, lookup_b x Mdyn = Some (BImp l i) ->
           exists c, dict_get (scope_dict s T) [x] = Some (Chk c) /\ c_line (checker_at s c) = l /\ c_imp (checker_at s c) = i;
  u_mod0 : forall x, dict_get (scope_dict s T) [x] = Some Plain -> lookup_b x Mdyn = Some BOther;
  u_stab : forall x l i, lookup_b x (rev BS ++ others I0) = Some (BImp l i) ->
           lookup_b x Mdyn = None \/ lookup_b x Mdyn = Some (BImp l i);
  u_dynBS : forall x l i, lookup_b x Mdyn = Some (BImp l i) -> In (x, BImp l i) BS;
  u_unused : unused s = [];
  u_reads : forall ln x l i, In (ln, x, Bound (BImp l i)) tr ->
            Used s l i \/ (lookup_b x (rev BS ++ others I0) = Some (BImp l i) /\ Pend T exp s x) }.

Lemma dict_get_In' : forall d k e, dict_get d k = Some e -> In (k, e) d.
Proof.
  induction d as [|[k0 e0] d IH]; intros k e H; cbn in H. discriminate.
  destruct (dotted_eqb k k0) eqn:E. apply dotted_eqb_eq in E. subst. injection H as ->. left. reflexivity.
  right. apply IH. exact H.
Qed.

Lemma checker_at_with : forall s cs c, checker_at (with_checkers s cs) c = nth c cs ckd.
Proof. reflexivity. Qed.

Lemma Used_marks : forall s s' l i, Marks s s' -> Used s l i -> Used s' l i.
Proof.
  intros s s' l i (cs' & -> & [ML M1 M2 M3]) (c & Hc & H1 & H2 & H3). exists c.
  unfold checker_at in *. cbn [checkers with_checkers]. fold ckd in *. rewrite ML, M1, M2. repeat split; auto.
Qed.

(* states with the same scopes, checkers and unused list; the deferred list may have grown *)
Lemma UI_same : forall T BS I0 exp s s' Mdyn tr,
  scopes s' = scopes s -> checkers s' = checkers s -> unused s' = unused s ->
  (forall d, In d (deferred s) -> In d (deferred s')) ->
  UI T BS I0 exp s Mdyn tr -> UI T BS I0 exp s' Mdyn tr.
Proof.
  intros T BS I0 exp s s' Mdyn tr Es Ec Eu Hd [P1 P2 P3 P4 P40 P5 P6 P7 P8].
  assert (Esd : forall i, scope_dict s' i = scope_dict s i) by (intro i; unfold scope_dict; rewrite Es; reflexivity).
  assert (Eck : forall c, checker_at s' c = checker_at s c) by (intro c; unfold checker_at; rewrite Ec; reflexivity).
  constructor; auto.
  - intros i k v. rewrite Esd. apply P1.
  - intros k v. rewrite Esd, Ec. apply P2.
  - intros x c. rewrite Esd, Eck. apply P3.
  - intros x l i H. destruct (P4 x l i H) as (c & A & B & C). exists c. rewrite Esd, Eck. auto.
  - intros x. rewrite Esd. apply P40.
  - congruence.
  - intros ln x l i H. destruct (P8 ln x l i H) as [(c & A & B & C & D)|[F (a & stk & ln' & Hin & Hp)]].
    + left. exists c. rewrite Ec, Eck. auto.
    + right. split. exact F. exists a, stk, ln'. split. apply Hd. exact Hin. exact Hp.
Qed.

Lemma UI_marks : forall T BS I0 exp s s' Mdyn tr, Marks s s' -> UI T BS I0 exp s Mdyn tr -> UI T BS I0 exp s' Mdyn tr.
Proof.
  intros T BS I0 exp s s' Mdyn tr HM [P1 P2 P3 P4 P40 P5 P6 P7 P8]. pose proof HM as (cs' & -> & [ML M1 M2 M3]).
  constructor; auto.
  - intros k v H. destruct (P2 k v H) as [A [B|(c & B & C)]]. split; auto. split; auto. right. exists c.
    cbn [checkers with_checkers]. rewrite ML. auto.
  - intros x c H. specialize (P3 x c H). unfold checker_at in *. cbn [checkers with_checkers]. fold ckd in *. rewrite M1, M2. exact P3.
  - intros x l i H. destruct (P4 x l i H) as (c & A & B & C). exists c. unfold checker_at in *. cbn [checkers with_checkers].
    fold ckd in *. rewrite M1, M2. auto.
  - intros ln x l i H. destruct (P8 ln x l i H) as [U|[F Hp]]. left. eapply Used_marks; eauto. right. split. exact F. exact Hp.
Qed.

Lemma UI_perm : forall T BS I0 exp s Mdyn tr tr', (forall r, In r tr' -> In r tr) ->
  UI T BS I0 exp s Mdyn tr -> UI T BS I0 exp s Mdyn tr'.
Proof. intros T BS I0 exp s Mdyn tr tr' H [P1 P2 P3 P4 P40 P5 P6 P7 P8]. constructor; auto. intros ln x l i Hin. apply (P8 ln). apply H. exact Hin. Qed.

Lemma Pend_ext : forall T exp exp' s x n, ext n exp exp' ->
  (forall d stk ln, In (d, stk, ln) (deferred s) -> forall i, In i stk -> i < n) -> Pend T exp s x -> Pend T exp' s x.
Proof.
  intros T exp exp' s x n He Hd (a & stk & ln & Hin & pre & post & E & Hp).
  exists a, stk, ln. split. exact Hin. exists pre, post. split. exact E. intros j Hj.
  rewrite He. apply Hp. exact Hj. apply (Hd _ _ _ Hin). subst stk. apply in_app_iff. right. right. exact Hj.
Qed.

Lemma UI_ext : forall T BS I0 exp exp' s Mdyn tr n, ext n exp exp' ->
  (forall d stk ln, In (d, stk, ln) (deferred s) -> forall i, In i stk -> i < n) ->
  UI T BS I0 exp s Mdyn tr -> UI T BS I0 exp' s Mdyn tr.
Proof.
  intros T BS I0 exp exp' s Mdyn tr n He Hd [P1 P2 P3 P4 P40 P5 P6 P7 P8]. constructor; auto.
  intros ln x l i H. destruct (P8 ln x l i H) as [U|[F Hp]]. auto. right. split. exact F. eapply Pend_ext; eauto.
Qed.

(* ---------- the tracking-on state seen through the erasure ---------- *)
Lemma has_er : forall s i x, has (er s) i x = dict_has (scope_dict s i) [x].
Proof. intros. unfold has. rewrite scope_dict_er, dict_has_erd. reflexivity. Qed.
Lemma fresh_er : forall s, fresh (er s) -> fresh s.
Proof.
  intros s H j v Hin. apply (H j (fst v, erd (snd v))). cbn [scopes er]. unfold ers. apply in_map_iff.
  exists (j, v). split. reflexivity. exact Hin.
Qed.
Lemma scope_dict_new_gen : forall s k c j, fresh s ->
  scope_dict (snd (new_scope s k c)) j = if Nat.eqb j (next_id s) then c else scope_dict s j.
Proof.
  intros s k c j Hf. pose proof (new_scope_spec s k c Hf) as H.
  destruct (new_scope s k c) as [i s'] eqn:E. cbn [snd]. destruct H as (-> & _ & _ & Hg & _).
  unfold scope_dict. rewrite Hg. destruct (Nat.eqb j (next_id s)); reflexivity.
Qed.
Lemma rootclosed_er : forall s i, rootclosed (scope_dict (er s) i) -> rootclosed (scope_dict s i).
Proof.
  intros s i H r q Hq. specialize (H r q). rewrite scope_dict_er, !dict_get_erd in H.
  destruct (dict_get (scope_dict s i) (r :: q)); [|congruence].
  destruct (dict_get (scope_dict s i) [r]); [discriminate|]. exfalso. apply H; congruence.
Qed.
Lemma dict_get_none_er : forall s i x, has (er s) i x = false -> dict_get (scope_dict s i) [x] = None.
Proof. intros s i x H. rewrite has_er in H. unfold dict_has in H. destruct (dict_get (scope_dict s i) [x]); congruence. Qed.
Lemma dict_get_some_er : forall s i x, has (er s) i x = true -> exists e, dict_get (scope_dict s i) [x] = Some e.
Proof. intros s i x H. rewrite has_er in H. unfold dict_has in H. destruct (dict_get (scope_dict s i) [x]); eauto. discriminate. Qed.

Lemma bound_er : forall s stk x, bound (er s) stk x = bound s stk x.
Proof.
  intros. unfold bound. induction stk as [|i stk IH]; cbn. reflexivity. rewrite scope_dict_er, dict_has_erd, IH. reflexivity.
Qed.
Lemma stack_of_snoc : forall Lf lm, stack_of (Lf ++ [lm]) = (l_as lm ++ [l_b lm]) ++ stack_of Lf.
Proof. intros. unfold stack_of. rewrite rev_app_distr. cbn [rev app flat_map]. reflexivity. Qed.
Lemma in_stack_inv : forall L j, In j (stack_of L) -> exists k, In k L /\ (In j (l_as k) \/ j = l_b k).
Proof.
  intros L j H. unfold stack_of in H. apply in_flat_map in H as (k & Hk & Hj). exists k. split. apply in_rev. exact Hk.
  unfold ids_of in Hj. apply in_app_iff in Hj as [Hj|[Hj|[]]]; auto.
Qed.

Lemma UI_newscope : forall T BS I0 exp s Mdyn tr k d, fresh s -> next_id s <> T ->
  (forall key v, In (key, v) d -> v = Plain) ->
  UI T BS I0 exp s Mdyn tr -> UI T BS I0 exp (snd (new_scope s k d)) Mdyn tr.
Proof.
  intros T BS I0 exp s Mdyn tr k d Hf HT Hd [P1 P2 P3 P4 P40 P5 P6 P7 P8].
  pose proof (scope_dict_new_gen s k d) as Hsd.
  assert (EsT : scope_dict (snd (new_scope s k d)) T = scope_dict s T).
  { rewrite Hsd by exact Hf. destruct (Nat.eqb T (next_id s)) eqn:E; auto. apply Nat.eqb_eq in E. congruence. }
  assert (Eck : forall c, checker_at (snd (new_scope s k d)) c = checker_at s c) by reflexivity.
  assert (Ec : checkers (snd (new_scope s k d)) = checkers s) by reflexivity.
  constructor; auto.
  - intros i key v Hi. rewrite Hsd by exact Hf. destruct (Nat.eqb i (next_id s)). apply Hd. apply P1. exact Hi.
  - intros key v. rewrite EsT, Ec. apply P2.
  - intros x c. rewrite EsT. apply P3.
  - intros x l i H. rewrite EsT. apply P4. exact H.
  - intros x. rewrite EsT. apply P40.
Qed.

Lemma UI_add_read : forall T BS I0 exp s Mdyn tr ln x r,
  UI T BS I0 exp s Mdyn tr ->
  (forall li ii, r = Bound (BImp li ii) ->
     Used s li ii \/ (lookup_b x (rev BS ++ others I0) = Some (BImp li ii) /\ Pend T exp s x)) ->
  UI T BS I0 exp s Mdyn (tr ++ [(ln, x, r)]).
Proof.
  intros T BS I0 exp s Mdyn tr ln x r [P1 P2 P3 P4 P40 P5 P6 P7 P8] H. constructor; auto.
  intros ln' x' l i Hin. apply in_app_iff in Hin as [Hin|[Hin|[]]]. eauto. injection Hin as <- <- ->. apply H. reflexivity.
Qed.

Lemma Used_mark : forall s c, c < length (checkers s) -> Used (mark_used s c) (c_line (checker_at s c)) (c_imp (checker_at s c)).
Proof.
  intros s c Hc. exists c. unfold mark_used, checker_at. cbn [checkers with_checkers]. rewrite mark_length.
  split. exact Hc. fold ckd. rewrite mark_nth_same by exact Hc. cbn. auto.
Qed.

(* ---------- a load at module level ---------- *)
Lemma imm_u : forall T BS I0 exp lm s tr x a Mdyn Mb,
  in_fd s = false -> T = l_b lm -> UI T BS I0 exp s Mdyn tr -> fdyn Mb = Mdyn ->
  UI T BS I0 exp (load s (stack_of [lm]) (x :: a)) Mdyn (tr ++ [(lineno s, x, resolve x [Mb])]).
Proof.
  intros T BS I0 exp lm s tr x a Mdyn Mb Hfd HT HU Hdyn. subst T. set (T := l_b lm) in *.
  unfold load. rewrite Hfd. unfold check_load.
  pose proof (needs_marks s (stack_of [lm]) (x :: a)) as HM.
  assert (Hold : forall s1 (b : bool), Marks s s1 ->
            UI T BS I0 exp (if b then add_missing s1 (stack_of [lm]) (lineno s) (x :: a) else s1) Mdyn tr).
  { intros s1 b M1. destruct b. 2: eapply UI_marks; eauto.
    destruct (add_missing_spec s1 (stack_of [lm]) (lineno s) (x :: a)) as [E _]. rewrite E.
    apply (UI_same T BS I0 exp s1); try reflexivity. auto. eapply UI_marks; eauto. }
  rewrite (resolve_module x Mb). rewrite Hdyn.
  destruct (lookup_b x Mdyn) as [[li ii|]|] eqn:El.
  - (* bound to an import: its checker is in the top scope and gets marked *)
    destruct (u_mod2 _ _ _ _ _ _ _ HU x li ii El) as (c & Hc & H1 & H2).
    rewrite stack_of_one. rewrite (needs_found s x a (l_as lm) (l_b lm) [] c).
    + cbn [andb]. apply UI_add_read. eapply UI_marks; [apply Marks_mark|exact HU].
      intros li' ii' E. injection E as <- <-. left. rewrite <- H1, <- H2. apply Used_mark.
      apply dict_get_In' in Hc. destruct (u_top _ _ _ _ _ _ _ HU _ _ Hc) as [_ [D|(c' & D & Hlt)]].
      discriminate. injection D as <-. exact Hlt.
    + intros j [].
    + intros k v Hin. apply (u_top _ _ _ _ _ _ _ HU _ _ Hin).
    + exact Hc.
  - destruct (needs s (stack_of [lm]) (x :: a)) as [b s1]. cbn [snd] in HM.
    apply UI_add_read. apply Hold. exact HM. intros li ii E. discriminate.
  - destruct (needs s (stack_of [lm]) (x :: a)) as [b s1]. cbn [snd] in HM.
    apply UI_add_read. apply Hold. exact HM. intros li ii E. discriminate.
Qed.

(* the module-level load with further scopes [Ks] on top of the stack (open comprehensions) *)
Lemma imm_u_gen : forall T BS I0 exp lm s tr x a Mdyn Ks r,
  in_fd s = false -> T = l_b lm -> UI T BS I0 exp s Mdyn tr ->
  (forall li ii, r = Bound (BImp li ii) ->
     lookup_b x Mdyn = Some (BImp li ii) /\
     forall j, In j Ks -> rootclosed (scope_dict s j) /\ dict_get (scope_dict s j) [x] = None) ->
  UI T BS I0 exp (load s (stack_of [lm] ++ Ks) (x :: a)) Mdyn (tr ++ [(lineno s, x, r)]).
Proof.
  intros T BS I0 exp lm s tr x a Mdyn Ks r Hfd HT HU Himp. subst T. set (T := l_b lm) in *.
  unfold load. rewrite Hfd. unfold check_load.
  pose proof (needs_marks s (stack_of [lm] ++ Ks) (x :: a)) as HM.
  assert (Hold : forall s1 (b : bool), Marks s s1 ->
            UI T BS I0 exp (if b then add_missing s1 (stack_of [lm] ++ Ks) (lineno s) (x :: a) else s1) Mdyn tr).
  { intros s1 b M1. destruct b. 2: eapply UI_marks; eauto.
    destruct (add_missing_spec s1 (stack_of [lm] ++ Ks) (lineno s) (x :: a)) as [E _]. rewrite E.
    apply (UI_same T BS I0 exp s1); try reflexivity. auto. eapply UI_marks; eauto. }
  destruct r as [[li ii|]| |].
  - destruct (Himp li ii eq_refl) as [El HK].
    destruct (u_mod2 _ _ _ _ _ _ _ HU x li ii El) as (c & Hc & H1 & H2).
    rewrite stack_of_one, <- app_assoc. cbn [app]. rewrite (needs_found s x a (l_as lm) (l_b lm) Ks c).
    + cbn [andb]. apply UI_add_read. eapply UI_marks; [apply Marks_mark|exact HU].
      intros li' ii' E. injection E as <- <-. left. rewrite <- H1, <- H2. apply Used_mark.
      apply dict_get_In' in Hc. destruct (u_top _ _ _ _ _ _ _ HU _ _ Hc) as [_ [D|(c' & D & Hlt)]].
      discriminate. injection D as <-. exact Hlt.
    + exact HK.
    + intros k v Hin. apply (u_top _ _ _ _ _ _ _ HU _ _ Hin).
    + exact Hc.
  - destruct (needs s (stack_of [lm] ++ Ks) (x :: a)) as [b s1]. cbn [snd] in HM.
    apply UI_add_read. apply Hold. exact HM. intros li ii E. discriminate.
  - destruct (needs s (stack_of [lm] ++ Ks) (x :: a)) as [b s1]. cbn [snd] in HM.
    apply UI_add_read. apply Hold. exact HM. intros li ii E. discriminate.
  - destruct (needs s (stack_of [lm] ++ Ks) (x :: a)) as [b s1]. cbn [snd] in HM.
    apply UI_add_read. apply Hold. exact HM. intros li ii E. discriminate.
Qed.

(* ---------- a load inside a function or lambda body ---------- *)
Definition Own1 (Lf : list lvl) (lm : lvl) (FB : list (name * bsrc)) : Prop :=
  forall x, In x (l_own (last Lf lm)) -> forall li ii, lookup_b x FB <> Some (BImp li ii).

Lemma owns_fn : forall Lf lm x, owns_ok (Lf ++ [lm]) -> (forall k, In k Lf -> ~ In x (l_B k)) ->
  ~ In x (l_own (last Lf lm)) -> forall k, In k Lf -> ~ In x (l_own k).
Proof.
  induction Lf as [|k Lf IH]; intros lm x Ho HB Hl k0 Hk0. contradiction.
  destruct Lf as [|k' r].
  - destruct Hk0 as [<-|[]]. exact Hl.
  - change ((k :: k' :: r) ++ [lm]) with (k :: k' :: (r ++ [lm])) in Ho. destruct Ho as [Hi Ho].
    destruct Hk0 as [<-|Hk0].
    + intro Hx. apply (HB k' (or_intror (or_introl eq_refl))). apply Hi. exact Hx.
    + apply (IH lm x); auto. intros k1 H1. apply HB. right. exact H1.
Qed.

Lemma fn_noexp : forall exp Lf lm x, CtxI exp (Lf ++ [lm]) ->
  (forall k, In k Lf -> ~ In x (l_P k ++ l_B k)) -> (forall k, In k Lf -> ~ In x (l_own k)) ->
  forall i, In i (stack_of Lf) -> ~ In x (exp i).
Proof.
  intros exp Lf lm x HC HPB Hown i Hi Hx. apply in_stack_inv in Hi as (k & Hk & [Hi| ->]).
  - assert (HkL : In k (Lf ++ [lm])) by (apply in_app_iff; auto).
    apply (HPB k Hk). apply in_app_iff. left. apply (cx_as _ _ HC k HkL). unfold ebound. apply existsb_exists.
    exists i. split. exact Hi. apply mem_In. exact Hx.
  - assert (HkL : In k (Lf ++ [lm])) by (apply in_app_iff; auto).
    apply (cx_b _ _ HC k HkL) in Hx. apply in_app_iff in Hx as [Hx|Hx]. apply (Hown k Hk Hx).
    apply (HPB k Hk). apply in_app_iff. auto.
Qed.

Lemma removelast_In' : forall A (l : list A) x, In x (removelast l) -> In x l.
Proof. exact removelast_In. Qed.

(* the step in its general form: the stack may carry further scopes [Ks] on top of the levels (open comprehensions,
   Stage3Unused.v); [r] is what PySem says about the read, and [Himp] what follows when that is an import binding *)
Lemma defer_u_gen : forall T BS I0 exp l l' L'' accs acc ex s tr x a Mdyn Lf lm exp' Ks tp r,
  StI exp (l :: l' :: L'') (acc :: accs) ex (er s) -> ExOK (l :: l' :: L'') ex -> CtxI exp (l :: l' :: L'') ->
  (forall i, In i ex -> i < next_id s) ->
  l :: l' :: L'' = Lf ++ [lm] -> T = l_b lm ->
  UI T BS I0 exp s Mdyn tr ->
  top (stack_of (l :: l' :: L'') ++ Ks) = tp -> tp <> T -> In tp (stack_of (l :: l' :: L'') ++ Ks) ->
  (forall j, In j Ks -> j < next_id s) ->
  (forall li ii, r = Bound (BImp li ii) ->
     lookup_b x (rev BS ++ others I0) = Some (BImp li ii) /\ (forall j, In j (stack_of Lf ++ Ks) -> has (er s) j x = false) /\
     (forall i, In i (removelast (stack_of Lf ++ Ks)) -> ~ In x (exp i)) /\ ~ In x (l_P lm)) ->
  ext (next_id s) exp exp' ->
  StI exp' (l :: l' :: L'') (acc :: accs) ex (er (defer_load s (stack_of (l :: l' :: L'') ++ Ks) (x :: a))) ->
  UI T BS I0 exp' (defer_load s (stack_of (l :: l' :: L'') ++ Ks) (x :: a)) Mdyn (tr ++ [(lineno s, x, r)]).
Proof.
  intros T BS I0 exp l l' L'' accs acc ex s tr x a Mdyn Lf lm exp' Ks tp r HS HX HC Hexlt HL HT HU Htop HtpT Htpin HKlt Himp Hext HS'.
  set (L := l :: l' :: L'') in *. set (stk := stack_of L ++ Ks) in *. set (FB := rev BS ++ others I0) in *.
  pose proof (st_sinv _ _ _ _ _ HS) as HSe.
  assert (Hdef : forall d stk0 ln, In (d, stk0, ln) (deferred s) -> forall i, In i stk0 -> i < next_id s).
  { intros d stk0 ln Hin i Hi. apply (st_def _ _ _ _ _ HS _ _ _ Hin i Hi). }
  assert (HLf : Lf <> []). { intro E. subst Lf. cbn in HL. unfold L in HL. discriminate. }
  assert (Hstk : stk = (l_as lm ++ [T]) ++ (stack_of Lf ++ Ks)). { unfold stk. rewrite HL, stack_of_snoc, HT, <- app_assoc. reflexivity. }
  assert (HTlt : T < next_id s).
  { apply (st_ids _ _ _ _ _ HS). fold L. rewrite HL, stack_of_snoc, HT. apply in_app_iff. left. apply in_app_iff. right. left. reflexivity. }
  assert (Hlt_post : forall i, In i (stack_of Lf ++ Ks) -> i < next_id s).
  { intros i Hi. apply in_app_iff in Hi as [Hi|Hi]; [|apply HKlt; exact Hi].
    apply (st_ids _ _ _ _ _ HS). fold L. rewrite HL, stack_of_snoc. apply in_app_iff. right. exact Hi. }
  (* the first needs-call *)
  pose proof (needs_marks s stk (x :: a)) as HM.
  destruct (needs_er s stk (x :: a)) as (F1 & _ & _). rewrite (needs_S (er s) stk x a HSe) in F1. cbn [fst] in F1.
  rewrite bound_er in F1.
  unfold defer_load in *. fold stk in HS' |- *.
  destruct (needs s stk (x :: a)) as [b s1] eqn:En. cbn [fst snd] in *. subst b.
  destruct (bound s stk x) eqn:Eb; cbn [negb] in *.
  - (* found now *)
    apply UI_add_read.
    + eapply UI_ext; [exact Hext| |eapply UI_marks; [exact HM|exact HU]].
      destruct HM as (cs' & -> & _). exact Hdef.
    + intros li ii Hr. left. destruct (Himp li ii Hr) as (R1 & Hfn & _ & R3).
      (* not in a function scope, not in the initial namespaces: in the module's top scope, as a checker *)
      assert (HasT : has (er s) T x = true).
      { rewrite <- bound_er in Eb. rewrite Hstk in Eb. rewrite (bound_app _ (l_as lm ++ [T])), (bound_app _ (l_as lm)), bound_single in Eb.
        apply orb_true_iff in Eb as [Eb|Eb].
        - apply orb_true_iff in Eb as [Eb|Eb]; auto. exfalso. apply R3.
          assert (Hlm : In lm L) by (rewrite HL; apply in_app_iff; right; left; reflexivity).
          apply (cx_as _ _ HC lm Hlm). rewrite <- Eb. symmetry. apply bound_closed.
          intros i Hi. eapply as_closed; eauto.
        - exfalso. unfold bound in Eb. apply existsb_exists in Eb as (j & Hj & Hh). pose proof (Hfn j Hj) as Hf0. unfold has in Hf0. congruence. }
      destruct (dict_get_some_er _ _ _ HasT) as (e0 & He0).
      assert (Hchk : exists c, e0 = Chk c /\ c < length (checkers s)).
      { destruct (u_top _ _ _ _ _ _ _ HU _ _ (dict_get_In' _ _ _ He0)) as [_ [D|(c & D & Hlt)]]; eauto.
        subst e0. apply (u_mod0 _ _ _ _ _ _ _ HU) in He0. destruct (u_stab _ _ _ _ _ _ _ HU x li ii R1); congruence. }
      destruct Hchk as (c & -> & Hclt).
      pose proof (u_mod1 _ _ _ _ _ _ _ HU x c He0) as Hm1.
      assert (Epair : c_line (checker_at s c) = li /\ c_imp (checker_at s c) = ii).
      { destruct (u_stab _ _ _ _ _ _ _ HU x li ii R1) as [Hn|Hs]; rewrite Hm1 in *. discriminate. injection Hs as -> ->. auto. }
      rewrite Hstk, <- app_assoc in En. cbn [app] in En.
      rewrite (needs_found s x a (l_as lm) T (stack_of Lf ++ Ks) c) in En.
      * injection En as <-. destruct Epair as [<- <-]. apply Used_mark. exact Hclt.
      * intros j Hj. split. apply rootclosed_er. apply (sv_root _ HSe). apply dict_get_none_er. apply Hfn. exact Hj.
      * intros k v Hin. apply (u_top _ _ _ _ _ _ _ HU _ _ Hin).
      * exact He0.
  - (* not bound yet: the entry is deferred with a copy of the top scope *)
    assert (Hf1 : fresh s1). { destruct HM as (cs' & -> & _). apply fresh_er. apply (sv_fresh _ HSe). }
    assert (Hn1 : next_id s1 = next_id s) by (destruct HM as (cs' & -> & _); reflexivity).
    assert (Hsd1 : forall i, scope_dict s1 i = scope_dict s i) by (destruct HM as (cs' & -> & _); reflexivity).
    assert (Hd1 : deferred s1 = deferred s) by (destruct HM as (cs' & -> & _); reflexivity).
    unfold clone_top in *. rewrite Htop in *.
    destruct (get_scope (scopes s1) tp) as [ck d] eqn:Eg.
    assert (Ed : d = scope_dict s tp). { rewrite <- Hsd1. unfold scope_dict. rewrite Eg. reflexivity. }
    pose proof (scope_dict_new_gen s1 KClone d) as Hsd2.
    assert (Enew : fst (new_scope s1 KClone d) = next_id s1) by reflexivity.
    destruct (new_scope s1 KClone d) as [j s2] eqn:E2. cbn [fst snd] in *. subst j.
    assert (E2' : s2 = snd (new_scope s1 KClone d)) by (rewrite E2; reflexivity).
    assert (Hd2 : deferred s2 = deferred s) by (rewrite E2'; exact Hd1).
    set (j := next_id s1) in *. set (stk' := removelast stk ++ [j]) in *.
    assert (Hplain_d : forall key v, In (key, v) d -> v = Plain).
    { intros key v Hin. rewrite Ed in Hin. apply (u_plain _ _ _ _ _ _ _ HU tp key v HtpT Hin). }
    assert (HjT : j <> T) by (unfold j; lia).
    assert (U2 : UI T BS I0 exp' s2 Mdyn tr).
    { rewrite E2'. apply UI_newscope; auto. eapply UI_ext; [exact Hext| |eapply UI_marks; [exact HM|exact HU]].
      rewrite Hd1. exact Hdef. }
    apply UI_add_read.
    + apply (UI_same T BS I0 exp' s2); try reflexivity. cbn [deferred with_deferred]. intros d0 H0. apply in_app_iff. auto. exact U2.
    + intros li ii Hr. right. destruct (Himp li ii Hr) as (R1 & _ & R2 & R3). split. exact R1.
      exists a, stk', (lineno s2). split. cbn [deferred with_deferred]. apply in_app_iff. right. left. reflexivity.
      exists (l_as lm), (removelast (stack_of Lf ++ Ks) ++ [j]). split.
      * unfold stk'. rewrite Hstk. rewrite removelast_app.
        rewrite <- !app_assoc. reflexivity.
        intro E. apply HLf. apply app_eq_nil in E as [E _]. destruct Lf as [|k r0]; auto. exfalso. rewrite (stack_of_cons k r0) in E.
        apply app_eq_nil in E as [_ E]. apply app_eq_nil in E as [_ E]. discriminate.
      * intros i Hi. apply in_app_iff in Hi as [Hi|[<-|[]]].
        -- rewrite Hext. apply R2. exact Hi. apply Hlt_post. apply removelast_In in Hi. exact Hi.
        -- (* the copy: a closed scope that holds what the top scope held at the read *)
           intro Hx.
           assert (Hlt : j < next_id (er (with_deferred s2 (deferred s2 ++ [(x :: a, stk', lineno s2)])))).
           { cbn [next_id er with_deferred]. rewrite E2'. cbn. unfold j. lia. }
           assert (Hnb : ~ In j (map l_b L)).
           { intro Hb. apply in_map_iff in Hb as (k & Ek & Hk). assert (In (l_b k) (stack_of L)) by (apply in_stack_b; exact Hk).
             apply (st_ids _ _ _ _ _ HS) in H. cbn [next_id er] in H. unfold j in Ek. lia. }
           assert (Hne : ~ In j ex). { intro He. apply Hexlt in He. unfold j in He. lia. }
           apply (st_eq _ _ _ _ _ HS' j Hlt Hnb Hne x) in Hx.
           rewrite has_er in Hx.
           change (scope_dict (with_deferred s2 (deferred s2 ++ [(x :: a, stk', lineno s2)])) j) with (scope_dict s2 j) in Hx.
           rewrite Hsd2 in Hx by exact Hf1. unfold j in Hx. rewrite Nat.eqb_refl in Hx. rewrite Ed in Hx. rewrite <- has_er in Hx.
           rewrite <- bound_er in Eb. unfold bound in Eb.
           assert (existsb (fun i => dict_has (scope_dict (er s) i) [x]) stk = true).
           { apply existsb_exists. exists tp. split; auto. }
           congruence.
Qed.

Lemma defer_u : forall T BS I0 exp l l' L'' accs acc ex s e tr x a Mdyn Mb Lf lm exp',
  StI exp (l :: l' :: L'') (acc :: accs) ex (er s) -> ExOK (l :: l' :: L'') ex -> CtxI exp (l :: l' :: L'') ->
  EnvI (l :: l' :: L'') e (acc :: map l_B (l' :: L'')) ->
  (forall i, In i ex -> i < next_id s) ->
  l :: l' :: L'' = Lf ++ [lm] -> T = l_b lm ->
  UI T BS I0 exp s Mdyn tr -> EnvU e Mb -> fdyn Mb = rev BS ++ others I0 ->
  Once BS (others I0) -> Own1 Lf lm (rev BS ++ others I0) -> (forall y, In y (l_P lm) -> In y I0) ->
  ext (next_id s) exp exp' ->
  StI exp' (l :: l' :: L'') (acc :: accs) ex (er (defer_load s (stack_of (l :: l' :: L'')) (x :: a))) ->
  UI T BS I0 exp' (defer_load s (stack_of (l :: l' :: L'')) (x :: a)) Mdyn (tr ++ [(lineno s, x, resolve x e)]).
Proof.
  intros T BS I0 exp l l' L'' accs acc ex s e tr x a Mdyn Mb Lf lm exp' HS HX HC HE Hexlt HL HT HU HEU Hdyn HO HOwn HP Hext HS'.
  set (L := l :: l' :: L'') in *. set (FB := rev BS ++ others I0) in *.
  assert (HLf : Lf <> []). { intro E. subst Lf. cbn in HL. unfold L in HL. discriminate. }
  assert (HlT : l_b l <> T).
  { rewrite HT. intro E. pose proof (st_nodup _ _ _ _ _ HS) as Hnd. fold L in Hnd.
    assert (Hlm : In lm (l' :: L'')).
    { unfold L in HL. destruct Lf as [|k Lf']; cbn in HL. discriminate. injection HL as _ HL. rewrite HL.
      apply in_app_iff. right. left. reflexivity. }
    apply (b_distinct l (l' :: L'') lm Hnd Hlm). symmetry. exact E. }
  assert (Himp : forall li ii, resolve x e = Bound (BImp li ii) ->
            lookup_b x FB = Some (BImp li ii) /\ (forall j, In j (stack_of Lf) -> has (er s) j x = false) /\
            (forall i, In i (removelast (stack_of Lf)) -> ~ In x (exp i)) /\ ~ In x (l_P lm)).
  { intros li ii Hr. rewrite (resolve_EnvI _ _ _ x HE) in Hr.
    destruct (resolve_imp L e _ Mb x li ii HE HEU Hr) as [R1 R2]. rewrite Hdyn in R1. fold FB in R1.
    assert (R2' : forall k, In k Lf -> ~ In x (l_P k ++ l_B k)).
    { intros k Hk. apply R2. rewrite HL. rewrite removelast_app by discriminate. cbn. rewrite app_nil_r. exact Hk. }
    assert (Hno : forall i, In i (stack_of Lf) -> ~ In x (exp i)).
    { apply (fn_noexp exp Lf lm x). rewrite <- HL. exact HC. exact R2'.
      apply (owns_fn Lf lm x). rewrite <- HL. apply (cx_own _ _ HC).
      intros k Hk Hx. apply (R2' k Hk). apply in_app_iff. auto.
      intro Hx. apply (HOwn x Hx li ii). exact R1. }
    split. exact R1. split; [|split].
    - intros j Hj. destruct (has (er s) j x) eqn:E; auto. exfalso. apply (Hno j Hj). apply (st_sub _ _ _ _ _ HS). exact E.
    - intros i Hi. apply Hno. apply removelast_In in Hi. exact Hi.
    - intro Hx. apply HP in Hx. apply final_import_in in R1. destruct (HO x li ii R1) as [_ Hn].
      assert (lookup_b x (others I0) <> None) by (apply lookup_b_others; exact Hx). congruence. }
  pose proof (defer_u_gen T BS I0 exp l l' L'' accs acc ex s tr x a Mdyn Lf lm exp' [] (l_b l) (resolve x e) HS HX HC Hexlt HL HT HU) as G.
  rewrite !app_nil_r in G. apply G; auto.
  - apply stack_top.
  - fold L. unfold L. rewrite stack_of_cons, app_assoc. apply in_app_iff. right. left. reflexivity.
  - intros j [].
Qed.

(* ---------- stores ---------- *)
Lemma store_true_noreport : forall s stk n v,
  (forall c, dict_get (scope_dict s (top stk)) [n] <> Some (Chk c)) ->
  store true s stk [n] v = set_in_scope s (top stk) [n] v.
Proof.
  intros s stk n v H. unfold store. rewrite proper_prefixes_single. cbn [fold_left].
  destruct (dict_get (scope_dict s (top stk)) [n]) as [[|c|cs]|] eqn:E; auto. exfalso. apply (H c). reflexivity.
Qed.

Lemma set_in_scope_same_fields : forall s i k v,
  checkers (set_in_scope s i k v) = checkers s /\ unused (set_in_scope s i k v) = unused s /\
  deferred (set_in_scope s i k v) = deferred s.
Proof. intros. unfold set_in_scope. destruct (get_scope (scopes s) i). cbn. auto. Qed.

Lemma UI_set_other : forall T BS I0 exp s Mdyn tr i n, i <> T ->
  UI T BS I0 exp s Mdyn tr -> UI T BS I0 exp (set_in_scope s i [n] Plain) Mdyn tr.
Proof.
  intros T BS I0 exp s Mdyn tr i n Hi [P1 P2 P3 P4 P40 P5 P6 P7 P8].
  destruct (set_in_scope_same_fields s i [n] Plain) as (Ec & Eu & Ed).
  assert (EsT : scope_dict (set_in_scope s i [n] Plain) T = scope_dict s T).
  { rewrite scope_dict_set_in_scope. destruct (Nat.eqb i T) eqn:E; auto. apply Nat.eqb_eq in E. contradiction. }
  assert (Eck : forall c, checker_at (set_in_scope s i [n] Plain) c = checker_at s c) by (intro c; unfold checker_at; rewrite Ec; reflexivity).
  constructor; auto.
  - intros j k v Hj Hin. rewrite scope_dict_set_in_scope in Hin. destruct (Nat.eqb i j) eqn:E.
    + apply Nat.eqb_eq in E. subst j. eapply dict_set_In_plain; [|exact Hin]. intros k0 e0 H0. eapply P1; eauto.
    + eapply P1; eauto.
  - intros k v. rewrite EsT, Ec. apply P2.
  - intros x c. rewrite EsT, Eck. apply P3.
  - intros x l0 i0 H. destruct (P4 x l0 i0 H) as (c & A & B & C). exists c. rewrite EsT, Eck. auto.
  - intros x. rewrite EsT. apply P40.
  - congruence.
  - intros ln x l0 i0 H. destruct (P8 ln x l0 i0 H) as [(c & A & B & C & D)|[F (a & stk & ln' & Hin & Hp)]].
    + left. exists c. rewrite Ec, Eck. auto.
    + right. split. exact F. exists a, stk, ln'. split. rewrite Ed. exact Hin. exact Hp.
Qed.

Lemma dotted_single_eqb : forall x n, dotted_eqb [x] [n] = N.eqb x n.
Proof. intros. cbn. apply andb_true_r. Qed.

Lemma In_dict_set_single : forall d n v k e, (forall k0 v0, In (k0, v0) d -> exists y, k0 = [y]) ->
  In (k, e) (dict_set d [n] v) -> (exists y, k = [y]) /\ (In (k, e) d \/ e = v).
Proof.
  intros d n v k e Hk Hin. apply dict_set_In in Hin as [Hin|[[-> ->]|(k0 & E & -> & ->)]].
  - split. eapply Hk; eauto. auto.
  - split; eauto.
  - apply dotted_eqb_eq in E. subst k0. split; eauto.
Qed.

(* a non-import binding at module level *)
Lemma UI_set_top_plain : forall T BS I0 exp s Mdyn tr n, Once BS (others I0) ->
  In (n, BOther) BS -> UI T BS I0 exp s Mdyn tr ->
  (forall c, dict_get (scope_dict s T) [n] <> Some (Chk c)) /\
  UI T BS I0 exp (set_in_scope s T [n] Plain) ((n, BOther) :: Mdyn) tr.
Proof.
  intros T BS I0 exp s Mdyn tr n HO Hin HU. pose proof HU as [P1 P2 P3 P4 P40 P5 P6 P7 P8].
  assert (Hno : forall c, dict_get (scope_dict s T) [n] <> Some (Chk c)).
  { intros c Hc. apply P3 in Hc. apply P6 in Hc. destruct (HO _ _ _ Hc) as [H1 _].
    assert (BOther <> BImp (c_line (checker_at s c)) (c_imp (checker_at s c))) by discriminate.
    pose proof (count_two BS n _ _ Hin Hc H). lia. }
  split. exact Hno.
  destruct (set_in_scope_same_fields s T [n] Plain) as (Ec & Eu & Ed).
  assert (EsT : scope_dict (set_in_scope s T [n] Plain) T = dict_set (scope_dict s T) [n] Plain).
  { rewrite scope_dict_set_in_scope, Nat.eqb_refl. reflexivity. }
  assert (Eck : forall c, checker_at (set_in_scope s T [n] Plain) c = checker_at s c) by (intro c; unfold checker_at; rewrite Ec; reflexivity).
  assert (Hget : forall x, dict_get (dict_set (scope_dict s T) [n] Plain) [x] = if N.eqb x n then Some Plain else dict_get (scope_dict s T) [x]).
  { intro x. rewrite dict_get_set, dotted_single_eqb. reflexivity. }
  constructor.
  - intros j k v Hj Hi. rewrite scope_dict_set_in_scope in Hi. destruct (Nat.eqb T j) eqn:E.
    apply Nat.eqb_eq in E. congruence. eapply P1; eauto.
  - intros k v Hi. rewrite EsT in Hi. rewrite Ec.
    apply In_dict_set_single in Hi as [Hs [Hi| ->]]. split. exact Hs. apply (P2 _ _ Hi). split; auto.
    intros k0 v0 H0. apply (P2 _ _ H0).
  - intros x c. rewrite EsT, Hget, Eck. cbn [lookup_b]. destruct (N.eqb x n). discriminate. apply P3.
  - intros x l i. cbn [lookup_b]. rewrite EsT, Hget. destruct (N.eqb x n). discriminate. intro H.
    destruct (P4 x l i H) as (c & A & B & C). exists c. rewrite Eck. auto.
  - intros x. rewrite EsT, Hget. cbn [lookup_b]. destruct (N.eqb x n). reflexivity. apply P40.
  - intros x l i Hf. cbn [lookup_b]. destruct (N.eqb x n) eqn:E.
    + apply N.eqb_eq in E. subst x. pose proof (once_unique BS I0 n l i BOther HO Hf Hin). discriminate.
    + apply P5. exact Hf.
  - intros x l i. cbn [lookup_b]. destruct (N.eqb x n). discriminate. apply P6.
  - congruence.
  - intros ln x l i H. destruct (P8 ln x l i H) as [(c & A & B & C & D)|[F (a & stk & ln' & Hi & Hp)]].
    + left. exists c. rewrite Ec, Eck. auto.
    + right. split. exact F. exists a, stk, ln'. split. rewrite Ed. exact Hi. exact Hp.
Qed.

(* an import binding at module level: a new checker *)
Lemma UI_set_top_imp : forall T BS I0 exp s Mdyn tr a ln imp, Once BS (others I0) ->
  In (a, BImp ln imp) BS -> dict_get (scope_dict s T) [a] = None -> UI T BS I0 exp s Mdyn tr ->
  UI T BS I0 exp (set_in_scope (with_checkers s (checkers s ++ [mkChecker imp ln false])) T [a] (Chk (length (checkers s))))
     ((a, BImp ln imp) :: Mdyn) tr.
Proof.
  intros T BS I0 exp s Mdyn tr a ln imp HO Hin Hnone [P1 P2 P3 P4 P40 P5 P6 P7 P8].
  set (s0 := with_checkers s (checkers s ++ [mkChecker imp ln false])). set (cid := length (checkers s)).
  destruct (set_in_scope_same_fields s0 T [a] (Chk cid)) as (Ec & Eu & Ed).
  assert (EsT : scope_dict (set_in_scope s0 T [a] (Chk cid)) T = dict_set (scope_dict s T) [a] (Chk cid)).
  { rewrite scope_dict_set_in_scope, Nat.eqb_refl. reflexivity. }
  assert (Ecs : checkers (set_in_scope s0 T [a] (Chk cid)) = checkers s ++ [mkChecker imp ln false]) by (rewrite Ec; reflexivity).
  assert (Eold : forall c, c < cid -> checker_at (set_in_scope s0 T [a] (Chk cid)) c = checker_at s c).
  { intros c Hc. unfold checker_at. rewrite Ecs. apply app_nth1. exact Hc. }
  assert (Enew : checker_at (set_in_scope s0 T [a] (Chk cid)) cid = mkChecker imp ln false).
  { unfold checker_at. rewrite Ecs. rewrite app_nth2 by (unfold cid; lia). unfold cid. rewrite Nat.sub_diag. reflexivity. }
  assert (Hget : forall x, dict_get (dict_set (scope_dict s T) [a] (Chk cid)) [x] = if N.eqb x a then Some (Chk cid) else dict_get (scope_dict s T) [x]).
  { intro x. rewrite dict_get_set, dotted_single_eqb. reflexivity. }
  assert (Hclt : forall x c, dict_get (scope_dict s T) [x] = Some (Chk c) -> c < cid).
  { intros x c H. apply dict_get_In' in H. destruct (P2 _ _ H) as [_ [D|(c' & D & Hl)]]. discriminate. injection D as <-. exact Hl. }
  constructor.
  - intros j k v Hj Hi. rewrite scope_dict_set_in_scope in Hi. destruct (Nat.eqb T j) eqn:E.
    apply Nat.eqb_eq in E. congruence. eapply P1; eauto.
  - intros k v Hi. rewrite EsT in Hi. rewrite Ecs, app_length. cbn [length].
    apply In_dict_set_single in Hi as [Hs [Hi| ->]].
    + split. exact Hs. destruct (P2 _ _ Hi) as [_ [D|(c & D & Hl)]]; auto. right. exists c. split; auto. lia.
    + split. exact Hs. right. exists cid. split; auto. fold cid. lia.
    + intros k0 v0 H0. apply (P2 _ _ H0).
  - intros x c. rewrite EsT, Hget. cbn [lookup_b]. destruct (N.eqb x a) eqn:E.
    + intro H. injection H as <-. rewrite Enew. reflexivity.
    + intro H. rewrite Eold by (eapply Hclt; eauto). apply P3. exact H.
  - intros x l i. cbn [lookup_b]. rewrite EsT, Hget. destruct (N.eqb x a) eqn:E.
    + intro H. injection H as <- <-. exists cid. rewrite Enew. auto.
    + intro H. destruct (P4 x l i H) as (c & A & B & C). exists c. rewrite Eold by (eapply Hclt; eauto). auto.
  - intros x. rewrite EsT, Hget. cbn [lookup_b]. destruct (N.eqb x a). discriminate. apply P40.
  - intros x l i Hf. cbn [lookup_b]. destruct (N.eqb x a) eqn:E.
    + apply N.eqb_eq in E. subst x. right. rewrite (once_unique BS I0 a l i (BImp ln imp) HO Hf Hin). reflexivity.
    + apply P5. exact Hf.
  - intros x l i. cbn [lookup_b]. destruct (N.eqb x a) eqn:E.
    + intro H. injection H as <- <-. apply N.eqb_eq in E. subst x. exact Hin.
    + apply P6.
  - rewrite Eu. exact P7.
  - intros ln0 x l i H. destruct (P8 ln0 x l i H) as [(c & A & B & C & D)|[F (a0 & stk & ln' & Hi & Hp)]].
    + left. exists c. rewrite Ecs, app_length, Eold by exact A. cbn [length]. repeat split; auto. lia.
    + right. split. exact F. exists a0, stk, ln'. split. rewrite Ed. exact Hi. exact Hp.
Qed.

(* ---------- the combined invariant ---------- *)
Section U2.
Variables (BS : list (name * bsrc)) (I0 : list name) (lm : lvl).
Let T := l_b lm.
Let FB := rev BS ++ others I0.
Hypothesis HO : Once BS (others I0).
Hypothesis HP : forall y, In y (l_P lm) -> In y I0.

Record Inv3 (exp : expmap) (l : lvl) (L' : list lvl) (acc : list name) (accs : list (list name)) (ex : list nat)
            (s : st) (e : env) (tr : list rd) (Lf : list lvl) (Mdyn : list (name * bsrc)) (Mb : frame) : Prop := mkInv3 {
  v_f : Inv2 exp l L' acc accs ex (er s) e tr;
  v_L : l :: L' = Lf ++ [lm];
  v_u : UI T BS I0 exp s Mdyn tr;
  v_e : EnvU e Mb;
  v_fin : ffinal Mb = FB;
  v_dyn : fdyn Mb = (if is_nil Lf then Mdyn else FB);
  v_own : Own1 Lf lm FB }.

Definition Post3 (exp : expmap) (l : lvl) (L' : list lvl) (acc : list name) (accs : list (list name)) (ex : list nat)
                 (s : st) (e : env) (tr : list rd) (Lf : list lvl) (Mdyn : list (name * bsrc)) (Mb : frame)
                 (s' : st) (rds : list rd) : Prop :=
  exists exp', ext (next_id s) exp exp' /\ Inv3 exp' l L' acc accs ex s' e (tr ++ rds) Lf Mdyn Mb /\
               lineno s' = lineno s /\ next_id s <= next_id s'.

Lemma Inv3_with_ln : forall exp l L' acc accs ex s e tr Lf Mdyn Mb ln,
  Inv3 exp l L' acc accs ex s e tr Lf Mdyn Mb -> Inv3 exp l L' acc accs ex (with_ln s ln) e tr Lf Mdyn Mb.
Proof.
  intros. destruct H. constructor; auto. rewrite er_with_ln. apply Inv2_with_ln. exact v_f0.
  eapply UI_same; [| | | |exact v_u0]; auto.
Qed.

Lemma Post3_refl : forall exp l L' acc accs ex s e tr Lf Mdyn Mb,
  Inv3 exp l L' acc accs ex s e tr Lf Mdyn Mb -> Post3 exp l L' acc accs ex s e tr Lf Mdyn Mb s [].
Proof. intros. exists exp. split. apply ext_refl. rewrite app_nil_r. auto. Qed.

Lemma Post3_seq : forall exp l L' acc accs ex s e tr Lf Mdyn Mb s1 r1 s2 r2,
  Post3 exp l L' acc accs ex s e tr Lf Mdyn Mb s1 r1 ->
  (forall exp1, Inv3 exp1 l L' acc accs ex s1 e (tr ++ r1) Lf Mdyn Mb ->
                Post3 exp1 l L' acc accs ex s1 e (tr ++ r1) Lf Mdyn Mb s2 r2) ->
  Post3 exp l L' acc accs ex s e tr Lf Mdyn Mb s2 (r1 ++ r2).
Proof.
  intros exp l L' acc accs ex s e tr Lf Mdyn Mb s1 r1 s2 r2 (exp1 & X1 & I1 & Ln1 & N1) H2.
  destruct (H2 exp1 I1) as (exp2 & X2 & I2 & Ln2 & N2).
  exists exp2. split. eapply ext_trans; [exact N1|exact X1|exact X2].
  rewrite app_assoc. split. exact I2. split. congruence. lia.
Qed.

Lemma Inv3_def_lt : forall exp l L' acc accs ex s e tr Lf Mdyn Mb, Inv3 exp l L' acc accs ex s e tr Lf Mdyn Mb ->
  forall d stk ln, In (d, stk, ln) (deferred s) -> forall i, In i stk -> i < next_id s.
Proof. intros. apply (st_def _ _ _ _ _ (i_st _ _ _ _ _ _ _ _ _ (v_f _ _ _ _ _ _ _ _ _ _ _ _ H)) _ _ _ H0 i H1). Qed.

Lemma load_u3 : forall exp l L' acc accs ex s e tr Lf Mdyn Mb x a,
  Inv3 exp l L' acc accs ex s e tr Lf Mdyn Mb ->
  Post3 exp l L' acc accs ex s e tr Lf Mdyn Mb (load s (stack_of (l :: L')) (x :: a)) [(lineno s, x, resolve x e)].
Proof.
  intros exp l L' acc accs ex s e tr Lf Mdyn Mb x a H3. pose proof H3 as [HI HL HU HEU Hfin Hdyn Hown].
  destruct Lf as [|k Lf'].
  - (* module level *)
    cbn in HL. injection HL as -> ->. cbn [is_nil] in Hdyn.
    destruct (load_inv _ _ _ _ _ _ _ _ _ x a HI) as (exp' & X & I' & Ln & Nx & Fd). cbv zeta in I', Ln, Nx, Fd.
    rewrite <- er_load in I', Ln, Nx.
    pose proof (i_env _ _ _ _ _ _ _ _ _ HI) as HE. destruct e as [|f [|? ?]]; try contradiction. cbn in HEU. subst f.
    exists exp'. split. exact X. split; [|split; [exact Ln|exact Nx]].
    constructor.
    + exact I'.
    + reflexivity.
    + apply imm_u; auto.
      * pose proof (Inv2_fd _ _ _ _ _ _ _ _ _ HI) as F. exact F.
      * eapply UI_ext; [exact X| |exact HU]. eapply Inv3_def_lt; eauto.
    + reflexivity.
    + exact Hfin.
    + exact Hdyn.
    + exact Hown.
  - (* inside a function or lambda body: two deferrals *)
    cbn in HL. injection HL as <- HL'. destruct L' as [|l' L'']. destruct Lf'; discriminate.
    assert (HL : l :: l' :: L'' = (l :: Lf') ++ [lm]) by (cbn; rewrite HL'; reflexivity).
    cbn [is_nil] in Hdyn.
    destruct HI as [HS HX Hexlt HC HE HT].
    unfold load. change (in_fd s) with (in_fd (er s)). rewrite (st_fd _ _ _ _ _ HS). cbn [length Nat.eqb negb].
    destruct (defer_step exp l l' L'' accs acc ex (er s) e tr x a HS HX HC HE HT)
      as (exp1 & X1 & S1 & C1 & T1 & Ln1 & N1 & M1 & Fd1).
    rewrite <- er_defer_load in S1, T1, Ln1, N1.
    set (s1 := defer_load s (stack_of (l :: l' :: L'')) (x :: a)) in *.
    assert (U1 : UI T BS I0 exp1 s1 Mdyn (tr ++ [(lineno s, x, resolve x e)])).
    { eapply (defer_u T BS I0 exp l l' L'' accs acc ex s e tr x a Mdyn Mb (l :: Lf') lm exp1); eauto. }
    destruct (defer_step exp1 l l' L'' accs acc ex (er s1) e _ x a S1 HX C1 HE T1)
      as (exp2 & X2 & S2 & C2 & T2 & Ln2 & N2 & M2 & Fd2).
    rewrite <- er_defer_load in S2, T2, Ln2, N2.
    set (s2 := defer_load s1 (stack_of (l :: l' :: L'')) (x :: a)) in *.
    assert (U2 : UI T BS I0 exp2 s2 Mdyn ((tr ++ [(lineno s, x, resolve x e)]) ++ [(lineno s1, x, resolve x e)])).
    { eapply (defer_u T BS I0 exp1 l l' L'' accs acc ex s1 e _ x a Mdyn Mb (l :: Lf') lm exp2); eauto.
      intros i Hi. specialize (Hexlt i Hi). cbn [next_id er] in *. lia. }
    assert (Eln : lineno s1 = lineno s) by exact Ln1.
    exists exp2. split. { eapply ext_trans; [|exact X1|exact X2]. cbn [next_id er] in N1. exact N1. }
    split; [|split; [cbn [lineno er] in *; congruence | cbn [next_id er] in *; lia]].
    constructor; auto.
    + constructor; auto.
      * intros i Hi. specialize (Hexlt i Hi). cbn [next_id er] in *. lia.
      * eapply TrI_perm; [|exact T2]. intro r. cbn [lineno er] in *. rewrite Ln1, !in_app_iff. cbn. tauto.
    + eapply UI_perm; [|exact U2]. intro r. rewrite Eln, !in_app_iff. cbn. tauto.
Qed.

Lemma lb_not_T : forall exp l L' acc accs ex s e tr Lf Mdyn Mb,
  Inv3 exp l L' acc accs ex s e tr Lf Mdyn Mb -> Lf <> [] -> l_b l <> T /\ exists l' L'', L' = l' :: L''.
Proof.
  intros exp l L' acc accs ex s e tr Lf Mdyn Mb H3 HLf. destruct H3 as [HI HL _ _ _ _ _].
  destruct Lf as [|k Lf']. congruence. cbn in HL. injection HL as <- HL'.
  assert (Hlm : In lm L') by (rewrite HL'; apply in_app_iff; right; left; reflexivity).
  split.
  - intro E. pose proof (st_nodup _ _ _ _ _ (i_st _ _ _ _ _ _ _ _ _ HI)) as Hnd.
    apply (b_distinct l L' lm Hnd Hlm). symmetry. exact E.
  - destruct L' as [|l' L'']. contradiction. eauto.
Qed.

Lemma AllOther_bind : forall f n, AllOther f -> AllOther (bind n BOther f).
Proof.
  intros f n [A1 A2]. split; [|exact A2]. intros x b. cbn [fdyn bind lookup_b]. destruct (N.eqb x n). congruence. apply A1.
Qed.

Lemma store_name_u3 : forall exp l L' acc accs ex s e tr Lf Mdyn Mb n,
  Inv3 exp l L' acc accs ex s e tr Lf Mdyn Mb -> n <> n_star -> In n (l_B l) -> (Lf = [] -> In (n, BOther) BS) ->
  let s' := store true s (stack_of (l :: L')) [n] Plain in
  Inv3 exp l L' (acc ++ [n]) accs ex s' (ebind n BOther e) tr Lf
       (if is_nil Lf then (n, BOther) :: Mdyn else Mdyn) (if is_nil Lf then bind n BOther Mb else Mb) /\
  next_id s' = next_id s /\ lineno s' = lineno s.
Proof.
  intros exp l L' acc accs ex s e tr Lf Mdyn Mb n H3 Hn Hin HBS. cbv zeta.
  pose proof H3 as [HI HL HU HEU Hfin Hdyn Hown].
  destruct (store_name_inv _ _ _ _ _ _ _ _ _ n BOther HI Hn Hin) as (I1 & N1 & Ln1 & _). cbv zeta in I1, N1, Ln1.
  rewrite <- er_store_name with (v := Plain) in I1, N1, Ln1.
  split; [|split; [exact N1|exact Ln1]].
  assert (Etop : top (stack_of (l :: L')) = l_b l) by apply stack_top.
  destruct Lf as [|k Lf'].
  - cbn in HL. injection HL as -> ->. cbn [is_nil] in *.
    destruct (UI_set_top_plain T BS I0 exp s Mdyn tr n HO (HBS eq_refl) HU) as [Hno U1].
    rewrite store_true_noreport in * by (rewrite Etop; exact Hno). rewrite Etop in *.
    pose proof (i_env _ _ _ _ _ _ _ _ _ HI) as HE. destruct e as [|f [|? ?]]; try contradiction. cbn in HEU. subst f.
    constructor; auto.
    + reflexivity.
    + cbn [fdyn bind]. rewrite Hdyn. reflexivity.
  - destruct (lb_not_T _ _ _ _ _ _ _ _ _ _ _ _ H3) as [HlT (l' & L'' & ->)]. discriminate. cbn [is_nil] in *.
    assert (Hno : forall c, dict_get (scope_dict s (l_b l)) [n] <> Some (Chk c)).
    { intros c Hc. apply dict_get_In' in Hc. apply (u_plain _ _ _ _ _ _ _ HU) in Hc; auto. discriminate. }
    rewrite store_true_noreport in * by (rewrite Etop; exact Hno). rewrite Etop in *.
    pose proof (i_env _ _ _ _ _ _ _ _ _ HI) as HE. destruct e as [|f [|f' e']]; try contradiction.
    destruct HEU as [HA HEU].
    constructor; auto.
    + apply UI_set_other; auto.
    + cbn [ebind with_head head hd EnvU]. split. apply AllOther_bind. exact HA. exact HEU.
Qed.

(* ---------- scopes: push, pop ---------- *)
Lemma push_t : forall s stk ic u, SInv (er s) ->
  push s stk ic false u = (stk ++ [next_id s], snd (new_scope s KNormal [])).
Proof.
  intros s stk ic u H. unfold push.
  assert (E1 : filter (fun i => negb (scope_is_class s i)) stk = stk).
  { apply filter_all. intros x _. rewrite <- scope_is_class_er, (sv_nocls _ H). reflexivity. }
  rewrite E1.
  assert (E2 : scope_dict s delayed_id = []).
  { pose proof (sv_delayed _ H) as E. rewrite scope_dict_er in E. unfold erd in E. apply map_eq_nil in E. exact E. }
  rewrite E2. cbn [negb andb]. rewrite andb_false_r. destruct ic; reflexivity.
Qed.

Lemma T_lt : forall exp l L' acc accs ex s e tr Lf Mdyn Mb,
  Inv3 exp l L' acc accs ex s e tr Lf Mdyn Mb -> T < next_id s.
Proof.
  intros exp l L' acc accs ex s e tr Lf Mdyn Mb [HI HL _ _ _ _ _].
  apply (st_ids _ _ _ _ _ (i_st _ _ _ _ _ _ _ _ _ HI) T). rewrite HL, stack_of_snoc.
  apply in_app_iff. left. apply in_app_iff. right. left. reflexivity.
Qed.

Lemma pop_plain_t : forall T0 BS0 I00 exp s Mdyn tr i, UI T0 BS0 I00 exp s Mdyn tr -> i <> T0 -> pop s i = s.
Proof. reflexivity. Qed.

Lemma open_scope_u3 : forall exp l L' acc accs ex s e tr Lf Mdyn Mb R,
  Inv3 exp l L' acc accs ex s e tr Lf Mdyn Mb ->
  let A := next_id s in
  let s1 := snd (new_scope s KNormal []) in
  Inv3 (upd exp A R) l L' acc accs (A :: ex) s1 e tr Lf Mdyn Mb /\ next_id s1 = S A /\ lineno s1 = lineno s /\
  ext A exp (upd exp A R) /\ ~ In A (stack_of (l :: L')) /\ A <> delayed_id /\ A <> T.
Proof.
  intros exp l L' acc accs ex s e tr Lf Mdyn Mb R H3. cbv zeta. pose proof H3 as [HI HL HU HEU Hfin Hdyn Hown].
  destruct (open_scope exp l L' acc accs ex (er s) e tr R HI) as (I1 & Nx1 & Ln1 & Fd1 & Hempty & X1 & HAoff & HAd).
  cbn [next_id er] in *.
  destruct (er_new_scope s KNormal []) as [_ F2]. cbn [erd map] in F2. rewrite F2 in I1.
  pose proof (T_lt _ _ _ _ _ _ _ _ _ _ _ _ H3) as HT.
  split; [|repeat split; auto; try lia].
  constructor; auto.
  apply UI_newscope.
  - apply fresh_er. apply (sv_fresh _ (st_sinv _ _ _ _ _ (i_st _ _ _ _ _ _ _ _ _ HI))).
  - lia.
  - intros key v [].
  - eapply UI_ext; [exact X1| |exact HU]. eapply Inv3_def_lt; eauto.
Qed.

Lemma params_close_u3 : forall exp l L' acc accs ex s e tr Lf Mdyn Mb A stk ps,
  Inv3 exp l L' acc accs (A :: ex) s e tr Lf Mdyn Mb -> A < next_id s -> A <> delayed_id -> ~ In A (stack_of (l :: L')) ->
  A <> T -> (forall x, In x (exp A) <-> In x ps) -> Forall (fun p => p <> n_star) ps ->
  let s' := fold_left (fun s p => store true s (stk ++ [A]) [p] Plain) ps s in
  Inv3 exp l L' acc accs ex s' e tr Lf Mdyn Mb /\ lineno s' = lineno s /\ next_id s' = next_id s.
Proof.
  intros exp l L' acc accs ex s e tr Lf Mdyn Mb A stk ps H3 HA HAd Hoff HAT Hexp Hns. cbv zeta.
  pose proof H3 as [HI HL HU HEU Hfin Hdyn Hown].
  destruct (params_close exp l L' acc accs ex (er s) e tr A stk ps HI) as (I1 & Ln1 & Nx1 & _); auto.
  rewrite <- er_store_names in I1, Ln1, Nx1.
  split; [|split; [exact Ln1|exact Nx1]].
  constructor; auto.
  clear - HU HAT. revert s HU. induction ps as [|p ps IH]; intros s HU; cbn [fold_left]. exact HU.
  apply IH. rewrite store_true_noreport.
  - rewrite top_snoc. apply UI_set_other; auto.
  - rewrite top_snoc. intros c Hc. apply dict_get_In' in Hc. apply (u_plain _ _ _ _ _ _ _ HU) in Hc; auto. discriminate.
Qed.

(* ---------- entering and leaving the body of a function or lambda ---------- *)
Lemma EnvU_enter : forall e Mb F, e <> [] -> EnvU e Mb -> AllOther F -> EnvU (F :: finalize e) (finM Mb).
Proof.
  intros e Mb F He HU HA. destruct e as [|f r]. congruence.
  change (EnvU (F :: finalize (f :: r)) (finM Mb)) with (AllOther F /\ EnvU (finalize (f :: r)) (finM Mb)).
  split. exact HA. apply EnvU_finalize. exact HU.
Qed.

Lemma enter_u3 : forall exp l L' acc accs ex s e tr Lf Mdyn Mb A P own Bn F,
  Inv3 exp l L' acc accs ex s e tr Lf Mdyn Mb ->
  A < next_id s -> A <> delayed_id -> ~ In A (stack_of (l :: L')) -> ~ In A ex ->
  (forall x, In x (exp A) <-> In x P) ->
  (own = [] \/ exists nm, own = [nm] /\ nm <> n_star) -> incl own (l_B l) ->
  fk F = FFunction -> frame_static (mkL [A] (next_id s) P own Bn) F -> names_eq (fdyn F) (P ++ []) -> AllOther F ->
  (Lf = [] -> forall x, In x own -> forall li ii, lookup_b x FB <> Some (BImp li ii)) ->
  let B := next_id s in
  let lv := mkL [A] B P own Bn in
  let s1 := snd (new_scope (with_fd s true) KNormal []) in
  let s2 := match own with [] => s1 | nm :: _ => set_in_scope s1 B [nm] Plain end in
  let exp' := upd exp B (own ++ Bn) in
  Inv3 exp' lv (l :: L') [] (acc :: accs) ex s2 (F :: finalize e) tr (lv :: Lf) Mdyn (finM Mb) /\
  ext B exp exp' /\ lineno s2 = lineno s /\ next_id s2 = S B.
Proof.
  intros exp l L' acc accs ex s e tr Lf Mdyn Mb A P own Bn F H3 HA HAd HAoff HAex HAexp Hown Hownin HFk HFs HFd HFA HOwn1.
  cbv zeta. pose proof H3 as [HI HL HU HEU Hfin Hdyn Hown0]. destruct HI as [HS HX Hexlt HC HE HT].
  destruct (enter_level exp l L' acc accs ex (er s) e tr A P own Bn F HS HX HC HE HT Hexlt)
    as (S7 & X7 & C7 & E7 & T7 & Xe & Ln7 & Nx7); auto.
  cbv zeta in S7, X7, C7, E7, T7, Xe, Ln7, Nx7. cbn [next_id er] in *.
  set (B := next_id s) in *. set (lv := mkL [A] B P own Bn) in *.
  set (s1 := snd (new_scope (with_fd s true) KNormal [])).
  set (s2 := match own with [] => s1 | nm :: _ => set_in_scope s1 B [nm] Plain end).
  assert (Er : er s2 = match own with [] => snd (new_scope (with_fd (er s) true) KNormal [])
                       | nm :: _ => set_in_scope (snd (new_scope (with_fd (er s) true) KNormal [])) B [nm] Plain end).
  { destruct (er_new_scope (with_fd s true) KNormal []) as [_ F2]. cbn [erd map] in F2. rewrite er_with_fd in F2.
    unfold s2, s1. destruct own as [|nm r]. symmetry. exact F2. rewrite er_set_in_scope. rewrite <- F2. reflexivity. }
  rewrite <- Er in S7, T7, Ln7, Nx7.
  pose proof (T_lt _ _ _ _ _ _ _ _ _ _ _ _ H3) as HTlt. fold B in HTlt.
  assert (He : e <> []). { destruct e. destruct L'; contradiction. discriminate. }
  split; [|split; [exact Xe|split; [exact Ln7|exact Nx7]]].
  constructor.
  - constructor; auto. intros i Hi. cbn [next_id er] in *. rewrite Nx7. specialize (Hexlt i Hi). lia.
  - cbn. rewrite HL. reflexivity.
  - assert (U1 : UI T BS I0 (upd exp B (own ++ Bn)) s1 Mdyn tr).
    { unfold s1. apply UI_newscope.
      + apply fresh_er. apply (sv_fresh _ (st_sinv _ _ _ _ _ HS)).
      + cbn [next_id with_fd]. fold B. lia.
      + intros key v [].
      + apply (UI_same T BS I0 _ s); try reflexivity. auto.
        eapply UI_ext; [exact Xe| |exact HU]. fold B. eapply Inv3_def_lt; eauto. }
    unfold s2. destruct own as [|nm r]. exact U1. apply UI_set_other. lia. exact U1.
  - apply EnvU_enter; auto.
  - exact Hfin.
  - cbn [is_nil fdyn finM]. exact Hfin.
  - intros x Hx li ii. destruct Lf as [|k Lf'].
    + cbn [last] in Hx. cbn [l_own lv] in Hx. apply HOwn1; auto.
    + apply (Hown0 x). change (last (lv :: k :: Lf') lm) with (last (k :: Lf') lm) in Hx. exact Hx.
Qed.

Lemma leave_u3 : forall exp0 l L' acc accs ex s0 e tr0 Lf Mdyn Mb exp5 lv s5 e5 tr5 Mb5,
  Inv3 exp0 l L' acc accs ex s0 e tr0 Lf Mdyn Mb ->
  Inv3 exp5 lv (l :: L') (l_B lv) (acc :: accs) ex s5 e5 tr5 (lv :: Lf) Mdyn Mb5 -> next_id s0 <= next_id s5 ->
  Inv3 exp5 l L' acc accs ex (with_fd s5 (negb (Nat.eqb (length (l :: L')) 1))) e tr5 Lf Mdyn Mb.
Proof.
  intros exp0 l L' acc accs ex s0 e tr0 Lf Mdyn Mb exp5 lv s5 e5 tr5 Mb5 H0 H5 Hn.
  destruct H0 as [HI HL HU HEU Hfin Hdyn Hown]. destruct H5 as [HI5 HL5 HU5 _ _ _ _].
  destruct (leave_level exp5 lv l L' accs acc ex (er s5) (i_st _ _ _ _ _ _ _ _ _ HI5) (i_cx _ _ _ _ _ _ _ _ _ HI5)) as (S9 & C9).
  constructor; auto.
  - rewrite er_with_fd. constructor.
    + exact S9.
    + apply (i_ex _ _ _ _ _ _ _ _ _ HI).
    + intros i Hi. pose proof (i_exlt _ _ _ _ _ _ _ _ _ HI i Hi). cbn [next_id er with_fd] in *. lia.
    + exact C9.
    + apply (i_env _ _ _ _ _ _ _ _ _ HI).
    + eapply TrI_same; [| |apply (i_tr _ _ _ _ _ _ _ _ _ HI5)]; reflexivity.
  - apply (UI_same T BS I0 exp5 s5); try reflexivity. auto. exact HU5.
Qed.

(* ---------- expressions ---------- *)
Lemma AllOther_fun_frame : forall ps body_bs static, (forall x b, In (x, b) body_bs -> b = BOther) ->
  AllOther (fun_frame ps body_bs static).
Proof.
  intros ps body_bs static H. unfold fun_frame. split; cbn [fdyn ffinal]; intros x b Hl.
  - eapply lookup_b_others_other; eauto.
  - apply lookup_rev_In in Hl as [Hl|Hl]. eapply H; eauto. eapply lookup_b_others_other; eauto.
Qed.

Definition PUE (x : expr) : Prop := s2_expr x = true ->
  forall exp l L' acc accs ex s e tr Lf Mdyn Mb, Inv3 exp l L' acc accs ex s e tr Lf Mdyn Mb ->
  Post3 exp l L' acc accs ex s e tr Lf Mdyn Mb (vexpr true x (stack_of (l :: L')) s) (sem_expr (lineno s) e x).

Lemma exprs_u3 : forall es, Forall PUE es -> forallb s2_expr es = true ->
  forall exp l L' acc accs ex s e tr Lf Mdyn Mb, Inv3 exp l L' acc accs ex s e tr Lf Mdyn Mb ->
  Post3 exp l L' acc accs ex s e tr Lf Mdyn Mb (vexpr_list true es (stack_of (l :: L')) s) (sem_exprs (lineno s) e es).
Proof.
  intros es HF. induction HF as [|x es Hx HF IH]; intros Hs exp l L' acc accs ex s e tr Lf Mdyn Mb HI.
  - apply Post3_refl. exact HI.
  - cbn in Hs. apply andb_true_iff in Hs as [H1 H2].
    unfold vexpr_list, sem_exprs. cbn [fold_left flat_map].
    assert (Eln : lineno (vexpr true x (stack_of (l :: L')) s) = lineno s).
    { destruct (Hx H1 _ _ _ _ _ _ _ _ _ _ _ _ HI) as (? & _ & _ & E & _). exact E. }
    eapply Post3_seq.
    + apply (Hx H1 _ _ _ _ _ _ _ _ _ _ _ _ HI).
    + intros exp1 I1. pose proof (IH H2 _ _ _ _ _ _ _ _ _ _ _ _ I1) as P. rewrite Eln in P. exact P.
Qed.

Lemma Inv3_sinv : forall exp l L' acc accs ex s e tr Lf Mdyn Mb,
  Inv3 exp l L' acc accs ex s e tr Lf Mdyn Mb -> SInv (er s).
Proof. intros. apply (st_sinv _ _ _ _ _ (i_st _ _ _ _ _ _ _ _ _ (v_f _ _ _ _ _ _ _ _ _ _ _ _ H))). Qed.

Lemma Inv3_fd : forall exp l L' acc accs ex s e tr Lf Mdyn Mb,
  Inv3 exp l L' acc accs ex s e tr Lf Mdyn Mb -> in_fd s = negb (Nat.eqb (length (l :: L')) 1).
Proof. intros. apply (Inv2_fd _ _ _ _ _ _ _ _ _ (v_f _ _ _ _ _ _ _ _ _ _ _ _ H)). Qed.

Lemma expr_u3 : forall x, PUE x.
Proof.
  intro x. induction x using expr_ind' with (Q := fun _ => True); try exact I; unfold PUE; intros Hs exp l L' acc accs ex s e tr Lf Mdyn Mb HI.
  - (* ELoad *) cbn [vexpr sem_expr]. apply load_u3. exact HI.
  - (* EOp *) cbn [vexpr sem_expr s2_expr] in *. rewrite vgo_eq_t, sgo_eq. rewrite s2go_eq in Hs. apply exprs_u3; auto.
  - (* EAttr *) cbn [vexpr sem_expr s2_expr] in *. apply IHx; auto.
  - (* ELambda *)
    cbn [s2_expr] in Hs. rewrite s2go_eq in Hs. apply andb_true_iff in Hs as [Hs Hbody]. apply andb_true_iff in Hs as [Hps Hds].
    rewrite vexpr_lambda_eq_t, sem_lambda_eq.
    rewrite push_t by (eapply Inv3_sinv; eauto).
    set (stk := stack_of (l :: L')). set (A := next_id s). set (s1 := snd (new_scope s KNormal [])).
    cbv beta iota zeta. rewrite removelast_snoc.
    destruct (open_scope_u3 exp l L' acc accs ex s e tr Lf Mdyn Mb ps HI) as (I1 & Nx1 & Ln1 & X1 & HAoff & HAd & HAT).
    fold A in I1, Nx1, X1, HAoff, HAd, HAT. fold s1 in I1, Nx1, Ln1. fold stk in HAoff.
    destruct (exprs_u3 ds H Hds _ _ _ _ _ _ _ _ _ _ _ _ I1) as (exp2 & X2 & I2 & Ln2 & Nx2).
    fold stk in I2, Ln2, Nx2. set (s2 := vexpr_list true ds stk s1) in *.
    assert (HexpA : forall y, In y (exp2 A) <-> In y ps).
    { intro y. rewrite X2 by lia. unfold upd. rewrite Nat.eqb_refl. reflexivity. }
    assert (Hnsps : Forall (fun p => p <> n_star) ps).
    { apply Forall_forall. intros p Hp. rewrite forallb_forall in Hps. apply not_star_neq. apply Hps. exact Hp. }
    destruct (params_close_u3 exp2 l L' acc accs ex s2 _ _ Lf Mdyn Mb A stk ps I2) as (I3 & Ln3 & Nx3); auto; try lia.
    fold stk. set (s3 := fold_left (fun s p => store true s (stk ++ [A]) [p] Plain) ps s2) in *.
    assert (HS3 : SInv (er (with_fd s3 true))) by (rewrite er_with_fd; apply SInv_with_fd; eapply Inv3_sinv; eauto).
    rewrite push_t by exact HS3. cbv beta iota zeta. change (next_id (with_fd s3 true)) with (next_id s3).
    set (B := next_id s3).
    assert (HAex : ~ In A ex).
    { intro Hin. pose proof (i_exlt _ _ _ _ _ _ _ _ _ (v_f _ _ _ _ _ _ _ _ _ _ _ _ HI) A Hin) as Hlt. cbn [next_id er] in Hlt. unfold A in Hlt. lia. }
    destruct (fun_frame_ok A B ps [] [] []) as (HFk & HFs & HFd). { intro y. reflexivity. }
    cbn [map] in HFs.
    destruct (enter_u3 exp2 l L' acc accs ex s3 e _ Lf Mdyn Mb A ps [] [] (fun_frame ps [] []) I3)
      as (I4 & Xe & Ln4 & Nx4); auto; try lia.
    { intros y []. } { apply AllOther_fun_frame. intros y b []. }
    cbv zeta in I4, Xe, Ln4, Nx4. fold B in I4, Xe, Ln4, Nx4.
    set (lv := mkL [A] B ps [] []) in *. set (s4 := snd (new_scope (with_fd s3 true) KNormal [])) in *.
    set (exp4 := upd exp2 B ([] ++ [])) in *.
    unfold stk at 1. rewrite stackB_eq with (P := ps) (own := []) (Bn := []). fold lv.
    destruct (IHx Hbody _ _ _ _ _ _ _ _ _ _ _ _ I4) as (exp5 & X5 & I5 & Ln5 & Nx5).
    set (s5 := vexpr true x (stack_of (lv :: l :: L')) s4) in *.
    (* leaving: the two pops report nothing *)
    rewrite !top_snoc.
    assert (HBT : B <> T). { pose proof (T_lt _ _ _ _ _ _ _ _ _ _ _ _ I3). unfold B. lia. }
    rewrite (pop_plain_t T BS I0 exp5 s5 Mdyn _ B (v_u _ _ _ _ _ _ _ _ _ _ _ _ I5) HBT).
    assert (U6 : UI T BS I0 exp5 (with_fd s5 (in_fd s3)) Mdyn ((tr ++ sem_exprs (lineno s1) e ds) ++ sem_expr (lineno s4) (fun_frame ps [] [] :: finalize e) x)).
    { apply (UI_same T BS I0 exp5 s5); try reflexivity. auto. apply (v_u _ _ _ _ _ _ _ _ _ _ _ _ I5). }
    rewrite (pop_plain_t T BS I0 exp5 _ Mdyn _ A U6 HAT).
    rewrite (Inv3_fd _ _ _ _ _ _ _ _ _ _ _ _ I3).
    pose proof (leave_u3 exp l L' acc accs ex s e tr Lf Mdyn Mb exp5 lv s5 _ _ _ HI I5) as I6.
    exists exp5. split.
    { intros i Hi. fold A in Hi. rewrite (X5 i), (Xe i), (X2 i), (X1 i) by lia. reflexivity. }
    split. { rewrite Ln1 in *. assert (Eln : lineno s4 = lineno s) by congruence. rewrite Eln in I6. rewrite app_assoc. apply I6. lia. }
    split. cbn [lineno with_fd]. congruence. cbn [next_id with_fd]. lia.
  - (* EComp *) cbn in Hs. discriminate.
Qed.

(* ---------- statements without import (any level) ---------- *)
Definition mdyn (Lf : list lvl) (bs Mdyn : list (name * bsrc)) : list (name * bsrc) := if is_nil Lf then rev bs ++ Mdyn else Mdyn.
Definition mbot (Lf : list lvl) (bs : list (name * bsrc)) (Mb : frame) : frame := if is_nil Lf then bind_all bs Mb else Mb.
Lemma mdyn_nil : forall Lf M, mdyn Lf [] M = M. Proof. intros [|? ?] M; reflexivity. Qed.
Lemma mbot_nil : forall Lf M, mbot Lf [] M = M. Proof. intros [|? ?] M; reflexivity. Qed.
Lemma mdyn_app : forall Lf a b M, mdyn Lf (a ++ b) M = mdyn Lf b (mdyn Lf a M).
Proof. intros [|? ?] a b M; cbn. rewrite rev_app_distr, app_assoc. reflexivity. reflexivity. Qed.
Lemma mbot_app : forall Lf a b M, mbot Lf (a ++ b) M = mbot Lf b (mbot Lf a M).
Proof. intros [|? ?] a b M; cbn. apply bind_all_app. reflexivity. Qed.

Definition PostS3 (exp : expmap) (l : lvl) (L' : list lvl) (acc : list name) (accs : list (list name)) (ex : list nat)
                  (s : st) (e : env) (tr : list rd) (Lf : list lvl) (Mdyn : list (name * bsrc)) (Mb : frame)
                  (s' : st) (e' : env) (rds : list rd) (bs : list (name * bsrc)) : Prop :=
  exists exp', ext (next_id s) exp exp' /\
    Inv3 exp' l L' (acc ++ map fst bs) accs ex s' e' (tr ++ rds) Lf (mdyn Lf bs Mdyn) (mbot Lf bs Mb) /\
    next_id s <= next_id s'.

Lemma PostS3_refl : forall exp l L' acc accs ex s e tr Lf Mdyn Mb,
  Inv3 exp l L' acc accs ex s e tr Lf Mdyn Mb -> PostS3 exp l L' acc accs ex s e tr Lf Mdyn Mb s e [] [].
Proof. intros. exists exp. split. apply ext_refl. cbn [map]. rewrite !app_nil_r, mdyn_nil, mbot_nil. auto. Qed.

Lemma PostS3_seq : forall exp l L' acc accs ex s e tr Lf Mdyn Mb s1 e1 r1 b1 s2 e2 r2 b2,
  PostS3 exp l L' acc accs ex s e tr Lf Mdyn Mb s1 e1 r1 b1 ->
  (forall exp1, Inv3 exp1 l L' (acc ++ map fst b1) accs ex s1 e1 (tr ++ r1) Lf (mdyn Lf b1 Mdyn) (mbot Lf b1 Mb) ->
                PostS3 exp1 l L' (acc ++ map fst b1) accs ex s1 e1 (tr ++ r1) Lf (mdyn Lf b1 Mdyn) (mbot Lf b1 Mb) s2 e2 r2 b2) ->
  PostS3 exp l L' acc accs ex s e tr Lf Mdyn Mb s2 e2 (r1 ++ r2) (b1 ++ b2).
Proof.
  intros exp l L' acc accs ex s e tr Lf Mdyn Mb s1 e1 r1 b1 s2 e2 r2 b2 (exp1 & X1 & I1 & N1) H2.
  destruct (H2 exp1 I1) as (exp2 & X2 & I2 & N2).
  exists exp2. split. eapply ext_trans; [exact N1|exact X1|exact X2].
  rewrite map_app, mdyn_app, mbot_app. split. rewrite <- !app_assoc in I2. exact I2. lia.
Qed.

Lemma Post3_S3 : forall exp l L' acc accs ex s e tr Lf Mdyn Mb s' rds,
  Post3 exp l L' acc accs ex s e tr Lf Mdyn Mb s' rds -> PostS3 exp l L' acc accs ex s e tr Lf Mdyn Mb s' e rds [].
Proof.
  intros exp l L' acc accs ex s e tr Lf Mdyn Mb s' rds (exp' & X & I' & _ & N). exists exp'. cbn [map].
  rewrite app_nil_r, mdyn_nil, mbot_nil. auto.
Qed.

Lemma expr_ln3 : forall x ln exp l L' acc accs ex s e tr Lf Mdyn Mb, s2_expr x = true ->
  Inv3 exp l L' acc accs ex s e tr Lf Mdyn Mb ->
  let s' := vexpr true x (stack_of (l :: L')) (with_ln s ln) in
  PostS3 exp l L' acc accs ex s e tr Lf Mdyn Mb s' e (sem_expr ln e x) [] /\ lineno s' = ln.
Proof.
  intros x ln exp l L' acc accs ex s e tr Lf Mdyn Mb Hx HI. cbv zeta.
  pose proof (expr_u3 x Hx _ _ _ _ _ _ _ _ _ _ _ _ (Inv3_with_ln _ _ _ _ _ _ _ _ _ _ _ _ ln HI)) as P.
  split. apply Post3_S3 in P. exact P. destruct P as (? & _ & _ & E & _). exact E.
Qed.
Lemma expr_cur3 : forall x exp l L' acc accs ex s e tr Lf Mdyn Mb, s2_expr x = true ->
  Inv3 exp l L' acc accs ex s e tr Lf Mdyn Mb ->
  let s' := vexpr true x (stack_of (l :: L')) s in
  PostS3 exp l L' acc accs ex s e tr Lf Mdyn Mb s' e (sem_expr (lineno s) e x) [] /\ lineno s' = lineno s.
Proof.
  intros x exp l L' acc accs ex s e tr Lf Mdyn Mb Hx HI. cbv zeta.
  pose proof (expr_u3 x Hx _ _ _ _ _ _ _ _ _ _ _ _ HI) as P.
  split. apply Post3_S3 in P. exact P. destruct P as (? & _ & _ & E & _). exact E.
Qed.

(* a list of plain-name bindings *)
Lemma binds_u3 : forall names exp l L' acc accs ex s e tr Lf Mdyn Mb,
  Inv3 exp l L' acc accs ex s e tr Lf Mdyn Mb -> Forall (fun n => n <> n_star) names -> incl names (l_B l) ->
  (Lf = [] -> incl (others names) BS) ->
  let s' := fold_left (fun s n => store true s (stack_of (l :: L')) [n] Plain) names s in
  Inv3 exp l L' (acc ++ names) accs ex s' (ebind_all (others names) e) tr Lf (mdyn Lf (others names) Mdyn) (mbot Lf (others names) Mb) /\
  next_id s' = next_id s /\ lineno s' = lineno s.
Proof.
  induction names as [|n names IH]; intros exp l L' acc accs ex s e tr Lf Mdyn Mb HI Hns Hin HBS; cbn [fold_left].
  - cbn [others map]. rewrite app_nil_r, mdyn_nil, mbot_nil, ebind_all_nil. auto.
    eapply Inv2_nonempty. apply (v_f _ _ _ _ _ _ _ _ _ _ _ _ HI).
  - inversion Hns as [|? ? Hn Hns']; subst.
    destruct (store_name_u3 _ _ _ _ _ _ _ _ _ _ _ _ n HI Hn (Hin n (or_introl eq_refl))) as (I1 & E1 & E2).
    { intro E. apply (HBS E). left. reflexivity. }
    cbv zeta in I1, E1, E2.
    destruct (IH _ _ _ _ _ _ _ _ _ _ _ _ I1 Hns') as (I2 & E3 & E4).
    { intros y Hy. apply Hin. right. exact Hy. } { intros E y Hy. apply (HBS E). right. exact Hy. }
    cbv zeta in I2, E3, E4.
    change (others (n :: names)) with ([(n, BOther)] ++ others names).
    rewrite ebind_all_app, mdyn_app, mbot_app. rewrite <- app_assoc in I2. cbn [app] in I2.
    split; [|split; congruence].
    destruct Lf; exact I2.
Qed.

Lemma PostS3_bind : forall exp l L' acc accs ex s e tr Lf Mdyn Mb s' e' bs,
  Inv3 exp l L' (acc ++ map fst bs) accs ex s' e' tr Lf (mdyn Lf bs Mdyn) (mbot Lf bs Mb) -> next_id s' = next_id s ->
  PostS3 exp l L' acc accs ex s e tr Lf Mdyn Mb s' e' [] bs.
Proof. intros. exists exp. split. apply ext_refl. rewrite app_nil_r. split. auto. lia. Qed.

Lemma PostS3_then_bind : forall exp l L' acc accs ex s e tr Lf Mdyn Mb s1 e1 r1 b1 s2 e2 b2,
  PostS3 exp l L' acc accs ex s e tr Lf Mdyn Mb s1 e1 r1 b1 ->
  (forall exp1, Inv3 exp1 l L' (acc ++ map fst b1) accs ex s1 e1 (tr ++ r1) Lf (mdyn Lf b1 Mdyn) (mbot Lf b1 Mb) ->
     Inv3 exp1 l L' ((acc ++ map fst b1) ++ map fst b2) accs ex s2 e2 (tr ++ r1) Lf
          (mdyn Lf b2 (mdyn Lf b1 Mdyn)) (mbot Lf b2 (mbot Lf b1 Mb)) /\ next_id s2 = next_id s1) ->
  PostS3 exp l L' acc accs ex s e tr Lf Mdyn Mb s2 e2 r1 (b1 ++ b2).
Proof.
  intros. rewrite <- (app_nil_r r1). eapply PostS3_seq. exact H. intros exp1 I1. destruct (H0 exp1 I1). apply PostS3_bind; auto.
Qed.

Lemma target_u3 : forall t exp l L' acc accs ex s e tr Lf Mdyn Mb,
  Inv3 exp l L' acc accs ex s e tr Lf Mdyn Mb -> s1_target t = true -> incl (target_names t) (l_B l) ->
  (Lf = [] -> incl (others (target_names t)) BS) ->
  let s' := vtarget true t (stack_of (l :: L')) s in
  Inv3 exp l L' (acc ++ target_names t) accs ex s' (ebind_all (others (target_names t)) e) tr Lf
       (mdyn Lf (others (target_names t)) Mdyn) (mbot Lf (others (target_names t)) Mb) /\
  next_id s' = next_id s /\ lineno s' = lineno s.
Proof.
  intros t exp l L' acc accs ex s e tr Lf Mdyn Mb HI Ht Hin HBS. cbv zeta. rewrite vtarget_u1 by exact Ht.
  apply binds_u3; auto. apply target_names_not_star. exact Ht.
Qed.

Lemma targets_u3 : forall ts exp l L' acc accs ex s e tr Lf Mdyn Mb,
  Inv3 exp l L' acc accs ex s e tr Lf Mdyn Mb -> forallb s1_target ts = true -> incl (flat_map target_names ts) (l_B l) ->
  (Lf = [] -> incl (others (flat_map target_names ts)) BS) ->
  let s' := fold_left (fun s t => vtarget true t (stack_of (l :: L')) s) ts s in
  Inv3 exp l L' (acc ++ flat_map target_names ts) accs ex s' (ebind_all (others (flat_map target_names ts)) e) tr Lf
       (mdyn Lf (others (flat_map target_names ts)) Mdyn) (mbot Lf (others (flat_map target_names ts)) Mb) /\
  next_id s' = next_id s /\ lineno s' = lineno s.
Proof.
  induction ts as [|t ts IH]; intros exp l L' acc accs ex s e tr Lf Mdyn Mb HI Hs Hin HBS; cbn [flat_map fold_left] in *.
  - cbn [others map]. rewrite app_nil_r, mdyn_nil, mbot_nil, ebind_all_nil. auto.
    eapply Inv2_nonempty. apply (v_f _ _ _ _ _ _ _ _ _ _ _ _ HI).
  - cbn in Hs. apply andb_true_iff in Hs as [H1 H2].
    destruct (target_u3 t _ _ _ _ _ _ _ _ _ _ _ _ HI H1) as (I1 & N1 & Ln1).
    { intros y Hy. apply Hin. apply in_app_iff. auto. }
    { intros E y Hy. apply (HBS E). rewrite others_app. apply in_app_iff. auto. }
    cbv zeta in I1, N1, Ln1.
    destruct (IH _ _ _ _ _ _ _ _ _ _ _ _ I1 H2) as (I2 & N2 & Ln2).
    { intros y Hy. apply Hin. apply in_app_iff. auto. }
    { intros E y Hy. apply (HBS E). rewrite others_app. apply in_app_iff. auto. }
    cbv zeta in I2, N2, Ln2.
    rewrite others_app, ebind_all_app, mdyn_app, mbot_app, app_assoc. split. exact I2. split; congruence.
Qed.

Lemma map_fst_others' : forall l, map fst (others l) = l.
Proof. exact map_fst_others. Qed.

Lemma with_items_u3 : forall ln items exp l L' acc accs ex s e tr Lf Mdyn Mb r,
  Inv3 exp l L' acc accs ex s e tr Lf Mdyn Mb -> lineno s = ln -> forallb s2_with_item items = true ->
  incl (flat_map wnames items) (l_B l) -> (Lf = [] -> incl (others (flat_map wnames items)) BS) ->
  let s' := fold_left (with_item_step true (stack_of (l :: L'))) items s in
  exists e' r', fold_left (sem_with_step ln) items (e, r) = (e', r ++ r') /\
    PostS3 exp l L' acc accs ex s e tr Lf Mdyn Mb s' e' r' (others (flat_map wnames items)).
Proof.
  intros ln items. induction items as [|[x ot] items IH]; intros exp l L' acc accs ex s e tr Lf Mdyn Mb r HI Hln Hs Hin HBS;
    cbn [flat_map fold_left] in *.
  - exists e, []. rewrite app_nil_r. split. reflexivity. apply PostS3_refl. exact HI.
  - cbn in Hs. apply andb_true_iff in Hs as [H12 H3]. unfold s2_with_item in H12. cbn [fst snd] in H12.
    apply andb_true_iff in H12 as [H1 H2].
    unfold with_item_step at 2. cbn [fst snd]. unfold sem_with_step at 2. cbn [fst snd].
    destruct (expr_cur3 x _ _ _ _ _ _ _ _ _ _ _ _ H1 HI) as (P1 & Ln1). cbv zeta in P1, Ln1. rewrite Hln in P1.
    change (wnames (x, ot)) with (match ot with Some t => target_names t | None => [] end) in *.
    rewrite others_app in *.
    destruct ot as [t|].
    + set (s1 := vexpr true x (stack_of (l :: L')) s) in *.
      assert (Hin1 : incl (target_names t) (l_B l)) by (intros y Hy; apply Hin; apply in_app_iff; auto).
      assert (HBS1 : Lf = [] -> incl (others (target_names t)) BS) by (intros E y Hy; apply (HBS E); apply in_app_iff; auto).
      assert (Et : exec_target_env ln e t = (ebind_all (others (target_names t)) e, [])).
      { unfold exec_target_env. rewrite exec_target_s1 by exact H2. reflexivity. }
      rewrite Et.
      assert (P2 : PostS3 exp l L' acc accs ex s e tr Lf Mdyn Mb (vtarget true t (stack_of (l :: L')) s1)
                          (ebind_all (others (target_names t)) e) (sem_expr ln e x) ([] ++ others (target_names t))).
      { eapply PostS3_then_bind. exact P1. intros exp1 I1.
        destruct (target_u3 t _ _ _ _ _ _ _ _ _ _ _ _ I1 H2 Hin1 HBS1) as (I2 & N2 & _). cbv zeta in I2, N2.
        rewrite map_fst_others. split. exact I2. exact N2. }
      cbn [app] in P2.
      assert (Ln2 : lineno (vtarget true t (stack_of (l :: L')) s1) = ln).
      { destruct P1 as (expa & _ & Ia & _). cbn [map] in Ia. rewrite app_nil_r, mdyn_nil, mbot_nil in Ia.
        destruct (target_u3 t _ _ _ _ _ _ _ _ _ _ _ _ Ia H2 Hin1 HBS1) as (_ & _ & Lnx). cbv zeta in Lnx. rewrite Lnx, Ln1. exact Hln. }
      destruct P2 as (exp2 & X2 & I2 & N2).
      destruct (IH _ _ _ _ _ _ _ _ _ _ _ _ (r ++ sem_expr ln e x ++ []) I2 Ln2 H3) as (e' & r' & E' & P').
      { intros y Hy. apply Hin. apply in_app_iff. auto. }
      { intros E y Hy. apply (HBS E). apply in_app_iff. auto. }
      exists e', ((sem_expr ln e x ++ []) ++ r'). rewrite E'. split. rewrite !app_assoc. reflexivity.
      rewrite app_nil_r.
      eapply PostS3_seq. exists exp2. split. exact X2. split. exact I2. exact N2. intros exp3 I3.
      destruct (IH _ _ _ _ _ _ _ _ _ _ _ _ (r ++ sem_expr ln e x ++ []) I3 Ln2 H3) as (e'' & r'' & E'' & P'').
      { intros y Hy. apply Hin. apply in_app_iff. auto. }
      { intros E y Hy. apply (HBS E). apply in_app_iff. auto. }
      rewrite E' in E''. injection E'' as <- Er. apply app_inv_head in Er. subst r''. exact P''.
    + cbn [others map app] in *.
      assert (Ln2 : lineno (vexpr true x (stack_of (l :: L')) s) = ln) by congruence.
      destruct P1 as (exp2 & X2 & I2 & N2). pose proof I2 as I2'. cbn [map] in I2'. rewrite app_nil_r, mdyn_nil, mbot_nil in I2'.
      destruct (IH _ _ _ _ _ _ _ _ _ _ _ _ (r ++ sem_expr ln e x) I2' Ln2 H3 Hin HBS) as (e' & r' & E' & P').
      exists e', (sem_expr ln e x ++ r'). rewrite E'. split. rewrite !app_assoc. reflexivity.
      change (others (flat_map wnames items)) with ([] ++ others (flat_map wnames items)).
      eapply PostS3_seq. exists exp2. split. exact X2. split. exact I2. exact N2. intros exp3 I3.
      cbn [map] in I3 |- *. rewrite app_nil_r, mdyn_nil, mbot_nil in *.
      destruct (IH _ _ _ _ _ _ _ _ _ _ _ _ (r ++ sem_expr ln e x) I3 Ln2 H3 Hin HBS) as (e'' & r'' & E'' & P'').
      rewrite E' in E''. injection E'' as <- Er. apply app_inv_head in Er. subst r''. exact P''.
Qed.

Lemma decos_u3 : forall decos exp l L' acc accs ex s e tr Lf Mdyn Mb,
  Inv3 exp l L' acc accs ex s e tr Lf Mdyn Mb -> forallb (fun d : nat * expr => s2_expr (snd d)) decos = true ->
  PostS3 exp l L' acc accs ex s e tr Lf Mdyn Mb (vdecos true decos (stack_of (l :: L')) s) e (sem_decos e decos) [].
Proof.
  induction decos as [|[dl d] decos IH]; intros exp l L' acc accs ex s e tr Lf Mdyn Mb HI Hs.
  - apply PostS3_refl. exact HI.
  - cbn in Hs. apply andb_true_iff in Hs as [H1 H2]. unfold vdecos, sem_decos. cbn [fold_left flat_map fst snd].
    change (@nil (name * bsrc)) with (@nil (name * bsrc) ++ []).
    eapply PostS3_seq. apply (expr_ln3 d dl); eauto. intros exp1 I1. cbn [map] in I1 |- *.
    rewrite app_nil_r, mdyn_nil, mbot_nil in *. apply IH; auto.
Qed.

Lemma Inv3_perm : forall exp l L' acc accs ex s e tr tr' Lf Mdyn Mb, (forall x, In x tr <-> In x tr') ->
  Inv3 exp l L' acc accs ex s e tr Lf Mdyn Mb -> Inv3 exp l L' acc accs ex s e tr' Lf Mdyn Mb.
Proof.
  intros. destruct H0. constructor; auto. eapply Inv2_perm; eauto. eapply UI_perm; [|eauto]. intros r Hr. apply H. exact Hr.
Qed.

(* statements without import bind nothing through an import *)
Lemma noimp_block_other : forall l, Forall (fun x => noimp_stmt x = true -> forall y b, In (y, b) (bsrcs false x) -> b = BOther) l ->
  forallb noimp_stmt l = true -> forall y b, In (y, b) (bsrcs_block false l) -> b = BOther.
Proof.
  induction l as [|x l IH]; intros HF Hs y b Hin. contradiction.
  inversion HF as [|? ? Hx HF']; subst. cbn in Hs. apply andb_true_iff in Hs as [H1 H2].
  unfold bsrcs_block in Hin. cbn [flat_map] in Hin. apply in_app_iff in Hin as [Hin|Hin]. eapply Hx; eauto. eapply IH; eauto.
Qed.
Lemma in_others : forall y b l, In (y, b) (others l) -> b = BOther.
Proof. intros y b l H. unfold others in H. apply in_map_iff in H as (z & E & _). congruence. Qed.
Lemma noimp_other : forall x, noimp_stmt x = true -> forall y b, In (y, b) (bsrcs false x) -> b = BOther.
Proof.
  induction x using stmt_ind'; intros Hn y bb Hin; try discriminate; cbn [bsrcs noimp_stmt] in *; try contradiction.
  - eapply in_others; eauto.
  - destruct a; [|contradiction]. destruct Hin as [E|[]]. congruence.
  - destruct Hin as [E|[]]. congruence.
  - destruct Hin as [E|[]]. congruence.
  - destruct Hin as [E|[]]. congruence.
  - apply andb_true_iff in Hn as [A B]. apply in_app_iff in Hin as [Hin|Hin]. eapply in_others; eauto.
    apply in_app_iff in Hin as [Hin|Hin]. exact (noimp_block_other b H A y bb Hin). exact (noimp_block_other o H0 B y bb Hin).
  - apply andb_true_iff in Hn as [A B]. rewrite app_nil_r in Hin. exact (noimp_block_other b H A y bb Hin).
  - apply andb_true_iff in Hn as [A B]. rewrite app_nil_r in Hin. exact (noimp_block_other b H A y bb Hin).
  - apply in_app_iff in Hin as [Hin|Hin]. eapply in_others; eauto. exact (noimp_block_other b H Hn y bb Hin).
  - apply andb_true_iff in Hn as [Hn D]. apply andb_true_iff in Hn as [Hn C]. apply andb_true_iff in Hn as [A B].
    cbn [app] in Hin. apply in_app_iff in Hin as [Hin|Hin]. exact (noimp_block_other b H A y bb Hin).
    apply in_app_iff in Hin as [Hin|Hin]. exact (noimp_block_other o H1 C y bb Hin). exact (noimp_block_other f H2 D y bb Hin).
Qed.
Lemma noimp_block_other' : forall l, forallb noimp_stmt l = true -> forall y b, In (y, b) (bsrcs_block false l) -> b = BOther.
Proof. intros l. apply noimp_block_other. apply Forall_forall. intros x _. apply noimp_other. Qed.

Definition PUS (x : stmt) : Prop := s2_stmt x = true -> noimp_stmt x = true ->
  forall exp l L' acc accs ex s e tr Lf Mdyn Mb, Inv3 exp l L' acc accs ex s e tr Lf Mdyn Mb ->
  incl (NS x) (l_B l) -> (Lf = [] -> incl (bsrcs false x) BS) ->
  forall e' rds, sem_stmt e x = (e', rds) ->
  PostS3 exp l L' acc accs ex s e tr Lf Mdyn Mb (vstmt true x (stack_of (l :: L')) s) e' rds (bsrcs false x).
Definition PUB (b : list stmt) : Prop := s2_block b = true -> forallb noimp_stmt b = true ->
  forall exp l L' acc accs ex s e tr Lf Mdyn Mb, Inv3 exp l L' acc accs ex s e tr Lf Mdyn Mb ->
  incl (binds_block false b) (l_B l) -> (Lf = [] -> incl (bsrcs_block false b) BS) ->
  forall e' rds, sem_block b e = (e', rds) ->
  PostS3 exp l L' acc accs ex s e tr Lf Mdyn Mb (vblock true b (stack_of (l :: L')) s) e' rds (bsrcs_block false b).

Lemma block_u3 : forall b, Forall PUS b -> PUB b.
Proof.
  induction b as [|x b IH]; intros HF Hs Hn exp l L' acc accs ex s e tr Lf Mdyn Mb HI Hin HBS e' rds E.
  - cbn in E. injection E as <- <-. apply PostS3_refl. exact HI.
  - inversion HF as [|? ? Hx HF']; subst. cbn in Hs, Hn. apply andb_true_iff in Hs as [H1 H2]. apply andb_true_iff in Hn as [N1 N2].
    cbn [sem_block] in E. destruct (sem_stmt e x) as [e1 r1] eqn:E1. destruct (sem_block b e1) as [e2 r2] eqn:E2.
    injection E as <- <-.
    unfold binds_block, bsrcs_block in *. cbn [flat_map] in *. rewrite map_app in Hin. fold (NS x) in *.
    unfold vblock. cbn [fold_left]. eapply PostS3_seq.
    + apply (Hx H1 N1 _ _ _ _ _ _ _ _ _ _ _ _ HI). intros y Hy. apply Hin. apply in_app_iff. auto.
      intros E y Hy. apply (HBS E). apply in_app_iff. auto. exact E1.
    + intros exp1 I1. apply (IH HF' H2 N2 _ _ _ _ _ _ _ _ _ _ _ _ I1). intros y Hy. apply Hin. apply in_app_iff. auto.
      intros E y Hy. apply (HBS E). apply in_app_iff. auto. exact E2.
Qed.

Lemma all_PUE : forall es, Forall PUE es.
Proof. intro es. apply Forall_forall. intros x _. apply expr_u3. Qed.

Lemma def_u3 : forall ln nm decos ps ret body, PUB body -> PUS (SDef ln nm decos ps ret body).
Proof.
  intros ln nm decos ps ret body IHb Hs Hnoimp exp l L' acc accs ex s e tr Lf Mdyn Mb HI Hin HBS e' rds Esem.
  cbn [s2_stmt noimp_stmt] in Hs, Hnoimp. rewrite s2_blk_fix in Hs. rewrite noimp_blk_fix in Hnoimp.
  apply andb_true_iff in Hs as [Hs Hbody]. apply andb_true_iff in Hs as [Hs Hret].
  apply andb_true_iff in Hs as [Hs Hps]. apply andb_true_iff in Hs as [Hnm Hdecos].
  apply not_star_neq in Hnm.
  destruct (s2_params_facts ps Hps) as [Hhdr Hpn].
  rewrite sem_stmt_def in Esem. cbv zeta in Esem.
  destruct (sem_block body (fun_frame (params_names ps) (bsrcs_block false body) (binds_block true body) :: finalize e))
    as [eb r1] eqn:Eb. injection Esem as <- <-.
  unfold NS in *. cbn [bsrcs map fst] in *.
  rewrite vstmt_def_eq_t. cbv zeta.
  set (stk := stack_of (l :: L')).
  (* decorators *)
  destruct (decos_u3 decos _ _ _ _ _ _ _ _ _ _ _ _ (Inv3_with_ln _ _ _ _ _ _ _ _ _ _ _ _ ln HI) Hdecos) as (exp0 & X0 & I0' & N0).
  fold stk in I0', N0. cbn [map] in I0'. rewrite app_nil_r, mdyn_nil, mbot_nil in I0'.
  set (s0 := vdecos true decos stk (with_ln s ln)) in *.
  change (next_id (with_ln s ln)) with (next_id s) in X0, N0.
  rewrite push_t by (eapply Inv3_sinv; eauto). set (A := next_id s0). set (s1 := snd (new_scope s0 KNormal [])).
  cbv beta iota zeta. rewrite removelast_snoc.
  set (P := params_names ps).
  destruct (open_scope_u3 exp0 l L' acc accs ex s0 e _ Lf Mdyn Mb P I0') as (I1 & Nx1 & Ln1 & X1 & HAoff & HAd & HAT).
  fold A in I1, Nx1, X1, HAoff, HAd, HAT. fold s1 in I1, Nx1, Ln1. fold stk in HAoff.
  assert (Hcd1 : in_cd s1 = 0). { change (in_cd s1) with (in_cd (er s1)). apply sv_cd. eapply Inv3_sinv; eauto. }
  rewrite Hcd1. change (Nat.ltb 0 0) with false. cbv iota.
  (* header expressions, in the enclosing scope *)
  rewrite varguments_eq_t, removelast_snoc.
  destruct (exprs_u3 (hdr_finder ps) (all_PUE _) Hhdr _ _ _ _ _ _ _ _ _ _ _ _ (Inv3_with_ln _ _ _ _ _ _ _ _ _ _ _ _ ln I1))
    as (exp2 & X2 & I2 & Ln2 & Nx2).
  fold stk in I2, Ln2, Nx2. set (s2 := vexpr_list true (hdr_finder ps) stk (with_ln s1 ln)) in *.
  change (next_id (with_ln s1 ln)) with (next_id s1) in X2, Nx2.
  change (lineno (with_ln s1 ln)) with ln in Ln2, I2.
  (* parameters *)
  assert (HexpA : forall y, In y (exp2 A) <-> In y (pnames_finder ps)).
  { intro y. rewrite X2 by lia. unfold upd. rewrite Nat.eqb_refl. symmetry. apply pnames_perm. }
  destruct (params_close_u3 exp2 l L' acc accs ex s2 _ _ Lf Mdyn Mb A stk (pnames_finder ps) I2) as (I3 & Ln3 & Nx3); auto; try lia.
  fold stk. set (s3 := fold_left (fun s p => store true s (stk ++ [A]) [p] Plain) (pnames_finder ps) s2) in *.
  (* the return annotation *)
  assert (Pret : Post3 exp2 l L' acc accs ex s3 e ((tr ++ sem_decos e decos) ++ sem_exprs ln e (hdr_finder ps)) Lf Mdyn Mb
                       (voexpr true ret stk s3) (sem_oexpr (lineno s3) e ret)).
  { destruct ret as [r|]; cbn [voexpr sem_oexpr s2_oexpr] in *. apply expr_u3; auto. apply Post3_refl; auto. }
  destruct Pret as (exp4 & X4 & I4 & Ln4 & Nx4). set (s4 := voexpr true ret stk s3) in *.
  rewrite Ln3, Ln2 in I4.
  (* the body scope *)
  assert (HS4 : SInv (er (with_fd s4 true))) by (rewrite er_with_fd; apply SInv_with_fd; eapply Inv3_sinv; eauto).
  rewrite push_t by exact HS4. cbv beta iota zeta. change (next_id (with_fd s4 true)) with (next_id s4).
  set (B := next_id s4). set (s6 := snd (new_scope (with_fd s4 true) KNormal [])).
  assert (Hcd6 : in_cd s6 = 0).
  { change (in_cd s6) with (in_cd (er s4)). apply sv_cd. eapply Inv3_sinv; eauto. }
  rewrite Hcd6. change (Nat.eqb 0 0) with true. cbv iota.
  assert (HBT : B <> T). { pose proof (T_lt _ _ _ _ _ _ _ _ _ _ _ _ I4). unfold B. lia. }
  assert (Hno6 : forall c, dict_get (scope_dict s6 (top ((stk ++ [A]) ++ [B]))) [nm] <> Some (Chk c)).
  { intro c. rewrite top_snoc. unfold s6. rewrite scope_dict_new_gen.
    - change (next_id (with_fd s4 true)) with B. rewrite Nat.eqb_refl. cbn. discriminate.
    - apply fresh_er. rewrite er_with_fd. apply (sv_fresh _ (SInv_with_fd _ _ (Inv3_sinv _ _ _ _ _ _ _ _ _ _ _ _ I4))). }
  rewrite (store_true_noreport s6) by exact Hno6. rewrite !top_snoc.
  set (Bn := binds_block false body).
  set (F := fun_frame P (bsrcs_block false body) (binds_block true body)) in *.
  destruct (fun_frame_ok A B P [nm] (bsrcs_block false body) (binds_block true body)) as (HFk & HFs & HFd).
  { intro y. rewrite (s2_binds_all body Hbody). reflexivity. }
  fold F in HFk, HFs, HFd. change (map fst (bsrcs_block false body)) with Bn in HFs.
  assert (HAex : ~ In A ex).
  { intro Hi. pose proof (i_exlt _ _ _ _ _ _ _ _ _ (v_f _ _ _ _ _ _ _ _ _ _ _ _ I0') A Hi) as Hlt. cbn [next_id er] in Hlt. unfold A in Hlt. lia. }
  assert (HexpA4 : forall y, In y (exp4 A) <-> In y P).
  { intro y. rewrite X4 by lia. rewrite X2 by lia. unfold upd. rewrite Nat.eqb_refl. reflexivity. }
  destruct (enter_u3 exp4 l L' acc accs ex s4 e _ Lf Mdyn Mb A P [nm] Bn F I4)
    as (I7 & Xe & Ln7 & Nx7); auto; try lia.
  { right. exists nm. auto. }
  { apply AllOther_fun_frame. apply noimp_block_other'. exact Hnoimp. }
  { intros E y [<-|[]] li ii Hf. pose proof (once_unique BS I0 nm li ii BOther HO Hf (HBS E _ (or_introl eq_refl))). discriminate. }
  cbv zeta in I7, Xe, Ln7, Nx7. cbv iota in I7, Ln7, Nx7. fold B s6 in I7, Xe, Ln7, Nx7.
  set (lv := mkL [A] B P [nm] Bn) in *. set (s7 := set_in_scope s6 B [nm] Plain) in *.
  set (exp7 := upd exp4 B ([nm] ++ Bn)) in *.
  unfold stk at 1. rewrite stackB_eq with (P := P) (own := [nm]) (Bn := Bn). fold lv.
  destruct (IHb Hbody Hnoimp _ _ _ _ _ _ _ _ _ _ _ _ I7 (incl_refl _)) with (e' := eb) (rds := r1) as (exp8 & X8 & I8 & N8).
  { intro E. discriminate. } { exact Eb. }
  cbn [app] in I8. cbn [mdyn mbot is_nil] in I8. fold Bn in I8.
  set (s8 := vblock true body (stack_of (lv :: l :: L')) s7) in *.
  (* leaving *)
  rewrite (pop_plain_t T BS I0 exp8 s8 Mdyn _ B (v_u _ _ _ _ _ _ _ _ _ _ _ _ I8) HBT).
  assert (U9 : UI T BS I0 exp8 (with_fd s8 (in_fd s4)) Mdyn
                  ((((tr ++ sem_decos e decos) ++ sem_exprs ln e (hdr_finder ps)) ++ sem_oexpr ln e ret) ++ r1)).
  { apply (UI_same T BS I0 exp8 s8); try reflexivity. auto. apply (v_u _ _ _ _ _ _ _ _ _ _ _ _ I8). }
  rewrite (pop_plain_t T BS I0 exp8 _ Mdyn _ A U9 HAT).
  rewrite (Inv3_fd _ _ _ _ _ _ _ _ _ _ _ _ I4).
  pose proof (leave_u3 exp l L' acc accs ex s e tr Lf Mdyn Mb exp8 lv s8 _ _ _ HI I8) as I9.
  set (s9 := with_fd s8 (negb (Nat.eqb (length (l :: L')) 1))) in *.
  assert (I9' : Inv3 exp8 l L' acc accs ex s9 e
                  ((((tr ++ sem_decos e decos) ++ sem_exprs ln e (hdr_finder ps)) ++ sem_oexpr ln e ret) ++ r1) Lf Mdyn Mb).
  { apply I9. lia. }
  destruct (store_name_u3 _ _ _ _ _ _ _ _ _ _ _ _ nm I9' Hnm (Hin nm (or_introl eq_refl))) as (I10 & N10 & _).
  { intro E. apply (HBS E). left. reflexivity. }
  cbv zeta in I10, N10. fold stk in I10, N10.
  exists exp8. split.
  { intros i Hi. rewrite (X8 i), (Xe i), (X4 i), (X2 i), (X1 i), (X0 i) by lia. reflexivity. }
  split; [|change (next_id s9) with (next_id s8) in N10; lia].
  cbn [map fst]. 
  assert (Em : mdyn Lf [(nm, BOther)] Mdyn = (if is_nil Lf then (nm, BOther) :: Mdyn else Mdyn)) by (destruct Lf; reflexivity).
  assert (Eb' : mbot Lf [(nm, BOther)] Mb = (if is_nil Lf then bind nm BOther Mb else Mb)) by (destruct Lf; reflexivity).
  rewrite Em, Eb'.
  eapply Inv3_perm; [|exact I10].
  intro x. pose proof (sem_exprs_perm ln e _ _ (hdr_perm ps ret) x) as Hp.
  rewrite sem_exprs_app, in_app_iff in Hp. rewrite sem_oexpr_eq. rewrite !in_app_iff. tauto.
Qed.

Lemma incl_app_l : forall A (a b c : list A), incl (a ++ b) c -> incl a c.
Proof. intros A a b c H y Hy. apply H. apply in_app_iff. auto. Qed.
Lemma incl_app_r : forall A (a b c : list A), incl (a ++ b) c -> incl b c.
Proof. intros A a b c H y Hy. apply H. apply in_app_iff. auto. Qed.

Lemma stmt_u3 : forall x, PUS x.
Proof.
  induction x using stmt_ind'; try (intros Hs; discriminate); try (intros Hs Hn; discriminate); try rename e into e0; try rename ex into exs;
    intros Hs Hn exp l L' acc accs ex s e tr Lf Mdyn Mb HI Hin HBS e' rds Esem; unfold NS in *.
  - (* SExpr *)
    cbn in Esem. injection Esem as <- <-. cbn [s2_stmt vstmt bsrcs map] in *.
    apply (expr_ln3 e0 ln); auto.
  - (* SAssign *)
    cbn [s2_stmt] in Hs. apply andb_true_iff in Hs as [H1 H2].
    rewrite sem_stmt_assign in Esem. cbv zeta in Esem. cbn [vstmt bsrcs] in *. rewrite tgo_eq in *. rewrite map_fst_others in Hin.
    destruct (expr_ln3 v ln _ _ _ _ _ _ _ _ _ _ _ _ H1 HI) as (P1 & Ln1). cbv zeta in P1, Ln1.
    assert (Et : fold_left (sem_target_step ln) ts (e, []) = (ebind_all (others (flat_map target_names ts)) e, [])).
    { destruct P1 as (expa & _ & Ia & _). cbn [map] in Ia. rewrite app_nil_r in Ia.
      destruct (targets_inv ln ts _ _ _ _ _ _ _ _ _ [] (v_f _ _ _ _ _ _ _ _ _ _ _ _ Ia) H2 Hin) as (E & _). exact E. }
    rewrite Et in Esem. injection Esem as <- <-. rewrite app_nil_r.
    change (others (flat_map target_names ts)) with ([] ++ others (flat_map target_names ts)) at 2.
    eapply PostS3_then_bind. exact P1. intros exp1 I1.
    destruct (targets_u3 ts _ _ _ _ _ _ _ _ _ _ _ _ I1 H2) as (I2 & N2 & _). { exact Hin. } { exact HBS. }
    cbv zeta in I2, N2. rewrite map_fst_others. split. exact I2. exact N2.
  - (* SAugAssign *)
    cbn [s2_stmt] in Hs. apply andb_true_iff in Hs as [H12 H3]. apply andb_true_iff in H12 as [H1 H2].
    apply is_nil_true in H1. subst a. apply not_star_neq in H2.
    cbn in Esem. injection Esem as <- <-. cbn [vstmt bsrcs map fst] in *.
    change [(n, BOther)] with ([] ++ others [n]).
    change ((ln, n, resolve n e) :: sem_expr ln e v) with ([(ln, n, resolve n e)] ++ sem_expr ln e v).
    eapply PostS3_then_bind.
    2:{ intros exp2 I2.
        destruct (binds_u3 [n] _ _ _ _ _ _ _ _ _ _ _ _ I2) as (I3 & N3 & _).
        { constructor; auto. } { exact Hin. } { exact HBS. }
        cbv zeta in I3, N3. cbn [fold_left] in I3, N3. rewrite map_fst_others. split. exact I3. exact N3. }
    change (@nil (name * bsrc)) with (@nil (name * bsrc) ++ []).
    eapply PostS3_seq.
    { destruct (load_u3 _ _ _ _ _ _ _ _ _ _ _ _ n [] (Inv3_with_ln _ _ _ _ _ _ _ _ _ _ _ _ ln HI)) as (exp1 & X1 & I1 & Ln1 & N1).
      exists exp1. cbn [map]. rewrite app_nil_r, mdyn_nil, mbot_nil. split. exact X1. split. exact I1. exact N1. }
    intros exp1 I1.
    assert (Ln1 : lineno (load (with_ln s ln) (stack_of (l :: L')) [n]) = ln).
    { destruct (load_u3 _ _ _ _ _ _ _ _ _ _ _ _ n [] (Inv3_with_ln _ _ _ _ _ _ _ _ _ _ _ _ ln HI)) as (? & _ & _ & Lnx & _). exact Lnx. }
    destruct (expr_cur3 v _ _ _ _ _ _ _ _ _ _ _ _ H3 I1) as (P2 & _). cbv zeta in P2. rewrite Ln1 in P2. exact P2.
  - (* SDef *)
    apply (def_u3 ln nm decos ps ret body (block_u3 body H) Hs Hn _ _ _ _ _ _ _ _ _ _ _ _ HI Hin HBS _ _ Esem).
  - (* SFor *)
    cbn [s2_stmt noimp_stmt] in Hs, Hn. rewrite !s2_blk_fix in Hs. rewrite !noimp_blk_fix in Hn.
    apply andb_true_iff in Hs as [H123 H4]. apply andb_true_iff in H123 as [H12 H3]. apply andb_true_iff in H12 as [H1 H2].
    apply andb_true_iff in Hn as [Nb No].
    rewrite vstmt_for. rewrite sem_stmt_for in Esem. cbv zeta in Esem.
    cbn [bsrcs] in *. rewrite !bsrcs_blk_fix in *. rewrite !map_app, map_fst_others in Hin.
    fold (binds_block false b) (binds_block false o) in *.
    assert (Et : exec_target_env ln e t = (ebind_all (others (target_names t)) e, [])).
    { unfold exec_target_env. rewrite exec_target_s1 by exact H1. reflexivity. }
    rewrite Et in Esem.
    destruct (sem_block b (ebind_all (others (target_names t)) e)) as [e2 r2] eqn:E2.
    destruct (sem_block o e2) as [e3 r3] eqn:E3. injection Esem as <- <-.
    change (others (target_names t) ++ bsrcs_block false b ++ bsrcs_block false o)
      with (([] ++ others (target_names t)) ++ bsrcs_block false b ++ bsrcs_block false o).
    eapply PostS3_seq.
    { eapply PostS3_then_bind. apply (expr_ln3 it ln); eauto. intros exp1 I1.
      destruct (target_u3 t _ _ _ _ _ _ _ _ _ _ _ _ I1 H1) as (I2 & N2 & _).
      { exact (incl_app_l _ _ _ _ Hin). } { intros E. exact (incl_app_l _ _ _ _ (HBS E)). }
      cbv zeta in I2, N2. rewrite map_fst_others. split. exact I2. exact N2. }
    intros exp2 I2.
    eapply PostS3_seq.
    { apply (block_u3 b H H3 Nb _ _ _ _ _ _ _ _ _ _ _ _ I2 (incl_app_l _ _ _ _ (incl_app_r _ _ _ _ Hin))). 
      intros E. exact (incl_app_l _ _ _ _ (incl_app_r _ _ _ _ (HBS E))). exact E2. }
    intros exp3 I3.
    apply (block_u3 o H0 H4 No _ _ _ _ _ _ _ _ _ _ _ _ I3 (incl_app_r _ _ _ _ (incl_app_r _ _ _ _ Hin))).
    intros E. exact (incl_app_r _ _ _ _ (incl_app_r _ _ _ _ (HBS E))). exact E3.
  - (* SWhile *)
    cbn [s2_stmt noimp_stmt] in Hs, Hn. rewrite !s2_blk_fix in Hs. rewrite !noimp_blk_fix in Hn.
    apply andb_true_iff in Hs as [H12 H3]. apply andb_true_iff in H12 as [H1 H2]. apply is_nil_true in H3. subst o.
    apply andb_true_iff in Hn as [Nb _].
    rewrite vstmt_while. rewrite sem_stmt_while in Esem. cbv zeta in Esem.
    cbn [bsrcs] in *. rewrite !bsrcs_blk_fix in *. rewrite app_nil_r in *. fold (binds_block false b) in *.
    destruct (sem_block b e) as [e2 r2] eqn:E2. injection Esem as <- <-.
    change (bsrcs_block false b) with ([] ++ bsrcs_block false b). unfold vblock at 1. cbn [fold_left].
    eapply PostS3_seq. apply (expr_ln3 t ln); eauto. intros exp1 I1.
    apply (block_u3 b H H2 Nb _ _ _ _ _ _ _ _ _ _ _ _ I1 Hin HBS _ _ E2).
  - (* SIf *)
    cbn [s2_stmt noimp_stmt] in Hs, Hn. rewrite !s2_blk_fix in Hs. rewrite !noimp_blk_fix in Hn.
    apply andb_true_iff in Hs as [H12 H3]. apply andb_true_iff in H12 as [H1 H2]. apply is_nil_true in H3. subst o.
    apply andb_true_iff in Hn as [Nb _].
    rewrite vstmt_if. rewrite sem_stmt_if in Esem. cbv zeta in Esem.
    cbn [bsrcs] in *. rewrite !bsrcs_blk_fix in *. rewrite app_nil_r in *. fold (binds_block false b) in *.
    destruct (sem_block b e) as [e2 r2] eqn:E2. injection Esem as <- <-.
    change (bsrcs_block false b) with ([] ++ bsrcs_block false b). unfold vblock at 1. cbn [fold_left].
    eapply PostS3_seq. apply (expr_ln3 t ln); eauto. intros exp1 I1.
    apply (block_u3 b H H2 Nb _ _ _ _ _ _ _ _ _ _ _ _ I1 Hin HBS _ _ E2).
  - (* SWith *)
    cbn [s2_stmt noimp_stmt] in Hs, Hn. rewrite !s2_blk_fix in Hs. rewrite !noimp_blk_fix in Hn. apply andb_true_iff in Hs as [H1 H2].
    rewrite vstmt_with. rewrite sem_stmt_with in Esem.
    cbn [bsrcs] in *. rewrite !bsrcs_blk_fix in *. rewrite map_app, map_fst_others in Hin. fold (binds_block false b) in *.
    change (flat_map (fun it : expr * option target => match snd it with Some t => target_names t | None => [] end) items)
      with (flat_map wnames items) in *.
    destruct (with_items_u3 ln items _ _ _ _ _ _ _ _ _ _ _ _ [] (Inv3_with_ln _ _ _ _ _ _ _ _ _ _ _ _ ln HI) eq_refl H1 (incl_app_l _ _ _ _ Hin))
      as (e1 & r1 & E1 & P1).
    { intros E. exact (incl_app_l _ _ _ _ (HBS E)). }
    cbv zeta in P1. rewrite E1 in Esem. cbn [app] in Esem.
    destruct (sem_block b e1) as [e2 r2] eqn:E2. injection Esem as <- <-.
    eapply PostS3_seq.
    { destruct P1 as (exp1 & X1 & I1 & N1). exists exp1. split. exact X1. split. exact I1. exact N1. }
    intros exp1 I1. apply (block_u3 b H H2 Hn _ _ _ _ _ _ _ _ _ _ _ _ I1). exact (incl_app_r _ _ _ _ Hin).
    intros E. exact (incl_app_r _ _ _ _ (HBS E)). exact E2.
  - (* STry *)
    cbn [s2_stmt noimp_stmt] in Hs, Hn. rewrite !s2_blk_fix in Hs. rewrite !noimp_blk_fix in Hn.
    apply andb_true_iff in Hs as [Habc Hd]. apply andb_true_iff in Habc as [Hab Hc]. apply andb_true_iff in Hab as [Ha Hb].
    apply is_nil_true in Hb. subst hs.
    apply andb_true_iff in Hn as [Hn Nd]. apply andb_true_iff in Hn as [Hn Nc]. apply andb_true_iff in Hn as [Na _].
    rewrite vstmt_try_nohandler. rewrite sem_stmt_try in Esem.
    cbn [bsrcs] in *. rewrite !bsrcs_blk_fix in *. cbn [app] in *. rewrite !map_app in Hin.
    fold (binds_block false b) (binds_block false o) (binds_block false f) in *.
    destruct (sem_block b e) as [e1 r1] eqn:E1. destruct (sem_block o e1) as [e2 r2] eqn:E2.
    destruct (sem_block f e2) as [e3 r3] eqn:E3. injection Esem as <- <-.
    eapply PostS3_seq.
    { destruct (block_u3 b H Ha Na _ _ _ _ _ _ _ _ _ _ _ _ (Inv3_with_ln _ _ _ _ _ _ _ _ _ _ _ _ ln HI) (incl_app_l _ _ _ _ Hin)) with (e' := e1) (rds := r1)
        as (exp1 & X1 & I1 & N1). intros E. exact (incl_app_l _ _ _ _ (HBS E)). exact E1.
      exists exp1. split. exact X1. split. exact I1. exact N1. }
    intros exp1 I1. eapply PostS3_seq.
    { apply (block_u3 o H1 Hc Nc _ _ _ _ _ _ _ _ _ _ _ _ I1 (incl_app_l _ _ _ _ (incl_app_r _ _ _ _ Hin))).
      intros E. exact (incl_app_l _ _ _ _ (incl_app_r _ _ _ _ (HBS E))). exact E2. }
    intros exp2 I2.
    apply (block_u3 f H2 Hd Nd _ _ _ _ _ _ _ _ _ _ _ _ I2 (incl_app_r _ _ _ _ (incl_app_r _ _ _ _ Hin))).
    intros E. exact (incl_app_r _ _ _ _ (incl_app_r _ _ _ _ (HBS E))). exact E3.
  - (* SPass *)
    cbn in Esem. injection Esem as <- <-. cbn [vstmt bsrcs map].
    destruct (PostS3_refl _ _ _ _ _ _ _ _ _ _ _ _ (Inv3_with_ln _ _ _ _ _ _ _ _ _ _ _ _ ln HI)) as (exp1 & X1 & I1 & N1).
    exists exp1. split. exact X1. split. exact I1. exact N1.
  - (* SDoc *)
    cbn in Esem. injection Esem as <- <-. cbn [vstmt bsrcs map].
    destruct (PostS3_refl _ _ _ _ _ _ _ _ _ _ _ _ (Inv3_with_ln _ _ _ _ _ _ _ _ _ _ _ _ ln HI)) as (exp1 & X1 & I1 & N1).
    exists exp1. split. exact X1. split. exact I1. exact N1.
Qed.

(* ---------- the top level of the module: import statements ---------- *)
Hypothesis HB : l_B lm = map fst BS.

Lemma top_absent : forall exp acc accs ex s e tr Mdyn Mb done a b rest,
  Inv3 exp lm [] acc accs ex s e tr [] Mdyn Mb -> acc = map fst done -> BS = done ++ (a, b) :: rest ->
  count_name a (map fst BS) = 1 -> dict_get (scope_dict s T) [a] = None.
Proof.
  intros exp acc accs ex s e tr Mdyn Mb done a b rest H3 Hacc HBS Hc.
  apply dict_get_none_er. destruct (has (er s) T a) eqn:E; auto. exfalso.
  pose proof (v_f _ _ _ _ _ _ _ _ _ _ _ _ H3) as HI.
  pose proof (st_top _ _ _ _ _ (i_st _ _ _ _ _ _ _ _ _ HI)) as Ht. inversion Ht as [|? ? ? ? [Ht1 _] _]; subst.
  apply Ht1 in E. pose proof (cx_own _ _ (i_cx _ _ _ _ _ _ _ _ _ HI)) as Ho. cbn in Ho. rewrite Ho in E. cbn [app] in E.
  rewrite HBS, map_app, count_name_app in Hc. cbn [map fst count_name] in Hc. rewrite N.eqb_refl in Hc.
  apply count_name_In in E. lia.
Qed.

Lemma pairs_app_one : forall s ck, pairs (with_checkers s (checkers s ++ [ck])) = pairs s ++ [(c_line ck, c_imp ck)].
Proof. intros. unfold pairs. cbn [checkers with_checkers]. rewrite map_app. reflexivity. Qed.

(* one import binding: (a, BImp ln imp), stored under the key [a] with a fresh checker *)
Lemma import_bind_top : forall exp acc accs ex s e tr Mdyn Mb done a imp rest,
  Inv3 exp lm [] acc accs ex s e tr [] Mdyn Mb -> acc = map fst done -> BS = done ++ (a, BImp (lineno s) imp) :: rest ->
  a <> n_star -> pairs s = imp_events done ->
  let cid := length (checkers s) in
  let s0 := with_checkers s (checkers s ++ [mkChecker imp (lineno s) false]) in
  let s' := store true s0 (stack_of [lm]) [a] (Chk cid) in
  Inv2 exp lm [] (acc ++ [a]) accs ex (er s') (ebind a (BImp (lineno s) imp) e) tr ->
  Inv3 exp lm [] (acc ++ [a]) accs ex s' (ebind a (BImp (lineno s) imp) e) tr []
       ((a, BImp (lineno s) imp) :: Mdyn) (bind a (BImp (lineno s) imp) Mb) /\
  pairs s' = imp_events (done ++ [(a, BImp (lineno s) imp)]).
Proof.
  intros exp acc accs ex s e tr Mdyn Mb done a imp rest H3 Hacc HBS Ha Hp. cbv zeta. intro HI'.
  pose proof H3 as [HI HL HU HEU Hfin Hdyn Hown].
  assert (Hin : In (a, BImp (lineno s) imp) BS) by (rewrite HBS; apply in_app_iff; right; left; reflexivity).
  destruct (HO _ _ _ Hin) as [Hc _].
  pose proof (top_absent _ _ _ _ _ _ _ _ _ _ _ _ _ H3 Hacc HBS Hc) as Hnone.
  set (s0 := with_checkers s (checkers s ++ [mkChecker imp (lineno s) false])) in *.
  assert (Etop : top (stack_of [lm]) = T) by apply stack_top.
  assert (Hno : forall c, dict_get (scope_dict s0 (top (stack_of [lm]))) [a] <> Some (Chk c)).
  { intro c. rewrite Etop. change (scope_dict s0 T) with (scope_dict s T). rewrite Hnone. discriminate. }
  rewrite (store_true_noreport s0) in * by exact Hno. rewrite Etop in *.
  pose proof (i_env _ _ _ _ _ _ _ _ _ HI) as HE. destruct e as [|f [|? ?]]; try contradiction. cbn in HEU. subst f.
  split.
  - constructor; auto.
    + apply UI_set_top_imp; auto.
    + reflexivity.
    + cbn [is_nil fdyn bind] in *. rewrite Hdyn. reflexivity.
  - rewrite pairs_set_in_scope. unfold s0. rewrite pairs_app_one, Hp, imp_events_app. reflexivity.
Qed.

Lemma store_import_u1 : forall s stk it, u1_import_item it = true ->
  exists a imp, import_bsrcs (lineno s) it = [(a, BImp (lineno s) imp)] /\ a <> n_star /\
    store_import true s stk (fst it) (snd it) None =
    store true (with_checkers s (checkers s ++ [mkChecker imp (lineno s) false])) stk [a] (Chk (length (checkers s))).
Proof.
  intros s stk [aname asname] H. unfold u1_import_item, s1_import_item in H. cbn [fst snd] in *.
  apply andb_true_iff in H as [H12 H3]. apply andb_true_iff in H12 as [H1 H2].
  destruct aname as [|r rest]; try discriminate. apply not_star_neq in H1.
  assert (Estar : dotted_eqb (r :: rest) [n_star] = false).
  { apply dotted_eqb_neq. intro E. injection E as E _. contradiction. }
  unfold store_import, import_bsrcs. cbn [fst snd negb orb]. rewrite Estar. cbn [orb].
  destruct asname as [a|].
  - apply not_star_neq in H2. exists a, (r :: rest, [a]). split. reflexivity. split. exact H2. reflexivity.
  - destruct rest as [|x rest']; try discriminate. exists r, ([r], [r]). split. reflexivity. split. exact H1. reflexivity.
Qed.

Lemma store_from_u1 : forall s stk m it, not_future m = true -> s1_from_item it = true ->
  exists a imp, importfrom_bsrcs (lineno s) m it = [(a, BImp (lineno s) imp)] /\ a <> n_star /\
    store_import true s stk [fst it] (snd it) (Some m) =
    store true (with_checkers s (checkers s ++ [mkChecker imp (lineno s) false])) stk [a] (Chk (length (checkers s))).
Proof.
  intros s stk m [nm asname] Hm H. unfold s1_from_item in H. cbn [fst snd] in *. apply andb_true_iff in H as [H1 H2].
  apply not_star_neq in H1. assert (E : N.eqb nm n_star = false) by (apply N.eqb_neq; exact H1).
  unfold not_future in Hm. apply negb_true_iff in Hm.
  unfold store_import, importfrom_bsrcs. cbn [fst snd negb orb dotted_eqb]. rewrite E, Hm. cbn [andb orb].
  destruct asname as [a|].
  - apply not_star_neq in H2. exists a, (m ++ [nm], [a]). split. reflexivity. split. exact H2. reflexivity.
  - exists nm, (m ++ [nm], [nm]). split. reflexivity. split. exact H1. reflexivity.
Qed.

Lemma import_items_top : forall ln items exp acc accs ex s e tr Mdyn Mb done rest,
  Inv3 exp lm [] acc accs ex s e tr [] Mdyn Mb -> acc = map fst done ->
  BS = done ++ flat_map (import_bsrcs ln) items ++ rest -> forallb u1_import_item items = true ->
  lineno s = ln -> pairs s = imp_events done ->
  let s' := fold_left (fun s it => store_import true s (stack_of [lm]) (fst it) (snd it) None) items s in
  let bs := flat_map (import_bsrcs ln) items in
  Inv3 exp lm [] (acc ++ map fst bs) accs ex s' (ebind_all bs e) tr [] (rev bs ++ Mdyn) (bind_all bs Mb) /\
  next_id s' = next_id s /\ pairs s' = imp_events (done ++ bs).
Proof.
  intros ln items. induction items as [|it items IH]; intros exp acc accs ex s e tr Mdyn Mb done rest H3 Hacc HBS Hs Hln Hp;
    cbn [flat_map fold_left map] in *.
  - rewrite !app_nil_r, ebind_all_nil. auto. eapply Inv2_nonempty. apply (v_f _ _ _ _ _ _ _ _ _ _ _ _ H3).
  - cbn in Hs. apply andb_true_iff in Hs as [H1 H2]. subst ln.
    destruct (store_import_u1 s (stack_of [lm]) it H1) as (a & imp & Eb & Ha & Est). rewrite Eb in *.
    cbn [app map fst] in *.
    pose proof (v_f _ _ _ _ _ _ _ _ _ _ _ _ H3) as HI.
    assert (Hs1 : s1_import_item it = true) by (unfold u1_import_item in H1; apply andb_true_iff in H1 as [A _]; exact A).
    destruct (import_item_inv (lineno s) it _ _ _ _ _ _ _ _ _ HI Hs1) as (I1 & N1 & Ln1).
    { rewrite Eb. cbn [map fst]. intros y [<-|[]]. rewrite HB, HBS, map_app. apply in_app_iff. right. left. reflexivity. }
    cbv zeta in I1, N1, Ln1. rewrite <- er_import_item in I1, N1, Ln1 by exact H1. rewrite Eb in I1. cbn [map fst] in I1.
    rewrite ebind_all_one in I1. rewrite Est in I1, N1, Ln1 |- *.
    destruct (import_bind_top exp acc accs ex s e tr Mdyn Mb done a imp (flat_map (import_bsrcs (lineno s)) items ++ rest) H3 Hacc) as (I2 & P2); auto.
    set (s1 := store true (with_checkers s (checkers s ++ [mkChecker imp (lineno s) false])) (stack_of [lm]) [a] (Chk (length (checkers s)))) in *.
    destruct (IH _ _ _ _ _ _ _ _ _ (done ++ [(a, BImp (lineno s) imp)]) rest I2) as (I3 & N3 & P3); auto.
    { rewrite map_app, Hacc. reflexivity. } { rewrite <- app_assoc. exact HBS. }
    cbv zeta in I3, N3, P3.
    change ((a, BImp (lineno s) imp) :: flat_map (import_bsrcs (lineno s)) items) with ([(a, BImp (lineno s) imp)] ++ flat_map (import_bsrcs (lineno s)) items).
    rewrite ebind_all_app, bind_all_app, rev_app_distr, <- !app_assoc. cbn [rev app].
    rewrite <- !app_assoc in I3, P3. cbn [app] in I3, P3. rewrite ebind_all_one.
    split. exact I3. split. cbn [next_id er] in N1. lia. exact P3.
Qed.

Lemma from_items_top : forall ln m items exp acc accs ex s e tr Mdyn Mb done rest,
  Inv3 exp lm [] acc accs ex s e tr [] Mdyn Mb -> acc = map fst done ->
  BS = done ++ flat_map (importfrom_bsrcs ln m) items ++ rest -> not_future m = true -> forallb s1_from_item items = true ->
  lineno s = ln -> pairs s = imp_events done ->
  let s' := fold_left (fun s it => store_import true s (stack_of [lm]) [fst it] (snd it) (Some m)) items s in
  let bs := flat_map (importfrom_bsrcs ln m) items in
  Inv3 exp lm [] (acc ++ map fst bs) accs ex s' (ebind_all bs e) tr [] (rev bs ++ Mdyn) (bind_all bs Mb) /\
  next_id s' = next_id s /\ pairs s' = imp_events (done ++ bs).
Proof.
  intros ln m items. induction items as [|it items IH]; intros exp acc accs ex s e tr Mdyn Mb done rest H3 Hacc HBS Hm Hs Hln Hp;
    cbn [flat_map fold_left map] in *.
  - rewrite !app_nil_r, ebind_all_nil. auto. eapply Inv2_nonempty. apply (v_f _ _ _ _ _ _ _ _ _ _ _ _ H3).
  - cbn in Hs. apply andb_true_iff in Hs as [H1 H2]. subst ln.
    destruct (store_from_u1 s (stack_of [lm]) m it Hm H1) as (a & imp & Eb & Ha & Est). rewrite Eb in *.
    cbn [app map fst] in *.
    pose proof (v_f _ _ _ _ _ _ _ _ _ _ _ _ H3) as HI.
    destruct (from_item_inv (lineno s) m it _ _ _ _ _ _ _ _ _ HI H1) as (I1 & N1 & Ln1).
    { rewrite Eb. cbn [map fst]. intros y [<-|[]]. rewrite HB, HBS, map_app. apply in_app_iff. right. left. reflexivity. }
    cbv zeta in I1, N1, Ln1. rewrite <- er_from_item in I1, N1, Ln1 by assumption. rewrite Eb in I1. cbn [map fst] in I1.
    rewrite ebind_all_one in I1. rewrite Est in I1, N1, Ln1 |- *.
    destruct (import_bind_top exp acc accs ex s e tr Mdyn Mb done a imp (flat_map (importfrom_bsrcs (lineno s) m) items ++ rest) H3 Hacc) as (I2 & P2); auto.
    set (s1 := store true (with_checkers s (checkers s ++ [mkChecker imp (lineno s) false])) (stack_of [lm]) [a] (Chk (length (checkers s)))) in *.
    destruct (IH _ _ _ _ _ _ _ _ _ (done ++ [(a, BImp (lineno s) imp)]) rest I2) as (I3 & N3 & P3); auto.
    { rewrite map_app, Hacc. reflexivity. } { rewrite <- app_assoc. exact HBS. }
    cbv zeta in I3, N3, P3.
    change ((a, BImp (lineno s) imp) :: flat_map (importfrom_bsrcs (lineno s) m) items) with ([(a, BImp (lineno s) imp)] ++ flat_map (importfrom_bsrcs (lineno s) m) items).
    rewrite ebind_all_app, bind_all_app, rev_app_distr, <- !app_assoc. cbn [rev app].
    rewrite <- !app_assoc in I3, P3. cbn [app] in I3, P3. rewrite ebind_all_one.
    split. exact I3. split. cbn [next_id er] in N1. lia. exact P3.
Qed.

Lemma imp_events_other : forall bs, (forall y b, In (y, b) bs -> b = BOther) -> imp_events bs = [].
Proof.
  induction bs as [|[y b] bs IH]; intro H. reflexivity. unfold imp_events in *. cbn [flat_map snd].
  rewrite (H y b (or_introl eq_refl)). cbn. apply IH. intros y' b' Hin. eapply H. right. exact Hin.
Qed.

Definition TopStep (x : stmt) : Prop :=
  forall exp acc accs ex s e tr Mdyn Mb done rest,
  Inv3 exp lm [] acc accs ex s e tr [] Mdyn Mb -> acc = map fst done -> BS = done ++ bsrcs false x ++ rest ->
  pairs s = imp_events done ->
  forall e' rds, sem_stmt e x = (e', rds) ->
  exists exp' Mdyn' Mb', ext (next_id s) exp exp' /\
    Inv3 exp' lm [] (acc ++ NS x) accs ex (vstmt true x (stack_of [lm]) s) e' (tr ++ rds) [] Mdyn' Mb' /\
    next_id s <= next_id (vstmt true x (stack_of [lm]) s) /\
    pairs (vstmt true x (stack_of [lm]) s) = imp_events (done ++ bsrcs false x).

Lemma top_other : forall x, s2_stmt x = true -> noimp_stmt x = true -> TopStep x.
Proof.
  intros x Hs Hn exp acc accs ex s e tr Mdyn Mb done rest H3 Hacc HBS Hp e' rds Esem.
  destruct (stmt_u3 x Hs Hn _ _ _ _ _ _ _ _ _ _ _ _ H3) with (e' := e') (rds := rds) as (exp' & X & I' & N).
  - unfold NS. rewrite HB, HBS, !map_app. intros y Hy. apply in_app_iff. right. apply in_app_iff. auto.
  - intros _ y Hy. rewrite HBS. apply in_app_iff. right. apply in_app_iff. auto.
  - exact Esem.
  - exists exp', (mdyn [] (bsrcs false x) Mdyn), (mbot [] (bsrcs false x) Mb). split. exact X. split. exact I'. split. exact N.
    rewrite (pairs_stmt x Hs Hn), Hp, imp_events_app, (imp_events_other (bsrcs false x)). rewrite app_nil_r. reflexivity.
    apply noimp_other. exact Hn.
Qed.

Lemma top_import : forall ln items, forallb u1_import_item items = true -> TopStep (SImport ln items).
Proof.
  intros ln items Hu exp acc accs ex s e tr Mdyn Mb done rest H3 Hacc HBS Hp e' rds Esem.
  cbn in Esem. injection Esem as <- <-. cbn [vstmt bsrcs] in *. unfold NS. cbn [bsrcs].
  destruct (import_items_top ln items exp acc accs ex (with_ln s ln) e tr Mdyn Mb done rest (Inv3_with_ln _ _ _ _ _ _ _ _ _ _ _ _ ln H3) Hacc HBS Hu eq_refl Hp)
    as (I1 & N1 & P1). cbv zeta in I1, N1, P1.
  eexists exp, _, _. split. apply ext_refl. rewrite app_nil_r. split. exact I1. split. cbn [next_id with_ln] in N1. lia. exact P1.
Qed.

Lemma top_from : forall ln m items, not_future m = true -> forallb s1_from_item items = true -> TopStep (SImportFrom ln m items).
Proof.
  intros ln m items Hm Hu exp acc accs ex s e tr Mdyn Mb done rest H3 Hacc HBS Hp e' rds Esem.
  cbn in Esem. injection Esem as <- <-. cbn [vstmt bsrcs] in *. unfold NS. cbn [bsrcs].
  destruct (from_items_top ln m items exp acc accs ex (with_ln s ln) e tr Mdyn Mb done rest (Inv3_with_ln _ _ _ _ _ _ _ _ _ _ _ _ ln H3) Hacc HBS Hm Hu eq_refl Hp)
    as (I1 & N1 & P1). cbv zeta in I1, N1, P1.
  eexists exp, _, _. split. apply ext_refl. rewrite app_nil_r. split. exact I1. split. cbn [next_id with_ln] in N1. lia. exact P1.
Qed.

Lemma top_step : forall x, u2_top x = true -> TopStep x.
Proof.
  intros x H. destruct x; cbn [u2_top] in H;
    try (apply andb_true_iff in H as [H1 H2]; apply top_other; assumption).
  - apply top_import. exact H.
  - apply andb_true_iff in H as [H1 H2]. apply top_from; assumption.
Qed.

Lemma top_block : forall p2 exp acc accs ex s e tr Mdyn Mb done rest,
  u2_block p2 = true ->
  Inv3 exp lm [] acc accs ex s e tr [] Mdyn Mb -> acc = map fst done -> BS = done ++ bsrcs_block false p2 ++ rest ->
  pairs s = imp_events done ->
  forall e' rds, sem_block p2 e = (e', rds) ->
  exists exp' Mdyn' Mb',
    Inv3 exp' lm [] (acc ++ binds_block false p2) accs ex (vblock true p2 (stack_of [lm]) s) e' (tr ++ rds) [] Mdyn' Mb' /\
    pairs (vblock true p2 (stack_of [lm]) s) = imp_events (done ++ bsrcs_block false p2).
Proof.
  induction p2 as [|x p2 IH]; intros exp acc accs ex s e tr Mdyn Mb done rest Hu H3 Hacc HBS Hp e' rds E.
  - cbn in E. injection E as <- <-. exists exp, Mdyn, Mb. cbn. rewrite !app_nil_r. auto.
  - cbn in Hu. apply andb_true_iff in Hu as [H1 H2].
    cbn [sem_block] in E. destruct (sem_stmt e x) as [e1 r1] eqn:E1. destruct (sem_block p2 e1) as [e2 r2] eqn:E2.
    injection E as <- <-.
    unfold binds_block, bsrcs_block in *. cbn [flat_map] in *. rewrite <- app_assoc in HBS.
    destruct (top_step x H1 exp acc accs ex s e tr Mdyn Mb done _ H3 Hacc HBS Hp e1 r1 E1) as (exp1 & Md1 & Mb1 & X1 & I1 & N1 & P1).
    destruct (IH exp1 (acc ++ NS x) accs ex _ e1 (tr ++ r1) Md1 Mb1 (done ++ bsrcs false x) rest H2 I1) with (e' := e2) (rds := r2)
      as (exp2 & Md2 & Mb2 & I2 & P2).
    + rewrite map_app, Hacc. reflexivity.
    + rewrite <- app_assoc. exact HBS.
    + exact P1.
    + exact E2.
    + exists exp2, Md2, Mb2. unfold vblock in *. cbn [fold_left]. rewrite map_app.
      rewrite <- (app_assoc acc), <- (app_assoc tr) in I2. rewrite <- (app_assoc done) in P2. unfold NS in I2. split. exact I2. exact P2.
Qed.

(* ================= stage 3: comprehensions, with tracking on ================= *)
Lemma AllOther_comp_frame : forall T0, AllOther (comp_frame T0).
Proof.
  intro T0. unfold comp_frame. split; cbn [fdyn ffinal]; intros x b H. discriminate. eapply lookup_b_others_other; eauto.
Qed.
Lemma AllOther_bind_all_others : forall names k, AllOther k -> AllOther (bind_all (others names) k).
Proof.
  induction names as [|n names IH]; intros k H. exact H.
  change (bind_all (others (n :: names)) k) with (bind_all (others names) (bind n BOther k)). apply IH. apply AllOther_bind. exact H.
Qed.

Lemma rc_imp : forall C ks e x li ii, CE C ks -> Forall AllOther ks -> e <> [] ->
  resolve_outer x (ks ++ e) = Bound (BImp li ii) ->
  (forall c, In c C -> ~ In x (cs_T c)) /\ resolve_outer x e = Bound (BImp li ii).
Proof.
  intros C ks e x li ii H HA He. induction H as [|c k C ks (Hk & Hl & Hd) HF IH]; intro Hr.
  - split. intros c []. exact Hr.
  - inversion HA as [|? ? Ak HA']; subst.
    cbn [app] in Hr. destruct (ks ++ e) as [|f e'] eqn:E. { destruct ks; cbn in E; congruence. }
    rewrite (resolve_outer_comp x k f e' Hk) in Hr.
    destruct (mem x (flocals k)) eqn:Em.
    + destruct (lookup_b x (fdyn k)) eqn:El; try discriminate. apply (proj1 Ak) in El. subst. discriminate.
    + destruct (IH HA' Hr) as [A B]. split; [|exact B]. intros c0 [<-|Hc0]. intro Hx. apply Hl in Hx. congruence. apply A. exact Hc0.
Qed.

(* the comprehension scopes hold no x when PySem resolves x past all comprehension frames *)
Lemma comp_has_false : forall exp s Cf C x, CF exp s Cf -> Shape Cf C -> (forall c, In c C -> ~ In x (cs_T c)) ->
  forall j, In j (cids Cf) -> has s j x = false.
Proof.
  intros exp s Cf C x HF Hsh HC j Hj. unfold cids in Hj. apply in_rev in Hj. apply in_map_iff in Hj as (c & <- & Hc).
  unfold CF in HF. rewrite Forall_forall in HF. destruct (HF c Hc) as (A1 & A2 & _).
  destruct (has s (cs_id c) x) eqn:E; auto. exfalso. apply A1 in E.
  destruct Hsh as [->|(c0 & -> & Hnil)].
  - apply (HC c Hc). apply A2. exact E.
  - destruct Hc as [<-|Hc]. rewrite Hnil in E. destruct E. apply (HC c Hc). apply A2. exact E.
Qed.

Definition CPost3 (exp : expmap) (l : lvl) (L' : list lvl) (acc : list name) (accs : list (list name)) (ex : list nat)
                  (s : st) (e : env) (tr : list rd) (Lf : list lvl) (Mdyn : list (name * bsrc)) (Mb : frame)
                  (s' : st) (rds : list rd) (Cf' : list cscope) : Prop :=
  exists exp', ext (next_id s) exp exp' /\ Inv3 exp' l L' acc accs ex s' e (tr ++ rds) Lf Mdyn Mb /\
               CX exp' ex (er s') Cf' /\ lineno s' = lineno s /\ next_id s <= next_id s'.

Lemma CPost3_refl : forall exp l L' acc accs ex s e tr Lf Mdyn Mb Cf,
  Inv3 exp l L' acc accs ex s e tr Lf Mdyn Mb -> CX exp ex (er s) Cf -> CPost3 exp l L' acc accs ex s e tr Lf Mdyn Mb s [] Cf.
Proof. intros. exists exp. split. apply ext_refl. rewrite app_nil_r. auto. Qed.

Lemma CPost3_seq : forall exp l L' acc accs ex s e tr Lf Mdyn Mb s1 r1 Cf1 s2 r2 Cf2,
  CPost3 exp l L' acc accs ex s e tr Lf Mdyn Mb s1 r1 Cf1 ->
  (forall exp1, Inv3 exp1 l L' acc accs ex s1 e (tr ++ r1) Lf Mdyn Mb -> CX exp1 ex (er s1) Cf1 ->
                CPost3 exp1 l L' acc accs ex s1 e (tr ++ r1) Lf Mdyn Mb s2 r2 Cf2) ->
  CPost3 exp l L' acc accs ex s e tr Lf Mdyn Mb s2 (r1 ++ r2) Cf2.
Proof.
  intros exp l L' acc accs ex s e tr Lf Mdyn Mb s1 r1 Cf1 s2 r2 Cf2 (exp1 & X1 & I1 & C1 & Ln1 & N1) H2.
  destruct (H2 exp1 I1 C1) as (exp2 & X2 & I2 & C2 & Ln2 & N2).
  exists exp2. split. eapply ext_trans; [exact N1|exact X1|exact X2].
  rewrite app_assoc. split. exact I2. split. exact C2. split. congruence. lia.
Qed.

Lemma cload_u3 : forall exp l L' acc accs ex s e tr Lf Mdyn Mb Cf C ks x a,
  Inv3 exp l L' acc accs ex s e tr Lf Mdyn Mb -> CX exp ex (er s) Cf -> CE C ks -> Shape Cf C -> Cf <> [] -> Forall AllOther ks ->
  CPost3 exp l L' acc accs ex s e tr Lf Mdyn Mb (load s (stack_of (l :: L') ++ cids Cf) (x :: a))
         [(lineno s, x, resolve x (ks ++ e))] Cf.
Proof.
  intros exp l L' acc accs ex s e tr Lf Mdyn Mb Cf C ks x a H3 HX0 HCE Hsh Hne HAll.
  pose proof H3 as [HI HL HU HEU Hfin Hdyn Hown]. pose proof HX0 as [HF Hin Hnd Hdel].
  assert (He : e <> []) by (eapply Inv2_nonempty; eauto).
  pose proof (st_sinv _ _ _ _ _ (i_st _ _ _ _ _ _ _ _ _ HI)) as HSe.
  pose proof (i_env _ _ _ _ _ _ _ _ _ HI) as HE0.
  rewrite (resolve_comp_outer C ks _ e _ x HCE HE0).
  assert (Hroot : forall j, has (er s) j x = false -> rootclosed (scope_dict s j) /\ dict_get (scope_dict s j) [x] = None).
  { intros j Hj. split. apply rootclosed_er. apply (sv_root _ HSe). apply dict_get_none_er. exact Hj. }
  destruct Lf as [|k Lf'].
  - (* module level *)
    cbn in HL. injection HL as -> ->. cbn [is_nil] in Hdyn.
    destruct HI as [HS HX HLt HC HE HT].
    assert (accs = []). { pose proof (st_top _ _ _ _ _ HS) as Ht. inversion Ht as [|? ? ? ? _ Ht']; subst. inversion Ht'. reflexivity. }
    subst accs.
    assert (Hdec : exists pre, Cf = pre ++ C /\ Forall (fun c => cs_acc c = []) pre).
    { destruct Hsh as [->|(c0 & -> & Hnil)]. exists []. split; auto. exists [c0]. split; auto. }
    destruct Hdec as (pre & Ecf & Hpre).
    destruct e as [|f [|? ?]]; try contradiction. cbn in HEU. subst f.
    pose proof (cload_imm exp lm acc ex (er s) [Mb] tr x a pre C ks HS HX HC HE HT) as G. rewrite <- Ecf in G.
    destruct (G HF Hpre HCE) as (S1 & T1 & F1 & Ln1 & N1 & Fd1). clear G.
    cbv zeta in S1, T1, F1, Ln1, N1, Fd1. rewrite <- er_load in S1, T1, F1, Ln1, N1, Fd1.
    rewrite (resolve_comp_outer C ks _ [Mb] _ x HCE HE) in T1.
    exists exp. split. apply ext_refl. split; [|split; [|split; [exact Ln1|cbn [next_id er] in N1; lia]]].
    + constructor; auto.
      * constructor; auto. intros i Hi. rewrite N1. auto.
      * apply imm_u_gen; auto. apply (Inv2_fd _ _ _ _ _ _ _ _ _ (v_f _ _ _ _ _ _ _ _ _ _ _ _ H3)).
        intros li ii Hr. destruct (rc_imp C ks [Mb] x li ii HCE HAll He Hr) as [R1 R2].
        split. cbn in R2. rewrite Hdyn in R2. destruct (lookup_b x Mdyn); congruence.
        intros j Hj. apply Hroot. eapply comp_has_false; eauto.
      * reflexivity.
    + constructor; auto.
  - (* inside a function or lambda body *)
    cbn in HL. injection HL as <- HL'. destruct L' as [|l' L'']. destruct Lf'; discriminate.
    assert (HL : l :: l' :: L'' = (l :: Lf') ++ [lm]) by (cbn; rewrite HL'; reflexivity).
    cbn [is_nil] in Hdyn.
    destruct Cf as [|c0 C0]. congruence.
    assert (Hsh' : C = c0 :: C0 \/ (C = C0 /\ cs_acc c0 = [])).
    { destruct Hsh as [->|(c1 & E & Hnil)]. left; reflexivity. injection E as <- <-. right. auto. }
    assert (HrestC : forall c, In c C0 -> In c C). { intros c Hc. destruct Hsh' as [->|[-> _]]. right; exact Hc. exact Hc. }
    destruct HI as [HS HX Hexlt HC HE HT].
    set (stkx := stack_of (l :: l' :: L'') ++ cids (c0 :: C0)).
    assert (Htop : top stkx = cs_id c0). { unfold stkx. rewrite cids_cons, app_assoc. apply top_snoc. }
    assert (HtpT : cs_id c0 <> T).
    { intro E. apply (ex_off _ _ HX (cs_id c0) (Hin c0 (or_introl eq_refl))). rewrite E, HL, stack_of_snoc.
      apply in_app_iff. left. apply in_app_iff. right. left. reflexivity. }
    assert (Htpin : In (cs_id c0) stkx). { unfold stkx. rewrite cids_cons, app_assoc. apply in_app_iff. right. left. reflexivity. }
    (* what an import verdict implies, for any state with the same scopes and expectations *)
    assert (Himp : forall exp0 s0, CF exp0 (er s0) (c0 :: C0) -> CtxI exp0 (l :: l' :: L'') -> StI exp0 (l :: l' :: L'') (acc :: accs) ex (er s0) ->
              forall li ii, resolve_outer x (ks ++ e) = Bound (BImp li ii) ->
              lookup_b x (rev BS ++ others I0) = Some (BImp li ii) /\
              (forall j, In j (stack_of (l :: Lf') ++ cids (c0 :: C0)) -> has (er s0) j x = false) /\
              (forall i, In i (removelast (stack_of (l :: Lf') ++ cids (c0 :: C0))) -> ~ In x (exp0 i)) /\ ~ In x (l_P lm)).
    { intros exp0 s0 HF0 HC0 HS0 li ii Hr.
      destruct (rc_imp C ks e x li ii HCE HAll He Hr) as [R1 R2].
      destruct (resolve_imp (l :: l' :: L'') e _ Mb x li ii HE HEU R2) as [Q1 Q2]. rewrite Hdyn in Q1.
      assert (Q2' : forall k, In k (l :: Lf') -> ~ In x (l_P k ++ l_B k)).
      { intros k Hk. apply Q2. rewrite HL. rewrite removelast_app by discriminate. cbn [removelast]. rewrite app_nil_r. exact Hk. }
      assert (Hno : forall i, In i (stack_of (l :: Lf')) -> ~ In x (exp0 i)).
      { apply (fn_noexp exp0 (l :: Lf') lm x). rewrite <- HL. exact HC0. exact Q2'.
        apply (owns_fn (l :: Lf') lm x). rewrite <- HL. apply (cx_own _ _ HC0).
        intros k Hk Hx. apply (Q2' k Hk). apply in_app_iff. auto.
        intro Hx. apply (Hown x Hx li ii). exact Q1. }
      split. exact Q1. split; [|split].
      - intros j Hj. apply in_app_iff in Hj as [Hj|Hj].
        + destruct (has (er s0) j x) eqn:E; auto. exfalso. apply (Hno j Hj). apply (st_sub _ _ _ _ _ HS0). exact E.
        + apply (comp_has_false exp0 (er s0) (c0 :: C0) C x HF0 Hsh R1). exact Hj.
      - intros i Hi. rewrite cids_cons, app_assoc, removelast_snoc in Hi. apply in_app_iff in Hi as [Hi|Hi]. apply Hno. exact Hi.
        unfold cids in Hi. apply in_rev in Hi. apply in_map_iff in Hi as (c & <- & Hc).
        unfold CF in HF0. rewrite Forall_forall in HF0. destruct (HF0 c (or_intror Hc)) as (_ & _ & A3 & _).
        intro Hx. apply A3 in Hx. apply (R1 c (HrestC c Hc)). exact Hx.
      - intro Hx. apply HP in Hx. apply final_import_in in Q1. destruct (HO x li ii Q1) as [_ Hn].
        assert (lookup_b x (others I0) <> None) by (apply lookup_b_others; exact Hx). congruence. }
    unfold load. change (in_fd s) with (in_fd (er s)). rewrite (st_fd _ _ _ _ _ HS). cbn [length Nat.eqb negb].
    destruct (cdefer_step exp l l' L'' accs acc ex (er s) e tr x a c0 C0 C ks HS HX HC HE HT HF HCE Hsh')
      as (exp1 & X1 & S1 & C1 & T1 & F1 & Ln1 & N1 & Fd1).
    cbv zeta in S1, T1, F1, Ln1, N1, Fd1. rewrite <- er_defer_load in S1, T1, F1, Ln1, N1.
    rewrite (resolve_comp_outer C ks _ e _ x HCE HE) in T1.
    fold stkx in S1, T1, F1, Ln1, N1 |- *.
    set (s1 := defer_load s stkx (x :: a)) in *.
    assert (HKlt : forall s0, next_id s <= next_id s0 -> forall j, In j (cids (c0 :: C0)) -> j < next_id s0).
    { intros s0 Hs0 j Hj. unfold cids in Hj. apply in_rev in Hj. apply in_map_iff in Hj as (c & <- & Hc).
      unfold CF in HF. rewrite Forall_forall in HF. destruct (HF c Hc) as (_ & _ & _ & A4). cbn [next_id er] in A4. lia. }
    assert (U1 : UI T BS I0 exp1 s1 Mdyn (tr ++ [(lineno s, x, resolve_outer x (ks ++ e))])).
    { apply (defer_u_gen T BS I0 exp l l' L'' accs acc ex s tr x a Mdyn (l :: Lf') lm exp1 (cids (c0 :: C0)) (cs_id c0)); auto.
      all: try (intros j Hj; apply (HKlt s); [lia|exact Hj]).
      all: try (apply (Himp exp s HF HC HS)). }
    destruct (cdefer_step exp1 l l' L'' accs acc ex (er s1) e _ x a c0 C0 C ks S1 HX C1 HE T1 F1 HCE Hsh')
      as (exp2 & X2 & S2 & C2 & T2 & F2 & Ln2 & N2 & Fd2).
    cbv zeta in S2, T2, F2, Ln2, N2, Fd2. rewrite <- er_defer_load in S2, T2, F2, Ln2, N2.
    rewrite (resolve_comp_outer C ks _ e _ x HCE HE) in T2.
    fold stkx in S2, T2, F2, Ln2, N2.
    set (s2 := defer_load s1 stkx (x :: a)) in *.
    cbn [next_id er lineno] in N1, N2, Ln1, Ln2, T2.
    assert (U2 : UI T BS I0 exp2 s2 Mdyn ((tr ++ [(lineno s, x, resolve_outer x (ks ++ e))]) ++ [(lineno s1, x, resolve_outer x (ks ++ e))])).
    { apply (defer_u_gen T BS I0 exp1 l l' L'' accs acc ex s1 _ x a Mdyn (l :: Lf') lm exp2 (cids (c0 :: C0)) (cs_id c0)); auto.
      all: try (intros i Hi; specialize (Hexlt i Hi); cbn [next_id er] in Hexlt; lia).
      all: try (intros j Hj; apply (HKlt s1); [exact N1|exact Hj]).
      all: try (apply (Himp exp1 s1 F1 C1 S1)). }
    exists exp2. split. { eapply ext_trans; [|exact X1|exact X2]. exact N1. }
    split; [|split; [|split; [congruence|lia]]].
    + constructor; auto.
      * constructor; auto.
        -- intros i Hi. specialize (Hexlt i Hi). cbn [next_id er] in *. lia.
        -- eapply TrI_perm; [|exact T2]. intro r. rewrite Ln1, !in_app_iff. cbn. tauto.
      * eapply UI_perm; [|exact U2]. intro r. rewrite Ln1, !in_app_iff. cbn. tauto.
    + constructor; auto.
Qed.


Lemma cnames_u3 : forall names exp l L' acc accs ex s e tr Lf Mdyn Mb c0 C0,
  Inv3 exp l L' acc accs ex s e tr Lf Mdyn Mb -> CX exp ex (er s) (c0 :: C0) ->
  Forall (fun x => x <> n_star) names -> incl names (cs_T c0) ->
  let s' := fold_left (fun s x => store true s (stack_of (l :: L') ++ cids (c0 :: C0)) [x] Plain) names s in
  Inv3 exp l L' acc accs ex s' e tr Lf Mdyn Mb /\
  CX exp ex (er s') (mkCS (cs_id c0) (cs_T c0) (cs_acc c0 ++ names) :: C0) /\
  lineno s' = lineno s /\ next_id s' = next_id s.
Proof.
  intros names exp l L' acc accs ex s e tr Lf Mdyn Mb c0 C0 H3 HX0 Hns Hin. cbv zeta.
  pose proof H3 as [HI HL HU HEU Hfin Hdyn Hown].
  destruct (cnames names exp l L' acc accs ex (er s) e tr c0 C0 HI HX0 Hns Hin) as (I1 & X1 & Ln1 & N1).
  cbv zeta in I1, X1, Ln1, N1. rewrite <- er_store_names in I1, X1, Ln1, N1.
  split; [|split; [exact X1|split; [exact Ln1|exact N1]]].
  constructor; auto.
  assert (Etop : top (stack_of (l :: L') ++ cids (c0 :: C0)) = cs_id c0). { rewrite cids_cons, app_assoc. apply top_snoc. }
  assert (HtpT : cs_id c0 <> T).
  { intro E. apply (ex_off _ _ (i_ex _ _ _ _ _ _ _ _ _ HI) (cs_id c0) (cx_in _ _ _ _ HX0 c0 (or_introl eq_refl))).
    rewrite E, HL, stack_of_snoc. apply in_app_iff. left. apply in_app_iff. right. left. reflexivity. }
  clear - HU Etop HtpT. revert s HU. induction names as [|x names IH]; intros s HU; cbn [fold_left]. exact HU.
  apply IH. rewrite store_true_noreport.
  - rewrite Etop. apply UI_set_other; auto.
  - rewrite Etop. intros c Hc. apply dict_get_In' in Hc. apply (u_plain _ _ _ _ _ _ _ HU) in Hc; auto. discriminate.
Qed.

Lemma center_u3 : forall exp l L' acc accs ex s e tr Lf Mdyn Mb Cf T0,
  Inv3 exp l L' acc accs ex s e tr Lf Mdyn Mb -> CX exp ex (er s) Cf ->
  let K := next_id s in
  let s1 := snd (new_scope s KNormal []) in
  let cK := mkCS K T0 [] in
  Inv3 (upd exp K T0) l L' acc accs (K :: ex) s1 e tr Lf Mdyn Mb /\ CX (upd exp K T0) (K :: ex) (er s1) (cK :: Cf) /\
  next_id s1 = S K /\ lineno s1 = lineno s /\ ext K exp (upd exp K T0) /\ ce_ok cK (comp_frame T0).
Proof.
  intros exp l L' acc accs ex s e tr Lf Mdyn Mb Cf T0 H3 HX0. cbv zeta. pose proof H3 as [HI HL HU HEU Hfin Hdyn Hown].
  destruct (center exp l L' acc accs ex (er s) e tr Cf T0 HI HX0) as (I1 & X1 & Nx1 & Ln1 & Xe & Hk).
  cbv zeta in I1, X1, Nx1, Ln1, Xe, Hk. cbn [next_id er] in *.
  destruct (er_new_scope s KNormal []) as [_ F2]. cbn [erd map] in F2. rewrite F2 in I1, X1.
  pose proof (T_lt _ _ _ _ _ _ _ _ _ _ _ _ H3) as HT.
  split; [|split; [exact X1|split; [exact Nx1|split; [exact Ln1|split; [exact Xe|exact Hk]]]]].
  constructor; auto.
  apply UI_newscope.
  - apply fresh_er. apply (sv_fresh _ (st_sinv _ _ _ _ _ (i_st _ _ _ _ _ _ _ _ _ HI))).
  - lia.
  - intros key v [].
  - eapply UI_ext; [exact Xe| |exact HU]. eapply Inv3_def_lt; eauto.
Qed.

Lemma cleave_u3 : forall exp l L' acc accs ex s e tr Lf Mdyn Mb cK Cf,
  Inv3 exp l L' acc accs (cs_id cK :: ex) s e tr Lf Mdyn Mb -> CX exp (cs_id cK :: ex) (er s) (cK :: Cf) ->
  (forall x, In x (cs_T cK) -> In x (cs_acc cK)) ->
  Inv3 exp l L' acc accs ex s e tr Lf Mdyn Mb /\ CX exp ex (er s) Cf.
Proof.
  intros exp l L' acc accs ex s e tr Lf Mdyn Mb cK Cf H3 HX0 Hall. pose proof H3 as [HI HL HU HEU Hfin Hdyn Hown].
  destruct (cleave exp l L' acc accs ex (er s) e tr cK Cf HI HX0 Hall) as [I1 X1].
  split. constructor; auto. exact X1.
Qed.

Lemma comp_scope_not_T : forall exp l L' acc accs ex s e tr Lf Mdyn Mb c0 C0,
  Inv3 exp l L' acc accs ex s e tr Lf Mdyn Mb -> CX exp ex (er s) (c0 :: C0) -> cs_id c0 <> T.
Proof.
  intros exp l L' acc accs ex s e tr Lf Mdyn Mb c0 C0 H3 HX0 E. destruct H3 as [HI HL _ _ _ _ _].
  apply (ex_off _ _ (i_ex _ _ _ _ _ _ _ _ _ HI) (cs_id c0) (cx_in _ _ _ _ HX0 c0 (or_introl eq_refl))).
  rewrite E, HL, stack_of_snoc. apply in_app_iff. left. apply in_app_iff. right. left. reflexivity.
Qed.

(* expressions inside a comprehension *)
Definition PCU (x : expr) : Prop := c3_expr x = true ->
  forall exp l L' acc accs ex s e tr Lf Mdyn Mb Cf C ks,
  Inv3 exp l L' acc accs ex s e tr Lf Mdyn Mb -> CX exp ex (er s) Cf -> CE C ks -> Shape Cf C -> Cf <> [] -> Forall AllOther ks ->
  (C = Cf \/ s1_expr x = true) ->
  CPost3 exp l L' acc accs ex s e tr Lf Mdyn Mb (vexpr true x (stack_of (l :: L') ++ cids Cf) s) (sem_expr (lineno s) (ks ++ e) x) Cf.

Lemma cexprs_u : forall es, Forall PCU es -> forallb c3_expr es = true ->
  forall exp l L' acc accs ex s e tr Lf Mdyn Mb Cf C ks,
  Inv3 exp l L' acc accs ex s e tr Lf Mdyn Mb -> CX exp ex (er s) Cf -> CE C ks -> Shape Cf C -> Cf <> [] -> Forall AllOther ks ->
  (C = Cf \/ forallb s1_expr es = true) ->
  CPost3 exp l L' acc accs ex s e tr Lf Mdyn Mb (vexpr_list true es (stack_of (l :: L') ++ cids Cf) s) (sem_exprs (lineno s) (ks ++ e) es) Cf.
Proof.
  intros es HF. induction HF as [|x es Hx HF IH]; intros Hs exp l L' acc accs ex s e tr Lf Mdyn Mb Cf C ks HI HX HCE Hsh Hne HA H1.
  - apply CPost3_refl; auto.
  - cbn in Hs. apply andb_true_iff in Hs as [Ha Hb].
    assert (H1x : C = Cf \/ s1_expr x = true).
    { destruct H1 as [H1|H1]; auto. cbn in H1. apply andb_true_iff in H1 as [A _]. auto. }
    assert (H1r : C = Cf \/ forallb s1_expr es = true).
    { destruct H1 as [H1|H1]; auto. cbn in H1. apply andb_true_iff in H1 as [_ B]. auto. }
    unfold vexpr_list, sem_exprs. cbn [fold_left flat_map].
    pose proof (Hx Ha _ _ _ _ _ _ _ _ _ _ _ _ _ _ _ HI HX HCE Hsh Hne HA H1x) as P1.
    assert (Eln : lineno (vexpr true x (stack_of (l :: L') ++ cids Cf) s) = lineno s).
    { destruct P1 as (? & _ & _ & _ & E & _). exact E. }
    eapply CPost3_seq. exact P1. intros exp1 I1 X1.
    pose proof (IH Hb _ _ _ _ _ _ _ _ _ _ _ _ _ _ _ I1 X1 HCE Hsh Hne HA H1r) as P2. rewrite Eln in P2. exact P2.
Qed.

Definition PGU (g : gen) : Prop := forall first, c3_gen first g = true ->
  forall exp l L' acc accs ex s e tr Lf Mdyn Mb c0 C0 k ks0,
  Inv3 exp l L' acc accs ex s e tr Lf Mdyn Mb -> CX exp ex (er s) (c0 :: C0) -> CE (c0 :: C0) (k :: ks0) -> Forall AllOther (k :: ks0) ->
  (first = true -> cs_acc c0 = []) -> incl (gen_tnames g) (cs_T c0) ->
  let c0' := mkCS (cs_id c0) (cs_T c0) (cs_acc c0 ++ gen_tnames g) in
  CPost3 exp l L' acc accs ex s e tr Lf Mdyn Mb (vgen true g (stack_of (l :: L') ++ cids (c0 :: C0)) s)
         (snd (sem_gen (lineno s) (ks0 ++ e) k first g)) (c0' :: C0) /\
  CE (c0' :: C0) (fst (sem_gen (lineno s) (ks0 ++ e) k first g) :: ks0) /\
  Forall AllOther (fst (sem_gen (lineno s) (ks0 ++ e) k first g) :: ks0).

Lemma gen_case_u : forall iter tgt ifs, PCU iter -> Forall PCU ifs -> PGU (Gen iter tgt ifs).
Proof.
  intros iter tgt ifs Hiter Hifs first Hs exp l L' acc accs ex s e tr Lf Mdyn Mb c0 C0 k ks0 HI HX HCE HA Hfirst Hin. cbv zeta.
  cbn [c3_gen] in Hs. rewrite c3go_eq in Hs. apply andb_true_iff in Hs as [Hs Hcifs]. apply andb_true_iff in Hs as [Hciter Htgt].
  cbn [gen_tnames] in *. rewrite vgen_eq_t, sem_gen_eq. cbv zeta.
  rewrite exec_target_s1 by exact Htgt.
  inversion HCE as [|? ? ? ? Hk0 HCE0]; subst. inversion HA as [|? ? Ak HA0]; subst.
  set (stkx := stack_of (l :: L') ++ cids (c0 :: C0)) in *.
  assert (P1 : CPost3 exp l L' acc accs ex s e tr Lf Mdyn Mb (vexpr true iter stkx s)
                      (sem_expr (lineno s) (if first then ks0 ++ e else k :: ks0 ++ e) iter) (c0 :: C0)).
  { destruct first.
    - apply (Hiter (s1_c3 _ Hciter) _ _ _ _ _ _ _ _ _ _ _ _ (c0 :: C0) C0 ks0 HI HX HCE0); auto.
      + right. exists c0. split. reflexivity. apply Hfirst. reflexivity.
      + discriminate.
    - apply (Hiter Hciter _ _ _ _ _ _ _ _ _ _ _ _ (c0 :: C0) (c0 :: C0) (k :: ks0) HI HX HCE); auto.
      + left. reflexivity.
      + discriminate. }
  destruct P1 as (exp1 & X1 & I1 & C1 & Ln1 & N1).
  set (s1 := vexpr true iter stkx s) in *.
  rewrite vtarget_u1 by exact Htgt.
  destruct (cnames_u3 (target_names tgt) _ _ _ _ _ _ _ _ _ _ _ _ c0 C0 I1 C1 (target_names_not_star tgt Htgt) Hin) as (I2 & C2 & Ln2 & N2).
  cbv zeta in I2, C2, Ln2, N2. fold stkx in I2, C2, Ln2, N2.
  set (s2 := fold_left (fun s n => store true s stkx [n] Plain) (target_names tgt) s1) in *.
  set (c0' := mkCS (cs_id c0) (cs_T c0) (cs_acc c0 ++ target_names tgt)) in *.
  set (k1 := bind_all (others (target_names tgt)) k).
  assert (HCE1 : CE (c0' :: C0) (k1 :: ks0)).
  { constructor; [|exact HCE0]. destruct Hk0 as (A & B & D). destruct (bind_all_static (others (target_names tgt)) k) as [E1 E2].
    split. unfold k1. rewrite E1. exact A. split. intro x. unfold k1. rewrite E2. apply B.
    apply names_eq_bind_all. exact D. }
  assert (HA1 : Forall AllOther (k1 :: ks0)) by (constructor; [apply AllOther_bind_all_others; exact Ak|exact HA0]).
  cbn [fst snd].
  split; [|split; [exact HCE1|exact HA1]].
  assert (P3 : CPost3 exp1 l L' acc accs ex s2 e (tr ++ sem_expr (lineno s) (if first then ks0 ++ e else k :: ks0 ++ e) iter) Lf Mdyn Mb
                      (vexpr_list true ifs stkx s2) (sem_exprs (lineno s2) ((k1 :: ks0) ++ e) ifs) (c0' :: C0)).
  { change stkx with (stack_of (l :: L') ++ cids (c0' :: C0)).
    apply (cexprs_u ifs Hifs Hcifs _ _ _ _ _ _ _ _ _ _ _ _ (c0' :: C0) (c0' :: C0) (k1 :: ks0) I2 C2 HCE1); auto.
    left; reflexivity. discriminate. }
  destruct P3 as (exp3 & X3 & I3 & C3 & Ln3 & N3).
  exists exp3. split. { eapply ext_trans; [exact N1|exact X1|]. intros i Hi. apply X3. lia. }
  assert (Eln2 : lineno s2 = lineno s) by congruence. rewrite Eln2 in I3.
  split. { cbn [app]. rewrite <- app_assoc in I3. exact I3. }
  split. exact C3. split. congruence. lia.
Qed.

Lemma gens_fold_u : forall gens, Forall PGU gens -> forall first, cgens gens first = true ->
  forall exp l L' acc accs ex s e tr Lf Mdyn Mb c0 C0 k ks0,
  Inv3 exp l L' acc accs ex s e tr Lf Mdyn Mb -> CX exp ex (er s) (c0 :: C0) -> CE (c0 :: C0) (k :: ks0) -> Forall AllOther (k :: ks0) ->
  (first = true -> cs_acc c0 = []) -> incl (flat_map gen_tnames gens) (cs_T c0) ->
  let c0' := mkCS (cs_id c0) (cs_T c0) (cs_acc c0 ++ flat_map gen_tnames gens) in
  CPost3 exp l L' acc accs ex s e tr Lf Mdyn Mb (vgens true gens (stack_of (l :: L') ++ cids (c0 :: C0)) s)
         (snd (sem_gens (lineno s) (ks0 ++ e) gens first k)) (c0' :: C0) /\
  CE (c0' :: C0) (fst (sem_gens (lineno s) (ks0 ++ e) gens first k) :: ks0) /\
  Forall AllOther (fst (sem_gens (lineno s) (ks0 ++ e) gens first k) :: ks0).
Proof.
  intros gens HF. induction HF as [|g gens Hg HF IH]; intros first Hs exp l L' acc accs ex s e tr Lf Mdyn Mb c0 C0 k ks0 HI HX HCE HA Hfirst Hin; cbv zeta.
  - cbn [flat_map vgens fold_left sem_gens fst snd]. rewrite app_nil_r. destruct c0 as [i T0 a0]. cbn [cs_id cs_T cs_acc].
    split. apply CPost3_refl; auto. split. exact HCE. exact HA.
  - cbn [cgens] in Hs. apply andb_true_iff in Hs as [H1 H2]. cbn [flat_map] in Hin |- *.
    destruct (Hg first H1 _ _ _ _ _ _ _ _ _ _ _ _ c0 C0 k ks0 HI HX HCE HA Hfirst) as (P1 & HCE1 & HA1).
    { intros y Hy. apply Hin. apply in_app_iff. auto. }
    cbv zeta in P1, HCE1, HA1.
    unfold vgens. cbn [fold_left sem_gens].
    destruct (sem_gen (lineno s) (ks0 ++ e) k first g) as [k1 ra] eqn:Eg. cbn [fst snd] in P1, HCE1, HA1.
    set (c1 := mkCS (cs_id c0) (cs_T c0) (cs_acc c0 ++ gen_tnames g)) in *.
    set (s1 := vgen true g (stack_of (l :: L') ++ cids (c0 :: C0)) s) in *.
    assert (Eln : lineno s1 = lineno s). { destruct P1 as (? & _ & _ & _ & E & _). exact E. }
    destruct (sem_gens (lineno s) (ks0 ++ e) gens false k1) as [k2 rb] eqn:Egs. cbn [fst snd].
    set (cF := mkCS (cs_id c0) (cs_T c0) (cs_acc c0 ++ gen_tnames g ++ flat_map gen_tnames gens)).
    assert (G : forall exp1, Inv3 exp1 l L' acc accs ex s1 e (tr ++ ra) Lf Mdyn Mb -> CX exp1 ex (er s1) (c1 :: C0) ->
                CPost3 exp1 l L' acc accs ex s1 e (tr ++ ra) Lf Mdyn Mb
                       (fold_left (fun s0 g0 => vgen true g0 (stack_of (l :: L') ++ cids (c0 :: C0)) s0) gens s1) rb (cF :: C0) /\
                CE (cF :: C0) (k2 :: ks0) /\ Forall AllOther (k2 :: ks0)).
    { intros exp1 I1 X1.
      destruct (IH false H2 _ _ _ _ _ _ _ _ _ _ _ _ c1 C0 k1 ks0 I1 X1 HCE1 HA1) as (P2 & HCE2 & HA2).
      { discriminate. } { intros y Hy. apply Hin. apply in_app_iff. auto. }
      cbv zeta in P2, HCE2, HA2. rewrite Eln, Egs in P2, HCE2, HA2. cbn [fst snd cs_id cs_T cs_acc c1] in P2, HCE2, HA2.
      rewrite <- app_assoc in P2, HCE2. split. exact P2. split. exact HCE2. exact HA2. }
    split; [|destruct P1 as (exp1 & _ & I1 & X1 & _); apply (G exp1 I1 X1)].
    eapply CPost3_seq. exact P1. intros exp1 I1 X1. apply (G exp1 I1 X1).
Qed.

Lemma comp_case_u : forall gens elts, Forall PGU gens -> Forall PCU elts -> c3_expr (EComp gens elts) = true ->
  forall exp l L' acc accs ex s e tr Lf Mdyn Mb Cf ks,
  Inv3 exp l L' acc accs ex s e tr Lf Mdyn Mb -> CX exp ex (er s) Cf -> CE Cf ks -> Forall AllOther ks ->
  CPost3 exp l L' acc accs ex s e tr Lf Mdyn Mb (vexpr true (EComp gens elts) (stack_of (l :: L') ++ cids Cf) s)
         (sem_expr (lineno s) (ks ++ e) (EComp gens elts)) Cf.
Proof.
  intros gens elts HG HE Hs exp l L' acc accs ex s e tr Lf Mdyn Mb Cf ks HI HX HCE HA.
  cbn [c3_expr] in Hs. rewrite cgens_eq, c3go_eq in Hs. apply andb_true_iff in Hs as [Hg He].
  rewrite vexpr_comp_eq_t, sem_comp_eq.
  rewrite push_t by (eapply Inv3_sinv; eauto). cbv beta iota zeta.
  set (K := next_id s). set (s1 := snd (new_scope s KNormal [])). set (T0 := gen_targets gens).
  destruct (center_u3 exp l L' acc accs ex s e tr Lf Mdyn Mb Cf T0 HI HX) as (I1 & X1 & Nx1 & Ln1 & Xe & Hk).
  cbv zeta in I1, X1, Nx1, Ln1, Xe, Hk. fold K s1 in I1, X1, Nx1, Ln1, Xe, Hk.
  set (cK := mkCS K T0 []) in *.
  assert (Estk : (stack_of (l :: L') ++ cids Cf) ++ [K] = stack_of (l :: L') ++ cids (cK :: Cf)).
  { rewrite cids_cons, app_assoc. reflexivity. }
  rewrite Estk.
  assert (HCE1 : CE (cK :: Cf) (comp_frame T0 :: ks)) by (constructor; auto).
  assert (HA1 : Forall AllOther (comp_frame T0 :: ks)) by (constructor; [apply AllOther_comp_frame|exact HA]).
  destruct (gens_fold_u gens HG true Hg _ _ _ _ _ _ _ _ _ _ _ _ cK Cf (comp_frame T0) ks I1 X1 HCE1 HA1) as (P2 & HCE2 & HA2).
  { reflexivity. } { rewrite <- gen_targets_eq. apply incl_refl. }
  cbv zeta in P2, HCE2, HA2. rewrite Ln1 in P2, HCE2, HA2.
  destruct (sem_gens (lineno s) (ks ++ e) gens true (comp_frame T0)) as [k r1] eqn:Egs. cbn [fst snd] in P2, HCE2, HA2.
  cbn [cs_id cs_T cs_acc cK app] in P2, HCE2. rewrite <- gen_targets_eq in P2, HCE2. fold T0 in P2, HCE2.
  set (cK' := mkCS K T0 T0) in *.
  destruct P2 as (exp2 & X2 & I2 & C2 & Ln2 & N2).
  set (s2 := vgens true gens (stack_of (l :: L') ++ cids (cK :: Cf)) s1) in *.
  assert (P3 : CPost3 exp2 l L' acc accs (K :: ex) s2 e (tr ++ r1) Lf Mdyn Mb
                      (vexpr_list true elts (stack_of (l :: L') ++ cids (cK' :: Cf)) s2) (sem_exprs (lineno s2) ((k :: ks) ++ e) elts) (cK' :: Cf)).
  { apply (cexprs_u elts HE He _ _ _ _ _ _ _ _ _ _ _ _ (cK' :: Cf) (cK' :: Cf) (k :: ks) I2 C2 HCE2); auto. left; reflexivity. discriminate. }
  change (cids (cK' :: Cf)) with (cids (cK :: Cf)) in P3.
  destruct P3 as (exp3 & X3 & I3 & C3 & Ln3 & N3).
  set (s3 := vexpr_list true elts (stack_of (l :: L') ++ cids (cK :: Cf)) s2) in *.
  assert (Etop : top (stack_of (l :: L') ++ cids (cK :: Cf)) = K) by (rewrite cids_cons, app_assoc; apply top_snoc).
  rewrite Etop.
  assert (HKT : K <> T). { change K with (cs_id cK'). eapply comp_scope_not_T; eauto. }
  rewrite (pop_plain_t T BS I0 exp3 s3 Mdyn _ K (v_u _ _ _ _ _ _ _ _ _ _ _ _ I3) HKT).
  destruct (cleave_u3 exp3 l L' acc accs ex s3 e _ Lf Mdyn Mb cK' Cf I3 C3) as [I4 C4]. { auto. }
  exists exp3. split.
  { intros i Hi. fold K in Hi. rewrite (X3 i), (X2 i), (Xe i) by lia. reflexivity. }
  assert (Eln2 : lineno s2 = lineno s) by congruence. rewrite Eln2 in I4.
  split. { rewrite <- app_assoc in I4. exact I4. }
  split. exact C4. split. congruence. lia.
Qed.

Lemma cexpr_u : forall x, PCU x.
Proof.
  intro x. induction x using expr_ind' with (Q := PGU); unfold PCU.
  - (* ELoad *) intros Hs exp l L' acc accs ex s e tr Lf Mdyn Mb Cf C ks HI HX HCE Hsh Hne HA H1.
    cbn [vexpr sem_expr]. apply (cload_u3 exp l L' acc accs ex s e tr Lf Mdyn Mb Cf C ks n a); auto.
  - (* EOp *) intros Hs exp l L' acc accs ex s e tr Lf Mdyn Mb Cf C ks HI HX HCE Hsh Hne HA H1.
    cbn [vexpr sem_expr c3_expr s1_expr] in *. rewrite vgo_eq_t, sgo_eq. rewrite c3go_eq in Hs. rewrite s1go_eq in H1.
    apply (cexprs_u es H Hs _ _ _ _ _ _ _ _ _ _ _ _ Cf C ks); auto.
  - (* EAttr *) intros Hs exp l L' acc accs ex s e tr Lf Mdyn Mb Cf C ks HI HX HCE Hsh Hne HA H1.
    cbn [vexpr sem_expr c3_expr s1_expr] in *. apply (IHx Hs _ _ _ _ _ _ _ _ _ _ _ _ Cf C ks); auto.
  - (* ELambda *) intros Hs. cbn in Hs. discriminate.
  - (* EComp *) intros Hs exp l L' acc accs ex s e tr Lf Mdyn Mb Cf C ks HI HX HCE Hsh Hne HA H1.
    assert (EC0 : C = Cf). { destruct H1 as [H1|H1]; auto. cbn in H1. discriminate. } subst C.
    apply comp_case_u; auto.
  - (* a generator *) apply gen_case_u; auto.
Qed.

Lemma all_PCU : forall es, Forall PCU es.
Proof. intro es. apply Forall_forall. intros x _. apply cexpr_u. Qed.
Lemma all_PGU : forall gs, Forall PGU gs.
Proof. intro gs. apply Forall_forall. intros [iter tgt ifs] _. apply gen_case_u. apply cexpr_u. apply all_PCU. Qed.

(* a comprehension met outside any comprehension *)
Lemma comp_top_u : forall gens elts, c3_expr (EComp gens elts) = true ->
  forall exp l L' acc accs ex s e tr Lf Mdyn Mb, Inv3 exp l L' acc accs ex s e tr Lf Mdyn Mb ->
  Post3 exp l L' acc accs ex s e tr Lf Mdyn Mb (vexpr true (EComp gens elts) (stack_of (l :: L')) s) (sem_expr (lineno s) e (EComp gens elts)).
Proof.
  intros gens elts Hs exp l L' acc accs ex s e tr Lf Mdyn Mb HI.
  assert (HX : CX exp ex (er s) []). { constructor. constructor. intros c []. constructor. intros c []. }
  destruct (comp_case_u gens elts (all_PGU gens) (all_PCU elts) Hs exp l L' acc accs ex s e tr Lf Mdyn Mb [] [] HI HX (Forall2_nil _) (Forall_nil _))
    as (exp' & X & I' & _ & Ln & Nx).
  cbn [cids map rev app] in *. rewrite app_nil_r in *.
  exists exp'. auto.
Qed.

(* ---------- stage-3 statements with tracking on: the stage-2 lemmas restated for s3 ---------- *)
Definition PUE_s3 (x : expr) : Prop := s3_expr x = true ->
  forall exp l L' acc accs ex s e tr Lf Mdyn Mb, Inv3 exp l L' acc accs ex s e tr Lf Mdyn Mb ->
  Post3 exp l L' acc accs ex s e tr Lf Mdyn Mb (vexpr true x (stack_of (l :: L')) s) (sem_expr (lineno s) e x).

Lemma exprs_u3_s3 : forall es, Forall PUE_s3 es -> forallb s3_expr es = true ->
  forall exp l L' acc accs ex s e tr Lf Mdyn Mb, Inv3 exp l L' acc accs ex s e tr Lf Mdyn Mb ->
  Post3 exp l L' acc accs ex s e tr Lf Mdyn Mb (vexpr_list true es (stack_of (l :: L')) s) (sem_exprs (lineno s) e es).
Proof.
  intros es HF. induction HF as [|x es Hx HF IH]; intros Hs exp l L' acc accs ex s e tr Lf Mdyn Mb HI.
  - apply Post3_refl. exact HI.
  - cbn in Hs. apply andb_true_iff in Hs as [H1 H2].
    unfold vexpr_list, sem_exprs. cbn [fold_left flat_map].
    assert (Eln : lineno (vexpr true x (stack_of (l :: L')) s) = lineno s).
    { destruct (Hx H1 _ _ _ _ _ _ _ _ _ _ _ _ HI) as (? & _ & _ & E & _). exact E. }
    eapply Post3_seq.
    + apply (Hx H1 _ _ _ _ _ _ _ _ _ _ _ _ HI).
    + intros exp1 I1. pose proof (IH H2 _ _ _ _ _ _ _ _ _ _ _ _ I1) as P. rewrite Eln in P. exact P.
Qed.

Lemma expr_u3_s3 : forall x, PUE_s3 x.
Proof.
  intro x. induction x using expr_ind' with (Q := fun _ => True); try exact I; unfold PUE_s3; intros Hs exp l L' acc accs ex s e tr Lf Mdyn Mb HI.
  - (* ELoad *) cbn [vexpr sem_expr]. apply load_u3. exact HI.
  - (* EOp *) cbn [vexpr sem_expr s3_expr] in *. rewrite vgo_eq_t, sgo_eq. rewrite s3go_eq in Hs. apply exprs_u3_s3; auto.
  - (* EAttr *) cbn [vexpr sem_expr s3_expr] in *. apply IHx; auto.
  - (* ELambda *)
    cbn [s3_expr] in Hs. rewrite s3go_eq in Hs. apply andb_true_iff in Hs as [Hs Hbody]. apply andb_true_iff in Hs as [Hps Hds].
    rewrite vexpr_lambda_eq_t, sem_lambda_eq.
    rewrite push_t by (eapply Inv3_sinv; eauto).
    set (stk := stack_of (l :: L')). set (A := next_id s). set (s1 := snd (new_scope s KNormal [])).
    cbv beta iota zeta. rewrite removelast_snoc.
    destruct (open_scope_u3 exp l L' acc accs ex s e tr Lf Mdyn Mb ps HI) as (I1 & Nx1 & Ln1 & X1 & HAoff & HAd & HAT).
    fold A in I1, Nx1, X1, HAoff, HAd, HAT. fold s1 in I1, Nx1, Ln1. fold stk in HAoff.
    destruct (exprs_u3_s3 ds H Hds _ _ _ _ _ _ _ _ _ _ _ _ I1) as (exp2 & X2 & I2 & Ln2 & Nx2).
    fold stk in I2, Ln2, Nx2. set (s2 := vexpr_list true ds stk s1) in *.
    assert (HexpA : forall y, In y (exp2 A) <-> In y ps).
    { intro y. rewrite X2 by lia. unfold upd. rewrite Nat.eqb_refl. reflexivity. }
    assert (Hnsps : Forall (fun p => p <> n_star) ps).
    { apply Forall_forall. intros p Hp. rewrite forallb_forall in Hps. apply not_star_neq. apply Hps. exact Hp. }
    destruct (params_close_u3 exp2 l L' acc accs ex s2 _ _ Lf Mdyn Mb A stk ps I2) as (I3 & Ln3 & Nx3); auto; try lia.
    fold stk. set (s3 := fold_left (fun s p => store true s (stk ++ [A]) [p] Plain) ps s2) in *.
    assert (HS3 : SInv (er (with_fd s3 true))) by (rewrite er_with_fd; apply SInv_with_fd; eapply Inv3_sinv; eauto).
    rewrite push_t by exact HS3. cbv beta iota zeta. change (next_id (with_fd s3 true)) with (next_id s3).
    set (B := next_id s3).
    assert (HAex : ~ In A ex).
    { intro Hin. pose proof (i_exlt _ _ _ _ _ _ _ _ _ (v_f _ _ _ _ _ _ _ _ _ _ _ _ HI) A Hin) as Hlt. cbn [next_id er] in Hlt. unfold A in Hlt. lia. }
    destruct (fun_frame_ok A B ps [] [] []) as (HFk & HFs & HFd). { intro y. reflexivity. }
    cbn [map] in HFs.
    destruct (enter_u3 exp2 l L' acc accs ex s3 e _ Lf Mdyn Mb A ps [] [] (fun_frame ps [] []) I3)
      as (I4 & Xe & Ln4 & Nx4); auto; try lia.
    { intros y []. } { apply AllOther_fun_frame. intros y b []. }
    cbv zeta in I4, Xe, Ln4, Nx4. fold B in I4, Xe, Ln4, Nx4.
    set (lv := mkL [A] B ps [] []) in *. set (s4 := snd (new_scope (with_fd s3 true) KNormal [])) in *.
    set (exp4 := upd exp2 B ([] ++ [])) in *.
    unfold stk at 1. rewrite stackB_eq with (P := ps) (own := []) (Bn := []). fold lv.
    destruct (IHx Hbody _ _ _ _ _ _ _ _ _ _ _ _ I4) as (exp5 & X5 & I5 & Ln5 & Nx5).
    set (s5 := vexpr true x (stack_of (lv :: l :: L')) s4) in *.
    (* leaving: the two pops report nothing *)
    rewrite !top_snoc.
    assert (HBT : B <> T). { pose proof (T_lt _ _ _ _ _ _ _ _ _ _ _ _ I3). unfold B. lia. }
    rewrite (pop_plain_t T BS I0 exp5 s5 Mdyn _ B (v_u _ _ _ _ _ _ _ _ _ _ _ _ I5) HBT).
    assert (U6 : UI T BS I0 exp5 (with_fd s5 (in_fd s3)) Mdyn ((tr ++ sem_exprs (lineno s1) e ds) ++ sem_expr (lineno s4) (fun_frame ps [] [] :: finalize e) x)).
    { apply (UI_same T BS I0 exp5 s5); try reflexivity. auto. apply (v_u _ _ _ _ _ _ _ _ _ _ _ _ I5). }
    rewrite (pop_plain_t T BS I0 exp5 _ Mdyn _ A U6 HAT).
    rewrite (Inv3_fd _ _ _ _ _ _ _ _ _ _ _ _ I3).
    pose proof (leave_u3 exp l L' acc accs ex s e tr Lf Mdyn Mb exp5 lv s5 _ _ _ HI I5) as I6.
    exists exp5. split.
    { intros i Hi. fold A in Hi. rewrite (X5 i), (Xe i), (X2 i), (X1 i) by lia. reflexivity. }
    split. { rewrite Ln1 in *. assert (Eln : lineno s4 = lineno s) by congruence. rewrite Eln in I6. rewrite app_assoc. apply I6. lia. }
    split. cbn [lineno with_fd]. congruence. cbn [next_id with_fd]. lia.
  - (* EComp *) cbn [s3_expr] in Hs. apply comp_top_u; auto.
Qed.

Lemma expr_ln3_s3 : forall x ln exp l L' acc accs ex s e tr Lf Mdyn Mb, s3_expr x = true ->
  Inv3 exp l L' acc accs ex s e tr Lf Mdyn Mb ->
  let s' := vexpr true x (stack_of (l :: L')) (with_ln s ln) in
  PostS3 exp l L' acc accs ex s e tr Lf Mdyn Mb s' e (sem_expr ln e x) [] /\ lineno s' = ln.
Proof.
  intros x ln exp l L' acc accs ex s e tr Lf Mdyn Mb Hx HI. cbv zeta.
  pose proof (expr_u3_s3 x Hx _ _ _ _ _ _ _ _ _ _ _ _ (Inv3_with_ln _ _ _ _ _ _ _ _ _ _ _ _ ln HI)) as P.
  split. apply Post3_S3 in P. exact P. destruct P as (? & _ & _ & E & _). exact E.
Qed.

Lemma expr_cur3_s3 : forall x exp l L' acc accs ex s e tr Lf Mdyn Mb, s3_expr x = true ->
  Inv3 exp l L' acc accs ex s e tr Lf Mdyn Mb ->
  let s' := vexpr true x (stack_of (l :: L')) s in
  PostS3 exp l L' acc accs ex s e tr Lf Mdyn Mb s' e (sem_expr (lineno s) e x) [] /\ lineno s' = lineno s.
Proof.
  intros x exp l L' acc accs ex s e tr Lf Mdyn Mb Hx HI. cbv zeta.
  pose proof (expr_u3_s3 x Hx _ _ _ _ _ _ _ _ _ _ _ _ HI) as P.
  split. apply Post3_S3 in P. exact P. destruct P as (? & _ & _ & E & _). exact E.
Qed.

Lemma with_items_u3_s3 : forall ln items exp l L' acc accs ex s e tr Lf Mdyn Mb r,
  Inv3 exp l L' acc accs ex s e tr Lf Mdyn Mb -> lineno s = ln -> forallb s3_with_item items = true ->
  incl (flat_map wnames items) (l_B l) -> (Lf = [] -> incl (others (flat_map wnames items)) BS) ->
  let s' := fold_left (with_item_step true (stack_of (l :: L'))) items s in
  exists e' r', fold_left (sem_with_step ln) items (e, r) = (e', r ++ r') /\
    PostS3 exp l L' acc accs ex s e tr Lf Mdyn Mb s' e' r' (others (flat_map wnames items)).
Proof.
  intros ln items. induction items as [|[x ot] items IH]; intros exp l L' acc accs ex s e tr Lf Mdyn Mb r HI Hln Hs Hin HBS;
    cbn [flat_map fold_left] in *.
  - exists e, []. rewrite app_nil_r. split. reflexivity. apply PostS3_refl. exact HI.
  - cbn in Hs. apply andb_true_iff in Hs as [H12 H3]. unfold s3_with_item in H12. cbn [fst snd] in H12.
    apply andb_true_iff in H12 as [H1 H2].
    unfold with_item_step at 2. cbn [fst snd]. unfold sem_with_step at 2. cbn [fst snd].
    destruct (expr_cur3_s3 x _ _ _ _ _ _ _ _ _ _ _ _ H1 HI) as (P1 & Ln1). cbv zeta in P1, Ln1. rewrite Hln in P1.
    change (wnames (x, ot)) with (match ot with Some t => target_names t | None => [] end) in *.
    rewrite others_app in *.
    destruct ot as [t|].
    + set (s1 := vexpr true x (stack_of (l :: L')) s) in *.
      assert (Hin1 : incl (target_names t) (l_B l)) by (intros y Hy; apply Hin; apply in_app_iff; auto).
      assert (HBS1 : Lf = [] -> incl (others (target_names t)) BS) by (intros E y Hy; apply (HBS E); apply in_app_iff; auto).
      assert (Et : exec_target_env ln e t = (ebind_all (others (target_names t)) e, [])).
      { unfold exec_target_env. rewrite exec_target_s1 by exact H2. reflexivity. }
      rewrite Et.
      assert (P2 : PostS3 exp l L' acc accs ex s e tr Lf Mdyn Mb (vtarget true t (stack_of (l :: L')) s1)
                          (ebind_all (others (target_names t)) e) (sem_expr ln e x) ([] ++ others (target_names t))).
      { eapply PostS3_then_bind. exact P1. intros exp1 I1.
        destruct (target_u3 t _ _ _ _ _ _ _ _ _ _ _ _ I1 H2 Hin1 HBS1) as (I2 & N2 & _). cbv zeta in I2, N2.
        rewrite map_fst_others. split. exact I2. exact N2. }
      cbn [app] in P2.
      assert (Ln2 : lineno (vtarget true t (stack_of (l :: L')) s1) = ln).
      { destruct P1 as (expa & _ & Ia & _). cbn [map] in Ia. rewrite app_nil_r, mdyn_nil, mbot_nil in Ia.
        destruct (target_u3 t _ _ _ _ _ _ _ _ _ _ _ _ Ia H2 Hin1 HBS1) as (_ & _ & Lnx). cbv zeta in Lnx. rewrite Lnx, Ln1. exact Hln. }
      destruct P2 as (exp2 & X2 & I2 & N2).
      destruct (IH _ _ _ _ _ _ _ _ _ _ _ _ (r ++ sem_expr ln e x ++ []) I2 Ln2 H3) as (e' & r' & E' & P').
      { intros y Hy. apply Hin. apply in_app_iff. auto. }
      { intros E y Hy. apply (HBS E). apply in_app_iff. auto. }
      exists e', ((sem_expr ln e x ++ []) ++ r'). rewrite E'. split. rewrite !app_assoc. reflexivity.
      rewrite app_nil_r.
      eapply PostS3_seq. exists exp2. split. exact X2. split. exact I2. exact N2. intros exp3 I3.
      destruct (IH _ _ _ _ _ _ _ _ _ _ _ _ (r ++ sem_expr ln e x ++ []) I3 Ln2 H3) as (e'' & r'' & E'' & P'').
      { intros y Hy. apply Hin. apply in_app_iff. auto. }
      { intros E y Hy. apply (HBS E). apply in_app_iff. auto. }
      rewrite E' in E''. injection E'' as <- Er. apply app_inv_head in Er. subst r''. exact P''.
    + cbn [others map app] in *.
      assert (Ln2 : lineno (vexpr true x (stack_of (l :: L')) s) = ln) by congruence.
      destruct P1 as (exp2 & X2 & I2 & N2). pose proof I2 as I2'. cbn [map] in I2'. rewrite app_nil_r, mdyn_nil, mbot_nil in I2'.
      destruct (IH _ _ _ _ _ _ _ _ _ _ _ _ (r ++ sem_expr ln e x) I2' Ln2 H3 Hin HBS) as (e' & r' & E' & P').
      exists e', (sem_expr ln e x ++ r'). rewrite E'. split. rewrite !app_assoc. reflexivity.
      change (others (flat_map wnames items)) with ([] ++ others (flat_map wnames items)).
      eapply PostS3_seq. exists exp2. split. exact X2. split. exact I2. exact N2. intros exp3 I3.
      cbn [map] in I3 |- *. rewrite app_nil_r, mdyn_nil, mbot_nil in *.
      destruct (IH _ _ _ _ _ _ _ _ _ _ _ _ (r ++ sem_expr ln e x) I3 Ln2 H3 Hin HBS) as (e'' & r'' & E'' & P'').
      rewrite E' in E''. injection E'' as <- Er. apply app_inv_head in Er. subst r''. exact P''.
Qed.

Lemma decos_u3_s3 : forall decos exp l L' acc accs ex s e tr Lf Mdyn Mb,
  Inv3 exp l L' acc accs ex s e tr Lf Mdyn Mb -> forallb (fun d : nat * expr => s3_expr (snd d)) decos = true ->
  PostS3 exp l L' acc accs ex s e tr Lf Mdyn Mb (vdecos true decos (stack_of (l :: L')) s) e (sem_decos e decos) [].
Proof.
  induction decos as [|[dl d] decos IH]; intros exp l L' acc accs ex s e tr Lf Mdyn Mb HI Hs.
  - apply PostS3_refl. exact HI.
  - cbn in Hs. apply andb_true_iff in Hs as [H1 H2]. unfold vdecos, sem_decos. cbn [fold_left flat_map fst snd].
    change (@nil (name * bsrc)) with (@nil (name * bsrc) ++ []).
    eapply PostS3_seq. apply (expr_ln3_s3 d dl); eauto. intros exp1 I1. cbn [map] in I1 |- *.
    rewrite app_nil_r, mdyn_nil, mbot_nil in *. apply IH; auto.
Qed.

Definition PUS_s3 (x : stmt) : Prop := s3_stmt x = true -> noimp_stmt x = true ->
  forall exp l L' acc accs ex s e tr Lf Mdyn Mb, Inv3 exp l L' acc accs ex s e tr Lf Mdyn Mb ->
  incl (NS x) (l_B l) -> (Lf = [] -> incl (bsrcs false x) BS) ->
  forall e' rds, sem_stmt e x = (e', rds) ->
  PostS3 exp l L' acc accs ex s e tr Lf Mdyn Mb (vstmt true x (stack_of (l :: L')) s) e' rds (bsrcs false x).

Definition PUB_s3 (b : list stmt) : Prop := s3_block b = true -> forallb noimp_stmt b = true ->
  forall exp l L' acc accs ex s e tr Lf Mdyn Mb, Inv3 exp l L' acc accs ex s e tr Lf Mdyn Mb ->
  incl (binds_block false b) (l_B l) -> (Lf = [] -> incl (bsrcs_block false b) BS) ->
  forall e' rds, sem_block b e = (e', rds) ->
  PostS3 exp l L' acc accs ex s e tr Lf Mdyn Mb (vblock true b (stack_of (l :: L')) s) e' rds (bsrcs_block false b).

Lemma block_u3_s3 : forall b, Forall PUS_s3 b -> PUB_s3 b.
Proof.
  induction b as [|x b IH]; intros HF Hs Hn exp l L' acc accs ex s e tr Lf Mdyn Mb HI Hin HBS e' rds E.
  - cbn in E. injection E as <- <-. apply PostS3_refl. exact HI.
  - inversion HF as [|? ? Hx HF']; subst. cbn in Hs, Hn. apply andb_true_iff in Hs as [H1 H2]. apply andb_true_iff in Hn as [N1 N2].
    cbn [sem_block] in E. destruct (sem_stmt e x) as [e1 r1] eqn:E1. destruct (sem_block b e1) as [e2 r2] eqn:E2.
    injection E as <- <-.
    unfold binds_block, bsrcs_block in *. cbn [flat_map] in *. rewrite map_app in Hin. fold (NS x) in *.
    unfold vblock. cbn [fold_left]. eapply PostS3_seq.
    + apply (Hx H1 N1 _ _ _ _ _ _ _ _ _ _ _ _ HI). intros y Hy. apply Hin. apply in_app_iff. auto.
      intros E y Hy. apply (HBS E). apply in_app_iff. auto. exact E1.
    + intros exp1 I1. apply (IH HF' H2 N2 _ _ _ _ _ _ _ _ _ _ _ _ I1). intros y Hy. apply Hin. apply in_app_iff. auto.
      intros E y Hy. apply (HBS E). apply in_app_iff. auto. exact E2.
Qed.

Lemma all_PUE_s3 : forall es, Forall PUE_s3 es.
Proof. intro es. apply Forall_forall. intros x _. apply expr_u3_s3. Qed.

Lemma def_u3_s3 : forall ln nm decos ps ret body, PUB_s3 body -> PUS_s3 (SDef ln nm decos ps ret body).
Proof.
  intros ln nm decos ps ret body IHb Hs Hnoimp exp l L' acc accs ex s e tr Lf Mdyn Mb HI Hin HBS e' rds Esem.
  cbn [s3_stmt noimp_stmt] in Hs, Hnoimp. rewrite s3_blk_fix in Hs. rewrite noimp_blk_fix in Hnoimp.
  apply andb_true_iff in Hs as [Hs Hbody]. apply andb_true_iff in Hs as [Hs Hret].
  apply andb_true_iff in Hs as [Hs Hps]. apply andb_true_iff in Hs as [Hnm Hdecos].
  apply not_star_neq in Hnm.
  destruct (s3_params_facts ps Hps) as [Hhdr Hpn].
  rewrite sem_stmt_def in Esem. cbv zeta in Esem.
  destruct (sem_block body (fun_frame (params_names ps) (bsrcs_block false body) (binds_block true body) :: finalize e))
    as [eb r1] eqn:Eb. injection Esem as <- <-.
  unfold NS in *. cbn [bsrcs map fst] in *.
  rewrite vstmt_def_eq_t. cbv zeta.
  set (stk := stack_of (l :: L')).
  (* decorators *)
  destruct (decos_u3_s3 decos _ _ _ _ _ _ _ _ _ _ _ _ (Inv3_with_ln _ _ _ _ _ _ _ _ _ _ _ _ ln HI) Hdecos) as (exp0 & X0 & I0' & N0).
  fold stk in I0', N0. cbn [map] in I0'. rewrite app_nil_r, mdyn_nil, mbot_nil in I0'.
  set (s0 := vdecos true decos stk (with_ln s ln)) in *.
  change (next_id (with_ln s ln)) with (next_id s) in X0, N0.
  rewrite push_t by (eapply Inv3_sinv; eauto). set (A := next_id s0). set (s1 := snd (new_scope s0 KNormal [])).
  cbv beta iota zeta. rewrite removelast_snoc.
  set (P := params_names ps).
  destruct (open_scope_u3 exp0 l L' acc accs ex s0 e _ Lf Mdyn Mb P I0') as (I1 & Nx1 & Ln1 & X1 & HAoff & HAd & HAT).
  fold A in I1, Nx1, X1, HAoff, HAd, HAT. fold s1 in I1, Nx1, Ln1. fold stk in HAoff.
  assert (Hcd1 : in_cd s1 = 0). { change (in_cd s1) with (in_cd (er s1)). apply sv_cd. eapply Inv3_sinv; eauto. }
  rewrite Hcd1. change (Nat.ltb 0 0) with false. cbv iota.
  (* header expressions, in the enclosing scope *)
  rewrite varguments_eq_t, removelast_snoc.
  destruct (exprs_u3_s3 (hdr_finder ps) (all_PUE_s3 _) Hhdr _ _ _ _ _ _ _ _ _ _ _ _ (Inv3_with_ln _ _ _ _ _ _ _ _ _ _ _ _ ln I1))
    as (exp2 & X2 & I2 & Ln2 & Nx2).
  fold stk in I2, Ln2, Nx2. set (s2 := vexpr_list true (hdr_finder ps) stk (with_ln s1 ln)) in *.
  change (next_id (with_ln s1 ln)) with (next_id s1) in X2, Nx2.
  change (lineno (with_ln s1 ln)) with ln in Ln2, I2.
  (* parameters *)
  assert (HexpA : forall y, In y (exp2 A) <-> In y (pnames_finder ps)).
  { intro y. rewrite X2 by lia. unfold upd. rewrite Nat.eqb_refl. symmetry. apply pnames_perm. }
  destruct (params_close_u3 exp2 l L' acc accs ex s2 _ _ Lf Mdyn Mb A stk (pnames_finder ps) I2) as (I3 & Ln3 & Nx3); auto; try lia.
  fold stk. set (s3 := fold_left (fun s p => store true s (stk ++ [A]) [p] Plain) (pnames_finder ps) s2) in *.
  (* the return annotation *)
  assert (Pret : Post3 exp2 l L' acc accs ex s3 e ((tr ++ sem_decos e decos) ++ sem_exprs ln e (hdr_finder ps)) Lf Mdyn Mb
                       (voexpr true ret stk s3) (sem_oexpr (lineno s3) e ret)).
  { destruct ret as [r|]; cbn [voexpr sem_oexpr s3_oexpr] in *. apply expr_u3_s3; auto. apply Post3_refl; auto. }
  destruct Pret as (exp4 & X4 & I4 & Ln4 & Nx4). set (s4 := voexpr true ret stk s3) in *.
  rewrite Ln3, Ln2 in I4.
  (* the body scope *)
  assert (HS4 : SInv (er (with_fd s4 true))) by (rewrite er_with_fd; apply SInv_with_fd; eapply Inv3_sinv; eauto).
  rewrite push_t by exact HS4. cbv beta iota zeta. change (next_id (with_fd s4 true)) with (next_id s4).
  set (B := next_id s4). set (s6 := snd (new_scope (with_fd s4 true) KNormal [])).
  assert (Hcd6 : in_cd s6 = 0).
  { change (in_cd s6) with (in_cd (er s4)). apply sv_cd. eapply Inv3_sinv; eauto. }
  rewrite Hcd6. change (Nat.eqb 0 0) with true. cbv iota.
  assert (HBT : B <> T). { pose proof (T_lt _ _ _ _ _ _ _ _ _ _ _ _ I4). unfold B. lia. }
  assert (Hno6 : forall c, dict_get (scope_dict s6 (top ((stk ++ [A]) ++ [B]))) [nm] <> Some (Chk c)).
  { intro c. rewrite top_snoc. unfold s6. rewrite scope_dict_new_gen.
    - change (next_id (with_fd s4 true)) with B. rewrite Nat.eqb_refl. cbn. discriminate.
    - apply fresh_er. rewrite er_with_fd. apply (sv_fresh _ (SInv_with_fd _ _ (Inv3_sinv _ _ _ _ _ _ _ _ _ _ _ _ I4))). }
  rewrite (store_true_noreport s6) by exact Hno6. rewrite !top_snoc.
  set (Bn := binds_block false body).
  set (F := fun_frame P (bsrcs_block false body) (binds_block true body)) in *.
  destruct (fun_frame_ok A B P [nm] (bsrcs_block false body) (binds_block true body)) as (HFk & HFs & HFd).
  { intro y. rewrite (s3_binds_all body Hbody). reflexivity. }
  fold F in HFk, HFs, HFd. change (map fst (bsrcs_block false body)) with Bn in HFs.
  assert (HAex : ~ In A ex).
  { intro Hi. pose proof (i_exlt _ _ _ _ _ _ _ _ _ (v_f _ _ _ _ _ _ _ _ _ _ _ _ I0') A Hi) as Hlt. cbn [next_id er] in Hlt. unfold A in Hlt. lia. }
  assert (HexpA4 : forall y, In y (exp4 A) <-> In y P).
  { intro y. rewrite X4 by lia. rewrite X2 by lia. unfold upd. rewrite Nat.eqb_refl. reflexivity. }
  destruct (enter_u3 exp4 l L' acc accs ex s4 e _ Lf Mdyn Mb A P [nm] Bn F I4)
    as (I7 & Xe & Ln7 & Nx7); auto; try lia.
  { right. exists nm. auto. }
  { apply AllOther_fun_frame. apply noimp_block_other'. exact Hnoimp. }
  { intros E y [<-|[]] li ii Hf. pose proof (once_unique BS I0 nm li ii BOther HO Hf (HBS E _ (or_introl eq_refl))). discriminate. }
  cbv zeta in I7, Xe, Ln7, Nx7. cbv iota in I7, Ln7, Nx7. fold B s6 in I7, Xe, Ln7, Nx7.
  set (lv := mkL [A] B P [nm] Bn) in *. set (s7 := set_in_scope s6 B [nm] Plain) in *.
  set (exp7 := upd exp4 B ([nm] ++ Bn)) in *.
  unfold stk at 1. rewrite stackB_eq with (P := P) (own := [nm]) (Bn := Bn). fold lv.
  destruct (IHb Hbody Hnoimp _ _ _ _ _ _ _ _ _ _ _ _ I7 (incl_refl _)) with (e' := eb) (rds := r1) as (exp8 & X8 & I8 & N8).
  { intro E. discriminate. } { exact Eb. }
  cbn [app] in I8. cbn [mdyn mbot is_nil] in I8. fold Bn in I8.
  set (s8 := vblock true body (stack_of (lv :: l :: L')) s7) in *.
  (* leaving *)
  rewrite (pop_plain_t T BS I0 exp8 s8 Mdyn _ B (v_u _ _ _ _ _ _ _ _ _ _ _ _ I8) HBT).
  assert (U9 : UI T BS I0 exp8 (with_fd s8 (in_fd s4)) Mdyn
                  ((((tr ++ sem_decos e decos) ++ sem_exprs ln e (hdr_finder ps)) ++ sem_oexpr ln e ret) ++ r1)).
  { apply (UI_same T BS I0 exp8 s8); try reflexivity. auto. apply (v_u _ _ _ _ _ _ _ _ _ _ _ _ I8). }
  rewrite (pop_plain_t T BS I0 exp8 _ Mdyn _ A U9 HAT).
  rewrite (Inv3_fd _ _ _ _ _ _ _ _ _ _ _ _ I4).
  pose proof (leave_u3 exp l L' acc accs ex s e tr Lf Mdyn Mb exp8 lv s8 _ _ _ HI I8) as I9.
  set (s9 := with_fd s8 (negb (Nat.eqb (length (l :: L')) 1))) in *.
  assert (I9' : Inv3 exp8 l L' acc accs ex s9 e
                  ((((tr ++ sem_decos e decos) ++ sem_exprs ln e (hdr_finder ps)) ++ sem_oexpr ln e ret) ++ r1) Lf Mdyn Mb).
  { apply I9. lia. }
  destruct (store_name_u3 _ _ _ _ _ _ _ _ _ _ _ _ nm I9' Hnm (Hin nm (or_introl eq_refl))) as (I10 & N10 & _).
  { intro E. apply (HBS E). left. reflexivity. }
  cbv zeta in I10, N10. fold stk in I10, N10.
  exists exp8. split.
  { intros i Hi. rewrite (X8 i), (Xe i), (X4 i), (X2 i), (X1 i), (X0 i) by lia. reflexivity. }
  split; [|change (next_id s9) with (next_id s8) in N10; lia].
  cbn [map fst]. 
  assert (Em : mdyn Lf [(nm, BOther)] Mdyn = (if is_nil Lf then (nm, BOther) :: Mdyn else Mdyn)) by (destruct Lf; reflexivity).
  assert (Eb' : mbot Lf [(nm, BOther)] Mb = (if is_nil Lf then bind nm BOther Mb else Mb)) by (destruct Lf; reflexivity).
  rewrite Em, Eb'.
  eapply Inv3_perm; [|exact I10].
  intro x. pose proof (sem_exprs_perm ln e _ _ (hdr_perm ps ret) x) as Hp.
  rewrite sem_exprs_app, in_app_iff in Hp. rewrite sem_oexpr_eq. rewrite !in_app_iff. tauto.
Qed.

Lemma stmt_u3_s3 : forall x, PUS_s3 x.
Proof.
  induction x using stmt_ind'; try (intros Hs; discriminate); try (intros Hs Hn; discriminate); try rename e into e0; try rename ex into exs;
    intros Hs Hn exp l L' acc accs ex s e tr Lf Mdyn Mb HI Hin HBS e' rds Esem; unfold NS in *.
  - (* SExpr *)
    cbn in Esem. injection Esem as <- <-. cbn [s3_stmt vstmt bsrcs map] in *.
    apply (expr_ln3_s3 e0 ln); auto.
  - (* SAssign *)
    cbn [s3_stmt] in Hs. apply andb_true_iff in Hs as [H1 H2].
    rewrite sem_stmt_assign in Esem. cbv zeta in Esem. cbn [vstmt bsrcs] in *. rewrite tgo_eq in *. rewrite map_fst_others in Hin.
    destruct (expr_ln3_s3 v ln _ _ _ _ _ _ _ _ _ _ _ _ H1 HI) as (P1 & Ln1). cbv zeta in P1, Ln1.
    assert (Et : fold_left (sem_target_step ln) ts (e, []) = (ebind_all (others (flat_map target_names ts)) e, [])).
    { destruct P1 as (expa & _ & Ia & _). cbn [map] in Ia. rewrite app_nil_r in Ia.
      destruct (targets_inv ln ts _ _ _ _ _ _ _ _ _ [] (v_f _ _ _ _ _ _ _ _ _ _ _ _ Ia) H2 Hin) as (E & _). exact E. }
    rewrite Et in Esem. injection Esem as <- <-. rewrite app_nil_r.
    change (others (flat_map target_names ts)) with ([] ++ others (flat_map target_names ts)) at 2.
    eapply PostS3_then_bind. exact P1. intros exp1 I1.
    destruct (targets_u3 ts _ _ _ _ _ _ _ _ _ _ _ _ I1 H2) as (I2 & N2 & _). { exact Hin. } { exact HBS. }
    cbv zeta in I2, N2. rewrite map_fst_others. split. exact I2. exact N2.
  - (* SAugAssign *)
    cbn [s3_stmt] in Hs. apply andb_true_iff in Hs as [H12 H3]. apply andb_true_iff in H12 as [H1 H2].
    apply is_nil_true in H1. subst a. apply not_star_neq in H2.
    cbn in Esem. injection Esem as <- <-. cbn [vstmt bsrcs map fst] in *.
    change [(n, BOther)] with ([] ++ others [n]).
    change ((ln, n, resolve n e) :: sem_expr ln e v) with ([(ln, n, resolve n e)] ++ sem_expr ln e v).
    eapply PostS3_then_bind.
    2:{ intros exp2 I2.
        destruct (binds_u3 [n] _ _ _ _ _ _ _ _ _ _ _ _ I2) as (I3 & N3 & _).
        { constructor; auto. } { exact Hin. } { exact HBS. }
        cbv zeta in I3, N3. cbn [fold_left] in I3, N3. rewrite map_fst_others. split. exact I3. exact N3. }
    change (@nil (name * bsrc)) with (@nil (name * bsrc) ++ []).
    eapply PostS3_seq.
    { destruct (load_u3 _ _ _ _ _ _ _ _ _ _ _ _ n [] (Inv3_with_ln _ _ _ _ _ _ _ _ _ _ _ _ ln HI)) as (exp1 & X1 & I1 & Ln1 & N1).
      exists exp1. cbn [map]. rewrite app_nil_r, mdyn_nil, mbot_nil. split. exact X1. split. exact I1. exact N1. }
    intros exp1 I1.
    assert (Ln1 : lineno (load (with_ln s ln) (stack_of (l :: L')) [n]) = ln).
    { destruct (load_u3 _ _ _ _ _ _ _ _ _ _ _ _ n [] (Inv3_with_ln _ _ _ _ _ _ _ _ _ _ _ _ ln HI)) as (? & _ & _ & Lnx & _). exact Lnx. }
    destruct (expr_cur3_s3 v _ _ _ _ _ _ _ _ _ _ _ _ H3 I1) as (P2 & _). cbv zeta in P2. rewrite Ln1 in P2. exact P2.
  - (* SDef *)
    apply (def_u3_s3 ln nm decos ps ret body (block_u3_s3 body H) Hs Hn _ _ _ _ _ _ _ _ _ _ _ _ HI Hin HBS _ _ Esem).
  - (* SFor *)
    cbn [s3_stmt noimp_stmt] in Hs, Hn. rewrite !s3_blk_fix in Hs. rewrite !noimp_blk_fix in Hn.
    apply andb_true_iff in Hs as [H123 H4]. apply andb_true_iff in H123 as [H12 H3]. apply andb_true_iff in H12 as [H1 H2].
    apply andb_true_iff in Hn as [Nb No].
    rewrite vstmt_for. rewrite sem_stmt_for in Esem. cbv zeta in Esem.
    cbn [bsrcs] in *. rewrite !bsrcs_blk_fix in *. rewrite !map_app, map_fst_others in Hin.
    fold (binds_block false b) (binds_block false o) in *.
    assert (Et : exec_target_env ln e t = (ebind_all (others (target_names t)) e, [])).
    { unfold exec_target_env. rewrite exec_target_s1 by exact H1. reflexivity. }
    rewrite Et in Esem.
    destruct (sem_block b (ebind_all (others (target_names t)) e)) as [e2 r2] eqn:E2.
    destruct (sem_block o e2) as [e3 r3] eqn:E3. injection Esem as <- <-.
    change (others (target_names t) ++ bsrcs_block false b ++ bsrcs_block false o)
      with (([] ++ others (target_names t)) ++ bsrcs_block false b ++ bsrcs_block false o).
    eapply PostS3_seq.
    { eapply PostS3_then_bind. apply (expr_ln3_s3 it ln); eauto. intros exp1 I1.
      destruct (target_u3 t _ _ _ _ _ _ _ _ _ _ _ _ I1 H1) as (I2 & N2 & _).
      { exact (incl_app_l _ _ _ _ Hin). } { intros E. exact (incl_app_l _ _ _ _ (HBS E)). }
      cbv zeta in I2, N2. rewrite map_fst_others. split. exact I2. exact N2. }
    intros exp2 I2.
    eapply PostS3_seq.
    { apply (block_u3_s3 b H H3 Nb _ _ _ _ _ _ _ _ _ _ _ _ I2 (incl_app_l _ _ _ _ (incl_app_r _ _ _ _ Hin))). 
      intros E. exact (incl_app_l _ _ _ _ (incl_app_r _ _ _ _ (HBS E))). exact E2. }
    intros exp3 I3.
    apply (block_u3_s3 o H0 H4 No _ _ _ _ _ _ _ _ _ _ _ _ I3 (incl_app_r _ _ _ _ (incl_app_r _ _ _ _ Hin))).
    intros E. exact (incl_app_r _ _ _ _ (incl_app_r _ _ _ _ (HBS E))). exact E3.
  - (* SWhile *)
    cbn [s3_stmt noimp_stmt] in Hs, Hn. rewrite !s3_blk_fix in Hs. rewrite !noimp_blk_fix in Hn.
    apply andb_true_iff in Hs as [H12 H3]. apply andb_true_iff in H12 as [H1 H2]. apply is_nil_true in H3. subst o.
    apply andb_true_iff in Hn as [Nb _].
    rewrite vstmt_while. rewrite sem_stmt_while in Esem. cbv zeta in Esem.
    cbn [bsrcs] in *. rewrite !bsrcs_blk_fix in *. rewrite app_nil_r in *. fold (binds_block false b) in *.
    destruct (sem_block b e) as [e2 r2] eqn:E2. injection Esem as <- <-.
    change (bsrcs_block false b) with ([] ++ bsrcs_block false b). unfold vblock at 1. cbn [fold_left].
    eapply PostS3_seq. apply (expr_ln3_s3 t ln); eauto. intros exp1 I1.
    apply (block_u3_s3 b H H2 Nb _ _ _ _ _ _ _ _ _ _ _ _ I1 Hin HBS _ _ E2).
  - (* SIf *)
    cbn [s3_stmt noimp_stmt] in Hs, Hn. rewrite !s3_blk_fix in Hs. rewrite !noimp_blk_fix in Hn.
    apply andb_true_iff in Hs as [H12 H3]. apply andb_true_iff in H12 as [H1 H2]. apply is_nil_true in H3. subst o.
    apply andb_true_iff in Hn as [Nb _].
    rewrite vstmt_if. rewrite sem_stmt_if in Esem. cbv zeta in Esem.
    cbn [bsrcs] in *. rewrite !bsrcs_blk_fix in *. rewrite app_nil_r in *. fold (binds_block false b) in *.
    destruct (sem_block b e) as [e2 r2] eqn:E2. injection Esem as <- <-.
    change (bsrcs_block false b) with ([] ++ bsrcs_block false b). unfold vblock at 1. cbn [fold_left].
    eapply PostS3_seq. apply (expr_ln3_s3 t ln); eauto. intros exp1 I1.
    apply (block_u3_s3 b H H2 Nb _ _ _ _ _ _ _ _ _ _ _ _ I1 Hin HBS _ _ E2).
  - (* SWith *)
    cbn [s3_stmt noimp_stmt] in Hs, Hn. rewrite !s3_blk_fix in Hs. rewrite !noimp_blk_fix in Hn. apply andb_true_iff in Hs as [H1 H2].
    rewrite vstmt_with. rewrite sem_stmt_with in Esem.
    cbn [bsrcs] in *. rewrite !bsrcs_blk_fix in *. rewrite map_app, map_fst_others in Hin. fold (binds_block false b) in *.
    change (flat_map (fun it : expr * option target => match snd it with Some t => target_names t | None => [] end) items)
      with (flat_map wnames items) in *.
    destruct (with_items_u3_s3 ln items _ _ _ _ _ _ _ _ _ _ _ _ [] (Inv3_with_ln _ _ _ _ _ _ _ _ _ _ _ _ ln HI) eq_refl H1 (incl_app_l _ _ _ _ Hin))
      as (e1 & r1 & E1 & P1).
    { intros E. exact (incl_app_l _ _ _ _ (HBS E)). }
    cbv zeta in P1. rewrite E1 in Esem. cbn [app] in Esem.
    destruct (sem_block b e1) as [e2 r2] eqn:E2. injection Esem as <- <-.
    eapply PostS3_seq.
    { destruct P1 as (exp1 & X1 & I1 & N1). exists exp1. split. exact X1. split. exact I1. exact N1. }
    intros exp1 I1. apply (block_u3_s3 b H H2 Hn _ _ _ _ _ _ _ _ _ _ _ _ I1). exact (incl_app_r _ _ _ _ Hin).
    intros E. exact (incl_app_r _ _ _ _ (HBS E)). exact E2.
  - (* STry *)
    cbn [s3_stmt noimp_stmt] in Hs, Hn. rewrite !s3_blk_fix in Hs. rewrite !noimp_blk_fix in Hn.
    apply andb_true_iff in Hs as [Habc Hd]. apply andb_true_iff in Habc as [Hab Hc]. apply andb_true_iff in Hab as [Ha Hb].
    apply is_nil_true in Hb. subst hs.
    apply andb_true_iff in Hn as [Hn Nd]. apply andb_true_iff in Hn as [Hn Nc]. apply andb_true_iff in Hn as [Na _].
    rewrite vstmt_try_nohandler. rewrite sem_stmt_try in Esem.
    cbn [bsrcs] in *. rewrite !bsrcs_blk_fix in *. cbn [app] in *. rewrite !map_app in Hin.
    fold (binds_block false b) (binds_block false o) (binds_block false f) in *.
    destruct (sem_block b e) as [e1 r1] eqn:E1. destruct (sem_block o e1) as [e2 r2] eqn:E2.
    destruct (sem_block f e2) as [e3 r3] eqn:E3. injection Esem as <- <-.
    eapply PostS3_seq.
    { destruct (block_u3_s3 b H Ha Na _ _ _ _ _ _ _ _ _ _ _ _ (Inv3_with_ln _ _ _ _ _ _ _ _ _ _ _ _ ln HI) (incl_app_l _ _ _ _ Hin)) with (e' := e1) (rds := r1)
        as (exp1 & X1 & I1 & N1). intros E. exact (incl_app_l _ _ _ _ (HBS E)). exact E1.
      exists exp1. split. exact X1. split. exact I1. exact N1. }
    intros exp1 I1. eapply PostS3_seq.
    { apply (block_u3_s3 o H1 Hc Nc _ _ _ _ _ _ _ _ _ _ _ _ I1 (incl_app_l _ _ _ _ (incl_app_r _ _ _ _ Hin))).
      intros E. exact (incl_app_l _ _ _ _ (incl_app_r _ _ _ _ (HBS E))). exact E2. }
    intros exp2 I2.
    apply (block_u3_s3 f H2 Hd Nd _ _ _ _ _ _ _ _ _ _ _ _ I2 (incl_app_r _ _ _ _ (incl_app_r _ _ _ _ Hin))).
    intros E. exact (incl_app_r _ _ _ _ (incl_app_r _ _ _ _ (HBS E))). exact E3.
  - (* SPass *)
    cbn in Esem. injection Esem as <- <-. cbn [vstmt bsrcs map].
    destruct (PostS3_refl _ _ _ _ _ _ _ _ _ _ _ _ (Inv3_with_ln _ _ _ _ _ _ _ _ _ _ _ _ ln HI)) as (exp1 & X1 & I1 & N1).
    exists exp1. split. exact X1. split. exact I1. exact N1.
  - (* SDoc *)
    cbn in Esem. injection Esem as <- <-. cbn [vstmt bsrcs map].
    destruct (PostS3_refl _ _ _ _ _ _ _ _ _ _ _ _ (Inv3_with_ln _ _ _ _ _ _ _ _ _ _ _ _ ln HI)) as (exp1 & X1 & I1 & N1).
    exists exp1. split. exact X1. split. exact I1. exact N1.
Qed.

Lemma top_other_s3 : forall x, s3_stmt x = true -> noimp_stmt x = true -> TopStep x.
Proof.
  intros x Hs Hn exp acc accs ex s e tr Mdyn Mb done rest H3 Hacc HBS Hp e' rds Esem.
  destruct (stmt_u3_s3 x Hs Hn _ _ _ _ _ _ _ _ _ _ _ _ H3) with (e' := e') (rds := rds) as (exp' & X & I' & N).
  - unfold NS. rewrite HB, HBS, !map_app. intros y Hy. apply in_app_iff. right. apply in_app_iff. auto.
  - intros _ y Hy. rewrite HBS. apply in_app_iff. right. apply in_app_iff. auto.
  - exact Esem.
  - exists exp', (mdyn [] (bsrcs false x) Mdyn), (mbot [] (bsrcs false x) Mb). split. exact X. split. exact I'. split. exact N.
    rewrite (pairs_stmt3 x Hs Hn), Hp, imp_events_app, (imp_events_other (bsrcs false x)). rewrite app_nil_r. reflexivity.
    apply noimp_other. exact Hn.
Qed.

Lemma top_step_s3 : forall x, u3_top x = true -> TopStep x.
Proof.
  intros x H. destruct x; cbn [u3_top] in H;
    try (apply andb_true_iff in H as [H1 H2]; apply top_other_s3; assumption).
  - apply top_import. exact H.
  - apply andb_true_iff in H as [H1 H2]. apply top_from; assumption.
Qed.

Lemma top_block_s3 : forall p2 exp acc accs ex s e tr Mdyn Mb done rest,
  u3_block p2 = true ->
  Inv3 exp lm [] acc accs ex s e tr [] Mdyn Mb -> acc = map fst done -> BS = done ++ bsrcs_block false p2 ++ rest ->
  pairs s = imp_events done ->
  forall e' rds, sem_block p2 e = (e', rds) ->
  exists exp' Mdyn' Mb',
    Inv3 exp' lm [] (acc ++ binds_block false p2) accs ex (vblock true p2 (stack_of [lm]) s) e' (tr ++ rds) [] Mdyn' Mb' /\
    pairs (vblock true p2 (stack_of [lm]) s) = imp_events (done ++ bsrcs_block false p2).
Proof.
  induction p2 as [|x p2 IH]; intros exp acc accs ex s e tr Mdyn Mb done rest Hu H3 Hacc HBS Hp e' rds E.
  - cbn in E. injection E as <- <-. exists exp, Mdyn, Mb. cbn. rewrite !app_nil_r. auto.
  - cbn in Hu. apply andb_true_iff in Hu as [H1 H2].
    cbn [sem_block] in E. destruct (sem_stmt e x) as [e1 r1] eqn:E1. destruct (sem_block p2 e1) as [e2 r2] eqn:E2.
    injection E as <- <-.
    unfold binds_block, bsrcs_block in *. cbn [flat_map] in *. rewrite <- app_assoc in HBS.
    destruct (top_step_s3 x H1 exp acc accs ex s e tr Mdyn Mb done _ H3 Hacc HBS Hp e1 r1 E1) as (exp1 & Md1 & Mb1 & X1 & I1 & N1 & P1).
    destruct (IH exp1 (acc ++ NS x) accs ex _ e1 (tr ++ r1) Md1 Mb1 (done ++ bsrcs false x) rest H2 I1) with (e' := e2) (rds := r2)
      as (exp2 & Md2 & Mb2 & I2 & P2).
    + rewrite map_app, Hacc. reflexivity.
    + rewrite <- app_assoc. exact HBS.
    + exact P1.
    + exact E2.
    + exists exp2, Md2, Mb2. unfold vblock in *. cbn [fold_left]. rewrite map_app.
      rewrite <- (app_assoc acc), <- (app_assoc tr) in I2. rewrite <- (app_assoc done) in P2. unfold NS in I2. split. exact I2. exact P2.
Qed.

End U2.

(* ---------- the initial state ---------- *)
Lemma erd_plain_dict : forall l, erd (plain_dict l) = plain_dict l.
Proof. intro l. unfold erd, plain_dict. rewrite map_map. reflexivity. Qed.

Lemma er_init : forall bi ns, er (snd (init_state bi ns)) = snd (init_state bi ns).
Proof.
  intros bi ns. unfold init_state.
  set (s0 := mkSt [(builtins_id, (KNormal, plain_dict bi)); (delayed_id, (KNormal, []))] 2 [] [] [] [] false 0 0).
  assert (E0 : er s0 = s0). { unfold er, s0. cbn. rewrite erd_plain_dict. reflexivity. }
  assert (G : forall ns ids s, er s = s ->
            er (snd (fold_left (fun acc l => let '(ids, s) := acc in
                                             let '(i, s') := new_scope s KNormal (plain_dict l) in (ids ++ [i], s')) ns (ids, s)))
            = snd (fold_left (fun acc l => let '(ids, s) := acc in
                                           let '(i, s') := new_scope s KNormal (plain_dict l) in (ids ++ [i], s')) ns (ids, s))).
  { induction ns0 as [|l ns0 IH]; intros ids s E; cbn [fold_left]. exact E.
    destruct (er_new_scope s KNormal (plain_dict l)) as [_ F2]. rewrite erd_plain_dict, E in F2.
    destruct (new_scope s KNormal (plain_dict l)) as [i s1] eqn:En. cbn [snd] in F2. apply IH. symmetry. exact F2. }
  specialize (G ns [builtins_id] s0 E0).
  destruct (fold_left _ ns ([builtins_id], s0)) as [ids s1]. cbn [snd] in G.
  pose proof (er_push s1 ids false false false) as Hp. rewrite G in Hp.
  destruct (push s1 ids false false false) as [stk s2]. cbn [fst snd] in *. injection Hp as Hp. symmetry. exact Hp.
Qed.

(* ---------- the deferred checks at the end, with tracking on ---------- *)
Lemma pairs_finish_fold : forall cur ds s,
  pairs (fold_left (fun s d => let '(n, stk, ln) := d in check_load s cur stk n ln) ds s) = pairs s.
Proof.
  intros cur ds. induction ds as [|[[d stk] ln] ds IH]; intro s; cbn [fold_left]. reflexivity.
  rewrite IH. apply pairs_check_load.
Qed.

(* what a check_load changes: marks and the missing list *)
Definition SameBut (s s' : st) : Prop :=
  scopes s' = scopes s /\ MarkExt (checkers s) (checkers s') /\ unused s' = unused s.
Lemma SameBut_refl : forall s, SameBut s s.
Proof. intro s. split. reflexivity. split. apply MarkExt_refl. reflexivity. Qed.
Lemma SameBut_trans : forall a b c, SameBut a b -> SameBut b c -> SameBut a c.
Proof. intros a b c (A1 & A2 & A3) (B1 & B2 & B3). split. congruence. split. eapply MarkExt_trans; eauto. congruence. Qed.
Lemma SameBut_check_load : forall s cur stk n ln, SameBut s (check_load s cur stk n ln).
Proof.
  intros. unfold check_load. pose proof (needs_marks s stk n) as HM. destruct (needs s stk n) as [b s1]. cbn [snd] in HM.
  destruct HM as (cs' & -> & M).
  destruct (b && negb (has_star (with_checkers s cs') stk)).
  - destruct (add_missing_spec (with_checkers s cs') cur ln n) as [E _]. rewrite E. split. reflexivity. split. exact M. reflexivity.
  - split. reflexivity. split. exact M. reflexivity.
Qed.
Lemma SameBut_fold : forall cur ds s,
  SameBut s (fold_left (fun s d => let '(n, stk, ln) := d in check_load s cur stk n ln) ds s).
Proof.
  intros cur ds. induction ds as [|[[d stk] ln] ds IH]; intro s; cbn [fold_left]. apply SameBut_refl.
  eapply SameBut_trans. apply SameBut_check_load. apply IH.
Qed.

Lemma finish_marks : forall cur T x c ds s a stk ln pre post,
  In (x :: a, stk, ln) ds -> stk = pre ++ T :: post ->
  (forall j, In j post -> rootclosed (scope_dict s j) /\ dict_get (scope_dict s j) [x] = None) ->
  (forall k v, In (k, v) (scope_dict s T) -> exists y, k = [y]) ->
  dict_get (scope_dict s T) [x] = Some (Chk c) -> c < length (checkers s) ->
  c_used (nth c (checkers (fold_left (fun s d => let '(n, stk, ln) := d in check_load s cur stk n ln) ds s)) ckd) = true.
Proof.
  intros cur T x c ds. induction ds as [|[[d stk0] ln0] ds IH]; intros s a stk ln pre post Hin Hstk Hpost Hk Hx Hc. contradiction.
  cbn [fold_left]. destruct Hin as [E|Hin].
  - injection E as -> -> ->. subst stk.
    unfold check_load at 2. rewrite (needs_found s x a pre T post c Hpost Hk Hx). cbn [andb].
    pose proof (SameBut_fold cur ds (mark_used s c)) as (_ & M & _). apply (me_used _ _ M).
    unfold mark_used. cbn [checkers with_checkers]. rewrite mark_nth_same by exact Hc. reflexivity.
  - pose proof (SameBut_check_load s cur stk0 d ln0) as (E1 & M1 & _).
    assert (Esd : forall i, scope_dict (check_load s cur stk0 d ln0) i = scope_dict s i) by (intro i; unfold scope_dict; rewrite E1; reflexivity).
    apply (IH _ a stk ln pre post Hin Hstk).
    + intros j Hj. rewrite Esd. apply Hpost. exact Hj.
    + intros k v. rewrite Esd. apply Hk.
    + rewrite Esd. exact Hx.
    + rewrite (me_len _ _ M1). exact Hc.
Qed.

(* ---------- unused_sound on stage 2 ---------- *)
Theorem u2_unused_sound : forall bi ns p, u2_block p = true -> star_free bi ns = true -> imports_once bi ns p = true ->
  NoDup (imp_events (bsrcs_block false p)) ->
  forall l i, In (l, i) (snd (finder bi ns true p)) ->
  forall ln n, ~ In (ln, n, Bound (BImp l i)) (pysem bi ns p).
Proof.
  intros bi ns p Hu Hsf Honce Hnd l i Hrep ln n Hread.
  set (BS := bsrcs_block false p). set (I0 := concat ns ++ bi).
  pose proof (imports_once_Once bi ns p Honce) as HO. fold BS I0 in HO.
  destruct (init_inv2 bi ns p Hsf) as (exp0 & lm & Hown & HB & Estk & HI & Hm0 & HTd & Hd0 & HP0).
  pose proof (er_init bi ns) as Eer.
  unfold finder in Hrep. unfold pysem in Hread.
  destruct (init_state bi ns) as [stk s0]. cbn [fst snd] in *. subst stk.
  set (M0 := module_frame bi ns p) in *.
  assert (HP : forall y, In y (l_P lm) -> In y I0).
  { intros y Hy. apply HP0 in Hy. unfold I0. rewrite in_app_iff in *. tauto. }
  assert (HB' : l_B lm = map fst BS) by (rewrite HB; reflexivity).
  assert (Hck0 : checkers s0 = []) by (rewrite <- Eer; reflexivity).
  assert (Hun0 : unused s0 = []) by (rewrite <- Eer; reflexivity).
  assert (H30 : Inv3 BS I0 lm exp0 lm [] [] [] [] s0 [M0] [] [] (others I0) M0).
  { constructor.
    - rewrite Eer. exact HI.
    - reflexivity.
    - constructor.
      + intros j k v _ Hin. apply (sv_raw _ (st_sinv _ _ _ _ _ (i_st _ _ _ _ _ _ _ _ _ HI)) j k v Hin).
      + intros k v Hin. rewrite HTd in Hin. destruct Hin.
      + intros x c. rewrite HTd. discriminate.
      + intros x l0 i0 H. apply lookup_b_others_other in H. discriminate.
      + intros x. rewrite HTd. discriminate.
      + intros x l0 i0 Hf. left. apply final_import_in in Hf. apply (HO _ _ _ Hf).
      + intros x l0 i0 H. apply lookup_b_others_other in H. discriminate.
      + exact Hun0.
      + intros ? ? ? ? [].
    - reflexivity.
    - reflexivity.
    - reflexivity.
    - intros x Hx. cbn [last] in Hx. rewrite Hown in Hx. destruct Hx. }
  destruct (sem_block p [M0]) as [e1 r1] eqn:Es. cbn [snd] in Hread.
  destruct (top_block BS I0 lm HO HP HB' p exp0 [] [] [] s0 [M0] [] (others I0) M0 [] [] Hu H30 eq_refl) with (e' := e1) (rds := r1)
    as (exp1 & Md1 & Mb1 & I1 & P1).
  { rewrite app_nil_r. reflexivity. } { unfold pairs. rewrite Hck0. reflexivity. } { exact Es. }
  cbn [app] in I1, P1. fold BS in P1. set (s1 := vblock true p (stack_of [lm]) s0) in *.
  pose proof I1 as [HI1 _ HU1 HEU1 Hfin1 Hdyn1 _]. cbn [is_nil] in Hdyn1.
  (* the report: an unused checker of the top scope *)
  apply sort_by_In in Hrep. unfold scan_unused, scan_node, finish_deferred in Hrep. fold s1 in Hrep.
  set (sF := fold_left (fun s d => let '(n, stk, ln) := d in check_load s (stack_of [lm]) stk n ln) (deferred s1) s1) in *.
  pose proof (SameBut_fold (stack_of [lm]) (deferred s1) s1) as (ES & ME & EU). fold sF in ES, ME, EU.
  rewrite stack_top in Hrep. set (T := l_b lm) in *.
  set (sP := fold_left report_unused_of (pending_dicts sF T) sF) in *.
  assert (EckP : checkers sP = checkers sF).
  { unfold sP. destruct (reports_shape (pending_dicts sF T) sF) as (u & E0). rewrite E0. reflexivity. }
  assert (Hrep' : exists c0, c_used (nth c0 (checkers sF) ckd) = false /\ c_line (nth c0 (checkers sF) ckd) = l /\ c_imp (nth c0 (checkers sF) ckd) = i).
  { apply report_unused_spec in Hrep as [Hrep|(k & c0 & Hk & Hunused & Hl & Hi)].
    - cbn [unused with_deferred] in Hrep. unfold sP in Hrep. apply reports_spec in Hrep as [Hrep|(d & k & c0 & _ & _ & Hu0 & Hl0 & Hi0)].
      + rewrite EU, (u_unused _ _ _ _ _ _ _ HU1) in Hrep. destruct Hrep.
      + exists c0. unfold checker_at in Hu0, Hl0, Hi0. fold ckd in Hu0, Hl0, Hi0. auto.
    - exists c0. unfold checker_at in Hunused, Hl, Hi. cbn [checkers with_deferred] in Hunused, Hl, Hi. fold ckd in Hunused, Hl, Hi.
      rewrite EckP in Hunused, Hl, Hi. auto. }
  destruct Hrep' as (c0 & Hunused & Hl & Hi).
  assert (Hc0 : c0 < length (checkers sF)).
  { destruct (Nat.lt_ge_cases c0 (length (checkers sF))) as [H|H]; auto. exfalso. rewrite nth_overflow in Hunused by exact H. discriminate. }
  (* the read: its checker is used in the end *)
  assert (Hused : exists c, c < length (checkers sF) /\ c_line (nth c (checkers sF) ckd) = l /\
                            c_imp (nth c (checkers sF) ckd) = i /\ c_used (nth c (checkers sF) ckd) = true).
  { destruct (u_reads _ _ _ _ _ _ _ HU1 ln n l i Hread) as [(c & Hc & A & B & C)|[Hfinal (a & stk' & ln' & Hin & pre & post & E & Hpost)]].
    - exists c. unfold checker_at in A, B, C. fold ckd in A, B, C. rewrite (me_len _ _ ME), (me_line _ _ ME), (me_imp _ _ ME).
      repeat split; auto. apply (me_used _ _ ME). exact C.
    - (* deferred: the final check finds the checker in the top scope *)
      pose proof (i_env _ _ _ _ _ _ _ _ _ HI1) as HE1. destruct e1 as [|f [|? ?]]; try contradiction. cbn in HEU1. subst f.
      destruct HE1 as [HE1a HE1b]. rewrite Hfin1 in HE1a.
      assert (Hdyn : lookup_b n Md1 = Some (BImp l i)).
      { destruct (u_stab _ _ _ _ _ _ _ HU1 n l i Hfinal) as [Hn|Hs]; auto. exfalso.
        assert (Hne : lookup_b n (rev BS ++ others I0) <> None) by congruence.
        apply HE1a in Hne. rewrite HB in Hne. rewrite <- Hdyn1 in Hn. revert Hn. apply HE1b. exact Hne. }
      destruct (u_mod2 _ _ _ _ _ _ _ HU1 n l i Hdyn) as (c & Hc & A & B).
      assert (Hclt : c < length (checkers s1)).
      { destruct (u_top _ _ _ _ _ _ _ HU1 _ _ (dict_get_In' _ _ _ Hc)) as [_ [D|(c' & D & Hlt)]]. discriminate. injection D as <-. exact Hlt. }
      exists c. unfold checker_at in A, B. fold ckd in A, B. rewrite (me_len _ _ ME), (me_line _ _ ME), (me_imp _ _ ME).
      split. exact Hclt. split. exact A. split. exact B.
      apply (finish_marks (stack_of [lm]) T n c (deferred s1) s1 a stk' ln' pre post Hin E); auto.
      + intros j Hj. split. apply rootclosed_er. apply (sv_root _ (st_sinv _ _ _ _ _ (i_st _ _ _ _ _ _ _ _ _ HI1))).
        apply dict_get_none_er. destruct (has (er s1) j n) eqn:Eh; auto. exfalso. apply (Hpost j Hj).
        apply (st_sub _ _ _ _ _ (i_st _ _ _ _ _ _ _ _ _ HI1)). exact Eh.
      + intros k' v' Hin'. apply (u_top _ _ _ _ _ _ _ HU1 _ _ Hin'). }
  destruct Hused as (c & Hc & A & B & C).
  assert (Hndp : NoDup (map (fun ck => (c_line ck, c_imp ck)) (checkers sF))).
  { change (map (fun ck => (c_line ck, c_imp ck)) (checkers sF)) with (pairs sF). unfold sF. rewrite pairs_finish_fold, P1. exact Hnd. }
  assert (Ecc : c = c0).
  { eapply (NoDup_map_nth _ _ (fun ck => (c_line ck, c_imp ck)) (checkers sF) ckd); eauto. cbn. congruence. }
  subst c0. congruence.
Qed.

(* ---------- unused_sound on stage 3 (comprehensions) ---------- *)
Theorem u3_unused_sound : forall bi ns p, u3_block p = true -> star_free bi ns = true -> imports_once bi ns p = true ->
  NoDup (imp_events (bsrcs_block false p)) ->
  forall l i, In (l, i) (snd (finder bi ns true p)) ->
  forall ln n, ~ In (ln, n, Bound (BImp l i)) (pysem bi ns p).
Proof.
  intros bi ns p Hu Hsf Honce Hnd l i Hrep ln n Hread.
  set (BS := bsrcs_block false p). set (I0 := concat ns ++ bi).
  pose proof (imports_once_Once bi ns p Honce) as HO. fold BS I0 in HO.
  destruct (init_inv2 bi ns p Hsf) as (exp0 & lm & Hown & HB & Estk & HI & Hm0 & HTd & Hd0 & HP0).
  pose proof (er_init bi ns) as Eer.
  unfold finder in Hrep. unfold pysem in Hread.
  destruct (init_state bi ns) as [stk s0]. cbn [fst snd] in *. subst stk.
  set (M0 := module_frame bi ns p) in *.
  assert (HP : forall y, In y (l_P lm) -> In y I0).
  { intros y Hy. apply HP0 in Hy. unfold I0. rewrite in_app_iff in *. tauto. }
  assert (HB' : l_B lm = map fst BS) by (rewrite HB; reflexivity).
  assert (Hck0 : checkers s0 = []) by (rewrite <- Eer; reflexivity).
  assert (Hun0 : unused s0 = []) by (rewrite <- Eer; reflexivity).
  assert (H30 : Inv3 BS I0 lm exp0 lm [] [] [] [] s0 [M0] [] [] (others I0) M0).
  { constructor.
    - rewrite Eer. exact HI.
    - reflexivity.
    - constructor.
      + intros j k v _ Hin. apply (sv_raw _ (st_sinv _ _ _ _ _ (i_st _ _ _ _ _ _ _ _ _ HI)) j k v Hin).
      + intros k v Hin. rewrite HTd in Hin. destruct Hin.
      + intros x c. rewrite HTd. discriminate.
      + intros x l0 i0 H. apply lookup_b_others_other in H. discriminate.
      + intros x. rewrite HTd. discriminate.
      + intros x l0 i0 Hf. left. apply final_import_in in Hf. apply (HO _ _ _ Hf).
      + intros x l0 i0 H. apply lookup_b_others_other in H. discriminate.
      + exact Hun0.
      + intros ? ? ? ? [].
    - reflexivity.
    - reflexivity.
    - reflexivity.
    - intros x Hx. cbn [last] in Hx. rewrite Hown in Hx. destruct Hx. }
  destruct (sem_block p [M0]) as [e1 r1] eqn:Es. cbn [snd] in Hread.
  destruct (top_block_s3 BS I0 lm HO HP HB' p exp0 [] [] [] s0 [M0] [] (others I0) M0 [] [] Hu H30 eq_refl) with (e' := e1) (rds := r1)
    as (exp1 & Md1 & Mb1 & I1 & P1).
  { rewrite app_nil_r. reflexivity. } { unfold pairs. rewrite Hck0. reflexivity. } { exact Es. }
  cbn [app] in I1, P1. fold BS in P1. set (s1 := vblock true p (stack_of [lm]) s0) in *.
  pose proof I1 as [HI1 _ HU1 HEU1 Hfin1 Hdyn1 _]. cbn [is_nil] in Hdyn1.
  (* the report: an unused checker of the top scope *)
  apply sort_by_In in Hrep. unfold scan_unused, scan_node, finish_deferred in Hrep. fold s1 in Hrep.
  set (sF := fold_left (fun s d => let '(n, stk, ln) := d in check_load s (stack_of [lm]) stk n ln) (deferred s1) s1) in *.
  pose proof (SameBut_fold (stack_of [lm]) (deferred s1) s1) as (ES & ME & EU). fold sF in ES, ME, EU.
  rewrite stack_top in Hrep. set (T := l_b lm) in *.
  set (sP := fold_left report_unused_of (pending_dicts sF T) sF) in *.
  assert (EckP : checkers sP = checkers sF).
  { unfold sP. destruct (reports_shape (pending_dicts sF T) sF) as (u & E0). rewrite E0. reflexivity. }
  assert (Hrep' : exists c0, c_used (nth c0 (checkers sF) ckd) = false /\ c_line (nth c0 (checkers sF) ckd) = l /\ c_imp (nth c0 (checkers sF) ckd) = i).
  { apply report_unused_spec in Hrep as [Hrep|(k & c0 & Hk & Hunused & Hl & Hi)].
    - cbn [unused with_deferred] in Hrep. unfold sP in Hrep. apply reports_spec in Hrep as [Hrep|(d & k & c0 & _ & _ & Hu0 & Hl0 & Hi0)].
      + rewrite EU, (u_unused _ _ _ _ _ _ _ HU1) in Hrep. destruct Hrep.
      + exists c0. unfold checker_at in Hu0, Hl0, Hi0. fold ckd in Hu0, Hl0, Hi0. auto.
    - exists c0. unfold checker_at in Hunused, Hl, Hi. cbn [checkers with_deferred] in Hunused, Hl, Hi. fold ckd in Hunused, Hl, Hi.
      rewrite EckP in Hunused, Hl, Hi. auto. }
  destruct Hrep' as (c0 & Hunused & Hl & Hi).
  assert (Hc0 : c0 < length (checkers sF)).
  { destruct (Nat.lt_ge_cases c0 (length (checkers sF))) as [H|H]; auto. exfalso. rewrite nth_overflow in Hunused by exact H. discriminate. }
  (* the read: its checker is used in the end *)
  assert (Hused : exists c, c < length (checkers sF) /\ c_line (nth c (checkers sF) ckd) = l /\
                            c_imp (nth c (checkers sF) ckd) = i /\ c_used (nth c (checkers sF) ckd) = true).
  { destruct (u_reads _ _ _ _ _ _ _ HU1 ln n l i Hread) as [(c & Hc & A & B & C)|[Hfinal (a & stk' & ln' & Hin & pre & post & E & Hpost)]].
    - exists c. unfold checker_at in A, B, C. fold ckd in A, B, C. rewrite (me_len _ _ ME), (me_line _ _ ME), (me_imp _ _ ME).
      repeat split; auto. apply (me_used _ _ ME). exact C.
    - (* deferred: the final check finds the checker in the top scope *)
      pose proof (i_env _ _ _ _ _ _ _ _ _ HI1) as HE1. destruct e1 as [|f [|? ?]]; try contradiction. cbn in HEU1. subst f.
      destruct HE1 as [HE1a HE1b]. rewrite Hfin1 in HE1a.
      assert (Hdyn : lookup_b n Md1 = Some (BImp l i)).
      { destruct (u_stab _ _ _ _ _ _ _ HU1 n l i Hfinal) as [Hn|Hs]; auto. exfalso.
        assert (Hne : lookup_b n (rev BS ++ others I0) <> None) by congruence.
        apply HE1a in Hne. rewrite HB in Hne. rewrite <- Hdyn1 in Hn. revert Hn. apply HE1b. exact Hne. }
      destruct (u_mod2 _ _ _ _ _ _ _ HU1 n l i Hdyn) as (c & Hc & A & B).
      assert (Hclt : c < length (checkers s1)).
      { destruct (u_top _ _ _ _ _ _ _ HU1 _ _ (dict_get_In' _ _ _ Hc)) as [_ [D|(c' & D & Hlt)]]. discriminate. injection D as <-. exact Hlt. }
      exists c. unfold checker_at in A, B. fold ckd in A, B. rewrite (me_len _ _ ME), (me_line _ _ ME), (me_imp _ _ ME).
      split. exact Hclt. split. exact A. split. exact B.
      apply (finish_marks (stack_of [lm]) T n c (deferred s1) s1 a stk' ln' pre post Hin E); auto.
      + intros j Hj. split. apply rootclosed_er. apply (sv_root _ (st_sinv _ _ _ _ _ (i_st _ _ _ _ _ _ _ _ _ HI1))).
        apply dict_get_none_er. destruct (has (er s1) j n) eqn:Eh; auto. exfalso. apply (Hpost j Hj).
        apply (st_sub _ _ _ _ _ (i_st _ _ _ _ _ _ _ _ _ HI1)). exact Eh.
      + intros k' v' Hin'. apply (u_top _ _ _ _ _ _ _ HU1 _ _ Hin'). }
  destruct Hused as (c & Hc & A & B & C).
  assert (Hndp : NoDup (map (fun ck => (c_line ck, c_imp ck)) (checkers sF))).
  { change (map (fun ck => (c_line ck, c_imp ck)) (checkers sF)) with (pairs sF). unfold sF. rewrite pairs_finish_fold, P1. exact Hnd. }
  assert (Ecc : c = c0).
  { eapply (NoDup_map_nth _ _ (fun ck => (c_line ck, c_imp ck)) (checkers sF) ckd); eauto. cbn. congruence. }
  subst c0. congruence.
Qed.

(* M7, stage 2, unused side - an import reported unused by scan_for_import_issues is the binding of no read, for
   stage-2 programs whose imports are top-level statements binding names that are bound nowhere else at module level
   (Fragment.u2_block, Fragment.imports_once).
   The structural part comes from the tracking-off simulation through the erasure (Stage2Erase.v); this file adds
   the use-checker bookkeeping: which checker a needs-call marks, and that every read PySem resolves to an import
   either has marked that import's checker or sits in the deferred list with a stack on which it will. *)
From Coq Require Import NArith List Bool Arith Lia.
From Verif Require Import Scope.PySyntax Scope.Finder Scope.PySem Scope.Fragment Scope.AuxProofs Scope.FinderProofs
                          Scope.UnusedProofs Scope.Stage2Base Scope.Stage2Inv Scope.Stage2Steps Scope.Stage2Proofs
                          Scope.Stage2Stmt Scope.Stage2Final Scope.Stage2Erase.
Import ListNotations.

(* ---------- checker lists that differ by marks only ---------- *)
Definition ckd : checker := mkChecker ([], []) 0 true.
Record MarkExt (cs cs' : list checker) : Prop := mkME {
  me_len : length cs' = length cs;
  me_line : forall c, c_line (nth c cs' ckd) = c_line (nth c cs ckd);
  me_imp : forall c, c_imp (nth c cs' ckd) = c_imp (nth c cs ckd);
  me_used : forall c, c_used (nth c cs ckd) = true -> c_used (nth c cs' ckd) = true }.

Lemma MarkExt_refl : forall cs, MarkExt cs cs.
Proof. intro cs. constructor; auto. Qed.
Lemma MarkExt_trans : forall a b c, MarkExt a b -> MarkExt b c -> MarkExt a c.
Proof.
  intros a b c [L1 A1 B1 C1] [L2 A2 B2 C2]. constructor. congruence.
  intro k. rewrite A2. apply A1. intro k. rewrite B2. apply B1. intros k H. apply C2, C1, H.
Qed.
Lemma mark_nth_facts : forall cs c k,
  c_line (nth k (mark cs c) ckd) = c_line (nth k cs ckd) /\ c_imp (nth k (mark cs c) ckd) = c_imp (nth k cs ckd) /\
  (c_used (nth k cs ckd) = true -> c_used (nth k (mark cs c) ckd) = true).
Proof.
  induction cs as [|x cs IH]; intros c k. destruct c; cbn; auto.
  destruct c as [|c]; destruct k as [|k]; cbn; auto.
Qed.
Lemma MarkExt_mark : forall cs c, MarkExt cs (mark cs c).
Proof.
  intros cs c. constructor. apply mark_length.
  intro k. apply mark_nth_facts. intro k. apply mark_nth_facts. intro k. apply mark_nth_facts.
Qed.
(* a state that differs from s in the marks of its checkers only *)
Definition Marks (s s' : st) : Prop := exists cs', s' = with_checkers s cs' /\ MarkExt (checkers s) cs'.
Lemma Marks_refl : forall s, Marks s s.
Proof. intro s. exists (checkers s). split. destruct s; reflexivity. apply MarkExt_refl. Qed.
Lemma Marks_trans : forall a b c, Marks a b -> Marks b c -> Marks a c.
Proof.
  intros a b c (c1 & -> & M1) (c2 & -> & M2). exists c2. split. reflexivity. cbn [checkers with_checkers] in M2.
  eapply MarkExt_trans; eauto.
Qed.
Lemma Marks_mark : forall s c, Marks s (mark_used s c).
Proof. intros s c. exists (mark (checkers s) c). split. reflexivity. apply MarkExt_mark. Qed.
Lemma Marks_marks : forall l s, Marks s (fold_left mark_used l s).
Proof.
  induction l as [|c l IH]; intro s; cbn [fold_left]. apply Marks_refl. eapply Marks_trans. apply Marks_mark. apply IH.
Qed.

Lemma needs_stack_marks : forall ps r s, Marks s (snd (needs_stack s r ps)).
Proof.
  intros ps r. induction r as [|i r IH]; intro s; cbn [needs_stack]. apply Marks_refl.
  destruct (first_present (scope_dict s i) ps) as [[|c|cs]|]; cbn [snd]; auto using Marks_refl, Marks_mark, Marks_marks.
Qed.
Lemma needs_marks : forall s stk n, Marks s (snd (needs s stk n)).
Proof. intros. unfold needs. apply needs_stack_marks. Qed.

(* which checker a needs-call marks: the scopes above hold no key rooted at x, the scope reached holds [x] -> Chk c and
   only single-name keys *)
Lemma first_present_root_none : forall d x a, rootclosed d -> dict_get d [x] = None ->
  first_present d (rev (prefixes (x :: a))) = None.
Proof.
  intros d x a Hr Hx. apply first_present_none. intros p Hp. apply in_rev in Hp.
  destruct (prefixes_head _ _ _ Hp) as (q & ->).
  destruct (dict_get d (x :: q)) eqn:E; auto. exfalso. apply (Hr x q). congruence. exact Hx.
Qed.
Lemma first_present_single_key : forall d x a e, (forall k v, In (k, v) d -> exists y, k = [y]) ->
  dict_get d [x] = Some e -> first_present d (rev (prefixes (x :: a))) = Some e.
Proof.
  intros d x a e Hk Hx.
  assert (G : forall ps, (forall p, In p ps -> p = [x] \/ exists y z q, p = y :: z :: q) -> In [x] ps ->
                first_present d ps = Some e).
  { induction ps as [|p ps IH]; intros Hs Hin. contradiction. cbn.
    destruct (Hs p (or_introl eq_refl)) as [->|(y & z & q & ->)].
    - rewrite Hx. reflexivity.
    - destruct (dict_get d (y :: z :: q)) eqn:E.
      + exfalso. clear - E Hk. induction d as [|[k v] d IHd]; cbn [dict_get] in E. discriminate.
        destruct (dotted_eqb (y :: z :: q) k) eqn:Ek.
        * apply dotted_eqb_eq in Ek. subst k. destruct (Hk _ _ (or_introl eq_refl)) as (w & Hw). discriminate.
        * apply IHd; auto. intros k' v' H'. eapply Hk. right. exact H'.
      + apply IH. intros p' Hp'. apply Hs. right. exact Hp'.
        destruct Hin as [Hin|Hin]; auto. discriminate. }
  apply G.
  - intros p Hp. apply in_rev in Hp. destruct (prefixes_head _ _ _ Hp) as (q & ->). destruct q as [|z q]; eauto.
  - apply -> in_rev. apply prefixes_first.
Qed.

Lemma needs_stack_found : forall s x a post i pre c,
  (forall j, In j post -> rootclosed (scope_dict s j) /\ dict_get (scope_dict s j) [x] = None) ->
  (forall k v, In (k, v) (scope_dict s i) -> exists y, k = [y]) ->
  dict_get (scope_dict s i) [x] = Some (Chk c) ->
  needs_stack s (rev post ++ i :: pre) (rev (prefixes (x :: a))) = (false, mark_used s c).
Proof.
  intros s x a post i pre c Hpost Hk Hx.
  assert (G : forall r, (forall j, In j r -> rootclosed (scope_dict s j) /\ dict_get (scope_dict s j) [x] = None) ->
              needs_stack s (r ++ i :: pre) (rev (prefixes (x :: a))) = (false, mark_used s c)).
  { induction r as [|j r IH]; intro Hr; cbn [app needs_stack].
    - rewrite (first_present_single_key _ x a (Chk c) Hk Hx). reflexivity.
    - destruct (Hr j (or_introl eq_refl)) as [R1 R2]. rewrite (first_present_root_none _ x a R1 R2).
      apply IH. intros j' Hj'. apply Hr. right. exact Hj'. }
  apply G. intros j Hj. apply Hpost. apply in_rev. exact Hj.
Qed.

Lemma needs_found : forall s x a pre i post c,
  (forall j, In j post -> rootclosed (scope_dict s j) /\ dict_get (scope_dict s j) [x] = None) ->
  (forall k v, In (k, v) (scope_dict s i) -> exists y, k = [y]) ->
  dict_get (scope_dict s i) [x] = Some (Chk c) ->
  needs s (pre ++ i :: post) (x :: a) = (false, mark_used s c).
Proof.
  intros. unfold needs. rewrite rev_app_distr. cbn [rev]. rewrite <- app_assoc. cbn [app].
  apply needs_stack_found; auto.
Qed.

(* ---------- the once-condition ---------- *)
Lemma count_name_app : forall x a b, count_name x (a ++ b) = count_name x a + count_name x b.
Proof. induction a as [|y a IH]; intro b; cbn. reflexivity. rewrite IH. lia. Qed.
Lemma count_name_In : forall x l, In x l -> 1 <= count_name x l.
Proof.
  induction l as [|y l IH]; cbn; intro H. contradiction. destruct H as [->|H]. rewrite N.eqb_refl. lia.
  specialize (IH H). lia.
Qed.
Lemma count_name_zero : forall x l, count_name x l = 0 -> ~ In x l.
Proof. intros x l H Hin. apply count_name_In in Hin. lia. Qed.

(* two different bindings of one name: the name is counted twice *)
Lemma count_two : forall (BS : list (name * bsrc)) x b b', In (x, b) BS -> In (x, b') BS -> b <> b' ->
  2 <= count_name x (map fst BS).
Proof.
  induction BS as [|[y c] BS IH]; intros x b b' H1 H2 Hne. contradiction. cbn [map fst count_name].
  destruct H1 as [H1|H1]; destruct H2 as [H2|H2].
  - congruence.
  - injection H1 as -> ->. rewrite N.eqb_refl. assert (In x (map fst BS)) by (apply in_map_iff; exists (x, b'); auto).
    apply count_name_In in H. lia.
  - injection H2 as -> ->. rewrite N.eqb_refl. assert (In x (map fst BS)) by (apply in_map_iff; exists (x, b); auto).
    apply count_name_In in H. lia.
  - specialize (IH x b b' H1 H2 Hne). lia.
Qed.

Definition Once (BS init : list (name * bsrc)) : Prop :=
  forall x l i, In (x, BImp l i) BS -> count_name x (map fst BS) = 1 /\ lookup_b x init = None.

Lemma imports_once_Once : forall bi ns p, imports_once bi ns p = true ->
  Once (bsrcs_block false p) (others (concat ns ++ bi)).
Proof.
  intros bi ns p H x l i Hin. unfold imports_once in H. rewrite forallb_forall in H. specialize (H _ Hin). cbn [fst snd] in H.
  apply andb_true_iff in H as [H1 H2]. apply Nat.eqb_eq in H1. split. exact H1.
  apply negb_true_iff in H2. destruct (lookup_b x (others (concat ns ++ bi))) eqn:E; auto. exfalso.
  assert (Hn : lookup_b x (others (concat ns ++ bi)) <> None) by congruence. apply lookup_b_others in Hn.
  assert (Hm : mem x (bi ++ concat ns) = true). { apply mem_In. rewrite in_app_iff in *. tauto. }
  congruence.
Qed.

(* the final module binding of a name: the last occurrence in BS, else the initial one *)
Lemma lookup_rev_In : forall BS init x b, lookup_b x (rev BS ++ init) = Some b -> In (x, b) BS \/ lookup_b x init = Some b.
Proof.
  intros BS init x b. induction BS as [|[y c] BS IH] using rev_ind; cbn. auto.
  rewrite rev_app_distr. cbn. destruct (N.eqb x y) eqn:E.
  - apply N.eqb_eq in E. subst y. intro H. injection H as ->. left. apply in_app_iff. right. left. reflexivity.
  - intro H. apply IH in H as [H|H]; auto. left. apply in_app_iff. auto.
Qed.

(* under Once: a name whose final binding is an import has no other binding *)
Lemma once_unique : forall BS I0 x l i b, Once BS (others I0) -> lookup_b x (rev BS ++ others I0) = Some (BImp l i) ->
  In (x, b) BS -> b = BImp l i.
Proof.
  intros BS I0 x l i b HO Hf Hin.
  apply lookup_rev_In in Hf as [Hf|Hf].
  - destruct (HO x l i Hf) as [Hc _].
    assert (Hd : {b = BImp l i} + {b <> BImp l i}) by (repeat decide equality).
    destruct Hd as [->|Hn]. reflexivity.
    pose proof (count_two BS x _ _ Hin Hf Hn) as H2. lia.
  - apply lookup_b_others_other in Hf. discriminate.
Qed.
Lemma final_import_in : forall BS I0 x l i, lookup_b x (rev BS ++ others I0) = Some (BImp l i) -> In (x, BImp l i) BS.
Proof.
  intros BS I0 x l i Hf. apply lookup_rev_In in Hf as [Hf|Hf]. exact Hf. apply lookup_b_others_other in Hf. discriminate.
Qed.

(* ---------- the environment on the tracking side: function frames bind nothing through an import ---------- *)
Definition AllOther (f : frame) : Prop :=
  (forall x b, lookup_b x (fdyn f) = Some b -> b = BOther) /\ (forall x b, lookup_b x (ffinal f) = Some b -> b = BOther).
Fixpoint EnvU (e : env) (Mb : frame) : Prop :=
  match e with
  | [] => False
  | f :: r => match r with [] => f = Mb | _ :: _ => AllOther f /\ EnvU r Mb end
  end.
Definition finM (M : frame) : frame := mkFrame (fk M) (flocals M) (ffinal M) (ffinal M).

Lemma EnvU_finalize : forall e Mb, EnvU e Mb -> EnvU (finalize e) (finM Mb).
Proof.
  induction e as [|f e IH]; intros Mb H. contradiction.
  destruct e as [|f' e'].
  - cbn in H |- *. subst. reflexivity.
  - destruct H as [[A1 A2] H]. specialize (IH Mb H).
    change (finalize (f :: f' :: e')) with (mkFrame (fk f) (flocals f) (ffinal f) (ffinal f) :: finalize (f' :: e')).
    cbn [finalize map] in IH |- *. cbn [EnvU]. split. split; exact A2. exact IH.
Qed.

Lemma resolve_imp : forall L e eaccs Mb x li ii, EnvI L e eaccs -> EnvU e Mb ->
  resolve_outer x e = Bound (BImp li ii) ->
  lookup_b x (fdyn Mb) = Some (BImp li ii) /\ forall l, In l (removelast L) -> ~ In x (l_P l ++ l_B l).
Proof.
  induction L as [|l L IH]; intros e eaccs Mb x li ii H HU Hr. destruct e; destruct eaccs; contradiction.
  destruct L as [|l' L'].
  - destruct e as [|f [|? ?]]; try contradiction. destruct eaccs as [|acc [|? ?]]; try contradiction.
    cbn in HU. subst f. cbn in Hr. split. destruct (lookup_b x (fdyn Mb)); congruence. intros l0 [].
  - destruct e as [|f [|f' e']]; try contradiction; destruct eaccs as [|acc [|acc' accs']]; try contradiction.
    destruct H as (Hk & Hs & Hd & Hi & Hrest). destruct HU as [[A1 A2] HU].
    rewrite resolve_outer_cons, Hk in Hr.
    destruct (mem x (flocals f)) eqn:Em.
    + destruct (lookup_b x (fdyn f)) eqn:E; try discriminate. apply A1 in E. subst. discriminate.
    + destruct (IH (f' :: e') (acc' :: accs') Mb x li ii Hrest HU Hr) as [R1 R2]. split. exact R1.
      intros l0 Hl0. change (removelast (l :: l' :: L')) with (l :: removelast (l' :: L')) in Hl0.
      destruct Hl0 as [<-|Hl0]. intro Hin. apply (proj1 Hs) in Hin. congruence. apply R2. exact Hl0.
Qed.

(* ---------- the tracking-side invariant ---------- *)
Definition Used (s : st) (l : nat) (i : import) : Prop :=
  exists c, c < length (checkers s) /\ c_line (checker_at s c) = l /\ c_imp (checker_at s c) = i /\
            c_used (checker_at s c) = true.
Definition Pend (T : nat) (exp : expmap) (s : st) (x : name) : Prop :=
  exists a stk ln, In (x :: a, stk, ln) (deferred s) /\
    exists pre post, stk = pre ++ T :: post /\ forall j, In j post -> ~ In x (exp j).

Record UI (T : nat) (BS : list (name * bsrc)) (I0 : list name) (exp : expmap) (s : st)
          (Mdyn : list (name * bsrc)) (tr : list rd) : Prop := mkUI {
  u_plain : forall i k v, i <> T -> In (k, v) (scope_dict s i) -> v = Plain;
  u_top : forall k v, In (k, v) (scope_dict s T) ->
          (exists x, k = [x]) /\ (v = Plain \/ exists c, v = Chk c /\ c < length (checkers s));
  u_mod1 : forall x c, dict_get (scope_dict s T) [x] = Some (Chk c) ->
           lookup_b x Mdyn = Some (BImp (c_line (checker_at s c)) (c_imp (checker_at s c)));
  u_mod2 : forall x l i, lookup_b x Mdyn = Some (BImp l i) ->
           exists c, dict_get (scope_dict s T) [x] = Some (Chk c) /\ c_line (checker_at s c) = l /\ c_imp (checker_at s c) = i;
  u_mod0 : forall x, dict_get (scope_dict s T) [x] = Some Plain -> lookup_b x Mdyn = Some BOther;
  u_stab : forall x l i, lookup_b x (rev BS ++ others I0) = Some (BImp l i) ->
           lookup_b x Mdyn = None \/ lookup_b x Mdyn = Some (BImp l i);
  u_dynBS : forall x l i, lookup_b x Mdyn = Some (BImp l i) -> In (x, BImp l i) BS;
  u_unused : unused s = [];
  u_reads : forall ln x l i, In (ln, x, Bound (BImp l i)) tr ->
            Used s l i \/ (lookup_b x (rev BS ++ others I0) = Some (BImp l i) /\ Pend T exp s x) }.

Lemma dict_get_In' : forall d k e, dict_get d k = Some e -> In (k, e) d.
Proof.
  induction d as [|[k0 e0] d IH]; intros k e H; cbn in H. discriminate.
  destruct (dotted_eqb k k0) eqn:E. apply dotted_eqb_eq in E. subst. injection H as ->. left. reflexivity.
  right. apply IH. exact H.
Qed.

Lemma checker_at_with : forall s cs c, checker_at (with_checkers s cs) c = nth c cs ckd.
Proof. reflexivity. Qed.

Lemma Used_marks : forall s s' l i, Marks s s' -> Used s l i -> Used s' l i.
Proof.
  intros s s' l i (cs' & -> & [ML M1 M2 M3]) (c & Hc & H1 & H2 & H3). exists c.
  unfold checker_at in *. cbn [checkers with_checkers]. fold ckd in *. rewrite ML, M1, M2. repeat split; auto.
Qed.

(* states with the same scopes, checkers and unused list; the deferred list may have grown *)
Lemma UI_same : forall T BS I0 exp s s' Mdyn tr,
  scopes s' = scopes s -> checkers s' = checkers s -> unused s' = unused s ->
  (forall d, In d (deferred s) -> In d (deferred s')) ->
  UI T BS I0 exp s Mdyn tr -> UI T BS I0 exp s' Mdyn tr.
Proof.
  intros T BS I0 exp s s' Mdyn tr Es Ec Eu Hd [P1 P2 P3 P4 P40 P5 P6 P7 P8].
  assert (Esd : forall i, scope_dict s' i = scope_dict s i) by (intro i; unfold scope_dict; rewrite Es; reflexivity).
  assert (Eck : forall c, checker_at s' c = checker_at s c) by (intro c; unfold checker_at; rewrite Ec; reflexivity).
  constructor; auto.
  - intros i k v. rewrite Esd. apply P1.
  - intros k v. rewrite Esd, Ec. apply P2.
  - intros x c. rewrite Esd, Eck. apply P3.
  - intros x l i H. destruct (P4 x l i H) as (c & A & B & C). exists c. rewrite Esd, Eck. auto.
  - intros x. rewrite Esd. apply P40.
  - congruence.
  - intros ln x l i H. destruct (P8 ln x l i H) as [(c & A & B & C & D)|[F (a & stk & ln' & Hin & Hp)]].
    + left. exists c. rewrite Ec, Eck. auto.
    + right. split. exact F. exists a, stk, ln'. split. apply Hd. exact Hin. exact Hp.
Qed.

Lemma UI_marks : forall T BS I0 exp s s' Mdyn tr, Marks s s' -> UI T BS I0 exp s Mdyn tr -> UI T BS I0 exp s' Mdyn tr.
Proof.
  intros T BS I0 exp s s' Mdyn tr HM [P1 P2 P3 P4 P40 P5 P6 P7 P8]. pose proof HM as (cs' & -> & [ML M1 M2 M3]).
  constructor; auto.
  - intros k v H. destruct (P2 k v H) as [A [B|(c & B & C)]]. split; auto. split; auto. right. exists c.
    cbn [checkers with_checkers]. rewrite ML. auto.
  - intros x c H. specialize (P3 x c H). unfold checker_at in *. cbn [checkers with_checkers]. fold ckd in *. rewrite M1, M2. exact P3.
  - intros x l i H. destruct (P4 x l i H) as (c & A & B & C). exists c. unfold checker_at in *. cbn [checkers with_checkers].
    fold ckd in *. rewrite M1, M2. auto.
  - intros ln x l i H. destruct (P8 ln x l i H) as [U|[F Hp]]. left. eapply Used_marks; eauto. right. split. exact F. exact Hp.
Qed.

Lemma UI_perm : forall T BS I0 exp s Mdyn tr tr', (forall r, In r tr' -> In r tr) ->
  UI T BS I0 exp s Mdyn tr -> UI T BS I0 exp s Mdyn tr'.
Proof. intros T BS I0 exp s Mdyn tr tr' H [P1 P2 P3 P4 P40 P5 P6 P7 P8]. constructor; auto. intros ln x l i Hin. apply (P8 ln). apply H. exact Hin. Qed.

Lemma Pend_ext : forall T exp exp' s x n, ext n exp exp' ->
  (forall d stk ln, In (d, stk, ln) (deferred s) -> forall i, In i stk -> i < n) -> Pend T exp s x -> Pend T exp' s x.
Proof.
  intros T exp exp' s x n He Hd (a & stk & ln & Hin & pre & post & E & Hp).
  exists a, stk, ln. split. exact Hin. exists pre, post. split. exact E. intros j Hj.
  rewrite He. apply Hp. exact Hj. apply (Hd _ _ _ Hin). subst stk. apply in_app_iff. right. right. exact Hj.
Qed.

Lemma UI_ext : forall T BS I0 exp exp' s Mdyn tr n, ext n exp exp' ->
  (forall d stk ln, In (d, stk, ln) (deferred s) -> forall i, In i stk -> i < n) ->
  UI T BS I0 exp s Mdyn tr -> UI T BS I0 exp' s Mdyn tr.
Proof.
  intros T BS I0 exp exp' s Mdyn tr n He Hd [P1 P2 P3 P4 P40 P5 P6 P7 P8]. constructor; auto.
  intros ln x l i H. destruct (P8 ln x l i H) as [U|[F Hp]]. auto. right. split. exact F. eapply Pend_ext; eauto.
Qed.

(* ---------- the tracking-on state seen through the erasure ---------- *)
Lemma has_er : forall s i x, has (er s) i x = dict_has (scope_dict s i) [x].
Proof. intros. unfold has. rewrite scope_dict_er, dict_has_erd. reflexivity. Qed.
Lemma fresh_er : forall s, fresh (er s) -> fresh s.
Proof.
  intros s H j v Hin. apply (H j (fst v, erd (snd v))). cbn [scopes er]. unfold ers. apply in_map_iff.
  exists (j, v). split. reflexivity. exact Hin.
Qed.
Lemma scope_dict_new_gen : forall s k c j, fresh s ->
  scope_dict (snd (new_scope s k c)) j = if Nat.eqb j (next_id s) then c else scope_dict s j.
Proof.
  intros s k c j Hf. pose proof (new_scope_spec s k c Hf) as H.
  destruct (new_scope s k c) as [i s'] eqn:E. cbn [snd]. destruct H as (-> & _ & _ & Hg & _).
  unfold scope_dict. rewrite Hg. destruct (Nat.eqb j (next_id s)); reflexivity.
Qed.
Lemma rootclosed_er : forall s i, rootclosed (scope_dict (er s) i) -> rootclosed (scope_dict s i).
Proof.
  intros s i H r q Hq. specialize (H r q). rewrite scope_dict_er, !dict_get_erd in H.
  destruct (dict_get (scope_dict s i) (r :: q)); [|congruence].
  destruct (dict_get (scope_dict s i) [r]); [discriminate|]. exfalso. apply H; congruence.
Qed.
Lemma dict_get_none_er : forall s i x, has (er s) i x = false -> dict_get (scope_dict s i) [x] = None.
Proof. intros s i x H. rewrite has_er in H. unfold dict_has in H. destruct (dict_get (scope_dict s i) [x]); congruence. Qed.
Lemma dict_get_some_er : forall s i x, has (er s) i x = true -> exists e, dict_get (scope_dict s i) [x] = Some e.
Proof. intros s i x H. rewrite has_er in H. unfold dict_has in H. destruct (dict_get (scope_dict s i) [x]); eauto. discriminate. Qed.

Lemma bound_er : forall s stk x, bound (er s) stk x = bound s stk x.
Proof.
  intros. unfold bound. induction stk as [|i stk IH]; cbn. reflexivity. rewrite scope_dict_er, dict_has_erd, IH. reflexivity.
Qed.
Lemma stack_of_snoc : forall Lf lm, stack_of (Lf ++ [lm]) = (l_as lm ++ [l_b lm]) ++ stack_of Lf.
Proof. intros. unfold stack_of. rewrite rev_app_distr. cbn [rev app flat_map]. reflexivity. Qed.
Lemma in_stack_inv : forall L j, In j (stack_of L) -> exists k, In k L /\ (In j (l_as k) \/ j = l_b k).
Proof.
  intros L j H. unfold stack_of in H. apply in_flat_map in H as (k & Hk & Hj). exists k. split. apply in_rev. exact Hk.
  unfold ids_of in Hj. apply in_app_iff in Hj as [Hj|[Hj|[]]]; auto.
Qed.

Lemma UI_newscope : forall T BS I0 exp s Mdyn tr k d, fresh s -> next_id s <> T ->
  (forall key v, In (key, v) d -> v = Plain) ->
  UI T BS I0 exp s Mdyn tr -> UI T BS I0 exp (snd (new_scope s k d)) Mdyn tr.
Proof.
  intros T BS I0 exp s Mdyn tr k d Hf HT Hd [P1 P2 P3 P4 P40 P5 P6 P7 P8].
  pose proof (scope_dict_new_gen s k d) as Hsd.
  assert (EsT : scope_dict (snd (new_scope s k d)) T = scope_dict s T).
  { rewrite Hsd by exact Hf. destruct (Nat.eqb T (next_id s)) eqn:E; auto. apply Nat.eqb_eq in E. congruence. }
  assert (Eck : forall c, checker_at (snd (new_scope s k d)) c = checker_at s c) by reflexivity.
  assert (Ec : checkers (snd (new_scope s k d)) = checkers s) by reflexivity.
  constructor; auto.
  - intros i key v Hi. rewrite Hsd by exact Hf. destruct (Nat.eqb i (next_id s)). apply Hd. apply P1. exact Hi.
  - intros key v. rewrite EsT, Ec. apply P2.
  - intros x c. rewrite EsT. apply P3.
  - intros x l i H. rewrite EsT. apply P4. exact H.
  - intros x. rewrite EsT. apply P40.
Qed.

Lemma UI_add_read : forall T BS I0 exp s Mdyn tr ln x r,
  UI T BS I0 exp s Mdyn tr ->
  (forall li ii, r = Bound (BImp li ii) ->
     Used s li ii \/ (lookup_b x (rev BS ++ others I0) = Some (BImp li ii) /\ Pend T exp s x)) ->
  UI T BS I0 exp s Mdyn (tr ++ [(ln, x, r)]).
Proof.
  intros T BS I0 exp s Mdyn tr ln x r [P1 P2 P3 P4 P40 P5 P6 P7 P8] H. constructor; auto.
  intros ln' x' l i Hin. apply in_app_iff in Hin as [Hin|[Hin|[]]]. eauto. injection Hin as <- <- ->. apply H. reflexivity.
Qed.

Lemma Used_mark : forall s c, c < length (checkers s) -> Used (mark_used s c) (c_line (checker_at s c)) (c_imp (checker_at s c)).
Proof.
  intros s c Hc. exists c. unfold mark_used, checker_at. cbn [checkers with_checkers]. rewrite mark_length.
  split. exact Hc. fold ckd. rewrite mark_nth_same by exact Hc. cbn. auto.
Qed.

(* ---------- a load at module level ---------- *)
Lemma imm_u : forall T BS I0 exp lm acc ex s e tr x a Mdyn Mb,
  Inv2 exp lm [] acc [] ex (er s) e tr -> T = l_b lm -> UI T BS I0 exp s Mdyn tr -> EnvU e Mb -> fdyn Mb = Mdyn ->
  UI T BS I0 exp (load s (stack_of [lm]) (x :: a)) Mdyn (tr ++ [(lineno s, x, resolve x e)]).
Proof.
  intros T BS I0 exp lm acc ex s e tr x a Mdyn Mb HI HT HU HEU Hdyn. subst T. set (T := l_b lm) in *.
  pose proof (Inv2_fd _ _ _ _ _ _ _ _ _ HI) as Hfd. cbn in Hfd. change (in_fd (er s)) with (in_fd s) in Hfd.
  unfold load. rewrite Hfd. unfold check_load.
  pose proof (needs_marks s (stack_of [lm]) (x :: a)) as HM.
  assert (Hold : forall s1 (b : bool), Marks s s1 ->
            UI T BS I0 exp (if b then add_missing s1 (stack_of [lm]) (lineno s) (x :: a) else s1) Mdyn tr).
  { intros s1 b M1. destruct b. 2: eapply UI_marks; eauto.
    destruct (add_missing_spec s1 (stack_of [lm]) (lineno s) (x :: a)) as [E _]. rewrite E.
    apply (UI_same T BS I0 exp s1); try reflexivity. auto. eapply UI_marks; eauto. }
  pose proof (i_env _ _ _ _ _ _ _ _ _ HI) as HE. destruct e as [|f [|? ?]]; try contradiction. cbn in HEU. subst f.
  rewrite (resolve_module x Mb). rewrite Hdyn.
  destruct (lookup_b x Mdyn) as [[li ii|]|] eqn:El.
  - (* bound to an import: its checker is in the top scope and gets marked *)
    destruct (u_mod2 _ _ _ _ _ _ _ HU x li ii El) as (c & Hc & H1 & H2).
    rewrite stack_of_one. rewrite (needs_found s x a (l_as lm) (l_b lm) [] c).
    + cbn [andb]. apply UI_add_read. eapply UI_marks; [apply Marks_mark|exact HU].
      intros li' ii' E. injection E as <- <-. left. rewrite <- H1, <- H2. apply Used_mark.
      apply dict_get_In' in Hc. destruct (u_top _ _ _ _ _ _ _ HU _ _ Hc) as [_ [D|(c' & D & Hlt)]].
      discriminate. injection D as <-. exact Hlt.
    + intros j [].
    + intros k v Hin. apply (u_top _ _ _ _ _ _ _ HU _ _ Hin).
    + exact Hc.
  - destruct (needs s (stack_of [lm]) (x :: a)) as [b s1]. cbn [snd] in HM.
    apply UI_add_read. apply Hold. exact HM. intros li ii E. discriminate.
  - destruct (needs s (stack_of [lm]) (x :: a)) as [b s1]. cbn [snd] in HM.
    apply UI_add_read. apply Hold. exact HM. intros li ii E. discriminate.
Qed.

(* ---------- a load inside a function or lambda body ---------- *)
Definition Own1 (Lf : list lvl) (lm : lvl) (FB : list (name * bsrc)) : Prop :=
  forall x, In x (l_own (last Lf lm)) -> forall li ii, lookup_b x FB <> Some (BImp li ii).

Lemma owns_fn : forall Lf lm x, owns_ok (Lf ++ [lm]) -> (forall k, In k Lf -> ~ In x (l_B k)) ->
  ~ In x (l_own (last Lf lm)) -> forall k, In k Lf -> ~ In x (l_own k).
Proof.
  induction Lf as [|k Lf IH]; intros lm x Ho HB Hl k0 Hk0. contradiction.
  destruct Lf as [|k' r].
  - destruct Hk0 as [<-|[]]. exact Hl.
  - change ((k :: k' :: r) ++ [lm]) with (k :: k' :: (r ++ [lm])) in Ho. destruct Ho as [Hi Ho].
    destruct Hk0 as [<-|Hk0].
    + intro Hx. apply (HB k' (or_intror (or_introl eq_refl))). apply Hi. exact Hx.
    + apply (IH lm x); auto. intros k1 H1. apply HB. right. exact H1.
Qed.

Lemma fn_noexp : forall exp Lf lm x, CtxI exp (Lf ++ [lm]) ->
  (forall k, In k Lf -> ~ In x (l_P k ++ l_B k)) -> (forall k, In k Lf -> ~ In x (l_own k)) ->
  forall i, In i (stack_of Lf) -> ~ In x (exp i).
Proof.
  intros exp Lf lm x HC HPB Hown i Hi Hx. apply in_stack_inv in Hi as (k & Hk & [Hi| ->]).
  - assert (HkL : In k (Lf ++ [lm])) by (apply in_app_iff; auto).
    apply (HPB k Hk). apply in_app_iff. left. apply (cx_as _ _ HC k HkL). unfold ebound. apply existsb_exists.
    exists i. split. exact Hi. apply mem_In. exact Hx.
  - assert (HkL : In k (Lf ++ [lm])) by (apply in_app_iff; auto).
    apply (cx_b _ _ HC k HkL) in Hx. apply in_app_iff in Hx as [Hx|Hx]. apply (Hown k Hk Hx).
    apply (HPB k Hk). apply in_app_iff. auto.
Qed.

Lemma removelast_In' : forall A (l : list A) x, In x (removelast l) -> In x l.
Proof. exact removelast_In. Qed.

Lemma defer_u : forall T BS I0 exp l l' L'' accs acc ex s e tr x a Mdyn Mb Lf lm exp',
  StI exp (l :: l' :: L'') (acc :: accs) ex (er s) -> ExOK (l :: l' :: L'') ex -> CtxI exp (l :: l' :: L'') ->
  EnvI (l :: l' :: L'') e (acc :: map l_B (l' :: L'')) ->
  (forall i, In i ex -> i < next_id s) ->
  l :: l' :: L'' = Lf ++ [lm] -> T = l_b lm ->
  UI T BS I0 exp s Mdyn tr -> EnvU e Mb -> fdyn Mb = rev BS ++ others I0 ->
  Once BS (others I0) -> Own1 Lf lm (rev BS ++ others I0) -> (forall y, In y (l_P lm) -> In y I0) ->
  ext (next_id s) exp exp' ->
  StI exp' (l :: l' :: L'') (acc :: accs) ex (er (defer_load s (stack_of (l :: l' :: L'')) (x :: a))) ->
  UI T BS I0 exp' (defer_load s (stack_of (l :: l' :: L'')) (x :: a)) Mdyn (tr ++ [(lineno s, x, resolve x e)]).
Proof.
  intros T BS I0 exp l l' L'' accs acc ex s e tr x a Mdyn Mb Lf lm exp' HS HX HC HE Hexlt HL HT HU HEU Hdyn HO HOwn HP Hext HS'.
  set (L := l :: l' :: L'') in *. set (stk := stack_of L) in *. set (FB := rev BS ++ others I0) in *.
  pose proof (st_sinv _ _ _ _ _ HS) as HSe.
  assert (Hdef : forall d stk0 ln, In (d, stk0, ln) (deferred s) -> forall i, In i stk0 -> i < next_id s).
  { intros d stk0 ln Hin i Hi. apply (st_def _ _ _ _ _ HS _ _ _ Hin i Hi). }
  assert (HLf : Lf <> []). { intro E. subst Lf. cbn in HL. unfold L in HL. discriminate. }
  assert (Hl_in : In l Lf). { destruct Lf as [|k r]. congruence. unfold L in HL. injection HL as <- _. left. reflexivity. }
  assert (Hstk : stk = (l_as lm ++ [T]) ++ stack_of Lf). { unfold stk. rewrite HL, stack_of_snoc, HT. reflexivity. }
  assert (HTlt : T < next_id s).
  { apply (st_ids _ _ _ _ _ HS). fold L stk. rewrite Hstk. apply in_app_iff. left. apply in_app_iff. right. left. reflexivity. }
  assert (Hltop : top stk = l_b l) by (unfold stk, L; apply stack_top).
  assert (HlT : l_b l <> T).
  { rewrite HT. intro E. pose proof (st_nodup _ _ _ _ _ HS) as Hnd. fold L in Hnd.
    assert (Hlm : In lm (l' :: L'')).
    { unfold L in HL. destruct Lf as [|k Lf']; cbn in HL. discriminate. injection HL as _ HL. rewrite HL.
      apply in_app_iff. right. left. reflexivity. }
    apply (b_distinct l (l' :: L'') lm Hnd Hlm). symmetry. exact E. }
  (* the first needs-call *)
  pose proof (needs_marks s stk (x :: a)) as HM.
  destruct (needs_er s stk (x :: a)) as (F1 & _ & _). rewrite (needs_S (er s) stk x a HSe) in F1. cbn [fst] in F1.
  rewrite bound_er in F1.
  (* what PySem's verdict says when the read is bound to an import *)
  assert (Himp : forall li ii, resolve x e = Bound (BImp li ii) ->
            lookup_b x FB = Some (BImp li ii) /\ (forall i, In i (stack_of Lf) -> ~ In x (exp i)) /\ ~ In x (l_P lm)).
  { intros li ii Hr. rewrite (resolve_EnvI _ _ _ x HE) in Hr.
    destruct (resolve_imp L e _ Mb x li ii HE HEU Hr) as [R1 R2]. rewrite Hdyn in R1. fold FB in R1.
    assert (R2' : forall k, In k Lf -> ~ In x (l_P k ++ l_B k)).
    { intros k Hk. apply R2. rewrite HL. rewrite removelast_app by discriminate. cbn. rewrite app_nil_r. exact Hk. }
    split. exact R1. split.
    - apply (fn_noexp exp Lf lm x). rewrite <- HL. exact HC. exact R2'.
      apply (owns_fn Lf lm x). rewrite <- HL. apply (cx_own _ _ HC).
      intros k Hk Hx. apply (R2' k Hk). apply in_app_iff. auto.
      intro Hx. apply (HOwn x Hx li ii). exact R1.
    - intro Hx. apply HP in Hx. apply final_import_in in R1. destruct (HO x li ii R1) as [_ Hn].
      assert (lookup_b x (others I0) <> None) by (apply lookup_b_others; exact Hx). congruence. }
  unfold defer_load in *. fold stk in HS' |- *.
  destruct (needs s stk (x :: a)) as [b s1] eqn:En. cbn [fst snd] in *. subst b.
  destruct (bound s stk x) eqn:Eb; cbn [negb] in *.
  - (* found now *)
    apply UI_add_read.
    + eapply UI_ext; [exact Hext| |eapply UI_marks; [exact HM|exact HU]].
      destruct HM as (cs' & -> & _). exact Hdef.
    + intros li ii Hr. left. destruct (Himp li ii Hr) as (R1 & R2 & R3).
      (* not in a function scope, not in the initial namespaces: in the module's top scope, as a checker *)
      assert (Hfn : forall j, In j (stack_of Lf) -> has (er s) j x = false).
      { intros j Hj. destruct (has (er s) j x) eqn:E; auto. exfalso. apply (R2 j Hj). apply (st_sub _ _ _ _ _ HS). exact E. }
      assert (HasT : has (er s) T x = true).
      { rewrite <- bound_er in Eb. rewrite Hstk, !bound_app, bound_single in Eb.
        apply orb_true_iff in Eb as [Eb|Eb].
        - apply orb_true_iff in Eb as [Eb|Eb]; auto. exfalso. apply R3.
          assert (Hlm : In lm L) by (rewrite HL; apply in_app_iff; right; left; reflexivity).
          apply (cx_as _ _ HC lm Hlm). rewrite <- Eb. symmetry. apply bound_closed.
          intros i Hi. eapply as_closed; eauto.
        - exfalso. unfold bound in Eb. apply existsb_exists in Eb as (j & Hj & Hh). pose proof (Hfn j Hj) as Hf0. unfold has in Hf0. congruence. }
      destruct (dict_get_some_er _ _ _ HasT) as (e0 & He0).
      assert (Hchk : exists c, e0 = Chk c /\ c < length (checkers s)).
      { destruct (u_top _ _ _ _ _ _ _ HU _ _ (dict_get_In' _ _ _ He0)) as [_ [D|(c & D & Hlt)]]; eauto.
        subst e0. apply (u_mod0 _ _ _ _ _ _ _ HU) in He0. destruct (u_stab _ _ _ _ _ _ _ HU x li ii R1); congruence. }
      destruct Hchk as (c & -> & Hclt).
      pose proof (u_mod1 _ _ _ _ _ _ _ HU x c He0) as Hm1.
      assert (Epair : c_line (checker_at s c) = li /\ c_imp (checker_at s c) = ii).
      { destruct (u_stab _ _ _ _ _ _ _ HU x li ii R1) as [Hn|Hs]; rewrite Hm1 in *. discriminate. injection Hs as -> ->. auto. }
      rewrite Hstk, <- app_assoc in En. cbn [app] in En.
      rewrite (needs_found s x a (l_as lm) T (stack_of Lf) c) in En.
      * injection En as <-. destruct Epair as [<- <-]. apply Used_mark. exact Hclt.
      * intros j Hj. split. apply rootclosed_er. apply (sv_root _ HSe). apply dict_get_none_er. apply Hfn. exact Hj.
      * intros k v Hin. apply (u_top _ _ _ _ _ _ _ HU _ _ Hin).
      * exact He0.
  - (* not bound yet: the entry is deferred with a copy of the top scope *)
    assert (Hf1 : fresh s1). { destruct HM as (cs' & -> & _). apply fresh_er. apply (sv_fresh _ HSe). }
    assert (Hn1 : next_id s1 = next_id s) by (destruct HM as (cs' & -> & _); reflexivity).
    assert (Hsd1 : forall i, scope_dict s1 i = scope_dict s i) by (destruct HM as (cs' & -> & _); reflexivity).
    assert (Hd1 : deferred s1 = deferred s) by (destruct HM as (cs' & -> & _); reflexivity).
    unfold clone_top in *. rewrite Hltop in *.
    destruct (get_scope (scopes s1) (l_b l)) as [ck d] eqn:Eg.
    assert (Ed : d = scope_dict s (l_b l)). { rewrite <- Hsd1. unfold scope_dict. rewrite Eg. reflexivity. }
    pose proof (scope_dict_new_gen s1 ck d) as Hsd2.
    destruct (new_scope_fields s1 d) as (_ & _ & _ & _ & _ & _ & _).
    assert (Enew : fst (new_scope s1 ck d) = next_id s1) by reflexivity.
    destruct (new_scope s1 ck d) as [j s2] eqn:E2. cbn [fst snd] in *. subst j.
    assert (E2' : s2 = snd (new_scope s1 ck d)) by (rewrite E2; reflexivity).
    assert (Hd2 : deferred s2 = deferred s) by (rewrite E2'; exact Hd1).
    set (j := next_id s1) in *. set (stk' := removelast stk ++ [j]) in *.
    assert (Hplain_d : forall key v, In (key, v) d -> v = Plain).
    { intros key v Hin. rewrite Ed in Hin. apply (u_plain _ _ _ _ _ _ _ HU (l_b l) key v HlT Hin). }
    assert (HjT : j <> T) by (unfold j; lia).
    assert (U2 : UI T BS I0 exp' s2 Mdyn tr).
    { rewrite E2'. apply UI_newscope; auto. eapply UI_ext; [exact Hext| |eapply UI_marks; [exact HM|exact HU]].
      rewrite Hd1. exact Hdef. }
    apply UI_add_read.
    + apply (UI_same T BS I0 exp' s2); try reflexivity. cbn [deferred with_deferred]. intros d0 H0. apply in_app_iff. auto. exact U2.
    + intros li ii Hr. right. destruct (Himp li ii Hr) as (R1 & R2 & R3). split. exact R1.
      exists a, stk', (lineno s2). split. cbn [deferred with_deferred]. apply in_app_iff. right. left. reflexivity.
      exists (l_as lm), (removelast (stack_of Lf) ++ [j]). split.
      * unfold stk'. rewrite Hstk. rewrite removelast_app.
        rewrite <- !app_assoc. reflexivity.
        intro E. apply HLf. destruct Lf as [|k r]; auto. exfalso. rewrite (stack_of_cons k r) in E.
        apply app_eq_nil in E as [_ E]. apply app_eq_nil in E as [_ E]. discriminate.
      * intros i Hi. apply in_app_iff in Hi as [Hi|[<-|[]]].
        -- apply removelast_In in Hi. rewrite Hext. apply R2. exact Hi.
           assert (In i stk) by (rewrite Hstk; apply in_app_iff; auto). apply (st_ids _ _ _ _ _ HS). exact H.
        -- (* the copy: a closed scope that holds what the top scope held at the read *)
           intro Hx.
           assert (Hlt : j < next_id (er (with_deferred s2 (deferred s2 ++ [(x :: a, stk', lineno s2)])))).
           { cbn [next_id er with_deferred]. rewrite E2'. cbn. unfold j. lia. }
           assert (Hnb : ~ In j (map l_b L)).
           { intro Hb. apply in_map_iff in Hb as (k & Ek & Hk). assert (In (l_b k) stk) by (apply in_stack_b; exact Hk).
             apply (st_ids _ _ _ _ _ HS) in H. cbn [next_id er] in H. unfold j in Ek. lia. }
           assert (Hne : ~ In j ex). { intro He. apply Hexlt in He. unfold j in He. lia. }
           apply (st_eq _ _ _ _ _ HS' j Hlt Hnb Hne x) in Hx.
           rewrite has_er in Hx.
           change (scope_dict (with_deferred s2 (deferred s2 ++ [(x :: a, stk', lineno s2)])) j) with (scope_dict s2 j) in Hx.
           rewrite Hsd2 in Hx by exact Hf1. unfold j in Hx. rewrite Nat.eqb_refl in Hx. rewrite Ed in Hx. rewrite <- has_er in Hx.
           rewrite <- bound_er in Eb. unfold bound in Eb.
           assert (Hin : In (l_b l) stk). { rewrite <- Hltop. unfold stk, L. rewrite stack_of_cons. unfold top.
             rewrite app_assoc, last_last. apply in_app_iff. right. left. reflexivity. }
           assert (existsb (fun i => dict_has (scope_dict (er s) i) [x]) stk = true).
           { apply existsb_exists. exists (l_b l). split; auto. }
           congruence.
Qed.

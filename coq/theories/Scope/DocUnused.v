(* C02, what tidy-imports really runs: scan_for_import_issues(parse_docstrings=True) = Finder.finder_doc, against the
   reference trace WITH the doctest examples (PySem.pysem_doc).

   After the module has been scanned, every doctest example is scanned in a scope of its own on top of the module's
   stack, the {brace} identifiers are looked up, and only then the still-unused imports of the module scope are
   reported.  For examples that are load-only expression statements (Fragment.dx_docs) this file shows:
     - an example read that PySem resolves to an import marks that import's use-checker (doc_marks);
     - nothing else changes but marks;
   so unused_sound extends from (finder, pysem) to (finder_doc, pysem_doc) on stage 2 and stage 3, and with
   RemoveProofs.remove_preserves_trace_doc the removal step of tidy-imports preserves the trace including the
   doctests. *)
From Coq Require Import NArith List Bool Arith Lia.
From Verif Require Import Scope.PySyntax Scope.Finder Scope.PySem Scope.Fragment Scope.AuxProofs Scope.FinderProofs
                          Scope.UnusedProofs Scope.Stage2Base Scope.Stage2Inv Scope.Stage2Steps Scope.Stage2Proofs
                          Scope.Stage2Stmt Scope.Stage2Final Scope.Stage2Erase Scope.Stage2Unused.
Import ListNotations.

(* ---------- small facts about states ---------- *)
Lemma with_deferred_id : forall s, with_deferred s (deferred s) = s.
Proof. destruct s; reflexivity. Qed.

Lemma check_load_fields : forall s cur stk n ln,
  scopes (check_load s cur stk n ln) = scopes s /\ in_fd (check_load s cur stk n ln) = in_fd s /\
  deferred (check_load s cur stk n ln) = deferred s /\ next_id (check_load s cur stk n ln) = next_id s /\
  lineno (check_load s cur stk n ln) = lineno s /\ unused (check_load s cur stk n ln) = unused s /\
  MarkExt (checkers s) (checkers (check_load s cur stk n ln)).
Proof.
  intros. unfold check_load. pose proof (needs_marks s stk n) as HM. destruct (needs s stk n) as [b s1]. cbn [snd] in HM.
  destruct HM as (cs' & -> & M).
  destruct (b && negb (has_star (with_checkers s cs') stk)).
  - destruct (add_missing_spec (with_checkers s cs') cur ln n) as [E _]. rewrite E. cbn. auto 10.
  - cbn. auto 10.
Qed.

Lemma pending_none : forall s after, fresh s -> next_id s <= S after -> pending_dicts s after = [].
Proof.
  intros s after Hf Hn. unfold pending_dicts.
  assert (E : filter (fun x : nat * (skind * dict) => Nat.ltb after (fst x) && negb (is_clone (fst (snd x)))) (scopes s) = []).
  { assert (G : forall l, (forall j v, In (j, v) l -> j < next_id s) ->
                filter (fun x : nat * (skind * dict) => Nat.ltb after (fst x) && negb (is_clone (fst (snd x)))) l = []).
    { induction l as [|[j v] l IH]; intro H. reflexivity. cbn [filter fst].
      assert (Hj : j < next_id s) by (apply (H j v); left; reflexivity).
      assert (E : Nat.ltb after j = false) by (apply Nat.ltb_ge; lia). rewrite E. cbn [andb].
      apply IH. intros j' v' Hin. apply (H j' v'). right. exact Hin. }
    apply G. exact Hf. }
  rewrite E. reflexivity.
Qed.

Lemma rootclosed_nil : rootclosed [].
Proof. intros r q H. cbn in H. congruence. Qed.

(* ---------- the scan of the doctest examples ---------- *)
Section Doc.
Variables (sB : st) (T : nat) (pre : list nat).
Hypothesis HkT : forall k v, In (k, v) (scope_dict sB T) -> exists y, k = [y].
Hypothesis HcT : forall x c, dict_get (scope_dict sB T) [x] = Some (Chk c) -> c < length (checkers sB).

Record DI (s : st) : Prop := mkDI {
  d_sinv : SInv (er s);
  d_fd : in_fd s = false;
  d_def : deferred s = [];
  d_T : scope_dict s T = scope_dict sB T;
  d_mk : MarkExt (checkers sB) (checkers s);
  d_lt : T < next_id s }.

Lemma DI_load : forall s D n a, DI s -> scope_dict s D = [] ->
  let s' := load s (pre ++ [T; D]) (n :: a) in
  DI s' /\ scope_dict s' D = [] /\ next_id s' = next_id s /\ MarkExt (checkers s) (checkers s') /\
  (forall c, dict_get (scope_dict sB T) [n] = Some (Chk c) -> c_used (nth c (checkers s') ckd) = true).
Proof.
  intros s D n a HD HDe. cbv zeta. unfold load. rewrite (d_fd _ HD).
  destruct (check_load_fields s (pre ++ [T; D]) (pre ++ [T; D]) (n :: a) (lineno s)) as (Es & Efd & Ed & En & _ & _ & M).
  set (s' := check_load s (pre ++ [T; D]) (pre ++ [T; D]) (n :: a) (lineno s)) in *.
  assert (Esd : forall i, scope_dict s' i = scope_dict s i) by (intro i; unfold scope_dict; rewrite Es; reflexivity).
  split; [|split; [|split; [|split]]].
  - constructor.
    + unfold s'. rewrite er_check_load. rewrite check_load_S by exact (d_sinv _ HD).
      destruct (bound (er s) (pre ++ [T; D]) n). exact (d_sinv _ HD).
      destruct (add_missing_spec (er s) (pre ++ [T; D]) (lineno s) (n :: a)) as [E _]. rewrite E. apply SInv_with_missing. exact (d_sinv _ HD).
    + rewrite Efd. exact (d_fd _ HD).
    + rewrite Ed. exact (d_def _ HD).
    + rewrite Esd. exact (d_T _ HD).
    + eapply MarkExt_trans. exact (d_mk _ HD). exact M.
    + rewrite En. exact (d_lt _ HD).
  - rewrite Esd. exact HDe.
  - exact En.
  - exact M.
  - intros c Hc. assert (Hc' : dict_get (scope_dict s T) [n] = Some (Chk c)) by (rewrite (d_T _ HD); exact Hc).
    assert (Hlt : c < length (checkers s)) by (rewrite (me_len _ _ (d_mk _ HD)); eapply HcT; exact Hc).
    unfold s', check_load.
    change (pre ++ [T; D]) with (pre ++ T :: [D]).
    rewrite (needs_found s n a pre T [D] c).
    + cbn [andb]. unfold mark_used. cbn [checkers with_checkers]. rewrite mark_nth_same by exact Hlt. reflexivity.
    + intros j [<-|[]]. rewrite HDe. split. apply rootclosed_nil. reflexivity.
    + intros k v. rewrite (d_T _ HD). apply HkT.
    + exact Hc'.
Qed.

Lemma DI_loads : forall ds s D, Forall (fun d => d <> []) ds -> DI s -> scope_dict s D = [] ->
  let s' := fold_left (fun s d => load s (pre ++ [T; D]) d) ds s in
  DI s' /\ scope_dict s' D = [] /\ next_id s' = next_id s /\ MarkExt (checkers s) (checkers s') /\
  (forall d c, In d ds -> dict_get (scope_dict sB T) [hd 0%N d] = Some (Chk c) -> c_used (nth c (checkers s') ckd) = true).
Proof.
  induction ds as [|d ds IH]; intros s D HF HD HDe; cbn [fold_left].
  - split. exact HD. split. exact HDe. split. reflexivity. split. apply MarkExt_refl. intros d c [].
  - inversion HF as [|? ? Hd HF']; subst. destruct d as [|n a]. congruence.
    destruct (DI_load s D n a HD HDe) as (HD1 & HDe1 & En1 & M1 & U1).
    destruct (IH _ D HF' HD1 HDe1) as (HD2 & HDe2 & En2 & M2 & U2).
    split. exact HD2. split. exact HDe2. split. congruence. split. eapply MarkExt_trans; eauto.
    intros d c [<-|Hin] Hc.
    + cbn [hd] in Hc. apply (me_used _ _ M2). apply U1. exact Hc.
    + eapply U2; eauto.
Qed.

(* the stores of an assignment example go into the example's own scope D *)
Record DW (D : nat) (s : st) : Prop := mkDW {
  w_di : DI s; w_lt : D < next_id s; w_plain : forall k v, In (k, v) (scope_dict s D) -> v = Plain }.

Lemma top_TD : forall D, top (pre ++ [T; D]) = D.
Proof. intro D. replace (pre ++ [T; D]) with ((pre ++ [T]) ++ [D]) by (rewrite <- app_assoc; reflexivity). apply top_snoc. Qed.

Lemma DW_store : forall s D n, DW D s -> D <> T -> D <> delayed_id -> n <> n_star ->
  let s' := store true s (pre ++ [T; D]) [n] Plain in
  DW D s' /\ checkers s' = checkers s /\ next_id s' = next_id s.
Proof.
  intros s D n [HD Hlt Hpl] HDT HDd Hn. cbv zeta.
  rewrite store_true_noreport.
  2:{ rewrite top_TD. intros c Hc. apply dict_get_In' in Hc. apply Hpl in Hc. discriminate. }
  rewrite top_TD.
  destruct (set_in_scope_fields s D [n] Plain) as (_ & _ & Efd & Ed & Enx & _).
  destruct (set_in_scope_same_fields s D [n] Plain) as (Ec & _ & _).
  split; [|split; [exact Ec|exact Enx]].
  constructor.
  - constructor.
    + rewrite er_set_in_scope. apply SInv_store. exact (d_sinv _ HD). exact Hlt. exact HDd. left. split. reflexivity. exact Hn.
    + rewrite Efd. exact (d_fd _ HD).
    + rewrite Ed. exact (d_def _ HD).
    + rewrite scope_dict_set_in_scope. assert (E : Nat.eqb D T = false) by (apply Nat.eqb_neq; exact HDT). rewrite E. exact (d_T _ HD).
    + rewrite Ec. exact (d_mk _ HD).
    + rewrite Enx. exact (d_lt _ HD).
  - rewrite Enx. exact Hlt.
  - intros k v. rewrite scope_dict_set_in_scope, Nat.eqb_refl. intro Hin. eapply dict_set_In_plain; [|exact Hin]. exact Hpl.
Qed.

Lemma DW_target : forall t, s1_target t = true -> forall s D, DW D s -> D <> T -> D <> delayed_id ->
  let s' := vtarget true t (pre ++ [T; D]) s in
  DW D s' /\ checkers s' = checkers s /\ next_id s' = next_id s.
Proof.
  intro t. induction t using target_ind'; cbn [s1_target vtarget]; intros Hs s D HW HDT HDd; try discriminate.
  - apply DW_store; auto. apply not_star_neq. exact Hs.
  - revert s HW. induction H as [|x ts Hx Hts IH]; intros s HW. auto.
    apply andb_true_iff in Hs as [H1 H2].
    destruct (Hx H1 s D HW HDT HDd) as (W1 & C1 & N1). destruct (IH H2 _ W1) as (W2 & C2 & N2).
    split. exact W2. split; congruence.
Qed.

Lemma DW_targets : forall ts, forallb s1_target ts = true -> forall s D, DW D s -> D <> T -> D <> delayed_id ->
  let s' := fold_left (fun s t => vtarget true t (pre ++ [T; D]) s) ts s in
  DW D s' /\ checkers s' = checkers s /\ next_id s' = next_id s.
Proof.
  induction ts as [|t ts IH]; intros Hs s D HW HDT HDd; cbn [fold_left]. auto.
  cbn in Hs. apply andb_true_iff in Hs as [H1 H2].
  destruct (DW_target t H1 s D HW HDT HDd) as (W1 & C1 & N1). destruct (IH H2 _ D W1 HDT HDd) as (W2 & C2 & N2).
  split. exact W2. split; congruence.
Qed.

Definition xloads (x : stmt) : list dotted :=
  match x with SExpr _ e => loads e | SAssign _ _ v => loads v | _ => [] end.

Lemma DI_finish : forall s D, DI s -> next_id s <= S D -> finish_deferred (pre ++ [T; D]) s = s.
Proof.
  intros s D HD Hn. unfold finish_deferred. rewrite (d_def _ HD). cbn [fold_left].
  rewrite pending_none. cbn [fold_left]. rewrite <- (d_def _ HD). apply with_deferred_id.
  apply fresh_er. exact (sv_fresh _ (d_sinv _ HD)). rewrite top_TD. exact Hn.
Qed.

(* one example: an expression statement of loads, or an assignment of such an expression to names *)
Lemma DI_example : forall s x, DI s -> dx_stmt x = true ->
  let s' := scan_doctest true (pre ++ [T]) s x in
  DI s' /\ MarkExt (checkers s) (checkers s') /\
  (forall d c, In d (xloads x) -> dict_get (scope_dict sB T) [hd 0%N d] = Some (Chk c) -> c_used (nth c (checkers s') ckd) = true).
Proof.
  intros s x HD Hx. cbv zeta. unfold scan_doctest. rewrite push_t by exact (d_sinv _ HD).
  set (D := next_id s).
  assert (Hf : fresh s) by (apply fresh_er; exact (sv_fresh _ (d_sinv _ HD))).
  pose proof (new_scope_spec s KNormal [] Hf) as Hn.
  destruct (new_scope s KNormal []) as [i0 sa0] eqn:En. cbn [snd].
  destruct Hn as (_ & Hfa & Enx & Hg & _ & Eda & Efa & _ & Eca & _).
  assert (Hsda : forall j, scope_dict sa0 j = if Nat.eqb j D then [] else scope_dict s j).
  { intro j. unfold scope_dict. rewrite Hg. assert (i0 = D) by (unfold new_scope in En; injection En as <- _; reflexivity). subst i0.
    destruct (Nat.eqb j D); reflexivity. }
  assert (HDT : D <> T) by (pose proof (d_lt _ HD); unfold D; lia).
  assert (HDd : D <> delayed_id).
  { pose proof (sv_next _ (d_sinv _ HD)) as H2. change (next_id (er s)) with (next_id s) in H2. unfold D, delayed_id. lia. }
  assert (HDa : forall ln, DI (with_ln sa0 ln)).
  { intro ln. constructor.
    - rewrite er_with_ln. apply SInv_with_ln. destruct (er_new_scope s KNormal []) as [_ E2]. cbn [erd map] in E2.
      rewrite En in E2. cbn [snd] in E2. rewrite <- E2. apply SInv_new. exact (d_sinv _ HD). intros k v []. apply rootclosed_nil. reflexivity.
    - cbn. rewrite Efa. exact (d_fd _ HD).
    - cbn. rewrite Eda. exact (d_def _ HD).
    - change (scope_dict (with_ln sa0 ln) T) with (scope_dict sa0 T). rewrite Hsda.
      assert (E : Nat.eqb T D = false) by (apply Nat.eqb_neq; auto). rewrite E. exact (d_T _ HD).
    - cbn. rewrite Eca. exact (d_mk _ HD).
    - cbn. rewrite Enx. pose proof (d_lt _ HD). lia. }
  assert (HDe : forall ln, scope_dict (with_ln sa0 ln) D = []).
  { intro ln. change (scope_dict (with_ln sa0 ln) D) with (scope_dict sa0 D). rewrite Hsda, Nat.eqb_refl. reflexivity. }
  rewrite <- app_assoc. cbn [app].
  destruct x; try discriminate; cbn [dx_stmt] in Hx; unfold scan_node, vblock; cbn [fold_left vstmt xloads].
  - (* SExpr *)
    rewrite vexpr_s1 by exact Hx.
    destruct (DI_loads (loads e) (with_ln sa0 ln) D (loads_nonempty e) (HDa ln) (HDe ln)) as (HD1 & HDe1 & En1 & M1 & U1).
    rewrite DI_finish; [| exact HD1 | rewrite En1; cbn; rewrite Enx; unfold D; lia].
    split. exact HD1. split. cbn in M1. rewrite Eca in M1. exact M1. exact U1.
  - (* SAssign *)
    apply andb_true_iff in Hx as [Hv Ht].
    rewrite vexpr_s1 by exact Hv.
    destruct (DI_loads (loads value) (with_ln sa0 ln) D (loads_nonempty value) (HDa ln) (HDe ln)) as (HD1 & HDe1 & En1 & M1 & U1).
    set (sc := fold_left (fun s d => load s (pre ++ [T; D]) d) (loads value) (with_ln sa0 ln)) in *.
    assert (HW : DW D sc).
    { constructor. exact HD1. rewrite En1. cbn. rewrite Enx. unfold D. lia. rewrite HDe1. intros k v0 []. }
    destruct (DW_targets targets Ht sc D HW HDT HDd) as (W2 & C2 & N2).
    rewrite DI_finish; [| exact (w_di _ _ W2) | rewrite N2, En1; cbn; rewrite Enx; unfold D; lia].
    split. exact (w_di _ _ W2). split. rewrite C2. cbn in M1. rewrite Eca in M1. exact M1.
    intros d c Hd Hc. rewrite C2. eapply U1; eauto.
Qed.

Lemma DI_examples : forall exs s, DI s -> forallb dx_stmt exs = true ->
  let s' := fold_left (scan_doctest true (pre ++ [T])) exs s in
  DI s' /\ MarkExt (checkers s) (checkers s') /\
  (forall x d c, In x exs -> In d (xloads x) -> dict_get (scope_dict sB T) [hd 0%N d] = Some (Chk c) ->
                 c_used (nth c (checkers s') ckd) = true).
Proof.
  induction exs as [|x exs IH]; intros s HD Hx; cbn [fold_left].
  - split. exact HD. split. apply MarkExt_refl. intros ? ? ? [].
  - cbn in Hx. apply andb_true_iff in Hx as [H1 H2].
    destruct (DI_example s x HD H1) as (HD1 & M1 & U1).
    destruct (IH _ HD1 H2) as (HD2 & M2 & U2).
    split. exact HD2. split. eapply MarkExt_trans; eauto.
    intros x0 d c [<-|Hin] Hd Hc.
    + apply (me_used _ _ M2). eapply U1; eauto.
    + eapply U2; eauto.
Qed.

End Doc.

(* ---------- the PySem side: load-only examples in the final module frame ---------- *)
(* frames that differ from M by bindings made by doctest examples (never an import) *)
Definition QF (M M' : frame) : Prop :=
  forall x l i, lookup_b x (fdyn M') = Some (BImp l i) -> lookup_b x (fdyn M) = Some (BImp l i).
Lemma QF_bind : forall M M' n, QF M M' -> QF M (bind n BOther M').
Proof.
  intros M M' n H x l i. unfold bind. cbn [fdyn lookup_b]. destruct (N.eqb x n). discriminate. apply H.
Qed.

Lemma exec_target_Q : forall t, s1_target t = true -> forall ln outer M M', QF M M' ->
  exists M'', exec_target ln outer M' t = (M'', []) /\ QF M M''.
Proof.
  intro t. induction t using target_ind'; cbn [s1_target exec_target]; intros Hs ln outer M M' HQ; try discriminate.
  - eexists. split. reflexivity. apply QF_bind. exact HQ.
  - revert M' HQ. induction H as [|x ts Hx Hts IH]; intros M' HQ. eexists; split; [reflexivity|exact HQ].
    apply andb_true_iff in Hs as [H1 H2].
    destruct (Hx H1 ln outer M M' HQ) as (M1 & E1 & Q1). rewrite E1.
    destruct (IH H2 M1 Q1) as (M2 & E2 & Q2). rewrite E2. eexists. split. reflexivity. exact Q2.
Qed.

Lemma targets_Q : forall ts, forallb s1_target ts = true -> forall ln M M' r, QF M M' ->
  exists M'', fold_left (fun acc t => let '(e, r) := acc in
                                     let '(e', r') := exec_target_env ln e t in (e', r ++ r')) ts (([M'] : env), r) = (([M''] : env), r) /\ QF M M''.
Proof.
  induction ts as [|t ts IH]; intros Hs ln M M' r HQ; cbn [fold_left]. eexists; split; [reflexivity|exact HQ].
  cbn in Hs. apply andb_true_iff in Hs as [H1 H2].
  destruct (exec_target_Q t H1 ln [] M M' HQ) as (M1 & E1 & Q1).
  assert (E : exec_target_env ln [M'] t = ([M1], [])).
  { unfold exec_target_env. change (tl [M']) with (@nil frame). change (head [M']) with M'. rewrite E1. reflexivity. }
  rewrite E. rewrite app_nil_r. apply IH; assumption.
Qed.

Lemma dx_sem : forall exs M M', QF M M' -> forallb dx_stmt exs = true ->
  forall r, In r (snd (sem_block exs [M'])) ->
    exists x d ln res, In x exs /\ In d (xloads x) /\ r = (ln, hd 0%N d, res) /\
      forall l i, res = Bound (BImp l i) -> lookup_b (hd 0%N d) (fdyn M) = Some (BImp l i).
Proof.
  induction exs as [|x exs IH]; intros M M' HQ Hx r Hr. destruct Hr.
  cbn in Hx. apply andb_true_iff in Hx as [H1 H2].
  assert (Hres : forall ln e, s1_expr e = true -> forall r0, In r0 (sem_expr ln [M'] e) ->
            exists d res, In d (loads e) /\ r0 = (ln, hd 0%N d, res) /\
              forall l i, res = Bound (BImp l i) -> lookup_b (hd 0%N d) (fdyn M) = Some (BImp l i)).
  { intros ln e He r0 Hr0. rewrite sem_expr_s1 in Hr0 by exact He. apply in_map_iff in Hr0 as (d & <- & Hd).
    exists d, (resolve (hd 0%N d) [M']). split. exact Hd. split. reflexivity.
    intros l i E. cbn [resolve resolve_outer] in E. destruct (lookup_b (hd 0%N d) (fdyn M')) eqn:El; try discriminate.
    injection E as ->. apply HQ. exact El. }
  destruct x; try discriminate; cbn [dx_stmt] in H1; cbn [sem_block sem_stmt] in Hr.
  - (* SExpr *)
    destruct (sem_block exs [M']) as [e2 r2] eqn:E2. cbn [snd] in Hr. apply in_app_iff in Hr as [Hr|Hr].
    + destruct (Hres ln e H1 r Hr) as (d & res & A & B & C). exists (SExpr ln e), d, ln, res. cbn [xloads]. split. left; reflexivity. auto.
    + assert (Hr' : In r (snd (sem_block exs [M']))) by (rewrite E2; exact Hr).
      destruct (IH M M' HQ H2 r Hr') as (x & d & ln0 & res & A & B & C). exists x, d, ln0, res. split. right; exact A. auto.
  - (* SAssign *)
    apply andb_true_iff in H1 as [Hv Ht].
    destruct (targets_Q targets Ht ln M M' [] HQ) as (M1 & E1 & Q1). rewrite E1 in Hr.
    destruct (sem_block exs [M1]) as [e2 r2] eqn:E2. cbn [snd] in Hr. rewrite app_nil_r in Hr. apply in_app_iff in Hr as [Hr|Hr].
    + destruct (Hres ln value Hv r Hr) as (d & res & A & B & C). exists (SAssign ln targets value), d, ln, res. cbn [xloads]. split. left; reflexivity. auto.
    + assert (Hr' : In r (snd (sem_block exs [M1]))) by (rewrite E2; exact Hr).
      destruct (IH M M1 Q1 H2 r Hr') as (x & d & ln0 & res & A & B & C). exists x, d, ln0, res. split. right; exact A. auto.
Qed.

Lemma forallb_flat_map : forall A B (f : B -> bool) (g : A -> list B) l,
  forallb (fun a => forallb f (g a)) l = true -> forallb f (flat_map g l) = true.
Proof.
  induction l as [|a l IH]; intro H. reflexivity. cbn in H. apply andb_true_iff in H as [H1 H2].
  cbn [flat_map]. rewrite forallb_app, H1. apply IH. exact H2.
Qed.

Lemma er_fst : forall s, map fst (scopes (er s)) = map fst (scopes s).
Proof. intro s. cbn [scopes er]. unfold ers. rewrite map_map. reflexivity. Qed.

Lemma pending_dicts_In : forall s after d, NoDup (map fst (scopes s)) -> In d (pending_dicts s after) ->
  exists j, after < j /\ scope_dict s j = d.
Proof.
  intros s after d Hnd Hin. unfold pending_dicts in Hin. apply in_map_iff in Hin as ([j [k d']] & E & Hin). cbn in E. subst d'.
  apply filter_In in Hin as [Hin Hf]. cbn [fst snd] in Hf. apply andb_true_iff in Hf as [Hf _]. apply Nat.ltb_lt in Hf.
  exists j. split. exact Hf. unfold scope_dict. rewrite (get_scope_In _ _ _ Hnd Hin). reflexivity.
Qed.

Lemma SInv_er_fold : forall cur ds s, SInv (er s) ->
  SInv (er (fold_left (fun s d => let '(n, stk, ln) := d in check_load s cur stk n ln) ds s)).
Proof.
  intros cur ds. induction ds as [|[[n stk] ln] ds IH]; intros s H; cbn [fold_left]. exact H.
  apply IH. rewrite er_check_load. destruct n as [|x a].
  - (* an empty name does not occur, but the statement does not need it *)
    unfold check_load. pose proof (needs_marks (er s) stk []) as HM. destruct (needs (er s) stk []) as [b s1]. cbn [snd] in HM.
    destruct HM as (cs' & -> & M). destruct cs' as [|? ?]; [|pose proof (me_len _ _ M) as Hl; cbn in Hl; discriminate].
    assert (E : with_checkers (er s) [] = er s) by reflexivity. rewrite E.
    destruct (b && negb (has_star (er s) stk)); auto.
    destruct (add_missing_spec (er s) cur ln []) as [E2 _]. rewrite E2. apply SInv_with_missing. exact H.
  - rewrite check_load_S by exact H. destruct (bound (er s) stk x). exact H.
    destruct (add_missing_spec (er s) cur ln (x :: a)) as [E2 _]. rewrite E2. apply SInv_with_missing. exact H.
Qed.

Lemma fold_fields : forall cur ds s,
  let s' := fold_left (fun s d => let '(n, stk, ln) := d in check_load s cur stk n ln) ds s in
  in_fd s' = in_fd s /\ next_id s' = next_id s.
Proof.
  intros cur ds. induction ds as [|[[n stk] ln] ds IH]; intro s; cbn [fold_left]. auto.
  destruct (IH (check_load s cur stk n ln)) as [A B]. destruct (check_load_fields s cur stk n ln) as (_ & F & _ & N & _).
  cbv zeta. split; congruence.
Qed.

Lemma braces_marks : forall stk ids s, Marks s (fold_left (fun s n => snd (needs s stk [n])) ids s).
Proof.
  intros stk ids. induction ids as [|n ids IH]; intro s; cbn [fold_left]. apply Marks_refl.
  eapply Marks_trans. apply needs_marks. apply IH.
Qed.

(* what the module-level simulation gives for the program (Stage2Unused.top_block / top_block_s3) *)
Definition TopOK (bi : list name) (ns : list (list name)) (p : program) : Prop :=
  forall lm, Once (bsrcs_block false p) (others (concat ns ++ bi)) ->
    (forall y, In y (l_P lm) -> In y (concat ns ++ bi)) -> l_B lm = map fst (bsrcs_block false p) ->
    forall exp0 s0 M0,
    Inv3 (bsrcs_block false p) (concat ns ++ bi) lm exp0 lm [] [] [] [] s0 [M0] [] [] (others (concat ns ++ bi)) M0 ->
    pairs s0 = [] ->
    forall e1 r1, sem_block p [M0] = (e1, r1) ->
    exists exp1 Md1 Mb1,
      Inv3 (bsrcs_block false p) (concat ns ++ bi) lm exp1 lm [] (binds_block false p) [] []
           (vblock true p (stack_of [lm]) s0) e1 r1 [] Md1 Mb1 /\
      pairs (vblock true p (stack_of [lm]) s0) = imp_events (bsrcs_block false p).

Theorem doc_unused_core : forall bi ns p, star_free bi ns = true -> imports_once bi ns p = true ->
  NoDup (imp_events (bsrcs_block false p)) -> dx_docs p = true -> TopOK bi ns p ->
  forall l i, In (l, i) (snd (finder_doc bi ns p)) ->
  forall ln n, ~ In (ln, n, Bound (BImp l i)) (pysem_doc bi ns p).
Proof.
  intros bi ns p Hsf Honce Hnd Hdx HTop l i Hrep ln n Hread.
  set (BS := bsrcs_block false p) in *. set (I0 := concat ns ++ bi) in *.
  pose proof (imports_once_Once bi ns p Honce) as HO. fold BS I0 in HO.
  destruct (init_inv2 bi ns p Hsf) as (exp0 & lm & Hown & HB & Estk & HI & Hm0 & HTd & Hd0 & HP0).
  pose proof (er_init bi ns) as Eer.
  unfold finder_doc in Hrep. unfold pysem_doc, pysem, final_frame in Hread.
  destruct (init_state bi ns) as [stk s0]. cbn [fst snd] in *. subst stk.
  set (M0 := module_frame bi ns p) in *.
  assert (HP : forall y, In y (l_P lm) -> In y I0).
  { intros y Hy. apply HP0 in Hy. unfold I0. rewrite in_app_iff in *. tauto. }
  assert (HB' : l_B lm = map fst BS) by (rewrite HB; reflexivity).
  assert (Hck0 : checkers s0 = []) by (rewrite <- Eer; reflexivity).
  assert (Hun0 : unused s0 = []) by (rewrite <- Eer; reflexivity).
  assert (H30 : Inv3 BS I0 lm exp0 lm [] [] [] [] s0 [M0] [] [] (others I0) M0).
  { constructor.
    - rewrite Eer. exact HI.
    - reflexivity.
    - constructor.
      + intros j k v _ Hin. apply (sv_raw _ (st_sinv _ _ _ _ _ (i_st _ _ _ _ _ _ _ _ _ HI)) j k v Hin).
      + intros k v Hin. rewrite HTd in Hin. destruct Hin.
      + intros x c. rewrite HTd. discriminate.
      + intros x l0 i0 H. apply lookup_b_others_other in H. discriminate.
      + intros x. rewrite HTd. discriminate.
      + intros x l0 i0 Hf. left. apply final_import_in in Hf. apply (HO _ _ _ Hf).
      + intros x l0 i0 H. apply lookup_b_others_other in H. discriminate.
      + exact Hun0.
      + intros ? ? ? ? [].
    - reflexivity.
    - reflexivity.
    - reflexivity.
    - intros x Hx. cbn [last] in Hx. rewrite Hown in Hx. destruct Hx. }
  destruct (sem_block p [M0]) as [e1 r1] eqn:Es. cbn [fst snd] in Hread.
  destruct (HTop lm HO HP HB' exp0 s0 M0 H30) with (e1 := e1) (r1 := r1) as (exp1 & Md1 & Mb1 & I1 & P1).
  { unfold pairs. rewrite Hck0. reflexivity. } { exact Es. }
  set (s1 := vblock true p (stack_of [lm]) s0) in *.
  pose proof I1 as [HI1 _ HU1 HEU1 Hfin1 Hdyn1 _]. cbn [is_nil] in Hdyn1.
  pose proof (i_env _ _ _ _ _ _ _ _ _ HI1) as HE1. destruct e1 as [|f [|? ?]]; try contradiction. cbn in HEU1. subst f.
  destruct HE1 as [HE1a HE1b]. rewrite Hfin1 in HE1a.
  (* the states of finder_doc *)
  unfold scan_node, finish_deferred in Hrep. fold s1 in Hrep.
  set (sF := fold_left (fun s d => let '(n, stk, ln) := d in check_load s (stack_of [lm]) stk n ln) (deferred s1) s1) in *.
  pose proof (SameBut_fold (stack_of [lm]) (deferred s1) s1) as (ES & ME & EU). fold sF in ES, ME, EU.
  rewrite stack_top in Hrep. set (T := l_b lm) in *.
  set (sP := fold_left report_unused_of (pending_dicts sF T) sF) in *.
  destruct (reports_shape (pending_dicts sF T) sF) as (uP & EP). fold sP in EP.
  set (sB := with_deferred sP []) in *.
  assert (EsB : scopes sB = scopes s1) by (unfold sB; rewrite EP; cbn; exact ES).
  assert (EcB : checkers sB = checkers sF) by (unfold sB; rewrite EP; reflexivity).
  assert (EdB : forall j, scope_dict sB j = scope_dict s1 j) by (intro j; unfold scope_dict; rewrite EsB; reflexivity).
  assert (HSF : SInv (er sF)) by (apply SInv_er_fold; exact (Inv3_sinv _ _ _ _ _ _ _ _ _ _ _ _ _ _ _ I1)).
  destruct (fold_fields (stack_of [lm]) (deferred s1) s1) as [EfF EnF]. fold sF in EfF, EnF.
  assert (HkT : forall k v, In (k, v) (scope_dict sB T) -> exists y, k = [y]).
  { intros k v. rewrite EdB. intro Hin. apply (u_top _ _ _ _ _ _ _ HU1 _ _ Hin). }
  assert (HcT : forall x c, dict_get (scope_dict sB T) [x] = Some (Chk c) -> c < length (checkers sB)).
  { intros x c. rewrite EdB. intro Hc.
    destruct (u_top _ _ _ _ _ _ _ HU1 _ _ (dict_get_In' _ _ _ Hc)) as [_ [D|(c' & D & Hlt)]]. discriminate.
    injection D as <-. rewrite EcB, (me_len _ _ ME). exact Hlt. }
  assert (HDB : DI sB T sB).
  { constructor.
    - unfold sB. rewrite EP. change (er (with_deferred (with_unused sF uP) [])) with (with_deferred (er sF) []).
      apply SInv_with_deferred. exact HSF.
    - unfold sB. rewrite EP. cbn. rewrite EfF. rewrite (Inv3_fd _ _ _ _ _ _ _ _ _ _ _ _ _ _ _ I1). reflexivity.
    - reflexivity.
    - reflexivity.
    - apply MarkExt_refl.
    - unfold sB. rewrite EP. cbn. rewrite EnF. exact (T_lt _ _ _ _ _ _ _ _ _ _ _ _ _ _ _ I1). }
  rewrite stack_of_one in Hrep. fold T in Hrep.
  set (exs := flat_map fst (docstrings_of p)) in *.
  assert (Hexs : forallb dx_stmt exs = true) by (apply forallb_flat_map; exact Hdx).
  destruct (DI_examples sB T (l_as lm) HkT HcT exs sB HDB Hexs) as (HD2 & M2 & U2).
  set (s2' := fold_left (scan_doctest true (l_as lm ++ [T])) exs sB) in *.
  set (s2 := with_unused s2' (unused sB)) in *.
  pose proof (braces_marks (l_as lm ++ [T]) (brace_ids p) s2) as (cs3 & E3 & M3).
  set (s3 := fold_left (fun s n => snd (needs s (l_as lm ++ [T]) [n])) (brace_ids p) s2) in *.
  assert (MEall : MarkExt (checkers s1) (checkers s3)).
  { rewrite E3. cbn [checkers with_checkers]. eapply MarkExt_trans; [|exact M3]. cbn [checkers with_unused].
    eapply MarkExt_trans; [|exact M2]. rewrite EcB. exact ME. }
  assert (Ed3 : scope_dict s3 T = scope_dict s1 T).
  { rewrite E3. change (scope_dict (with_checkers s2 cs3) T) with (scope_dict s2' T). rewrite (d_T _ _ _ HD2). apply EdB. }
  apply sort_by_In in Hrep. unfold scan_unused in Hrep. rewrite top_snoc in Hrep.
  (* the reported checker: in the module scope, unused at the very end *)
  assert (Hrep' : exists c0, c_used (nth c0 (checkers s3) ckd) = false /\ c_line (nth c0 (checkers s3) ckd) = l /\ c_imp (nth c0 (checkers s3) ckd) = i).
  { apply report_unused_spec in Hrep as [Hrep|(k & c0 & Hk & Hunused & Hl & Hi)].
    - exfalso. rewrite E3 in Hrep. cbn [unused with_checkers with_unused] in Hrep. unfold sB in Hrep. cbn [unused with_deferred] in Hrep.
      unfold sP in Hrep. apply reports_spec in Hrep as [Hrep|(d & k & c0 & Hd & Hk & _)].
      + rewrite EU, (u_unused _ _ _ _ _ _ _ HU1) in Hrep. destruct Hrep.
      + apply pending_dicts_In in Hd as (j & Hj & Ej).
        2:{ rewrite ES, <- er_fst. exact (sv_uniq _ (Inv3_sinv _ _ _ _ _ _ _ _ _ _ _ _ _ _ _ I1)). }
        assert (Ej' : scope_dict s1 j = d) by (rewrite <- Ej; unfold scope_dict; rewrite ES; reflexivity).
        rewrite <- Ej' in Hk. apply (u_plain _ _ _ _ _ _ _ HU1) in Hk. discriminate. fold T. lia.
    - exists c0. unfold checker_at in Hunused, Hl, Hi. fold ckd in Hunused, Hl, Hi. auto. }
  destruct Hrep' as (c0 & Hunused & Hl & Hi).
  assert (Hc0 : c0 < length (checkers s1)).
  { rewrite <- (me_len _ _ MEall). destruct (Nat.lt_ge_cases c0 (length (checkers s3))) as [H|H]; auto. exfalso.
    rewrite nth_overflow in Hunused by exact H. discriminate. }
  (* the read: its checker is used in the end *)
  assert (Hused : exists c, c < length (checkers s1) /\ c_line (nth c (checkers s1) ckd) = l /\
                            c_imp (nth c (checkers s1) ckd) = i /\ c_used (nth c (checkers s3) ckd) = true).
  { apply in_app_iff in Hread as [Hread|Hread].
    - (* a read of the module's own code *)
      assert (MF3 : MarkExt (checkers sF) (checkers s3)).
      { rewrite E3. cbn [checkers with_checkers]. eapply MarkExt_trans; [|exact M3]. cbn [checkers with_unused]. rewrite <- EcB. exact M2. }
      destruct (u_reads _ _ _ _ _ _ _ HU1 ln n l i Hread) as [(c & Hc & A & B & C)|[Hfinal (a & stk' & ln' & Hin & pre & post & E & Hpost)]].
      + exists c. unfold checker_at in A, B, C. fold ckd in A, B, C. repeat split; auto. apply (me_used _ _ MEall). exact C.
      + assert (Hdyn : lookup_b n Md1 = Some (BImp l i)).
        { destruct (u_stab _ _ _ _ _ _ _ HU1 n l i Hfinal) as [Hn|Hs]; auto. exfalso.
          assert (Hne : lookup_b n (rev BS ++ others I0) <> None) by (unfold BS, I0; rewrite Hfinal; discriminate).
          apply HE1a in Hne. rewrite HB in Hne. rewrite <- Hdyn1 in Hn. revert Hn. apply HE1b. exact Hne. }
        destruct (u_mod2 _ _ _ _ _ _ _ HU1 n l i Hdyn) as (c & Hc & A & B).
        assert (Hclt : c < length (checkers s1)).
        { destruct (u_top _ _ _ _ _ _ _ HU1 _ _ (dict_get_In' _ _ _ Hc)) as [_ [D|(c' & D & Hlt)]]. discriminate. injection D as <-. exact Hlt. }
        exists c. unfold checker_at in A, B. fold ckd in A, B. split. exact Hclt. split. exact A. split. exact B.
        apply (me_used _ _ MF3).
        apply (finish_marks (stack_of [lm]) T n c (deferred s1) s1 a stk' ln' pre post Hin E); auto.
        * intros j Hj. split. apply rootclosed_er. apply (sv_root _ (st_sinv _ _ _ _ _ (i_st _ _ _ _ _ _ _ _ _ HI1))).
          apply dict_get_none_er. destruct (has (er s1) j n) eqn:Eh; auto. exfalso. apply (Hpost j Hj).
          apply (st_sub _ _ _ _ _ (i_st _ _ _ _ _ _ _ _ _ HI1)). exact Eh.
        * intros k' v' Hin'. apply (u_top _ _ _ _ _ _ _ HU1 _ _ Hin').
    - (* a read of a doctest example *)
      apply in_flat_map in Hread as (d & Hd & Hread). unfold sem_docstring in Hread. cbn [head hd] in Hread.
      assert (Hdd : forallb dx_stmt (fst d) = true).
      { unfold dx_docs in Hdx. rewrite forallb_forall in Hdx. apply (Hdx d Hd). }
      assert (HQ0 : QF Mb1 Mb1) by (intros ? ? ? H; exact H).
      destruct (dx_sem (fst d) Mb1 Mb1 HQ0 Hdd _ Hread) as (xe & dd & ln' & res & Hex & Hdl & Eq & Hres).
      injection Eq as _ En Er. subst n. symmetry in Er.
      pose proof (Hres l i Er) as Elk. rewrite Hdyn1 in Elk.
      destruct (u_mod2 _ _ _ _ _ _ _ HU1 _ l i Elk) as (c & Hc & A & B).
      assert (Hclt : c < length (checkers s1)).
      { destruct (u_top _ _ _ _ _ _ _ HU1 _ _ (dict_get_In' _ _ _ Hc)) as [_ [D|(c' & D & Hlt)]]. discriminate. injection D as <-. exact Hlt. }
      exists c. unfold checker_at in A, B. fold ckd in A, B. split. exact Hclt. split. exact A. split. exact B.
      rewrite E3. cbn [checkers with_checkers]. apply (me_used _ _ M3). cbn [checkers with_unused].
      apply (U2 xe dd c).
      + unfold exs. apply in_flat_map. exists d. split; assumption.
      + exact Hdl.
      + rewrite EdB. exact Hc. }
  destruct Hused as (c & Hc & A & B & C).
  assert (Hndp : NoDup (map (fun ck => (c_line ck, c_imp ck)) (checkers s1))).
  { change (map (fun ck => (c_line ck, c_imp ck)) (checkers s1)) with (pairs s1). rewrite P1. exact Hnd. }
  assert (Ecc : c = c0).
  { eapply (NoDup_map_nth _ _ (fun ck => (c_line ck, c_imp ck)) (checkers s1) ckd); eauto. cbn.
    rewrite <- (me_line _ _ MEall c0), <- (me_imp _ _ MEall c0). congruence. }
  subst c0. congruence.
Qed.

(* ---------- the two fragments ---------- *)
Lemma TopOK_stage2 : forall bi ns p, u2_block p = true -> TopOK bi ns p.
Proof.
  intros bi ns p Hu lm HO HP HB exp0 s0 M0 H30 Hp e1 r1 Es.
  destruct (top_block _ _ lm HO HP HB p exp0 [] [] [] s0 [M0] [] (others (concat ns ++ bi)) M0 [] [] Hu H30 eq_refl)
    with (e' := e1) (rds := r1) as (exp1 & Md1 & Mb1 & I1 & P1).
  { rewrite app_nil_r. reflexivity. } { exact Hp. } { exact Es. }
  exists exp1, Md1, Mb1. cbn [app] in I1, P1. split; assumption.
Qed.
Lemma TopOK_stage3 : forall bi ns p, u3_block p = true -> TopOK bi ns p.
Proof.
  intros bi ns p Hu lm HO HP HB exp0 s0 M0 H30 Hp e1 r1 Es.
  destruct (top_block_s3 _ _ lm HO HP HB p exp0 [] [] [] s0 [M0] [] (others (concat ns ++ bi)) M0 [] [] Hu H30 eq_refl)
    with (e' := e1) (rds := r1) as (exp1 & Md1 & Mb1 & I1 & P1).
  { rewrite app_nil_r. reflexivity. } { exact Hp. } { exact Es. }
  exists exp1, Md1, Mb1. cbn [app] in I1, P1. split; assumption.
Qed.

Theorem u2_doc_unused_sound : forall bi ns p, u2_block p = true -> dx_docs p = true -> star_free bi ns = true ->
  imports_once bi ns p = true -> NoDup (imp_events (bsrcs_block false p)) ->
  forall l i, In (l, i) (snd (finder_doc bi ns p)) ->
  forall ln n, ~ In (ln, n, Bound (BImp l i)) (pysem_doc bi ns p).
Proof. intros bi ns p Hu Hdx Hsf Ho Hnd. apply doc_unused_core; auto. apply TopOK_stage2. exact Hu. Qed.

Theorem u3_doc_unused_sound : forall bi ns p, u3_block p = true -> dx_docs p = true -> star_free bi ns = true ->
  imports_once bi ns p = true -> NoDup (imp_events (bsrcs_block false p)) ->
  forall l i, In (l, i) (snd (finder_doc bi ns p)) ->
  forall ln n, ~ In (ln, n, Bound (BImp l i)) (pysem_doc bi ns p).
Proof. intros bi ns p Hu Hdx Hsf Ho Hnd. apply doc_unused_core; auto. apply TopOK_stage3. exact Hu. Qed.

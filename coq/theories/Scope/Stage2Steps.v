(* M7, stage 2 - the store / trace invariants and their preservation by the primitive steps of the visitor
   (load in immediate and deferred mode, store of a name, import items, opening and closing scopes). *)
From Coq Require Import NArith List Bool Arith Lia.
From Verif Require Import Scope.PySyntax Scope.Finder Scope.PySem Scope.Fragment Scope.AuxProofs Scope.FinderProofs
                          Scope.Stage2Base Scope.Stage2Inv.
Import ListNotations.

(* "reported in the end": already in the missing list, or a deferred entry whose check against the expected final
   store fails *)
Definition Rep (exp : expmap) (s : st) (l : nat) (n : name) : Prop :=
  (exists a, InM l (n :: a) (missing s)) \/
  (exists a stk, In (n :: a, stk, l) (deferred s) /\ ebound exp stk n = false).

Record TrI (exp : expmap) (s : st) (tr : list rd) : Prop := mkTrI {
  tr_snd : forall l n, In (l, n, Unbound) tr -> Rep exp s l n;
  tr_prc : forall l n, Rep exp s l n -> In (l, n, Unbound) tr \/ In (l, n, UnboundLocal) tr }.

Definition top_ok (s : st) (l : lvl) (acc : list name) : Prop :=
  (forall x, has s (l_b l) x = true <-> In x (l_own l ++ acc)) /\ incl acc (l_B l).

Record StI (exp : expmap) (L : list lvl) (accs : list (list name)) (ex : list nat) (s : st) : Prop := mkStI {
  st_sinv : SInv s;
  st_nodup : NoDup (stack_of L);
  st_ids : forall i, In i (stack_of L) -> i < next_id s /\ i <> delayed_id;
  st_sub : forall i x, has s i x = true -> In x (exp i);
  st_eq : forall i, i < next_id s -> ~ In i (map l_b L) -> ~ In i ex -> forall x, has s i x = true <-> In x (exp i);
  st_top : Forall2 (top_ok s) L accs;
  st_def : forall n stk ln, In (n, stk, ln) (deferred s) -> (forall i, In i stk -> i < next_id s);
  st_fd : in_fd s = negb (Nat.eqb (length L) 1) }.

(* ---------- monotonicity of Rep / TrI ---------- *)
Lemma TrI_perm : forall exp s tr tr', (forall x, In x tr <-> In x tr') -> TrI exp s tr -> TrI exp s tr'.
Proof.
  intros exp s tr tr' H [A B]. constructor.
  - intros l n Hin. apply A. apply H. exact Hin.
  - intros l n Hr. destruct (B l n Hr) as [X|X]; [left|right]; apply H; exact X.
Qed.

Lemma Rep_same : forall exp s s' l n, missing s' = missing s -> deferred s' = deferred s -> Rep exp s l n -> Rep exp s' l n.
Proof. intros exp s s' l n Em Ed H. unfold Rep in *. rewrite Em, Ed. exact H. Qed.

Lemma TrI_same : forall exp s s' tr, missing s' = missing s -> deferred s' = deferred s -> TrI exp s tr -> TrI exp s' tr.
Proof.
  intros exp s s' tr Em Ed [A B]. constructor.
  - intros l n Hin. eapply Rep_same; eauto.
  - intros l n Hr. apply B. eapply Rep_same; [| |exact Hr]; congruence.
Qed.

(* changing exp above every recorded stack id does not change Rep *)
Lemma Rep_ext : forall exp exp' s l n m, ext m exp exp' ->
  (forall nm stk ln, In (nm, stk, ln) (deferred s) -> forall i, In i stk -> i < m) ->
  (Rep exp s l n <-> Rep exp' s l n).
Proof.
  intros exp exp' s l n m He Hd. unfold Rep. split; intros [H|(a & stk & Hin & Hb)]; auto; right; exists a, stk; split; auto.
  - rewrite (ebound_ext m exp exp'); auto. eapply Hd. exact Hin.
  - rewrite <- (ebound_ext m exp exp'); auto. eapply Hd. exact Hin.
Qed.
Lemma TrI_ext : forall exp exp' s tr m, ext m exp exp' ->
  (forall nm stk ln, In (nm, stk, ln) (deferred s) -> forall i, In i stk -> i < m) ->
  TrI exp s tr -> TrI exp' s tr.
Proof.
  intros exp exp' s tr m He Hd [A B]. constructor.
  - intros l n Hin. apply (Rep_ext exp exp' s l n m He Hd). apply A. exact Hin.
  - intros l n Hr. apply B. apply (Rep_ext exp exp' s l n m He Hd). exact Hr.
Qed.

(* ---------- bound vs ebound ---------- *)
Lemma bound_sub : forall exp L accs ex s stk x, StI exp L accs ex s -> bound s stk x = true -> ebound exp stk x = true.
Proof.
  intros exp L accs ex s stk x H Hb. unfold bound in Hb. apply existsb_exists in Hb as (i & Hi & Hh).
  unfold ebound. apply existsb_exists. exists i. split; auto. apply mem_In. eapply (st_sub _ _ _ _ _ H). exact Hh.
Qed.
Lemma bound_closed : forall exp s ids x, (forall i, In i ids -> forall y, has s i y = true <-> In y (exp i)) ->
  bound s ids x = ebound exp ids x.
Proof.
  intros exp s ids x H. unfold bound, ebound. induction ids as [|i ids IH]; cbn. reflexivity.
  rewrite IH by (intros j Hj; apply H; right; exact Hj). f_equal.
  apply eq_true_iff_eq. change (dict_has (scope_dict s i) [x]) with (has s i x). rewrite (H i (or_introl eq_refl)), mem_In. reflexivity.
Qed.
Lemma bound_app : forall s a b x, bound s (a ++ b) x = bound s a x || bound s b x.
Proof. intros. unfold bound. apply existsb_app. Qed.
Lemma bound_single : forall s i x, bound s [i] x = has s i x.
Proof. intros. unfold bound. cbn. apply orb_false_r. Qed.

(* ---------- StI does not look at missing / lineno ---------- *)
Lemma StI_with_missing : forall exp L accs ex s m, StI exp L accs ex s -> StI exp L accs ex (with_missing s m).
Proof. intros exp L accs ex s m H. destruct H. constructor; auto. apply SInv_with_missing; auto. Qed.
Lemma StI_with_ln : forall exp L accs ex s l, StI exp L accs ex s -> StI exp L accs ex (with_ln s l).
Proof. intros exp L accs ex s m H. destruct H. constructor; auto. apply SInv_with_ln; auto. Qed.
Lemma TrI_with_ln : forall exp s tr l, TrI exp s tr -> TrI exp (with_ln s l) tr.
Proof. intros. eapply TrI_same; [| |eassumption]; reflexivity. Qed.

Lemma CtxI_ext : forall exp exp' L m, ext m exp exp' -> (forall i, In i (stack_of L) -> i < m) -> CtxI exp L -> CtxI exp' L.
Proof.
  intros exp exp' L m He Hs [A B C].
  assert (Hin : forall l, In l L -> forall i, In i (ids_of l) -> i < m).
  { intros l Hl i Hi. apply Hs. unfold stack_of. apply in_flat_map. exists l. split; auto. apply -> in_rev. exact Hl. }
  constructor; auto.
  - intros l Hl x. rewrite (ebound_ext m exp exp'); auto.
    intros i Hi. apply (Hin l Hl). unfold ids_of. apply in_app_iff. auto.
  - intros l Hl x. rewrite He. apply B; auto. apply (Hin l Hl). unfold ids_of. apply in_app_iff. right. left. reflexivity.
Qed.

(* ---------- the stack of a level list ---------- *)
Lemma stack_top : forall l L, top (stack_of (l :: L)) = l_b l.
Proof. intros. rewrite stack_of_cons, app_assoc. apply top_snoc. Qed.
Lemma stack_removelast : forall l L, removelast (stack_of (l :: L)) = stack_of L ++ l_as l.
Proof. intros. rewrite stack_of_cons, app_assoc. apply removelast_snoc. Qed.
Lemma in_stack_b : forall l L, In l L -> In (l_b l) (stack_of L).
Proof.
  intros l L H. unfold stack_of. apply in_flat_map. exists l. split. apply -> in_rev. exact H.
  unfold ids_of. apply in_app_iff. right. left. reflexivity.
Qed.
Lemma in_stack_a : forall l L i, In l L -> In i (l_as l) -> In i (stack_of L).
Proof.
  intros l L i H Hi. unfold stack_of. apply in_flat_map. exists l. split. apply -> in_rev. exact H.
  unfold ids_of. apply in_app_iff. left. exact Hi.
Qed.

Lemma NoDup_app_inv : forall A (a b : list A), NoDup (a ++ b) -> NoDup a /\ NoDup b /\ (forall x, In x a -> ~ In x b).
Proof.
  induction a as [|y a IH]; cbn; intros b H. repeat split; auto. constructor.
  inversion H as [|? ? Hn Hd]; subst. destruct (IH b Hd) as (A1 & A2 & A3). repeat split; auto.
  - constructor; auto. intro Hy. apply Hn. apply in_app_iff. auto.
  - intros x [<-|Hx]. intro Hb. apply Hn. apply in_app_iff. auto. apply A3. exact Hx.
Qed.

Lemma NoDup_app_inv' : forall A (a b : list A), NoDup a -> NoDup b -> (forall x, In x a -> ~ In x b) -> NoDup (a ++ b).
Proof.
  induction a as [|y a IH]; cbn; intros b Ha Hb Hd. exact Hb.
  inversion Ha as [|? ? Hn Ha']; subst. constructor.
  - intro H. apply in_app_iff in H as [H|H]. contradiction. eapply Hd; eauto.
  - apply IH; auto.
Qed.

(* in a duplicate-free stack no B id is among the A ids of any level *)
Lemma b_not_a : forall LL, NoDup (flat_map ids_of LL) -> forall l l2, In l LL -> In l2 LL -> ~ In (l_b l2) (l_as l).
Proof.
  induction LL as [|l0 LL IH]; intros Hn l1 l3 H1 H3 Hx. contradiction.
  cbn [flat_map] in Hn. apply NoDup_app_inv in Hn as (Hself & Hrest & Hdis).
  destruct H1 as [<-|H1]; destruct H3 as [<-|H3].
  - unfold ids_of in Hself. apply NoDup_app_inv in Hself as (_ & _ & Hd). eapply Hd. exact Hx. left. reflexivity.
  - apply (Hdis (l_b l3)).
    + unfold ids_of. apply in_app_iff. left. exact Hx.
    + apply in_flat_map. exists l3. split; auto. unfold ids_of. apply in_app_iff. right. left. reflexivity.
  - apply (Hdis (l_b l0)).
    + unfold ids_of. apply in_app_iff. right. left. reflexivity.
    + apply in_flat_map. exists l1. split; auto. unfold ids_of. apply in_app_iff. left. exact Hx.
  - exact (IH Hrest l1 l3 H1 H3 Hx).
Qed.

(* the parameter scopes of an open level are closed: their roots are the expected ones *)
Record ExOK (L : list lvl) (ex : list nat) : Prop := mkExOK {
  ex_off : forall i, In i ex -> ~ In i (stack_of L) }.

Lemma as_closed : forall exp L accs ex s l i, StI exp L accs ex s -> ExOK L ex -> In l L -> In i (l_as l) ->
  forall y, has s i y = true <-> In y (exp i).
Proof.
  intros exp L accs ex s l i H Hex Hl Hi y.
  assert (Hs : In i (stack_of L)) by (eapply in_stack_a; eauto).
  apply (st_eq _ _ _ _ _ H).
  - apply (st_ids _ _ _ _ _ H). exact Hs.
  - intro Hb. apply in_map_iff in Hb as (l2 & Eb & Hl2).
    pose proof (st_nodup _ _ _ _ _ H) as Hnd. unfold stack_of in Hnd.
    eapply (b_not_a (rev L) Hnd l l2); try (apply -> in_rev; assumption). rewrite Eb. exact Hi.
  - intro Hx. eapply (ex_off _ _ Hex); eauto.
Qed.

(* ---------- load, immediate mode (module level) ---------- *)
Lemma Rep_grow : forall exp s s' l n,
  (forall l0 d, InM l0 d (missing s) -> InM l0 d (missing s')) ->
  (forall d, In d (deferred s) -> In d (deferred s')) -> Rep exp s l n -> Rep exp s' l n.
Proof.
  intros exp s s' l n Hm Hd [(a & H)|(a & stk & H & Hb)]. left. exists a. apply Hm. exact H.
  right. exists a, stk. split; auto.
Qed.

Lemma load_imm : forall exp l0 acc ex s e tr n a,
  StI exp [l0] [acc] ex s -> ExOK [l0] ex -> CtxI exp [l0] -> EnvI [l0] e [acc] -> TrI exp s tr ->
  let s' := load s (stack_of [l0]) (n :: a) in
  StI exp [l0] [acc] ex s' /\ TrI exp s' (tr ++ [(lineno s, n, resolve n e)]) /\
  lineno s' = lineno s /\ next_id s' = next_id s /\ in_fd s' = in_fd s.
Proof.
  intros exp l0 acc ex s e tr n a HS HX HC HE HT. cbv zeta.
  unfold load. rewrite (st_fd _ _ _ _ _ HS). cbn [length Nat.eqb negb].
  rewrite check_load_S by (apply (st_sinv _ _ _ _ _ HS)).
  assert (Hown : l_own l0 = []) by (apply (cx_own _ _ HC)).
  assert (Hb : bound s (stack_of [l0]) n = true <-> In n (l_P l0 ++ acc)).
  { rewrite stack_of_cons. cbn [stack_of rev flat_map app]. rewrite bound_app, bound_single, orb_true_iff.
    rewrite (bound_closed exp s (l_as l0) n) by (intros i Hi; eapply as_closed; eauto; left; reflexivity).
    rewrite (cx_as _ _ HC l0 (or_introl eq_refl)).
    pose proof (st_top _ _ _ _ _ HS) as Ht. inversion Ht as [|? ? ? ? [Ht1 _] _]; subst.
    rewrite Ht1, Hown. cbn [app]. rewrite in_app_iff. reflexivity. }
  destruct e as [|f [|? ?]]; try contradiction. destruct HE as [_ HE2].
  rewrite (resolve_module n f).
  destruct (bound s (stack_of [l0]) n) eqn:E.
  - (* found: nothing reported, the read is bound *)
    split. exact HS. split; [|split; [reflexivity|split; [reflexivity|apply (st_fd _ _ _ _ _ HS)]]].
    assert (Hl : lookup_b n (fdyn f) <> None) by (apply HE2; apply Hb; reflexivity).
    destruct (lookup_b n (fdyn f)) as [b|]; [|congruence].
    destruct HT as [A B]. constructor.
    + intros l m Hin. apply in_app_iff in Hin as [Hin|[Hin|[]]]. auto. discriminate.
    + intros l m Hr. destruct (B l m Hr); [left|right]; apply in_app_iff; auto.
  - assert (Hl : lookup_b n (fdyn f) = None).
    { apply (lookup_none_iff _ _ _ HE2). intro Hin. apply Hb in Hin. congruence. }
    rewrite Hl.
    destruct (add_missing_spec s (stack_of [l0]) (lineno s) (n :: a)) as [E1 E2].
    split. rewrite E1. apply StI_with_missing. exact HS.
    split; [|rewrite E1; split; [reflexivity|split; [reflexivity|apply (st_fd _ _ _ _ _ HS)]]].
    destruct HT as [A B]. constructor.
    + intros l m Hin. apply in_app_iff in Hin as [Hin|[Hin|[]]].
      * eapply Rep_grow; [| |apply A; exact Hin]. intros l1 d H1. apply E2. auto. rewrite E1. auto.
      * injection Hin as <- <-. left. exists a. apply E2. auto.
    + intros l m [(a' & H)|(a' & stk & H & Hbb)].
      * apply E2 in H as [H|[-> H]]. destruct (B l m) as [X|X]; [left; eauto| |]; [left|right]; apply in_app_iff; auto.
        injection H as <- _. left. apply in_app_iff. right. left. reflexivity.
      * rewrite E1 in H. cbn in H. destruct (B l m) as [X|X]. right; eauto. left; apply in_app_iff; auto. right; apply in_app_iff; auto.
Qed.

(* ---------- load, deferred mode (inside a function or lambda body) ---------- *)
Lemma clone_top_S : forall s stk, SInv s ->
  clone_top s stk = (removelast stk ++ [next_id s], snd (new_scope s KClone (scope_dict s (top stk)))).
Proof.
  intros s stk H. unfold clone_top, scope_dict.
  destruct (get_scope (scopes s) (top stk)) as [c d]. cbn [fst snd] in *. reflexivity.
Qed.

Lemma dict_has_rootclosed_copy : forall s i, SInv s ->
  (forall k e, In (k, e) (scope_dict s i) -> e = Plain) /\ rootclosed (scope_dict s i) /\ dict_has (scope_dict s i) [n_star] = false.
Proof. intros s i H. split. apply (sv_raw s H). split. apply (sv_root s H). apply (sv_nostar s H). Qed.

Lemma wd_next : forall s x, next_id (with_deferred s x) = next_id s. Proof. reflexivity. Qed.
Lemma wd_missing : forall s x, missing (with_deferred s x) = missing s. Proof. reflexivity. Qed.
Lemma wd_deferred : forall s x, deferred (with_deferred s x) = x. Proof. reflexivity. Qed.
Lemma wd_fd : forall s x, in_fd (with_deferred s x) = in_fd s. Proof. reflexivity. Qed.
Lemma wd_ln : forall s x, lineno (with_deferred s x) = lineno s. Proof. reflexivity. Qed.

Lemma defer_step : forall exp l l' L'' accs acc ex s e tr n a,
  let L := l :: l' :: L'' in
  StI exp L (acc :: accs) ex s -> ExOK L ex -> CtxI exp L -> EnvI L e (acc :: map l_B (l' :: L'')) -> TrI exp s tr ->
  let s' := defer_load s (stack_of L) (n :: a) in
  exists exp', ext (next_id s) exp exp' /\ StI exp' L (acc :: accs) ex s' /\ CtxI exp' L /\
               TrI exp' s' (tr ++ [(lineno s, n, resolve n e)]) /\
               lineno s' = lineno s /\ next_id s <= next_id s' /\ missing s' = missing s /\ in_fd s' = in_fd s.
Proof.
  intros exp l l' L'' accs acc ex s e tr n a L HS HX HC HE HT. cbv zeta.
  pose proof (st_sinv _ _ _ _ _ HS) as HI.
  rewrite defer_load_S by exact HI. rewrite (resolve_EnvI _ _ _ n HE).
  destruct (bound s (stack_of L) n) eqn:Eb.
  - (* found now: no entry; the read cannot be a failing global lookup *)
    exists exp. split. apply ext_refl. split. exact HS. split. exact HC. split; [|auto 6].
    destruct HT as [A B]. constructor.
    + intros l1 m Hin. apply in_app_iff in Hin as [Hin|[Hin|[]]]. auto.
      injection Hin as <- <- Hr. exfalso.
      pose proof (unbound_not_ebound exp l l' L'' e acc n HC HE Hr) as E1.
      pose proof (bound_sub _ _ _ _ _ _ _ HS Eb) as E2. fold L in E1. congruence.
    + intros l1 m Hr. destruct (B l1 m Hr); [left|right]; apply in_app_iff; auto.
  - rewrite clone_top_S by exact HI. cbv zeta.
    set (j := next_id s). set (d := scope_dict s (top (stack_of L))).
    set (s2 := snd (new_scope s KClone d)).
    set (stk' := removelast (stack_of L) ++ [j]).
    destruct (new_scope_fields_k s KClone d) as (_ & Enx & Em & Ed & Efd & Eln & _). fold s2 in Enx, Em, Ed, Efd, Eln.
    destruct (dict_has_rootclosed_copy s (top (stack_of L)) HI) as (P1 & P2 & P3). fold d in P1, P2, P3.
    assert (HI2 : SInv s2) by (apply SInv_new_k; auto; discriminate).
    assert (Hsd : forall i, scope_dict s2 i = if Nat.eqb i j then d else scope_dict s i)
      by (intro i; apply scope_dict_new_k; apply (sv_fresh s HI)).
    assert (Hhas : forall i x, has s2 i x = if Nat.eqb i j then has s (l_b l) x else has s i x).
    { intros i x. unfold has. rewrite Hsd. destruct (Nat.eqb i j); auto. unfold d. unfold L. rewrite stack_top. reflexivity. }
    assert (Hstk : stk' = dstack L j).
    { unfold stk', L. rewrite stack_removelast. cbn [dstack]. rewrite app_assoc. reflexivity. }
    set (exp' := upd exp j (l_own l ++ acc)).
    pose proof (st_top _ _ _ _ _ HS) as Ht. inversion Ht as [|? ? ? ? [Ht1 Ht2] Ht']; subst.
    assert (Hlt : forall i, In i (stack_of L) -> i < j) by (intros i Hi; apply (st_ids _ _ _ _ _ HS); exact Hi).
    assert (Hext : ext j exp exp') by (apply ext_upd; lia).
    assert (Hexpj : forall y, In y (exp' j) <-> In y (l_own l ++ acc)).
    { intro y. unfold exp', upd. rewrite Nat.eqb_refl. reflexivity. }
    assert (HC' : CtxI exp' L) by (eapply CtxI_ext; eauto).
    exists exp'. split. exact Hext.
    assert (HS' : StI exp' L (acc :: accs) ex (with_deferred s2 (deferred s2 ++ [(n :: a, stk', lineno s2)]))).
    { constructor.
      - apply SInv_with_deferred. exact HI2.
      - apply (st_nodup _ _ _ _ _ HS).
      - intros i Hi. rewrite wd_next, Enx. destruct (st_ids _ _ _ _ _ HS i Hi). split; auto.
      - intros i x. change (has (with_deferred s2 _) i x) with (has s2 i x). rewrite Hhas. unfold exp', upd.
        destruct (Nat.eqb i j). intro H. apply Ht1. exact H. apply (st_sub _ _ _ _ _ HS).
      - intros i Hi Hnb Hne x. change (has (with_deferred s2 _) i x) with (has s2 i x). rewrite Hhas. unfold exp', upd.
        destruct (Nat.eqb i j) eqn:Ej. apply Ht1.
        apply (st_eq _ _ _ _ _ HS); auto. rewrite wd_next, Enx in Hi. apply Nat.eqb_neq in Ej. fold j in Hi. lia.
      - assert (G : forall Ls As, Forall2 (top_ok s) Ls As -> (forall l0, In l0 Ls -> l_b l0 < j) ->
                      Forall2 (top_ok (with_deferred s2 (deferred s2 ++ [(n :: a, stk', lineno s2)]))) Ls As).
        { induction 1 as [|l0 a0 Ls As [T1 T2] HF IHF]; intro Hb0; constructor.
          - split; auto. intro x. change (has (with_deferred s2 _) (l_b l0) x) with (has s2 (l_b l0) x). rewrite Hhas.
            assert (Nat.eqb (l_b l0) j = false) by (apply Nat.eqb_neq; specialize (Hb0 l0 (or_introl eq_refl)); lia).
            rewrite H. apply T1.
          - apply IHF. intros l1 H1. apply Hb0. right. exact H1. }
        apply G. exact Ht. intros l0 H0. apply Hlt. apply in_stack_b. exact H0.
      - intros nm stk ln Hin i Hi. rewrite wd_next, Enx. rewrite wd_deferred, Ed in Hin.
        apply in_app_iff in Hin as [Hin|[Hin|[]]].
        + pose proof (st_def _ _ _ _ _ HS _ _ _ Hin i Hi). fold j in H. lia.
        + injection Hin as <- <- _. unfold stk' in Hi. apply in_app_iff in Hi as [Hi|[<-|[]]]; [|fold j; lia].
          apply removelast_In in Hi. specialize (Hlt i Hi). fold j. lia.
      - rewrite wd_fd, Efd. apply (st_fd _ _ _ _ _ HS). }
    split. exact HS'. split. exact HC'.
    split.
    { (* the trace *)
      assert (HT1 : TrI exp' s tr).
      { eapply TrI_ext; [exact Hext| |exact HT]. intros nm stk ln Hin i Hi. apply (st_def _ _ _ _ _ HS _ _ _ Hin i Hi). }
      destruct HT1 as [A B]. rewrite Eln. constructor.
      - intros l1 m Hin. apply in_app_iff in Hin as [Hin|[Hin|[]]].
        + eapply Rep_grow; [| |apply A; exact Hin]. rewrite wd_missing, Em. auto.
          rewrite wd_deferred, Ed. intros d0 H0. apply in_app_iff. auto.
        + injection Hin as <- <- Hr. right. exists a, stk'. split. rewrite wd_deferred. apply in_app_iff. right. left. reflexivity.
          rewrite Hstk. eapply verdict_sound; eauto.
      - intros l1 m [(a' & H)|(a' & stk & H & Hbb)].
        + rewrite wd_missing, Em in H. destruct (B l1 m) as [X|X]. left; eauto. left; apply in_app_iff; auto. right; apply in_app_iff; auto.
        + rewrite wd_deferred, Ed in H. apply in_app_iff in H as [H|[H|[]]].
          * destruct (B l1 m) as [X|X]. right; eauto. left; apply in_app_iff; auto. right; apply in_app_iff; auto.
          * injection H as <- <- <- <-. rewrite Hstk in Hbb.
            destruct (verdict_precise exp' l (l' :: L'') e acc j n HC' HE Hexpj Hbb) as [X|X]; rewrite X; [left|right];
              apply in_app_iff; right; left; reflexivity. }
    split. rewrite wd_ln. exact Eln. split. rewrite wd_next, Enx. fold j. lia. split. rewrite wd_missing. exact Em.
    rewrite wd_fd. exact Efd.
Qed.

(* ---------- load, both modes ---------- *)
Lemma load_step : forall exp l L' accs acc ex s e tr n a,
  StI exp (l :: L') (acc :: accs) ex s -> ExOK (l :: L') ex -> CtxI exp (l :: L') ->
  EnvI (l :: L') e (acc :: map l_B L') -> TrI exp s tr ->
  let s' := load s (stack_of (l :: L')) (n :: a) in
  exists exp', ext (next_id s) exp exp' /\ StI exp' (l :: L') (acc :: accs) ex s' /\ CtxI exp' (l :: L') /\
               TrI exp' s' (tr ++ [(lineno s, n, resolve n e)]) /\
               lineno s' = lineno s /\ next_id s <= next_id s' /\ in_fd s' = in_fd s.
Proof.
  intros exp l L' accs acc ex s e tr n a HS HX HC HE HT. cbv zeta.
  destruct L' as [|l' L''].
  - assert (accs = []). { pose proof (st_top _ _ _ _ _ HS) as Ht. inversion Ht as [|? ? ? ? _ Ht']; subst. inversion Ht'. reflexivity. }
    subst accs. destruct (load_imm exp l acc ex s e tr n a HS HX HC HE HT) as (A & B & C & D & Fd).
    exists exp. split. apply ext_refl. split. exact A. split. exact HC. split. exact B. split. exact C. split. lia. exact Fd.
  - unfold load. rewrite (st_fd _ _ _ _ _ HS). cbn [length Nat.eqb negb].
    destruct (defer_step exp l l' L'' accs acc ex s e tr n a HS HX HC HE HT)
      as (exp1 & X1 & S1 & C1 & T1 & Ln1 & N1 & M1 & Fd1).
    set (s1 := defer_load s (stack_of (l :: l' :: L'')) (n :: a)) in *.
    destruct (defer_step exp1 l l' L'' accs acc ex s1 e _ n a S1 HX C1 HE T1)
      as (exp2 & X2 & S2 & C2 & T2 & Ln2 & N2 & M2 & Fd2).
    exists exp2. split. eapply ext_trans; [exact N1|exact X1|exact X2].
    split. exact S2. split. exact C2.
    split. { eapply TrI_perm; [|exact T2]. intro x. rewrite Ln1, !in_app_iff. cbn. tauto. }
    split. congruence. split. lia. rewrite Fd2, Fd1. apply (st_fd _ _ _ _ _ HS).
Qed.

(* ---------- stores into the top scope ---------- *)
Lemma b_distinct : forall l L' l0, NoDup (stack_of (l :: L')) -> In l0 L' -> l_b l0 <> l_b l.
Proof.
  intros l L' l0 Hnd Hin E. rewrite stack_of_cons in Hnd. apply NoDup_app_inv in Hnd as (_ & _ & Hd).
  eapply (Hd (l_b l0)). apply in_stack_b. exact Hin. rewrite E. apply in_app_iff. right. left. reflexivity.
Qed.

Lemma top_ok_other : forall s s' l0 acc0, (forall x, has s' (l_b l0) x = has s (l_b l0) x) -> top_ok s l0 acc0 -> top_ok s' l0 acc0.
Proof. intros s s' l0 acc0 H [A B]. split; auto. intro x. rewrite H. apply A. Qed.

Lemma Forall2_top_other : forall s s' Ls As, (forall l0, In l0 Ls -> forall x, has s' (l_b l0) x = has s (l_b l0) x) ->
  Forall2 (top_ok s) Ls As -> Forall2 (top_ok s') Ls As.
Proof.
  intros s s' Ls As H HF. induction HF as [|l0 a0 Ls As T HF IH]; constructor.
  - eapply top_ok_other; [|exact T]. apply H. left. reflexivity.
  - apply IH. intros l1 H1. apply H. right. exact H1.
Qed.

(* a key r :: q stored into the top scope; [add] = the root it adds ([] when the root is already there) *)
Lemma store_key_step : forall exp l L' acc accs ex s r q add,
  StI exp (l :: L') (acc :: accs) ex s -> CtxI exp (l :: L') ->
  ((q = [] /\ r <> n_star /\ add = [r] /\ In r (l_B l)) \/ (has s (l_b l) r = true /\ add = [])) ->
  let s' := store false s (stack_of (l :: L')) (r :: q) Plain in
  StI exp (l :: L') ((acc ++ add) :: accs) ex s' /\
  missing s' = missing s /\ deferred s' = deferred s /\ lineno s' = lineno s /\ next_id s' = next_id s /\
  has s' (l_b l) r = true.
Proof.
  intros exp l L' acc accs ex s r q add HS HC Hk. cbv zeta. rewrite store_false, stack_top.
  destruct (set_in_scope_fields s (l_b l) (r :: q) Plain) as (Em & El & Efd & Ed & Enx & _).
  pose proof (st_sinv _ _ _ _ _ HS) as HI.
  pose proof (st_top _ _ _ _ _ HS) as Ht. inversion Ht as [|? ? ? ? [Ht1 Ht2] Ht']; subst.
  assert (Hid : l_b l < next_id s /\ l_b l <> delayed_id).
  { apply (st_ids _ _ _ _ _ HS). apply in_stack_b. left. reflexivity. }
  assert (Hhas : forall i x, has (set_in_scope s (l_b l) (r :: q) Plain) i x =
                             if Nat.eqb (l_b l) i then dotted_eqb [x] (r :: q) || has s (l_b l) x else has s i x)
    by (intros; apply has_set).
  assert (Hroot : forall x, dotted_eqb [x] (r :: q) || has s (l_b l) x = true <-> In x (l_own l ++ acc ++ add)).
  { intro x. rewrite orb_true_iff, Ht1, !in_app_iff.
    destruct Hk as [(-> & Hr & -> & Hb)|(Hh & ->)].
    - cbn [dotted_eqb]. rewrite andb_true_r, N.eqb_eq. cbn. intuition.
    - split.
      + intros [E|H]. apply dotted_eqb_eq in E. injection E as -> <-. apply Ht1 in Hh. rewrite in_app_iff in Hh. tauto. tauto.
      + cbn. intuition. }
  split; [|repeat split; auto].
  - constructor.
    + apply SInv_store; auto. tauto. tauto.
      destruct Hk as [(-> & Hr & _)|(Hh & _)]; auto.
    + apply (st_nodup _ _ _ _ _ HS).
    + intros i Hi. rewrite Enx. apply (st_ids _ _ _ _ _ HS). exact Hi.
    + intros i x. rewrite Hhas. destruct (Nat.eqb (l_b l) i) eqn:E; [|apply (st_sub _ _ _ _ _ HS)].
      apply Nat.eqb_eq in E. subst i. intro H. apply Hroot in H.
      apply (cx_b _ _ HC l (or_introl eq_refl)).
      rewrite !in_app_iff in *. destruct H as [H|[H|H]]; auto.
      destruct Hk as [(_ & _ & -> & Hb)|(_ & ->)]. destruct H as [<-|[]]. auto. contradiction.
    + intros i Hi Hnb Hne x. rewrite Hhas. destruct (Nat.eqb (l_b l) i) eqn:E.
      * exfalso. apply Nat.eqb_eq in E. apply Hnb. cbn. auto.
      * apply (st_eq _ _ _ _ _ HS); auto. rewrite <- Enx. exact Hi.
    + constructor.
      * split. intro x. rewrite Hhas, Nat.eqb_refl. apply Hroot.
        intros y Hy. apply in_app_iff in Hy as [Hy|Hy]. auto.
        destruct Hk as [(_ & _ & -> & Hb)|(_ & ->)]. destruct Hy as [<-|[]]. exact Hb. contradiction.
      * eapply Forall2_top_other; [|exact Ht']. intros l0 H0 x. rewrite Hhas.
        assert (Nat.eqb (l_b l) (l_b l0) = false).
        { apply Nat.eqb_neq. intro E. eapply (b_distinct l L' l0); eauto. apply (st_nodup _ _ _ _ _ HS). }
        rewrite H. reflexivity.
    + intros nm stk ln Hin i Hi. rewrite Enx. rewrite Ed in Hin. eapply (st_def _ _ _ _ _ HS); eauto.
    + rewrite Efd. apply (st_fd _ _ _ _ _ HS).
  - rewrite Hhas, Nat.eqb_refl. apply orb_true_iff.
    destruct Hk as [(-> & _)|(Hh & _)]. left. apply dotted_eqb_refl. right. exact Hh.
Qed.

(* the environment side of binding one name in the innermost frame *)
Lemma names_eq_bind : forall f P acc n b, names_eq (fdyn f) (P ++ acc) -> names_eq (fdyn (bind n b f)) (P ++ acc ++ [n]).
Proof.
  intros f P acc n b H x. rewrite lookup_b_bind. destruct (N.eqb x n) eqn:E.
  - apply N.eqb_eq in E. subst x. split; [intros _|discriminate]. rewrite !in_app_iff. right. right. left. reflexivity.
  - specialize (H x). rewrite H, !in_app_iff. apply N.eqb_neq in E. cbn. intuition.
Qed.

Lemma EnvI_bind : forall l L' e acc rest n b, EnvI (l :: L') e (acc :: rest) -> In n (l_B l) ->
  EnvI (l :: L') (with_head e (bind n b (head e))) ((acc ++ [n]) :: rest).
Proof.
  intros l L' e acc rest n b H Hn. destruct L' as [|l' L''].
  - destruct e as [|f [|? ?]]; try contradiction. destruct rest; try contradiction. destruct H as [H1 H2].
    cbn [with_head head hd EnvI]. split. exact H1. apply names_eq_bind. exact H2.
  - destruct e as [|f [|f' e']]; try contradiction; destruct rest as [|a' rest']; try contradiction.
    destruct H as (Hk & Hs & Hd & Hi & Hr). cbn [with_head head hd EnvI].
    split. exact Hk. split. exact Hs. split. apply names_eq_bind. exact Hd. split; [|exact Hr].
    intros y Hy. apply in_app_iff in Hy as [Hy|[<-|[]]]; auto.
Qed.

(* ---------- parameter scopes: filled while off the stack, then closed ---------- *)
Lemma store_off_stack : forall exp L accs ex s A p,
  StI exp L accs ex s -> In A ex -> ~ In A (stack_of L) -> A < next_id s -> A <> delayed_id ->
  p <> n_star -> In p (exp A) ->
  let s' := set_in_scope s A [p] Plain in
  StI exp L accs ex s' /\ missing s' = missing s /\ deferred s' = deferred s /\ lineno s' = lineno s /\
  next_id s' = next_id s /\ in_fd s' = in_fd s /\
  (forall x, has s' A x = N.eqb x p || has s A x).
Proof.
  intros exp L accs ex s A p HS HA Hoff Hlt Hd Hp Hin. cbv zeta.
  destruct (set_in_scope_fields s A [p] Plain) as (Em & El & Efd & Ed & Enx & _).
  assert (Hhas : forall i x, has (set_in_scope s A [p] Plain) i x =
                             if Nat.eqb A i then dotted_eqb [x] [p] || has s A x else has s i x) by (intros; apply has_set).
  assert (HnB : forall l0, In l0 L -> l_b l0 <> A).
  { intros l0 H0 E. apply Hoff. rewrite <- E. apply in_stack_b. exact H0. }
  split; [|repeat split; auto].
  - constructor.
    + apply SInv_store; auto. apply (st_sinv _ _ _ _ _ HS).
    + apply (st_nodup _ _ _ _ _ HS).
    + intros i Hi. rewrite Enx. apply (st_ids _ _ _ _ _ HS). exact Hi.
    + intros i x. rewrite Hhas. destruct (Nat.eqb A i) eqn:E; [|apply (st_sub _ _ _ _ _ HS)].
      apply Nat.eqb_eq in E. subst i. intro H. apply orb_true_iff in H as [H|H].
      * apply dotted_eqb_eq in H. injection H as ->. exact Hin.
      * apply (st_sub _ _ _ _ _ HS). exact H.
    + intros i Hi Hnb Hne x. rewrite Hhas. destruct (Nat.eqb A i) eqn:E.
      * apply Nat.eqb_eq in E. subst i. contradiction.
      * apply (st_eq _ _ _ _ _ HS); auto. rewrite <- Enx. exact Hi.
    + eapply Forall2_top_other; [|apply (st_top _ _ _ _ _ HS)]. intros l0 H0 x. rewrite Hhas.
      assert (Nat.eqb A (l_b l0) = false) by (apply Nat.eqb_neq; intro E; eapply HnB; eauto).
      rewrite H. reflexivity.
    + intros nm stk ln Hi i Hii. rewrite Enx. rewrite Ed in Hi. eapply (st_def _ _ _ _ _ HS); eauto.
    + rewrite Efd. apply (st_fd _ _ _ _ _ HS).
  - intro x. rewrite Hhas, Nat.eqb_refl. cbn [dotted_eqb]. rewrite andb_true_r. reflexivity.
Qed.

Lemma close_ex : forall exp L accs ex s A, StI exp L accs (A :: ex) s ->
  (forall x, has s A x = true <-> In x (exp A)) -> StI exp L accs ex s.
Proof.
  intros exp L accs ex s A HS HA. destruct HS. constructor; auto.
  intros i Hi Hnb Hne x. destruct (Nat.eq_dec i A) as [->|Hn]. apply HA.
  apply st_eq0; auto. intros [E|E]; auto.
Qed.
Lemma open_ex : forall exp L accs ex s A, StI exp L accs ex s -> StI exp L accs (A :: ex) s.
Proof.
  intros exp L accs ex s A HS. destruct HS. constructor; auto.
  intros i Hi Hnb Hne x. apply st_eq0; auto. intro E. apply Hne. right. exact E.
Qed.

(* storing the parameter names into scope A *)
Lemma store_params : forall exp L accs ex A stk ps s,
  StI exp L accs ex s -> In A ex -> ~ In A (stack_of L) -> A < next_id s -> A <> delayed_id ->
  Forall (fun p => p <> n_star) ps -> incl ps (exp A) ->
  let s' := fold_left (fun s p => store false s (stk ++ [A]) [p] Plain) ps s in
  StI exp L accs ex s' /\ missing s' = missing s /\ deferred s' = deferred s /\ lineno s' = lineno s /\
  next_id s' = next_id s /\ in_fd s' = in_fd s /\ (forall x, has s' A x = true <-> has s A x = true \/ In x ps).
Proof.
  intros exp L accs ex A stk ps. induction ps as [|p ps IH]; intros s HS HA Hoff Hlt Hd Hns Hinc; cbn [fold_left].
  - split; [exact HS|]. split; [reflexivity|]. split; [reflexivity|]. split; [reflexivity|]. split; [reflexivity|]. split; [reflexivity|]. intro x. cbn [In]. tauto.
  - inversion Hns as [|? ? Hp Hns']; subst.
    rewrite store_false, top_snoc.
    destruct (store_off_stack exp L accs ex s A p HS HA Hoff Hlt Hd Hp (Hinc p (or_introl eq_refl)))
      as (S1 & Em & Ed & El & Enx & Efd & Hh).
    destruct (IH (set_in_scope s A [p] Plain) S1 HA Hoff) as (S2 & Em2 & Ed2 & El2 & Enx2 & Efd2 & Hh2).
    + rewrite Enx. exact Hlt.
    + exact Hd.
    + exact Hns'.
    + intros y Hy. apply Hinc. right. exact Hy.
    + split. exact S2. repeat split; try congruence.
      * intro H. apply Hh2 in H as [H|H]. rewrite Hh in H. apply orb_true_iff in H as [H|H]. apply N.eqb_eq in H. subst x. right; left; reflexivity.
        auto. right; right; exact H.
      * intros [H|[<-|H]]; apply Hh2. left. rewrite Hh, H. apply orb_true_r. left. rewrite Hh, N.eqb_refl. reflexivity. right. exact H.
Qed.

(* ---------- entering and leaving a function / lambda body ---------- *)
Lemma StI_with_fd_new : forall s b, SInv s -> SInv (snd (new_scope (with_fd s b) KNormal [])).
Proof.
  intros s b H. apply SInv_new. apply SInv_with_fd. exact H. intros k e []. intros r q Hq. cbn in Hq. congruence. reflexivity.
Qed.

Lemma enter_level : forall exp l L' acc accs ex s e tr A P own Bn F,
  StI exp (l :: L') (acc :: accs) ex s -> ExOK (l :: L') ex -> CtxI exp (l :: L') ->
  EnvI (l :: L') e (acc :: map l_B L') -> TrI exp s tr ->
  (forall i, In i ex -> i < next_id s) ->
  A < next_id s -> A <> delayed_id -> ~ In A (stack_of (l :: L')) -> ~ In A ex ->
  (forall x, In x (exp A) <-> In x P) ->
  (own = [] \/ exists nm, own = [nm] /\ nm <> n_star) -> incl own (l_B l) ->
  fk F = FFunction -> frame_static (mkL [A] (next_id s) P own Bn) F -> names_eq (fdyn F) (P ++ []) ->
  let B := next_id s in
  let lv := mkL [A] B P own Bn in
  let s1 := snd (new_scope (with_fd s true) KNormal []) in
  let s2 := match own with [] => s1 | nm :: _ => set_in_scope s1 B [nm] Plain end in
  let exp' := upd exp B (own ++ Bn) in
  StI exp' (lv :: l :: L') ([] :: acc :: accs) ex s2 /\ ExOK (lv :: l :: L') ex /\ CtxI exp' (lv :: l :: L') /\
  EnvI (lv :: l :: L') (F :: finalize e) ([] :: map l_B (l :: L')) /\ TrI exp' s2 tr /\
  ext (next_id s) exp exp' /\ lineno s2 = lineno s /\ next_id s2 = S (next_id s).
Proof.
  intros exp l L' acc accs ex s e tr A P own Bn F HS HX HC HE HT Hexlt HA HAd HAoff HAex HAexp Hown Hownin HFk HFs HFd.
  cbv zeta. set (B := next_id s). set (lv := mkL [A] B P own Bn).
  set (s1 := snd (new_scope (with_fd s true) KNormal [])).
  pose proof (st_sinv _ _ _ _ _ HS) as HI.
  assert (HI1 : SInv s1) by (apply StI_with_fd_new; exact HI).
  destruct (new_scope_fields (with_fd s true) []) as (_ & Enx & Em & Ed & Efd & Eln & _).
  fold s1 in Enx, Em, Ed, Efd, Eln. cbn [next_id missing deferred in_fd lineno with_fd] in Enx, Em, Ed, Efd, Eln. fold B in Enx.
  assert (Hsd1 : forall i, scope_dict s1 i = if Nat.eqb i B then [] else scope_dict s i).
  { intro i. unfold s1. rewrite scope_dict_new. reflexivity. apply (sv_fresh _ (SInv_with_fd s true HI)). }
  assert (Hhas1 : forall i x, has s1 i x = if Nat.eqb i B then false else has s i x).
  { intros i x. unfold has. rewrite Hsd1. destruct (Nat.eqb i B); reflexivity. }
  set (s2 := match own with [] => s1 | nm :: _ => set_in_scope s1 B [nm] Plain end).
  assert (Hs2f : missing s2 = missing s /\ deferred s2 = deferred s /\ lineno s2 = lineno s /\ next_id s2 = S B /\ in_fd s2 = true).
  { unfold s2. destruct own as [|nm ?]. auto.
    destruct (set_in_scope_fields s1 B [nm] Plain) as (E1 & E2 & E3 & E4 & E5 & _). repeat split; congruence. }
  destruct Hs2f as (Em2 & Ed2 & Eln2 & Enx2 & Efd2).
  assert (Hhas2 : forall i x, has s2 i x = if Nat.eqb i B then mem x own else has s i x).
  { intros i x. unfold s2. destruct Hown as [->|(nm & -> & Hnm)].
    - rewrite Hhas1. destruct (Nat.eqb i B); reflexivity.
    - rewrite has_set. rewrite Nat.eqb_sym. destruct (Nat.eqb i B) eqn:E.
      + rewrite Hhas1, Nat.eqb_refl. cbn. rewrite andb_true_r, !orb_false_r. reflexivity.
      + rewrite Hhas1, E. reflexivity. }
  assert (HI2 : SInv s2).
  { unfold s2. destruct Hown as [->|(nm & -> & Hnm)]. exact HI1.
    apply SInv_store; [exact HI1 | rewrite Enx; lia | pose proof (sv_next s HI) as Hn2; unfold delayed_id; fold B in Hn2; lia | left; auto]. }
  assert (Hlt : forall i, In i (stack_of (l :: L')) -> i < B /\ i <> delayed_id) by (intros i Hi; apply (st_ids _ _ _ _ _ HS); exact Hi).
  assert (Hstk : stack_of (lv :: l :: L') = stack_of (l :: L') ++ [A] ++ [B]) by (rewrite stack_of_cons; reflexivity).
  set (exp' := upd exp B (own ++ Bn)).
  assert (Hext : ext B exp exp') by (apply ext_upd; lia).
  assert (HexpB : exp' B = own ++ Bn) by (unfold exp', upd; rewrite Nat.eqb_refl; reflexivity).
  assert (HexpO : forall i, i <> B -> exp' i = exp i).
  { intros i Hi. unfold exp', upd. destruct (Nat.eqb i B) eqn:E; auto. apply Nat.eqb_eq in E. contradiction. }
  split.
  { constructor.
    - exact HI2.
    - rewrite Hstk. apply NoDup_app_inv' .
      + apply (st_nodup _ _ _ _ _ HS).
      + constructor. intros [E|[]]. fold B in HA. lia. constructor; auto. constructor.
      + intros x Hx [E|[E|[]]]; subst x. contradiction. destruct (Hlt _ Hx). lia.
    - intros i Hi. rewrite Enx2. rewrite Hstk in Hi. apply in_app_iff in Hi as [Hi|[<-|[<-|[]]]].
      + destruct (Hlt i Hi). split; [lia|assumption].
      + split; [fold B in HA; lia|exact HAd].
      + split; [lia|]. pose proof (sv_next s HI) as Hn2. unfold delayed_id. fold B in Hn2. lia.
    - intros i x. rewrite Hhas2. destruct (Nat.eqb i B) eqn:E.
      + apply Nat.eqb_eq in E. subst i. rewrite HexpB. intro H. apply mem_In in H. apply in_app_iff. auto.
      + apply Nat.eqb_neq in E. rewrite (HexpO i E). apply (st_sub _ _ _ _ _ HS).
    - intros i Hi Hnb Hne x. rewrite Hhas2. destruct (Nat.eqb i B) eqn:E.
      + exfalso. apply Nat.eqb_eq in E. apply Hnb. cbn. auto.
      + apply Nat.eqb_neq in E. rewrite (HexpO i E). apply (st_eq _ _ _ _ _ HS); auto.
        rewrite Enx2 in Hi. fold B. lia. intro Hb. apply Hnb. cbn. right. exact Hb.
    - constructor.
      + split. intro x. cbn [l_b lv l_own]. rewrite Hhas2, Nat.eqb_refl, app_nil_r. apply mem_In. intros y [].
      + eapply Forall2_top_other; [|apply (st_top _ _ _ _ _ HS)]. intros l0 H0 x. rewrite Hhas2.
        assert (Nat.eqb (l_b l0) B = false).
        { apply Nat.eqb_neq. destruct (Hlt (l_b l0)). apply in_stack_b. exact H0. lia. }
        rewrite H. reflexivity.
    - intros nm stk ln Hi i Hii. rewrite Enx2. rewrite Ed2 in Hi. pose proof (st_def _ _ _ _ _ HS _ _ _ Hi i Hii). fold B in H. lia.
    - rewrite Efd2. reflexivity. }
  split.
  { constructor. intros i Hi. rewrite Hstk. intro Hin. apply in_app_iff in Hin as [Hin|[<-|[<-|[]]]].
    - eapply (ex_off _ _ HX); eauto.
    - contradiction.
    - specialize (Hexlt _ Hi). fold B in Hexlt. lia. }
  assert (HC' : CtxI exp' (lv :: l :: L')).
  { pose proof (CtxI_ext exp exp' (l :: L') B Hext (fun i Hi => proj1 (Hlt i Hi)) HC) as [A1 B1 C1].
    constructor.
    - intros l0 [<-|H0] x. cbn [l_as lv l_P]. rewrite ebound_single, (HexpO A), mem_In. apply HAexp. fold B in HA. lia.
      apply A1. exact H0.
    - intros l0 [<-|H0] x. cbn [l_b lv l_own l_B]. rewrite HexpB. reflexivity. apply B1. exact H0.
    - split. exact Hownin. exact C1. }
  split. exact HC'.
  split.
  { pose proof (EnvI_finalize _ _ _ HE) as HEf. cbn [map] in HEf.
    destruct e as [|f0 e0]. destruct L'; contradiction.
    change (finalize (f0 :: e0)) with (mkFrame (fk f0) (flocals f0) (ffinal f0) (ffinal f0) :: finalize e0) in *.
    cbn [EnvI map]. split. exact HFk. split. exact HFs. split. exact HFd. split. intros y []. exact HEf. }
  split.
  { eapply TrI_same; [exact Em2|exact Ed2|]. eapply TrI_ext; [exact Hext| |exact HT].
    intros nm stk ln Hi i Hii. apply (st_def _ _ _ _ _ HS _ _ _ Hi i Hii). }
  split. exact Hext. split. exact Eln2. exact Enx2.
Qed.

Lemma leave_level : forall exp lv l L' accs acc ex s,
  StI exp (lv :: l :: L') (l_B lv :: acc :: accs) ex s -> CtxI exp (lv :: l :: L') ->
  let s' := with_fd s (negb (Nat.eqb (length (l :: L')) 1)) in
  StI exp (l :: L') (acc :: accs) ex s' /\ CtxI exp (l :: L').
Proof.
  intros exp lv l L' accs acc ex s HS HC. cbv zeta. split.
  - pose proof (st_top _ _ _ _ _ HS) as Ht. inversion Ht as [|? ? ? ? [Ht1 Ht2] Ht']; subst.
    pose proof (st_nodup _ _ _ _ _ HS) as Hnd. rewrite stack_of_cons in Hnd. apply NoDup_app_inv in Hnd as (Hnd1 & Hnd2 & Hdis).
    constructor.
    + apply SInv_with_fd. apply (st_sinv _ _ _ _ _ HS).
    + exact Hnd1.
    + intros i Hi. apply (st_ids _ _ _ _ _ HS). rewrite stack_of_cons. apply in_app_iff. auto.
    + apply (st_sub _ _ _ _ _ HS).
    + intros i Hi Hnb Hne x. change (has (with_fd s _) i x) with (has s i x).
      destruct (Nat.eq_dec i (l_b lv)) as [->|Hn].
      * rewrite Ht1. symmetry. apply (cx_b _ _ HC lv (or_introl eq_refl)).
      * apply (st_eq _ _ _ _ _ HS); auto. intros [E|E]; auto.
    + exact Ht'.
    + apply (st_def _ _ _ _ _ HS).
    + reflexivity.
  - destruct HC as [A B C]. constructor.
    + intros l0 H0. apply A. right. exact H0.
    + intros l0 H0. apply B. right. exact H0.
    + apply C.
Qed.

(* Entry points evaluated by the correspondence harness (harness/c05.py). *)
From Coq Require Import NArith List String Bool.
From Verif Require Import Base.Chars Base.Show Scope.PySyntax Scope.Finder Scope.PySem Scope.Fragment Scope.Check.
Import ListNotations.
Open Scope string_scope.

Definition show_dotted (d : dotted) : string := show_list show_N d.

(* find_missing_imports(src, namespaces): sorted distinct dotted names *)
Definition run_find_missing (bi : list name) (ns : list (list name)) (p : program) : string :=
  show_list show_dotted (find_missing bi ns p).

(* scan_for_import_issues(PythonBlock(src), find_unused_imports=True) *)
Definition run_scan (bi : list name) (p : program) : string :=
  let '(m, u) := scan_issues bi p in
  show_obj [("missing", show_list (fun x => show_pair show_nat show_dotted x) m);
            ("unused", show_list (fun x : nat * import =>
                                    "[" ++ show_nat (fst x) ++ "," ++ show_dotted (fst (snd x)) ++ ","
                                        ++ show_dotted (snd (snd x)) ++ "]") u)].

Definition show_res (r : res) : string :=
  match r with
  | Bound (BImp l i) => "[""imp""," ++ show_nat l ++ "," ++ show_dotted (fst i) ++ "," ++ show_dotted (snd i) ++ "]"
  | Bound BOther => "[""other""]"
  | Unbound => "[""unbound""]"
  | UnboundLocal => "[""unboundlocal""]"
  end.

(* PySem: the complete resolution trace (line, root name, result) *)
Definition run_pysem (bi : list name) (ns : list (list name)) (p : program) : string :=
  show_list (fun r : nat * name * res =>
               "[" ++ show_nat (fst (fst r)) ++ "," ++ show_N (snd (fst r)) ++ "," ++ show_res (snd r) ++ "]")
            (pysem bi ns p).

(* everything the harness compares, on one program *)
Definition show_scan (bi : list name) (p : program) : string :=
  let '(m, u) := scan_issues bi p in
  show_obj [("missing", show_list (fun x => show_pair show_nat show_dotted x) m);
            ("unused", show_list (fun x : nat * import =>
                                    "[" ++ show_nat (fst x) ++ "," ++ show_dotted (fst (snd x)) ++ ","
                                        ++ show_dotted (snd (snd x)) ++ "]") u)].
Definition show_scan_doc (bi : list name) (p : program) : string :=
  let '(m, u) := scan_issues_doc bi p in
  show_obj [("missing", show_list (fun x => show_pair show_nat show_dotted x) m);
            ("unused", show_list (fun x : nat * import =>
                                    "[" ++ show_nat (fst x) ++ "," ++ show_dotted (fst (snd x)) ++ ","
                                        ++ show_dotted (snd (snd x)) ++ "]") u)].
Definition run_all (bi : list name) (ns : list (list name)) (p : program) : string :=
  show_obj [("fm", show_list show_dotted (find_missing bi ns p));
            ("scan", show_scan bi p);
            ("scandoc", show_scan_doc bi p);
            ("stage", show_nat (stage_of p));
            ("star_free", show_bool (star_free bi ns));
            ("sound", show_bool (sound_b bi ns p));
            ("precise", show_bool (precise_b bi ns p));
            ("exact", show_bool (exact_b bi ns p));
            ("ustage", show_nat (ustage_of bi ns p));
            ("unused_ok", show_bool (unused_sound_b bi ns p));
            ("tstage", show_nat (tstage_of p));
            ("tsound", show_bool (tsound_b bi ns p));
            ("tprecise", show_bool (tprecise_b bi ns p));
            ("dx", show_bool (dx_docs p));
            ("unused_doc_ok", show_bool (unused_doc_sound_b bi ns p));
            ("trace", run_pysem bi ns p)].

(* M7 - decidable fragments of the mini-language used as hypotheses of the C05 / C02 theorems
   (the `in_fragment`-style predicates of DESIGN.md Appendix I).  Definitions only. *)
From Coq Require Import NArith List Bool.
From Verif Require Import Scope.PySyntax.
Import ListNotations.

Definition not_star (n : name) : bool := negb (N.eqb n n_star).

(* ---------- stage 1: module-level code without nested scopes ----------
   expressions: name / attribute loads and arbitrary operators over them;
   targets: names and tuples (no attribute target: `a.b = v` creates a dotted key in pyflyby's scope
   that hides whether `a` is bound - see the refuted statements in Properties/C05.v);
   statements: expression, assignment, `n += v`, import, from-import (no star), for (with else), while and
   if without else, with, try/finally (no handler), pass - exactly the shapes a *fully executed* program
   runs completely.  No def, class, lambda, comprehension, __all__. *)
Fixpoint s1_expr (e : expr) : bool :=
  match e with
  | ELoad _ _ => true
  | EOp es => (fix go (l : list expr) : bool := match l with [] => true | x :: r => s1_expr x && go r end) es
  | EAttr e _ => s1_expr e
  | _ => false
  end.

Fixpoint s1_target (t : target) : bool :=
  match t with
  | TName n => not_star n
  | TAttr _ _ => false
  | TTuple ts => (fix go (l : list target) : bool := match l with [] => true | x :: r => s1_target x && go r end) ts
  end.

Definition s1_import_item (it : dotted * option name) : bool :=
  match fst it with [] => false | r :: _ => not_star r end &&
  match snd it with Some a => not_star a | None => true end.
Definition s1_from_item (it : name * option name) : bool :=
  not_star (fst it) && match snd it with Some a => not_star a | None => true end.
Definition s1_with_item (it : expr * option target) : bool :=
  s1_expr (fst it) && match snd it with Some t => s1_target t | None => true end.
Definition is_nil {A} (l : list A) : bool := match l with [] => true | _ => false end.

Fixpoint s1_stmt (x : stmt) : bool :=
  let blk := fix blk (l : list stmt) : bool := match l with [] => true | y :: r => s1_stmt y && blk r end in
  match x with
  | SExpr _ e => s1_expr e
  | SAssign _ ts v => s1_expr v && forallb s1_target ts
  | SAugAssign _ n attrs v => is_nil attrs && not_star n && s1_expr v
  | SImport _ items => forallb s1_import_item items
  | SImportFrom _ _ items => forallb s1_from_item items
  | SFor _ t it b o => s1_target t && s1_expr it && blk b && blk o
  | SWhile _ t b o => s1_expr t && blk b && is_nil o
  | SIf _ t b o => s1_expr t && blk b && is_nil o
  | SWith _ items b => forallb s1_with_item items && blk b
  | STry _ b hs o f => blk b && is_nil hs && blk o && blk f
  | SPass _ => true
  | SAllAssign _ _ | SDef _ _ _ _ _ _ | SClass _ _ _ _ _ _ | SDoc _ _ _ => false
  end.
Definition s1_block (l : list stmt) : bool := forallb s1_stmt l.

(* the initial namespaces hold no "*" key (a dict with that key would make has_star_import true) *)
Definition star_free (bi : list name) (ns : list (list name)) : bool :=
  negb (mem n_star bi) && forallb (fun l => negb (mem n_star l)) ns.

(* the read occurrences of a stage-1 expression, in visit order *)
Fixpoint loads (e : expr) : list dotted :=
  match e with
  | ELoad n a => [n :: a]
  | EOp es => (fix go (l : list expr) : list dotted := match l with [] => [] | x :: r => loads x ++ go r end) es
  | EAttr e _ => loads e
  | _ => []
  end.

(* ---------- stage 1 for the unused side (C02): additionally every import binds a one-component key
   (no plain `import a.b`: F16 - reads through the package name do not mark the use-checker), and no
   `from __future__ import` (stored without a checker) ---------- *)
Definition u1_import_item (it : dotted * option name) : bool :=
  s1_import_item it && match snd it with Some _ => true | None => match fst it with [_] => true | _ => false end end.
Definition not_future (m : dotted) : bool := negb (dotted_eqb m [n_future]).

Fixpoint u1_stmt (x : stmt) : bool :=
  let blk := fix blk (l : list stmt) : bool := match l with [] => true | y :: r => u1_stmt y && blk r end in
  match x with
  | SExpr _ e => s1_expr e
  | SAssign _ ts v => s1_expr v && forallb s1_target ts
  | SAugAssign _ n attrs v => is_nil attrs && not_star n && s1_expr v
  | SImport _ items => forallb u1_import_item items
  | SImportFrom _ m items => not_future m && forallb s1_from_item items
  | SFor _ t it b o => s1_target t && s1_expr it && blk b && blk o
  | SWhile _ t b o => s1_expr t && blk b && is_nil o
  | SIf _ t b o => s1_expr t && blk b && is_nil o
  | SWith _ items b => forallb s1_with_item items && blk b
  | STry _ b hs o f => blk b && is_nil hs && blk o && blk f
  | SPass _ => true
  | SAllAssign _ _ | SDef _ _ _ _ _ _ | SClass _ _ _ _ _ _ | SDoc _ _ _ => false
  end.
Definition u1_block (l : list stmt) : bool := forallb u1_stmt l.

(* the import events of a binding list: (line, import) of every binding made by an import statement *)
Definition imp_events (l : list (name * bsrc)) : list (nat * import) :=
  flat_map (fun nb => match snd nb with BImp ln i => [(ln, i)] | BOther => [] end) l.

(* ---------- stage 2: stage 1 + function and lambda scopes (no class, no comprehension) ----------
   def with decorators, all parameter kinds, defaults, annotations, return annotation, nested defs, closures,
   lambdas with defaults; docstring / string statements without doctest example and {brace} identifier.
   Still only the shapes a fully executed program runs completely. *)
Fixpoint s2_expr (e : expr) : bool :=
  match e with
  | ELoad _ _ => true
  | EOp es => (fix go (l : list expr) : bool := match l with [] => true | x :: r => s2_expr x && go r end) es
  | EAttr e _ => s2_expr e
  | ELambda ps ds body =>
      forallb not_star ps &&
      (fix go (l : list expr) : bool := match l with [] => true | x :: r => s2_expr x && go r end) ds &&
      s2_expr body
  | EComp _ _ => false
  end.
Definition s2_oexpr (o : option expr) : bool := match o with Some e => s2_expr e | None => true end.
Definition s2_param (q : param) : bool := not_star (fst q) && s2_oexpr (snd q).
Definition s2_oparam (o : option param) : bool := match o with Some q => s2_param q | None => true end.
Definition s2_params (p : params) : bool :=
  forallb s2_param (p_posonly p) && forallb s2_param (p_args p) && s2_oparam (p_vararg p) &&
  forallb s2_param (p_kwonly p) && s2_oparam (p_kwarg p) &&
  forallb s2_expr (p_defaults p) && forallb s2_oexpr (p_kw_defaults p).
Definition s2_with_item (it : expr * option target) : bool :=
  s2_expr (fst it) && match snd it with Some t => s1_target t | None => true end.

Fixpoint s2_stmt (x : stmt) : bool :=
  let blk := fix blk (l : list stmt) : bool := match l with [] => true | y :: r => s2_stmt y && blk r end in
  match x with
  | SExpr _ e => s2_expr e
  | SAssign _ ts v => s2_expr v && forallb s1_target ts
  | SAugAssign _ n attrs v => is_nil attrs && not_star n && s2_expr v
  | SImport _ items => forallb s1_import_item items
  | SImportFrom _ _ items => forallb s1_from_item items
  | SDef _ nm decos ps ret body =>
      not_star nm && forallb (fun d : nat * expr => s2_expr (snd d)) decos && s2_params ps && s2_oexpr ret && blk body
  | SFor _ t it b o => s1_target t && s2_expr it && blk b && blk o
  | SWhile _ t b o => s2_expr t && blk b && is_nil o
  | SIf _ t b o => s2_expr t && blk b && is_nil o
  | SWith _ items b => forallb s2_with_item items && blk b
  | STry _ b hs o f => blk b && is_nil hs && blk o && blk f
  | SPass _ => true
  | SDoc _ _ _ => true       (* a docstring / string statement: nothing for `finder`; what its doctest examples may be is
                                [dx_docs] below (the theorems about finder_doc / pysem_doc ask for it) *)
  | SAllAssign _ _ | SClass _ _ _ _ _ _ => false
  end.
Definition s2_block (l : list stmt) : bool := forallb s2_stmt l.

(* ---------- stage 2 for the unused side (C02): stage-2 code whose import statements are top-level statements of the
   module (what tidy-imports edits), every import binding a one-component key, no `from __future__ import` ---------- *)
Fixpoint noimp_stmt (x : stmt) : bool :=
  let blk := fix blk (l : list stmt) : bool := match l with [] => true | y :: r => noimp_stmt y && blk r end in
  match x with
  | SImport _ _ | SImportFrom _ _ _ => false
  | SDef _ _ _ _ _ body => blk body
  | SClass _ _ _ _ _ body => blk body
  | SFor _ _ _ b o => blk b && blk o
  | SWhile _ _ b o => blk b && blk o
  | SIf _ _ b o => blk b && blk o
  | SWith _ _ b => blk b
  | STry _ b hs o f =>
      blk b && (fix hl (l : list handler) : bool := match l with [] => true | Handler _ _ _ hb :: r => blk hb && hl r end) hs
      && blk o && blk f
  | _ => true
  end.
Definition u2_top (x : stmt) : bool :=
  match x with
  | SImport _ items => forallb u1_import_item items
  | SImportFrom _ m items => not_future m && forallb s1_from_item items
  | _ => s2_stmt x && noimp_stmt x
  end.
Definition u2_block (l : list stmt) : bool := forallb u2_top l.

(* every name bound by an import is bound exactly once at module level, and is not a builtin / initial-namespace name:
   the binding a function body sees when it runs is the one pyflyby sees when it scans the body (F34, F31 otherwise) *)
Fixpoint count_name (x : name) (l : list name) : nat :=
  match l with [] => 0 | y :: r => (if N.eqb x y then 1 else 0) + count_name x r end.
Definition imports_once (bi : list name) (ns : list (list name)) (p : program) : bool :=
  let bs := bsrcs_block false p in
  forallb (fun xb : name * bsrc =>
             match snd xb with
             | BImp _ _ => Nat.eqb (count_name (fst xb) (map fst bs)) 1 && negb (mem (fst xb) (bi ++ concat ns))
             | BOther => true
             end) bs.

(* ---------- stage 3: stage 2 + comprehensions ----------
   A comprehension may stand wherever an expression may (also in a lambda body, a default, a decorator ...), nested to
   any depth.  Inside a comprehension there is no lambda (c3_expr), and the iterable of its first generator contains no
   nested scope at all (s1_expr): pyflyby visits that iterable inside the comprehension's scope although Python evaluates
   it in the enclosing one - harmless for the reads made directly there (the scope is still empty), wrong for deferred
   ones (F10-firstiter). *)
Fixpoint c3_expr (e : expr) {struct e} : bool :=
  match e with
  | ELoad _ _ => true
  | EOp es => (fix go (l : list expr) : bool := match l with [] => true | x :: r => c3_expr x && go r end) es
  | EAttr e _ => c3_expr e
  | ELambda _ _ _ => false
  | EComp gens elts =>
      (fix go (l : list gen) (first : bool) : bool :=
         match l with [] => true | g :: r => c3_gen first g && go r false end) gens true &&
      (fix go (l : list expr) : bool := match l with [] => true | x :: r => c3_expr x && go r end) elts
  end
with c3_gen (first : bool) (g : gen) {struct g} : bool :=
  match g with
  | Gen iter tgt ifs =>
      (if first then s1_expr iter else c3_expr iter) && s1_target tgt &&
      (fix go (l : list expr) : bool := match l with [] => true | x :: r => c3_expr x && go r end) ifs
  end.

Fixpoint s3_expr (e : expr) : bool :=
  match e with
  | ELoad _ _ => true
  | EOp es => (fix go (l : list expr) : bool := match l with [] => true | x :: r => s3_expr x && go r end) es
  | EAttr e _ => s3_expr e
  | ELambda ps ds body =>
      forallb not_star ps &&
      (fix go (l : list expr) : bool := match l with [] => true | x :: r => s3_expr x && go r end) ds &&
      s3_expr body
  | EComp gens elts => c3_expr (EComp gens elts)
  end.
Definition s3_oexpr (o : option expr) : bool := match o with Some e => s3_expr e | None => true end.
Definition s3_param (q : param) : bool := not_star (fst q) && s3_oexpr (snd q).
Definition s3_oparam (o : option param) : bool := match o with Some q => s3_param q | None => true end.
Definition s3_params (p : params) : bool :=
  forallb s3_param (p_posonly p) && forallb s3_param (p_args p) && s3_oparam (p_vararg p) &&
  forallb s3_param (p_kwonly p) && s3_oparam (p_kwarg p) &&
  forallb s3_expr (p_defaults p) && forallb s3_oexpr (p_kw_defaults p).
Definition s3_with_item (it : expr * option target) : bool :=
  s3_expr (fst it) && match snd it with Some t => s1_target t | None => true end.

Fixpoint s3_stmt (x : stmt) : bool :=
  let blk := fix blk (l : list stmt) : bool := match l with [] => true | y :: r => s3_stmt y && blk r end in
  match x with
  | SExpr _ e => s3_expr e
  | SAssign _ ts v => s3_expr v && forallb s1_target ts
  | SAugAssign _ n attrs v => is_nil attrs && not_star n && s3_expr v
  | SImport _ items => forallb s1_import_item items
  | SImportFrom _ _ items => forallb s1_from_item items
  | SDef _ nm decos ps ret body =>
      not_star nm && forallb (fun d : nat * expr => s3_expr (snd d)) decos && s3_params ps && s3_oexpr ret && blk body
  | SFor _ t it b o => s1_target t && s3_expr it && blk b && blk o
  | SWhile _ t b o => s3_expr t && blk b && is_nil o
  | SIf _ t b o => s3_expr t && blk b && is_nil o
  | SWith _ items b => forallb s3_with_item items && blk b
  | STry _ b hs o f => blk b && is_nil hs && blk o && blk f
  | SPass _ => true
  | SDoc _ _ _ => true
  | SAllAssign _ _ | SClass _ _ _ _ _ _ => false
  end.
Definition s3_block (l : list stmt) : bool := forallb s3_stmt l.

(* stage 3 of the unused side: u2 with stage-3 statements (comprehensions) *)
Definition u3_top (x : stmt) : bool :=
  match x with
  | SImport _ items => forallb u1_import_item items
  | SImportFrom _ m items => not_future m && forallb s1_from_item items
  | _ => s3_stmt x && noimp_stmt x
  end.
Definition u3_block (l : list stmt) : bool := forallb u3_top l.

(* ---------- doctest examples (scan_for_import_issues(parse_docstrings=True), what tidy-imports runs) ----------
   Every doctest example of every docstring of the program is an expression statement made of loads, attribute
   accesses and operators / calls, or an assignment of such an expression to names / tuples of names (no nested scope).  {brace} identifiers are not restricted. *)
Definition dx_stmt (x : stmt) : bool :=
  match x with
  | SExpr _ e => s1_expr e
  | SAssign _ ts v => s1_expr v && forallb s1_target ts      (* `name = expr`, `a, b = expr`: stored in the example's own scope *)
  | _ => false
  end.
Definition dx_doc (d : docstring) : bool := forallb dx_stmt (fst d).
Definition dx_docs (p : program) : bool := forallb dx_doc (docstrings_of p).

(* ---------- imports anywhere, but of the simple kind (the erasure argument of Stage2Erase needs only this) ---------- *)
(* every import statement inside binds one-component keys and is not a __future__ import *)
Fixpoint ui_stmt (x : stmt) : bool :=
  let blk := fix blk (l : list stmt) : bool := match l with [] => true | y :: r => ui_stmt y && blk r end in
  match x with
  | SImport _ items => forallb u1_import_item items
  | SImportFrom _ m items => not_future m && forallb s1_from_item items
  | SDef _ _ _ _ _ body => blk body
  | SClass _ _ _ _ _ body => blk body
  | SFor _ _ _ b o => blk b && blk o
  | SWhile _ _ b o => blk b && blk o
  | SIf _ _ b o => blk b && blk o
  | SWith _ _ b => blk b
  | STry _ b hs o f =>
      blk b && (fix hl (l : list handler) : bool := match l with [] => true | Handler _ _ _ hb :: r => blk hb && hl r end) hs
      && blk o && blk f
  | _ => true
  end.
Definition ui_block (l : list stmt) : bool := forallb ui_stmt l.

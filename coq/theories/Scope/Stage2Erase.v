(* M7, stage 2, unused side - erasure: the run of the visitor with use-checker tracking on, with every scope entry
   replaced by None and the checker / unused lists dropped, IS the run with tracking off (on the fragment: one-component
   import keys, no attribute target).  So every structural fact proved for the tracking-off run (Stage2*.v) holds of the
   erased tracking-on state. *)
From Coq Require Import NArith List Bool Arith Lia.
From Verif Require Import Scope.PySyntax Scope.Finder Scope.PySem Scope.Fragment Scope.AuxProofs Scope.FinderProofs
                          Scope.Stage2Base Scope.Stage2Proofs Scope.Stage2Stmt.
Import ListNotations.

Definition erd (d : dict) : dict := map (fun kv : dotted * entry => (fst kv, Plain)) d.
Definition ers (l : list (nat * (skind * dict))) : list (nat * (skind * dict)) :=
  map (fun x : nat * (skind * dict) => (fst x, (fst (snd x), erd (snd (snd x))))) l.
Definition er (s : st) : st :=
  mkSt (ers (scopes s)) (next_id s) [] (missing s) [] (deferred s) (in_fd s) (in_cd s) (lineno s).

Lemma get_scope_ers : forall l i, get_scope (ers l) i = (fst (get_scope l i), erd (snd (get_scope l i))).
Proof.
  induction l as [|[j [k d]] l IH]; intro i; cbn. reflexivity. destruct (Nat.eqb i j). reflexivity. apply IH.
Qed.
Lemma scope_dict_er : forall s i, scope_dict (er s) i = erd (scope_dict s i).
Proof. intros. unfold scope_dict, er. cbn [scopes]. rewrite get_scope_ers. reflexivity. Qed.
Lemma scope_is_class_er : forall s i, scope_is_class (er s) i = scope_is_class s i.
Proof. intros. unfold scope_is_class, er. cbn [scopes]. rewrite get_scope_ers. reflexivity. Qed.
Lemma dict_get_erd : forall d k, dict_get (erd d) k = match dict_get d k with Some _ => Some Plain | None => None end.
Proof. induction d as [|[k' v] d IH]; intro k; cbn. reflexivity. destruct (dotted_eqb k k'). reflexivity. apply IH. Qed.
Lemma dict_has_erd : forall d k, dict_has (erd d) k = dict_has d k.
Proof. intros. unfold dict_has. rewrite dict_get_erd. destruct (dict_get d k); reflexivity. Qed.
Lemma dict_set_erd : forall d k v, dict_set (erd d) k Plain = erd (dict_set d k v).
Proof. induction d as [|[k' v'] d IH]; intros k v; cbn. reflexivity. destruct (dotted_eqb k k'); cbn. reflexivity. rewrite IH with (v := v). reflexivity. Qed.
Lemma set_scope_ers : forall l i c d, set_scope (ers l) i (c, erd d) = ers (set_scope l i (c, d)).
Proof. induction l as [|[j w] l IH]; intros i c d; cbn. reflexivity. destruct (Nat.eqb i j); cbn. reflexivity. rewrite IH. reflexivity. Qed.
Lemma first_present_erd : forall d ps,
  first_present (erd d) ps = match first_present d ps with Some _ => Some Plain | None => None end.
Proof.
  intros d ps. induction ps as [|p ps IH]; cbn. reflexivity. rewrite dict_get_erd. destruct (dict_get d p). reflexivity. exact IH.
Qed.

Lemma er_set_in_scope : forall s i k v, er (set_in_scope s i k v) = set_in_scope (er s) i k Plain.
Proof.
  intros. unfold set_in_scope. cbn [scopes er]. rewrite get_scope_ers. destruct (get_scope (scopes s) i) as [c d]. cbn [fst snd].
  unfold er, with_scopes. cbn. rewrite <- set_scope_ers, <- dict_set_erd with (v := v). reflexivity.
Qed.

Lemma er_mark : forall s c, er (mark_used s c) = er s.
Proof. reflexivity. Qed.
Lemma er_marks : forall cs s, er (fold_left mark_used cs s) = er s.
Proof. induction cs as [|c cs IH]; intro s; cbn. reflexivity. rewrite IH. reflexivity. Qed.

Lemma needs_stack_er : forall ps r s,
  fst (needs_stack (er s) r ps) = fst (needs_stack s r ps) /\ snd (needs_stack (er s) r ps) = er s /\
  er (snd (needs_stack s r ps)) = er s.
Proof.
  intros ps r. induction r as [|i r IH]; intro s; cbn [needs_stack]. auto.
  rewrite scope_dict_er, first_present_erd.
  destruct (first_present (scope_dict s i) ps) as [[|c|cs]|]; cbn [fst snd]; auto using er_marks.
Qed.
Lemma needs_er : forall s stk n,
  fst (needs (er s) stk n) = fst (needs s stk n) /\ snd (needs (er s) stk n) = er s /\ er (snd (needs s stk n)) = er s.
Proof. intros. unfold needs. apply needs_stack_er. Qed.

Lemma has_star_er : forall s stk, has_star (er s) stk = has_star s stk.
Proof.
  intros. unfold has_star. induction stk as [|i stk IH]; cbn. reflexivity. rewrite scope_dict_er, dict_has_erd, IH. reflexivity.
Qed.
Lemma has_star_same_scopes : forall s s' stk, scopes s' = scopes s -> has_star s' stk = has_star s stk.
Proof. intros s s' stk H. unfold has_star, scope_dict. rewrite H. reflexivity. Qed.

Lemma er_add_missing : forall s cur ln n, er (add_missing s cur ln n) = add_missing (er s) cur ln n.
Proof.
  intros. unfold add_missing. cbn [missing er]. destruct (existsb (same_missing ln n) (missing s)). reflexivity.
  rewrite scope_is_class_er. reflexivity.
Qed.

Lemma er_new_scope : forall s k d,
  fst (new_scope (er s) k (erd d)) = fst (new_scope s k d) /\ snd (new_scope (er s) k (erd d)) = er (snd (new_scope s k d)).
Proof.
  intros. unfold new_scope. cbn [fst snd next_id er]. split. reflexivity.
  unfold er, with_next, with_scopes. cbn. unfold ers. rewrite map_app. reflexivity.
Qed.

Lemma remove_id_same : forall i l, remove_id i l = remove_id i l. Proof. reflexivity. Qed.

Lemma er_push : forall s stk ic nc u,
  push (er s) stk ic nc u = (fst (push s stk ic nc u), er (snd (push s stk ic nc u))).
Proof.
  intros. unfold push.
  assert (E1 : filter (fun i => negb (scope_is_class (er s) i)) stk = filter (fun i => negb (scope_is_class s i)) stk).
  { apply filter_ext. intro i. rewrite scope_is_class_er. reflexivity. }
  rewrite E1. rewrite scope_dict_er.
  assert (E2 : match erd (scope_dict s delayed_id) with [] => true | _ => false end =
               match scope_dict s delayed_id with [] => true | _ => false end) by (destruct (scope_dict s delayed_id); reflexivity).
  rewrite E2.
  destruct (er_new_scope s (if nc then KClass else KNormal) []) as [F1 F2]. cbn [erd map] in F1, F2.
  destruct (new_scope (er s) (if nc then KClass else KNormal) []) as [i s1].
  destruct (new_scope s (if nc then KClass else KNormal) []) as [i' s1']. cbn [fst snd] in *. subst. reflexivity.
Qed.

Lemma er_clone_top : forall s stk,
  clone_top (er s) stk = (fst (clone_top s stk), er (snd (clone_top s stk))).
Proof.
  intros. unfold clone_top. cbn [scopes er]. rewrite get_scope_ers. destruct (get_scope (scopes s) (top stk)) as [c d]. cbn [fst snd].
  destruct (er_new_scope s KClone d) as [F1 F2].
  destruct (new_scope (er s) KClone (erd d)) as [i s1]. destruct (new_scope s KClone d) as [i' s1']. cbn [fst snd] in *. subst. reflexivity.
Qed.

Lemma report_unused_shape : forall d s, exists u, report_unused_of s d = with_unused s u.
Proof.
  induction d as [|[k v] d IH]; intro s; unfold report_unused_of in *; cbn [fold_left snd].
  - exists (unused s). destruct s; reflexivity.
  - destruct v as [|c|cs]; try apply IH.
    destruct (c_used (checker_at s c)). apply IH.
    destruct (IH (with_unused s (unused s ++ [(c_line (checker_at s c), c_imp (checker_at s c))]))) as (u & E).
    exists u. rewrite E. reflexivity.
Qed.
Lemma er_with_unused : forall s u, er (with_unused s u) = er s.
Proof. reflexivity. Qed.
Lemma er_pop : forall s i, er (pop s i) = er s.
Proof. reflexivity. Qed.
Lemma erd_raw : forall d k e, In (k, e) (erd d) -> e = Plain.
Proof. intros d k e H. unfold erd in H. apply in_map_iff in H as (x & E & _). congruence. Qed.
Lemma pop_er : forall s i, pop (er s) i = er s.
Proof. reflexivity. Qed.

Lemma er_check_load : forall s cur stk n ln, er (check_load s cur stk n ln) = check_load (er s) cur stk n ln.
Proof.
  intros. unfold check_load. destruct (needs_er s stk n) as (F1 & F2 & F3).
  destruct (needs (er s) stk n) as [b1 s1]. destruct (needs s stk n) as [b s'] eqn:E. cbn [fst snd] in *. subst b1 s1.
  rewrite has_star_er.
  assert (Hs : has_star s' stk = has_star s stk).
  { rewrite <- (has_star_er s'), F3, has_star_er. reflexivity. }
  rewrite Hs. destruct (b && negb (has_star s stk)). rewrite er_add_missing, F3. reflexivity. exact F3.
Qed.

Lemma er_defer_load : forall s stk n, er (defer_load s stk n) = defer_load (er s) stk n.
Proof.
  intros. unfold defer_load. destruct (needs_er s stk n) as (F1 & F2 & F3).
  destruct (needs (er s) stk n) as [b1 s1]. destruct (needs s stk n) as [b s'] eqn:E. cbn [fst snd] in *. subst b1 s1.
  destruct b; [|exact F3].
  rewrite <- F3. rewrite er_clone_top. destruct (clone_top s' stk) as [stk' s2]. cbn [fst snd]. reflexivity.
Qed.

Lemma er_load : forall s stk n, er (load s stk n) = load (er s) stk n.
Proof.
  intros. unfold load. cbn [in_fd er]. destruct (in_fd s).
  - rewrite !er_defer_load. reflexivity.
  - rewrite er_check_load. reflexivity.
Qed.

Lemma proper_prefixes_single : forall n, proper_prefixes [n] = [].
Proof. reflexivity. Qed.

Lemma er_store_name : forall s stk n v, er (store true s stk [n] v) = store false (er s) stk [n] Plain.
Proof.
  intros. unfold store. rewrite proper_prefixes_single. cbn [fold_left].
  destruct (dict_get (scope_dict s (top stk)) [n]) as [[|c|cs]|]; try apply er_set_in_scope.
  destruct (c_used (checker_at s c)). apply er_set_in_scope. rewrite er_set_in_scope. reflexivity.
Qed.

Lemma er_with_ln : forall s l, er (with_ln s l) = with_ln (er s) l. Proof. reflexivity. Qed.
Lemma er_with_fd : forall s b, er (with_fd s b) = with_fd (er s) b. Proof. reflexivity. Qed.
Lemma er_with_checkers : forall s c, er (with_checkers s c) = er s. Proof. reflexivity. Qed.

(* ---------- imports binding a one-component key ---------- *)
Lemma er_import_item : forall s stk it, u1_import_item it = true ->
  er (store_import true s stk (fst it) (snd it) None) = store_import false (er s) stk (fst it) (snd it) None.
Proof.
  intros s stk [aname asname] H. unfold u1_import_item, s1_import_item in H. cbn [fst snd] in *.
  apply andb_true_iff in H as [H12 H3]. apply andb_true_iff in H12 as [H1 H2].
  destruct aname as [|r rest]; try discriminate. apply not_star_neq in H1.
  assert (Estar : dotted_eqb (r :: rest) [n_star] = false).
  { apply dotted_eqb_neq. intro E. injection E as E _. contradiction. }
  unfold store_import. cbn [negb orb]. rewrite Estar. cbn [orb].
  destruct asname as [a|].
  - cbn [map fold_left combine]. rewrite er_store_name. reflexivity.
  - destruct rest as [|x rest']; try discriminate. cbn [proper_prefixes prefixes prefixes_from app removelast map fold_left combine].
    rewrite er_store_name. reflexivity.
Qed.

Lemma er_from_item : forall s stk m it, not_future m = true -> s1_from_item it = true ->
  er (store_import true s stk [fst it] (snd it) (Some m)) = store_import false (er s) stk [fst it] (snd it) (Some m).
Proof.
  intros s stk m [nm asname] Hm H. unfold s1_from_item in H. cbn [fst snd] in *. apply andb_true_iff in H as [H1 H2].
  apply not_star_neq in H1. assert (E : N.eqb nm n_star = false) by (apply N.eqb_neq; exact H1).
  unfold not_future in Hm. apply negb_true_iff in Hm.
  unfold store_import. cbn [negb orb dotted_eqb]. rewrite E, Hm. cbn [andb orb].
  destruct asname as [a|]; cbn [proper_prefixes prefixes prefixes_from app removelast map fold_left combine]; rewrite er_store_name; reflexivity.
Qed.

(* ---------- targets, expressions ---------- *)
Lemma er_vtarget : forall t, s1_target t = true -> forall stk s, er (vtarget true t stk s) = vtarget false t stk (er s).
Proof.
  intro t. induction t using target_ind'; cbn [s1_target vtarget]; intros Hs stk s; try discriminate.
  - apply er_store_name.
  - revert s. induction H as [|x ts Hx Hts IH]; intro s. reflexivity.
    apply andb_true_iff in Hs as [H1 H2]. rewrite <- (Hx H1). apply IH. exact H2.
Qed.

Definition EE (x : expr) : Prop := s2_expr x = true -> forall stk s, er (vexpr true x stk s) = vexpr false x stk (er s).

Lemma er_vexpr_list : forall es, Forall EE es -> forallb s2_expr es = true ->
  forall stk s, er (vexpr_list true es stk s) = vexpr_list false es stk (er s).
Proof.
  intros es HF. induction HF as [|x es Hx HF IH]; intros Hs stk s. reflexivity.
  cbn in Hs. apply andb_true_iff in Hs as [H1 H2]. unfold vexpr_list in *. cbn [fold_left]. rewrite IH by exact H2.
  rewrite (Hx H1). reflexivity.
Qed.

Lemma vgo_eq_t : forall track stk l s,
  (fix go (l : list expr) (s : st) : st := match l with [] => s | x :: r => go r (vexpr track x stk s) end) l s
  = vexpr_list track l stk s.
Proof. intros track stk l. induction l as [|x l IH]; intro s. reflexivity. unfold vexpr_list. cbn [fold_left]. apply IH. Qed.

Lemma vexpr_lambda_eq_t : forall track ps ds body stk s,
  vexpr track (ELambda ps ds body) stk s =
  (let '(stkA, s1) := push s stk true false false in
   let s2 := vexpr_list track ds (removelast stkA) s1 in
   let s3 := fold_left (fun s p => store track s stkA [p] Plain) ps s2 in
   let fd := in_fd s3 in
   let '(stkB, s4) := push (with_fd s3 true) stkA false false false in
   let s5 := vexpr track body stkB s4 in
   let s6 := with_fd (pop s5 (top stkB)) fd in
   pop s6 (top stkA)).
Proof. intros. cbn [vexpr]. destruct (push s stk true false false) as [stkA s1]. rewrite vgo_eq_t. reflexivity. Qed.

Lemma er_store_names : forall stk ps s,
  er (fold_left (fun s p => store true s stk [p] Plain) ps s) = fold_left (fun s p => store false s stk [p] Plain) ps (er s).
Proof. intros stk ps. induction ps as [|p ps IH]; intro s; cbn [fold_left]. reflexivity. rewrite IH, er_store_name. reflexivity. Qed.

Lemma in_fd_er : forall s, in_fd (er s) = in_fd s. Proof. reflexivity. Qed.

Lemma er_vexpr : forall x, EE x.
Proof.
  intro x. induction x using expr_ind' with (Q := fun _ => True); try exact I; unfold EE; intros Hs stk s.
  - cbn [vexpr]. apply er_load.
  - cbn [vexpr s2_expr] in *. rewrite !vgo_eq_t. rewrite s2go_eq in Hs. apply er_vexpr_list; auto.
  - cbn [vexpr s2_expr] in *. apply IHx. exact Hs.
  - cbn [s2_expr] in Hs. rewrite s2go_eq in Hs. apply andb_true_iff in Hs as [Hs Hbody]. apply andb_true_iff in Hs as [Hps Hds].
    rewrite !vexpr_lambda_eq_t. rewrite er_push. destruct (push s stk true false false) as [stkA s1]. cbn [fst snd].
    cbv zeta. rewrite <- (er_vexpr_list ds H Hds). rewrite <- er_store_names.
    set (s3 := fold_left (fun s p => store true s stkA [p] Plain) ps (vexpr_list true ds (removelast stkA) s1)).
    rewrite in_fd_er. rewrite <- er_with_fd. rewrite er_push.
    destruct (push (with_fd s3 true) stkA false false false) as [stkB s4]. cbn [fst snd].
    rewrite <- (IHx Hbody). rewrite pop_er. rewrite <- er_with_fd. rewrite pop_er.
    rewrite er_pop, er_with_fd, er_pop, <- er_with_fd. reflexivity.
  - cbn in Hs. discriminate.
Qed.

(* ---------- statements ---------- *)
Lemma ui_blk_fix : forall l,
  (fix blk (l : list stmt) : bool := match l with [] => true | y :: r => ui_stmt y && blk r end) l = ui_block l.
Proof. reflexivity. Qed.
Lemma noimp_blk_fix : forall l,
  (fix blk (l : list stmt) : bool := match l with [] => true | y :: r => noimp_stmt y && blk r end) l = forallb noimp_stmt l.
Proof. reflexivity. Qed.

Lemma noimp_ui_block : forall l, Forall (fun x => noimp_stmt x = true -> ui_stmt x = true) l ->
  forallb noimp_stmt l = true -> ui_block l = true.
Proof.
  induction l as [|x l IH]; intros HF H. reflexivity. inversion HF as [|? ? Hx HF']; subst. cbn in H. apply andb_true_iff in H as [H1 H2].
  unfold ui_block. cbn. rewrite Hx by exact H1. apply IH; auto.
Qed.
Lemma noimp_ui : forall x, noimp_stmt x = true -> ui_stmt x = true.
Proof.
  induction x using stmt_ind'; intro Hn; try reflexivity; try discriminate; cbn [noimp_stmt ui_stmt] in *;
    rewrite ?noimp_blk_fix, ?ui_blk_fix in *.
  - apply noimp_ui_block; auto.
  - apply noimp_ui_block; auto.
  - apply andb_true_iff in Hn as [A B]. apply andb_true_iff; split; apply noimp_ui_block; auto.
  - apply andb_true_iff in Hn as [A B]. apply andb_true_iff; split; apply noimp_ui_block; auto.
  - apply andb_true_iff in Hn as [A B]. apply andb_true_iff; split; apply noimp_ui_block; auto.
  - apply noimp_ui_block; auto.
  - apply andb_true_iff in Hn as [Hn D]. apply andb_true_iff in Hn as [Hn C]. apply andb_true_iff in Hn as [A B].
    apply andb_true_iff; split; [|apply noimp_ui_block; auto].
    apply andb_true_iff; split; [|apply noimp_ui_block; auto].
    apply andb_true_iff; split; [apply noimp_ui_block; auto|].
    clear - B H0. induction H0 as [|[hl ty nm hb] hs Hh HF IH]. reflexivity.
    apply andb_true_iff in B as [B1 B2]. rewrite noimp_blk_fix in B1. rewrite ui_blk_fix.
    rewrite (noimp_ui_block hb Hh B1). cbn [andb]. apply IH. exact B2.
Qed.

Lemma u1_s1_items : forall items, forallb u1_import_item items = true -> forallb s1_import_item items = true.
Proof.
  induction items as [|it items IH]; cbn; intro H. reflexivity. apply andb_true_iff in H as [H1 H2].
  unfold u1_import_item in H1. apply andb_true_iff in H1 as [H1 _]. rewrite H1. cbn. auto.
Qed.
Lemma u2_top_split : forall x, u2_top x = true -> s2_stmt x = true /\ ui_stmt x = true.
Proof.
  intros x H. destruct x; cbn [u2_top] in H; try (apply andb_true_iff in H as [H1 H2]; split; [exact H1 | apply noimp_ui; exact H2]).
  - split. cbn. apply u1_s1_items. exact H. exact H.
  - split. cbn. apply andb_true_iff in H as [_ H]. exact H. exact H.
Qed.

Lemma vstmt_def_eq_t : forall track ln nm decos ps ret body stk s,
  vstmt track (SDef ln nm decos ps ret body) stk s =
  (let s0 := vdecos track decos stk (with_ln s ln) in
   let '(stkA, s1) := push s0 stk true false false in
   let s3 := if Nat.ltb 0 (in_cd s1) then set_in_scope s1 (top stkA) [n_class] Plain else s1 in
   let s4 := varguments track ps stkA (with_ln s3 ln) in
   let s5 := voexpr track ret (removelast stkA) s4 in
   let fd := in_fd s5 in
   let '(stkB, s6) := push (with_fd s5 true) stkA false false true in
   let s7 := if Nat.eqb (in_cd s6) 0 then store track s6 stkB [nm] Plain else s6 in
   let s8 := vblock track body stkB s7 in
   let s9 := with_fd (pop s8 (top stkB)) fd in
   let s10 := pop s9 (top stkA) in
   store track s10 stk [nm] Plain).
Proof.
  intros. cbn [vstmt]. cbv zeta. destruct (push (vdecos track decos stk (with_ln s ln)) stk true false false) as [stkA s1].
  match goal with |- context [push ?a ?b false false true] => destruct (push a b false false true) as [stkB s6] end.
  rewrite vblock_fix. reflexivity.
Qed.

Lemma voexprs_eq_t : forall track stk l s,
  fold_left (fun s o => voexpr track o stk s) l s = vexpr_list track (optl l) stk s.
Proof.
  intros track stk l. induction l as [|[x|] l IH]; intro s; cbn [fold_left optl flat_map app voexpr].
  - reflexivity.
  - unfold vexpr_list in *. cbn [fold_left]. apply IH.
  - apply IH.
Qed.
Lemma varguments_eq_t : forall track p stkA s,
  varguments track p stkA s =
  fold_left (fun s n => store track s stkA [n] Plain) (pnames_finder p) (vexpr_list track (hdr_finder p) (removelast stkA) s).
Proof.
  intros. unfold varguments, hdr_finder, pnames_finder. cbv zeta. rewrite voexprs_eq_t.
  unfold vexprs, vexpr_list. rewrite !fold_left_app. reflexivity.
Qed.

Lemma all_EE : forall es, Forall EE es.
Proof. intro es. apply Forall_forall. intros x _. apply er_vexpr. Qed.

Lemma er_vdecos : forall decos, forallb (fun d : nat * expr => s2_expr (snd d)) decos = true ->
  forall stk s, er (vdecos true decos stk s) = vdecos false decos stk (er s).
Proof.
  induction decos as [|[dl d] decos IH]; intros Hs stk s. reflexivity.
  cbn in Hs. apply andb_true_iff in Hs as [H1 H2]. unfold vdecos in *. cbn [fold_left fst snd].
  rewrite IH by exact H2. rewrite (er_vexpr d H1). reflexivity.
Qed.

Lemma in_cd_er : forall s, in_cd (er s) = in_cd s. Proof. reflexivity. Qed.

Definition ES (x : stmt) : Prop := s2_stmt x = true -> ui_stmt x = true ->
  forall stk s, er (vstmt true x stk s) = vstmt false x stk (er s).
Definition EB (b : list stmt) : Prop := s2_block b = true -> ui_block b = true ->
  forall stk s, er (vblock true b stk s) = vblock false b stk (er s).

Lemma er_block : forall b, Forall ES b -> EB b.
Proof.
  induction b as [|x b IH]; intros HF Hs Hu stk s. reflexivity.
  inversion HF as [|? ? Hx HF']; subst. cbn in Hs, Hu. apply andb_true_iff in Hs as [H1 H2]. apply andb_true_iff in Hu as [U1 U2].
  unfold EB, vblock in *. cbn [fold_left]. rewrite (IH HF' H2 U2). rewrite (Hx H1 U1). reflexivity.
Qed.

Lemma er_targets : forall ts, forallb s1_target ts = true -> forall stk s,
  er (fold_left (fun s t => vtarget true t stk s) ts s) = fold_left (fun s t => vtarget false t stk s) ts (er s).
Proof.
  induction ts as [|t ts IH]; intros Hs stk s. reflexivity. cbn in Hs. apply andb_true_iff in Hs as [H1 H2].
  cbn [fold_left]. rewrite IH by exact H2. rewrite er_vtarget by exact H1. reflexivity.
Qed.

Lemma er_with_items : forall items, forallb s2_with_item items = true -> forall stk s,
  er (fold_left (with_item_step true stk) items s) = fold_left (with_item_step false stk) items (er s).
Proof.
  induction items as [|[x ot] items IH]; intros Hs stk s. reflexivity. cbn in Hs. apply andb_true_iff in Hs as [H12 H3].
  unfold s2_with_item in H12. cbn [fst snd] in H12. apply andb_true_iff in H12 as [H1 H2].
  cbn [fold_left]. rewrite IH by exact H3. unfold with_item_step at 2 4. cbn [fst snd].
  destruct ot as [t|]. rewrite er_vtarget by exact H2. rewrite (er_vexpr x H1). reflexivity. rewrite (er_vexpr x H1). reflexivity.
Qed.

Lemma er_stmt : forall x, ES x.
Proof.
  induction x using stmt_ind'; try (intros Hs; discriminate); try rename e into e0; intros Hs Hu stk s.
  - cbn [vstmt s2_stmt] in *. rewrite (er_vexpr e0 Hs). reflexivity.
  - cbn [vstmt s2_stmt] in *. apply andb_true_iff in Hs as [H1 H2]. rewrite er_targets by exact H2. rewrite (er_vexpr v H1). reflexivity.
  - cbn [vstmt s2_stmt] in *. apply andb_true_iff in Hs as [H12 H3]. apply andb_true_iff in H12 as [H1 H2].
    apply is_nil_true in H1. subst a. rewrite er_store_name. rewrite (er_vexpr v H3). rewrite er_load. reflexivity.
  - cbn [vstmt ui_stmt] in *. rewrite <- er_with_ln. generalize (with_ln s ln). clear Hs.
    induction items as [|it items IH]; intro s0. reflexivity. cbn in Hu. apply andb_true_iff in Hu as [U1 U2].
    cbn [fold_left]. rewrite IH by exact U2. rewrite er_import_item by exact U1. reflexivity.
  - cbn [vstmt ui_stmt] in *. apply andb_true_iff in Hu as [Um Hu]. rewrite <- er_with_ln. generalize (with_ln s ln). clear Hs.
    induction items as [|it items IH]; intro s0. reflexivity. cbn in Hu. apply andb_true_iff in Hu as [U1 U2].
    cbn [fold_left]. rewrite IH by exact U2. rewrite er_from_item by assumption. reflexivity.
  - (* SDef *)
    cbn [s2_stmt ui_stmt] in Hs, Hu. rewrite s2_blk_fix in Hs. rewrite ui_blk_fix in Hu.
    apply andb_true_iff in Hs as [Hs Hbody]. apply andb_true_iff in Hs as [Hs Hret].
    apply andb_true_iff in Hs as [Hs Hps]. apply andb_true_iff in Hs as [Hnm Hdecos].
    destruct (s2_params_facts ps Hps) as [Hhdr _].
    rewrite !vstmt_def_eq_t. cbv zeta.
    rewrite <- er_with_ln, <- (er_vdecos decos Hdecos). rewrite er_push.
    destruct (push (vdecos true decos stk (with_ln s ln)) stk true false false) as [stkA s1]. cbn [fst snd].
    rewrite in_cd_er.
    assert (E3 : er (if Nat.ltb 0 (in_cd s1) then set_in_scope s1 (top stkA) [n_class] Plain else s1)
                 = if Nat.ltb 0 (in_cd s1) then set_in_scope (er s1) (top stkA) [n_class] Plain else er s1).
    { destruct (Nat.ltb 0 (in_cd s1)). apply er_set_in_scope. reflexivity. }
    rewrite <- E3. set (s3 := if Nat.ltb 0 (in_cd s1) then set_in_scope s1 (top stkA) [n_class] Plain else s1).
    rewrite <- er_with_ln. rewrite !varguments_eq_t. rewrite <- (er_vexpr_list (hdr_finder ps) (all_EE _) Hhdr).
    rewrite <- er_store_names.
    set (s4 := fold_left (fun s n => store true s stkA [n] Plain) (pnames_finder ps) (vexpr_list true (hdr_finder ps) (removelast stkA) (with_ln s3 ln))).
    assert (E5 : er (voexpr true ret (removelast stkA) s4) = voexpr false ret (removelast stkA) (er s4)).
    { destruct ret as [r|]; cbn [voexpr s2_oexpr] in *. apply (er_vexpr r Hret). reflexivity. }
    rewrite <- E5. set (s5 := voexpr true ret (removelast stkA) s4).
    rewrite in_fd_er, <- er_with_fd, er_push.
    destruct (push (with_fd s5 true) stkA false false true) as [stkB s6]. cbn [fst snd].
    rewrite in_cd_er.
    assert (E7 : er (if Nat.eqb (in_cd s6) 0 then store true s6 stkB [nm] Plain else s6)
                 = if Nat.eqb (in_cd s6) 0 then store false (er s6) stkB [nm] Plain else er s6).
    { destruct (Nat.eqb (in_cd s6) 0). apply er_store_name. reflexivity. }
    rewrite <- E7. set (s7 := if Nat.eqb (in_cd s6) 0 then store true s6 stkB [nm] Plain else s6).
    rewrite <- (er_block body H Hbody Hu). rewrite !pop_er. rewrite <- er_with_fd, pop_er.
    rewrite er_store_name. rewrite er_pop, er_with_fd, er_pop, <- er_with_fd. reflexivity.
  - (* SFor *)
    cbn [s2_stmt ui_stmt] in Hs, Hu. rewrite !s2_blk_fix in Hs. rewrite !ui_blk_fix in Hu.
    apply andb_true_iff in Hs as [H123 H4]. apply andb_true_iff in H123 as [H12 H3]. apply andb_true_iff in H12 as [H1 H2].
    apply andb_true_iff in Hu as [U1 U2].
    rewrite !vstmt_for. rewrite (er_block o H0 H4 U2), (er_block b H H3 U1). rewrite er_vtarget by exact H1.
    rewrite (er_vexpr it H2). reflexivity.
  - (* SWhile *)
    cbn [s2_stmt ui_stmt] in Hs, Hu. rewrite !s2_blk_fix in Hs. rewrite !ui_blk_fix in Hu.
    apply andb_true_iff in Hs as [H12 H3]. apply andb_true_iff in H12 as [H1 H2]. apply is_nil_true in H3. subst o.
    apply andb_true_iff in Hu as [U1 U2].
    rewrite !vstmt_while. unfold vblock at 1 3. cbn [fold_left]. rewrite (er_block b H H2 U1). rewrite (er_vexpr t H1). reflexivity.
  - (* SIf *)
    cbn [s2_stmt ui_stmt] in Hs, Hu. rewrite !s2_blk_fix in Hs. rewrite !ui_blk_fix in Hu.
    apply andb_true_iff in Hs as [H12 H3]. apply andb_true_iff in H12 as [H1 H2]. apply is_nil_true in H3. subst o.
    apply andb_true_iff in Hu as [U1 U2].
    rewrite !vstmt_if. unfold vblock at 1 3. cbn [fold_left]. rewrite (er_block b H H2 U1). rewrite (er_vexpr t H1). reflexivity.
  - (* SWith *)
    cbn [s2_stmt ui_stmt] in Hs, Hu. rewrite !s2_blk_fix in Hs. rewrite !ui_blk_fix in Hu. apply andb_true_iff in Hs as [H1 H2].
    rewrite !vstmt_with. rewrite (er_block b H H2 Hu). rewrite er_with_items by exact H1. reflexivity.
  - (* STry *)
    cbn [s2_stmt ui_stmt] in Hs, Hu. rewrite !s2_blk_fix in Hs. rewrite !ui_blk_fix in Hu.
    apply andb_true_iff in Hs as [Habc Hd]. apply andb_true_iff in Habc as [Hab Hc]. apply andb_true_iff in Hab as [Ha Hb].
    apply is_nil_true in Hb. subst hs.
    apply andb_true_iff in Hu as [Hu Ud]. apply andb_true_iff in Hu as [Hu Uc]. apply andb_true_iff in Hu as [Ua _].
    rewrite !vstmt_try_nohandler. rewrite (er_block f H2 Hd Ud), (er_block o H1 Hc Uc), (er_block b H Ha Ua). reflexivity.
  - reflexivity.
  - reflexivity.
Qed.

Lemma er_vblock : forall b, s2_block b = true -> ui_block b = true ->
  forall stk s, er (vblock true b stk s) = vblock false b stk (er s).
Proof. intros b. apply er_block. apply Forall_forall. intros x _. apply er_stmt. Qed.

(* ---------- only import statements create use-checkers: the (line, import) pairs of the checker list are unchanged
   by everything else ---------- *)
From Verif Require Import Scope.UnusedProofs.

Lemma pairs_mark : forall s c, pairs (mark_used s c) = pairs s.
Proof. intros. unfold pairs, mark_used. cbn [checkers with_checkers]. apply mark_pairs. Qed.
Lemma pairs_marks : forall cs s, pairs (fold_left mark_used cs s) = pairs s.
Proof. induction cs as [|c cs IH]; intro s; cbn. reflexivity. rewrite IH. apply pairs_mark. Qed.
Lemma pairs_needs_stack : forall ps r s, pairs (snd (needs_stack s r ps)) = pairs s.
Proof.
  intros ps r. induction r as [|i r IH]; intro s; cbn [needs_stack]. reflexivity.
  destruct (first_present (scope_dict s i) ps) as [[|c|cs]|]; cbn [snd]; auto using pairs_mark, pairs_marks.
Qed.
Lemma pairs_needs : forall s stk n, pairs (snd (needs s stk n)) = pairs s.
Proof. intros. unfold needs. apply pairs_needs_stack. Qed.
Lemma pairs_add_missing : forall s cur ln n, pairs (add_missing s cur ln n) = pairs s.
Proof. intros. unfold add_missing. destruct (existsb _ _); reflexivity. Qed.
Lemma pairs_new_scope : forall s k d, pairs (snd (new_scope s k d)) = pairs s.
Proof. reflexivity. Qed.
Lemma pairs_push : forall s stk a b c, pairs (snd (push s stk a b c)) = pairs s.
Proof. intros. unfold push. destruct (new_scope s (if b then KClass else KNormal) []) eqn:E. cbn [snd].
  change s0 with (snd (n, s0)). rewrite <- E. reflexivity. Qed.
Lemma pairs_clone_top : forall s stk, pairs (snd (clone_top s stk)) = pairs s.
Proof. intros. unfold clone_top. destruct (get_scope (scopes s) (top stk)) as [c d]. reflexivity. Qed.
Lemma pairs_pop : forall s i, pairs (pop s i) = pairs s.
Proof. reflexivity. Qed.
Lemma pairs_check_load : forall s cur stk n ln, pairs (check_load s cur stk n ln) = pairs s.
Proof.
  intros. unfold check_load. pose proof (pairs_needs s stk n) as H. destruct (needs s stk n) as [b s1]. cbn [snd] in H.
  destruct (b && negb (has_star s1 stk)). rewrite pairs_add_missing. exact H. exact H.
Qed.
Lemma pairs_defer_load : forall s stk n, pairs (defer_load s stk n) = pairs s.
Proof.
  intros. unfold defer_load. pose proof (pairs_needs s stk n) as H. destruct (needs s stk n) as [b s1]. cbn [snd] in H.
  destruct b; [|exact H]. pose proof (pairs_clone_top s1 stk) as H2. destruct (clone_top s1 stk) as [stk' s2]. cbn [snd] in H2.
  unfold pairs in *. cbn [checkers with_deferred]. congruence.
Qed.
Lemma pairs_load : forall s stk n, pairs (load s stk n) = pairs s.
Proof. intros. unfold load. destruct (in_fd s). rewrite !pairs_defer_load. reflexivity. apply pairs_check_load. Qed.
Lemma pairs_set_in_scope : forall s i k v, pairs (set_in_scope s i k v) = pairs s.
Proof. intros. unfold set_in_scope. destruct (get_scope (scopes s) i). reflexivity. Qed.
Lemma pairs_store_name : forall s stk n v, pairs (store true s stk [n] v) = pairs s.
Proof.
  intros. unfold store. rewrite proper_prefixes_single. cbn [fold_left].
  destruct (dict_get (scope_dict s (top stk)) [n]) as [[|c|cs]|]; try apply pairs_set_in_scope.
  destruct (c_used (checker_at s c)); rewrite pairs_set_in_scope; reflexivity.
Qed.
Lemma pairs_store_names : forall stk ps s, pairs (fold_left (fun s p => store true s stk [p] Plain) ps s) = pairs s.
Proof. intros stk ps. induction ps as [|p ps IH]; intro s; cbn [fold_left]. reflexivity. rewrite IH. apply pairs_store_name. Qed.
Lemma pairs_vtarget : forall t, s1_target t = true -> forall stk s, pairs (vtarget true t stk s) = pairs s.
Proof. intros t Ht stk s. rewrite vtarget_u1 by exact Ht. apply pairs_store_names. Qed.

Definition PPE (x : expr) : Prop := s2_expr x = true -> forall stk s, pairs (vexpr true x stk s) = pairs s.
Lemma pairs_vexpr_list : forall es, Forall PPE es -> forallb s2_expr es = true -> forall stk s, pairs (vexpr_list true es stk s) = pairs s.
Proof.
  intros es HF. induction HF as [|x es Hx HF IH]; intros Hs stk s. reflexivity.
  cbn in Hs. apply andb_true_iff in Hs as [H1 H2]. unfold vexpr_list in *. cbn [fold_left]. rewrite IH by exact H2. apply (Hx H1).
Qed.
Lemma pairs_with_fd : forall s b, pairs (with_fd s b) = pairs s. Proof. reflexivity. Qed.
Lemma pairs_with_ln : forall s b, pairs (with_ln s b) = pairs s. Proof. reflexivity. Qed.
Lemma pairs_vexpr : forall x, PPE x.
Proof.
  intro x. induction x using expr_ind' with (Q := fun _ => True); try exact I; unfold PPE; intros Hs stk s.
  - cbn [vexpr]. apply pairs_load.
  - cbn [vexpr s2_expr] in *. rewrite vgo_eq_t. rewrite s2go_eq in Hs. apply pairs_vexpr_list; auto.
  - cbn [vexpr s2_expr] in *. apply IHx. exact Hs.
  - cbn [s2_expr] in Hs. rewrite s2go_eq in Hs. apply andb_true_iff in Hs as [Hs Hbody]. apply andb_true_iff in Hs as [Hps Hds].
    rewrite vexpr_lambda_eq_t. pose proof (pairs_push s stk true false false) as E1.
    destruct (push s stk true false false) as [stkA s1]. cbn [snd] in E1. cbv zeta.
    set (s3 := fold_left (fun s p => store true s stkA [p] Plain) ps (vexpr_list true ds (removelast stkA) s1)).
    assert (E3 : pairs s3 = pairs s). { unfold s3. rewrite pairs_store_names, (pairs_vexpr_list ds H Hds). exact E1. }
    pose proof (pairs_push (with_fd s3 true) stkA false false false) as E4.
    destruct (push (with_fd s3 true) stkA false false false) as [stkB s4]. cbn [snd] in E4.
    rewrite pairs_pop, pairs_with_fd, pairs_pop, (IHx Hbody), E4, pairs_with_fd. exact E3.
  - cbn in Hs. discriminate.
Qed.
Lemma all_PPE : forall es, Forall PPE es.
Proof. intro es. apply Forall_forall. intros x _. apply pairs_vexpr. Qed.

Definition PPS (x : stmt) : Prop := s2_stmt x = true -> noimp_stmt x = true -> forall stk s, pairs (vstmt true x stk s) = pairs s.
Lemma pairs_block : forall b, Forall PPS b -> s2_block b = true -> forallb noimp_stmt b = true ->
  forall stk s, pairs (vblock true b stk s) = pairs s.
Proof.
  induction b as [|x b IH]; intros HF Hs Hn stk s. reflexivity.
  inversion HF as [|? ? Hx HF']; subst. cbn in Hs, Hn. apply andb_true_iff in Hs as [H1 H2]. apply andb_true_iff in Hn as [N1 N2].
  unfold vblock in *. cbn [fold_left]. rewrite (IH HF' H2 N2). apply (Hx H1 N1).
Qed.
Lemma pairs_vdecos : forall decos, forallb (fun d : nat * expr => s2_expr (snd d)) decos = true ->
  forall stk s, pairs (vdecos true decos stk s) = pairs s.
Proof.
  induction decos as [|[dl d] decos IH]; intros Hs stk s. reflexivity.
  cbn in Hs. apply andb_true_iff in Hs as [H1 H2]. unfold vdecos in *. cbn [fold_left fst snd].
  rewrite IH by exact H2. rewrite (pairs_vexpr d H1). reflexivity.
Qed.
Lemma pairs_targets : forall ts, forallb s1_target ts = true -> forall stk s,
  pairs (fold_left (fun s t => vtarget true t stk s) ts s) = pairs s.
Proof.
  induction ts as [|t ts IH]; intros Hs stk s. reflexivity. cbn in Hs. apply andb_true_iff in Hs as [H1 H2].
  cbn [fold_left]. rewrite IH by exact H2. apply pairs_vtarget. exact H1.
Qed.
Lemma pairs_with_items : forall items, forallb s2_with_item items = true -> forall stk s,
  pairs (fold_left (with_item_step true stk) items s) = pairs s.
Proof.
  induction items as [|[x ot] items IH]; intros Hs stk s. reflexivity. cbn in Hs. apply andb_true_iff in Hs as [H12 H3].
  unfold s2_with_item in H12. cbn [fst snd] in H12. apply andb_true_iff in H12 as [H1 H2].
  cbn [fold_left]. rewrite IH by exact H3. unfold with_item_step. cbn [fst snd].
  destruct ot as [t|]. rewrite pairs_vtarget by exact H2. apply (pairs_vexpr x H1). apply (pairs_vexpr x H1).
Qed.

Lemma pairs_stmt : forall x, PPS x.
Proof.
  induction x using stmt_ind'; try (intros Hs; discriminate); try (intros Hs Hn; discriminate); try rename e into e0; intros Hs Hn stk s.
  - cbn [vstmt s2_stmt] in *. rewrite (pairs_vexpr e0 Hs). reflexivity.
  - cbn [vstmt s2_stmt] in *. apply andb_true_iff in Hs as [H1 H2]. rewrite pairs_targets by exact H2. rewrite (pairs_vexpr v H1). reflexivity.
  - cbn [vstmt s2_stmt] in *. apply andb_true_iff in Hs as [H12 H3]. apply andb_true_iff in H12 as [H1 H2].
    apply is_nil_true in H1. subst a. rewrite pairs_store_name. rewrite (pairs_vexpr v H3). rewrite pairs_load. reflexivity.
  - (* SDef *)
    cbn [s2_stmt noimp_stmt] in Hs, Hn. rewrite s2_blk_fix in Hs. rewrite noimp_blk_fix in Hn.
    apply andb_true_iff in Hs as [Hs Hbody]. apply andb_true_iff in Hs as [Hs Hret].
    apply andb_true_iff in Hs as [Hs Hps]. apply andb_true_iff in Hs as [Hnm Hdecos].
    destruct (s2_params_facts ps Hps) as [Hhdr _].
    rewrite vstmt_def_eq_t. cbv zeta.
    pose proof (pairs_vdecos decos Hdecos stk (with_ln s ln)) as E0.
    pose proof (pairs_push (vdecos true decos stk (with_ln s ln)) stk true false false) as E1.
    destruct (push (vdecos true decos stk (with_ln s ln)) stk true false false) as [stkA s1]. cbn [snd] in E1.
    set (s3 := if Nat.ltb 0 (in_cd s1) then set_in_scope s1 (top stkA) [n_class] Plain else s1).
    assert (E3 : pairs s3 = pairs s1). { unfold s3. destruct (Nat.ltb 0 (in_cd s1)). apply pairs_set_in_scope. reflexivity. }
    rewrite varguments_eq_t.
    set (s4 := fold_left (fun s n => store true s stkA [n] Plain) (pnames_finder ps) (vexpr_list true (hdr_finder ps) (removelast stkA) (with_ln s3 ln))).
    assert (E4 : pairs s4 = pairs s3). { unfold s4. rewrite pairs_store_names, (pairs_vexpr_list (hdr_finder ps) (all_PPE _) Hhdr). reflexivity. }
    set (s5 := voexpr true ret (removelast stkA) s4).
    assert (E5 : pairs s5 = pairs s4). { unfold s5. destruct ret as [r|]; cbn [voexpr s2_oexpr] in *. apply (pairs_vexpr r Hret). reflexivity. }
    pose proof (pairs_push (with_fd s5 true) stkA false false true) as E6.
    destruct (push (with_fd s5 true) stkA false false true) as [stkB s6]. cbn [snd] in E6.
    set (s7 := if Nat.eqb (in_cd s6) 0 then store true s6 stkB [nm] Plain else s6).
    assert (E7 : pairs s7 = pairs s6). { unfold s7. destruct (Nat.eqb (in_cd s6) 0). apply pairs_store_name. reflexivity. }
    rewrite pairs_store_name, pairs_pop, pairs_with_fd, pairs_pop. rewrite (pairs_block body H Hbody Hn).
    rewrite E7, E6, pairs_with_fd, E5, E4, E3, E1, E0. reflexivity.
  - (* SFor *)
    cbn [s2_stmt noimp_stmt] in Hs, Hn. rewrite !s2_blk_fix in Hs. rewrite !noimp_blk_fix in Hn.
    apply andb_true_iff in Hs as [H123 H4]. apply andb_true_iff in H123 as [H12 H3]. apply andb_true_iff in H12 as [H1 H2].
    apply andb_true_iff in Hn as [U1 U2].
    rewrite vstmt_for. rewrite (pairs_block o H0 H4 U2), (pairs_block b H H3 U1). rewrite pairs_vtarget by exact H1.
    rewrite (pairs_vexpr it H2). reflexivity.
  - (* SWhile *)
    cbn [s2_stmt noimp_stmt] in Hs, Hn. rewrite !s2_blk_fix in Hs. rewrite !noimp_blk_fix in Hn.
    apply andb_true_iff in Hs as [H12 H3]. apply andb_true_iff in H12 as [H1 H2]. apply is_nil_true in H3. subst o.
    apply andb_true_iff in Hn as [U1 U2].
    rewrite vstmt_while. unfold vblock at 1. cbn [fold_left]. rewrite (pairs_block b H H2 U1). rewrite (pairs_vexpr t H1). reflexivity.
  - (* SIf *)
    cbn [s2_stmt noimp_stmt] in Hs, Hn. rewrite !s2_blk_fix in Hs. rewrite !noimp_blk_fix in Hn.
    apply andb_true_iff in Hs as [H12 H3]. apply andb_true_iff in H12 as [H1 H2]. apply is_nil_true in H3. subst o.
    apply andb_true_iff in Hn as [U1 U2].
    rewrite vstmt_if. unfold vblock at 1. cbn [fold_left]. rewrite (pairs_block b H H2 U1). rewrite (pairs_vexpr t H1). reflexivity.
  - (* SWith *)
    cbn [s2_stmt noimp_stmt] in Hs, Hn. rewrite !s2_blk_fix in Hs. rewrite !noimp_blk_fix in Hn. apply andb_true_iff in Hs as [H1 H2].
    rewrite vstmt_with. rewrite (pairs_block b H H2 Hn). rewrite pairs_with_items by exact H1. reflexivity.
  - (* STry *)
    cbn [s2_stmt noimp_stmt] in Hs, Hn. rewrite !s2_blk_fix in Hs. rewrite !noimp_blk_fix in Hn.
    apply andb_true_iff in Hs as [Habc Hd]. apply andb_true_iff in Habc as [Hab Hc]. apply andb_true_iff in Hab as [Ha Hb].
    apply is_nil_true in Hb. subst hs.
    apply andb_true_iff in Hn as [Hn Ud]. apply andb_true_iff in Hn as [Hn Uc]. apply andb_true_iff in Hn as [Ua _].
    rewrite vstmt_try_nohandler. rewrite (pairs_block f H2 Hd Ud), (pairs_block o H1 Hc Uc), (pairs_block b H Ha Ua). reflexivity.
  - reflexivity.
  - reflexivity.
Qed.

(* Boolean checkers of the C05 theorem statements on one program: evaluated by vm_compute in the harness on
   every generated program of a fragment - a cheap falsification test of a statement before (and after) it is
   proved, and the measurement of which share of the generated programs each fragment covers. *)
From Coq Require Import NArith List Bool Arith.
From Verif Require Import Scope.PySyntax Scope.Finder Scope.PySem Scope.Fragment.
Import ListNotations.

Definition is_unbound (r : res) : bool := match r with Unbound => true | _ => false end.
Definition is_failing (r : res) : bool := match r with Unbound | UnboundLocal => true | _ => false end.
Definition root_is (n : name) (d : dotted) : bool := match d with r :: _ => N.eqb r n | [] => false end.

(* every Unbound read (line, name) has a reported name rooted at it on that line *)
Definition sound_b (bi : list name) (ns : list (list name)) (p : program) : bool :=
  let miss := fst (finder bi ns false p) in
  forallb (fun r : rd => negb (is_unbound (snd r)) ||
                         existsb (fun m : nat * dotted => Nat.eqb (fst m) (fst (fst r)) && root_is (snd (fst r)) (snd m)) miss)
          (pysem bi ns p).
(* every reported (line, name) has a failing read of its root on that line *)
Definition precise_b (bi : list name) (ns : list (list name)) (p : program) : bool :=
  let tr := pysem bi ns p in
  forallb (fun m : nat * dotted =>
             existsb (fun r : rd => Nat.eqb (fst (fst r)) (fst m) && root_is (snd (fst r)) (snd m) && is_failing (snd r)) tr)
          (fst (finder bi ns false p)).
(* exact: the reported pairs are exactly the Unbound reads *)
Definition exact_b (bi : list name) (ns : list (list name)) (p : program) : bool :=
  let tr := pysem bi ns p in
  sound_b bi ns p &&
  forallb (fun m : nat * dotted =>
             existsb (fun r : rd => Nat.eqb (fst (fst r)) (fst m) && root_is (snd (fst r)) (snd m) && is_unbound (snd r)) tr)
          (fst (finder bi ns false p)).

Definition stage_of (p : program) : nat :=
  if s1_block p then 1 else if s2_block p then 2 else if s3_block p then 3 else 0.

(* unused_sound on one program: no reported-unused import is the binding of a read *)
Definition is_bound_to (l : nat) (i : import) (r : res) : bool :=
  match r with
  | Bound (BImp l' i') => Nat.eqb l l' && dotted_eqb (fst i) (fst i') && dotted_eqb (snd i) (snd i')
  | _ => false
  end.
Definition unused_sound_b (bi : list name) (ns : list (list name)) (p : program) : bool :=
  let tr := pysem bi ns p in
  forallb (fun u : nat * import => negb (existsb (fun r : rd => is_bound_to (fst u) (snd u) (snd r)) tr))
          (snd (finder bi ns true p)).
(* which unused-side fragment the program is in: 1 = u1_block (with distinct events), 2 = u2_block + imports_once *)
Fixpoint nodup_events (l : list (nat * import)) : bool :=
  match l with
  | [] => true
  | x :: r => negb (existsb (fun y => Nat.eqb (fst x) (fst y) && dotted_eqb (fst (snd x)) (fst (snd y))
                                      && dotted_eqb (snd (snd x)) (snd (snd y))) r) && nodup_events r
  end.
Definition ustage_of (bi : list name) (ns : list (list name)) (p : program) : nat :=
  if u1_block p && nodup_events (imp_events (bsrcs_block false p)) then 1
  else if u2_block p && imports_once bi ns p && nodup_events (imp_events (bsrcs_block false p)) then 2
  else if u3_block p && imports_once bi ns p && nodup_events (imp_events (bsrcs_block false p)) then 3 else 0.

(* the same for what tidy-imports runs: the report with parse_docstrings=True against the trace with the doctest examples *)
Definition unused_doc_sound_b (bi : list name) (ns : list (list name)) (p : program) : bool :=
  let tr := pysem_doc bi ns p in
  forallb (fun u : nat * import => negb (existsb (fun r : rd => is_bound_to (fst u) (snd u) (snd r)) tr))
          (snd (finder_doc bi ns p)).

(* the fragment of the theorems about the missing list of scan_for_import_issues (tracking on): stage 2 / 3 code whose
   import statements, wherever they stand, bind one-component keys (ScanMissing) *)
Definition tstage_of (p : program) : nat :=
  if ui_block p then (if s2_block p then 2 else if s3_block p then 3 else 0) else 0.
Definition tsound_b (bi : list name) (ns : list (list name)) (p : program) : bool :=
  let miss := fst (finder bi ns true p) in
  forallb (fun r : rd => negb (is_unbound (snd r)) ||
                         existsb (fun m : nat * dotted => Nat.eqb (fst m) (fst (fst r)) && root_is (snd (fst r)) (snd m)) miss)
          (pysem bi ns p).
Definition tprecise_b (bi : list name) (ns : list (list name)) (p : program) : bool :=
  let tr := pysem bi ns p in
  forallb (fun m : nat * dotted =>
             existsb (fun r : rd => Nat.eqb (fst (fst r)) (fst m) && root_is (snd (fst r)) (snd m) && is_failing (snd r)) tr)
          (fst (finder bi ns true p)).

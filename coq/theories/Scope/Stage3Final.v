(* M7, stage 3 - the theorems for Fragment.s3_block (stage 2 + comprehensions): every failing global lookup of PySem is
   reported on its line, every reported (line, name) is a failing lookup (NameError or UnboundLocalError-like). *)
From Coq Require Import NArith List Bool Arith Lia.
From Verif Require Import Scope.PySyntax Scope.Finder Scope.PySem Scope.Fragment Scope.AuxProofs Scope.FinderProofs
                          Scope.Stage2Base Scope.Stage2Inv Scope.Stage2Steps Scope.Stage2Proofs Scope.Stage2Stmt Scope.Stage2Final
                          Scope.Stage3Comp Scope.Stage3Proofs Scope.Stage3Stmt.
Import ListNotations.

(* ---------- the stage-3 theorems ---------- *)
Lemma s3_reported : forall bi ns p, s3_block p = true -> star_free bi ns = true ->
  exists exp s, TrI exp s (pysem bi ns p) /\
    forall l n, (exists a, In (l, n :: a) (fst (finder bi ns false p))) <-> Rep exp s l n.
Proof.
  intros bi ns p Hp Hsf.
  destruct (init_inv2 bi ns p Hsf) as (exp0 & l0 & Hown & HB & Estk & HI & Hm0 & _).
  assert (Hiff : forall l d, In (l, d) (fst (finder bi ns false p)) <->
                             InM l d (missing (scan_node false p (fst (init_state bi ns)) (snd (init_state bi ns)))))
    by (intros; apply finder_missing_In).
  destruct (init_state bi ns) as [stk s0]. cbn [fst snd] in *. subst stk.
  unfold pysem. destruct (sem_block p [module_frame bi ns p]) as [e1 r1] eqn:Es. cbn [snd].
  assert (HF : Forall PS3 p) by (apply Forall_forall; intros x _; apply stmt_inv3).
  destruct (block_inv3 p HF Hp _ _ _ _ _ _ _ _ _ HI) with (e' := e1) (rds := r1) as (exp & X & I1 & N1).
  { rewrite HB. apply incl_refl. } { exact Es. }
  cbn [app] in I1. set (s1 := vblock false p (stack_of [l0]) s0) in *.
  exists exp, s1. split. apply (i_tr _ _ _ _ _ _ _ _ _ I1).
  intros l n.
  pose proof (i_st _ _ _ _ _ _ _ _ _ I1) as HS. pose proof (st_sinv _ _ _ _ _ HS) as HS1.
  unfold scan_node, finish_deferred in Hiff.
  destruct (finish_fold (stack_of [l0]) (deferred s1) s1 HS1) as (m' & Ef & Hm').
  fold s1 in Hiff. rewrite Ef in Hiff.
  destruct (reports_shape (pending_dicts (with_missing s1 m') (top (stack_of [l0]))) (with_missing s1 m')) as (u0 & Eu0).
  rewrite Eu0 in Hiff. cbn [missing with_deferred with_missing with_unused] in Hiff.
  (* at the end of the module every scope holds its expected roots *)
  assert (Hclosed : forall i, i < next_id s1 -> forall y, has s1 i y = true <-> In y (exp i)).
  { intros i Hi y. destruct (Nat.eq_dec i (l_b l0)) as [->|Hne].
    - pose proof (st_top _ _ _ _ _ HS) as Ht. inversion Ht as [|? ? ? ? [Ht1 _] _]; subst.
      rewrite Ht1. rewrite (cx_b _ _ (i_cx _ _ _ _ _ _ _ _ _ I1) l0 (or_introl eq_refl)). rewrite HB. reflexivity.
    - apply (st_eq _ _ _ _ _ HS); auto. cbn. intros [E|[]]. auto. }
  assert (Hbe : forall stk ln d, In (d, stk, ln) (deferred s1) -> bound s1 stk n = ebound exp stk n).
  { intros stk ln d Hin. apply bound_closed. intros i Hi. apply Hclosed. apply (st_def _ _ _ _ _ HS _ _ _ Hin). exact Hi. }
  unfold Rep. split.
  - intros (a & Ha). apply Hiff, Hm' in Ha as [Ha|(stk & Hin & Hb)].
    + left. eauto.
    + right. exists a, stk. split. exact Hin. rewrite <- (Hbe _ _ _ Hin). exact Hb.
  - intros [(a & Ha)|(a & stk & Hin & Hb)]; exists a; apply Hiff, Hm'.
    + left. exact Ha.
    + right. exists stk. split. exact Hin. rewrite (Hbe _ _ _ Hin). exact Hb.
Qed.

Theorem s3_missing_sound : forall bi ns p, s3_block p = true -> star_free bi ns = true ->
  forall l n, In (l, n, Unbound) (pysem bi ns p) -> exists a, In (l, n :: a) (fst (finder bi ns false p)).
Proof.
  intros bi ns p Hp Hsf l n H. destruct (s3_reported bi ns p Hp Hsf) as (exp & s & HT & Hiff).
  apply Hiff. apply (tr_snd _ _ _ HT). exact H.
Qed.

Theorem s3_missing_precise : forall bi ns p, s3_block p = true -> star_free bi ns = true ->
  forall l n a, In (l, n :: a) (fst (finder bi ns false p)) ->
  In (l, n, Unbound) (pysem bi ns p) \/ In (l, n, UnboundLocal) (pysem bi ns p).
Proof.
  intros bi ns p Hp Hsf l n a H. destruct (s3_reported bi ns p Hp Hsf) as (exp & s & HT & Hiff).
  apply (tr_prc _ _ _ HT). apply Hiff. eauto.
Qed.

(* in the words of the property *)
Theorem s3_find_missing_sound : forall bi ns p l n, s3_block p = true -> star_free bi ns = true ->
  In (l, n, Unbound) (pysem bi ns p) -> exists a, In (n :: a) (find_missing bi ns p).
Proof.
  intros bi ns p l n Hp Hsf H. destruct (s3_missing_sound bi ns p Hp Hsf l n H) as (a & Ha).
  exists a. apply find_missing_In. eauto.
Qed.
Theorem s3_find_missing_precise : forall bi ns p n a, s3_block p = true -> star_free bi ns = true ->
  In (n :: a) (find_missing bi ns p) ->
  exists l, In (l, n, Unbound) (pysem bi ns p) \/ In (l, n, UnboundLocal) (pysem bi ns p).
Proof.
  intros bi ns p n a Hp Hsf H. apply find_missing_In in H as (l & Hl). exists l.
  apply (s3_missing_precise bi ns p Hp Hsf l n a Hl).
Qed.

(* M7 - the mini-language shared by Finder (pyflyby's scope analysis) and PySem (reference
   name-resolution semantics).  Names are ids allocated by the harness; the allocation is
   monotone in Python's string order (ids 0, 1000, 2000, 3000 are reserved for the four spellings the
   code tests for; the other names get ids in the gaps).  No proofs here. *)
From Coq Require Import NArith List Bool.
Import ListNotations.

Definition name := N.
Definition dotted := list name.            (* a.b.c *)

(* spaced so that the harness can give every other name an id in the right gap of the string order *)
(* id 0 is the empty string: a relative import `from ..m import x` has modname ["", "", m] (joined with "." this is
   "..m.x", Import.fullname) *)
Definition n_star   : name := 500%N.       (* "*"          *)
Definition n_all    : name := 1000%N.      (* "__all__"    *)
Definition n_class  : name := 2000%N.      (* "__class__"  *)
Definition n_future : name := 3000%N.      (* "__future__" *)

(* assignment / for / with / comprehension targets: Name, Attribute chain rooted at a Name,
   Tuple or List of targets *)
Inductive target :=
| TName (n : name)
| TAttr (n : name) (attrs : list name)     (* attrs <> [] *)
| TTuple (ts : list target).

(* expressions.  ELoad = Name or Attribute chain rooted at a Name, Load context.
   EOp = any other node, sub-expressions in _fields order (call, binary operator, subscript,
   tuple/list display, constant = EOp []).  EAttr = attribute access whose chain is not rooted at a Name.
   ELambda: positional parameters; the last [length defaults] of them carry the defaults.
   EComp: the four comprehension kinds (elts has one element, two for a dict comprehension). *)
Inductive expr :=
| ELoad (n : name) (attrs : list name)
| EOp (es : list expr)
| EAttr (e : expr) (attrs : list name)     (* attribute chain on a base that is not a Name: (e).a.b *)
| ELambda (ps : list name) (defaults : list expr) (body : expr)
| EComp (gens : list gen) (elts : list expr)
with gen :=
| Gen (iter : expr) (tgt : target) (ifs : list expr).

(* one formal parameter: name and annotation *)
Definition param := (name * option expr)%type.

(* ast.arguments: def f(posonly, /, args, *vararg, kwonly, **kwarg); [defaults] belong to the
   last positional parameters, [kw_defaults] is aligned with kwonly (None = no default) *)
Record params := Params {
  p_posonly : list param;
  p_args : list param;
  p_vararg : option param;
  p_kwonly : list param;
  p_kwarg : option param;
  p_defaults : list expr;
  p_kw_defaults : list (option expr) }.

(* statements; every statement is rendered with its header on one physical line [ln], a
   decorator sits on its own line *)
Inductive stmt :=
| SExpr (ln : nat) (e : expr)
| SAssign (ln : nat) (targets : list target) (value : expr)
| SAugAssign (ln : nat) (n : name) (attrs : list name) (value : expr)   (* n.attrs += value *)
| SAllAssign (ln : nat) (names : list name)                             (* __all__ = ['a', ...] *)
| SImport (ln : nat) (items : list (dotted * option name))              (* import a.b [as c], ... *)
| SImportFrom (ln : nat) (modname : dotted) (items : list (name * option name))  (* from m import x [as y] | * *)
| SDef (ln : nat) (nm : name) (decos : list (nat * expr)) (ps : params) (ret : option expr) (body : list stmt)
| SClass (ln : nat) (nm : name) (bases : list expr) (decos : list (nat * expr)) (kws : list expr) (body : list stmt)
| SFor (ln : nat) (tgt : target) (iter : expr) (body orelse : list stmt)
| SWhile (ln : nat) (test : expr) (body orelse : list stmt)
| SIf (ln : nat) (test : expr) (body orelse : list stmt)
| SWith (ln : nat) (items : list (expr * option target)) (body : list stmt)
| STry (ln : nat) (body : list stmt) (handlers : list handler) (orelse finalbody : list stmt)
| SPass (ln : nat)
| SDoc (ln : nat) (examples : list stmt) (braces : list name)
    (* a string-literal expression statement; [examples] = its doctest examples (each a one-line statement),
       [braces] = the {identifier}s in its text *)
with handler :=
| Handler (ln : nat) (ty : option expr) (nm : option name) (body : list stmt).

Definition program := list stmt.

(* ---------- small helpers shared by both sides ---------- *)

Fixpoint dotted_eqb (a b : dotted) : bool :=
  match a, b with
  | [], [] => true
  | x :: a', y :: b' => N.eqb x y && dotted_eqb a' b'
  | _, _ => false
  end.

Fixpoint mem (x : name) (l : list name) : bool :=
  match l with [] => false | y :: r => N.eqb x y || mem x r end.

(* is [p] a component prefix of [n] *)
Fixpoint is_prefix (p n : dotted) : bool :=
  match p, n with
  | [], _ => true
  | x :: p', y :: n' => N.eqb x y && is_prefix p' n'
  | _ :: _, [] => false
  end.

(* all non-empty prefixes, shortest first: DottedIdentifier.prefixes *)
Fixpoint prefixes_from (acc : dotted) (rest : dotted) : list dotted :=
  match rest with
  | [] => []
  | x :: r => (acc ++ [x]) :: prefixes_from (acc ++ [x]) r
  end.
Definition prefixes (n : dotted) : list dotted := prefixes_from [] n.
(* prefixes[:-1] *)
Definition proper_prefixes (n : dotted) : list dotted := removelast (prefixes n).

(* names bound by a target *)
Fixpoint target_names (t : target) : list name :=
  match t with
  | TName n => [n]
  | TAttr _ _ => []
  | TTuple ts => (fix go (l : list target) : list name :=
                    match l with [] => [] | x :: r => target_names x ++ go r end) ts
  end.

Definition param_names (l : list param) : list name := map fst l.
Definition oparam_names (o : option param) : list name :=
  match o with Some p => [fst p] | None => [] end.
Definition params_names (p : params) : list name :=
  param_names (p_posonly p) ++ param_names (p_args p) ++ oparam_names (p_vararg p) ++
  param_names (p_kwonly p) ++ oparam_names (p_kwarg p).

(* Import._data = (fullname, import_as) *)
Definition import := (dotted * dotted)%type.
(* what created a binding: an import statement (line, import) or anything else *)
Inductive bsrc := BImp (ln : nat) (i : import) | BOther.

Definition others (l : list name) : list (name * bsrc) := map (fun n => (n, BOther)) l.

Definition import_bsrcs (ln : nat) (it : dotted * option name) : list (name * bsrc) :=
  match snd it with
  | Some a => [(a, BImp ln (fst it, [a]))]
  | None => match fst it with [] => [] | r :: _ => [(r, BImp ln (fst it, fst it))] end
  end.
Definition importfrom_bsrcs (ln : nat) (m : dotted) (it : name * option name) : list (name * bsrc) :=
  if N.eqb (fst it) n_star then [] else
  let a := match snd it with Some a => a | None => fst it end in
  [(a, BImp ln (m ++ [fst it], [a]))].

(* Bindings made by a block, in execution order, not descending into nested scopes (function
   and class bodies, lambdas, comprehensions).
   [all]=true: every branch - the names are Python's static "local variables of this block"
   (CPython's symbol table); [all]=false: only the parts a *fully executed* program runs
   (if: body; while: body once, left by break; for: body, orelse; try: body, orelse, finalbody -
   no handler) *)
Fixpoint bsrcs (all : bool) (s : stmt) : list (name * bsrc) :=
  let block := fix block (l : list stmt) : list (name * bsrc) :=
                 match l with [] => [] | x :: r => bsrcs all x ++ block r end in
  match s with
  | SExpr _ _ => []
  | SAssign _ ts _ => others ((fix go (l : list target) : list name :=
                         match l with [] => [] | x :: r => target_names x ++ go r end) ts)
  | SAugAssign _ n attrs _ => match attrs with [] => [(n, BOther)] | _ => [] end
  | SAllAssign _ _ => [(n_all, BOther)]
  | SImport ln items => flat_map (import_bsrcs ln) items
  | SImportFrom ln m items => flat_map (importfrom_bsrcs ln m) items
  | SDef _ nm _ _ _ _ => [(nm, BOther)]
  | SClass _ nm _ _ _ _ => [(nm, BOther)]
  | SFor _ t _ body orelse => others (target_names t) ++ block body ++ block orelse
  | SWhile _ _ body orelse => block body ++ (if all then block orelse else [])
  | SIf _ _ body orelse => block body ++ (if all then block orelse else [])
  | SWith _ items body =>
      others (flat_map (fun it : expr * option target =>
                          match snd it with Some t => target_names t | None => [] end) items) ++ block body
  | STry _ body handlers orelse finalbody =>
      block body ++
      (if all then
         (fix hs (l : list handler) : list (name * bsrc) :=
            match l with
            | [] => []
            | Handler _ _ nm hb :: r =>
                (match nm with Some n => [(n, BOther)] | None => [] end) ++ block hb ++ hs r
            end) handlers
       else []) ++
      block orelse ++ block finalbody
  | SPass _ => []
  | SDoc _ _ _ => []
  end.
Definition bsrcs_block (all : bool) (l : list stmt) : list (name * bsrc) := flat_map (bsrcs all) l.
Definition binds_block (all : bool) (l : list stmt) : list name := map fst (bsrcs_block all l).

(* ---------- docstrings: PythonBlock._get_docstring_nodes ----------
   for every Module / FunctionDef / AsyncFunctionDef / ClassDef, in walk order:
     - the first body item if it is a string literal
     - for i in range(1, len(body)-1): body[i+1] if body[i] is an Assign and body[i+1] a string literal
   Each docstring: (its examples, its brace identifiers). *)
Definition docstring := (list stmt * list name)%type.
Definition is_assign (s : stmt) : bool := match s with SAssign _ _ _ | SAllAssign _ _ => true | _ => false end.
Definition doc_of (s : stmt) : list docstring := match s with SDoc _ ex br => [(ex, br)] | _ => [] end.
Fixpoint epydoc (l : list stmt) : list docstring :=
  match l with
  | a :: ((b :: _) as r) => (if is_assign a then doc_of b else []) ++ epydoc r
  | _ => []
  end.
Definition container_docs (body : list stmt) : list docstring :=
  match body with
  | [] => []
  | x :: r => doc_of x ++ epydoc r
  end.
Fixpoint docs_stmt (s : stmt) : list docstring :=
  let nested := fix nested (l : list stmt) : list docstring :=
                  match l with [] => [] | x :: r => docs_stmt x ++ nested r end in
  match s with
  | SDef _ _ _ _ _ body => container_docs body ++ nested body
  | SClass _ _ _ _ _ body => container_docs body ++ nested body
  | SFor _ _ _ b o => nested b ++ nested o
  | SWhile _ _ b o => nested b ++ nested o
  | SIf _ _ b o => nested b ++ nested o
  | SWith _ _ b => nested b
  | STry _ b hs o f =>
      nested b ++
      (fix hl (l : list handler) : list docstring :=
         match l with [] => [] | Handler _ _ _ hb :: r => nested hb ++ hl r end) hs ++
      nested o ++ nested f
  | _ => []
  end.
Definition docstrings_of (p : program) : list docstring := container_docs p ++ flat_map docs_stmt p.
(* every string literal of the module is a docstring statement in this syntax: all brace identifiers *)
Fixpoint strings_stmt (s : stmt) : list name :=
  let nested := fix nested (l : list stmt) : list name :=
                  match l with [] => [] | x :: r => strings_stmt x ++ nested r end in
  match s with
  | SDoc _ _ br => br
  | SDef _ _ _ _ _ body => nested body
  | SClass _ _ _ _ _ body => nested body
  | SFor _ _ _ b o => nested b ++ nested o
  | SWhile _ _ b o => nested b ++ nested o
  | SIf _ _ b o => nested b ++ nested o
  | SWith _ _ b => nested b
  | STry _ b hs o f =>
      nested b ++
      (fix hl (l : list handler) : list name :=
         match l with [] => [] | Handler _ _ _ hb :: r => nested hb ++ hl r end) hs ++
      nested o ++ nested f
  | _ => []
  end.
Definition brace_ids (p : program) : list name := flat_map strings_stmt p.

(* C02 - removing import items from the top-level import statements of a program (what tidy-imports does
   with the imports it considers unused).  Definitions only. *)
From Coq Require Import NArith List Bool.
From Verif Require Import Scope.PySyntax Scope.PySem.
Import ListNotations.

(* R l i = true: the import item that makes the binding BImp l i is to be removed *)
Definition removed_src (R : nat -> import -> bool) (b : bsrc) : bool :=
  match b with BImp l i => R l i | BOther => false end.
Definition drops (R : nat -> import -> bool) (l : list (name * bsrc)) : bool :=
  existsb (fun nb => removed_src R (snd nb)) l.

Definition remove_stmt (R : nat -> import -> bool) (s : stmt) : stmt :=
  match s with
  | SImport ln items => SImport ln (filter (fun it => negb (drops R (import_bsrcs ln it))) items)
  | SImportFrom ln m items => SImportFrom ln m (filter (fun it => negb (drops R (importfrom_bsrcs ln m it))) items)
  | _ => s
  end.
(* only the statements at the top level of the module are touched *)
Definition remove_top (R : nat -> import -> bool) (p : program) : program := map (remove_stmt R) p.

(* the module namespace after the program has run *)
Definition final_globals (bi : list name) (ns : list (list name)) (p : program) : list (name * bsrc) :=
  fdyn (head (fst (sem_block p [module_frame bi ns p]))).

(* M7, specification side - reference name-resolution semantics of the mini-language
   (DESIGN.md Appendix E / design-notes/spikes/pysem_proto.py), for FULLY EXECUTED programs: every
   statement runs once in source order (if: body; while: body once; try: body, orelse, finalbody),
   every function and lambda body runs once, after the last module-level statement.

   Formulation.  The prototype keeps a work list of pending function bodies.  Here a body is
   evaluated at its definition, in the *finalised* definition environment (every enclosing block
   in the state it has when it has run to its end).  That is the same trace as a set: a function
   body cannot bind a name of an enclosing block (no global / nonlocal / walrus in the language),
   a body registered while block F runs is called only after F has finished, and module-level
   code has finished before the first call.  It makes PySem structurally recursive - no fuel, no
   work list.  The agreement with CPython is checked by execution on every run (harness/c05.py,
   environment-side correspondence).
   No proofs in this file. *)
From Coq Require Import NArith List Bool Arith.
From Verif Require Import Scope.PySyntax.
Import ListNotations.

(* result of one read occurrence: the binding it resolves to, a failing global lookup
   (NameError), or a failing local / free-variable lookup (UnboundLocalError and friends) *)
Inductive res := Bound (b : bsrc) | Unbound | UnboundLocal.

Inductive fkind := FModule | FFunction | FClass | FComp.
Record frame := mkFrame {
  fk : fkind;
  flocals : list name;            (* function/comprehension: static locals; class: names the body binds *)
  ffinal : list (name * bsrc);    (* bindings when the block has run to its end, latest first *)
  fdyn : list (name * bsrc) }.    (* bindings made so far, latest first *)
Definition env := list frame.     (* innermost first; the last frame is the module *)

Definition rd := (nat * name * res)%type.      (* (line, root name, result) *)

Fixpoint lookup_b (x : name) (l : list (name * bsrc)) : option bsrc :=
  match l with
  | [] => None
  | (y, b) :: r => if N.eqb x y then Some b else lookup_b x r
  end.

Definition bind (x : name) (b : bsrc) (f : frame) : frame :=
  mkFrame (fk f) (flocals f) (ffinal f) ((x, b) :: fdyn f).
Definition bind_all (l : list (name * bsrc)) (f : frame) : frame :=
  fold_left (fun f xb => bind (fst xb) (snd xb) f) l f.
Definition finalize (e : env) : env :=
  map (fun f => mkFrame (fk f) (flocals f) (ffinal f) (ffinal f)) e.

(* global lookup: the module namespace (initial namespaces and builtins included) *)
Definition global_lookup (x : name) (e : env) : res :=
  match lookup_b x (fdyn (last e (mkFrame FModule [] [] []))) with Some b => Bound b | None => Unbound end.

(* enclosing function / comprehension scopes, nearest first; class scopes are invisible *)
Fixpoint resolve_outer (x : name) (e : env) : res :=
  match e with
  | [] => Unbound
  | f :: r =>
      match r with
      | [] => match lookup_b x (fdyn f) with Some b => Bound b | None => Unbound end   (* module *)
      | _ :: _ =>
          match fk f with
          | FFunction | FComp =>
              if mem x (flocals f)
              then match lookup_b x (fdyn f) with Some b => Bound b | None => UnboundLocal end
              else resolve_outer x r
          | _ => resolve_outer x r
          end
      end
  end.

(* a read of x executing in the innermost frame of e *)
Definition resolve (x : name) (e : env) : res :=
  match e with
  | f :: ((_ :: _) as r) =>
      match fk f with
      | FClass =>
          match lookup_b x (fdyn f) with
          | Some b => Bound b
          | None => if mem x (flocals f) then global_lookup x e     (* LOAD_NAME *)
                    else resolve_outer x r
          end
      | _ => resolve_outer x e
      end
  | _ => resolve_outer x e
  end.

(* storing into a target: Attribute targets read their base name; names are bound, in order *)
Fixpoint exec_target (ln : nat) (outer : env) (f : frame) (t : target) {struct t} : frame * list rd :=
  match t with
  | TName n => (bind n BOther f, [])
  | TAttr n _ => (f, [(ln, n, resolve n (f :: outer))])
  | TTuple ts => (fix go (l : list target) (f : frame) : frame * list rd :=
                    match l with
                    | [] => (f, [])
                    | x :: r => let '(f1, r1) := exec_target ln outer f x in
                                let '(f2, r2) := go r f1 in (f2, r1 ++ r2)
                    end) ts f
  end.

Definition fun_frame (params : list name) (body_bs : list (name * bsrc)) (static : list name) : frame :=
  mkFrame FFunction (params ++ static) (rev body_bs ++ others params) (others params).
Definition gen_targets (gens : list gen) : list name :=
  flat_map (fun g => match g with Gen _ t _ => target_names t end) gens.
Definition comp_frame (targets : list name) : frame :=
  mkFrame FComp targets (others targets) [].

Fixpoint sem_expr (ln : nat) (e : env) (x : expr) {struct x} : list rd :=
  match x with
  | ELoad n _ => [(ln, n, resolve n e)]
  | EOp es => (fix go (l : list expr) : list rd :=
                 match l with [] => [] | y :: r => sem_expr ln e y ++ go r end) es
  | EAttr y _ => sem_expr ln e y
  | ELambda ps defaults body =>
      (fix go (l : list expr) : list rd :=
         match l with [] => [] | y :: r => sem_expr ln e y ++ go r end) defaults
      ++ sem_expr ln (fun_frame ps [] [] :: finalize e) body
  | EComp gens elts =>
      let '(k, r1) := (fix go (l : list gen) (first : bool) (k : frame) : frame * list rd :=
                         match l with
                         | [] => (k, [])
                         | g :: r => let '(k1, ra) := sem_gen ln e k first g in
                                     let '(k2, rb) := go r false k1 in (k2, ra ++ rb)
                         end) gens true (comp_frame (gen_targets gens)) in
      r1 ++ (fix go (l : list expr) : list rd :=
               match l with [] => [] | y :: r => sem_expr ln (k :: e) y ++ go r end) elts
  end
with sem_gen (ln : nat) (outer : env) (k : frame) (first : bool) (g : gen) {struct g} : frame * list rd :=
  match g with
  | Gen iter tgt ifs =>
      (* the first iterable is evaluated in the enclosing scope *)
      let r1 := sem_expr ln (if first then outer else k :: outer) iter in
      let '(k1, r2) := exec_target ln outer k tgt in
      (k1, r1 ++ r2 ++ (fix go (l : list expr) : list rd :=
                          match l with [] => [] | y :: r => sem_expr ln (k1 :: outer) y ++ go r end) ifs)
  end.

Definition sem_exprs (ln : nat) (e : env) (l : list expr) : list rd := flat_map (sem_expr ln e) l.
Definition sem_oexpr (ln : nat) (e : env) (o : option expr) : list rd :=
  match o with Some x => sem_expr ln e x | None => [] end.
Definition sem_decos (e : env) (l : list (nat * expr)) : list rd :=
  flat_map (fun d => sem_expr (fst d) e (snd d)) l.

Definition param_anns (l : list param) : list expr :=
  flat_map (fun q : param => match snd q with Some a => [a] | None => [] end) l.
Definition oparam_ann (o : option param) : list expr :=
  match o with Some (_, Some a) => [a] | _ => [] end.
(* everything a `def` header evaluates in the defining scope *)
Definition header_exprs (p : params) (ret : option expr) : list expr :=
  p_defaults p ++ flat_map (fun o : option expr => match o with Some x => [x] | None => [] end) (p_kw_defaults p)
  ++ param_anns (p_posonly p) ++ param_anns (p_args p) ++ oparam_ann (p_vararg p)
  ++ param_anns (p_kwonly p) ++ oparam_ann (p_kwarg p)
  ++ match ret with Some x => [x] | None => [] end.

(* statements: env in, (env with the innermost frame updated, reads) out *)
Definition with_head (e : env) (f : frame) : env := match e with [] => [f] | _ :: r => f :: r end.
Definition head (e : env) : frame := hd (mkFrame FModule [] [] []) e.

Definition exec_target_env (ln : nat) (e : env) (t : target) : env * list rd :=
  let '(f, r) := exec_target ln (tl e) (head e) t in (with_head e f, r).

Fixpoint sem_stmt (e : env) (s : stmt) {struct s} : env * list rd :=
  let block := fix block (l : list stmt) (e : env) : env * list rd :=
                 match l with
                 | [] => (e, [])
                 | x :: r => let '(e1, r1) := sem_stmt e x in
                             let '(e2, r2) := block r e1 in (e2, r1 ++ r2)
                 end in
  match s with
  | SExpr ln x => (e, sem_expr ln e x)
  | SAssign ln ts v =>
      let r0 := sem_expr ln e v in
      let '(e1, r1) := fold_left (fun acc t => let '(e, r) := acc in
                                               let '(e', r') := exec_target_env ln e t in (e', r ++ r'))
                                 ts (e, []) in
      (e1, r0 ++ r1)
  | SAugAssign ln n attrs v =>
      let r0 := [(ln, n, resolve n e)] ++ sem_expr ln e v in
      (match attrs with [] => with_head e (bind n BOther (head e)) | _ => e end, r0)
  | SAllAssign ln _ => (with_head e (bind n_all BOther (head e)), [])
  | SImport ln items => (with_head e (bind_all (flat_map (import_bsrcs ln) items) (head e)), [])
  | SImportFrom ln m items => (with_head e (bind_all (flat_map (importfrom_bsrcs ln m) items) (head e)), [])
  | SDef ln nm decos ps ret body =>
      let r0 := sem_decos e decos ++ sem_exprs ln e (header_exprs ps ret) in
      let f := fun_frame (params_names ps) (bsrcs_block false body) (binds_block true body) in
      let '(_, r1) := block body (f :: finalize e) in
      (with_head e (bind nm BOther (head e)), r0 ++ r1)
  | SClass ln nm bases decos kws body =>
      let r0 := sem_decos e decos ++ sem_exprs ln e bases ++ sem_exprs ln e kws in
      let c := mkFrame FClass (binds_block true body) (rev (bsrcs_block false body)) [] in
      let '(_, r1) := block body (c :: e) in
      (with_head e (bind nm BOther (head e)), r0 ++ r1)
  | SFor ln t iter body orelse =>
      let r0 := sem_expr ln e iter in
      let '(e1, r1) := exec_target_env ln e t in
      let '(e2, r2) := block body e1 in
      let '(e3, r3) := block orelse e2 in
      (e3, r0 ++ r1 ++ r2 ++ r3)
  | SWhile ln test body _ =>
      let r0 := sem_expr ln e test in
      let '(e1, r1) := block body e in (e1, r0 ++ r1)
  | SIf ln test body _ =>
      let r0 := sem_expr ln e test in
      let '(e1, r1) := block body e in (e1, r0 ++ r1)
  | SWith ln items body =>
      let '(e1, r1) := fold_left (fun acc it => let '(e, r) := acc in
                                                let r' := sem_expr ln e (fst it) in
                                                match snd it with
                                                | Some t => let '(e', r'') := exec_target_env ln e t in (e', r ++ r' ++ r'')
                                                | None => (e, r ++ r')
                                                end)
                                 items (e, []) in
      let '(e2, r2) := block body e1 in (e2, r1 ++ r2)
  | STry ln body _ orelse finalbody =>
      let '(e1, r1) := block body e in
      let '(e2, r2) := block orelse e1 in
      let '(e3, r3) := block finalbody e2 in
      (e3, r1 ++ r2 ++ r3)
  | SPass _ => (e, [])
  | SDoc _ _ _ => (e, [])
  end.

Fixpoint sem_block (l : list stmt) (e : env) : env * list rd :=
  match l with
  | [] => (e, [])
  | x :: r => let '(e1, r1) := sem_stmt e x in
              let '(e2, r2) := sem_block r e1 in (e2, r1 ++ r2)
  end.

(* the resolution trace of a fully executed program run against builtins [bi] and the initial
   namespaces [ns] *)
Definition module_frame (bi : list name) (ns : list (list name)) (p : program) : frame :=
  let init := others (concat ns ++ bi) in
  mkFrame FModule [] (rev (bsrcs_block false p) ++ init) init.
Definition pysem (bi : list name) (ns : list (list name)) (p : program) : list rd :=
  snd (sem_block p [module_frame bi ns p]).

(* the doctest examples run after the module (as the doctest module runs them): the examples of one docstring
   one after the other in a copy of the final module namespace *)
Definition final_frame (bi : list name) (ns : list (list name)) (p : program) : frame :=
  head (fst (sem_block p [module_frame bi ns p])).
Definition sem_docstring (M : frame) (d : docstring) : list rd := snd (sem_block (fst d) [M]).
Definition pysem_doc (bi : list name) (ns : list (list name)) (p : program) : list rd :=
  pysem bi ns p ++ flat_map (sem_docstring (final_frame bi ns p)) (docstrings_of p).

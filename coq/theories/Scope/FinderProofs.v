(* M7 - proofs about Finder (pyflyby's analysis) against PySem (reference semantics).
   Stage 1: module-level code without nested scopes (the s1 predicates of Fragment.v): the reported lines/names are
   EXACTLY the failing global lookups of PySem. *)
From Coq Require Import NArith List Bool Arith Lia.
From Verif Require Import Scope.PySyntax Scope.Finder Scope.PySem Scope.Fragment Scope.AuxProofs.
Import ListNotations.

(* ---------- the missing list ---------- *)
Definition InM (l : nat) (d : dotted) (ms : list mentry) : Prop :=
  exists m, In m ms /\ m_line m = l /\ m_name m = d.

Lemma existsb_same_missing : forall ln n ms, existsb (same_missing ln n) ms = true <-> InM ln n ms.
Proof.
  intros ln n ms. rewrite existsb_exists. unfold InM, same_missing. split.
  - intros (m & Hin & H). apply andb_true_iff in H as [H1 H2].
    apply Nat.eqb_eq in H1. apply dotted_eqb_eq in H2. eauto.
  - intros (m & Hin & H1 & H2). exists m. split; auto. subst. rewrite Nat.eqb_refl, dotted_eqb_refl. reflexivity.
Qed.

Lemma with_missing_id : forall s, with_missing s (missing s) = s.
Proof. destruct s; reflexivity. Qed.
Lemma with_missing_twice : forall s a b, with_missing (with_missing s a) b = with_missing s b.
Proof. destruct s; reflexivity. Qed.

Lemma add_missing_spec : forall s cur ln d,
  add_missing s cur ln d = with_missing s (missing (add_missing s cur ln d)) /\
  forall l x, InM l x (missing (add_missing s cur ln d)) <-> InM l x (missing s) \/ (l = ln /\ x = d).
Proof.
  intros s cur ln d. unfold add_missing.
  destruct (existsb (same_missing ln d) (missing s)) eqn:E.
  - split. symmetry; apply with_missing_id.
    intros l x. split; auto. intros [H|[-> ->]]; auto. apply existsb_same_missing. exact E.
  - split. destruct s; reflexivity.
    intros l x. cbn. unfold InM. split.
    + intros (m & Hin & H1 & H2). apply in_app_iff in Hin as [Hin|[<-|[]]]; eauto.
    + intros [(m & Hin & H1 & H2)|[-> ->]].
      * exists m. rewrite in_app_iff. auto.
      * eexists. rewrite in_app_iff. split. right; left; reflexivity. cbn. auto.
Qed.

(* reporting unused imports changes the unused list only *)
Lemma report_unused_shape0 : forall d s, exists u, report_unused_of s d = with_unused s u.
Proof.
  induction d as [|[k v] d IH]; intro s; unfold report_unused_of in *; cbn [fold_left snd].
  - exists (unused s). destruct s; reflexivity.
  - destruct v as [|c|cs]; try apply IH.
    destruct (c_used (checker_at s c)). apply IH.
    destruct (IH (with_unused s (unused s ++ [(c_line (checker_at s c), c_imp (checker_at s c))]))) as (u & E).
    exists u. rewrite E. reflexivity.
Qed.
Lemma reports_shape : forall ds s, exists u, fold_left report_unused_of ds s = with_unused s u.
Proof.
  induction ds as [|d ds IH]; intro s; cbn [fold_left]. exists (unused s). destruct s; reflexivity.
  destruct (report_unused_shape0 d s) as (u1 & E1). rewrite E1. destruct (IH (with_unused s u1)) as (u2 & E2).
  exists u2. rewrite E2. reflexivity.
Qed.

(* ---------- symbol_needs_import on scopes that hold no use-checker ---------- *)
Definition allplain (s : st) : Prop := forall i k e, dict_get (scope_dict s i) k = Some e -> e = Plain.
Definition rootclosed (d : dict) : Prop := forall r q, dict_get d (r :: q) <> None -> dict_get d [r] <> None.
Definition bound (s : st) (stk : stack) (x : name) : bool :=
  existsb (fun i => dict_has (scope_dict s i) [x]) stk.

Lemma first_present_none : forall d ps, first_present d ps = None <-> forall p, In p ps -> dict_get d p = None.
Proof.
  induction ps as [|p ps IH]; cbn. split; auto. intros _ p [].
  destruct (dict_get d p) eqn:E.
  - split. discriminate. intro H. rewrite <- E. apply H. auto.
  - rewrite IH. split. intros H q [<-|Hq]; auto. intros H q Hq. apply H. auto.
Qed.

Lemma needs_stack_plain : forall s, allplain s -> forall r ps,
  needs_stack s r ps =
  (forallb (fun i => match first_present (scope_dict s i) ps with None => true | Some _ => false end) r, s).
Proof.
  intros s Hp r ps. induction r as [|i r IH]; cbn. reflexivity.
  assert (G : forall e, first_present (scope_dict s i) ps = Some e -> e = Plain).
  { clear IH. induction ps as [|p ps IHp]; cbn; intros e E. discriminate.
    destruct (dict_get (scope_dict s i) p) eqn:E2.
    - injection E as <-. eapply Hp. exact E2.
    - auto. }
  destruct (first_present (scope_dict s i) ps) as [e|] eqn:E; auto.
  rewrite (G e eq_refl). reflexivity.
Qed.

Lemma needs_bound : forall s stk n a, allplain s -> (forall i, rootclosed (scope_dict s i)) ->
  needs s stk (n :: a) = (negb (bound s stk n), s).
Proof.
  intros s stk n a Hp Hr. unfold needs. rewrite needs_stack_plain by exact Hp. f_equal.
  apply eq_true_iff_eq. rewrite forallb_forall, negb_true_iff. unfold bound.
  split.
  - intro H. destruct (existsb _ stk) eqn:E; auto. apply existsb_exists in E as (i & Hi & Hd).
    specialize (H i (proj1 (in_rev _ _) Hi)).
    destruct (first_present (scope_dict s i) (rev (prefixes (n :: a)))) eqn:E2; try discriminate.
    rewrite first_present_none in E2. unfold dict_has in Hd.
    rewrite (E2 [n]) in Hd. discriminate. apply -> in_rev. apply prefixes_first.
  - intros H i Hi. apply in_rev in Hi.
    destruct (first_present (scope_dict s i) (rev (prefixes (n :: a)))) eqn:E2; auto.
    exfalso. assert (Hn : first_present (scope_dict s i) (rev (prefixes (n :: a))) <> None) by congruence.
    rewrite first_present_none in Hn. apply Hn. intros p Hp'. apply in_rev in Hp'.
    destruct (prefixes_head _ _ _ Hp') as (q & ->).
    destruct (dict_get (scope_dict s i) (n :: q)) eqn:E3; auto. exfalso.
    assert (Hx : dict_get (scope_dict s i) [n] <> None). { apply (Hr i n q). congruence. }
    assert (He : existsb (fun i0 : nat => dict_has (scope_dict s i0) [n]) stk = true).
    { apply existsb_exists. exists i. split; auto. unfold dict_has. destruct (dict_get (scope_dict s i) [n]); congruence. }
    congruence.
Qed.

(* ---------- the invariant of the stage-1 simulation (Finder side) ---------- *)
Definition FInv (stk : stack) (s : st) : Prop :=
  allplain s /\ (forall i, rootclosed (scope_dict s i)) /\ has_star s stk = false /\ in_fd s = false /\ In (top stk) stk /\
  deferred s = [].

Lemma FInv_with_missing : forall stk s m, FInv stk s -> FInv stk (with_missing s m).
Proof. intros stk s m H. exact H. Qed.
Lemma FInv_with_ln : forall stk s l, FInv stk s -> FInv stk (with_ln s l).
Proof. intros stk s l H. exact H. Qed.

Lemma load_s1 : forall stk s n a, FInv stk s ->
  load s stk (n :: a) = if bound s stk n then s else add_missing s stk (lineno s) (n :: a).
Proof.
  intros stk s n a (Hp & Hr & Hs & Hf & _). unfold load. rewrite Hf. unfold check_load.
  rewrite needs_bound by assumption. rewrite Hs. destruct (bound s stk n); reflexivity.
Qed.

(* what changed in the missing list, in terms of PySem's failing global lookups *)
Definition MC (s s' : st) (rds : list rd) : Prop :=
  forall l n, (exists a, InM l (n :: a) (missing s')) <-> (exists a, InM l (n :: a) (missing s)) \/ In (l, n, Unbound) rds.

Lemma MC_refl : forall s, MC s s [].
Proof. intros s l n. cbn. tauto. Qed.
Lemma MC_same_missing : forall s s' rds s2, missing s2 = missing s -> MC s s' rds -> MC s2 s' rds.
Proof. intros s s' rds s2 E H l n. rewrite E. apply H. Qed.
Lemma MC_same_missing_r : forall s s' rds s2, missing s2 = missing s' -> MC s s' rds -> MC s s2 rds.
Proof. intros s s' rds s2 E H l n. rewrite E. apply H. Qed.
Lemma MC_trans : forall s1 s2 s3 r1 r2, MC s1 s2 r1 -> MC s2 s3 r2 -> MC s1 s3 (r1 ++ r2).
Proof.
  intros s1 s2 s3 r1 r2 H1 H2 l n. rewrite (H2 l n), (H1 l n), in_app_iff. tauto.
Qed.

Definition Rel (stk : stack) (s : st) (M : frame) : Prop :=
  FInv stk s /\ forall x, bound s stk x = true <-> lookup_b x (fdyn M) <> None.

Lemma resolve_module : forall x M,
  resolve x [M] = match lookup_b x (fdyn M) with Some b => Bound b | None => Unbound end.
Proof. reflexivity. Qed.

(* one load *)
Lemma load_sim : forall stk s M n a, Rel stk s M ->
  load s stk (n :: a) = with_missing s (missing (load s stk (n :: a))) /\
  MC s (load s stk (n :: a)) [(lineno s, n, resolve n [M])].
Proof.
  intros stk s M n a [HF HB]. rewrite load_s1 by exact HF. rewrite resolve_module.
  destruct (bound s stk n) eqn:E.
  - split. symmetry; apply with_missing_id.
    apply HB in E. destruct (lookup_b n (fdyn M)); try congruence.
    intros l x. cbn. split; auto. intros [H|[H|[]]]; auto. discriminate.
  - destruct (add_missing_spec s stk (lineno s) (n :: a)) as [H1 H2]. split. exact H1.
    assert (HN : lookup_b n (fdyn M) = None).
    { destruct (lookup_b n (fdyn M)) eqn:E2; auto. assert (bound s stk n = true) by (apply HB; congruence). congruence. }
    rewrite HN. intros l x. cbn. split.
    + intros (a' & H). apply H2 in H as [H|[Hl H]]. left; eauto.
      injection H as Hx _. subst l x. right; left; reflexivity.
    + intros [(a' & H)|[H|[]]]. exists a'. apply H2. auto.
      injection H as Hl Hx. subst l x. exists a. apply H2. auto.
Qed.

Lemma Rel_with_missing : forall stk s M m, Rel stk s M -> Rel stk (with_missing s m) M.
Proof. intros stk s M m H. exact H. Qed.
Lemma Rel_with_ln : forall stk s M l, Rel stk s M -> Rel stk (with_ln s l) M.
Proof. intros stk s M l H. exact H. Qed.

(* a sequence of loads *)
Lemma loads_sim : forall stk M ds s, Rel stk s M -> Forall (fun d => d <> []) ds ->
  let s' := fold_left (fun s d => load s stk d) ds s in
  s' = with_missing s (missing s') /\
  MC s s' (map (fun d => (lineno s, hd 0%N d, resolve (hd 0%N d) [M])) ds).
Proof.
  intros stk M ds. induction ds as [|d ds IH]; intros s HR HF; cbn.
  - split. symmetry; apply with_missing_id. apply MC_refl.
  - inversion HF as [|? ? Hd HF']; subst. destruct d as [|n a]. congruence.
    destruct (load_sim stk s M n a HR) as [E1 M1].
    set (s1 := load s stk (n :: a)) in *.
    assert (HR1 : Rel stk s1 M). { rewrite E1. apply Rel_with_missing. exact HR. }
    destruct (IH s1 HR1 HF') as [E2 M2]. cbn in E2, M2.
    assert (Hln : lineno s1 = lineno s). { rewrite E1. reflexivity. }
    split.
    + rewrite E2 at 1. rewrite E1. rewrite with_missing_twice. reflexivity.
    + rewrite Hln in M2. apply (MC_trans s s1 _ [_] _ M1 M2).
Qed.

(* ---------- stage-1 expressions ---------- *)
Lemma vexpr_s1 : forall track stk e, s1_expr e = true ->
  forall s, vexpr track e stk s = fold_left (fun s d => load s stk d) (loads e) s.
Proof.
  intros track stk e. induction e using expr_ind' with (Q := fun _ => True); try exact I; cbn; intros Hs s; try discriminate; auto.
  revert s. induction H as [|x es Hx Hes IH]; intro s. reflexivity.
  apply andb_true_iff in Hs as [H1 H2].
  rewrite fold_left_app. rewrite <- (Hx H1). apply IH. exact H2.
Qed.

Lemma sem_expr_s1 : forall ln e x, s1_expr x = true ->
  sem_expr ln e x = map (fun d => (ln, hd 0%N d, resolve (hd 0%N d) e)) (loads x).
Proof.
  intros ln e x. induction x using expr_ind' with (Q := fun _ => True); try exact I; cbn; intros Hs; try discriminate; auto.
  induction H as [|x es Hx Hes IH]. reflexivity.
  apply andb_true_iff in Hs as [H1 H2].
  rewrite map_app. f_equal. apply Hx; exact H1. apply IH. exact H2.
Qed.

Lemma loads_nonempty : forall e, Forall (fun d => d <> []) (loads e).
Proof.
  intro e. induction e using expr_ind' with (Q := fun _ => True); try exact I; cbn; auto.
  - constructor; auto. discriminate.
  - induction H as [|x es Hx Hes IH]. constructor. apply Forall_app. split; assumption.
Qed.

Lemma expr_sim : forall stk s M e, Rel stk s M -> s1_expr e = true ->
  let s' := vexpr false e stk s in
  s' = with_missing s (missing s') /\ MC s s' (sem_expr (lineno s) [M] e).
Proof.
  intros stk s M e HR Hs. cbn. rewrite vexpr_s1 by exact Hs. rewrite sem_expr_s1 by exact Hs.
  apply loads_sim. exact HR. apply loads_nonempty.
Qed.

(* ---------- stores ---------- *)
Lemma set_in_scope_fields : forall s i k v,
  missing (set_in_scope s i k v) = missing s /\ lineno (set_in_scope s i k v) = lineno s /\
  in_fd (set_in_scope s i k v) = in_fd s /\ deferred (set_in_scope s i k v) = deferred s /\
  next_id (set_in_scope s i k v) = next_id s /\ in_cd (set_in_scope s i k v) = in_cd s.
Proof. intros s i k v. unfold set_in_scope. destruct (get_scope (scopes s) i). cbn. auto 10. Qed.

Lemma store_false : forall s stk k v, store false s stk k v = set_in_scope s (top stk) k v.
Proof. reflexivity. Qed.

Lemma dict_has_set : forall d k v k', dict_has (dict_set d k v) k' = dotted_eqb k' k || dict_has d k'.
Proof. intros. unfold dict_has. rewrite dict_get_set. destruct (dotted_eqb k' k); reflexivity. Qed.

Lemma bound_set_top : forall stk s k x, In (top stk) stk ->
  bound (set_in_scope s (top stk) k Plain) stk x = bound s stk x || dotted_eqb [x] k.
Proof.
  intros stk s k x Ht. apply eq_true_iff_eq. unfold bound. rewrite orb_true_iff, !existsb_exists. split.
  - intros (i & Hi & H). rewrite scope_dict_set_in_scope in H. destruct (Nat.eqb (top stk) i) eqn:E.
    + rewrite dict_has_set in H. apply orb_true_iff in H as [H|H]; auto.
      apply Nat.eqb_eq in E. subst i. left. eauto.
    + left. eauto.
  - intros [(i & Hi & H)|H].
    + exists i. split; auto. rewrite scope_dict_set_in_scope. destruct (Nat.eqb (top stk) i) eqn:E; auto.
      apply Nat.eqb_eq in E. subst i. rewrite dict_has_set, H. apply orb_true_r.
    + exists (top stk). split; auto. rewrite scope_dict_set_in_scope, Nat.eqb_refl, dict_has_set, H. reflexivity.
Qed.

Lemma dict_get_has : forall d k, dict_get d k <> None <-> dict_has d k = true.
Proof. intros. unfold dict_has. destruct (dict_get d k); split; congruence. Qed.

(* storing the key r :: q where either q = [] (a name) or [r] is already a key of the top scope *)
Lemma FInv_store : forall stk s r q, FInv stk s ->
  (q = [] /\ r <> n_star) \/ dict_get (scope_dict s (top stk)) [r] <> None ->
  FInv stk (set_in_scope s (top stk) (r :: q) Plain).
Proof.
  intros stk s r q (Hp & Hr & Hs & Hf & Ht & Hd) Hk.
  destruct (set_in_scope_fields s (top stk) (r :: q) Plain) as (_ & _ & Efd & Edf & _).
  repeat split; auto; try congruence.
  - intros i k e. rewrite scope_dict_set_in_scope. destruct (Nat.eqb (top stk) i); [|apply Hp].
    rewrite dict_get_set. destruct (dotted_eqb k (r :: q)); [|apply Hp]. congruence.
  - intros i r' q'. rewrite scope_dict_set_in_scope. destruct (Nat.eqb (top stk) i) eqn:E; [|apply Hr].
    apply Nat.eqb_eq in E. subst i. rewrite !dict_get_set.
    destruct (dotted_eqb [r'] (r :: q)) eqn:E1. intros _; discriminate.
    destruct (dotted_eqb (r' :: q') (r :: q)) eqn:E2.
    + apply dotted_eqb_eq in E2. injection E2 as -> ->. intros _.
      destruct Hk as [[-> _]|Hk]; auto. rewrite dotted_eqb_refl in E1. discriminate.
    + apply Hr.
  - change (has_star (set_in_scope s (top stk) (r :: q) Plain) stk) with (bound (set_in_scope s (top stk) (r :: q) Plain) stk n_star).
    rewrite bound_set_top by exact Ht. change (bound s stk n_star) with (has_star s stk). rewrite Hs. cbn [orb].
    apply dotted_eqb_neq. intro E. injection E as <- <-.
    destruct Hk as [[_ Hk]|Hk]. congruence.
    apply dict_get_has in Hk.
    assert (has_star s stk = true). { unfold has_star. apply existsb_exists. exists (top stk). auto. }
    congruence.
Qed.

Lemma lookup_b_bind : forall x n b M, lookup_b x (fdyn (bind n b M)) = if N.eqb x n then Some b else lookup_b x (fdyn M).
Proof. reflexivity. Qed.

Lemma Rel_store_name : forall stk s M n b, Rel stk s M -> n <> n_star ->
  Rel stk (set_in_scope s (top stk) [n] Plain) (bind n b M).
Proof.
  intros stk s M n b [HF HB] Hn. split.
  - apply FInv_store; auto.
  - intro x. destruct HF as (_ & _ & _ & _ & Ht & _). rewrite bound_set_top by exact Ht. rewrite lookup_b_bind.
    cbn [dotted_eqb]. rewrite andb_true_r. destruct (N.eqb x n).
    + rewrite orb_true_r. split; congruence.
    + rewrite orb_false_r. apply HB.
Qed.

Lemma Rel_store_sub : forall stk s M r q, Rel stk s M ->
  dict_get (scope_dict s (top stk)) [r] <> None ->
  Rel stk (set_in_scope s (top stk) (r :: q) Plain) M.
Proof.
  intros stk s M r q [HF HB] Hk. split.
  - apply FInv_store; auto.
  - intro x. destruct HF as (_ & _ & _ & _ & Ht & _). rewrite bound_set_top by exact Ht.
    destruct (dotted_eqb [x] (r :: q)) eqn:E.
    + apply dotted_eqb_eq in E. injection E as Hx Hq. subst r q. rewrite orb_true_r.
      assert (Hb : bound s stk x = true).
      { unfold bound. apply existsb_exists. exists (top stk). split; auto. apply dict_get_has. exact Hk. }
      apply HB in Hb. split; auto.
    + rewrite orb_false_r. apply HB.
Qed.

Lemma top_has_after_store : forall s stk r,
  dict_get (scope_dict (set_in_scope s (top stk) [r] Plain) (top stk)) [r] <> None.
Proof. intros. rewrite scope_dict_set_in_scope, Nat.eqb_refl, dict_get_set, dotted_eqb_refl. discriminate. Qed.
Lemma top_has_preserved : forall s stk k r,
  dict_get (scope_dict s (top stk)) [r] <> None ->
  dict_get (scope_dict (set_in_scope s (top stk) k Plain) (top stk)) [r] <> None.
Proof.
  intros. rewrite scope_dict_set_in_scope, Nat.eqb_refl, dict_get_set. destruct (dotted_eqb [r] k); auto. discriminate.
Qed.

(* a run of stores whose keys all start with r, the root already being a key *)
Lemma Rel_store_subs : forall stk M r ks s, Rel stk s M ->
  dict_get (scope_dict s (top stk)) [r] <> None ->
  (forall k, In k ks -> exists q, k = r :: q) ->
  let s' := fold_left (fun s k => store false s stk k Plain) ks s in
  Rel stk s' M /\ missing s' = missing s /\ lineno s' = lineno s.
Proof.
  intros stk M r ks. induction ks as [|k ks IH]; intros s HR Hk Hall; cbn. auto.
  destruct (Hall k (or_introl eq_refl)) as (q & ->). rewrite store_false.
  destruct (set_in_scope_fields s (top stk) (r :: q) Plain) as (Em & El & _).
  destruct (IH (set_in_scope s (top stk) (r :: q) Plain)) as (H1 & H2 & H3).
  - apply Rel_store_sub; auto.
  - apply top_has_preserved. exact Hk.
  - intros k Hin. apply Hall. right. exact Hin.
  - cbn in H1, H2, H3. split. exact H1. split; congruence.
Qed.

(* binding a list of plain names *)
Lemma names_sim : forall stk names s M, Rel stk s M -> Forall (fun n => n <> n_star) names ->
  let s' := fold_left (fun s n => set_in_scope s (top stk) [n] Plain) names s in
  Rel stk s' (bind_all (others names) M) /\ missing s' = missing s /\ lineno s' = lineno s.
Proof.
  intros stk names. induction names as [|n names IH]; intros s M HR HF; cbn. auto.
  inversion HF as [|? ? Hn HF']; subst.
  destruct (set_in_scope_fields s (top stk) [n] Plain) as (Em & El & _).
  destruct (IH (set_in_scope s (top stk) [n] Plain) (bind n BOther M)) as (H1 & H2 & H3); auto.
  - apply Rel_store_name; auto.
  - cbn in H1, H2, H3. split; auto. split; congruence.
Qed.

(* ---------- stage-1 targets ---------- *)
Lemma vtarget_s1 : forall t, s1_target t = true -> forall stk s,
  vtarget false t stk s = fold_left (fun s n => set_in_scope s (top stk) [n] Plain) (target_names t) s.
Proof.
  intro t. induction t using target_ind'; cbn; intros Hs stk s; try discriminate; auto.
  revert s. induction H as [|x ts Hx Hts IH]; intro s. reflexivity.
  apply andb_true_iff in Hs as [H1 H2]. rewrite fold_left_app. rewrite <- (Hx H1). apply IH. exact H2.
Qed.

Lemma bind_all_app : forall a b f, bind_all (a ++ b) f = bind_all b (bind_all a f).
Proof. intros. unfold bind_all. apply fold_left_app. Qed.
Lemma others_app : forall a b, others (a ++ b) = others a ++ others b.
Proof. intros. unfold others. apply map_app. Qed.

Lemma exec_target_s1 : forall ln outer t, s1_target t = true -> forall f,
  exec_target ln outer f t = (bind_all (others (target_names t)) f, []).
Proof.
  intros ln outer t. induction t using target_ind'; cbn; intros Hs f; try discriminate; auto.
  revert f. induction H as [|x ts Hx Hts IH]; intro f. reflexivity.
  apply andb_true_iff in Hs as [H1 H2]. rewrite (Hx H1). rewrite (IH H2). cbn.
  rewrite others_app, bind_all_app. reflexivity.
Qed.

Lemma target_names_not_star : forall t, s1_target t = true -> Forall (fun n => n <> n_star) (target_names t).
Proof.
  intro t. induction t using target_ind'; cbn; intros Hs; try discriminate.
  - constructor; auto. unfold not_star in Hs. apply negb_true_iff, N.eqb_neq in Hs. exact Hs.
  - induction H as [|x ts Hx Hts IH]. constructor.
    apply andb_true_iff in Hs as [H1 H2]. apply Forall_app. auto.
Qed.

Lemma target_sim : forall stk s M ln t, Rel stk s M -> s1_target t = true ->
  let s' := vtarget false t stk s in
  exists M', exec_target_env ln [M] t = ([M'], []) /\ Rel stk s' M' /\ missing s' = missing s /\ lineno s' = lineno s.
Proof.
  intros stk s M ln t HR Hs. cbn. rewrite vtarget_s1 by exact Hs.
  unfold exec_target_env. cbn [tl head hd]. rewrite exec_target_s1 by exact Hs. cbn [with_head].
  eexists. split. reflexivity. apply names_sim; auto. apply target_names_not_star. exact Hs.
Qed.

(* ---------- unfolding the block-local fixpoints ---------- *)
Lemma vblock_fix : forall track l stk s,
  (fix vb (l : list stmt) (stk : stack) (s : st) {struct l} : st :=
     match l with [] => s | y :: r => vb r stk (vstmt track y stk s) end) l stk s = vblock track l stk s.
Proof. intros track l. induction l as [|y l IH]; intros stk s. reflexivity. unfold vblock. cbn [fold_left]. apply IH. Qed.
Lemma sem_block_fix : forall l e,
  (fix block (l : list stmt) (e : env) {struct l} : env * list rd :=
     match l with
     | [] => (e, [])
     | x :: r => let '(e1, r1) := sem_stmt e x in let '(e2, r2) := block r e1 in (e2, r1 ++ r2)
     end) l e = sem_block l e.
Proof. induction l as [|y l IH]; intro e. reflexivity. cbn [sem_block]. destruct (sem_stmt e y). rewrite IH. reflexivity. Qed.

Lemma vstmt_for : forall track ln t it b o stk s,
  vstmt track (SFor ln t it b o) stk s =
  vblock track o stk (vblock track b stk (vtarget track t stk (vexpr track it stk (with_ln s ln)))).
Proof. intros. cbn [vstmt]. rewrite !vblock_fix. reflexivity. Qed.
Lemma sem_stmt_for : forall e ln t it b o,
  sem_stmt e (SFor ln t it b o) =
  (let r0 := sem_expr ln e it in
   let '(e1, r1) := exec_target_env ln e t in
   let '(e2, r2) := sem_block b e1 in
   let '(e3, r3) := sem_block o e2 in
   (e3, r0 ++ r1 ++ r2 ++ r3)).
Proof. intros. cbn [sem_stmt]. destruct (exec_target_env ln e t). rewrite !sem_block_fix. reflexivity. Qed.
Lemma vstmt_while : forall track ln t b o stk s,
  vstmt track (SWhile ln t b o) stk s = vblock track o stk (vblock track b stk (vexpr track t stk (with_ln s ln))).
Proof. intros. cbn [vstmt]. rewrite !vblock_fix. reflexivity. Qed.
Lemma vstmt_if : forall track ln t b o stk s,
  vstmt track (SIf ln t b o) stk s = vblock track o stk (vblock track b stk (vexpr track t stk (with_ln s ln))).
Proof. intros. cbn [vstmt]. rewrite !vblock_fix. reflexivity. Qed.
Lemma sem_stmt_while : forall e ln t b o,
  sem_stmt e (SWhile ln t b o) = (let r0 := sem_expr ln e t in let '(e1, r1) := sem_block b e in (e1, r0 ++ r1)).
Proof. intros. cbn [sem_stmt]. cbv zeta. rewrite !sem_block_fix. reflexivity. Qed.
Lemma sem_stmt_if : forall e ln t b o,
  sem_stmt e (SIf ln t b o) = (let r0 := sem_expr ln e t in let '(e1, r1) := sem_block b e in (e1, r0 ++ r1)).
Proof. intros. cbn [sem_stmt]. cbv zeta. rewrite !sem_block_fix. reflexivity. Qed.
Lemma vstmt_try_nohandler : forall track ln b o f stk s,
  vstmt track (STry ln b [] o f) stk s = vblock track f stk (vblock track o stk (vblock track b stk (with_ln s ln))).
Proof. intros. cbn [vstmt]. rewrite !vblock_fix. reflexivity. Qed.
Lemma sem_stmt_try : forall e ln b hs o f,
  sem_stmt e (STry ln b hs o f) =
  (let '(e1, r1) := sem_block b e in let '(e2, r2) := sem_block o e1 in let '(e3, r3) := sem_block f e2 in
   (e3, r1 ++ r2 ++ r3)).
Proof. intros. cbn [sem_stmt]. cbv zeta. rewrite !sem_block_fix. reflexivity. Qed.
Definition with_item_step (track : bool) (stk : stack) (s : st) (it : expr * option target) : st :=
  let s' := vexpr track (fst it) stk s in match snd it with Some t => vtarget track t stk s' | None => s' end.
Lemma vstmt_with : forall track ln items b stk s,
  vstmt track (SWith ln items b) stk s = vblock track b stk (fold_left (with_item_step track stk) items (with_ln s ln)).
Proof. intros. cbn [vstmt]. rewrite !vblock_fix. reflexivity. Qed.
Definition sem_with_step (ln : nat) (acc : env * list rd) (it : expr * option target) : env * list rd :=
  let '(e, r) := acc in
  let r' := sem_expr ln e (fst it) in
  match snd it with
  | Some t => let '(e', r'') := exec_target_env ln e t in (e', r ++ r' ++ r'')
  | None => (e, r ++ r')
  end.
Lemma sem_stmt_with : forall e ln items b,
  sem_stmt e (SWith ln items b) =
  (let '(e1, r1) := fold_left (sem_with_step ln) items (e, []) in let '(e2, r2) := sem_block b e1 in (e2, r1 ++ r2)).
Proof.
  intros. cbn [sem_stmt]. cbv zeta. unfold sem_with_step.
  match goal with |- context [fold_left ?f items (e, [])] => destruct (fold_left f items (e, [])) end.
  rewrite sem_block_fix. reflexivity.
Qed.

(* ---------- imports ---------- *)
Lemma removelast_In : forall A (l : list A) x, In x (removelast l) -> In x l.
Proof.
  induction l as [|y l IH]; cbn; intros x H. contradiction.
  destruct l as [|z l]. contradiction. destruct H as [H|H]; auto.
Qed.

Lemma not_star_neq : forall n, not_star n = true -> n <> n_star.
Proof. intros n H. unfold not_star in H. apply negb_true_iff, N.eqb_neq in H. exact H. Qed.

Lemma import_item_sim : forall stk s M ln it, Rel stk s M -> s1_import_item it = true ->
  let s' := store_import false s stk (fst it) (snd it) None in
  Rel stk s' (bind_all (import_bsrcs ln it) M) /\ missing s' = missing s /\ lineno s' = lineno s.
Proof.
  intros stk s M ln [aname asname] HR Hs. unfold s1_import_item in Hs. cbn [fst snd] in *.
  apply andb_true_iff in Hs as [H1 H2].
  destruct aname as [|r rest]; try discriminate. apply not_star_neq in H1.
  unfold store_import, import_bsrcs. cbn [fst snd negb orb].
  destruct asname as [a|].
  - apply not_star_neq in H2. rewrite store_false. cbn [bind_all fold_left fst snd].
    destruct (set_in_scope_fields s (top stk) [a] Plain) as (Em & El & _).
    split. apply Rel_store_name; auto. auto.
  - assert (Estar : dotted_eqb (r :: rest) [n_star] = false).
    { apply dotted_eqb_neq. intro E. injection E as E _. contradiction. }
    rewrite Estar. cbn [bind_all fold_left fst snd].
    destruct rest as [|x rest'].
    + cbn. destruct (set_in_scope_fields s (top stk) [r] Plain) as (Em & El & _).
      split. apply Rel_store_name; auto. auto.
    + assert (Epp : proper_prefixes (r :: x :: rest') = [r] :: removelast (prefixes_from [r] (x :: rest'))).
      { unfold proper_prefixes, prefixes. cbn. reflexivity. }
      rewrite Epp. cbn [fold_left]. rewrite (store_false s stk [r]).
      set (s1 := set_in_scope s (top stk) [r] Plain).
      destruct (set_in_scope_fields s (top stk) [r] Plain) as (Em & El & _). fold s1 in Em, El.
      assert (HR1 : Rel stk s1 (bind r (BImp ln (r :: x :: rest', r :: x :: rest')) M)) by (apply Rel_store_name; auto).
      destruct (Rel_store_subs stk _ r (removelast (prefixes_from [r] (x :: rest'))) s1 HR1) as (HR2 & Em2 & El2).
      * apply top_has_after_store.
      * intros k Hk. apply removelast_In in Hk. apply prefixes_from_shape in Hk as (q & -> & _). exists q. reflexivity.
      * cbv zeta in HR2, Em2, El2.
        set (s2 := fold_left (fun s k => store false s stk k Plain) (removelast (prefixes_from [r] (x :: rest'))) s1) in *.
        rewrite store_false.
        destruct (set_in_scope_fields s2 (top stk) (r :: x :: rest') Plain) as (Em3 & El3 & _).
        split. apply Rel_store_sub; auto.
        { assert (Hk : forall k, In k (removelast (prefixes_from [r] (x :: rest'))) -> exists q, k = r :: q).
          { intros k Hk. apply removelast_In in Hk. apply prefixes_from_shape in Hk as (q & -> & _). exists q. reflexivity. }
          clear - Hk. subst s2.
          assert (G : forall ks s0, dict_get (scope_dict s0 (top stk)) [r] <> None ->
                        dict_get (scope_dict (fold_left (fun s k => store false s stk k Plain) ks s0) (top stk)) [r] <> None).
          { induction ks as [|k ks IH]; intros s0 H0; cbn. exact H0. apply IH. rewrite store_false. apply top_has_preserved. exact H0. }
          apply G. apply top_has_after_store. }
        split; congruence.
Qed.

Lemma from_item_sim : forall stk s M ln m it, Rel stk s M -> s1_from_item it = true ->
  let s' := store_import false s stk [fst it] (snd it) (Some m) in
  Rel stk s' (bind_all (importfrom_bsrcs ln m it) M) /\ missing s' = missing s /\ lineno s' = lineno s.
Proof.
  intros stk s M ln m [nm asname] HR Hs. unfold s1_from_item in Hs. cbn [fst snd] in *.
  apply andb_true_iff in Hs as [H1 H2].
  assert (Hn : nm <> n_star) by (apply not_star_neq; exact H1).
  unfold store_import, importfrom_bsrcs. cbn [fst snd negb orb].
  assert (E : N.eqb nm n_star = false) by (apply N.eqb_neq; exact Hn). rewrite E.
  destruct asname as [a|].
  - apply not_star_neq in H2. rewrite store_false. cbn [bind_all fold_left fst snd].
    destruct (set_in_scope_fields s (top stk) [a] Plain) as (Em & El & _).
    split. apply Rel_store_name; auto. auto.
  - cbn [dotted_eqb]. rewrite E. cbn [andb proper_prefixes prefixes prefixes_from app removelast fold_left].
    rewrite store_false. cbn [bind_all fold_left fst snd].
    destruct (set_in_scope_fields s (top stk) [nm] Plain) as (Em & El & _).
    split. apply Rel_store_name; auto. auto.
Qed.

Lemma import_items_sim : forall stk ln items s M, Rel stk s M -> forallb s1_import_item items = true ->
  let s' := fold_left (fun s it => store_import false s stk (fst it) (snd it) None) items s in
  Rel stk s' (bind_all (flat_map (import_bsrcs ln) items) M) /\ missing s' = missing s /\ lineno s' = lineno s.
Proof.
  intros stk ln items. induction items as [|it items IH]; intros s M HR Hs; cbn. auto.
  cbn in Hs. apply andb_true_iff in Hs as [H1 H2].
  destruct (import_item_sim stk s M ln it HR H1) as (HR1 & Em & El). cbn in HR1, Em, El.
  rewrite bind_all_app.
  destruct (IH _ _ HR1 H2) as (HR2 & Em2 & El2). cbn in HR2, Em2, El2.
  split. exact HR2. split; congruence.
Qed.
Lemma from_items_sim : forall stk ln m items s M, Rel stk s M -> forallb s1_from_item items = true ->
  let s' := fold_left (fun s it => store_import false s stk [fst it] (snd it) (Some m)) items s in
  Rel stk s' (bind_all (flat_map (importfrom_bsrcs ln m) items) M) /\ missing s' = missing s /\ lineno s' = lineno s.
Proof.
  intros stk ln m items. induction items as [|it items IH]; intros s M HR Hs; cbn. auto.
  cbn in Hs. apply andb_true_iff in Hs as [H1 H2].
  destruct (from_item_sim stk s M ln m it HR H1) as (HR1 & Em & El). cbn in HR1, Em, El.
  rewrite bind_all_app.
  destruct (IH _ _ HR1 H2) as (HR2 & Em2 & El2). cbn in HR2, Em2, El2.
  split. exact HR2. split; congruence.
Qed.

(* ---------- stage-1 statements ---------- *)
Definition SimS (x : stmt) : Prop :=
  s1_stmt x = true -> forall stk s M, Rel stk s M ->
  exists M' rds, sem_stmt [M] x = ([M'], rds) /\ Rel stk (vstmt false x stk s) M' /\ MC s (vstmt false x stk s) rds.

Definition SimB (l : list stmt) : Prop :=
  s1_block l = true -> forall stk s M, Rel stk s M ->
  exists M' rds, sem_block l [M] = ([M'], rds) /\ Rel stk (vblock false l stk s) M' /\ MC s (vblock false l stk s) rds.

Lemma s1_blk_fix : forall l,
  (fix blk (l : list stmt) : bool := match l with [] => true | y :: r => s1_stmt y && blk r end) l = s1_block l.
Proof. reflexivity. Qed.

Lemma block_sim : forall l, Forall SimS l -> SimB l.
Proof.
  induction l as [|x l IH]; intros HF Hs stk s M HR.
  - exists M, []. split. reflexivity. split. exact HR. apply MC_refl.
  - inversion HF as [|? ? Hx HF']; subst. cbn in Hs. apply andb_true_iff in Hs as [H1 H2].
    destruct (Hx H1 stk s M HR) as (M1 & r1 & E1 & HR1 & MC1).
    destruct (IH HF' H2 stk _ M1 HR1) as (M2 & r2 & E2 & HR2 & MC2).
    exists M2, (r1 ++ r2). cbn [sem_block]. rewrite E1, E2. split. reflexivity.
    unfold vblock in *. cbn [fold_left]. split. exact HR2. eapply MC_trans; eauto.
Qed.

Lemma expr_step : forall stk s M ln e, Rel stk s M -> s1_expr e = true ->
  let s' := vexpr false e stk (with_ln s ln) in
  Rel stk s' M /\ MC s s' (sem_expr ln [M] e) /\ lineno s' = ln.
Proof.
  intros stk s M ln e HR Hs. cbn.
  destruct (expr_sim stk (with_ln s ln) M e (Rel_with_ln _ _ _ ln HR) Hs) as [E1 M1]. cbn in E1, M1.
  split. rewrite E1. apply Rel_with_missing. apply Rel_with_ln. exact HR.
  split. eapply MC_same_missing; [|exact M1]. reflexivity.
  rewrite E1. reflexivity.
Qed.
(* the same when the line is already current *)
Lemma expr_step' : forall stk s M e, Rel stk s M -> s1_expr e = true ->
  let s' := vexpr false e stk s in
  Rel stk s' M /\ MC s s' (sem_expr (lineno s) [M] e) /\ lineno s' = lineno s.
Proof.
  intros stk s M e HR Hs. cbn.
  destruct (expr_sim stk s M e HR Hs) as [E1 M1]. cbn in E1, M1.
  split. rewrite E1. apply Rel_with_missing. exact HR.
  split. exact M1. rewrite E1. reflexivity.
Qed.

Lemma MC_app_nil : forall s s' r, MC s s' r -> MC s s' (r ++ []).
Proof. intros. rewrite app_nil_r. assumption. Qed.

Lemma targets_sim : forall stk ln ts s M acc, Rel stk s M -> forallb s1_target ts = true ->
  let s' := fold_left (fun s t => vtarget false t stk s) ts s in
  exists M', fold_left (fun acc t => let '(e, r) := acc in let '(e', r') := exec_target_env ln e t in (e', r ++ r')) ts
                       (@pair env (list rd) [M] acc)
             = ([M'], acc) /\ Rel stk s' M' /\ missing s' = missing s /\ lineno s' = lineno s.
Proof.
  intros stk ln ts. induction ts as [|t ts IH]; intros s M acc HR Hs; cbn.
  - exists M. auto.
  - cbn in Hs. apply andb_true_iff in Hs as [H1 H2].
    destruct (target_sim stk s M ln t HR H1) as (M1 & E1 & HR1 & Em & El). cbn in HR1, Em, El.
    rewrite E1. rewrite app_nil_r.
    destruct (IH _ M1 acc HR1 H2) as (M2 & E2 & HR2 & Em2 & El2). cbn in E2, HR2, Em2, El2.
    exists M2. split. exact E2. split. exact HR2. split; congruence.
Qed.

Lemma with_items_sim : forall stk ln items s M acc, Rel stk s M -> lineno s = ln ->
  forallb s1_with_item items = true ->
  let s' := fold_left (with_item_step false stk) items s in
  exists M' rds, fold_left (sem_with_step ln) items (@pair env (list rd) [M] acc) = ([M'], acc ++ rds) /\
                 Rel stk s' M' /\ MC s s' rds /\ lineno s' = ln.
Proof.
  intros stk ln items. induction items as [|[e ot] items IH]; intros s M acc HR Hl Hs; cbv zeta.
  - exists M, []. cbn. rewrite app_nil_r. split; auto. split; auto. split; auto. apply MC_refl.
  - cbn in Hs. apply andb_true_iff in Hs as [H1 H2]. unfold s1_with_item in H1. cbn [fst snd] in H1.
    apply andb_true_iff in H1 as [He Ht].
    destruct (expr_step' stk s M e HR He) as (HR1 & MC1 & El1). cbv zeta in HR1, MC1, El1. rewrite Hl in MC1.
    cbn [fold_left].
    destruct ot as [t|].
    + change (with_item_step false stk s (e, Some t)) with (vtarget false t stk (vexpr false e stk s)).
      destruct (target_sim stk _ M ln t HR1 Ht) as (M1 & E1 & HR2 & Em & El2). cbv zeta in HR2, Em, El2.
      assert (Hl2 : lineno (vtarget false t stk (vexpr false e stk s)) = ln) by congruence.
      destruct (IH _ M1 (acc ++ sem_expr ln [M] e) HR2 Hl2 H2) as (M2 & r2 & E2 & HR3 & MC2 & El3).
      cbv zeta in E2, HR3, MC2, El3.
      exists M2, (sem_expr ln [M] e ++ r2).
      split.
      { unfold sem_with_step at 2. cbn [fst snd]. rewrite E1. rewrite !app_nil_r. rewrite <- app_assoc in E2. exact E2. }
      split. exact HR3. split; auto.
      eapply MC_trans. exact MC1. eapply MC_same_missing; [|exact MC2]. congruence.
    + change (with_item_step false stk s (e, None)) with (vexpr false e stk s).
      assert (Hl2 : lineno (vexpr false e stk s) = ln) by congruence.
      destruct (IH _ M (acc ++ sem_expr ln [M] e) HR1 Hl2 H2) as (M2 & r2 & E2 & HR3 & MC2 & El3).
      cbv zeta in E2, HR3, MC2, El3.
      exists M2, (sem_expr ln [M] e ++ r2).
      split.
      { unfold sem_with_step at 2. cbn [fst snd]. rewrite <- app_assoc in E2. exact E2. }
      split. exact HR3. split; auto. eapply MC_trans; eauto.
Qed.

Lemma is_nil_true : forall A (l : list A), is_nil l = true -> l = [].
Proof. destruct l; cbn; congruence. Qed.

Lemma stmt_sim : forall x, SimS x.
Proof.
  induction x using stmt_ind'; unfold SimS; intros Hs stk s M HR; try discriminate.
  - (* SExpr *)
    cbn in Hs. destruct (expr_step stk s M ln e HR Hs) as (HR1 & MC1 & _).
    exists M, (sem_expr ln [M] e). split. reflexivity. auto.
  - (* SAssign *)
    cbn in Hs. apply andb_true_iff in Hs as [H1 H2].
    destruct (expr_step stk s M ln v HR H1) as (HR1 & MC1 & El). cbn in HR1, MC1, El.
    destruct (targets_sim stk ln ts _ M [] HR1 H2) as (M' & E & HR2 & Em & _). cbn in E, HR2, Em.
    exists M', (sem_expr ln [M] v ++ []). cbn [sem_stmt vstmt]. rewrite E. split. reflexivity.
    split. exact HR2. apply MC_app_nil. eapply MC_same_missing_r; [|exact MC1]. exact Em.
  - (* SAugAssign *)
    cbn in Hs. apply andb_true_iff in Hs as [H12 H3]. apply andb_true_iff in H12 as [H1 H2].
    apply is_nil_true in H1. subst a. apply not_star_neq in H2.
    assert (He : s1_expr (EOp [ELoad n []; v]) = true) by (cbn; rewrite H3; reflexivity).
    destruct (expr_step stk s M ln _ HR He) as (HR1 & MC1 & El). cbn in HR1, MC1, El.
    exists (bind n BOther M), ([(ln, n, resolve n [M])] ++ sem_expr ln [M] v). cbn [sem_stmt vstmt with_head head hd].
    split. reflexivity. rewrite store_false.
    destruct (set_in_scope_fields (vexpr false v stk (load (with_ln s ln) stk [n])) (top stk) [n] Plain) as (Em & _).
    split. apply Rel_store_name; auto.
    eapply MC_same_missing_r. exact Em. rewrite app_nil_r in MC1. exact MC1.
  - (* SImport *)
    cbn in Hs. destruct (import_items_sim stk ln items (with_ln s ln) M (Rel_with_ln _ _ _ ln HR) Hs) as (HR1 & Em & _).
    cbn in HR1, Em.
    eexists _, []. cbn [sem_stmt vstmt with_head head hd]. split. reflexivity. split. exact HR1.
    eapply MC_same_missing_r. exact Em. apply MC_refl.
  - (* SImportFrom *)
    cbn in Hs. destruct (from_items_sim stk ln m items (with_ln s ln) M (Rel_with_ln _ _ _ ln HR) Hs) as (HR1 & Em & _).
    cbn in HR1, Em.
    eexists _, []. cbn [sem_stmt vstmt with_head head hd]. split. reflexivity. split. exact HR1.
    eapply MC_same_missing_r. exact Em. apply MC_refl.
  - (* SFor *)
    cbn [s1_stmt] in Hs. rewrite !s1_blk_fix in Hs.
    apply andb_true_iff in Hs as [H123 H4]. apply andb_true_iff in H123 as [H12 H3]. apply andb_true_iff in H12 as [H1 H2].
    rewrite vstmt_for, sem_stmt_for. cbv zeta.
    destruct (expr_step stk s M ln it HR H2) as (HR1 & MC1 & El). cbn in HR1, MC1, El.
    destruct (target_sim stk _ M ln t HR1 H1) as (M1 & E1 & HR2 & Em & _). cbn in HR2, Em. rewrite E1.
    destruct (block_sim b H H3 stk _ M1 HR2) as (M2 & r2 & E2 & HR3 & MC2). rewrite E2.
    destruct (block_sim o H0 H4 stk _ M2 HR3) as (M3 & r3 & E3 & HR4 & MC3). rewrite E3.
    exists M3, (sem_expr ln [M] it ++ [] ++ r2 ++ r3). split. reflexivity. split. exact HR4.
    eapply MC_trans. exact MC1. cbn [app]. eapply MC_trans; [|exact MC3].
    eapply MC_same_missing; [|exact MC2]. symmetry. exact Em.
  - (* SWhile *)
    cbn [s1_stmt] in Hs. rewrite !s1_blk_fix in Hs.
    apply andb_true_iff in Hs as [H12 H3]. apply andb_true_iff in H12 as [H1 H2].
    apply is_nil_true in H3. subst o.
    rewrite vstmt_while, sem_stmt_while. cbv zeta.
    destruct (expr_step stk s M ln t HR H1) as (HR1 & MC1 & El). cbn in HR1, MC1, El.
    destruct (block_sim b H H2 stk _ M HR1) as (M2 & r2 & E2 & HR3 & MC2). rewrite E2.
    exists M2, (sem_expr ln [M] t ++ r2). split. reflexivity. split. exact HR3. eapply MC_trans; eauto.
  - (* SIf *)
    cbn [s1_stmt] in Hs. rewrite !s1_blk_fix in Hs.
    apply andb_true_iff in Hs as [H12 H3]. apply andb_true_iff in H12 as [H1 H2].
    apply is_nil_true in H3. subst o.
    rewrite vstmt_if, sem_stmt_if. cbv zeta.
    destruct (expr_step stk s M ln t HR H1) as (HR1 & MC1 & El). cbn in HR1, MC1, El.
    destruct (block_sim b H H2 stk _ M HR1) as (M2 & r2 & E2 & HR3 & MC2). rewrite E2.
    exists M2, (sem_expr ln [M] t ++ r2). split. reflexivity. split. exact HR3. eapply MC_trans; eauto.
  - (* SWith *)
    cbn [s1_stmt] in Hs. rewrite !s1_blk_fix in Hs. apply andb_true_iff in Hs as [H1 H2].
    rewrite vstmt_with, sem_stmt_with.
    destruct (with_items_sim stk ln items (with_ln s ln) M [] (Rel_with_ln _ _ _ ln HR) eq_refl H1)
      as (M1 & r1 & E1 & HR1 & MC1 & _). cbn in E1, HR1, MC1. rewrite E1.
    destruct (block_sim b H H2 stk _ M1 HR1) as (M2 & r2 & E2 & HR2 & MC2). rewrite E2.
    exists M2, (r1 ++ r2). split. reflexivity. split. exact HR2.
    eapply MC_trans; [|exact MC2]. eapply MC_same_missing; [|exact MC1]. reflexivity.
  - (* STry *)
    cbn [s1_stmt] in Hs. rewrite !s1_blk_fix in Hs.
    apply andb_true_iff in Hs as [Habc Hd]. apply andb_true_iff in Habc as [Hab Hc]. apply andb_true_iff in Hab as [Ha Hb].
    apply is_nil_true in Hb. subst hs.
    rewrite vstmt_try_nohandler, sem_stmt_try.
    destruct (block_sim b H Ha stk _ M (Rel_with_ln _ _ _ ln HR)) as (M1 & r1 & E1 & HR1 & MC1). rewrite E1.
    destruct (block_sim o H1 Hc stk _ M1 HR1) as (M2 & r2 & E2 & HR2 & MC2). rewrite E2.
    destruct (block_sim f H2 Hd stk _ M2 HR2) as (M3 & r3 & E3 & HR3 & MC3). rewrite E3.
    exists M3, (r1 ++ r2 ++ r3). split. reflexivity. split. exact HR3.
    eapply MC_trans. eapply MC_same_missing; [|exact MC1]. reflexivity. eapply MC_trans; eauto.
  - (* SPass *)
    exists M, []. split. reflexivity. split. apply Rel_with_ln. exact HR.
    eapply MC_same_missing_r; [|apply MC_refl]. reflexivity.
Qed.

(* ---------- the initial state ---------- *)
Definition fresh (s : st) : Prop := forall j v, In (j, v) (scopes s) -> j < next_id s.

Lemma get_scope_app_new : forall l i w j, (forall k v, In (k, v) l -> k <> i) ->
  get_scope (l ++ [(i, w)]) j = if Nat.eqb j i then w else get_scope l j.
Proof.
  induction l as [|[k v] l IH]; intros i w j Hn; cbn.
  - destruct (Nat.eqb j i); reflexivity.
  - destruct (Nat.eqb j k) eqn:E.
    + apply Nat.eqb_eq in E. subst k. destruct (Nat.eqb j i) eqn:E2; auto.
      apply Nat.eqb_eq in E2. subst i. exfalso. eapply Hn. left; reflexivity. reflexivity.
    + apply IH. intros k' v' Hin. eapply Hn. right. exact Hin.
Qed.

Lemma new_scope_spec : forall s k c, fresh s ->
  let '(i, s') := new_scope s k c in
  i = next_id s /\ fresh s' /\ next_id s' = S (next_id s) /\
  (forall j, get_scope (scopes s') j = if Nat.eqb j i then (k, c) else get_scope (scopes s) j) /\
  missing s' = missing s /\ deferred s' = deferred s /\ in_fd s' = in_fd s /\ lineno s' = lineno s /\
  checkers s' = checkers s /\ unused s' = unused s.
Proof.
  intros s k c Hf. unfold new_scope. cbn. split; auto. split.
  - intros j v Hin. cbn in Hin. cbn. apply in_app_iff in Hin as [Hin|[Hin|[]]].
    + apply Hf in Hin. lia.
    + injection Hin as <- _. lia.
  - split; auto. split; auto 10. intro j. apply get_scope_app_new.
    intros k' v' Hin. apply Hf in Hin. lia.
Qed.

Lemma plain_dict_get : forall l k e, dict_get (plain_dict l) k = Some e -> e = Plain /\ exists n, k = [n] /\ In n l.
Proof.
  induction l as [|n l IH]; cbn; intros k e H. discriminate.
  destruct (dotted_eqb k [n]) eqn:E.
  - injection H as <-. apply dotted_eqb_eq in E. split; eauto.
  - apply IH in H as (He & m & Hk & Hin). split; eauto.
Qed.
Lemma plain_dict_has : forall l x, dict_has (plain_dict l) [x] = true <-> In x l.
Proof.
  induction l as [|n l IH]; intro x; unfold dict_has in *; cbn.
  - split. discriminate. contradiction.
  - rewrite N.eqb_sym. destruct (N.eqb n x) eqn:E; cbn.
    + apply N.eqb_eq in E. subst. split; auto.
    + rewrite IH. apply N.eqb_neq in E. split; auto. intros [H|H]; auto. contradiction.
Qed.
Lemma plain_dict_rootclosed : forall l, rootclosed (plain_dict l).
Proof.
  intros l r q H. destruct (dict_get (plain_dict l) (r :: q)) eqn:E; [|congruence].
  pose proof E as E'. apply plain_dict_get in E' as (_ & n & Hk & _). injection Hk as -> ->. rewrite E. discriminate.
Qed.

Definition InitInv (bi : list name) (done : list (list name)) (ids : list nat) (s : st) : Prop :=
  fresh s /\ (forall i, scope_is_class s i = false) /\ allplain s /\ (forall i, rootclosed (scope_dict s i)) /\
  missing s = [] /\ deferred s = [] /\ in_fd s = false /\
  (forall x, bound s ids x = true <-> In x (bi ++ concat done)) /\ (forall i, In i ids -> i < next_id s) /\
  checkers s = [] /\ unused s = [] /\ (forall i k, dict_get (scope_dict s i) k <> None -> exists n, k = [n]).

Lemma bound_app : forall s a b x, bound s (a ++ b) x = bound s a x || bound s b x.
Proof. intros. unfold bound. apply existsb_app. Qed.

Lemma bound_ext : forall s s' ids x, (forall i, In i ids -> scope_dict s' i = scope_dict s i) -> bound s' ids x = bound s ids x.
Proof.
  intros s s' ids x H. unfold bound. induction ids as [|i ids IH]; cbn. reflexivity.
  rewrite H by (left; reflexivity). f_equal. apply IH. intros j Hj. apply H. right. exact Hj.
Qed.

Lemma init_step : forall bi done ids s l, InitInv bi done ids s ->
  let '(i, s') := new_scope s KNormal (plain_dict l) in InitInv bi (done ++ [l]) (ids ++ [i]) s'.
Proof.
  intros bi done ids s l (Hf & Hc & Hp & Hr & Hm & Hd & Hfd & Hb & Hlt & Hck & Hun & Hks).
  pose proof (new_scope_spec s KNormal (plain_dict l) Hf) as Hn.
  destruct (new_scope s KNormal (plain_dict l)) as [i s'] eqn:E.
  destruct Hn as (Hi & Hf' & Hnx & Hg & Hm' & Hd' & Hfd' & _ & Hck' & Hun').
  assert (Hsd : forall j, scope_dict s' j = if Nat.eqb j i then plain_dict l else scope_dict s j).
  { intro j. unfold scope_dict. rewrite Hg. destruct (Nat.eqb j i); reflexivity. }
  repeat split; try congruence.
  - exact Hf'.
  - intro j. unfold scope_is_class. rewrite Hg. destruct (Nat.eqb j i). reflexivity. apply Hc.
  - intros j k e. rewrite Hsd. destruct (Nat.eqb j i). 2: apply Hp.
    intro H. apply plain_dict_get in H as [H _]. exact H.
  - intro j. rewrite Hsd. destruct (Nat.eqb j i). apply plain_dict_rootclosed. apply Hr.
  - rewrite bound_app, orb_true_iff. intros [H|H].
    + rewrite (bound_ext s s') in H. apply Hb in H. rewrite concat_app, !in_app_iff in *. tauto.
      intros j Hj. rewrite Hsd. destruct (Nat.eqb j i) eqn:Eq; auto. apply Nat.eqb_eq in Eq. apply Hlt in Hj. lia.
    + unfold bound in H. cbn in H. rewrite orb_false_r in H. rewrite Hsd, Nat.eqb_refl in H.
      apply plain_dict_has in H. rewrite concat_app, !in_app_iff. cbn. rewrite app_nil_r. tauto.
  - rewrite bound_app, orb_true_iff. intro H.
    rewrite concat_app in H. cbn in H. rewrite app_nil_r in H. rewrite !in_app_iff in H.
    assert (H' : In x (bi ++ concat done) \/ In x l) by (rewrite in_app_iff; tauto).
    destruct H' as [H'|H'].
    + left. rewrite (bound_ext s s'). apply Hb. exact H'.
      intros j Hj. rewrite Hsd. destruct (Nat.eqb j i) eqn:Eq; auto. apply Nat.eqb_eq in Eq. apply Hlt in Hj. lia.
    + right. unfold bound. cbn. rewrite Hsd, Nat.eqb_refl. apply plain_dict_has in H'. rewrite H'. reflexivity.
  - intros j Hj. apply in_app_iff in Hj as [Hj|[<-|[]]]. apply Hlt in Hj. lia. lia.
  - intros j k. rewrite Hsd. destruct (Nat.eqb j i). 2: apply Hks.
    intro H. destruct (dict_get (plain_dict l) k) eqn:E2; [|congruence].
    apply plain_dict_get in E2 as (_ & n & Hk & _). eauto.
Qed.

Lemma init_fold : forall bi ns done ids s, InitInv bi done ids s ->
  let '(ids', s') := fold_left (fun acc l => let '(ids, s) := acc in
                                             let '(i, s') := new_scope s KNormal (plain_dict l) in (ids ++ [i], s'))
                               ns (ids, s) in
  InitInv bi (done ++ ns) ids' s'.
Proof.
  intros bi ns. induction ns as [|l ns IH]; intros done ids s HI; cbn [fold_left].
  - rewrite app_nil_r. exact HI.
  - pose proof (init_step bi done ids s l HI) as H1.
    destruct (new_scope s KNormal (plain_dict l)) as [i s1].
    specialize (IH (done ++ [l]) (ids ++ [i]) s1 H1). rewrite <- app_assoc in IH. exact IH.
Qed.

Lemma filter_all : forall A (f : A -> bool) l, (forall x, In x l -> f x = true) -> filter f l = l.
Proof.
  induction l as [|x l IH]; cbn; intro H. reflexivity.
  rewrite H by auto. f_equal. apply IH. auto.
Qed.

Lemma lookup_b_others : forall x l, lookup_b x (others l) <> None <-> In x l.
Proof.
  induction l as [|y l IH]; cbn. split; auto.
  destruct (N.eqb x y) eqn:E.
  - apply N.eqb_eq in E. subst. split; auto. discriminate.
  - apply N.eqb_neq in E. rewrite IH. split; auto. intros [H|H]; auto. congruence.
Qed.

Lemma init_state_rel : forall bi ns p, star_free bi ns = true ->
  let '(stk, s) := init_state bi ns in
  Rel stk s (module_frame bi ns p) /\ missing s = [] /\
  checkers s = [] /\ unused s = [] /\ (forall i k, dict_get (scope_dict s i) k <> None -> exists n, k = [n]).
Proof.
  intros bi ns p Hsf. unfold init_state.
  set (s0 := mkSt [(builtins_id, (KNormal, plain_dict bi)); (delayed_id, (KNormal, []))] 2 [] [] [] [] false 0 0).
  assert (H0 : InitInv bi [] [builtins_id] s0).
  { unfold InitInv. repeat split; try reflexivity.
    - intros j v Hin. cbn in Hin. destruct Hin as [Hin|[Hin|[]]]; injection Hin as <- _; cbn; unfold builtins_id, delayed_id; lia.
    - intro i. unfold scope_is_class, s0. cbn. destruct (Nat.eqb i builtins_id); auto. destruct (Nat.eqb i delayed_id); auto.
    - intros i k e. unfold scope_dict, s0. cbn. destruct (Nat.eqb i builtins_id). cbn.
      intro H. apply plain_dict_get in H as [H _]. exact H.
      destruct (Nat.eqb i delayed_id); cbn; discriminate.
    - intro i. unfold scope_dict, s0. cbn. destruct (Nat.eqb i builtins_id). apply plain_dict_rootclosed.
      destruct (Nat.eqb i delayed_id); cbn; intros r q H; cbn in H; congruence.
    - unfold bound. cbn. rewrite orb_false_r. unfold scope_dict, s0. cbn. rewrite app_nil_r. apply plain_dict_has.
    - unfold bound. cbn. rewrite orb_false_r. unfold scope_dict, s0. cbn. rewrite app_nil_r. apply plain_dict_has.
    - intros i [<-|[]]. cbn. unfold builtins_id. lia.
    - intros i k. unfold scope_dict, s0. cbn. destruct (Nat.eqb i builtins_id). cbn.
      intro H. destruct (dict_get (plain_dict bi) k) eqn:E2; [|congruence].
      apply plain_dict_get in E2 as (_ & n & Hk & _). eauto.
      destruct (Nat.eqb i delayed_id); cbn; congruence. }
  pose proof (init_fold bi ns [] [builtins_id] s0 H0) as H1.
  destruct (fold_left _ ns ([builtins_id], s0)) as [ids s1].
  cbn [app] in H1. destruct H1 as (Hf & Hc & Hp & Hr & Hm & Hd & Hfd & Hb & Hlt & Hck & Hun & Hks).
  unfold push. cbn [andb].
  rewrite filter_all by (intros x _; rewrite Hc; reflexivity).
  pose proof (new_scope_spec s1 KNormal [] Hf) as Hn.
  destruct (new_scope s1 KNormal []) as [i s2].
  destruct Hn as (Hi & Hf' & Hnx & Hg & Hm' & Hd' & Hfd' & _ & Hck' & Hun').
  assert (Hsd : forall j, scope_dict s2 j = if Nat.eqb j i then [] else scope_dict s1 j).
  { intro j. unfold scope_dict. rewrite Hg. destruct (Nat.eqb j i); reflexivity. }
  assert (Hbd : forall x, bound s2 (ids ++ [i]) x = bound s1 ids x).
  { intro x. rewrite bound_app. unfold bound at 2. cbn. rewrite Hsd, Nat.eqb_refl. cbn. rewrite orb_false_r.
    apply bound_ext. intros j Hj. rewrite Hsd. destruct (Nat.eqb j i) eqn:Eq; auto.
    apply Nat.eqb_eq in Eq. apply Hlt in Hj. lia. }
  split; [|split; [congruence|split; [congruence|split; [congruence|]]]].
  2:{ intros j k. rewrite Hsd. destruct (Nat.eqb j i). cbn. congruence. apply Hks. }
  split.
  - repeat split; try congruence.
    + intros j k e. rewrite Hsd. destruct (Nat.eqb j i). cbn. discriminate. apply Hp.
    + intro j. rewrite Hsd. destruct (Nat.eqb j i). intros r q H. cbn in H. congruence. apply Hr.
    + change (has_star s2 (ids ++ [i])) with (bound s2 (ids ++ [i]) n_star). rewrite Hbd.
      destruct (bound s1 ids n_star) eqn:E; auto. apply Hb in E. exfalso.
      unfold star_free in Hsf. apply andb_true_iff in Hsf as [S1 S2].
      apply in_app_iff in E as [E|E].
      * apply mem_In in E. rewrite E in S1. discriminate.
      * apply in_concat in E as (l & Hl & Hx). rewrite forallb_forall in S2. specialize (S2 l Hl).
        apply mem_In in Hx. rewrite Hx in S2. discriminate.
    + unfold top. rewrite last_last. apply in_app_iff. right. left. reflexivity.
  - intro x. rewrite Hbd, Hb. unfold module_frame. cbn [fdyn]. rewrite lookup_b_others.
    rewrite !in_app_iff. tauto.
Qed.

(* ---------- stage 1: the reported (line, name) pairs are exactly PySem's failing global lookups ---------- *)
Lemma finder_missing_In : forall bi ns p l d,
  In (l, d) (fst (finder bi ns false p)) <->
  InM l d (missing (scan_node false p (fst (init_state bi ns)) (snd (init_state bi ns)))).
Proof.
  intros bi ns p l d. unfold finder. destruct (init_state bi ns) as [stk s0]. cbn [fst snd].
  rewrite sort_by_In, in_map_iff. unfold InM. split.
  - intros (m & E & Hin). injection E as <- <-. eauto.
  - intros (m & Hin & <- & <-). eauto.
Qed.

Theorem s1_missing_exact : forall bi ns p, s1_block p = true -> star_free bi ns = true ->
  forall l n, (exists a, In (l, n :: a) (fst (finder bi ns false p))) <-> In (l, n, Unbound) (pysem bi ns p).
Proof.
  intros bi ns p Hp Hsf l n.
  pose proof (init_state_rel bi ns p Hsf) as H0.
  assert (Hiff : forall a, In (l, n :: a) (fst (finder bi ns false p)) <->
                           InM l (n :: a) (missing (scan_node false p (fst (init_state bi ns)) (snd (init_state bi ns)))))
    by (intro a; apply finder_missing_In).
  destruct (init_state bi ns) as [stk s0]. cbn [fst snd] in Hiff. destruct H0 as (HR & Hm & _).
  assert (HF : Forall SimS p) by (apply Forall_forall; intros x _; apply stmt_sim).
  destruct (block_sim p HF Hp stk s0 _ HR) as (M' & rds & E & HR' & HMC).
  unfold pysem. rewrite E. cbn [snd].
  assert (Hsc : missing (scan_node false p stk s0) = missing (vblock false p stk s0)).
  { unfold scan_node, finish_deferred. destruct HR' as [(_ & _ & _ & _ & _ & Hd) _]. rewrite Hd. cbn [fold_left].
    destruct (reports_shape (pending_dicts (vblock false p stk s0) (top stk)) (vblock false p stk s0)) as (u & E0). rewrite E0. reflexivity. }
  rewrite Hsc in Hiff. specialize (HMC l n). rewrite Hm in HMC.
  split.
  - intros (a & Ha). apply Hiff in Ha. destruct (proj1 HMC (ex_intro _ a Ha)) as [(a' & m & [] & _)|H]. exact H.
  - intro H. destruct (proj2 HMC (or_intror H)) as (a & Ha). exists a. apply Hiff. exact Ha.
Qed.

Lemma dedup_sorted_In : forall l x, In x (dedup_sorted l) <-> In x l.
Proof.
  induction l as [|y l IH]; intro x. reflexivity.
  cbn [dedup_sorted]. destruct l as [|z l]. reflexivity.
  destruct (dotted_eqb y z) eqn:E.
  - apply dotted_eqb_eq in E. subst z. rewrite IH. cbn. tauto.
  - cbn [In]. rewrite IH. cbn. tauto.
Qed.

Lemma find_missing_In : forall bi ns p d,
  In d (find_missing bi ns p) <-> exists l, In (l, d) (fst (finder bi ns false p)).
Proof.
  intros. unfold find_missing. rewrite dedup_sorted_In, sort_by_In, in_map_iff. split.
  - intros ([l d'] & E & Hin). cbn in E. subst d'. eauto.
  - intros (l & Hin). exists (l, d). auto.
Qed.

(* in the words of the property: every NameError name is in find_missing_imports' answer, and every
   name in the answer has a failing lookup *)
Theorem s1_find_missing_sound : forall bi ns p l n, s1_block p = true -> star_free bi ns = true ->
  In (l, n, Unbound) (pysem bi ns p) -> exists a, In (n :: a) (find_missing bi ns p).
Proof.
  intros bi ns p l n Hp Hsf H. apply (s1_missing_exact bi ns p Hp Hsf) in H as (a & Ha).
  exists a. apply find_missing_In. eauto.
Qed.
Theorem s1_find_missing_precise : forall bi ns p n a, s1_block p = true -> star_free bi ns = true ->
  In (n :: a) (find_missing bi ns p) -> exists l, In (l, n, Unbound) (pysem bi ns p).
Proof.
  intros bi ns p n a Hp Hsf H. apply find_missing_In in H as (l & Hl). exists l.
  apply (s1_missing_exact bi ns p Hp Hsf). eauto.
Qed.

(* ---------- structural facts ---------- *)
(* the list-mutation quirk of _remove_from_missing_imports only ever drops entries *)
Lemma remove_from_missing_incl : forall c l m, In m (remove_from_missing c l) -> In m l.
Proof.
  intro c. fix IH 1. intros l m H. destruct l as [|x l]. contradiction.
  cbn in H. destruct (rm_matches c x).
  - destruct l as [|y l]. contradiction. destruct H as [<-|H]. right; left; reflexivity.
    right; right. apply IH. exact H.
  - destruct H as [<-|H]. left; reflexivity. right. apply IH. exact H.
Qed.

(* with unused-import tracking off nothing is ever reported unused *)
Lemma report_unused_no_checkers : forall d s, checkers s = [] -> unused s = [] ->
  unused (report_unused_of s d) = [] /\ checkers (report_unused_of s d) = [].
Proof.
  unfold report_unused_of. induction d as [|[k e] d IH]; intros s Hc Hu; cbn. auto.
  destruct e as [|c|cs]. apply IH; auto.
  unfold checker_at. rewrite Hc. destruct c; cbn; apply IH; auto.
  apply IH; auto.
Qed.

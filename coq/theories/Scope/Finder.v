(* M7 - functional restatement of pyflyby's _MissingImportFinder (lib/python/pyflyby/_autoimp.py),
   transcribed from DESIGN.md Appendix D / design-notes/spikes/finder_proto.py, with the three
   F10 repairs of fixes/F10-*.diff (decorators, annotations and `returns` visited in the enclosing scope;
   `for`: iterable before target; `+=` loads its target first).
   Scope dictionaries are aliased in Python (ScopeStack tuples share dict objects); here every
   dict lives in a store under an id and a ScopeStack is the list of ids, most global first.
   No proofs in this file. *)
From Coq Require Import NArith List Bool Arith.
From Verif Require Import Scope.PySyntax.
Import ListNotations.

(* ---------- state ---------- *)

(* value of a scope entry: None | _UseChecker (index into [checkers]) | _PrefixUse (the package name
   bound by plain `import pkg.sub` statements: the checkers of those imports - F16 repair) *)
Inductive entry := Plain | Chk (cid : nat) | Pfx (cids : list nat).
Definition dict := list (dotted * entry).        (* Python dict: insertion-ordered, unique keys *)
Inductive skind := KNormal | KClass | KClone.    (* dict | _ClassScope | the copy made by ScopeStack.clone_top (never entered or left) *)

Record checker := mkChecker { c_imp : import; c_line : nat; c_used : bool }.
(* (lineno, DottedIdentifier(name, scope_info)): scope_info = is the finder's current stack top a
   _ClassScope, and the value of _in_class_def, when the identifier was created *)
Record mentry := mkM { m_line : nat; m_name : dotted; m_topclass : bool; m_incd : nat }.
Definition stack := list nat.                    (* ScopeStack: scope ids, most global first *)

Record st := mkSt {
  scopes : list (nat * (skind * dict));
  next_id : nat;
  checkers : list checker;
  missing : list mentry;                         (* self.missing_imports *)
  unused : list (nat * import);                  (* self.unused_imports (when not None) *)
  deferred : list (dotted * stack * nat);        (* self._deferred_load_checks *)
  in_fd : bool;                                  (* self._in_FunctionDef *)
  in_cd : nat;                                   (* self._in_class_def *)
  lineno : nat }.                                (* self._lineno *)

Definition with_scopes s x := mkSt x (next_id s) (checkers s) (missing s) (unused s) (deferred s) (in_fd s) (in_cd s) (lineno s).
Definition with_next s x := mkSt (scopes s) x (checkers s) (missing s) (unused s) (deferred s) (in_fd s) (in_cd s) (lineno s).
Definition with_checkers s x := mkSt (scopes s) (next_id s) x (missing s) (unused s) (deferred s) (in_fd s) (in_cd s) (lineno s).
Definition with_missing s x := mkSt (scopes s) (next_id s) (checkers s) x (unused s) (deferred s) (in_fd s) (in_cd s) (lineno s).
Definition with_unused s x := mkSt (scopes s) (next_id s) (checkers s) (missing s) x (deferred s) (in_fd s) (in_cd s) (lineno s).
Definition with_deferred s x := mkSt (scopes s) (next_id s) (checkers s) (missing s) (unused s) x (in_fd s) (in_cd s) (lineno s).
Definition with_fd s x := mkSt (scopes s) (next_id s) (checkers s) (missing s) (unused s) (deferred s) x (in_cd s) (lineno s).
Definition with_cd s x := mkSt (scopes s) (next_id s) (checkers s) (missing s) (unused s) (deferred s) (in_fd s) x (lineno s).
Definition with_ln s x := mkSt (scopes s) (next_id s) (checkers s) (missing s) (unused s) (deferred s) (in_fd s) (in_cd s) x.

(* ---------- dictionaries and the scope store ---------- *)

Fixpoint dict_get (d : dict) (k : dotted) : option entry :=
  match d with
  | [] => None
  | (k', v) :: r => if dotted_eqb k k' then Some v else dict_get r k
  end.
(* d[k] = v : an existing key keeps its position *)
Fixpoint dict_set (d : dict) (k : dotted) (v : entry) : dict :=
  match d with
  | [] => [(k, v)]
  | (k', v') :: r => if dotted_eqb k k' then (k', v) :: r else (k', v') :: dict_set r k v
  end.
Definition dict_has (d : dict) (k : dotted) : bool :=
  match dict_get d k with Some _ => true | None => false end.

Fixpoint get_scope (l : list (nat * (skind * dict))) (i : nat) : skind * dict :=
  match l with
  | [] => (KNormal, [])
  | (j, v) :: r => if Nat.eqb i j then v else get_scope r i
  end.
Fixpoint set_scope (l : list (nat * (skind * dict))) (i : nat) (v : skind * dict) :=
  match l with
  | [] => [(i, v)]
  | (j, w) :: r => if Nat.eqb i j then (j, v) :: r else (j, w) :: set_scope r i v
  end.
Definition scope_dict (s : st) (i : nat) : dict := snd (get_scope (scopes s) i).
Definition scope_is_class (s : st) (i : nat) : bool :=
  match fst (get_scope (scopes s) i) with KClass => true | _ => false end.

Definition new_scope (s : st) (k : skind) (content : dict) : nat * st :=
  let i := next_id s in
  (i, with_next (with_scopes s (scopes s ++ [(i, (k, content))])) (S i)).

Definition top (stk : stack) : nat := last stk 0.

(* scope ids fixed by [init_state]: builtins, and the dict shared by every ScopeStack derived
   with _with_new_scope: ScopeStack._class_delayed *)
Definition builtins_id : nat := 0.
Definition delayed_id : nat := 1.

(* scope[k] = v on the topmost scope, no bookkeeping *)
Definition set_in_scope (s : st) (i : nat) (k : dotted) (v : entry) : st :=
  let '(c, d) := get_scope (scopes s) i in
  with_scopes s (set_scope (scopes s) i (c, dict_set d k v)).

(* ---------- symbol_needs_import, for static scopes ----------
   for ns in reversed(namespaces): for partial_name in fullname.prefixes[::-1]:
       var = ns[partial_name]  (KeyError -> continue)
       if isinstance(var, _UseChecker): var.used = True
       elif isinstance(var, _PrefixUse): for checker in var.checkers: checker.used = True
       ... var is not a module registered under that name -> return False
   return True
   Every value this model stores (None, _UseChecker, and the non-module values the harness puts
   into the initial namespaces) takes the `return False` exit. *)
Fixpoint mark (l : list checker) (cid : nat) : list checker :=
  match l, cid with
  | [], _ => []
  | c :: r, O => mkChecker (c_imp c) (c_line c) true :: r
  | c :: r, S k => c :: mark r k
  end.
Definition mark_used (s : st) (cid : nat) : st := with_checkers s (mark (checkers s) cid).

Fixpoint first_present (d : dict) (ps : list dotted) : option entry :=
  match ps with
  | [] => None
  | p :: r => match dict_get d p with Some e => Some e | None => first_present d r end
  end.
Fixpoint needs_stack (s : st) (stk_rev : list nat) (ps : list dotted) : bool * st :=
  match stk_rev with
  | [] => (true, s)
  | i :: r => match first_present (scope_dict s i) ps with
              | Some (Chk c) => (false, mark_used s c)
              | Some (Pfx cs) => (false, fold_left mark_used cs s)
              | Some Plain => (false, s)
              | None => needs_stack s r ps
              end
  end.
Definition needs (s : st) (stk : stack) (n : dotted) : bool * st :=
  needs_stack s (rev stk) (rev (prefixes n)).

(* ScopeStack.has_star_import: any('*' in scope for scope in self)  (the positive-result cache
   is transparent: a '*' key is never removed) *)
Definition has_star (s : st) (stk : stack) : bool :=
  existsb (fun i => dict_has (scope_dict s i) [n_star]) stk.

(* ---------- _with_new_scope / _NewScopeCtx / clone_top ---------- *)

Fixpoint remove_id (i : nat) (l : list nat) : list nat :=
  match l with [] => [] | j :: r => if Nat.eqb i j then remove_id i r else j :: remove_id i r end.

(* scopes = tuple(self) or the non-class ones;  if unhide_classdef and self._class_delayed:
   scopes = (self._class_delayed,) + scopes;  ScopeStack(scopes + (new,)) puts builtins first and
   drops later duplicates (by identity) *)
Definition push (s : st) (stk : stack) (include_class new_class unhide : bool) : stack * st :=
  let ids := if include_class then stk else filter (fun i => negb (scope_is_class s i)) stk in
  let ids := if unhide && negb (match scope_dict s delayed_id with [] => true | _ => false end)
             then match ids with
                  | b :: r => b :: delayed_id :: remove_id delayed_id r
                  | [] => [delayed_id]
                  end
             else ids in
  let '(i, s') := new_scope s (if new_class then KClass else KNormal) [] in
  (ids ++ [i], s').

(* leaving a _NewScopeCtx: for name, use_checker in new_scopestack[-1].items():
     if use_checker and use_checker.used == False and check_unused_imports: unused.append(...) *)
Definition checker_at (s : st) (cid : nat) : checker :=
  nth cid (checkers s) (mkChecker ([], []) 0 true).
Definition report_unused_of (s : st) (d : dict) : st :=
  fold_left (fun s kv => match snd kv with
                         | Chk c => let ck := checker_at s c in
                                    if c_used ck then s else with_unused s (unused s ++ [(c_line ck, c_imp ck)])
                         | _ => s
                         end) d s.
(* repaired (fixes/C05a): the scope that is left is only queued; its unused imports are reported by
   _finish_deferred_load_checks, after the deferred loads (of nested functions defined earlier) have marked what they use.
   The queue is not stored: when the checks run, every scope entered since is left again, so the queued scopes are the
   scopes created after the scanned node's own top scope, copies made by clone_top excepted ([pending_dicts]). *)
Definition pop (s : st) (i : nat) : st := s.

(* scopes[-1] = copy.copy(scopes[-1]); the other scopes stay aliased *)
Definition clone_top (s : st) (stk : stack) : stack * st :=
  let '(c, d) := get_scope (scopes s) (top stk) in
  let '(j, s') := new_scope s KClone d in
  (removelast stk ++ [j], s').

(* ---------- loads and stores ---------- *)

Definition same_missing (ln : nat) (n : dotted) (m : mentry) : bool :=
  Nat.eqb (m_line m) ln && dotted_eqb (m_name m) n.
(* if (lineno, fullname) not in self.missing_imports: append;  [cur] = self.scopestack *)
Definition add_missing (s : st) (cur : stack) (ln : nat) (n : dotted) : st :=
  if existsb (same_missing ln n) (missing s) then s
  else with_missing s (missing s ++ [mkM ln n (scope_is_class s (top cur)) (in_cd s)]).

(* _check_load(fullname, scopestack, lineno) *)
Definition check_load (s : st) (cur stk : stack) (n : dotted) (ln : nat) : st :=
  let '(b, s1) := needs s stk n in
  if b && negb (has_star s1 stk) then add_missing s1 cur ln n else s1.

(* _visit_Load_defered *)
Definition defer_load (s : st) (stk : stack) (n : dotted) : st :=
  let '(b, s1) := needs s stk n in
  if b then
    let '(stk', s2) := clone_top s1 stk in
    with_deferred s2 (deferred s2 ++ [(n, stk', lineno s2)])
  else s1.

(* _visit_Load: inside a FunctionDef the deferral is done twice *)
Definition load (s : st) (stk : stack) (n : dotted) : st :=
  if in_fd s then defer_load (defer_load s stk n) stk n
  else check_load s stk stk n (lineno s).

(* _visit_Store(fullname, value) *)
Definition store (track : bool) (s : st) (stk : stack) (n : dotted) (v : entry) : st :=
  let s1 :=
    if track then
      let s' := fold_left (fun s anc => let '(b, s1) := needs s stk anc in
                                        if b then add_missing s1 stk (lineno s1) n else s1)
                          (proper_prefixes n) s in
      match dict_get (scope_dict s' (top stk)) n with
      | Some (Chk c) => let ck := checker_at s' c in
                        if c_used ck then s' else with_unused s' (unused s' ++ [(c_line ck, c_imp ck)])
      | _ => s'
      end
    else s in
  set_in_scope s1 (top stk) n v.

(* _visit_StoreImport(alias, modulename), repaired (F16):
     value = None | _UseChecker(name, Import.from_split(...), lineno)
     prefixes = DottedIdentifier(node.name).prefixes[:-1] if not node.asname and not is_star else []
     old_prefix_values = [scope.get(p) for p in prefixes]
     for prefix in prefixes: _visit_Store(prefix, None)
     _visit_Store(name, value)
     if value is not None:
         for prefix, old in zip(prefixes, old_prefix_values):
             scope[prefix] = _PrefixUse((old.checkers if isinstance(old, _PrefixUse) else ()) + (value,)) *)
Definition store_import (track : bool) (s : st) (stk : stack)
           (aname : dotted) (asname : option name) (modname : option dotted) : st :=
  let key := match asname with Some a => [a] | None => aname end in
  let is_star := dotted_eqb aname [n_star] in
  let is_future := match modname with Some m => dotted_eqb m [n_future] | None => false end in
  let prefixes := match asname with
                  | None => if is_star then [] else proper_prefixes aname
                  | Some _ => []
                  end in
  let olds := map (fun p => dict_get (scope_dict s (top stk)) p) prefixes in
  if negb track || is_star || is_future then
    store track (fold_left (fun s p => store track s stk p Plain) prefixes s) stk key Plain
  else
    let cid := length (checkers s) in
    let full := match modname with None => aname | Some m => m ++ aname end in
    let s0 := with_checkers s (checkers s ++ [mkChecker (full, key) (lineno s) false]) in
    let s1 := fold_left (fun s p => store track s stk p Plain) prefixes s0 in
    let s2 := store track s1 stk key (Chk cid) in
    fold_left (fun s po => set_in_scope s (top stk) (fst po)
                             (Pfx (match snd po with Some (Pfx cs) => cs | _ => [] end ++ [cid])))
              (combine prefixes olds) s2.

Fixpoint vtarget (track : bool) (t : target) (stk : stack) (s : st) {struct t} : st :=
  match t with
  | TName n => store track s stk [n] Plain
  | TAttr n attrs => store track s stk (n :: attrs) Plain
  | TTuple ts => (fix go (l : list target) (s : st) : st :=
                    match l with [] => s | x :: r => go r (vtarget track x stk s) end) ts s
  end.

(* _remove_from_missing_imports: `for m in self.missing_imports: ... self.missing_imports.remove(m)`
   - the list is mutated while iterated, so the element after a removed one is not examined *)
Definition rm_matches (c : dotted) (m : mentry) : bool :=
  is_prefix c (m_name m) && (m_topclass m || Nat.eqb (m_incd m) 0).
Fixpoint remove_from_missing (c : dotted) (l : list mentry) : list mentry :=
  match l with
  | [] => []
  | m :: r => if rm_matches c m
              then match r with [] => [] | m2 :: r2 => m2 :: remove_from_missing c r2 end
              else m :: remove_from_missing c r
  end.

(* ---------- the visitor ---------- *)

Fixpoint vexpr (track : bool) (e : expr) (stk : stack) (s : st) {struct e} : st :=
  match e with
  | ELoad n attrs => load s stk (n :: attrs)
  | EOp es => (fix go (l : list expr) (s : st) : st :=
                 match l with [] => s | x :: r => go r (vexpr track x stk s) end) es s
  | EAttr e _ =>
      (* visit_Attribute on a non-Name base: generic_visit(node) visits the base expression *)
      vexpr track e stk s
  | ELambda ps defaults body =>
      (* visit_Lambda: with _NewScopeCtx(include_class_scopes=True): visit(args) ... *)
      let '(stkA, s1) := push s stk true false false in
      (* visit_arguments: with _UpScopeCtx(): defaults *)
      let up := removelast stkA in
      let s2 := (fix go (l : list expr) (s : st) : st :=
                   match l with [] => s | x :: r => go r (vexpr track x up s) end) defaults s1 in
      let s3 := fold_left (fun s p => store track s stkA [p] Plain) ps s2 in
      let fd := in_fd s3 in
      let '(stkB, s4) := push (with_fd s3 true) stkA false false false in
      let s5 := vexpr track body stkB s4 in
      let s6 := with_fd (pop s5 (top stkB)) fd in
      pop s6 (top stkA)
  | EComp gens elts =>
      (* visit_ListComp & co: with _NewScopeCtx(include_class_scopes=True): generators; elt(s) *)
      let '(stkK, s1) := push s stk true false false in
      let s2 := (fix go (l : list gen) (s : st) : st :=
                   match l with [] => s | g :: r => go r (vgen track g stkK s) end) gens s1 in
      let s3 := (fix go (l : list expr) (s : st) : st :=
                   match l with [] => s | x :: r => go r (vexpr track x stkK s) end) elts s2 in
      pop s3 (top stkK)
  end
with vgen (track : bool) (g : gen) (stk : stack) (s : st) {struct g} : st :=
  match g with
  | Gen iter tgt ifs =>
      (* visit_comprehension: iter, target, ifs *)
      let s1 := vexpr track iter stk s in
      let s2 := vtarget track tgt stk s1 in
      (fix go (l : list expr) (s : st) : st :=
         match l with [] => s | x :: r => go r (vexpr track x stk s) end) ifs s2
  end.

Definition vexprs (track : bool) (l : list expr) (stk : stack) (s : st) : st :=
  fold_left (fun s e => vexpr track e stk s) l s.
Definition voexpr (track : bool) (o : option expr) (stk : stack) (s : st) : st :=
  match o with Some e => vexpr track e stk s | None => s end.
(* decorator_list: every decorator expression sits on its own line *)
Definition vdecos (track : bool) (l : list (nat * expr)) (stk : stack) (s : st) : st :=
  fold_left (fun s d => vexpr track (snd d) stk (with_ln s (fst d))) l s.

Definition annotations_of (p : params) : list expr :=
  let anns := fun l : list param => flat_map (fun q : param => match snd q with Some a => [a] | None => [] end) l in
  let oann := fun o : option param => match o with Some (_, Some a) => [a] | _ => [] end in
  anns (p_posonly p) ++ anns (p_args p) ++ anns (p_kwonly p) ++ oann (p_vararg p) ++ oann (p_kwarg p).

(* visit_arguments (repaired: annotations next to the defaults, in the enclosing scope):
     with _UpScopeCtx(): defaults; kw_defaults; annotations
     args; kwonlyargs; posonlyargs; vararg; kwarg   (each: _visit_Store(arg)) *)
Definition varguments (track : bool) (p : params) (stkA : stack) (s : st) : st :=
  let up := removelast stkA in
  let s1 := vexprs track (p_defaults p) up s in
  let s2 := fold_left (fun s o => voexpr track o up s) (p_kw_defaults p) s1 in
  let s3 := vexprs track (annotations_of p) up s2 in
  let names := param_names (p_args p) ++ param_names (p_kwonly p) ++ param_names (p_posonly p)
               ++ oparam_names (p_vararg p) ++ oparam_names (p_kwarg p) in
  fold_left (fun s n => store track s stkA [n] Plain) names s3.

Fixpoint vstmt (track : bool) (x : stmt) (stk : stack) (s : st) {struct x} : st :=
  let vblock := fix vblock (l : list stmt) (stk : stack) (s : st) : st :=
                  match l with [] => s | y :: r => vblock r stk (vstmt track y stk s) end in
  match x with
  | SExpr ln e => vexpr track e stk (with_ln s ln)
  | SAssign ln targets value =>
      (* visit_Assign: value, targets, _visit__all__ (no effect unless SAllAssign) *)
      let s1 := vexpr track value stk (with_ln s ln) in
      fold_left (fun s t => vtarget track t stk s) targets s1
  | SAugAssign ln n attrs value =>
      (* repaired visit_AugAssign: load target, value, store target *)
      let s1 := load (with_ln s ln) stk (n :: attrs) in
      let s2 := vexpr track value stk s1 in
      store track s2 stk (n :: attrs) Plain
  | SAllAssign ln names =>
      (* value: string constants; target Store; then for e in elts: _visit_Load_defered_global *)
      let s1 := store track (with_ln s ln) stk [n_all] Plain in
      if in_fd s1 then s1 else
      fold_left (fun s e => let '(b, s') := needs s stk [e] in
                            if b then with_deferred s' (deferred s' ++ [([e], stk, lineno s')]) else s')
                names s1
  | SImport ln items =>
      fold_left (fun s it => store_import track s stk (fst it) (snd it) None) items (with_ln s ln)
  | SImportFrom ln modname items =>
      fold_left (fun s it => store_import track s stk [fst it] (snd it) (Some modname)) items (with_ln s ln)
  | SDef ln nm decos ps ret body =>
      (* repaired: decorator_list is visited before the function's scope is opened *)
      let s0 := vdecos track decos stk (with_ln s ln) in
      let '(stkA, s1) := push s0 stk true false false in
      let s3 := if Nat.ltb 0 (in_cd s1) then set_in_scope s1 (top stkA) [n_class] Plain else s1 in
      let s4 := varguments track ps stkA (with_ln s3 ln) in
      (* repaired: with _UpScopeCtx(): visit(node.returns) *)
      let s5 := voexpr track ret (removelast stkA) s4 in
      let fd := in_fd s5 in
      let '(stkB, s6) := push (with_fd s5 true) stkA false false true in
      let s7 := if Nat.eqb (in_cd s6) 0 then store track s6 stkB [nm] Plain else s6 in
      let s8 := vblock body stkB s7 in
      let s9 := with_fd (pop s8 (top stkB)) fd in
      let s10 := pop s9 (top stkA) in
      store track s10 stk [nm] Plain
  | SClass ln nm bases decos kws body =>
      let s1 := vexprs track bases stk (with_ln s ln) in
      let s2 := vdecos track decos stk s1 in
      let s3 := vexprs track kws stk (with_ln s2 ln) in
      let s4 := if Nat.eqb (in_cd s3) 0 then set_in_scope s3 delayed_id [nm] Plain else s3 in
      let '(stkC, s5) := push s4 stk false true false in
      let s6 := store track (with_cd s5 (S (in_cd s5))) stkC [nm] Plain in
      let s7 := vblock body stkC s6 in
      let s8 := pop (with_cd s7 (pred (in_cd s7))) (top stkC) in
      let s9 := with_missing s8 (remove_from_missing [nm] (missing s8)) in
      store track s9 stk [nm] Plain
  | SFor ln tgt iter body orelse =>
      (* repaired visit_For: iter, target, body, orelse *)
      let s1 := vexpr track iter stk (with_ln s ln) in
      let s2 := vtarget track tgt stk s1 in
      vblock orelse stk (vblock body stk s2)
  | SWhile ln test body orelse =>
      vblock orelse stk (vblock body stk (vexpr track test stk (with_ln s ln)))
  | SIf ln test body orelse =>
      vblock orelse stk (vblock body stk (vexpr track test stk (with_ln s ln)))
  | SWith ln items body =>
      let s1 := fold_left (fun s it => let s' := vexpr track (fst it) stk s in
                                       match snd it with Some t => vtarget track t stk s' | None => s' end)
                          items (with_ln s ln) in
      vblock body stk s1
  | STry ln body handlers orelse finalbody =>
      let s1 := vblock body stk (with_ln s ln) in
      let s2 := (fix hs (l : list handler) (s : st) : st :=
                   match l with
                   | [] => s
                   | Handler hl ty nm hb :: r =>
                       (* visit_ExceptHandler: type, _visit_Store(name), body *)
                       let sa := voexpr track ty stk (with_ln s hl) in
                       let sb := match nm with Some n => store track sa stk [n] Plain | None => sa end in
                       hs r (vblock hb stk sb)
                   end) handlers s1 in
      vblock finalbody stk (vblock orelse stk s2)
  | SPass ln => with_ln s ln
  | SDoc ln _ _ => with_ln s ln          (* an Expr statement holding a Constant *)
  end.

Definition vblock (track : bool) (l : list stmt) (stk : stack) (s : st) : st :=
  fold_left (fun s y => vstmt track y stk s) l s.

(* ---------- drivers ---------- *)

Definition plain_dict (l : list name) : dict := map (fun n => ([n], Plain)) l.

(* ScopeStack(namespaces) = [builtins.__dict__ + _builtins2] + namespaces; then
   _MissingImportFinder.__init__ adds one empty scope.  ids: 0 builtins, 1 _class_delayed,
   2.. the given namespaces, then the private top scope *)
Definition init_state (bi : list name) (ns : list (list name)) : stack * st :=
  let s0 := mkSt [(builtins_id, (KNormal, plain_dict bi)); (delayed_id, (KNormal, []))] 2 [] [] [] [] false 0 0 in
  let '(ids, s1) := fold_left (fun acc l => let '(ids, s) := acc in
                                            let '(i, s') := new_scope s KNormal (plain_dict l) in (ids ++ [i], s'))
                              ns ([builtins_id], s0) in
  push s1 ids false false false.

(* _finish_deferred_load_checks *)
Definition is_clone (k : skind) : bool := match k with KClone => true | _ => false end.
Definition pending_dicts (s : st) (after : nat) : list dict :=
  map (fun x : nat * (skind * dict) => snd (snd x))
      (filter (fun x : nat * (skind * dict) => Nat.ltb after (fst x) && negb (is_clone (fst (snd x)))) (scopes s)).
Definition finish_deferred (cur : stack) (s : st) : st :=
  let s1 := fold_left (fun s d => let '(n, stk, ln) := d in check_load s cur stk n ln) (deferred s) s in
  let s2 := fold_left report_unused_of (pending_dicts s1 (top cur)) s1 in
  with_deferred s2 [].

(* _scan_node on a Module *)
Definition scan_node (track : bool) (p : program) (stk : stack) (s : st) : st :=
  finish_deferred stk (vblock track p stk s).

(* sorting as Python sorts the result tuples (ids are monotone in string order) *)
Fixpoint dotted_leb (a b : dotted) : bool :=
  match a, b with
  | [], _ => true
  | _ :: _, [] => false
  | x :: a', y :: b' => if N.ltb x y then true else if N.eqb x y then dotted_leb a' b' else false
  end.
Definition key_leb (a b : nat * dotted) : bool :=
  if Nat.ltb (fst a) (fst b) then true else if Nat.eqb (fst a) (fst b) then dotted_leb (snd a) (snd b) else false.
Definition ukey_leb (a b : nat * import) : bool :=
  if Nat.ltb (fst a) (fst b) then true
  else if Nat.eqb (fst a) (fst b) then
    (if dotted_eqb (fst (snd a)) (fst (snd b)) then dotted_leb (snd (snd a)) (snd (snd b))
     else dotted_leb (fst (snd a)) (fst (snd b)))
  else false.
Fixpoint insert_by {A} (leb : A -> A -> bool) (x : A) (l : list A) : list A :=
  match l with [] => [x] | y :: r => if leb x y then x :: l else y :: insert_by leb x r end.
Definition sort_by {A} (leb : A -> A -> bool) (l : list A) : list A := fold_right (insert_by leb) [] l.
Fixpoint dedup_sorted (l : list dotted) : list dotted :=
  match l with
  | [] => []
  | x :: r => match r with
              | [] => [x]
              | y :: _ => if dotted_eqb x y then dedup_sorted r else x :: dedup_sorted r
              end
  end.

(* _scan_unused_imports: the still-unused checkers of the private top scope, then sort *)
Definition scan_unused (stk : stack) (s : st) : st := report_unused_of s (scope_dict s (top stk)).

(* the (missing, unused) pair of _MissingImportFinder.scan_for_import_issues (parse_docstrings=False);
   with track=false the unused list stays empty (Python: None) *)
Definition finder (bi : list name) (ns : list (list name)) (track : bool) (p : program)
  : list (nat * dotted) * list (nat * import) :=
  let '(stk, s0) := init_state bi ns in
  let s1 := scan_node track p stk s0 in
  let miss := sort_by key_leb (map (fun m => (m_line m, m_name m)) (missing s1)) in
  let s2 := if track then scan_unused stk s1 else s1 in
  (miss, sort_by ukey_leb (unused s2)).

(* scan_for_import_issues with parse_docstrings=True (what fix_unused_and_missing_imports calls):
     missing_imports = sorted(self.missing_imports)                  # before the docstrings
     for block in codeblock.get_doctests():                          # one block per doctest example
         with self._NewScopeCtx(check_unused_imports=False): self._scan_node(block.ast_node)
     for ident in literal_brace_identifiers: symbol_needs_import(ident, self.scopestack)
     self._scan_unused_imports()                                                                   *)
Definition scan_doctest (track : bool) (stk : stack) (s : st) (d : stmt) : st :=
  let '(stkD, s1) := push s stk false false false in
  scan_node track [d] stkD s1.
Definition finder_doc (bi : list name) (ns : list (list name)) (p : program)
  : list (nat * dotted) * list (nat * import) :=
  let '(stk, s0) := init_state bi ns in
  let s1 := scan_node true p stk s0 in
  let miss := sort_by key_leb (map (fun m => (m_line m, m_name m)) (missing s1)) in
  let s2' := fold_left (scan_doctest true stk) (flat_map fst (docstrings_of p)) s1 in
  (* repaired (fixes/C02a): del self.unused_imports[n_unused_before_doctests:] *)
  let s2 := with_unused s2' (unused s1) in
  let s3 := fold_left (fun s n => snd (needs s stk [n])) (brace_ids p) s2 in
  (miss, sort_by ukey_leb (unused (scan_unused stk s3))).
Definition scan_issues_doc (bi : list name) (p : program) := finder_doc bi [[]] p.

(* find_missing_imports(src, namespaces): sorted(set(name for lineno, name in missing)) *)
Definition find_missing (bi : list name) (ns : list (list name)) (p : program) : list dotted :=
  dedup_sorted (sort_by dotted_leb (map snd (fst (finder bi ns false p)))).

(* scan_for_import_issues(PythonBlock(src), find_unused_imports=True): namespaces = [{}] *)
Definition scan_issues (bi : list name) (p : program) := finder bi [[]] true p.

(* The option folding is "last setting of each destination wins", the shortcuts are exactly their documented
   expansion, and they never touch width / hanging_indent / align_future. *)
From Coq Require Import NArith List Bool Arith.
From Verif Require Import Base.Chars Imports.Import Imports.ImportSet Imports.Format Imports.Cli.
Import ListNotations.

Definition sets_width (o : cli_option) : bool := match o with OWidth _ => true | _ => false end.
Definition sets_hanging (o : cli_option) : bool := match o with OHanging _ => true | _ => false end.
Definition sets_align_future (o : cli_option) : bool := match o with OAlignFuture _ => true | _ => false end.
Definition sets_align (o : cli_option) : bool := match o with OAlign _ | OUniform | OUnaligned => true | _ => false end.
Definition sets_from_spaces (o : cli_option) : bool := match o with OFromSpaces _ | OUniform | OUnaligned => true | _ => false end.
Definition sets_separate (o : cli_option) : bool := match o with OSeparate _ | OUniform | OUnaligned => true | _ => false end.

Lemma fold_values_app v a b : fold_values v (a ++ b) = fold_values (fold_values v a) b.
Proof. apply fold_left_app. Qed.

(* options that do not name a destination leave it alone *)
Lemma keep_field {A} (get : cli_values -> A) (sets : cli_option -> bool) :
  (forall v o, sets o = false -> get (apply_option v o) = get v) ->
  forall opts v, forallb (fun o => negb (sets o)) opts = true -> get (fold_values v opts) = get v.
Proof.
  intros H. induction opts as [|o r IH]; intros v Hf; [reflexivity|]. cbn [forallb] in Hf.
  apply andb_true_iff in Hf as [Ho Hr]. apply negb_true_iff in Ho. cbn [fold_values fold_left].
  change (get (fold_values (apply_option v o) r) = get v). rewrite (IH _ Hr). apply H. exact Ho.
Qed.

Lemma keep_width opts v : forallb (fun o => negb (sets_width o)) opts = true -> v_width (fold_values v opts) = v_width v.
Proof. apply (keep_field v_width sets_width). intros v0 o; destruct o; cbn; congruence. Qed.
Lemma keep_hanging opts v : forallb (fun o => negb (sets_hanging o)) opts = true -> v_hanging (fold_values v opts) = v_hanging v.
Proof. apply (keep_field v_hanging sets_hanging). intros v0 o; destruct o; cbn; congruence. Qed.
Lemma keep_align_future opts v : forallb (fun o => negb (sets_align_future o)) opts = true -> v_align_future (fold_values v opts) = v_align_future v.
Proof. apply (keep_field v_align_future sets_align_future). intros v0 o; destruct o; cbn; congruence. Qed.
Lemma keep_align opts v : forallb (fun o => negb (sets_align o)) opts = true -> v_align (fold_values v opts) = v_align v.
Proof. apply (keep_field v_align sets_align). intros v0 o; destruct o; cbn; congruence. Qed.
Lemma keep_from_spaces opts v : forallb (fun o => negb (sets_from_spaces o)) opts = true -> v_from_spaces (fold_values v opts) = v_from_spaces v.
Proof. apply (keep_field v_from_spaces sets_from_spaces). intros v0 o; destruct o; cbn; congruence. Qed.
Lemma keep_separate opts v : forallb (fun o => negb (sets_separate o)) opts = true -> v_separate (fold_values v opts) = v_separate v.
Proof. apply (keep_field v_separate sets_separate). intros v0 o; destruct o; cbn; congruence. Qed.

(* an explicit --width / --hanging-indent / --align-future is final unless the same option follows: whatever
   precedes it (shortcuts included) is irrelevant, and the shortcuts after it do not undo it *)
Theorem width_last_wins v before n after : forallb (fun o => negb (sets_width o)) after = true ->
  v_width (fold_values v (before ++ OWidth n :: after)) = Some n.
Proof. intros H. rewrite fold_values_app. cbn [fold_values fold_left]. change (v_width (fold_values (apply_option (fold_values v before) (OWidth n)) after) = Some n). rewrite (keep_width _ _ H). reflexivity. Qed.

Theorem hanging_last_wins v before h after : forallb (fun o => negb (sets_hanging o)) after = true ->
  v_hanging (fold_values v (before ++ OHanging h :: after)) = h.
Proof. intros H. rewrite fold_values_app. change (v_hanging (fold_values (apply_option (fold_values v before) (OHanging h)) after) = h). rewrite (keep_hanging _ _ H). reflexivity. Qed.

Theorem align_future_last_wins v before b after : forallb (fun o => negb (sets_align_future o)) after = true ->
  v_align_future (fold_values v (before ++ OAlignFuture b :: after)) = b.
Proof. intros H. rewrite fold_values_app. change (v_align_future (fold_values (apply_option (fold_values v before) (OAlignFuture b)) after) = b). rewrite (keep_align_future _ _ H). reflexivity. Qed.

(* --align-imports survives everything placed before it; after it only another --align-imports or a shortcut
   (which documents that it sets align_imports) replaces it *)
Theorem align_last_wins v before c after : forallb (fun o => negb (sets_align o)) after = true ->
  v_align (fold_values v (before ++ OAlign c :: after)) = c.
Proof. intros H. rewrite fold_values_app. change (v_align (fold_values (apply_option (fold_values v before) (OAlign c)) after) = c). rewrite (keep_align _ _ H). reflexivity. Qed.

(* the shortcuts are exactly their documentation ... *)
Theorem uniform_is_its_expansion v : apply_option v OUniform = fold_values v [OSeparate false; OFromSpaces 3; OAlign [32]].
Proof. reflexivity. Qed.
Theorem unaligned_is_its_expansion v : apply_option v OUnaligned = fold_values v [OSeparate true; OFromSpaces 1; OAlign [0]].
Proof. reflexivity. Qed.

(* ... and never touch the other pretty-printing options, wherever they stand *)
Definition is_shortcut (o : cli_option) : bool := match o with OUniform | OUnaligned => true | _ => false end.
Theorem shortcuts_keep_width_hanging_future v opts : forallb is_shortcut opts = true ->
  v_width (fold_values v opts) = v_width v /\ v_hanging (fold_values v opts) = v_hanging v /\
  v_align_future (fold_values v opts) = v_align_future v.
Proof.
  intros H. assert (Hs : forall sets, (forall o, is_shortcut o = true -> sets o = false) ->
                          forallb (fun o => negb (sets o)) opts = true).
  { intros sets Hn. apply forallb_forall. intros o Ho. rewrite forallb_forall in H. rewrite (Hn o (H o Ho)). reflexivity. }
  split; [|split]; [apply keep_width|apply keep_hanging|apply keep_align_future]; apply Hs; intros o; destruct o; cbn; congruence.
Qed.

(* precedence: a destination the command line does not name keeps its pyproject value, else the default *)
Theorem cmdline_over_pyproject_width py cmd n after before :
  cmd = before ++ OWidth n :: after -> forallb (fun o => negb (sets_width o)) after = true ->
  max_line_length (fold_format_options py cmd) = Some n.
Proof. intros -> H. unfold fold_format_options, params_of_values. cbn [max_line_length]. apply width_last_wins. exact H. Qed.

Theorem pyproject_when_cmdline_silent_width py cmd : forallb (fun o => negb (sets_width o)) cmd = true ->
  max_line_length (fold_format_options py cmd) = v_width (fold_values cli_defaults py).
Proof. intros H. unfold fold_format_options, params_of_values. cbn [max_line_length]. apply keep_width. exact H. Qed.

Theorem pyproject_when_cmdline_silent_hanging py cmd : forallb (fun o => negb (sets_hanging o)) cmd = true ->
  hanging (fold_format_options py cmd) = v_hanging (fold_values cli_defaults py).
Proof. intros H. unfold fold_format_options, params_of_values. cbn [hanging]. apply keep_hanging. exact H. Qed.

Theorem pyproject_when_cmdline_silent py cmd :
  (forallb (fun o => negb (sets_width o)) cmd = true ->
     max_line_length (fold_format_options py cmd) = v_width (fold_values cli_defaults py)) /\
  (forallb (fun o => negb (sets_hanging o)) cmd = true ->
     hanging (fold_format_options py cmd) = v_hanging (fold_values cli_defaults py)).
Proof. split; [apply pyproject_when_cmdline_silent_width|apply pyproject_when_cmdline_silent_hanging]. Qed.

(* C11 at the level of import sets: assembling FormatProofs (printing/lexing), ImportLexProofs (parsing)
   and ImportSetProofs (the statements of a well-formed set). *)
From Coq Require Import NArith List Bool Lia Sorted.
From Verif Require Import Base.Chars Base.StrX Base.StrXProofs Imports.Import Imports.ImportProofs
                          Imports.ImportSet Imports.ImportSetProofs Imports.Format Imports.FormatProofs
                          Imports.ImportLex Imports.ImportLexProofs.
Import ListNotations.

Theorem print_lexes P S out : wf_set S -> print_set P S = Some out ->
  exists bl : list (bool * sstmt),
    map (fun ps => to_stmt (snd ps)) bl = get_statements (separate_from_imports P) S /\
    lex out = Some (block_toks bl).
Proof.
  intros HS Hp. destruct (print_set_lexes_stmts P S out (get_statements_wf _ S HS) Hp) as (bl & Em & _ & HL).
  exists bl. split; assumption.
Qed.

Theorem roundtrip P S out : wf_set S -> print_set P S = Some out ->
  parse_imports out = Some (canonical (separate_from_imports P) S).
Proof.
  intros HS Hp. apply (print_set_roundtrip_stmts P S out (get_statements_wf _ S HS) Hp).
Qed.

Theorem roundtrip_stmts P S out : wf_set S -> print_set P S = Some out ->
  parse_stmts out = Some (get_statements (separate_from_imports P) S).
Proof.
  intros HS Hp. apply (print_set_roundtrip_stmts P S out (get_statements_wf _ S HS) Hp).
Qed.

(* ---------- a concrete well-formed set (non-vacuity of the hypotheses) ---------- *)
From Coq Require Import String.
Open Scope string_scope.
Definition ex_imports : list import :=
  [ mkImport (dec "os.path") (dec "path");
    mkImport (dec "os.environ") (dec "env");
    mkImport (dec "numpy") (dec "np");
    mkImport (dec "a.b.c") (dec "a.b.c");
    mkImport (dec "..pkg.mod.*") (dec "*");
    mkImport (dec "__future__.division") (dec "division") ].
Definition ex_params : params := mkParams (Some 24) 4 Auto (AlignBool true) 2 true false.
Close Scope string_scope.

Ltac wf_id := unfold wf_ident; vm_compute; reflexivity.

Lemma ex_imports_wf : Forall wf_import ex_imports.
Proof.
  unfold ex_imports.
  apply Forall_cons; [|apply Forall_cons; [|apply Forall_cons; [|apply Forall_cons; [|apply Forall_cons; [|apply Forall_cons; [|apply Forall_nil]]]]]].
  - change (wf_import (mkImport (repeat c_dot 0 ++ join_with c_dot ([dec "os"%string] ++ [dec "path"%string])) (dec "path"%string))).
    apply WfFrom; [split; [repeat constructor; wf_id|right; discriminate]|wf_id|wf_id].
  - change (wf_import (mkImport (repeat c_dot 0 ++ join_with c_dot ([dec "os"%string] ++ [dec "environ"%string])) (dec "env"%string))).
    apply WfFrom; [split; [repeat constructor; wf_id|right; discriminate]|wf_id|wf_id].
  - apply WfAs; [wf_id|wf_id|vm_compute; discriminate].
  - change (wf_import (mkImport (join_with c_dot [dec "a"%string; dec "b"%string; dec "c"%string])
                                (join_with c_dot [dec "a"%string; dec "b"%string; dec "c"%string]))).
    apply WfPlain; [discriminate|repeat constructor; wf_id].
  - change (wf_import (mkImport (repeat c_dot 2 ++ join_with c_dot ([dec "pkg"%string; dec "mod"%string] ++ [s_star])) s_star)).
    apply WfStar. split; [repeat constructor; wf_id|left; discriminate].
  - change (wf_import (mkImport (repeat c_dot 0 ++ join_with c_dot ([dec "__future__"%string] ++ [dec "division"%string])) (dec "division"%string))).
    apply WfFrom; [split; [repeat constructor; wf_id|right; discriminate]|wf_id|wf_id].
Qed.

Lemma ex_set_wf : wf_set (from_imports true ex_imports).
Proof. apply from_imports_wf. exact ex_imports_wf. Qed.

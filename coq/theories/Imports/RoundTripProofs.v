(* C11 at the level of import sets: assembling FormatProofs (printing/lexing), ImportLexProofs (parsing)
   and ImportSetProofs (the statements of a well-formed set). *)
From Coq Require Import NArith List Bool Lia Sorted.
From Verif Require Import Base.Chars Base.StrX Base.StrXProofs Imports.Import Imports.ImportProofs
                          Imports.ImportSet Imports.ImportSetProofs Imports.Format Imports.FormatProofs
                          Imports.ImportLex Imports.ImportLexProofs.
Import ListNotations.

Theorem print_lexes P S out : wf_set S -> print_set P S = Some out ->
  exists bl : list (bool * sstmt),
    map (fun ps => to_stmt (snd ps)) bl = get_statements (separate_from_imports P) S /\
    lex out = Some (block_toks bl).
Proof.
  intros HS Hp. destruct (print_set_lexes_stmts P S out (get_statements_wf _ S HS) Hp) as (col & bl & _ & Em & _ & _ & HL).
  exists bl. split; assumption.
Qed.

(* the explicit token list: tokens P S = block_toks (combine flags sss), where sss is the structured reading of
   the statements of S (to_stmt sss = get_statements), and the flag of a statement is the computable pp_paren:
   a `from` statement other than a star import gets parentheses exactly when pyfill's one-line test fails at the
   column chosen by choose_column *)
Theorem print_lexes_explicit P S out : wf_set S -> print_set P S = Some out ->
  exists (col : option nat) (sss : list sstmt),
    choose_column P (get_statements (separate_from_imports P) S) = inr col /\
    map to_stmt sss = get_statements (separate_from_imports P) S /\
    lex out = Some (block_toks (map (fun ss => (pp_paren P col (to_stmt ss), ss)) sss)).
Proof.
  intros HS Hp. destruct (print_set_lexes_stmts P S out (get_statements_wf _ S HS) Hp) as (col & bl & Hc & Em & _ & Ef & HL).
  exists col, (map snd bl). split; [exact Hc|]. rewrite map_map. split; [exact Em|].
  rewrite HL. f_equal. f_equal. rewrite map_map.
  rewrite <- Em in Ef. rewrite map_map in Ef.
  clear - Ef. induction bl as [|[b ss] bl IH]; [reflexivity|]. cbn [map fst snd] in *.
  inversion Ef as [[E1 E2]]. rewrite <- E1. f_equal. apply IH. exact E2.
Qed.

Theorem roundtrip P S out : wf_set S -> print_set P S = Some out ->
  parse_imports out = Some (canonical (separate_from_imports P) S).
Proof.
  intros HS Hp. apply (print_set_roundtrip_stmts P S out (get_statements_wf _ S HS) Hp).
Qed.

Theorem roundtrip_stmts P S out : wf_set S -> print_set P S = Some out ->
  parse_stmts out = Some (get_statements (separate_from_imports P) S).
Proof.
  intros HS Hp. apply (print_set_roundtrip_stmts P S out (get_statements_wf _ S HS) Hp).
Qed.

(* ---------- nothing lost, nothing added: canonical S has exactly the elements of S ---------- *)
Lemma split_eta i i0 : module_name (split i0) = module_name (split i) ->
  mkSplit (module_name (split i0)) (fst (alias_of i)) (snd (alias_of i)) = split i.
Proof. intros ->. unfold alias_of. destruct (split i); reflexivity. Qed.

Lemma stmt_imports_of imps :
  (forall i j, In i imps -> In j imps -> module_name (split i) = module_name (split j)) ->
  Forall wf_import imps -> stmt_imports (stmt_of_imports imps) = imps.
Proof.
  intros Hs Hw. destruct imps as [|i0 r]; [reflexivity|].
  unfold stmt_imports, stmt_of_imports. cbn [fst snd]. rewrite map_map.
  transitivity (map (fun i : import => i) (i0 :: r)); [|apply map_id].
  apply map_ext_in. intros i Hi.
  rewrite split_eta by (apply Hs; [left; reflexivity|exact Hi]).
  apply from_split_split. rewrite Forall_forall in Hw. auto.
Qed.

Lemma group_imports_eq labels S k : std_labels labels -> wf_set S ->
  flat_map stmt_imports (group_stmts_of labels S k) =
  filter is_star (filter (in_group labels k) S) ++
  sort_u import_compare (filter (fun i => negb (is_star i)) (filter (in_group labels k) S)).
Proof.
  intros Hl [Hwf Hnd]. unfold group_stmts_of.
  set (members := filter (in_group labels k) S).
  assert (Hmem : forall i, In i members -> wf_import i /\ in_group labels k i = true).
  { intros i Hi. apply filter_In in Hi as [Hi Hg]. rewrite Forall_forall in Hwf. auto. }
  assert (Hsame : forall i j, In i members -> In j members -> module_name (split i) = module_name (split j)).
  { intros i j Hi Hj. apply classify_module_name. eapply in_group_same; [exact Hl|apply Hmem; exact Hi|apply Hmem; exact Hj]. }
  rewrite flat_map_app. f_equal.
  - destruct (filter is_star members) as [|s0 sr] eqn:Es; [reflexivity|]. cbn [flat_map]. rewrite app_nil_r.
    apply stmt_imports_of.
    + intros i j Hi Hj. rewrite <- Es in Hi, Hj. apply filter_In in Hi as [Hi _]. apply filter_In in Hj as [Hj _]. auto.
    + apply Forall_forall. intros i Hi. rewrite <- Es in Hi. apply filter_In in Hi as [Hi _]. apply Hmem. exact Hi.
  - destruct (sort_u import_compare _) as [|n0 nr] eqn:En; [reflexivity|]. cbn [flat_map]. rewrite app_nil_r.
    assert (Hin : forall i, In i (n0 :: nr) -> In i members).
    { intros i Hi. rewrite <- En in Hi. apply sort_u_in in Hi. apply filter_In in Hi as [Hi _]. exact Hi. }
    apply stmt_imports_of.
    + intros i j Hi Hj. auto.
    + apply Forall_forall. intros i Hi. apply Hmem. auto.
Qed.

Lemma flat_map_flat_map {A B C} (f : A -> list B) (g : B -> list C) (l : list A) :
  flat_map g (flat_map f l) = flat_map (fun a => flat_map g (f a)) l.
Proof. induction l as [|a l IH]; [reflexivity|]. cbn [flat_map]. rewrite flat_map_app, IH. reflexivity. Qed.

Lemma key_compare_eq k k' : key_compare k k' = Eq -> k = k'.
Proof. intros H. apply key_eqb_eq. unfold key_eqb. rewrite H. reflexivity. Qed.

Lemma key_compare_refl k : key_compare k k = Eq.
Proof. unfold key_compare. rewrite str_compare_refl, PeanoNat.Nat.compare_refl. reflexivity. Qed.

Lemma key_eqb_refl k : key_eqb k k = true.
Proof. unfold key_eqb, key_compare. rewrite str_compare_refl, PeanoNat.Nat.compare_refl. reflexivity. Qed.

Lemma group_in labels S x : std_labels labels -> wf_set S ->
  (In x (flat_map stmt_imports (group_stmts labels S)) <-> In x S /\ key_of labels x <> None).
Proof.
  intros Hl HS. unfold group_stmts. rewrite flat_map_flat_map.
  rewrite in_flat_map. split.
  - intros (k & Hk & Hx). rewrite (group_imports_eq labels S k Hl HS) in Hx.
    assert (Hm : In x (filter (in_group labels k) S)).
    { apply in_app_or in Hx as [Hx|Hx]; [apply filter_In in Hx as [Hx _]; exact Hx|].
      apply sort_u_in in Hx. apply filter_In in Hx as [Hx _]. exact Hx. }
    apply filter_In in Hm as [Hm Hg]. split; [exact Hm|]. unfold in_group in Hg.
    destruct (key_of labels x); [discriminate|discriminate].
  - intros [Hx Hk]. destruct (key_of labels x) as [k|] eqn:Ek; [|congruence]. exists k. split.
    + unfold group_keys. apply (sort_u_in_rev key_compare key_compare_eq key_compare_refl).
      apply in_flat_map. exists x. split; [exact Hx|]. rewrite Ek. left. reflexivity.
    + rewrite (group_imports_eq labels S k Hl HS).
      assert (Hm : In x (filter (in_group labels k) S)).
      { apply filter_In. split; [exact Hx|]. unfold in_group. rewrite Ek. apply key_eqb_refl. }
      apply in_or_app. destruct (is_star x) eqn:Es.
      * left. apply filter_In. auto.
      * right. apply (sort_u_in_rev import_compare import_compare_eq import_compare_refl). apply filter_In. split; [exact Hm|]. rewrite Es. reflexivity.
Qed.

Theorem canonical_in sep S x : wf_set S -> (In x (canonical sep S) <-> In x S).
Proof.
  intros HS. unfold canonical, get_statements.
  assert (L1 : std_labels [(CFuture, 0)]) by (unfold std_labels; auto).
  assert (L2 : std_labels [(CPkg, 0)]) by (unfold std_labels; auto).
  assert (L3 : std_labels [(CFrom, 0)]) by (unfold std_labels; auto).
  assert (L4 : std_labels [(CPkg, 0); (CFrom, 1)]) by (unfold std_labels; auto 6).
  destruct sep; rewrite !flat_map_app, !in_app_iff, !group_in by assumption.
  - split; [tauto|]. intros Hx. unfold key_of. destruct (classify x) as [c n]. cbn [fst snd].
    destruct c; cbn; [left|right; left|right; right]; (split; [exact Hx|discriminate]).
  - split; [tauto|]. intros Hx. unfold key_of. destruct (classify x) as [c n]. cbn [fst snd].
    destruct c; cbn; [left|right|right]; (split; [exact Hx|discriminate]).
Qed.

Definition sorted_set (S : import_set) : Prop := StronglySorted (lt import_compare) S.

(* rebuilding the set from the printed order gives the set back *)
Theorem canonical_set sep S : wf_set S -> sorted_set S -> from_imports false (canonical sep S) = S.
Proof.
  intros HS Hs. unfold from_imports.
  apply (sorted_ext import_compare import_compare_refl import_compare_antisym).
  - apply sort_u_sorted; [apply import_compare_antisym|apply import_compare_trans].
  - exact Hs.
  - intros x. rewrite <- (canonical_in sep S x HS). split.
    + apply sort_u_in.
    + apply (sort_u_in_rev import_compare import_compare_eq import_compare_refl).
Qed.

(* reprint: formatting the re-parsed set reproduces the identical text *)
Theorem reprint P S out S' : wf_set S -> sorted_set S -> print_set P S = Some out ->
  parse_imports out = Some S' -> print_set P (from_imports false S') = Some out.
Proof.
  intros HS Hs Hp Hq. rewrite (roundtrip P S out HS Hp) in Hq. inversion Hq; subst S'.
  rewrite canonical_set by assumption. exact Hp.
Qed.

Lemma from_imports_sorted_set b l : sorted_set (from_imports b l).
Proof. apply from_imports_sorted. Qed.

(* ---------- a concrete well-formed set (non-vacuity of the hypotheses) ---------- *)
From Coq Require Import String.
Open Scope string_scope.
Definition ex_imports : list import :=
  [ mkImport (dec "os.path") (dec "path");
    mkImport (dec "os.environ") (dec "env");
    mkImport (dec "numpy") (dec "np");
    mkImport (dec "a.b.c") (dec "a.b.c");
    mkImport (dec "..pkg.mod.*") (dec "*");
    mkImport (dec "__future__.division") (dec "division") ].
Definition ex_params : params := mkParams (Some 24) 4 Auto (AlignBool true) 2 true false.
Close Scope string_scope.

Ltac wf_id := unfold wf_ident; vm_compute; reflexivity.

Lemma ex_imports_wf : Forall wf_import ex_imports.
Proof.
  unfold ex_imports.
  apply Forall_cons; [|apply Forall_cons; [|apply Forall_cons; [|apply Forall_cons; [|apply Forall_cons; [|apply Forall_cons; [|apply Forall_nil]]]]]].
  - change (wf_import (mkImport (repeat c_dot 0 ++ join_with c_dot ([dec "os"%string] ++ [dec "path"%string])) (dec "path"%string))).
    apply WfFrom; [split; [repeat constructor; wf_id|right; discriminate]|wf_id|wf_id].
  - change (wf_import (mkImport (repeat c_dot 0 ++ join_with c_dot ([dec "os"%string] ++ [dec "environ"%string])) (dec "env"%string))).
    apply WfFrom; [split; [repeat constructor; wf_id|right; discriminate]|wf_id|wf_id].
  - apply WfAs; [wf_id|wf_id|vm_compute; discriminate].
  - change (wf_import (mkImport (join_with c_dot [dec "a"%string; dec "b"%string; dec "c"%string])
                                (join_with c_dot [dec "a"%string; dec "b"%string; dec "c"%string]))).
    apply WfPlain; [discriminate|repeat constructor; wf_id].
  - change (wf_import (mkImport (repeat c_dot 2 ++ join_with c_dot ([dec "pkg"%string; dec "mod"%string] ++ [s_star])) s_star)).
    apply WfStar. split; [repeat constructor; wf_id|left; discriminate].
  - change (wf_import (mkImport (repeat c_dot 0 ++ join_with c_dot ([dec "__future__"%string] ++ [dec "division"%string])) (dec "division"%string))).
    apply WfFrom; [split; [repeat constructor; wf_id|right; discriminate]|wf_id|wf_id].
Qed.

Lemma ex_set_wf : wf_set (from_imports true ex_imports).
Proof. apply from_imports_wf. exact ex_imports_wf. Qed.

(* the same for sets as the code builds them: ImportSet(l, ignore_shadowed=b) *)
Theorem reprint_built P b l out S' : Forall wf_import l -> print_set P (from_imports b l) = Some out ->
  parse_imports out = Some S' -> print_set P (from_imports false S') = Some out.
Proof.
  intros Hl. apply reprint; [apply from_imports_wf; exact Hl|apply from_imports_sorted_set].
Qed.

Theorem roundtrip_built P b l out : Forall wf_import l -> print_set P (from_imports b l) = Some out ->
  exists S', parse_imports out = Some S' /\ (forall x, In x S' <-> In x (from_imports b l)) /\
             from_imports false S' = from_imports b l.
Proof.
  intros Hl Hp. pose proof (from_imports_wf b l Hl) as HS.
  exists (canonical (separate_from_imports P) (from_imports b l)). split; [apply roundtrip; assumption|].
  split; [intros x; apply canonical_in; exact HS|apply canonical_set; [exact HS|apply from_imports_sorted_set]].
Qed.

(* M3 (a): pyflyby._importstmt.Import  (split / from_split / ordering / replace).
   Model only; proofs are in ImportProofs.v. *)
From Coq Require Import NArith List Bool.
From Verif Require Import Base.Chars Base.StrX.
Import ListNotations.

(* Import.fullname (leading dots of a relative import included), Import.import_as *)
Record import := mkImport { fullname : str; import_as : str }.

(* ImportSplit = namedtuple("ImportSplit", "module_name member_name import_as") *)
Record import_split := mkSplit { module_name : option str; member_name : str; as_name : option str }.

Definition s_star : str := [c_star].
Definition s_from : str := [102; 114; 111; 109]%N.
Definition s_import : str := [105; 109; 112; 111; 114; 116]%N.
Definition s_as : str := [97; 115]%N.
Definition s_future : str := [95; 95; 102; 117; 116; 117; 114; 101; 95; 95]%N.

(* ---------- ordering: Python compares str by code point, tuples lexicographically ---------- *)
Fixpoint str_compare (a b : str) : comparison :=
  match a, b with
  | [], [] => Eq
  | [], _ :: _ => Lt
  | _ :: _, [] => Gt
  | x :: a', y :: b' => match N.compare x y with Eq => str_compare a' b' | c => c end
  end.

(*  Import._data = (self.fullname, self.import_as);  __lt__/__eq__ compare _data  *)
Definition import_compare (i j : import) : comparison :=
  match str_compare (fullname i) (fullname j) with
  | Eq => str_compare (import_as i) (import_as j)
  | c => c
  end.
Definition import_eqb (i j : import) : bool :=
  str_eqb (fullname i) (fullname j) && str_eqb (import_as i) (import_as j).

(* sorted(...) over a duplicate-free collection: insertion sort that also drops equal elements *)
Fixpoint insert_u {A} (cmp : A -> A -> comparison) (x : A) (l : list A) : list A :=
  match l with
  | [] => [x]
  | y :: r => match cmp x y with
              | Lt => x :: l
              | Eq => l
              | Gt => y :: insert_u cmp x r
              end
  end.
Definition sort_u {A} (cmp : A -> A -> comparison) (l : list A) : list A := fold_right (insert_u cmp) [] l.

(* ---------- Import.split ----------
    level = 0
    for level, char in enumerate(qname):
        if char != '.': break
   (quirk kept: for a name made of dots only the loop ends without `break`, level = len-1) *)
Fixpoint dot_level (s : str) : nat :=
  match s with
  | [] => 0
  | c :: r => if (c =? c_dot)%N then match r with [] => 0 | _ :: _ => S (dot_level r) end else 0
  end.

(*  if '.' in qname: module_name, member_name = qname.rsplit(".", 1)  *)
Definition rsplit_dot (q : str) : option (str * str) :=
  match split_on c_dot q with
  | [] | [_] => None
  | ps => Some (join_with c_dot (removelast ps), last ps [])
  end.

(*  if self.import_as == self.fullname: return ImportSplit(None, self.fullname, None)
    prefix = qname[:level]; qname = qname[level:]
    if '.' in qname: module_name, member_name = qname.rsplit(".", 1)
    else: module_name = ''; member_name = qname
    module_name = prefix + module_name
    import_as = self.import_as
    if import_as == member_name: import_as = None
    return ImportSplit(module_name or None, member_name, import_as)             *)
Definition split (i : import) : import_split :=
  if str_eqb (import_as i) (fullname i) then mkSplit None (fullname i) None
  else
    let level := dot_level (fullname i) in
    let prefix := firstn level (fullname i) in
    let q := skipn level (fullname i) in
    let mm := match rsplit_dot q with Some p => p | None => ([], q) end in
    let m := prefix ++ fst mm in
    mkSplit (match m with [] => None | _ => Some m end)
            (snd mm)
            (if str_eqb (import_as i) (snd mm) then None else Some (import_as i)).

Definition ends_with_dot (s : str) : bool := (last s 0 =? c_dot)%N.

(*  if import_as is None: import_as = member_name
    if module_name is None: result = cls.from_parts(member_name, import_as)
    else: fullname = "%s%s%s" % (module_name, "" if module_name.endswith(".") else ".", member_name)   *)
Definition from_split (s : import_split) : import :=
  let a := match as_name s with None => member_name s | Some a => a end in
  match module_name s with
  | None => mkImport (member_name s) a
  | Some m => mkImport (m ++ (if ends_with_dot m then [] else [c_dot]) ++ member_name s) a
  end.

(* imp.import_as == "*" : how the collection classes recognise a star import *)
Definition is_star (i : import) : bool := str_eqb (import_as i) s_star.

(* ---------- Import.replace (same text as Rename/Replace.v, over this record) ---------- *)
Definition parts (s : str) : list str := split_on c_dot s.
Definition unparts (l : list str) : str := join_with c_dot l.
Definition replace (old new : str) (i : import) : import :=
  let pp := parts old in
  let rp := parts new in
  let fp := parts (fullname i) in
  let n := length pp in
  if negb (strs_eqb (firstn n fp) pp) then i
  else
    let fp' := rp ++ skipn n fp in
    let ap := parts (import_as i) in
    let ap' := if strs_eqb (firstn n ap) pp then rp ++ skipn n ap else ap in
    mkImport (unparts fp') (unparts ap').

(* M4 (c): the command-line / pyproject folding of the pretty-printing options
   (pyflyby._cmdline.parse_args(import_format_params=True), bin/tidy-imports' [tool.pyflyby] defaults).
   optparse processes the options left to right; every option stores into its own destination, the two
   shortcuts -u / -n store into the three destinations their help text names.  Model only; proofs: CliProofs.v. *)
From Coq Require Import NArith List Bool Arith.
From Verif Require Import Base.Chars Imports.Import Imports.ImportSet Imports.Format.
Import ListNotations.

Inductive cli_option :=
| OAlign (cols : list nat)        (* --align-imports=N[,N...] / --align *)
| OFromSpaces (n : nat)           (* --from-spaces=N *)
| OSeparate (b : bool)            (* --separate-from-imports / --no-separate-from-imports *)
| OAlignFuture (b : bool)         (* --align-future / --no-align-future *)
| OWidth (n : nat)                (* --width=N *)
| OHanging (h : hang)             (* --hanging-indent=never|auto|always *)
| OUniform                        (* -u: shortcut for --no-separate-from-imports --from-spaces=3 --align-imports=32 *)
| OUnaligned.                     (* -n: shortcut for --separate-from-imports --from-spaces=1 --align-imports=0 *)

(* parser.values for the pretty-printing destinations *)
Record cli_values := mkValues {
  v_align : list nat; v_from_spaces : nat; v_separate : bool; v_align_future : bool;
  v_width : option nat; v_hanging : hang }.

(*  add_option(..., default=...):  align_imports "32", from_spaces 3, separate_from_imports False,
    align_future False, width None, hanging_indent 'never'  *)
Definition cli_defaults : cli_values := mkValues [32] 3 false false None Never.

Definition apply_option (v : cli_values) (o : cli_option) : cli_values :=
  match o with
  | OAlign c => mkValues c (v_from_spaces v) (v_separate v) (v_align_future v) (v_width v) (v_hanging v)
  | OFromSpaces n => mkValues (v_align v) n (v_separate v) (v_align_future v) (v_width v) (v_hanging v)
  | OSeparate b => mkValues (v_align v) (v_from_spaces v) b (v_align_future v) (v_width v) (v_hanging v)
  | OAlignFuture b => mkValues (v_align v) (v_from_spaces v) (v_separate v) b (v_width v) (v_hanging v)
  | OWidth n => mkValues (v_align v) (v_from_spaces v) (v_separate v) (v_align_future v) (Some n) (v_hanging v)
  | OHanging h => mkValues (v_align v) (v_from_spaces v) (v_separate v) (v_align_future v) (v_width v) h
  (*  def uniform_callback: separate_from_imports = False; from_spaces = 3; align_imports = '32'  *)
  | OUniform => mkValues [32] 3 false (v_align_future v) (v_width v) (v_hanging v)
  (*  def unaligned_callback: separate_from_imports = True; from_spaces = 1; align_imports = '0'  *)
  | OUnaligned => mkValues [0] 1 true (v_align_future v) (v_width v) (v_hanging v)
  end.

Definition fold_values (init : cli_values) (opts : list cli_option) : cli_values := fold_left apply_option opts init.

(*  align_imports_args = [int(x) for x in options.align_imports.split(",")]
    [1] -> True, [0] -> False, else tuple(sorted(set(args)));  ImportFormatParams(...) ; indent is not an option  *)
Definition params_of_values (v : cli_values) : params :=
  mkParams (v_width v) 4 (v_hanging v)
           (match v_align v with [1] => AlignBool true | [0] => AlignBool false | cs => AlignCols cs end)
           (v_from_spaces v) (v_separate v) (v_align_future v).

(* documented precedence: command line > [tool.pyflyby] of pyproject.toml (parser.set_defaults) > defaults *)
Definition fold_format_options (pyproject cmdline : list cli_option) : params :=
  params_of_values (fold_values (fold_values cli_defaults pyproject) cmdline).

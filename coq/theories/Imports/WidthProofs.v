(* C11 width clause: the printed text is exactly a list of physical lines, each carrying a known number
   of alias tokens; a line carrying >= 2 aliases is never longer than the width unless its statement
   has no parenthesised form (plain `import`, star import).  No well-formedness hypothesis is needed. *)
From Coq Require Import NArith List Bool Lia Arith.
From Verif Require Import Base.Chars Base.StrX Base.StrXProofs Imports.Import Imports.ImportProofs Imports.ImportSet Imports.Format
                          Imports.ImportLex Imports.ImportLexProofs Imports.ImportSetProofs Imports.FormatProofs.
Import ListNotations.

Definition pline := (str * nat)%type.                       (* physical line (no newline), aliases on it *)
Definition text_of (lines : list pline) : str := concat (map (fun ln : pline => fst ln ++ [c_nl]) lines).

Lemma text_of_app a b : text_of (a ++ b) = text_of a ++ text_of b.
Proof. unfold text_of. rewrite map_app, concat_app. reflexivity. Qed.

(* fill_go with the line structure made explicit: k = aliases already on the current line *)
Fixpoint fill_go_lines (N : nat) (cp : str) (cur : str) (k : nat) (rest : list str) : list pline :=
  match rest with
  | [] => [(cur ++ [c_rpar], k)]
  | tok :: rest' =>
      let is_last := match rest' with [] => true | _ :: _ => false end in
      let suffix := if is_last then [c_rpar] else [] in
      let sep := if is_last then [] else [c_comma] in
      if (length (cur ++ comma_sp ++ tok ++ sep ++ suffix) <=? N)%nat
      then fill_go_lines N cp (cur ++ comma_sp ++ tok) (S k) rest'
      else (cur ++ [c_comma], k) :: fill_go_lines N cp (cp ++ tok) 1 rest'
  end.

Lemma fill_go_text N cp : forall rest cur k, fill_go N cp cur rest = text_of (fill_go_lines N cp cur k rest).
Proof.
  induction rest as [|tok rest IH]; intros cur k.
  - unfold text_of. cbn. rewrite app_nil_r, <- app_assoc. reflexivity.
  - cbn [fill_go fill_go_lines].
    match goal with |- context [if ?c then _ else _] => destruct c end.
    + apply IH.
    + unfold text_of at 1. cbn [map concat fst]. fold (text_of (fill_go_lines N cp (cp ++ tok) 1 rest)).
      rewrite <- (IH (cp ++ tok) 1), <- !app_assoc. reflexivity.
Qed.

Definition line_ok (N : nat) (ln : pline) : Prop := 2 <= snd ln -> length (fst ln) <= N.

Lemma fill_go_width N cp : forall rest cur k, (2 <= k -> length cur + 1 <= N) ->
  Forall (line_ok N) (fill_go_lines N cp cur k rest).
Proof.
  induction rest as [|tok rest IH]; intros cur k Hinv.
  - repeat constructor. unfold line_ok. cbn [fst snd]. intros Hk. rewrite app_length. cbn. auto.
  - cbn [fill_go_lines].
    match goal with |- context [if ?c then _ else _] => destruct c eqn:E end.
    + apply IH. intros _. apply Nat.leb_le in E. rewrite !app_length in E. rewrite !app_length.
      destruct rest; cbn [length] in *; lia.
    + constructor.
      * unfold line_ok. cbn [fst snd]. intros Hk. rewrite app_length. cbn. auto.
      * apply IH. lia.
Qed.

Lemma fill_go_counts N cp : forall rest cur k, 1 <= k -> Forall (fun ln : pline => 1 <= snd ln) (fill_go_lines N cp cur k rest).
Proof.
  induction rest as [|tok rest IH]; intros cur k Hk; cbn [fill_go_lines].
  - repeat constructor. exact Hk.
  - match goal with |- context [if ?c then _ else _] => destruct c end.
    + apply IH. lia.
    + constructor; [exact Hk|apply IH; lia].
Qed.

Lemma join_str_length sep : forall l, l <> [] ->
  length (join_str sep l) = sum_len l + length sep * (length l - 1).
Proof.
  intros l Hne. destruct l as [|t r]; [congruence|]. clear Hne. revert t.
  induction r as [|t2 r IH]; intros t.
  - cbn. lia.
  - change (join_str sep (t :: t2 :: r)) with (t ++ sep ++ join_str sep (t2 :: r)).
    rewrite !app_length, IH. cbn [sum_len fold_right length]. nia.
Qed.

(* pyfill as lines; a head line `prefix(` carries no alias *)
Definition pyfill_lines (prefix : str) (tokens : list str) (P : params) : list pline :=
  let N := width_of P in
  let len_full := (sum_len tokens + 2 * (length tokens - 1))%nat in
  if (length prefix + len_full <=? N)%nat then [(prefix ++ join_str comma_sp tokens, length tokens)]
  else
    let hi := match hanging P with
              | Never => false
              | Always => true
              | Auto => (N <? length prefix + max_len tokens + 2)%nat
              end in
    match tokens with
    | [] => []
    | t :: r =>
        if hi then (prefix ++ [c_lpar], 0) :: fill_go_lines N (spaces (indent P)) (spaces (indent P) ++ t) 1 r
        else let pprefix := prefix ++ [c_lpar] in
             fill_go_lines N (spaces (length pprefix)) (pprefix ++ t) 1 r
    end.

Lemma pyfill_text prefix tokens P : tokens <> [] -> pyfill prefix tokens P = text_of (pyfill_lines prefix tokens P).
Proof.
  intros Hne. unfold pyfill, pyfill_lines. destruct tokens as [|t r]; [congruence|].
  match goal with |- context [if ?c then _ else _] => destruct c end.
  - unfold text_of. cbn. rewrite app_nil_r, <- !app_assoc. reflexivity.
  - match goal with |- context [if ?c then _ else _] => destruct c end.
    + unfold fill. rewrite (fill_go_text _ _ r _ 1). unfold text_of. cbn [map concat fst]. rewrite <- !app_assoc. reflexivity.
    + unfold fill. apply fill_go_text.
Qed.

Lemma pyfill_width prefix tokens P : tokens <> [] -> Forall (line_ok (width_of P)) (pyfill_lines prefix tokens P).
Proof.
  intros Hne. unfold pyfill_lines. destruct tokens as [|t r]; [congruence|].
  match goal with |- context [if ?c then _ else _] => destruct c eqn:E end.
  - repeat constructor. unfold line_ok. cbn [fst snd]. intros _. apply Nat.leb_le in E.
    rewrite app_length, join_str_length by discriminate. change (length comma_sp) with 2. exact E.
  - match goal with |- context [if ?c then _ else _] => destruct c end.
    + constructor; [unfold line_ok; cbn [snd]; lia|]. apply fill_go_width. lia.
    + apply fill_go_width. lia.
Qed.

(* lines that carry no alias are head lines: they end with `(` or with a backslash *)
Definition head_line_shape (l : str) : Prop := exists p, l = p ++ [c_lpar] \/ l = p ++ [c_bslash].

Lemma pyfill_zero prefix tokens P : tokens <> [] ->
  Forall (fun ln : pline => snd ln = 0 -> head_line_shape (fst ln)) (pyfill_lines prefix tokens P).
Proof.
  intros Hne. unfold pyfill_lines. destruct tokens as [|t r]; [congruence|].
  assert (Hc : forall cp cur, Forall (fun ln : pline => snd ln = 0 -> head_line_shape (fst ln))
                                     (fill_go_lines (width_of P) cp cur 1 r)).
  { intros cp cur. eapply Forall_impl; [|apply fill_go_counts; lia]. intros ln H1 H0. cbn beta in *. lia. }
  match goal with |- context [if ?c then _ else _] => destruct c end.
  - repeat constructor. cbn [snd length]. discriminate.
  - match goal with |- context [if ?c then _ else _] => destruct c end.
    + constructor; [|apply Hc]. intros _. exists prefix. left. reflexivity.
    + apply Hc.
Qed.

(* ---------- one statement ---------- *)
Definition head_lines (col : option nat) (fs : nat) (fromname : option str) : list pline :=
  match fromname, col with
  | Some m, Some c =>
      let s := s_from ++ spaces fs ++ m ++ [c_sp] in
      if (c <? length s)%nat then [(s ++ [c_bslash], 0)] else []
  | _, _ => []
  end.

Lemma head_lines_text col fs fn : text_of (head_lines col fs fn) = fst (stmt_head col fs fn).
Proof.
  unfold head_lines, stmt_head. destruct fn as [m|]; [|reflexivity]. destruct col as [c|]; [|reflexivity].
  destruct (c <? _)%nat; [|reflexivity]. unfold text_of. cbn. rewrite app_nil_r, <- !app_assoc. reflexivity.
Qed.

Definition unwrappable (st : stmt) : Prop :=
  fst st = None \/ strs_is_star (map alias_token (snd st)) = true.

Definition stmt_lines (P : params) (col : option nat) (fs : nat) (st : stmt) : list pline :=
  let hd := stmt_head col fs (fst st) in
  let tokens := map alias_token (snd st) in
  head_lines col fs (fst st) ++
  match fst st with
  | None => [(snd hd ++ join_str comma_sp tokens, length tokens)]
  | Some _ => if strs_is_star tokens then [(snd hd ++ join_str comma_sp tokens, length tokens)]
              else pyfill_lines (snd hd) tokens P
  end.

Lemma stmt_text P col fs st : snd st <> [] -> print_statement P col fs st = text_of (stmt_lines P col fs st).
Proof.
  intros Hne. unfold print_statement, stmt_lines. rewrite text_of_app, head_lines_text.
  assert (Hone : forall x n, x ++ [c_nl] = text_of [(x, n)]) by (intros; unfold text_of; cbn; rewrite app_nil_r; reflexivity).
  destruct (fst st) as [m|].
  - destruct (strs_is_star _).
    + f_equal. rewrite app_assoc. apply Hone.
    + f_equal. apply pyfill_text. destruct (snd st); [congruence|discriminate].
  - f_equal. rewrite app_assoc. apply Hone.
Qed.

Definition width_rule (N : nat) (st : stmt) (ln : pline) : Prop :=
  N < length (fst ln) -> snd ln = 1 \/ (snd ln = 0 /\ head_line_shape (fst ln)) \/ unwrappable st.

Lemma stmt_width P col fs st : snd st <> [] -> Forall (width_rule (width_of P) st) (stmt_lines P col fs st).
Proof.
  intros Hne. unfold stmt_lines. apply Forall_app; split.
  - unfold head_lines. destruct (fst st) as [m|]; [|constructor]. destruct col as [c|]; [|constructor].
    destruct (c <? _)%nat; [|constructor]. constructor; [|constructor]. intros _. right. left. split; [reflexivity|].
    eexists. right. reflexivity.
  - destruct (fst st) as [m|] eqn:Ef.
    + destruct (strs_is_star _) eqn:Es.
      * constructor; [|constructor]. intros _. right. right. right. exact Es.
      * assert (Ht : map alias_token (snd st) <> []) by (destruct (snd st); [congruence|discriminate]).
        pose proof (pyfill_width (snd (stmt_head col fs (Some m))) _ P Ht) as Hw.
        pose proof (pyfill_zero (snd (stmt_head col fs (Some m))) _ P Ht) as Hz.
        rewrite Forall_forall in *. intros ln Hln Hlong. specialize (Hw ln Hln). specialize (Hz ln Hln).
        unfold line_ok in Hw. destruct (snd ln) as [|[|n]] eqn:En.
        -- right. left. split; [reflexivity|]. apply Hz. reflexivity.
        -- left. reflexivity.
        -- exfalso. assert (length (fst ln) <= width_of P) by (apply Hw; lia). lia.
    + constructor; [|constructor]. intros _. right. right. left. exact Ef.
Qed.

(* ---------- the whole set ---------- *)
Lemma group_stmts_of_nonempty labels S k : Forall (fun st : stmt => snd st <> []) (group_stmts_of labels S k).
Proof.
  unfold group_stmts_of. apply Forall_app; split.
  - destruct (filter is_star _); [constructor|]. constructor; [discriminate|constructor].
  - destruct (sort_u import_compare _); [constructor|]. constructor; [discriminate|constructor].
Qed.

Lemma get_statements_nonempty sep S : Forall (fun st : stmt => snd st <> []) (get_statements sep S).
Proof.
  assert (H : forall labels, Forall (fun st : stmt => snd st <> []) (group_stmts labels S)).
  { intros labels. unfold group_stmts. apply Forall_flat_map. apply Forall_forall. intros k _. apply group_stmts_of_nonempty. }
  unfold get_statements. destruct sep; repeat (apply Forall_app; split); apply H.
Qed.

Definition stmt_lines_pp (P : params) (col : option nat) (st : stmt) : list pline :=
  let a := pp_args P col st in stmt_lines P (fst (fst a)) (snd (fst a)) (snd a).

Definition set_lines (P : params) (col : option nat) (sts : list stmt) : list (pline * stmt) :=
  flat_map (fun st => map (fun ln => (ln, st)) (stmt_lines_pp P col st)) sts.

Lemma pp_args_snd P col st : snd (pp_args P col st) = st.
Proof. unfold pp_args. destruct (do_align P st); reflexivity. Qed.

Lemma set_lines_text P col : forall sts, Forall (fun st : stmt => snd st <> []) sts ->
  concat (map (pp P col) sts) = text_of (map fst (set_lines P col sts)).
Proof.
  induction 1 as [|st sts Hst Hsts IH]; [reflexivity|].
  cbn [map concat set_lines flat_map]. fold (set_lines P col sts).
  rewrite map_app, text_of_app, <- IH. f_equal.
  rewrite map_map. cbn [fst]. rewrite map_id. unfold stmt_lines_pp.
  rewrite pp_as_print. apply stmt_text. rewrite pp_args_snd. exact Hst.
Qed.

(* width_partial: the text is exactly these lines, and a line longer than the width carries exactly one
   alias, or none and is a head line (`... (` or `... \`), or belongs to a statement that has no
   parenthesised form (plain import, star import) *)
Theorem width_partial P S out : print_set P S = Some out ->
  exists lines : list (pline * stmt),
    out = text_of (map fst lines) /\
    Forall (fun x => In (snd x) (get_statements (separate_from_imports P) S) /\
                     width_rule (width_of P) (snd x) (fst x)) lines.
Proof.
  intros Hp. destruct (print_set_shape P S out Hp) as (col & _ & ->).
  pose proof (get_statements_nonempty (separate_from_imports P) S) as Hne.
  exists (set_lines P col (get_statements (separate_from_imports P) S)). split.
  - apply set_lines_text. exact Hne.
  - unfold set_lines. apply Forall_flat_map. apply Forall_forall. intros st Hst.
    apply Forall_forall. intros x Hx. apply in_map_iff in Hx as (ln & <- & Hln). cbn [fst snd].
    split; [exact Hst|]. unfold stmt_lines_pp in Hln.
    rewrite Forall_forall in Hne. pose proof (Hne st Hst) as Hs.
    pose proof (stmt_width P (fst (fst (pp_args P col st))) (snd (fst (pp_args P col st))) (snd (pp_args P col st))) as Hw.
    rewrite pp_args_snd in *. rewrite Forall_forall in Hw. apply (Hw Hs ln Hln).
Qed.

(* the literal clause ("a line exceeds the width only when it carries a single imported name") is false:
   F17 - a head line carrying no name is longer than the width *)
From Coq Require Import String.
Definition f17_imports : list import :=
  [ mkImport (dec "aaaaaaaaaaaaaaaaaaaaaaaaaaaaaaa.x") (dec "x"); mkImport (dec "aaaaaaaaaaaaaaaaaaaaaaaaaaaaaaa.y") (dec "y") ].
Definition f17_params : params := mkParams (Some 30) 4 Always (AlignBool true) 1 true false.

Lemma f17_wf : wf_set (from_imports true f17_imports).
Proof.
  apply from_imports_wf. unfold f17_imports. apply Forall_cons; [|apply Forall_cons; [|apply Forall_nil]].
  - change (wf_import (mkImport (repeat c_dot 0 ++ join_with c_dot ([dec "aaaaaaaaaaaaaaaaaaaaaaaaaaaaaaa"%string] ++ [dec "x"%string])) (dec "x"%string))).
    apply WfFrom; [split; [apply Forall_cons; [unfold wf_ident; vm_compute; reflexivity|apply Forall_nil]|right; discriminate]
                  |unfold wf_ident; vm_compute; reflexivity|unfold wf_ident; vm_compute; reflexivity].
  - change (wf_import (mkImport (repeat c_dot 0 ++ join_with c_dot ([dec "aaaaaaaaaaaaaaaaaaaaaaaaaaaaaaa"%string] ++ [dec "y"%string])) (dec "y"%string))).
    apply WfFrom; [split; [apply Forall_cons; [unfold wf_ident; vm_compute; reflexivity|apply Forall_nil]|right; discriminate]
                  |unfold wf_ident; vm_compute; reflexivity|unfold wf_ident; vm_compute; reflexivity].
Qed.

Theorem width_literal_refuted :
  exists P S out l, wf_set S /\ print_set P S = Some out /\ In l (split_on c_nl out) /\
    (width_of P < List.length l)%nat /\ l = dec "from aaaaaaaaaaaaaaaaaaaaaaaaaaaaaaa import ("%string.
Proof.
  exists f17_params, (from_imports true f17_imports).
  exists (dec "from aaaaaaaaaaaaaaaaaaaaaaaaaaaaaaa import ($a;    x, y)$a;"%string).
  exists (dec "from aaaaaaaaaaaaaaaaaaaaaaaaaaaaaaa import ("%string).
  split; [exact f17_wf|]. split; [vm_compute; reflexivity|]. split; [vm_compute; left; reflexivity|].
  split; [vm_compute; lia|reflexivity].
Qed.

(* M3 (b): pyflyby._importclns.ImportSet  (_from_imports / _by_module_name / get_statements /
   by_import_as / conflicting_imports / with_imports / without_imports) and
   ImportStatement._from_imports / .imports.   Model only; proofs are in ImportSetProofs.v.

   A frozenset of Imports is represented by its sorted duplicate-free list (the order of
   Import._data), which is also what every order-sensitive reader of the set (`sorted(...)`)
   sees. *)
From Coq Require Import NArith List Bool Arith.
From Verif Require Import Base.Chars Base.StrX Imports.Import.
Import ListNotations.

Definition import_set := list import.

(*  if ignore_shadowed:
        by_import_as = {}
        for imp in _imports:
            if imp.import_as == "*": by_import_as[imp] = imp        # keep all unique star imports
            else:                    by_import_as[imp.import_as] = imp   # later imports take precedence
        filtered_imports = list(by_import_as.values())                                        *)
Fixpoint filter_shadowed (l : list import) : list import :=
  match l with
  | [] => []
  | i :: r => if is_star i || negb (existsb (fun j => str_eqb (import_as j) (import_as i)) r)
              then i :: filter_shadowed r else filter_shadowed r
  end.

(*  self._importset = frozenset(filtered_imports)  *)
Definition from_imports (ignore_shadowed : bool) (l : list import) : import_set :=
  sort_u import_compare (if ignore_shadowed then filter_shadowed l else l).

(* ImportStatement: (fromname, aliases) *)
Definition alias := (str * option str)%type.
Definition stmt := (option str * list alias)%type.

(*  ImportStatement._from_imports:
      module_names = set(imp.split.module_name for imp in imports)   # must be a singleton
      fromname = list(module_names)[0];  aliases = tuple(imp.split[1:] for imp in imports)   *)
Definition alias_of (i : import) : alias := (member_name (split i), as_name (split i)).
Definition stmt_of_imports (imps : list import) : stmt :=
  (match imps with [] => None | i :: _ => module_name (split i) end, map alias_of imps).

(*  ImportStatement.imports:
      tuple(Import.from_split((self.fromname, alias[0], alias[1])) for alias in self.aliases)  *)
Definition stmt_imports (st : stmt) : list import :=
  map (fun a : alias => from_split (mkSplit (fst st) (fst a) (snd a))) (snd st).

(*  _by_module_name:
      if module_name is None:             pkg_imports[member_name].add(imp)
      elif module_name == '__future__':   ftr_imports[module_name].add(imp)
      else:                               frm_imports[module_name].add(imp)                    *)
Inductive iclass := CFuture | CPkg | CFrom.
Definition iclass_eqb (a b : iclass) : bool :=
  match a, b with CFuture, CFuture | CPkg, CPkg | CFrom, CFrom => true | _, _ => false end.
Definition classify (i : import) : iclass * str :=
  let sp := split i in
  match module_name sp with
  | None => (CPkg, member_name sp)
  | Some m => if str_eqb m s_future then (CFuture, m) else (CFrom, m)
  end.

(* dictionary key of one import inside one `importgroup`:  k  (separate_from_imports=True) or
   (k, label)  (union_dicts, label = position of the dict: 0 = pkg, 1 = frm) *)
Definition key := (str * nat)%type.
Definition key_compare (a b : key) : comparison :=
  match str_compare (fst a) (fst b) with Eq => Nat.compare (snd a) (snd b) | c => c end.
Definition key_eqb (a b : key) : bool := match key_compare a b with Eq => true | _ => false end.
Definition key_of (labels : list (iclass * nat)) (i : import) : option key :=
  let ck := classify i in
  match find (fun cl : iclass * nat => iclass_eqb (fst cl) (fst ck)) labels with
  | Some cl => Some (snd ck, snd cl)
  | None => None
  end.
Definition in_group (labels : list (iclass * nat)) (k : key) (i : import) : bool :=
  match key_of labels i with Some k' => key_eqb k k' | None => false end.

(*  for _, imports in sorted(importgroup.items()):
        star_imports, nonstar_imports = partition(imports, lambda imp: imp.import_as == "*")
        assert len(star_imports) <= 1         # not modelled: holds whenever a star import's member is "*"
        if star_imports:    result.append(ImportStatement(star_imports))
        if nonstar_imports: result.append(ImportStatement(sorted(nonstar_imports)))             *)
Definition group_stmts_of (labels : list (iclass * nat)) (S : import_set) (k : key) : list stmt :=
  let members := filter (in_group labels k) S in
  let star := filter is_star members in
  let nonstar := sort_u import_compare (filter (fun i => negb (is_star i)) members) in
  (match star with [] => [] | _ :: _ => [stmt_of_imports star] end) ++
  (match nonstar with [] => [] | _ :: _ => [stmt_of_imports nonstar] end).
Definition group_keys (labels : list (iclass * nat)) (S : import_set) : list key :=
  sort_u key_compare (flat_map (fun i => match key_of labels i with Some k => [k] | None => [] end) S).
Definition group_stmts (labels : list (iclass * nat)) (S : import_set) : list stmt :=
  flat_map (group_stmts_of labels S) (group_keys labels S).

(*  groups = self._by_module_name
    if not separate_from_imports: groups = [groups[0], union_dicts( *groups[1:])]   *)
Definition get_statements (separate_from : bool) (S : import_set) : list stmt :=
  if separate_from
  then group_stmts [(CFuture, 0)] S ++ group_stmts [(CPkg, 0)] S ++ group_stmts [(CFrom, 0)] S
  else group_stmts [(CFuture, 0)] S ++ group_stmts [(CPkg, 0); (CFrom, 1)] S.

(* the imports in the order of the printed statements *)
Definition canonical (separate_from : bool) (S : import_set) : list import :=
  flat_map stmt_imports (get_statements separate_from S).

(*  ImportSet.imports: for importgroup in self._by_module_name: for _, imports in sorted(items): for imp in sorted(imports) *)
Definition group_imports (labels : list (iclass * nat)) (S : import_set) : list import :=
  flat_map (fun k => sort_u import_compare (filter (in_group labels k) S)) (group_keys labels S).
Definition imports_of (S : import_set) : list import :=
  group_imports [(CFuture, 0)] S ++ group_imports [(CPkg, 0)] S ++ group_imports [(CFrom, 0)] S.

(*  by_import_as: d[imp.import_as].append(imp) ... tuple(sorted(stable_unique(v)))  *)
Definition by_import_as (S : import_set) (n : str) : list import :=
  sort_u import_compare (filter (fun i => str_eqb (import_as i) n) S).

(*  conflicting_imports: tuple(k for k, v in self.by_import_as.items() if len(v) > 1 and k != "*")
    (dictionary order in Python; sorted here) *)
Definition conflicting_imports (S : import_set) : list str :=
  sort_u str_compare
    (flat_map (fun i => if negb (is_star i) && (1 <? length (by_import_as S (import_as i)))%nat
                        then [import_as i] else []) S).

(*  with_imports: type(self)._from_imports(list(self._importset | other._importset))  *)
Definition with_imports (S O : import_set) : import_set := from_imports false (S ++ O).

(*  dotted_prefixes: name_parts = dotted_name.split("."); ['.'.join(name_parts[:i]) or '.' for i in 1..n]  *)
Definition dotted_prefixes (s : str) : list str :=
  let ps := split_on c_dot s in
  map (fun n => match join_with c_dot (firstn n ps) with [] => [c_dot] | x => x end) (seq 1 (length ps)).

Definition opt_str_eqb (a b : option str) : bool :=
  match a, b with None, None => true | Some x, Some y => str_eqb x y | _, _ => false end.

(*  without_imports:
      star_module_removals = set(imp.split.module_name for imp in removals if imp.split.member_name == "*")
      for imp in self:
          if imp in removals: continue
          if star_module_removals and imp.split.module_name:
              if any(pfx in star_module_removals for pfx in dotted_prefixes(imp.split.module_name)): continue
          new_imports.append(imp)                                                             *)
Definition without_imports (S R : import_set) : import_set :=
  let stars := map (fun i => module_name (split i))
                   (filter (fun i => str_eqb (member_name (split i)) s_star) R) in
  from_imports false
    (filter (fun i =>
       negb (existsb (import_eqb i) R) &&
       negb (match stars, module_name (split i) with
             | _ :: _, Some ((_ :: _) as m) =>
                 existsb (fun pfx => existsb (opt_str_eqb (Some pfx)) stars) (dotted_prefixes m)
             | _, _ => false
             end)) S).

(* Proofs about Imports/Format.v, part 1: every printed statement is the rendering of a lexable
   item list whose token list is the statement's token list (with or without parentheses). *)
From Coq Require Import NArith List Bool Lia Arith.
From Verif Require Import Base.Chars Base.StrX Base.StrXProofs Imports.Import Imports.ImportSet
                          Imports.Format Imports.ImportLex Imports.ImportLexProofs.
Import ListNotations.

(* ---------- items of names and aliases ---------- *)
Fixpoint dotted_items (comps : list str) : list item :=
  match comps with
  | [] => []
  | [c] => [IName c]
  | c :: r => IName c :: IDot :: dotted_items r
  end.
Definition as_items (o : option str) : list item :=
  match o with None => [] | Some x => [ISpaces 1; IName s_as; ISpaces 1; IName x] end.
Definition salias_items (a : salias) : list item := dotted_items (fst a) ++ as_items (snd a).
Definition alias_items (a : alias) : list item := IName (fst a) :: as_items (snd a).
Definition sp_items (k : nat) : list item := match k with O => [] | S _ => [ISpaces k] end.

(* a piece: wf, no adjacent names, depth-neutral with a fixed token list *)
Record piece (t : list item) (tt : list tok) : Prop := mkPiece {
  p_wf : Forall item_wf t;
  p_adj : no_adjacent_names t = true;
  p_toks : forall d, toks d t = Some (d, tt) }.

Lemma render_sp_items k : render (sp_items k) = spaces k.
Proof. destruct k; [reflexivity|]. unfold sp_items, render. cbn [map concat render1]. apply app_nil_r. Qed.

Lemma piece_sp_items k : piece (sp_items k) [].
Proof. destruct k; split; cbn; auto. repeat constructor. cbn. discriminate. Qed.

Lemma wf_name_as : wf_name s_as.
Proof. split; [discriminate|reflexivity]. Qed.
Lemma wf_name_from : wf_name s_from.
Proof. split; [discriminate|reflexivity]. Qed.
Lemma wf_name_import : wf_name s_import.
Proof. split; [discriminate|reflexivity]. Qed.

Lemma render_dotted_items comps : render (dotted_items comps) = join_with c_dot comps.
Proof.
  induction comps as [|c r IH]; [reflexivity|].
  destruct r as [|c2 r]; [cbn; apply app_nil_r|].
  change (dotted_items (c :: c2 :: r)) with (IName c :: IDot :: dotted_items (c2 :: r)).
  change (join_with c_dot (c :: c2 :: r)) with (c ++ c_dot :: join_with c_dot (c2 :: r)).
  rewrite !render_cons, IH. reflexivity.
Qed.

Lemma piece_dotted_items comps : Forall wf_ident comps -> piece (dotted_items comps) (dotted_toks comps).
Proof.
  induction 1 as [|c r Hc Hr IH]; [split; cbn; auto|].
  destruct r as [|c2 r].
  - split.
    + constructor; [apply wf_ident_wf_name; exact Hc|constructor].
    + reflexivity.
    + intros d. reflexivity.
  - change (dotted_items (c :: c2 :: r)) with (IName c :: IDot :: dotted_items (c2 :: r)).
    change (dotted_toks (c :: c2 :: r)) with (TName c :: TDot :: dotted_toks (c2 :: r)).
    destruct IH as [Hw Ha Ht]. split.
    + constructor; [apply wf_ident_wf_name; exact Hc|]. constructor; [exact I|exact Hw].
    + apply no_adj_name_cons; [reflexivity|]. apply no_adj_cons_nonname; [reflexivity|exact Ha].
    + intros d. cbn [toks tok_of]. rewrite Ht. reflexivity.
Qed.

Lemma render_as_items o : render (as_items o) = match o with None => [] | Some x => [c_sp] ++ s_as ++ [c_sp] ++ x end.
Proof. destruct o; [|reflexivity]. cbn. rewrite app_nil_r. reflexivity. Qed.

Lemma piece_as_items o : wf_as o -> piece (as_items o) (as_toks o).
Proof.
  destruct o as [x|]; intros H; [|split; cbn; auto].
  split.
  - cbn [as_items]. constructor; [cbn; discriminate|]. constructor; [apply wf_name_as|].
    constructor; [cbn; discriminate|]. constructor; [apply wf_ident_wf_name; exact H|constructor].
  - reflexivity.
  - intros d. reflexivity.
Qed.

Lemma piece_app t1 tt1 i t2 tt2 : piece t1 tt1 -> piece (i :: t2) tt2 -> is_name i = false ->
  piece (t1 ++ i :: t2) (tt1 ++ tt2).
Proof.
  intros [W1 A1 T1] [W2 A2 T2] Hi. split.
  - apply Forall_app; split; assumption.
  - apply no_adj_app_sep; [exact Hi|exact A1|]. apply no_adj_tail in A2. exact A2.
  - intros d. apply (toks_app t1 (i :: t2) d d tt1 d tt2 (T1 d) (T2 d)).
Qed.

Lemma piece_nil_r t tt : piece t tt -> piece (t ++ []) (tt ++ []).
Proof. rewrite !app_nil_r. auto. Qed.

Lemma piece_alias_items a : wf_alias a -> piece (alias_items a) (alias_toks a).
Proof.
  intros [Hn Ha]. destruct (piece_as_items (snd a) Ha) as [W A T]. unfold alias_items, alias_toks. split.
  - constructor; [apply wf_ident_wf_name; exact Hn|exact W].
  - apply no_adj_name_cons; [destruct (snd a); reflexivity|exact A].
  - intros d. cbn [toks tok_of]. rewrite T. reflexivity.
Qed.

Lemma piece_salias_items a : wf_salias a -> piece (salias_items a) (salias_toks a).
Proof.
  intros (Hne & Hc & Ha). unfold salias_items, salias_toks.
  pose proof (piece_dotted_items (fst a) Hc) as P1. pose proof (piece_as_items (snd a) Ha) as P2.
  destruct (snd a) as [x|]; cbn [as_items as_toks] in *.
  - apply piece_app; [exact P1|exact P2|reflexivity].
  - apply piece_nil_r. exact P1.
Qed.

Lemma alias_token_render a : alias_token a = render (alias_items a).
Proof.
  unfold alias_token, alias_items. rewrite render_cons, render_as_items. cbn [render1].
  destruct (snd a); [reflexivity|symmetry; apply app_nil_r].
Qed.

Lemma salias_token_render (a : salias) :
  alias_token (join_with c_dot (fst a), snd a) = render (salias_items a).
Proof.
  unfold alias_token, salias_items. cbn [fst snd]. rewrite render_app, render_dotted_items, render_as_items.
  destruct (snd a); [reflexivity|symmetry; apply app_nil_r].
Qed.

(* ---------- the one-line form:  t0, t1, t2 ---------- *)
Definition flat_items (ts : list (list item)) : list item :=
  match ts with
  | [] => []
  | t0 :: rest => t0 ++ concat (map (fun t => IComma :: ISpaces 1 :: t) rest)
  end.

Lemma join_str_render : forall ts, join_str comma_sp (map render ts) = render (flat_items ts).
Proof.
  destruct ts as [|t0 rest]; [reflexivity|]. revert t0.
  induction rest as [|t1 rest IH]; intros t0.
  - cbn. rewrite app_nil_r. reflexivity.
  - change (join_str comma_sp (map render (t0 :: t1 :: rest)))
      with (render t0 ++ comma_sp ++ join_str comma_sp (map render (t1 :: rest))).
    rewrite IH. cbn [flat_items map concat]. rewrite !render_app, !render_cons. cbn [render1 repeat].
    unfold comma_sp. rewrite <- ?app_assoc. reflexivity.
Qed.

Definition nonempty_head_nonname_or_any (t : list item) : Prop := True.

Lemma piece_flat_tail : forall (rest : list (list item)) (tts : list (list tok)),
  Forall2 piece rest tts ->
  piece (concat (map (fun t => IComma :: ISpaces 1 :: t) rest)) (concat (map (fun tt => TComma :: tt) tts)).
Proof.
  induction 1 as [|t tt rest tts [W A T] H IH]; [split; cbn; auto|].
  cbn [map concat]. destruct IH as [W' A' T'].
  assert (Hp : piece (IComma :: ISpaces 1 :: t) (TComma :: tt)).
  { split.
    - constructor; [exact I|]. constructor; [cbn; discriminate|exact W].
    - apply no_adj_cons_nonname; [reflexivity|]. apply no_adj_cons_nonname; [reflexivity|exact A].
    - intros d. cbn [toks tok_of]. rewrite T. reflexivity. }
  destruct (concat (map (fun t0 => IComma :: ISpaces 1 :: t0) rest)) as [|i q] eqn:E.
  - destruct tts as [|tt2 tts]; [|inversion H; subst; discriminate].
    cbn [map concat]. rewrite !app_nil_r. exact Hp.
  - assert (Hi : is_name i = false).
    { destruct rest as [|r0 rest]; [discriminate|]. cbn in E. inversion E. reflexivity. }
    change (IComma :: ISpaces 1 :: t ++ i :: q) with ((IComma :: ISpaces 1 :: t) ++ i :: q).
    change (TComma :: tt ++ concat (map (fun tt0 => TComma :: tt0) tts))
      with ((TComma :: tt) ++ concat (map (fun tt0 => TComma :: tt0) tts)).
    apply piece_app; [exact Hp| |exact Hi]. split; assumption.
Qed.

Lemma tjoin_concat : forall tt0 tts, tjoin TComma (tt0 :: tts) = tt0 ++ concat (map (fun tt => TComma :: tt) tts).
Proof.
  intros tt0 tts. revert tt0. induction tts as [|tt1 tts IH]; intros tt0.
  - cbn. rewrite app_nil_r. reflexivity.
  - change (tjoin TComma (tt0 :: tt1 :: tts)) with (tt0 ++ TComma :: tjoin TComma (tt1 :: tts)).
    rewrite IH. reflexivity.
Qed.

Lemma piece_flat : forall ts tts, ts <> [] -> Forall2 piece ts tts -> piece (flat_items ts) (tjoin TComma tts).
Proof.
  intros ts tts Hne H. destruct H as [|t0 tt0 rest tts P0 H]; [congruence|].
  rewrite tjoin_concat. cbn [flat_items].
  pose proof (piece_flat_tail rest tts H) as PT.
  destruct (concat (map (fun t => IComma :: ISpaces 1 :: t) rest)) as [|i q] eqn:E.
  - destruct tts as [|tt2 tts]; [|inversion H; subst; discriminate]. cbn [map concat]. rewrite !app_nil_r. exact P0.
  - assert (Hi : is_name i = false).
    { destruct rest as [|r0 rest]; [discriminate|]. cbn in E. inversion E. reflexivity. }
    apply piece_app; assumption.
Qed.

Lemma Forall2_map_piece {A} (f : A -> list item) (g : A -> list tok) (l : list A) :
  Forall (fun a => piece (f a) (g a)) l -> Forall2 piece (map f l) (map g l).
Proof. induction 1; cbn; constructor; auto. Qed.

Ltac split5 := split; [|split; [|split; [|split]]].

(* ---------- fill: the body after the first token ---------- *)
Inductive body_layout (k : nat) : list alias -> list item -> Prop :=
| BL_nil : body_layout k [] [IRpar; INewline]
| BL_same a r l : body_layout k r l -> body_layout k (a :: r) (IComma :: ISpaces 1 :: alias_items a ++ l)
| BL_break a r l : body_layout k r l ->
    body_layout k (a :: r) (IComma :: INewline :: sp_items k ++ alias_items a ++ l).

Lemma fill_go_layout N k : forall (rest : list alias) cur,
  exists l, body_layout k rest l /\ fill_go N (spaces k) cur (map alias_token rest) = cur ++ render l.
Proof.
  induction rest as [|a rest IH]; intros cur.
  - exists [IRpar; INewline]. split; [constructor|reflexivity].
  - cbn [map fill_go].
    match goal with |- context [if ?c then _ else _] => destruct c end.
    + destruct (IH (cur ++ comma_sp ++ alias_token a)) as (l & Hl & E).
      exists (IComma :: ISpaces 1 :: alias_items a ++ l). split; [constructor; exact Hl|].
      rewrite E. rewrite !render_cons, render_app, <- alias_token_render. cbn [render1 repeat].
      unfold comma_sp. rewrite <- !app_assoc. reflexivity.
    + destruct (IH (spaces k ++ alias_token a)) as (l & Hl & E).
      exists (IComma :: INewline :: sp_items k ++ alias_items a ++ l). split; [constructor; exact Hl|].
      rewrite E. rewrite !render_cons, !render_app, render_sp_items, <- alias_token_render. cbn [render1].
      rewrite <- !app_assoc. reflexivity.
Qed.

Definition tail_toks (al : list alias) : list tok :=
  concat (map (fun a => TComma :: alias_toks a) al) ++ [TRpar].

Lemma layout_props k al l : body_layout k al l -> Forall wf_alias al ->
  Forall item_wf l /\ no_adjacent_names l = true /\ head_not_name l /\
  toks 1 l = Some (0, tail_toks al ++ [TNewline]) /\ exists l', l = l' ++ [INewline].
Proof.
  induction 1 as [|a r l Hl IH|a r l Hl IH]; intros Hwf.
  - split5; [repeat constructor|reflexivity|reflexivity|reflexivity|exists [IRpar]; reflexivity].
  - inversion Hwf as [|? ? Ha Hr]; subst. destruct (IH Hr) as (W & A & Hh & T & l' & El).
    destruct (piece_alias_items a Ha) as [Wa Aa Ta].
    assert (Hl0 : exists i q, l = i :: q /\ is_name i = false).
    { destruct l as [|i q]; [destruct l'; discriminate|]. exists i, q. split; [reflexivity|exact Hh]. }
    destruct Hl0 as (i & q & -> & Hi).
    split5.
    + constructor; [exact I|]. constructor; [cbn; discriminate|]. apply Forall_app; split; assumption.
    + apply no_adj_cons_nonname; [reflexivity|]. apply no_adj_cons_nonname; [reflexivity|].
      apply no_adj_app_sep; [exact Hi|exact Aa|]. apply no_adj_tail in A. exact A.
    + reflexivity.
    + cbn [toks tok_of]. rewrite (toks_app (alias_items a) (i :: q) 1 1 (alias_toks a) 0 _ (Ta 1) T).
      unfold tail_toks. cbn [map concat app]. rewrite <- !app_assoc. reflexivity.
    + exists (IComma :: ISpaces 1 :: alias_items a ++ l'). rewrite El. cbn [app]. rewrite <- app_assoc. reflexivity.
  - inversion Hwf as [|? ? Ha Hr]; subst. destruct (IH Hr) as (W & A & Hh & T & l' & El).
    destruct (piece_alias_items a Ha) as [Wa Aa Ta]. destruct (piece_sp_items k) as [Ws As Ts].
    assert (Hl0 : exists i q, l = i :: q /\ is_name i = false).
    { destruct l as [|i q]; [destruct l'; discriminate|]. exists i, q. split; [reflexivity|exact Hh]. }
    destruct Hl0 as (i & q & -> & Hi).
    assert (Hal : no_adjacent_names (alias_items a ++ i :: q) = true).
    { apply no_adj_app_sep; [exact Hi|exact Aa|]. apply no_adj_tail in A. exact A. }
    split5.
    + constructor; [exact I|]. constructor; [exact I|]. apply Forall_app; split; [exact Ws|].
      apply Forall_app; split; assumption.
    + apply no_adj_cons_nonname; [reflexivity|]. apply no_adj_cons_nonname; [reflexivity|].
      destruct k; cbn [sp_items app]; [exact Hal|]. apply no_adj_cons_nonname; [reflexivity|exact Hal].
    + reflexivity.
    + cbn [toks tok_of].
      rewrite (toks_app (sp_items k) _ 1 1 [] 0 _ (Ts 1)
                 (toks_app (alias_items a) (i :: q) 1 1 (alias_toks a) 0 _ (Ta 1) T)).
      unfold tail_toks. cbn [map concat app]. rewrite <- !app_assoc. reflexivity.
    + exists (IComma :: INewline :: sp_items k ++ alias_items a ++ l'). rewrite El. cbn [app].
      rewrite <- !app_assoc. reflexivity.
Qed.

Lemma tail_toks_tjoin a0 rest :
  alias_toks a0 ++ tail_toks rest = tjoin TComma (map alias_toks (a0 :: rest)) ++ [TRpar].
Proof.
  unfold tail_toks. cbn [map]. rewrite tjoin_concat, map_map, <- app_assoc. reflexivity.
Qed.

(* targets of a `from` statement after the keyword `import` *)
Definition target_toks (paren : bool) (al : list alias) : list tok :=
  let body := tjoin TComma (map alias_toks al) in
  if paren then TLpar :: body ++ [TRpar] else body.

(* the one-line test of pyfill: parentheses appear exactly when it fails *)
Definition pyfill_fits (prefix : str) (tokens : list str) (P : params) : bool :=
  (length prefix + (sum_len tokens + 2 * (length tokens - 1)) <=? width_of P)%nat.

(* pyfill: the prefix verbatim, then a lexable layout of the aliases *)
Lemma pyfill_layout pfx al P : al <> [] -> Forall wf_alias al ->
  exists l, pyfill pfx (map alias_token al) P = pfx ++ render l /\
    Forall item_wf l /\ no_adjacent_names l = true /\
    toks 0 l = Some (0, target_toks (negb (pyfill_fits pfx (map alias_token al) P)) al ++ [TNewline]) /\
    exists l', l = l' ++ [INewline].
Proof.
  intros Hne Hwf. destruct al as [|a0 rest]; [congruence|].
  inversion Hwf as [|? ? Ha0 Hrest]; subst.
  destruct (piece_alias_items a0 Ha0) as [W0 A0 T0].
  unfold pyfill, pyfill_fits.
  match goal with |- context [if ?c then _ else _] => destruct c end; cbn [negb].
  - (* one line *)
    exists (flat_items (map alias_items (a0 :: rest)) ++ [INewline]).
    assert (Hp : piece (flat_items (map alias_items (a0 :: rest))) (tjoin TComma (map alias_toks (a0 :: rest)))).
    { apply piece_flat; [discriminate|]. apply Forall2_map_piece.
      eapply Forall_impl; [|exact Hwf]. intros a Ha. apply piece_alias_items. exact Ha. }
    destruct Hp as [W A T]. split5.
    + rewrite render_app. f_equal.
      replace (map alias_token (a0 :: rest)) with (map render (map alias_items (a0 :: rest))).
      * rewrite join_str_render. reflexivity.
      * rewrite map_map. apply map_ext. intros a. symmetry. apply alias_token_render.
    + apply Forall_app; split; [exact W|repeat constructor].
    + apply no_adj_app_sep; [reflexivity|exact A|reflexivity].
    + unfold target_toks. apply (toks_app _ [INewline] 0 0 _ 0 [TNewline] (T 0)). reflexivity.
    + eexists. reflexivity.
  - match goal with |- context [if ?c then _ else _] => destruct c end.
    + (* hanging indent *)
      cbn [map fill].
      destruct (fill_go_layout (width_of P) (indent P) rest (spaces (indent P) ++ alias_token a0)) as (l & Hl & E).
      destruct (layout_props _ _ _ Hl Hrest) as (W & A & Hh & T & l' & El).
      destruct (piece_sp_items (indent P)) as [Ws As Ts].
      assert (Hl0 : exists i q, l = i :: q /\ is_name i = false).
      { destruct l as [|i q]; [destruct l'; discriminate|]. exists i, q. split; [reflexivity|exact Hh]. }
      destruct Hl0 as (i & q & -> & Hi).
      assert (Hal : no_adjacent_names (alias_items a0 ++ i :: q) = true).
      { apply no_adj_app_sep; [exact Hi|exact A0|]. apply no_adj_tail in A. exact A. }
      exists (ILpar :: INewline :: sp_items (indent P) ++ alias_items a0 ++ i :: q). split5.
      * rewrite E. rewrite !render_cons, !render_app, render_sp_items, <- alias_token_render. cbn [render1].
        rewrite <- !app_assoc. reflexivity.
      * constructor; [exact I|]. constructor; [exact I|]. apply Forall_app; split; [exact Ws|].
        apply Forall_app; split; assumption.
      * apply no_adj_cons_nonname; [reflexivity|]. apply no_adj_cons_nonname; [reflexivity|].
        destruct (indent P); cbn [sp_items app]; [exact Hal|]. apply no_adj_cons_nonname; [reflexivity|exact Hal].
      * cbn [toks tok_of].
        rewrite (toks_app (sp_items (indent P)) _ 1 1 [] 0 _ (Ts 1)
                   (toks_app (alias_items a0) (i :: q) 1 1 (alias_toks a0) 0 _ (T0 1) T)).
        unfold target_toks. cbn [app]. rewrite (app_assoc (alias_toks a0) (tail_toks rest) [TNewline]), tail_toks_tjoin. reflexivity.
      * exists (ILpar :: INewline :: sp_items (indent P) ++ alias_items a0 ++ l'). rewrite El. cbn [app].
        rewrite <- !app_assoc. reflexivity.
    + (* aligned continuation *)
      cbn [map fill].
      destruct (fill_go_layout (width_of P) (length (pfx ++ [c_lpar])) rest ((pfx ++ [c_lpar]) ++ alias_token a0)) as (l & Hl & E).
      destruct (layout_props _ _ _ Hl Hrest) as (W & A & Hh & T & l' & El).
      assert (Hl0 : exists i q, l = i :: q /\ is_name i = false).
      { destruct l as [|i q]; [destruct l'; discriminate|]. exists i, q. split; [reflexivity|exact Hh]. }
      destruct Hl0 as (i & q & -> & Hi).
      assert (Hal : no_adjacent_names (alias_items a0 ++ i :: q) = true).
      { apply no_adj_app_sep; [exact Hi|exact A0|]. apply no_adj_tail in A. exact A. }
      exists (ILpar :: alias_items a0 ++ i :: q). split5.
      * rewrite E. rewrite !render_cons, !render_app, <- alias_token_render. cbn [render1].
        rewrite <- !app_assoc. reflexivity.
      * constructor; [exact I|]. apply Forall_app; split; assumption.
      * apply no_adj_cons_nonname; [reflexivity|exact Hal].
      * cbn [toks tok_of].
        rewrite (toks_app (alias_items a0) (i :: q) 1 1 (alias_toks a0) 0 _ (T0 1) T).
        unfold target_toks. cbn [app]. rewrite (app_assoc (alias_toks a0) (tail_toks rest) [TNewline]), tail_toks_tjoin. reflexivity.
      * exists (ILpar :: alias_items a0 ++ l'). rewrite El. cbn [app]. rewrite <- !app_assoc. reflexivity.
Qed.

(* ---------- the head of a statement ---------- *)
Definition blank (i : item) : Prop := match i with ISpaces n => n <> 0 | ICont => True | _ => False end.

Lemma blank_nonname i : blank i -> is_name i = false.
Proof. destruct i; cbn; intros H; auto; contradiction. Qed.

Lemma piece_cons_blank i t tt : blank i -> piece t tt -> piece (i :: t) tt.
Proof.
  intros Hb [W A T]. split.
  - constructor; [destruct i; cbn in *; auto; contradiction|exact W].
  - apply no_adj_cons_nonname; [apply blank_nonname; exact Hb|exact A].
  - intros d. destruct i; cbn in Hb; try contradiction; cbn [toks tok_of]; rewrite T; reflexivity.
Qed.

Lemma piece_blanks g t tt : Forall blank g -> piece t tt -> piece (g ++ t) tt.
Proof. induction 1 as [|i g Hi Hg IH]; intros Hp; [exact Hp|]. cbn [app]. apply piece_cons_blank; auto. Qed.

Lemma piece_cons_name s t tt : wf_name s -> head_not_name t -> piece t tt -> piece (IName s :: t) (TName s :: tt).
Proof.
  intros Hs Hh [W A T]. split.
  - constructor; assumption.
  - apply no_adj_name_cons; assumption.
  - intros d. cbn [toks tok_of]. rewrite T. reflexivity.
Qed.

Lemma piece_dots lvl : piece (repeat IDot lvl) (repeat TDot lvl).
Proof.
  induction lvl as [|n [W A T]]; [split; cbn; auto|]. cbn [repeat]. split.
  - constructor; [exact I|exact W].
  - apply no_adj_cons_nonname; [reflexivity|exact A].
  - intros d. cbn [toks tok_of]. rewrite T. reflexivity.
Qed.

Lemma render_dots lvl : render (repeat IDot lvl) = repeat c_dot lvl.
Proof. induction lvl as [|n IH]; [reflexivity|]. cbn [repeat]. rewrite render_cons, IH. reflexivity. Qed.

Definition mod_items (lvl : nat) (md : list str) : list item := repeat IDot lvl ++ dotted_items md.

Lemma render_mod_items lvl md : render (mod_items lvl md) = modname lvl md.
Proof. unfold mod_items, modname. rewrite render_app, render_dots, render_dotted_items. reflexivity. Qed.

Lemma no_adj_nonnames_app g t : Forall (fun i => is_name i = false) g -> no_adjacent_names t = true ->
  no_adjacent_names (g ++ t) = true.
Proof. induction 1 as [|i g Hi Hg IH]; intros Ht; [exact Ht|]. cbn [app]. apply no_adj_cons_nonname; auto. Qed.

Lemma piece_mod_items lvl md : Forall wf_ident md -> piece (mod_items lvl md) (repeat TDot lvl ++ dotted_toks md).
Proof.
  intros Hwf. destruct (piece_dots lvl) as [W1 A1 T1]. destruct (piece_dotted_items md Hwf) as [W2 A2 T2].
  unfold mod_items. split.
  - apply Forall_app; split; assumption.
  - apply no_adj_nonnames_app; [|exact A2]. apply Forall_forall. intros i Hi. apply repeat_spec in Hi. subst. reflexivity.
  - intros d. apply (toks_app _ _ d d _ d _ (T1 d) (T2 d)).
Qed.

Definition head_gap (col : option nat) (fs : nat) (m : str) : list item :=
  match col with
  | None => [ISpaces 1]
  | Some c => if (c <? length (s_from ++ spaces fs ++ m ++ [c_sp]))%nat
              then ISpaces 1 :: ICont :: sp_items c
              else [ISpaces (S (c - length (s_from ++ spaces fs ++ m ++ [c_sp])))]
  end.

Lemma head_gap_blank col fs m : exists g0 g', head_gap col fs m = g0 :: g' /\ Forall blank (g0 :: g').
Proof.
  unfold head_gap. destruct col as [c|].
  - destruct (c <? _)%nat.
    + eexists. eexists. split; [reflexivity|]. constructor; [cbn; discriminate|]. constructor; [exact I|].
      destruct c; cbn; repeat constructor. cbn. discriminate.
    + eexists. eexists. split; [reflexivity|]. repeat constructor. cbn. discriminate.
  - eexists. eexists. split; [reflexivity|]. repeat constructor. cbn. discriminate.
Qed.

Definition from_head_items (col : option nat) (fs : nat) (lvl : nat) (md : list str) : list item :=
  IName s_from :: ISpaces fs :: mod_items lvl md ++ head_gap col fs (modname lvl md) ++ [IName s_import].

Lemma stmt_head_render col fs lvl md :
  fst (stmt_head col fs (Some (modname lvl md))) ++ snd (stmt_head col fs (Some (modname lvl md))) =
  render (from_head_items col fs lvl md) ++ [c_sp].
Proof.
  unfold from_head_items. rewrite !render_cons, !render_app, render_mod_items. cbn [render1].
  unfold stmt_head, head_gap. destruct col as [c|].
  - destruct (c <? _)%nat; cbn [fst snd].
    + rewrite !render_cons, render_sp_items. cbn [render1 repeat render concat map]. unfold spaces.
      rewrite <- ?app_assoc. cbn [app]. rewrite <- ?app_assoc. reflexivity.
    + unfold ljust. cbn [render map concat render1 repeat]. unfold spaces.
      rewrite <- ?app_assoc. cbn [app]. rewrite <- ?app_assoc. reflexivity.
  - cbn [fst snd render map concat render1 repeat]. unfold spaces.
    rewrite <- ?app_assoc. cbn [app]. rewrite <- ?app_assoc. reflexivity.
Qed.

Lemma piece_from_head col fs lvl md : wf_mod lvl md -> fs <> 0 ->
  piece (from_head_items col fs lvl md) (TName s_from :: repeat TDot lvl ++ dotted_toks md ++ [TName s_import]).
Proof.
  intros [Hwf _] Hfs. unfold from_head_items.
  destruct (head_gap_blank col fs (modname lvl md)) as (g0 & g' & -> & Hb).
  inversion Hb as [|? ? Hb0 Hb']; subst.
  assert (Pimp : piece [IName s_import] [TName s_import]).
  { split; [repeat constructor; apply wf_name_import|reflexivity|intros; reflexivity]. }
  assert (Pgap : piece (g0 :: g' ++ [IName s_import]) [TName s_import]).
  { apply piece_cons_blank; [exact Hb0|]. apply piece_blanks; assumption. }
  pose proof (piece_mod_items lvl md Hwf) as Pmod.
  assert (Pm : piece (mod_items lvl md ++ g0 :: g' ++ [IName s_import])
                     ((repeat TDot lvl ++ dotted_toks md) ++ [TName s_import])).
  { apply piece_app; [exact Pmod|exact Pgap|apply blank_nonname; exact Hb0]. }
  rewrite <- app_assoc in Pm.
  apply piece_cons_name; [apply wf_name_from|reflexivity|].
  apply piece_cons_blank; [exact Hfs|]. exact Pm.
Qed.

(* gluing a head (ending before the blank after `import`) and a body *)
Lemma glue_head_body hI ht l tt :
  piece hI ht -> Forall item_wf l -> no_adjacent_names l = true ->
  toks 0 l = Some (0, tt) -> (exists l', l = l' ++ [INewline]) ->
  lexes_to (render hI ++ [c_sp] ++ render l) (ht ++ tt).
Proof.
  intros [W A T] Wl Al Tl (l' & El).
  exists (hI ++ ISpaces 1 :: l). split5.
  - rewrite render_app, render_cons. reflexivity.
  - apply Forall_app; split; [exact W|]. constructor; [cbn; discriminate|exact Wl].
  - apply no_adj_app_sep; [reflexivity|exact A|exact Al].
  - apply (toks_app hI (ISpaces 1 :: l) 0 0 ht 0 tt (T 0)). cbn [toks tok_of]. rewrite Tl. reflexivity.
  - right. exists (hI ++ ISpaces 1 :: l'). rewrite El, <- app_assoc. reflexivity.
Qed.

Lemma alias_token_not_star a : wf_alias a -> str_eqb (alias_token a) s_star = false.
Proof.
  intros [Hn _]. unfold wf_ident, valid_ident in Hn. unfold alias_token.
  destruct (fst a) as [|c r] eqn:E; [discriminate|].
  apply andb_true_iff in Hn as [Hn _]. apply andb_true_iff in Hn as [Hs _].
  assert (Hc : (c =? c_star)%N = false).
  { destruct (N.eqb_spec c c_star) as [->|]; [vm_compute in Hs; discriminate|reflexivity]. }
  destruct (snd a); cbn [app str_eqb s_star]; rewrite Hc; reflexivity.
Qed.

Lemma lexes_to_eq x t x' t' : lexes_to x t -> x = x' -> t = t' -> lexes_to x' t'.
Proof. intros H -> ->. exact H. Qed.

Ltac norm_app := repeat (cbn [app]; rewrite <- ?app_assoc); cbn [app].

(* ---------- print_lexes, one statement ---------- *)
(* whether a statement is printed with parentheses: a `from` statement (not a star import) that does not fit *)
Definition stmt_paren (P : params) (col : option nat) (fs : nat) (st : stmt) : bool :=
  match fst st with
  | None => false
  | Some _ => let tokens := map alias_token (snd st) in
              if strs_is_star tokens then false
              else negb (pyfill_fits (snd (stmt_head col fs (fst st))) tokens P)
  end.

Theorem print_statement_lexes P col fs ss : wf_sstmt ss -> fs <> 0 ->
  lexes_to (print_statement P col fs (to_stmt ss)) (stmt_toks (stmt_paren P col fs (to_stmt ss)) ss ++ [TNewline]).
Proof.
  intros Hwf Hfs. destruct ss as [al|lvl md|lvl md al]; cbn [wf_sstmt] in Hwf.
  - (* import a.b, c as d *)
    destruct Hwf as [Hne Hal].
    unfold print_statement. cbn [to_stmt fst snd stmt_head app].
    assert (Hp : piece (flat_items (map salias_items al)) (tjoin TComma (map salias_toks al))).
    { apply piece_flat; [destruct al; [congruence|discriminate]|]. apply Forall2_map_piece.
      eapply Forall_impl; [|exact Hal]. intros a Ha. apply piece_salias_items. exact Ha. }
    destruct Hp as [W A T].
    assert (Pimp : piece [IName s_import] [TName s_import]).
    { split; [repeat constructor; apply wf_name_import|reflexivity|intros; reflexivity]. }
    pose proof (glue_head_body [IName s_import] [TName s_import]
                  (flat_items (map salias_items al) ++ [INewline])
                  (tjoin TComma (map salias_toks al) ++ [TNewline]) Pimp) as G.
    replace (map alias_token (map (fun a : salias => (join_with c_dot (fst a), snd a)) al))
      with (map render (map salias_items al)).
    2:{ rewrite !map_map. apply map_ext. intros a. symmetry. apply salias_token_render. }
    rewrite join_str_render.
    replace ((s_import ++ [c_sp]) ++ render (flat_items (map salias_items al)) ++ [c_nl])
      with (render [IName s_import] ++ [c_sp] ++ render (flat_items (map salias_items al) ++ [INewline])).
    2:{ rewrite render_app. cbn [render map concat render1]. rewrite <- ?app_assoc. reflexivity. }
    cbn [stmt_toks]. apply G.
    + apply Forall_app; split; [exact W|repeat constructor].
    + apply no_adj_app_sep; [reflexivity|exact A|reflexivity].
    + apply (toks_app _ [INewline] 0 0 _ 0 [TNewline] (T 0)). reflexivity.
    + eexists. reflexivity.
  - (* from m import * *)
    unfold print_statement. cbn [to_stmt fst snd map].
    change (alias_token (s_star, None)) with s_star.
    change (strs_is_star [s_star]) with true. cbn iota. cbn [join_str].
    eapply lexes_to_eq;
      [apply (glue_head_body _ _ [IStar; INewline] [TStar; TNewline] (piece_from_head col fs lvl md Hwf Hfs))| |].
    + repeat constructor.
    + reflexivity.
    + reflexivity.
    + exists [IStar]. reflexivity.
    + symmetry. rewrite app_assoc, stmt_head_render. rewrite <- !app_assoc. reflexivity.
    + cbn [stmt_toks]. norm_app. reflexivity.
  - (* from m import a, b as c *)
    destruct Hwf as (Hm & Hne & Hal).
    unfold print_statement. cbn [to_stmt fst snd].
    assert (Hns : strs_is_star (map alias_token al) = false).
    { destruct al as [|a [|b r]]; try reflexivity. cbn. inversion Hal; subst. apply alias_token_not_star. assumption. }
    rewrite Hns.
    destruct (pyfill_layout (snd (stmt_head col fs (Some (modname lvl md)))) al P Hne Hal)
      as (l & E & W & A & T & Hl).
    unfold stmt_paren. cbn [to_stmt fst snd]. rewrite Hns.
    set (paren := negb (pyfill_fits (snd (stmt_head col fs (Some (modname lvl md)))) (map alias_token al) P)) in *.
    rewrite E.
    eapply lexes_to_eq; [apply (glue_head_body _ _ l _ (piece_from_head col fs lvl md Hm Hfs) W A T Hl)| |].
    + symmetry. rewrite app_assoc, stmt_head_render. rewrite <- !app_assoc. reflexivity.
    + unfold target_toks. cbn [stmt_toks]. destruct paren; norm_app; reflexivity.
Qed.

(* ---------- round trip: one statement, a block, a set ---------- *)

Theorem statement_roundtrip P col fs ss : wf_sstmt ss -> fs <> 0 ->
  parse_stmts (print_statement P col fs (to_stmt ss)) = Some [to_stmt ss].
Proof.
  intros Hwf Hfs. pose proof (print_statement_lexes P col fs ss Hwf Hfs) as HL.
  set (paren := stmt_paren P col fs (to_stmt ss)) in *.
  unfold parse_stmts. rewrite (lexes_to_lex _ _ HL).
  replace (stmt_toks paren ss ++ [TNewline]) with (block_toks [(paren, ss)])
    by (unfold block_toks; cbn [map concat fst snd]; apply app_nil_r).
  rewrite (parse_block_ok [(paren, ss)]); [reflexivity|]. constructor; [exact Hwf|constructor].
Qed.

(* every statement printed with its own column / from_spaces *)
Lemma block_lexes P : forall (l : list (option nat * nat * stmt)),
  Forall (fun x => wf_stmt (snd x) /\ snd (fst x) <> 0) l ->
  exists bl : list (bool * sstmt),
    map (fun ps => to_stmt (snd ps)) bl = map snd l /\ Forall (fun ps => wf_sstmt (snd ps)) bl /\
    map fst bl = map (fun x => stmt_paren P (fst (fst x)) (snd (fst x)) (snd x)) l /\
    lexes_to (concat (map (fun x => print_statement P (fst (fst x)) (snd (fst x)) (snd x)) l)) (block_toks bl).
Proof.
  induction 1 as [|x l [(ss & Hss & Est) Hfs] Hl IH].
  - exists []. repeat split; [constructor|apply lexes_to_nil].
  - destruct IH as (bl & Em & Hb & Ef & HL).
    pose proof (print_statement_lexes P (fst (fst x)) (snd (fst x)) ss Hss Hfs) as HL1.
    exists ((stmt_paren P (fst (fst x)) (snd (fst x)) (to_stmt ss), ss) :: bl). split; [|split; [|split]].
    + cbn [map fst snd]. rewrite Em, Est. reflexivity.
    + constructor; assumption.
    + cbn [map fst snd]. rewrite Ef, Est. reflexivity.
    + cbn [map concat]. unfold block_toks. cbn [map concat fst snd]. fold (block_toks bl).
      rewrite Est. apply lexes_to_app; assumption.
Qed.

Theorem block_roundtrip P (l : list (option nat * nat * stmt)) :
  Forall (fun x => wf_stmt (snd x) /\ snd (fst x) <> 0) l ->
  parse_stmts (concat (map (fun x => print_statement P (fst (fst x)) (snd (fst x)) (snd x)) l)) = Some (map snd l).
Proof.
  intros H. destruct (block_lexes P l H) as (bl & Em & Hb & _ & HL).
  unfold parse_stmts. rewrite (lexes_to_lex _ _ HL), (parse_block_ok bl Hb), Em. reflexivity.
Qed.

Lemma clamp_spaces_nz P : clamp_spaces P <> 0.
Proof. unfold clamp_spaces. lia. Qed.

(* pp as print_statement with explicit column and spacing *)
Definition pp_args (P : params) (col : option nat) (st : stmt) : option nat * nat * stmt :=
  if do_align P st then (col, clamp_spaces P, st) else (None, 1, st).

Lemma pp_as_print P col st :
  pp P col st = print_statement P (fst (fst (pp_args P col st))) (snd (fst (pp_args P col st))) (snd (pp_args P col st)).
Proof. unfold pp, pp_args. destruct (do_align P st); reflexivity. Qed.

Lemma print_set_shape P S out : print_set P S = Some out ->
  exists col, choose_column P (get_statements (separate_from_imports P) S) = inr col /\
              out = concat (map (pp P col) (get_statements (separate_from_imports P) S)).
Proof.
  unfold print_set, print_set_r. destruct (conflicting_imports S); [|discriminate].
  destruct (choose_column P _) as [e|col]; [discriminate|]. intros H. inversion H. exists col. split; reflexivity.
Qed.

(* parenthesised or not, for a statement printed by pp at the chosen column *)
Definition pp_paren (P : params) (col : option nat) (st : stmt) : bool :=
  stmt_paren P (fst (fst (pp_args P col st))) (snd (fst (pp_args P col st))) (snd (pp_args P col st)).

(* the token list the printed block lexes to: the statements' tokens, each with or without parentheses *)
Theorem print_set_lexes_stmts P S out :
  Forall wf_stmt (get_statements (separate_from_imports P) S) -> print_set P S = Some out ->
  exists (col : option nat) (bl : list (bool * sstmt)),
    choose_column P (get_statements (separate_from_imports P) S) = inr col /\
    map (fun ps => to_stmt (snd ps)) bl = get_statements (separate_from_imports P) S /\
    Forall (fun ps => wf_sstmt (snd ps)) bl /\
    map fst bl = map (pp_paren P col) (get_statements (separate_from_imports P) S) /\
    lex out = Some (block_toks bl).
Proof.
  intros Hwf Hp. destruct (print_set_shape P S out Hp) as (col & Hcol & ->). exists col.
  set (sts := get_statements (separate_from_imports P) S) in *.
  destruct (block_lexes P (map (pp_args P col) sts)) as (bl & Em & Hb & Ef & HL).
  - apply Forall_forall. intros x Hx. apply in_map_iff in Hx as (st & <- & Hst).
    rewrite Forall_forall in Hwf. unfold pp_args. destruct (do_align P st); cbn [fst snd]; split; auto.
    apply clamp_spaces_nz.
  - exists bl. split; [exact Hcol|]. split; [|split; [exact Hb|split]].
    + rewrite Em, map_map. rewrite <- (map_id sts) at 2. apply map_ext. intros st.
      unfold pp_args. destruct (do_align P st); reflexivity.
    + rewrite Ef, map_map. reflexivity.
    + apply lexes_to_lex. rewrite map_map in HL.
      replace (map (pp P col) sts)
        with (map (fun x => print_statement P (fst (fst (pp_args P col x))) (snd (fst (pp_args P col x))) (snd (pp_args P col x))) sts).
      * exact HL.
      * apply map_ext. intros st. symmetry. apply pp_as_print.
Qed.

Theorem print_set_roundtrip_stmts P S out :
  Forall wf_stmt (get_statements (separate_from_imports P) S) -> print_set P S = Some out ->
  parse_stmts out = Some (get_statements (separate_from_imports P) S) /\
  parse_imports out = Some (canonical (separate_from_imports P) S).
Proof.
  intros Hwf Hp. destruct (print_set_lexes_stmts P S out Hwf Hp) as (col & bl & _ & Em & Hb & _ & HL).
  assert (H1 : parse_stmts out = Some (get_statements (separate_from_imports P) S)).
  { unfold parse_stmts. rewrite HL, (parse_block_ok bl Hb), Em. reflexivity. }
  split; [exact H1|]. unfold parse_imports. rewrite H1. reflexivity.
Qed.

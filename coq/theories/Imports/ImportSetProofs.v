(* Proofs about Imports/Import.v + ImportSet.v on well-formed imports:
   split of every well-formed kind, from_split (split i) = i, every statement of get_statements is a
   well-formed statement, canonical form of the set. *)
From Coq Require Import NArith List Bool Lia Sorted Arith PeanoNat.
From Verif Require Import Base.Chars Base.StrX Base.StrXProofs Imports.Import Imports.ImportProofs
                          Imports.ImportSet Imports.ImportLex Imports.ImportLexProofs.
Import ListNotations.

(* the imports Python's grammar can express (identifiers ASCII, no keywords) *)
Inductive wf_import : import -> Prop :=
| WfPlain comps : comps <> [] -> Forall wf_ident comps ->                      (* import a.b.c *)
    wf_import (mkImport (join_with c_dot comps) (join_with c_dot comps))
| WfAs a b : wf_ident a -> wf_ident b -> a <> b -> wf_import (mkImport a b)      (* import a as b *)
| WfFrom lvl md mem x : wf_mod lvl md -> wf_ident mem -> wf_ident x ->          (* from ..m import mem [as x] *)
    wf_import (mkImport (repeat c_dot lvl ++ join_with c_dot (md ++ [mem])) x)
| WfStar lvl md : wf_mod lvl md ->                                               (* from ..m import * *)
    wf_import (mkImport (repeat c_dot lvl ++ join_with c_dot (md ++ [s_star])) s_star).

(* ---------- characters ---------- *)
Lemma wf_ident_no_sep n : wf_ident n -> no_sep c_dot n.
Proof.
  intros H. apply valid_ident_chars in H. unfold no_sep. apply Forall_forall. intros c Hc.
  rewrite forallb_forall in H. rewrite N.eqb_sym. apply ident_char_not_dot. auto.
Qed.

Definition hd_ok (s : str) : Prop := match s with c :: _ => (c =? c_dot)%N = false | [] => False end.

Lemma wf_ident_hd_ok n : wf_ident n -> hd_ok n.
Proof.
  intros H. pose proof (wf_ident_no_sep n H) as Hn. destruct n as [|c r]; [discriminate H|].
  inversion Hn; subst. assumption.
Qed.

Lemma hd_ok_star : hd_ok s_star.
Proof. reflexivity. Qed.

Definition hd_ident (s : str) : Prop := match s with c :: _ => is_ident_char c = true | [] => True end.

Lemma wf_ident_hd_ident n : wf_ident n -> hd_ident n.
Proof. intros H. apply valid_ident_chars in H. destruct n as [|c r]; [exact I|]. cbn in *. apply andb_true_iff in H. tauto. Qed.

Lemma hd_ident_not_star s : hd_ident s -> str_eqb s s_star = false.
Proof.
  destruct s as [|c r]; [reflexivity|]. cbn. intros H.
  destruct (N.eqb_spec c c_star) as [->|]; [vm_compute in H; discriminate|reflexivity].
Qed.

Lemma join_hd (P : str -> Prop) l : (forall c r x, P (c :: r) -> P (c :: r ++ x)) ->
  match l with c0 :: _ => c0 <> [] /\ P c0 | [] => True end ->
  match l with _ :: _ => P (join_with c_dot l) | [] => True end.
Proof.
  intros Hext. destruct l as [|c0 l']; [auto|]. intros [Hne HP].
  destruct l' as [|c1 l']; [exact HP|].
  change (join_with c_dot (c0 :: c1 :: l')) with (c0 ++ c_dot :: join_with c_dot (c1 :: l')).
  destruct c0 as [|c r]; [congruence|]. apply Hext. exact HP.
Qed.

Lemma join_hd_ok l : l <> [] -> Forall (fun c => c <> [] /\ hd_ok c) l -> hd_ok (join_with c_dot l).
Proof.
  intros Hne H. destruct l as [|c0 l']; [congruence|]. inversion H; subst.
  apply (join_hd hd_ok (c0 :: l')); [intros; assumption|assumption].
Qed.

Lemma join_hd_ident l : l <> [] -> Forall (fun c => c <> [] /\ hd_ident c) l -> hd_ident (join_with c_dot l).
Proof.
  intros Hne H. destruct l as [|c0 l']; [congruence|]. inversion H; subst.
  apply (join_hd hd_ident (c0 :: l')); [intros; assumption|assumption].
Qed.

Lemma join_nonempty l : l <> [] -> Forall (fun c => c <> []) l -> join_with c_dot l <> [].
Proof.
  intros Hne H. destruct l as [|c0 l']; [congruence|]. inversion H; subst.
  destruct l' as [|c1 l']; [assumption|].
  change (join_with c_dot (c0 :: c1 :: l')) with (c0 ++ c_dot :: join_with c_dot (c1 :: l')).
  destruct c0; [congruence|discriminate].
Qed.

(* ---------- pieces of split ---------- *)
Lemma dot_level_repeat n q : hd_ok q -> dot_level (repeat c_dot n ++ q) = n.
Proof.
  intros Hq. induction n as [|n IH].
  - destruct q as [|c r]; [destruct Hq|]. cbn in *. rewrite Hq. reflexivity.
  - cbn [repeat app dot_level]. rewrite N.eqb_refl.
    destruct (repeat c_dot n ++ q) eqn:E.
    + apply app_eq_nil in E as [_ ->]. destruct Hq.
    + rewrite IH. reflexivity.
Qed.

Lemma firstn_repeat_app n (q : str) : firstn n (repeat c_dot n ++ q) = repeat c_dot n.
Proof. induction n as [|n IH]; [reflexivity|]. cbn. rewrite IH. reflexivity. Qed.

Lemma skipn_repeat_app n (q : str) : skipn n (repeat c_dot n ++ q) = q.
Proof. induction n as [|n IH]; [reflexivity|]. cbn. exact IH. Qed.

Lemma rsplit_dot_join md mem : Forall (no_sep c_dot) md -> no_sep c_dot mem ->
  rsplit_dot (join_with c_dot (md ++ [mem])) =
  match md with [] => None | _ :: _ => Some (join_with c_dot md, mem) end.
Proof.
  intros Hmd Hmem. unfold rsplit_dot. rewrite split_join.
  - destruct md as [|c md']; [reflexivity|].
    change ((c :: md') ++ [mem]) with (c :: (md' ++ [mem])).
    destruct (md' ++ [mem]) as [|t l0] eqn:E; [apply app_eq_nil in E as [_ E]; discriminate|].
    rewrite <- E. change (c :: md' ++ [mem]) with ((c :: md') ++ [mem]).
    rewrite removelast_last, last_last. reflexivity.
  - destruct md; discriminate.
  - apply Forall_app; split; [exact Hmd|repeat constructor; exact Hmem].
Qed.

Lemma wf_mod_no_sep lvl md : wf_mod lvl md -> Forall (no_sep c_dot) md.
Proof. intros [H _]. eapply Forall_impl; [|exact H]. intros c Hc. apply wf_ident_no_sep. exact Hc. Qed.

Lemma has_dot lvl md mem : lvl <> 0 \/ md <> [] ->
  mem_ch c_dot (repeat c_dot lvl ++ join_with c_dot (md ++ [mem])) = true.
Proof.
  intros H. unfold mem_ch. rewrite existsb_app. destruct lvl as [|n].
  - destruct H as [H|H]; [congruence|]. destruct md as [|c md']; [congruence|]. cbn [repeat existsb orb].
    change ((c :: md') ++ [mem]) with (c :: (md' ++ [mem])).
    destruct (md' ++ [mem]) as [|t l0] eqn:E; [apply app_eq_nil in E as [_ E]; discriminate|].
    change (join_with c_dot (c :: t :: l0)) with (c ++ c_dot :: join_with c_dot (t :: l0)).
    rewrite existsb_app. cbn [existsb]. rewrite N.eqb_refl. cbn. apply orb_true_r.
  - cbn [repeat existsb]. rewrite N.eqb_refl. reflexivity.
Qed.

Lemma modname_nonempty lvl md : wf_mod lvl md -> modname lvl md <> [].
Proof.
  intros [Hwf H] E. unfold modname in E. apply app_eq_nil in E as [E1 E2].
  destruct H as [H|H].
  - destruct lvl; [congruence|discriminate].
  - revert E2. apply join_nonempty; [exact H|]. eapply Forall_impl; [|exact Hwf].
    intros c Hc. apply valid_ident_nonempty. exact Hc.
Qed.

(* split of a `from` import, for a member that is an identifier or the star *)
Lemma split_from lvl md mem x : wf_mod lvl md -> mem <> [] -> no_sep c_dot mem ->
  str_eqb x (repeat c_dot lvl ++ join_with c_dot (md ++ [mem])) = false ->
  split (mkImport (repeat c_dot lvl ++ join_with c_dot (md ++ [mem])) x) =
  mkSplit (Some (modname lvl md)) mem (if str_eqb x mem then None else Some x).
Proof.
  intros Hm Hne Hns Hx. pose proof (modname_nonempty lvl md Hm) as Hmn. pose proof (wf_mod_no_sep lvl md Hm) as Hmd.
  destruct Hm as [Hwf Hnz].
  assert (Hhd : hd_ok (join_with c_dot (md ++ [mem]))).
  { apply join_hd_ok; [destruct md; discriminate|]. apply Forall_app; split.
    - eapply Forall_impl; [|exact Hwf]. intros c Hc. split; [apply valid_ident_nonempty; exact Hc|apply wf_ident_hd_ok; exact Hc].
    - repeat constructor; [exact Hne|]. destruct mem as [|c r]; [congruence|]. inversion Hns; subst. assumption. }
  unfold split. cbv zeta. cbn [fullname import_as]. rewrite Hx.
  rewrite (dot_level_repeat lvl _ Hhd). rewrite firstn_repeat_app, skipn_repeat_app. pose proof (rsplit_dot_join md mem Hmd Hns) as HR. unfold str in *. rewrite HR. clear HR.
  unfold modname in *. destruct md as [|c md'].
  - cbn [app join_with fst snd] in *. destruct (repeat c_dot lvl ++ []) eqn:E; [congruence|]. reflexivity.
  - cbn [fst snd]. destruct (repeat c_dot lvl ++ join_with c_dot (c :: md')) eqn:E; [congruence|]. reflexivity.
Qed.

(* ---------- what split says about every well-formed import ---------- *)
Inductive import_view (i : import) : Prop :=
| VPkg sa : wf_salias sa -> split i = mkSplit None (join_with c_dot (fst sa)) (snd sa) -> is_star i = false -> import_view i
| VFrom lvl md a : wf_mod lvl md -> wf_alias a -> split i = mkSplit (Some (modname lvl md)) (fst a) (snd a) ->
    is_star i = false -> import_view i
| VStar lvl md : wf_mod lvl md -> split i = mkSplit (Some (modname lvl md)) s_star None -> is_star i = true -> import_view i.

Lemma ident_no_dot_neq x F : wf_ident x -> mem_ch c_dot F = true -> str_eqb x F = false.
Proof.
  intros Hx HF. destruct (str_eqb x F) eqn:E; [|reflexivity]. apply str_eqb_eq in E. subst F.
  rewrite (valid_ident_no_dot x Hx) in HF. discriminate.
Qed.

Theorem wf_import_view i : wf_import i -> import_view i.
Proof.
  intros H. destruct H as [comps Hne Hc|a b Ha Hb Hab|lvl md mem x Hm Hmem Hx|lvl md Hm].
  - apply (VPkg _ (comps, None)).
    + split; [exact Hne|split; [exact Hc|exact I]].
    + unfold split. cbn [fullname import_as fst snd]. rewrite str_eqb_refl. reflexivity.
    + unfold is_star. cbn [import_as]. apply hd_ident_not_star. apply join_hd_ident; [exact Hne|].
      eapply Forall_impl; [|exact Hc]. intros c Hcc. split; [apply valid_ident_nonempty; exact Hcc|apply wf_ident_hd_ident; exact Hcc].
  - apply (VPkg _ ([a], Some b)).
    + split; [discriminate|split; [repeat constructor; exact Ha|exact Hb]].
    + unfold split. cbn [fullname import_as fst snd join_with].
      assert (E : str_eqb b a = false).
      { destruct (str_eqb b a) eqn:E; [|reflexivity]. apply str_eqb_eq in E. congruence. }
      rewrite E. pose proof (wf_ident_hd_ok a Ha) as Hh. pose proof (wf_ident_no_sep a Ha) as Hn.
      assert (Hd : dot_level a = 0). { destruct a as [|c r]; [reflexivity|]. cbn in *. rewrite Hh. reflexivity. }
      rewrite Hd. cbn [firstn skipn]. unfold rsplit_dot. rewrite (split_on_word c_dot a Hn). cbn [fst snd app].
      rewrite E. reflexivity.
    + unfold is_star. cbn [import_as]. apply hd_ident_not_star. apply wf_ident_hd_ident. exact Hb.
  - apply (VFrom _ lvl md (mem, if str_eqb x mem then None else Some x)).
    + exact Hm.
    + split; [exact Hmem|]. cbn [snd]. destruct (str_eqb x mem); [exact I|exact Hx].
    + cbn [fst snd]. apply split_from; [exact Hm|apply valid_ident_nonempty; exact Hmem|apply wf_ident_no_sep; exact Hmem|].
      apply ident_no_dot_neq; [exact Hx|]. apply has_dot. destruct Hm as [_ H]. exact H.
    + unfold is_star. cbn [import_as]. apply hd_ident_not_star. apply wf_ident_hd_ident. exact Hx.
  - apply (VStar _ lvl md); [exact Hm| |reflexivity].
    rewrite split_from; [reflexivity|exact Hm|discriminate|repeat constructor|].
    destruct (str_eqb s_star _) eqn:E; [|reflexivity]. apply str_eqb_eq in E.
    pose proof (has_dot lvl md s_star (proj2 Hm)) as Hd.
    assert (Hs : mem_ch c_dot s_star = true) by (rewrite E at 1; exact Hd). discriminate Hs.
Qed.

(* ---------- from_split (split i) = i ---------- *)
Lemma last_app_nonempty {A} (x y : list A) d : y <> [] -> last (x ++ y) d = last y d.
Proof.
  intros Hy. induction x as [|a x IH]; [reflexivity|]. cbn [app].
  rewrite <- IH. destruct (x ++ y) eqn:E; [apply app_eq_nil in E as [_ E]; congruence|]. reflexivity.
Qed.

Lemma last_Forall {A} (P : A -> Prop) (s : list A) d : s <> [] -> Forall P s -> P (last s d).
Proof.
  intros Hne H. induction H as [|a s Ha Hs IH]; [congruence|].
  destruct s as [|b s]; [exact Ha|]. apply IH. discriminate.
Qed.

Lemma last_repeat_S (c : ch) n d : last (repeat c (S n)) d = c.
Proof. induction n as [|n IH]; [reflexivity|]. change (repeat c (S (S n))) with (c :: repeat c (S n)). cbn [last]. exact IH. Qed.

Lemma ends_with_dot_mod lvl md : wf_mod lvl md ->
  ends_with_dot (modname lvl md) = match md with [] => true | _ :: _ => false end.
Proof.
  intros [Hwf Hnz]. unfold ends_with_dot, modname. destruct md as [|c md'].
  - cbn [join_with]. rewrite app_nil_r. destruct lvl as [|n]; [destruct Hnz; congruence|].
    rewrite last_repeat_S. apply N.eqb_refl.
  - destruct (exists_last (l := c :: md')) as (pre & cl & E); [discriminate|]. rewrite E in *.
    apply Forall_app in Hwf as [Hpre Hcl]. inversion Hcl as [|? ? Hcl' _]; subst.
    assert (Hcne : cl <> []) by (apply valid_ident_nonempty; exact Hcl').
    assert (Hj : exists y, join_with c_dot (pre ++ [cl]) = y ++ cl).
    { destruct pre as [|p0 pre']; [exists []; reflexivity|].
      exists (join_with c_dot (p0 :: pre') ++ [c_dot]). rewrite join_with_app by discriminate.
      rewrite <- app_assoc. reflexivity. }
    destruct Hj as (y & ->). rewrite app_assoc, last_app_nonempty by exact Hcne.
    pose proof (wf_ident_no_sep cl Hcl') as Hn. apply (last_Forall _ cl 0%N Hcne Hn).
Qed.

Lemma from_split_from lvl md mem x : wf_mod lvl md -> mem <> [] ->
  from_split (mkSplit (Some (modname lvl md)) mem (if str_eqb x mem then None else Some x)) =
  mkImport (repeat c_dot lvl ++ join_with c_dot (md ++ [mem])) x.
Proof.
  intros Hm Hne. unfold from_split. cbn [module_name member_name as_name].
  assert (Ha : match (if str_eqb x mem then None else Some x) with None => mem | Some a => a end = x).
  { destruct (str_eqb x mem) eqn:E; [apply str_eqb_eq in E; congruence|reflexivity]. }
  rewrite Ha, (ends_with_dot_mod lvl md Hm). f_equal. unfold modname. destruct md as [|c md'].
  - cbn [join_with app]. rewrite !app_nil_r. reflexivity.
  - rewrite join_with_app by discriminate. rewrite <- !app_assoc. reflexivity.
Qed.

Theorem from_split_split i : wf_import i -> from_split (split i) = i.
Proof.
  intros H. destruct H as [comps Hne Hc|a b Ha Hb Hab|lvl md mem x Hm Hmem Hx|lvl md Hm].
  - unfold split. cbv zeta. cbn [fullname import_as]. rewrite str_eqb_refl. reflexivity.
  - destruct (wf_import_view _ (WfAs a b Ha Hb Hab)) as [sa Hsa E _|lvl md al _ _ E _|lvl md _ E _].
    + pose proof E as E'. unfold split in E'. cbv zeta in E'. cbn [fullname import_as] in E'.
      assert (E0 : str_eqb b a = false).
      { destruct (str_eqb b a) eqn:E1; [|reflexivity]. apply str_eqb_eq in E1. congruence. }
      rewrite E0 in E'. pose proof (wf_ident_hd_ok a Ha) as Hh. pose proof (wf_ident_no_sep a Ha) as Hn.
      assert (Hd : dot_level a = 0). { destruct a as [|c r]; [reflexivity|]. cbn in *. rewrite Hh. reflexivity. }
      clear E'. unfold split. cbv zeta. cbn [fullname import_as]. rewrite E0, Hd. cbn [firstn skipn].
      unfold rsplit_dot. rewrite (split_on_word c_dot a Hn). cbn [fst snd app]. rewrite E0. reflexivity.
    + exfalso. unfold split in E. cbv zeta in E. cbn [fullname import_as] in E.
      assert (E0 : str_eqb b a = false).
      { destruct (str_eqb b a) eqn:E1; [|reflexivity]. apply str_eqb_eq in E1. congruence. }
      rewrite E0 in E. pose proof (wf_ident_hd_ok a Ha) as Hh. pose proof (wf_ident_no_sep a Ha) as Hn.
      assert (Hd : dot_level a = 0). { destruct a as [|c r]; [reflexivity|]. cbn in *. rewrite Hh. reflexivity. }
      rewrite Hd in E. cbn [firstn skipn] in E. unfold rsplit_dot in E. rewrite (split_on_word c_dot a Hn) in E.
      cbn [fst snd app] in E. discriminate.
    + exfalso. unfold split in E. cbv zeta in E. cbn [fullname import_as] in E.
      assert (E0 : str_eqb b a = false).
      { destruct (str_eqb b a) eqn:E1; [|reflexivity]. apply str_eqb_eq in E1. congruence. }
      rewrite E0 in E. pose proof (wf_ident_hd_ok a Ha) as Hh. pose proof (wf_ident_no_sep a Ha) as Hn.
      assert (Hd : dot_level a = 0). { destruct a as [|c r]; [reflexivity|]. cbn in *. rewrite Hh. reflexivity. }
      rewrite Hd in E. cbn [firstn skipn] in E. unfold rsplit_dot in E. rewrite (split_on_word c_dot a Hn) in E.
      cbn [fst snd app] in E. discriminate.
  - rewrite split_from; [apply from_split_from; [exact Hm|apply valid_ident_nonempty; exact Hmem]
                        |exact Hm|apply valid_ident_nonempty; exact Hmem|apply wf_ident_no_sep; exact Hmem|].
    apply ident_no_dot_neq; [exact Hx|]. apply has_dot. exact (proj2 Hm).
  - rewrite split_from; [apply (from_split_from lvl md s_star s_star Hm); discriminate|exact Hm|discriminate|repeat constructor|].
    destruct (str_eqb s_star _) eqn:E; [|reflexivity]. apply str_eqb_eq in E.
    pose proof (has_dot lvl md s_star (proj2 Hm)) as Hd.
    assert (Hs : mem_ch c_dot s_star = true) by (rewrite E at 1; exact Hd). discriminate Hs.
Qed.

(* ================= the statements of a well-formed set are well-formed ================= *)
Lemma key_eqb_eq k k' : key_eqb k k' = true -> k = k'.
Proof.
  unfold key_eqb, key_compare. destruct k as [n l], k' as [n' l']. cbn [fst snd].
  destruct (str_compare n n') eqn:E; try discriminate.
  destruct (Nat.compare l l') eqn:E2; try discriminate. intros _.
  apply str_compare_eq in E. apply Nat.compare_eq_iff in E2. congruence.
Qed.

Definition std_labels (labels : list (iclass * nat)) : Prop :=
  labels = [(CFuture, 0)] \/ labels = [(CPkg, 0)] \/ labels = [(CFrom, 0)] \/ labels = [(CPkg, 0); (CFrom, 1)].

Lemma in_group_same labels k i1 i2 : std_labels labels ->
  in_group labels k i1 = true -> in_group labels k i2 = true -> classify i1 = classify i2.
Proof.
  intros Hl. unfold in_group, key_of.
  destruct (classify i1) as [c1 n1], (classify i2) as [c2 n2]. cbn [fst snd].
  destruct Hl as [ -> | [ -> | [ -> | -> ] ] ]; destruct c1, c2; cbn; intros H1 H2; try discriminate;
    apply key_eqb_eq in H1; apply key_eqb_eq in H2; congruence.
Qed.

Lemma classify_module_name i1 i2 : classify i1 = classify i2 -> module_name (split i1) = module_name (split i2).
Proof.
  unfold classify. destruct (module_name (split i1)) as [m1|], (module_name (split i2)) as [m2|]; intros H.
  - destruct (str_eqb m1 s_future), (str_eqb m2 s_future); inversion H; reflexivity.
  - destruct (str_eqb m1 s_future); discriminate.
  - destruct (str_eqb m2 s_future); discriminate.
  - reflexivity.
Qed.

Lemma Forall_exists_map {A B C} (P : B -> Prop) (f : A -> C) (g : B -> C) (l : list A) :
  Forall (fun a => exists b, P b /\ f a = g b) l -> exists bs, Forall P bs /\ map f l = map g bs.
Proof.
  induction 1 as [|a l (b & Hb & E) Hl (bs & Hbs & Em)]; [exists []; split; [constructor|reflexivity]|].
  exists (b :: bs). split; [constructor; assumption|]. cbn. rewrite E, Em. reflexivity.
Qed.

Lemma stmt_of_group_wf imps : imps <> [] -> Forall import_view imps ->
  (forall i j, In i imps -> In j imps -> module_name (split i) = module_name (split j)) ->
  (Forall (fun i => is_star i = false) imps \/ exists i, imps = [i]) -> wf_stmt (stmt_of_imports imps).
Proof.
  intros Hne Hv Hsame Hkind. destruct imps as [|i0 rest]; [congruence|].
  inversion Hv as [|? ? Hv0 Hvr]; subst.
  unfold stmt_of_imports. destruct Hv0 as [sa0 Hsa0 E0 Hs0|lvl md a0 Hm Ha0 E0 Hs0|lvl md Hm E0 Hs0].
  - (* import ... *)
    assert (Hall : Forall (fun j => exists sa, wf_salias sa /\ alias_of j = (join_with c_dot (fst sa), snd sa)) (i0 :: rest)).
    { apply Forall_forall. intros j Hj. rewrite Forall_forall in Hv. pose proof (Hv j Hj) as Hvj.
      pose proof (Hsame i0 j (or_introl eq_refl) Hj) as Hmj. rewrite E0 in Hmj. cbn [module_name] in Hmj.
      destruct Hvj as [sa Hsa E _|? ? ? _ _ E _|? ? _ E _]; try (rewrite E in Hmj; discriminate).
      exists sa. split; [exact Hsa|]. unfold alias_of. rewrite E. reflexivity. }
    apply Forall_exists_map in Hall as (sas & Hsas & Em).
    exists (SImport sas). split.
    + split; [|exact Hsas]. destruct sas; [discriminate Em|discriminate].
    + rewrite E0. cbn [module_name to_stmt]. rewrite Em. reflexivity.
  - (* from m import a, b *)
    assert (Hall : Forall (fun j => wf_alias (alias_of j)) (i0 :: rest)).
    { apply Forall_forall. intros j Hj. rewrite Forall_forall in Hv. pose proof (Hv j Hj) as Hvj.
      destruct Hvj as [sa Hsa E _|? ? a _ Ha E _|? ? _ E Hsj].
      - pose proof (Hsame i0 j (or_introl eq_refl) Hj) as Hmj. rewrite E0, E in Hmj. discriminate.
      - unfold alias_of. rewrite E. cbn [member_name as_name]. destruct a; exact Ha.
      - exfalso. destruct Hkind as [Hk|(i & Ei)].
        + rewrite Forall_forall in Hk. rewrite (Hk j Hj) in Hsj. discriminate.
        + inversion Ei; subst. destruct Hj as [<-|[]]. rewrite Hs0 in Hsj. discriminate. }
    exists (SFrom lvl md (map alias_of (i0 :: rest))). split.
    + split; [exact Hm|]. split; [discriminate|]. apply Forall_forall. intros a Ha.
      apply in_map_iff in Ha as (j & <- & Hj). rewrite Forall_forall in Hall. auto.
    + rewrite E0. reflexivity.
  - (* from m import * *)
    destruct Hkind as [Hk|(i & Ei)].
    + inversion Hk; subst. congruence.
    + inversion Ei; subst. exists (SFromStar lvl md). split; [exact Hm|].
      cbn [map to_stmt]. unfold alias_of. rewrite E0. reflexivity.
Qed.

Lemma NoDup_all_equal {A} (l : list A) : NoDup l -> (forall x y, In x l -> In y l -> x = y) ->
  l = [] \/ exists i, l = [i].
Proof.
  intros Hnd Heq. destruct l as [|a [|b r]]; [left; reflexivity|right; exists a; reflexivity|].
  exfalso. assert (a = b) by (apply Heq; cbn; auto). subst. inversion Hnd as [|? ? Hn _]; subst. apply Hn. left. reflexivity.
Qed.

Definition wf_set (S : import_set) : Prop := Forall wf_import S /\ NoDup S.

Lemma group_stmts_of_wf labels S k : std_labels labels -> wf_set S -> Forall wf_stmt (group_stmts_of labels S k).
Proof.
  intros Hl [Hwf Hnd]. unfold group_stmts_of.
  set (members := filter (in_group labels k) S).
  assert (Hmem : forall i, In i members -> wf_import i /\ in_group labels k i = true).
  { intros i Hi. apply filter_In in Hi as [Hi Hg]. rewrite Forall_forall in Hwf. auto. }
  assert (Hsame : forall i j, In i members -> In j members -> module_name (split i) = module_name (split j)).
  { intros i j Hi Hj. apply classify_module_name. eapply in_group_same; [exact Hl|apply Hmem; exact Hi|apply Hmem; exact Hj]. }
  apply Forall_app; split.
  - destruct (filter is_star members) as [|s0 sr] eqn:Es; [constructor|]. repeat constructor. rewrite <- Es.
    assert (Hin : forall i, In i (filter is_star members) -> In i members /\ is_star i = true) by (intros i Hi; apply filter_In in Hi; exact Hi).
    apply stmt_of_group_wf.
    + rewrite Es. discriminate.
    + apply Forall_forall. intros i Hi. apply wf_import_view. apply Hmem. apply Hin. exact Hi.
    + intros i j Hi Hj. apply Hsame; apply Hin; assumption.
    + right. assert (Hu : filter is_star members = [] \/ exists i, filter is_star members = [i]).
      { apply NoDup_all_equal; [apply NoDup_filter; apply NoDup_filter; exact Hnd|].
        intros x y Hx Hy. destruct (Hin x Hx) as [Hxm Hxs]. destruct (Hin y Hy) as [Hym Hys].
        destruct (Hmem x Hxm) as [Hxw _]. destruct (Hmem y Hym) as [Hyw _].
        rewrite <- (from_split_split x Hxw), <- (from_split_split y Hyw). f_equal.
        pose proof (Hsame x y Hxm Hym) as Hmod.
        destruct (wf_import_view x Hxw) as [? _ _ Hc|? ? ? _ _ _ Hc|l1 d1 _ E1 _]; try congruence.
        destruct (wf_import_view y Hyw) as [? _ _ Hc|? ? ? _ _ _ Hc|l2 d2 _ E2 _]; try congruence.
        rewrite E1, E2 in *. cbn [module_name] in Hmod. congruence. }
      destruct Hu as [Hu|Hu]; [rewrite Es in Hu; discriminate|exact Hu].
  - set (ns := filter (fun i => negb (is_star i)) members).
    destruct (sort_u import_compare ns) as [|n0 nr] eqn:En; [constructor|]. repeat constructor. rewrite <- En.
    assert (Hin : forall i, In i (sort_u import_compare ns) -> In i members /\ is_star i = false).
    { intros i Hi. apply sort_u_in in Hi. apply filter_In in Hi as [Hi Hs]. apply negb_true_iff in Hs. auto. }
    apply stmt_of_group_wf.
    + rewrite En. discriminate.
    + apply Forall_forall. intros i Hi. apply wf_import_view. apply Hmem. apply Hin. exact Hi.
    + intros i j Hi Hj. apply Hsame; apply Hin; assumption.
    + left. apply Forall_forall. intros i Hi. apply Hin. exact Hi.
Qed.

Theorem get_statements_wf sep S : wf_set S -> Forall wf_stmt (get_statements sep S).
Proof.
  intros HS. unfold get_statements, group_stmts.
  assert (H : forall labels, std_labels labels -> Forall wf_stmt (flat_map (group_stmts_of labels S) (group_keys labels S))).
  { intros labels Hl. apply Forall_flat_map. apply Forall_forall. intros k _. apply group_stmts_of_wf; assumption. }
  destruct sep; repeat (apply Forall_app; split); apply H; unfold std_labels; auto.
Qed.

(* ImportSet construction always yields a duplicate-free, strictly sorted list *)
Lemma from_imports_sorted b l : StronglySorted (lt import_compare) (from_imports b l).
Proof. unfold from_imports. apply sort_u_sorted; [apply import_compare_antisym|apply import_compare_trans]. Qed.

Lemma from_imports_NoDup b l : NoDup (from_imports b l).
Proof. eapply sorted_NoDup; [apply import_compare_refl|apply from_imports_sorted]. Qed.

Lemma filter_shadowed_in i l : In i (filter_shadowed l) -> In i l.
Proof.
  induction l as [|j r IH]; cbn; [auto|].
  destruct (is_star j || negb (existsb (fun j0 => str_eqb (import_as j0) (import_as j)) r)); cbn; intuition.
Qed.

Theorem from_imports_wf b l : Forall wf_import l -> wf_set (from_imports b l).
Proof.
  intros H. split; [|apply from_imports_NoDup]. unfold from_imports. apply sort_u_Forall.
  destruct b; [|exact H]. apply Forall_forall. intros i Hi. apply filter_shadowed_in in Hi.
  rewrite Forall_forall in H. auto.
Qed.

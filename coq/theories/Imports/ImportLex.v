(* M5 (specification side): lexer and parser for the import-statement fragment of Python's grammar
   (NAME, `.`, `,`, `(`, `)`, `*`, keywords as/from/import, NEWLINE, backslash-newline, implicit
   line joining inside parentheses).  Validated against CPython's ast.parse by harness/c11.py.
   Not in the fragment (lexing fails): comments, `;`, tabs, non-ASCII identifiers, indentation
   checks (leading blanks of a logical line are ignored).
   Model only; proofs are in ImportLexProofs.v. *)
From Coq Require Import NArith List Bool String.
From Verif Require Import Base.Chars Base.StrX Imports.Import Imports.ImportSet.
Import ListNotations.

Inductive tok := TName (s : str) | TDot | TComma | TLpar | TRpar | TStar | TNewline.

(* ---------- lexer: a fold over the characters, no fuel ---------- *)
Record lst := mkLst { depth : nat; cur : str (* reversed partial name *); out : list tok (* reversed *);
                      bs : bool (* pending backslash *); err : bool }.
Definition lex_init : lst := mkLst 0 [] [] false false.

Definition flush (s : lst) : lst :=
  match cur s with
  | [] => s
  | _ :: _ => mkLst (depth s) [] (TName (rev (cur s)) :: out s) (bs s) (err s)
  end.
Definition emit (t : tok) (s : lst) : lst := mkLst (depth s) (cur s) (t :: out s) (bs s) (err s).
Definition fail (s : lst) : lst := mkLst (depth s) (cur s) (out s) (bs s) true.

Definition step (s : lst) (c : ch) : lst :=
  if err s then s else
  if bs s then
    (if (c =? c_nl)%N then mkLst (depth s) (cur s) (out s) false false else fail s)
  else if is_ident_char c then mkLst (depth s) (c :: cur s) (out s) false false
  else
    let s := flush s in
    if (c =? c_sp)%N then s
    else if (c =? c_bslash)%N then mkLst (depth s) [] (out s) true false
    else if (c =? c_nl)%N then (match depth s with O => emit TNewline s | S _ => s end)
    else if (c =? c_dot)%N then emit TDot s
    else if (c =? c_comma)%N then emit TComma s
    else if (c =? c_star)%N then emit TStar s
    else if (c =? c_lpar)%N then mkLst (S (depth s)) [] (TLpar :: out s) false false
    else if (c =? c_rpar)%N then
      (match depth s with
       | O => fail s
       | S d => mkLst d [] (TRpar :: out s) false false
       end)
    else fail s.

Definition lex_from (s : lst) (x : str) : lst := fold_left step x s.
Definition lex_finish (s : lst) : option (list tok) :=
  let s := flush s in
  if err s || bs s then None
  else match depth s with O => Some (rev (out s)) | S _ => None end.
Definition lex (x : str) : option (list tok) := lex_finish (lex_from lex_init x).

(* ---------- parser over the token list: split into logical lines, then into comma pieces ---------- *)
Definition tok_eqb (a b : tok) : bool :=
  match a, b with
  | TName x, TName y => str_eqb x y
  | TDot, TDot | TComma, TComma | TLpar, TLpar | TRpar, TRpar | TStar, TStar | TNewline, TNewline => true
  | _, _ => false
  end.

(* like str.split for a one-token separator: never returns the empty list *)
Fixpoint tsplit (sep : tok) (l : list tok) : list (list tok) :=
  match l with
  | [] => [[]]
  | t :: r => if tok_eqb t sep then [] :: tsplit sep r
              else match tsplit sep r with
                   | [] => [[t]]
                   | h :: q => (t :: h) :: q
                   end
  end.

Open Scope string_scope.
Definition keywords : list str := map dec
  ["False"; "None"; "True"; "and"; "as"; "assert"; "async"; "await"; "break"; "class"; "continue";
   "def"; "del"; "elif"; "else"; "except"; "finally"; "for"; "from"; "global"; "if"; "import"; "in";
   "is"; "lambda"; "nonlocal"; "not"; "or"; "pass"; "raise"; "return"; "try"; "while"; "with"; "yield"].
Close Scope string_scope.
Definition is_keyword (n : str) : bool := existsb (str_eqb n) keywords.

(* a NAME token that is an identifier: starts with a letter or underscore, is not a keyword *)
Definition valid_ident (n : str) : bool :=
  match n with
  | [] => false
  | c :: _ => is_ident_start c && forallb is_ident_char n && negb (is_keyword n)
  end.

(* dotted_name: NAME ('.' NAME)* ; returns the joined text and the remaining tokens *)
Fixpoint parse_dotted (l : list tok) : option (str * list tok) :=
  match l with
  | TName n :: r =>
      if valid_ident n then
        match r with
        | TDot :: r' => match parse_dotted r' with
                        | Some (m, r'') => Some (n ++ c_dot :: m, r'')
                        | None => None
                        end
        | _ => Some (n, r)
        end
      else None
  | _ => None
  end.

(* dotted_as_name / import_from_as_name: name ['as' NAME] filling a whole comma piece *)
Definition parse_alias (dotted_ok : bool) (piece : list tok) : option alias :=
  match parse_dotted piece with
  | Some (n, rest) =>
      if dotted_ok || negb (mem_ch c_dot n) then
        match rest with
        | [] => Some (n, None)
        | [TName a; TName x] => if str_eqb a s_as && valid_ident x then Some (n, Some x) else None
        | _ => None
        end
      else None
  | None => None
  end.

Fixpoint all_some {A} (l : list (option A)) : option (list A) :=
  match l with
  | [] => Some []
  | None :: _ => None
  | Some x :: r => match all_some r with Some xs => Some (x :: xs) | None => None end
  end.

Definition parse_aliases (dotted_ok : bool) (pieces : list (list tok)) : option (list alias) :=
  all_some (map (parse_alias dotted_ok) pieces).

Fixpoint count_dots (l : list tok) : nat * list tok :=
  match l with
  | TDot :: r => let p := count_dots r in (S (fst p), snd p)
  | _ => (0, l)
  end.

(* tokens before the first `import` keyword, tokens after it *)
Fixpoint break_import (l : list tok) : option (list tok * list tok) :=
  match l with
  | [] => None
  | t :: r => if tok_eqb t (TName s_import) then Some ([], r)
              else match break_import r with
                   | Some (a, b) => Some (t :: a, b)
                   | None => None
                   end
  end.

(* import_from targets:  '*'  |  '(' import_from_as_names [','] ')'  |  import_from_as_names *)
Definition parse_targets (l : list tok) : option (list alias) :=
  match l with
  | [TStar] => Some [(s_star, None)]
  | TLpar :: r =>
      match rev r with
      | TRpar :: body_rev =>
          let pieces := tsplit TComma (rev body_rev) in
          let pieces := match rev pieces with
                        | [] :: ((_ :: _) as q) => rev q           (* one trailing comma *)
                        | _ => pieces
                        end in
          parse_aliases false pieces
      | _ => None
      end
  | _ => parse_aliases false (tsplit TComma l)
  end.

(* one logical line -> ImportStatement (fromname = '.' * level + module) *)
Definition parse_stmt (line : list tok) : option stmt :=
  match line with
  | TName k :: r =>
      if str_eqb k s_import then
        match parse_aliases true (tsplit TComma r) with
        | Some al => Some (None, al)
        | None => None
        end
      else if str_eqb k s_from then
        match break_import r with
        | Some (before, after) =>
            let dl := count_dots before in
            let modname :=
              match snd dl with
              | [] => match fst dl with O => None | S _ => Some [] end
              | toks => match parse_dotted toks with Some (m, []) => Some m | _ => None end
              end in
            match modname, parse_targets after with
            | Some m, Some al => Some (Some (repeat c_dot (fst dl) ++ m), al)
            | _, _ => None
            end
        | None => None
        end
      else None
  | _ => None
  end.

Definition parse_lines (lines : list (list tok)) : option (list stmt) :=
  all_some (map parse_stmt (filter (fun l => match l with [] => false | _ :: _ => true end) lines)).

Definition parse_stmts (s : str) : option (list stmt) :=
  match lex s with
  | Some ts => parse_lines (tsplit TNewline ts)
  | None => None
  end.

(* the imports a text denotes, in order (ImportStatement.imports of every statement) *)
Definition parse_imports (s : str) : option (list import) :=
  match parse_stmts s with
  | Some sts => Some (flat_map stmt_imports sts)
  | None => None
  end.

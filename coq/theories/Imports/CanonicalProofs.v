(* C11: canonical S (the imports in printing order) has no repeated element: nothing is duplicated. *)
From Coq Require Import NArith List Bool Lia Sorted Arith PeanoNat Permutation.
From Verif Require Import Base.Chars Base.StrX Base.StrXProofs Imports.Import Imports.ImportProofs
                          Imports.ImportSet Imports.ImportSetProofs Imports.Format Imports.FormatProofs
                          Imports.ImportLex Imports.ImportLexProofs Imports.RoundTripProofs.
Import ListNotations.

Lemma NoDup_app_intro {A} (l1 l2 : list A) :
  NoDup l1 -> NoDup l2 -> (forall x, In x l1 -> In x l2 -> False) -> NoDup (l1 ++ l2).
Proof.
  induction 1 as [|a l1 Ha H1 IH]; intros H2 Hd; [exact H2|]. cbn [app]. constructor.
  - intros Hin. apply in_app_or in Hin as [Hin|Hin]; [contradiction|]. apply (Hd a); [left; reflexivity|exact Hin].
  - apply IH; [exact H2|]. intros x Hx1 Hx2. apply (Hd x); [right; exact Hx1|exact Hx2].
Qed.

Lemma NoDup_flat_map_intro {A B} (f : A -> list B) (l : list A) :
  NoDup l -> (forall a, In a l -> NoDup (f a)) ->
  (forall a b x, In a l -> In b l -> a <> b -> In x (f a) -> In x (f b) -> False) ->
  NoDup (flat_map f l).
Proof.
  induction 1 as [|a l Ha Hl IH]; intros Hf Hd; [constructor|]. cbn [flat_map]. apply NoDup_app_intro.
  - apply Hf. left. reflexivity.
  - apply IH; [intros b Hb; apply Hf; right; exact Hb|].
    intros b c x Hb Hc Hbc. apply (Hd b c x); [right; exact Hb|right; exact Hc|exact Hbc].
  - intros x Hx1 Hx2. apply in_flat_map in Hx2 as (b & Hb & Hxb).
    apply (Hd a b x); [left; reflexivity|right; exact Hb| |exact Hx1|exact Hxb].
    intros ->. contradiction.
Qed.

Lemma key_compare_antisym k k' : key_compare k' k = CompOpp (key_compare k k').
Proof.
  unfold key_compare. rewrite (str_compare_antisym (fst k) (fst k')).
  destruct (str_compare (fst k) (fst k')); cbn; auto. apply Nat.compare_antisym.
Qed.

Lemma key_compare_trans a b c : key_compare a b = Lt -> key_compare b c = Lt -> key_compare a c = Lt.
Proof.
  unfold key_compare.
  destruct (str_compare (fst a) (fst b)) eqn:E1; try discriminate;
  destruct (str_compare (fst b) (fst c)) eqn:E2; try discriminate; intros H1 H2.
  - apply str_compare_eq in E1, E2. rewrite E1, E2, str_compare_refl.
    apply Nat.compare_lt_iff in H1, H2. apply Nat.compare_lt_iff. lia.
  - apply str_compare_eq in E1. rewrite E1, E2. reflexivity.
  - apply str_compare_eq in E2. rewrite <- E2, E1. reflexivity.
  - rewrite (str_compare_trans _ _ _ E1 E2). reflexivity.
Qed.

Lemma group_keys_NoDup labels S : NoDup (group_keys labels S).
Proof.
  unfold group_keys. eapply (sorted_NoDup key_compare key_compare_refl).
  apply sort_u_sorted; [apply key_compare_antisym|apply key_compare_trans].
Qed.

Lemma group_imports_in labels S k x : std_labels labels -> wf_set S ->
  In x (flat_map stmt_imports (group_stmts_of labels S k)) -> key_of labels x = Some k.
Proof.
  intros Hl HS Hx. rewrite (group_imports_eq labels S k Hl HS) in Hx.
  assert (Hm : In x (filter (in_group labels k) S)).
  { apply in_app_or in Hx as [Hx|Hx]; [apply filter_In in Hx as [Hx _]; exact Hx|].
    apply sort_u_in in Hx. apply filter_In in Hx as [Hx _]. exact Hx. }
  apply filter_In in Hm as [_ Hg]. unfold in_group in Hg.
  destruct (key_of labels x) as [k'|]; [|discriminate]. apply key_eqb_eq in Hg. congruence.
Qed.

Lemma group_imports_NoDup labels S : std_labels labels -> wf_set S ->
  NoDup (flat_map stmt_imports (group_stmts labels S)).
Proof.
  intros Hl HS. unfold group_stmts. rewrite flat_map_flat_map. apply NoDup_flat_map_intro.
  - apply group_keys_NoDup.
  - intros k _. rewrite (group_imports_eq labels S k Hl HS). destruct HS as [Hwf Hnd]. apply NoDup_app_intro.
    + apply NoDup_filter. apply NoDup_filter. exact Hnd.
    + eapply (sorted_NoDup import_compare import_compare_refl).
      apply sort_u_sorted; [apply import_compare_antisym|apply import_compare_trans].
    + intros x H1 H2. apply filter_In in H1 as [_ H1]. apply sort_u_in in H2. apply filter_In in H2 as [_ H2].
      rewrite H1 in H2. discriminate.
  - intros a b x _ _ Hab Ha Hb. apply (group_imports_in labels S a x Hl HS) in Ha.
    apply (group_imports_in labels S b x Hl HS) in Hb. congruence.
Qed.

Theorem canonical_NoDup sep S : wf_set S -> NoDup (canonical sep S).
Proof.
  intros HS. unfold canonical, get_statements.
  assert (L1 : std_labels [(CFuture, 0)]) by (unfold std_labels; auto).
  assert (L2 : std_labels [(CPkg, 0)]) by (unfold std_labels; auto).
  assert (L3 : std_labels [(CFrom, 0)]) by (unfold std_labels; auto).
  assert (L4 : std_labels [(CPkg, 0); (CFrom, 1)]) by (unfold std_labels; auto 6).
  assert (Hdis : forall l1 l2 x, std_labels l1 -> std_labels l2 ->
            (forall c n1 n2, In (c, n1) l1 -> In (c, n2) l2 -> False) ->
            In x (flat_map stmt_imports (group_stmts l1 S)) -> In x (flat_map stmt_imports (group_stmts l2 S)) -> False).
  { intros l1 l2 x H1 H2 Hc Hx1 Hx2. apply (group_in l1 S x H1 HS) in Hx1 as [_ K1].
    apply (group_in l2 S x H2 HS) in Hx2 as [_ K2]. unfold key_of in K1, K2.
    destruct (find _ l1) as [[c1 n1]|] eqn:F1; [|congruence]. destruct (find _ l2) as [[c2 n2]|] eqn:F2; [|congruence].
    apply find_some in F1 as [I1 E1]. apply find_some in F2 as [I2 E2]. cbn [fst] in E1, E2.
    assert (c1 = c2) by (destruct c1, c2, (fst (classify x)); cbn in *; congruence). subst c2. apply (Hc c1 n1 n2 I1 I2). }
  destruct sep; rewrite !flat_map_app.
  - apply NoDup_app_intro; [apply group_imports_NoDup; assumption| |].
    + apply NoDup_app_intro; [apply group_imports_NoDup; assumption|apply group_imports_NoDup; assumption|].
      intros x. apply Hdis; try assumption. intros c n1 n2 [H|[]] [H'|[]]. congruence.
    + intros x H1 H2. apply in_app_or in H2 as [H2|H2]; revert H1 H2; apply Hdis; try assumption;
        intros c n1 n2 [H|[]] [H'|[]]; congruence.
  - apply NoDup_app_intro; [apply group_imports_NoDup; assumption|apply group_imports_NoDup; assumption|].
    intros x. apply Hdis; try assumption. intros c n1 n2 [H|[]] [H'|[H'|[]]]; congruence.
Qed.

(* nothing lost, duplicated or added: the re-parsed imports are a permutation of the set *)
Theorem canonical_Permutation sep S : wf_set S -> Permutation (canonical sep S) S.
Proof.
  intros HS. apply NoDup_Permutation; [apply canonical_NoDup; exact HS|exact (proj2 HS)|].
  intros x. apply canonical_in. exact HS.
Qed.

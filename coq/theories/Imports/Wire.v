(* Entry points evaluated by the correspondence harness (harness/c11.py; reused by C01-C04). *)
From Coq Require Import NArith List String Bool.
From Verif Require Import Base.Chars Base.Show Base.StrX
                          Imports.Import Imports.ImportSet Imports.Format Imports.ImportLex Imports.Cli.
Import ListNotations.
Open Scope string_scope.

Definition mk_imports (l : list (str * str)) : list import := map (fun p => mkImport (fst p) (snd p)) l.

Definition show_import (i : import) : string := show_list show_str [fullname i; import_as i].
Definition show_imports (l : list import) : string := show_list show_import l.
Definition show_ostr (o : option str) : string := show_option show_str o.
Definition show_alias (a : alias) : string := "[" ++ show_str (fst a) ++ "," ++ show_ostr (snd a) ++ "]".
Definition show_stmt (st : stmt) : string := "[" ++ show_ostr (fst st) ++ "," ++ show_list show_alias (snd st) ++ "]".
Definition show_split (s : import_split) : string :=
  "[" ++ show_ostr (module_name s) ++ "," ++ show_str (member_name s) ++ "," ++ show_ostr (as_name s) ++ "]".

Definition show_print (r : perr + str) : string :=
  match r with
  | inr s => show_obj [("text", show_str s)]
  | inl EConflict => show_obj [("error", show_string "ConflictingImportsError")]
  | inl ENoColumns => show_obj [("error", show_string "ValueError")]
  end.

(* ImportSet(l, ignore_shadowed=b): the sorted, shadow-filtered list *)
Definition run_canon (ignore_shadowed : bool) (l : list (str * str)) : string :=
  show_imports (from_imports ignore_shadowed (mk_imports l)).

(* Import.split and Import.from_split(split) *)
Definition run_split (full as_ : str) : string :=
  let sp := split (mkImport full as_) in
  show_obj [("split", show_split sp); ("back", show_import (from_split sp))].

(* ImportSet(l, ignore_shadowed=b).get_statements(separate_from_imports=sep) *)
Definition run_statements (ignore_shadowed sep : bool) (l : list (str * str)) : string :=
  show_list show_stmt (get_statements sep (from_imports ignore_shadowed (mk_imports l))).

(* ImportSet(l, ignore_shadowed=b).pretty_print(P) *)
Definition run_print (P : params) (ignore_shadowed : bool) (l : list (str * str)) : string :=
  show_print (print_set_r P (from_imports ignore_shadowed (mk_imports l))).

(* pyfill(prefix, tokens, P) *)
Definition run_pyfill (P : params) (prefix : str) (tokens : list str) : string :=
  show_str (pyfill prefix tokens P).

(* the model lexer/parser on a text: statements and imports, or null *)
Definition run_parse (text : str) : string :=
  match parse_stmts text with
  | Some sts => show_obj [("stmts", show_list show_stmt sts); ("imports", show_imports (flat_map stmt_imports sts))]
  | None => "null"
  end.

(* everything C11 compares for one case *)
Definition run_case (P : params) (ignore_shadowed : bool) (l : list (str * str)) : string :=
  let S := from_imports ignore_shadowed (mk_imports l) in
  let pr := print_set_r P S in
  show_obj
    [("set", show_imports S);
     ("imports", show_imports (imports_of S));
     ("conflicts", show_list show_str (conflicting_imports S));
     ("print", show_print pr);
     ("canonical", show_imports (canonical (separate_from_imports P) S));
     ("parsed", match pr with
                | inr s => match parse_imports s with Some is => show_imports is | None => "null" end
                | inl _ => "null"
                end);
     ("reprint", match pr with
                 | inr s => match parse_imports s with
                            | Some is => show_print (print_set_r P (from_imports false is))
                            | None => "null"
                            end
                 | inl _ => "null"
                 end)].

(* set algebra: with_imports / without_imports / by_import_as *)
Definition run_with (a b : list (str * str)) : string :=
  show_imports (with_imports (from_imports false (mk_imports a)) (from_imports false (mk_imports b))).
Definition run_without (a b : list (str * str)) : string :=
  show_imports (without_imports (from_imports false (mk_imports a)) (from_imports false (mk_imports b))).
Definition run_by_import_as (a : list (str * str)) (n : str) : string :=
  show_imports (by_import_as (from_imports false (mk_imports a)) n).

(* ImportSet(l, ignore_shadowed=b).pretty_print(allow_conflicts=True) under the default ImportFormatParams: the
   text inside repr() *)
Definition default_params : params := mkParams None 4 Never (AlignBool true) 1 true false.
Definition run_print_allow_conflicts (ignore_shadowed : bool) (l : list (str * str)) : string :=
  show_print (print_set_allow_conflicts default_params (from_imports ignore_shadowed (mk_imports l))).

(* the command-line tools: effective params from [tool.pyflyby] settings and the options in command-line order,
   then the printed block *)
Definition show_params (P : params) : string :=
  show_obj [("width", show_option show_nat (max_line_length P));
            ("hanging", match hanging P with Never => show_string "never" | Auto => show_string "auto" | Always => show_string "always" end);
            ("align", match align_imports P with
                      | AlignBool b => show_bool b
                      | AlignCol c => show_nat c
                      | AlignCols cs => show_list show_nat cs
                      end);
            ("from_spaces", show_nat (from_spaces P));
            ("separate", show_bool (separate_from_imports P));
            ("align_future", show_bool (align_future P))].
Definition run_cli_print (pyproject cmdline : list cli_option) (ignore_shadowed : bool) (l : list (str * str)) : string :=
  let P := fold_format_options pyproject cmdline in
  show_obj [("params", show_params P);
            ("print", show_print (print_set_r P (from_imports ignore_shadowed (mk_imports l))))].

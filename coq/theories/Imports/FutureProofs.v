(* C11: in every printed block the `from __future__ import ...` statement(s) come first
   (needed for the block to compile: ast.parse accepts a late __future__ import, the compiler does not).
   No well-formedness hypothesis. *)
From Coq Require Import NArith List Bool Lia.
From Verif Require Import Base.Chars Base.StrX Base.StrXProofs Imports.Import Imports.ImportProofs
                          Imports.ImportSet Imports.Format Imports.ImportLex Imports.ImportLexProofs Imports.FormatProofs.
Import ListNotations.

Lemma group_stmt_from labels S st : In st (group_stmts labels S) ->
  exists i, In i S /\ key_of labels i <> None /\ fst st = module_name (split i).
Proof.
  unfold group_stmts. intros H. apply in_flat_map in H as (k & _ & H). unfold group_stmts_of in H.
  set (members := filter (in_group labels k) S) in *.
  assert (Hmem : forall i, In i members -> In i S /\ key_of labels i <> None).
  { intros i Hi. apply filter_In in Hi as [Hi Hg]. split; [exact Hi|]. unfold in_group in Hg.
    destruct (key_of labels i); [discriminate|discriminate]. }
  apply in_app_or in H as [H|H].
  - destruct (filter is_star members) as [|s0 sr] eqn:Es; [destruct H|]. destruct H as [<-|[]].
    exists s0. assert (Hs : In s0 members).
    { assert (Hin : In s0 (filter is_star members)) by (rewrite Es; left; reflexivity). apply filter_In in Hin as [Hin _]. exact Hin. }
    destruct (Hmem s0 Hs). repeat split; assumption.
  - destruct (sort_u import_compare _) as [|n0 nr] eqn:En; [destruct H|]. destruct H as [<-|[]].
    exists n0. assert (Hs : In n0 members).
    { assert (Hin : In n0 (n0 :: nr)) by (left; reflexivity). rewrite <- En in Hin. apply sort_u_in in Hin.
      apply filter_In in Hin as [Hin _]. exact Hin. }
    destruct (Hmem n0 Hs). repeat split; assumption.
Qed.

Lemma key_future i : key_of [(CFuture, 0)] i <> None -> module_name (split i) = Some s_future.
Proof.
  unfold key_of, classify. destruct (module_name (split i)) as [m|]; [|cbn; congruence].
  destruct (str_eqb m s_future) eqn:E; cbn; [|congruence]. intros _. apply str_eqb_eq in E. congruence.
Qed.

Definition nonfuture_labels (labels : list (iclass * nat)) : Prop :=
  labels = [(CPkg, 0)] \/ labels = [(CFrom, 0)] \/ labels = [(CPkg, 0); (CFrom, 1)].

Lemma key_nonfuture labels i : nonfuture_labels labels -> key_of labels i <> None ->
  module_name (split i) <> Some s_future.
Proof.
  intros Hl. unfold key_of, classify. destruct (module_name (split i)) as [m|]; [|discriminate].
  destruct (str_eqb m s_future) eqn:E.
  - destruct Hl as [ -> | [ -> | -> ] ]; cbn; congruence.
  - intros _ H. inversion H; subst. rewrite str_eqb_refl in E. discriminate.
Qed.

Definition is_future_stmt (st : stmt) : Prop := fst st = Some s_future.

Theorem future_first sep S : exists fut rest,
  get_statements sep S = fut ++ rest /\ Forall is_future_stmt fut /\ Forall (fun st => ~ is_future_stmt st) rest.
Proof.
  assert (Hf : Forall is_future_stmt (group_stmts [(CFuture, 0)] S)).
  { apply Forall_forall. intros st Hst. apply (group_stmt_from [(CFuture, 0)] S st) in Hst as (i & _ & Hk & E).
    unfold is_future_stmt. rewrite E. apply key_future. exact Hk. }
  assert (Hn : forall labels, nonfuture_labels labels -> Forall (fun st => ~ is_future_stmt st) (group_stmts labels S)).
  { intros labels Hl. apply Forall_forall. intros st Hst. apply (group_stmt_from labels S st) in Hst as (i & _ & Hk & E).
    unfold is_future_stmt. rewrite E. apply (key_nonfuture labels); assumption. }
  exists (group_stmts [(CFuture, 0)] S). unfold get_statements. destruct sep.
  - exists (group_stmts [(CPkg, 0)] S ++ group_stmts [(CFrom, 0)] S). split; [reflexivity|]. split; [exact Hf|].
    apply Forall_app; split; apply Hn; unfold nonfuture_labels; auto.
  - exists (group_stmts [(CPkg, 0); (CFrom, 1)] S). split; [reflexivity|]. split; [exact Hf|].
    apply Hn; unfold nonfuture_labels; auto.
Qed.

(* the printed text is the text of the __future__ statements followed by the text of all the others *)
Theorem future_first_in_block P S out : print_set P S = Some out ->
  exists col fut rest,
    get_statements (separate_from_imports P) S = fut ++ rest /\
    Forall is_future_stmt fut /\ Forall (fun st => ~ is_future_stmt st) rest /\
    out = concat (map (pp P col) fut) ++ concat (map (pp P col) rest).
Proof.
  intros Hp. destruct (print_set_shape P S out Hp) as (col & _ & ->).
  destruct (future_first (separate_from_imports P) S) as (fut & rest & E & Hf & Hr).
  exists col, fut, rest. repeat split; try assumption. rewrite E, map_app, concat_app. reflexivity.
Qed.

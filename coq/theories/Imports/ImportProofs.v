(* Proofs about Imports/Import.v: the order on strings / imports, insertion sort. *)
From Coq Require Import NArith List Bool Lia Sorted.
From Verif Require Import Base.Chars Base.StrX Base.StrXProofs Imports.Import.
Import ListNotations.

Lemma str_compare_refl a : str_compare a a = Eq.
Proof. induction a as [|x a IH]; simpl; [reflexivity|]. rewrite N.compare_refl. exact IH. Qed.

Lemma str_compare_eq : forall a b, str_compare a b = Eq -> a = b.
Proof.
  induction a as [|x a IH]; intros [|y b] H; cbn in H; try discriminate; [reflexivity|].
  destruct (N.compare x y) eqn:E; try discriminate. apply N.compare_eq in E. subst. f_equal. apply IH. exact H.
Qed.

Lemma str_compare_antisym : forall a b, str_compare b a = CompOpp (str_compare a b).
Proof.
  induction a as [|x a IH]; intros [|y b]; cbn; try reflexivity.
  rewrite (N.compare_antisym x y). destruct (N.compare x y); cbn; auto.
Qed.

Lemma str_compare_trans : forall a b c, str_compare a b = Lt -> str_compare b c = Lt -> str_compare a c = Lt.
Proof.
  induction a as [|x a IH]; intros [|y b] [|z c] H1 H2; cbn in *; try discriminate; try reflexivity.
  destruct (N.compare x y) eqn:E1; try discriminate.
  - apply N.compare_eq in E1. subst y. destruct (N.compare x z) eqn:E2; try discriminate; [|reflexivity].
    eapply IH; eassumption.
  - destruct (N.compare y z) eqn:E2; try discriminate.
    + apply N.compare_eq in E2. subst z. rewrite E1. reflexivity.
    + assert (E3 : N.compare x z = Lt).
      { apply N.compare_lt_iff. apply N.compare_lt_iff in E1. apply N.compare_lt_iff in E2. eapply N.lt_trans; eassumption. }
      rewrite E3. reflexivity.
Qed.

Lemma import_compare_eq i j : import_compare i j = Eq -> i = j.
Proof.
  destruct i as [f1 a1], j as [f2 a2]. unfold import_compare. cbn [fullname import_as].
  destruct (str_compare f1 f2) eqn:E; try discriminate. intros H.
  apply str_compare_eq in E. apply str_compare_eq in H. congruence.
Qed.

Lemma import_compare_refl i : import_compare i i = Eq.
Proof. unfold import_compare. rewrite !str_compare_refl. reflexivity. Qed.

Lemma import_compare_antisym i j : import_compare j i = CompOpp (import_compare i j).
Proof.
  unfold import_compare. rewrite (str_compare_antisym (fullname i) (fullname j)).
  destruct (str_compare (fullname i) (fullname j)); cbn; auto. apply str_compare_antisym.
Qed.

Lemma import_compare_trans i j k : import_compare i j = Lt -> import_compare j k = Lt -> import_compare i k = Lt.
Proof.
  unfold import_compare.
  destruct (str_compare (fullname i) (fullname j)) eqn:E1; try discriminate;
  destruct (str_compare (fullname j) (fullname k)) eqn:E2; try discriminate; intros H1 H2.
  - apply str_compare_eq in E1, E2. rewrite E1, E2, str_compare_refl. eapply str_compare_trans; eassumption.
  - apply str_compare_eq in E1. rewrite E1, E2. reflexivity.
  - apply str_compare_eq in E2. rewrite <- E2, E1. reflexivity.
  - rewrite (str_compare_trans _ _ _ E1 E2). reflexivity.
Qed.

(* ---------- insertion sort with removal of equal elements ---------- *)
Section Sort.
  Context {A : Type} (cmp : A -> A -> comparison).

  Lemma insert_u_in x y l : In x (insert_u cmp y l) -> x = y \/ In x l.
  Proof.
    induction l as [|z l IH]; cbn; [intuition|].
    destruct (cmp y z); cbn; intuition.
  Qed.

  Lemma sort_u_in x l : In x (sort_u cmp l) -> In x l.
  Proof.
    induction l as [|y l IH]; cbn; [auto|]. intros H. apply insert_u_in in H as [->|H]; auto.
  Qed.

  Lemma insert_u_nonempty y l : insert_u cmp y l <> [].
  Proof. destruct l as [|z l]; cbn; [discriminate|]. destruct (cmp y z); discriminate. Qed.

  Lemma sort_u_nonempty l : l <> [] -> sort_u cmp l <> [].
  Proof. destruct l as [|y l]; [congruence|]. intros _. cbn. apply insert_u_nonempty. Qed.

  Lemma sort_u_Forall (P : A -> Prop) l : Forall P l -> Forall P (sort_u cmp l).
  Proof. intros H. apply Forall_forall. intros x Hx. apply sort_u_in in Hx. rewrite Forall_forall in H. auto. Qed.

  (* with a strict order: the result is strictly sorted *)
  Hypothesis cmp_eq : forall x y, cmp x y = Eq -> x = y.
  Hypothesis cmp_refl : forall x, cmp x x = Eq.
  Hypothesis cmp_antisym : forall x y, cmp y x = CompOpp (cmp x y).
  Hypothesis cmp_trans : forall x y z, cmp x y = Lt -> cmp y z = Lt -> cmp x z = Lt.

  Definition lt (x y : A) : Prop := cmp x y = Lt.

  Lemma insert_u_sorted y l : StronglySorted lt l -> StronglySorted lt (insert_u cmp y l).
  Proof.
    induction 1 as [|z l Hs IH Hz]; cbn; [repeat constructor|].
    destruct (cmp y z) eqn:E.
    - constructor; assumption.
    - constructor; [constructor; assumption|]. constructor; [exact E|].
      eapply Forall_impl; [|exact Hz]. intros w Hw. eapply cmp_trans; eassumption.
    - constructor; [exact IH|]. apply Forall_forall. intros w Hw.
      apply insert_u_in in Hw as [->|Hw].
      + unfold lt. rewrite cmp_antisym, E. reflexivity.
      + rewrite Forall_forall in Hz. auto.
  Qed.

  Lemma sort_u_sorted l : StronglySorted lt (sort_u cmp l).
  Proof. induction l as [|y l IH]; cbn; [constructor|]. apply insert_u_sorted. exact IH. Qed.

  Lemma sorted_NoDup l : StronglySorted lt l -> NoDup l.
  Proof.
    induction 1 as [|z l Hs IH Hz]; constructor; [|exact IH].
    intros Hin. rewrite Forall_forall in Hz. specialize (Hz z Hin). unfold lt in Hz. rewrite cmp_refl in Hz. discriminate.
  Qed.

  Lemma insert_u_in_rev x y l : x = y \/ In x l -> In x (insert_u cmp y l).
  Proof.
    induction l as [|z l IH]; cbn; [intuition|].
    destruct (cmp y z) eqn:E; cbn.
    - intros [->|H]; [left; symmetry; apply cmp_eq; exact E|exact H].
    - intuition.
    - intros [->|[->|H]]; auto.
  Qed.

  Lemma sort_u_in_rev x l : In x l -> In x (sort_u cmp l).
  Proof.
    induction l as [|y l IH]; cbn; [auto|]. intros [->|H]; apply insert_u_in_rev; auto.
  Qed.

  (* a strictly sorted list is a fixed point, and two strictly sorted lists with the same elements are equal *)
  Lemma insert_u_head y l : StronglySorted lt (y :: l) -> insert_u cmp y l = y :: l.
  Proof.
    intros H. inversion H as [|? ? Hs Hy]; subst. destruct l as [|z l]; [reflexivity|].
    cbn. inversion Hy as [|? ? Hz _]; subst. unfold lt in Hz. rewrite Hz. reflexivity.
  Qed.

  Lemma sort_u_sorted_id l : StronglySorted lt l -> sort_u cmp l = l.
  Proof.
    induction 1 as [|z l Hs IH Hz]; [reflexivity|].
    change (sort_u cmp (z :: l)) with (insert_u cmp z (sort_u cmp l)). rewrite IH. apply insert_u_head. constructor; assumption.
  Qed.

  Lemma sorted_ext l1 : forall l2, StronglySorted lt l1 -> StronglySorted lt l2 ->
    (forall x, In x l1 <-> In x l2) -> l1 = l2.
  Proof.
    induction l1 as [|a l1 IH]; intros l2 H1 H2 Hiff.
    - destruct l2 as [|b l2]; [reflexivity|]. exfalso. apply (proj2 (Hiff b)). left. reflexivity.
    - destruct l2 as [|b l2]; [exfalso; apply (proj1 (Hiff a)); left; reflexivity|].
      inversion H1 as [|? ? Hs1 Ha]; subst. inversion H2 as [|? ? Hs2 Hb]; subst.
      rewrite Forall_forall in Ha, Hb.
      assert (Hab : a = b).
      { destruct (proj1 (Hiff a) (or_introl eq_refl)) as [E|Hin]; [auto|].
        destruct (proj2 (Hiff b) (or_introl eq_refl)) as [E|Hin2]; [auto|].
        specialize (Hb a Hin). specialize (Ha b Hin2). unfold lt in *.
        rewrite cmp_antisym, Ha in Hb. discriminate. }
      subst b. f_equal. apply IH; try assumption.
      intros x. split; intros Hx.
      + destruct (proj1 (Hiff x) (or_intror Hx)) as [E|]; [|assumption].
        subst x. specialize (Ha a Hx). unfold lt in Ha. rewrite cmp_refl in Ha. discriminate.
      + destruct (proj2 (Hiff x) (or_intror Hx)) as [E|]; [|assumption].
        subst x. specialize (Hb a Hx). unfold lt in Hb. rewrite cmp_refl in Hb. discriminate.
  Qed.
End Sort.

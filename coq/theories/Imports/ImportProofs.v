From Coq Require Import NArith List Bool Lia.
From Verif Require Import Base.Chars Base.StrX Base.StrXProofs Imports.Import.
Import ListNotations.

Lemma str_compare_refl a : str_compare a a = Eq.
Proof. induction a as [|x a IH]; simpl; [reflexivity|]. rewrite N.compare_refl. exact IH. Qed.

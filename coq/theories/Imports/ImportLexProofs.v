(* Proofs about the lexer/parser of Imports/ImportLex.v:
   - lex_render: a rendered item list lexes back to its token list (ported from the design spike Lex.v)
   - lexes_to: compositional packaging of that lemma
   - the parser reads the token list of a well-formed statement back *)
From Coq Require Import NArith List Bool Lia.
From Verif Require Import Base.Chars Base.StrX Base.StrXProofs Imports.Import Imports.ImportSet Imports.ImportLex.
Import ListNotations.

(* ---------- printer items ---------- *)
Inductive item := IName (s : str) | IDot | IComma | ILpar | IRpar | IStar
                | ISpaces (n : nat) | INewline | ICont (* backslash newline *).
Definition render1 (i : item) : str :=
  match i with
  | IName s => s | IDot => [c_dot] | IComma => [c_comma] | ILpar => [c_lpar] | IRpar => [c_rpar]
  | IStar => [c_star] | ISpaces n => repeat c_sp n | INewline => [c_nl] | ICont => [c_bslash; c_nl]
  end.
Definition render (l : list item) : str := concat (map render1 l).

Definition clean (s : lst) : Prop := cur s = [] /\ bs s = false /\ err s = false.
Definition wf_name (s : str) : Prop := s <> [] /\ forallb is_ident_char s = true.

(* abstract effect of one item on (depth, out) *)
Definition tok_of (d : nat) (i : item) : option (nat * list tok) :=
  match i with
  | IName s => Some (d, [TName s])
  | IDot => Some (d, [TDot]) | IComma => Some (d, [TComma]) | IStar => Some (d, [TStar])
  | ILpar => Some (S d, [TLpar])
  | IRpar => match d with O => None | S d' => Some (d', [TRpar]) end
  | ISpaces _ => Some (d, []) | ICont => Some (d, [])
  | INewline => Some (d, match d with O => [TNewline] | _ => [] end)
  end.

Fixpoint toks (d : nat) (l : list item) : option (nat * list tok) :=
  match l with
  | [] => Some (d, [])
  | i :: r => match tok_of d i with
              | None => None
              | Some (d', ts) => match toks d' r with
                                 | None => None
                                 | Some (d'', ts') => Some (d'', ts ++ ts')
                                 end
              end
  end.

Definition is_name (i : item) := match i with IName _ => true | _ => false end.
Fixpoint no_adjacent_names (l : list item) : bool :=
  match l with
  | i :: ((j :: _) as r) => negb (is_name i && is_name j) && no_adjacent_names r
  | _ => true
  end.

Lemma step_ident_run : forall (x : str) s, err s = false -> bs s = false ->
  forallb is_ident_char x = true ->
  lex_from s x = {| depth := depth s; cur := rev x ++ cur s; out := out s; bs := false; err := false |}.
Proof.
  induction x as [|c x IH]; intros s He Hb Hx; cbn [lex_from fold_left rev app].
  - destruct s; cbn in *; subst; reflexivity.
  - cbn [forallb] in Hx. apply andb_true_iff in Hx as [Hc Hx].
    unfold step at 2. rewrite He, Hb, Hc.
    fold (lex_from {| depth := depth s; cur := c :: cur s; out := out s; bs := false; err := false |} x).
    rewrite IH by (cbn; auto). cbn [depth cur out]. rewrite <- app_assoc. reflexivity.
Qed.

Lemma lex_from_app s x y : lex_from s (x ++ y) = lex_from (lex_from s x) y.
Proof. unfold lex_from. apply fold_left_app. Qed.

Definition ok (s : lst) : Prop := err s = false /\ bs s = false.

Lemma flush_ok s : ok s -> ok (flush s).
Proof. intros [? ?]; unfold ok, flush; destruct (cur s); cbn; auto. Qed.
Lemma flush_cur s : cur (flush s) = [].
Proof. unfold flush; destruct (cur s) eqn:E; cbn; auto. Qed.
Lemma flush_depth s : depth (flush s) = depth s.
Proof. unfold flush; destruct (cur s); reflexivity. Qed.
Lemma flush_idem s : flush (flush s) = flush s.
Proof. unfold flush at 1. rewrite flush_cur. reflexivity. Qed.

Lemma step_spaces n : forall s, ok s ->
  lex_from s (repeat c_sp n) = match n with O => s | _ => flush s end.
Proof.
  induction n as [|n IH]; intros s [He Hb]; [reflexivity|].
  cbn [repeat lex_from fold_left]. unfold step at 2. rewrite He, Hb.
  change (is_ident_char c_sp) with false. cbn iota.
  change ((c_sp =? c_sp)%N) with true. cbn iota.
  fold (lex_from (flush s) (repeat c_sp n)).
  rewrite IH by (apply flush_ok; split; auto).
  destruct n; [reflexivity| apply flush_idem].
Qed.

Definition mk d o : lst := {| depth := d; cur := []; out := o; bs := false; err := false |}.

Lemma flush_mk s : ok s -> flush s = mk (depth s) (out (flush s)).
Proof. intros [He Hb]. unfold flush, mk. destruct s as [d c o b e]; cbn in *; subst.
  destruct c; reflexivity. Qed.

Ltac one_char He Hb Hm :=
  cbn [lex_from fold_left]; unfold step; rewrite He, Hb; cbn -[flush]; rewrite Hm; cbn.

Lemma step_item i : forall s d' ts, ok s -> is_name i = false ->
  tok_of (depth s) i = Some (d', ts) ->
  flush (lex_from s (render1 i)) = mk d' (rev ts ++ out (flush s)).
Proof.
  intros s d' ts Hok Hn Ht. pose proof (flush_mk s Hok) as Hm.
  pose proof (flush_ok s Hok) as Hfok.
  destruct Hok as [He Hb].
  destruct i; try discriminate Hn; cbn [render1]; cbn in Ht.
  - one_char He Hb Hm. inversion Ht; subst. reflexivity.
  - one_char He Hb Hm. inversion Ht; subst. reflexivity.
  - one_char He Hb Hm. inversion Ht; subst. reflexivity.
  - one_char He Hb Hm. destruct (depth s); [discriminate|]. inversion Ht; subst. reflexivity.
  - one_char He Hb Hm. inversion Ht; subst. reflexivity.
  - rewrite step_spaces by (split; auto). inversion Ht; subst. cbn.
    destruct n; rewrite ?flush_idem; exact Hm.
  - one_char He Hb Hm. destruct (depth s); inversion Ht; subst; reflexivity.
  - cbn [lex_from fold_left]. unfold step at 2. rewrite He, Hb. cbn -[flush]. rewrite Hm. cbn.
    inversion Ht; subst. reflexivity.
Qed.

Definition item_wf (i : item) : Prop :=
  match i with IName s => wf_name s | ISpaces n => n <> 0 | _ => True end.

Definition head_not_name (l : list item) : Prop :=
  match l with i :: _ => is_name i = false | [] => True end.

Lemma step_item_clean i s : ok s -> is_name i = false -> item_wf i ->
  (forall d' ts, tok_of (depth s) i = Some (d', ts) -> cur (lex_from s (render1 i)) = []
     /\ ok (lex_from s (render1 i))).
Proof.
  intros Hok Hn Hwf d' ts Ht. pose proof (flush_cur s) as Hc. pose proof (flush_ok s Hok) as [Hfe Hfb].
  destruct Hok as [He Hb]. unfold ok.
  destruct i; try discriminate Hn; cbn [render1]; cbn in Ht.
  - cbn [lex_from fold_left]; unfold step; rewrite He, Hb; cbn -[flush]; auto.
  - cbn [lex_from fold_left]; unfold step; rewrite He, Hb; cbn -[flush]; auto.
  - cbn [lex_from fold_left]; unfold step; rewrite He, Hb; cbn -[flush]; auto.
  - cbn [lex_from fold_left]; unfold step; rewrite He, Hb; cbn -[flush].
    rewrite flush_depth. destruct (depth s); [discriminate|]. cbn; auto.
  - cbn [lex_from fold_left]; unfold step; rewrite He, Hb; cbn -[flush]; auto.
  - rewrite step_spaces by (split; auto). cbn in Hwf. destruct n; [congruence|].
    split; [apply flush_cur | split; auto].
  - cbn [lex_from fold_left]; unfold step; rewrite He, Hb; cbn -[flush].
    rewrite flush_depth. destruct (depth s); cbn -[flush]; auto.
  - cbn [lex_from fold_left]. unfold step. rewrite He, Hb. cbn -[flush]. auto.
Qed.

Lemma lex_items : forall l s d' ts, ok s ->
  (cur s = [] \/ head_not_name l) ->
  Forall item_wf l -> no_adjacent_names l = true ->
  toks (depth s) l = Some (d', ts) ->
  flush (lex_from s (render l)) = mk d' (rev ts ++ out (flush s)).
Proof.
  induction l as [|i r IH]; intros s d' ts Hok Hhd Hwf Hadj Ht.
  - cbn in *. inversion Ht; subst. apply flush_mk; auto.
  - unfold render in *. cbn [map concat]. rewrite lex_from_app.
    inversion Hwf as [|? ? Hwi Hwr]; subst.
    cbn [toks] in Ht. destruct (tok_of (depth s) i) as [[d1 t1]|] eqn:E1; [|discriminate].
    destruct (toks d1 r) as [[d2 t2]|] eqn:E2; [|discriminate]. inversion Ht; subst d' ts.
    destruct (is_name i) eqn:En.
    + destruct i; try discriminate En. cbn [render1]. cbn in E1. inversion E1; subst d1 t1.
      destruct Hhd as [Hc | Hh]; [|cbn in Hh; discriminate].
      cbn in Hwi. destruct Hwi as [Hne Hid]. destruct Hok as [He Hb].
      rewrite (step_ident_run s0 s He Hb Hid). rewrite Hc, app_nil_r.
      set (s1 := {| depth := depth s; cur := rev s0; out := out s; bs := false; err := false |}).
      assert (Hr : head_not_name r).
      { destruct r as [|j r']; cbn; auto. cbn in Hadj. apply andb_true_iff in Hadj as [Hx _].
        destruct (is_name j); [discriminate|reflexivity]. }
      assert (Hadj' : no_adjacent_names r = true).
      { destruct r as [|j r']; auto. cbn in Hadj. apply andb_true_iff in Hadj as [_ Hx]. exact Hx. }
      rewrite (IH s1 d2 t2); try assumption; [| split; reflexivity | right; exact Hr].
      f_equal. unfold flush at 1. subst s1. cbn [cur].
      destruct (rev s0) eqn:Er.
      { exfalso. apply Hne. rewrite <- (rev_involutive s0), Er. reflexivity. }
      cbn [out]. rewrite <- Er, rev_involutive. unfold flush. rewrite Hc.
      cbn [rev app]. rewrite <- app_assoc. reflexivity.
    + destruct (step_item_clean i s Hok En Hwi d1 t1 E1) as [Hc1 Hok1].
      pose proof (step_item i s d1 t1 Hok En E1) as Hs.
      assert (Hfl : flush (lex_from s (render1 i)) = lex_from s (render1 i)).
      { unfold flush. rewrite Hc1. reflexivity. }
      rewrite Hfl in Hs.
      assert (Hadj' : no_adjacent_names r = true).
      { destruct r as [|j r']; auto. cbn in Hadj. apply andb_true_iff in Hadj as [_ Hx]. exact Hx. }
      rewrite (IH (lex_from s (render1 i)) d2 t2); try assumption.
      * rewrite Hfl, Hs. cbn [out mk]. rewrite rev_app_distr, <- app_assoc. reflexivity.
      * left; exact Hc1.
      * rewrite Hs. exact E2.
Qed.

Theorem lex_render : forall l ts, Forall item_wf l -> no_adjacent_names l = true ->
  toks 0 l = Some (0, ts) -> lex (render l) = Some ts.
Proof.
  intros l ts Hwf Hadj Ht. unfold lex, lex_finish.
  rewrite (lex_items l lex_init 0 ts); try assumption; try (split; reflexivity); try (left; reflexivity).
  cbn. rewrite app_nil_r, rev_involutive. reflexivity.
Qed.

(* ---------- compositional lemmas over item lists ---------- *)
Lemma render_app l1 l2 : render (l1 ++ l2) = render l1 ++ render l2.
Proof. unfold render. rewrite map_app, concat_app. reflexivity. Qed.

Lemma render_cons i l : render (i :: l) = render1 i ++ render l.
Proof. reflexivity. Qed.

Lemma toks_app : forall l1 l2 d d1 t1 d2 t2,
  toks d l1 = Some (d1, t1) -> toks d1 l2 = Some (d2, t2) -> toks d (l1 ++ l2) = Some (d2, t1 ++ t2).
Proof.
  induction l1 as [|i l1 IH]; intros l2 d d1 t1 d2 t2 H1 H2; cbn [toks app] in *.
  - inversion H1; subst. exact H2.
  - destruct (tok_of d i) as [[d' ts]|]; [|discriminate].
    destruct (toks d' l1) as [[d'' ts']|] eqn:E; [|discriminate]. inversion H1; subst.
    rewrite (IH l2 d' d1 ts' d2 t2 E H2). rewrite app_assoc. reflexivity.
Qed.

Lemma no_adj_tail i l : no_adjacent_names (i :: l) = true -> no_adjacent_names l = true.
Proof. destruct l as [|j r]; [reflexivity|]. cbn. intros H. apply andb_true_iff in H as [_ H]. exact H. Qed.

Lemma no_adj_cons2 a b l :
  no_adjacent_names (a :: b :: l) = negb (is_name a && is_name b) && no_adjacent_names (b :: l).
Proof. reflexivity. Qed.

(* two lists glued over a non-name item *)
Lemma no_adj_app_sep : forall l1 i l2, is_name i = false ->
  no_adjacent_names l1 = true -> no_adjacent_names l2 = true -> no_adjacent_names (l1 ++ i :: l2) = true.
Proof.
  induction l1 as [|a l1 IH]; intros i l2 Hi H1 H2.
  - cbn [app]. destruct l2 as [|j r]; [reflexivity|].
    rewrite no_adj_cons2, Hi. cbn [andb negb]. exact H2.
  - destruct l1 as [|b l1].
    + cbn [app]. rewrite no_adj_cons2, Hi, andb_false_r. cbn [negb andb].
      apply (IH i l2 Hi eq_refl H2).
    + change ((a :: b :: l1) ++ i :: l2) with (a :: b :: (l1 ++ i :: l2)).
      rewrite no_adj_cons2 in *. apply andb_true_iff in H1 as [Hab H1].
      rewrite Hab. cbn [andb]. apply (IH i l2 Hi H1 H2).
Qed.

Lemma no_adj_cons_nonname i l : is_name i = false -> no_adjacent_names l = true -> no_adjacent_names (i :: l) = true.
Proof. intros Hi Hl. apply (no_adj_app_sep [] i l Hi eq_refl Hl). Qed.

Lemma no_adj_name_cons s l : head_not_name l -> no_adjacent_names l = true -> no_adjacent_names (IName s :: l) = true.
Proof.
  intros Hh Hl. destruct l as [|j r]; [reflexivity|]. cbn in Hh. rewrite no_adj_cons2.
  rewrite Hh, andb_false_r. cbn. exact Hl.
Qed.

(* ---------- packaging: a text that is the rendering of a lexable item list ending a logical line ---------- *)
Definition lexes_to (x : str) (ts : list tok) : Prop :=
  exists l, x = render l /\ Forall item_wf l /\ no_adjacent_names l = true /\ toks 0 l = Some (0, ts)
            /\ (l = [] \/ exists l', l = l' ++ [INewline]).

Lemma lexes_to_lex x ts : lexes_to x ts -> lex x = Some ts.
Proof. intros (l & -> & Hwf & Hadj & Ht & _). apply lex_render; assumption. Qed.

Lemma lexes_to_nil : lexes_to [] [].
Proof. exists []. repeat split; auto. Qed.

Lemma lexes_to_app x1 t1 x2 t2 : lexes_to x1 t1 -> lexes_to x2 t2 -> lexes_to (x1 ++ x2) (t1 ++ t2).
Proof.
  intros (l1 & -> & Hwf1 & Hadj1 & Ht1 & He1) (l2 & -> & Hwf2 & Hadj2 & Ht2 & He2).
  exists (l1 ++ l2). split; [symmetry; apply render_app|].
  split; [apply Forall_app; split; assumption|].
  split.
  - destruct He1 as [-> | [l' ->]]; [exact Hadj2|].
    rewrite <- app_assoc. cbn [app]. apply no_adj_app_sep; [reflexivity| |exact Hadj2].
    clear - Hadj1. induction l' as [|a l' IH]; [reflexivity|].
    destruct l' as [|b l']; [reflexivity|].
    change ((a :: b :: l') ++ [INewline]) with (a :: b :: (l' ++ [INewline])) in Hadj1.
    rewrite no_adj_cons2 in *. apply andb_true_iff in Hadj1 as [H1 H2]. rewrite H1. cbn [andb]. apply IH. exact H2.
  - split; [apply (toks_app l1 l2 0 0 t1 0 t2 Ht1 Ht2)|].
    destruct He2 as [-> | [l' ->]].
    + rewrite app_nil_r. exact He1.
    + right. exists (l1 ++ l'). rewrite app_assoc. reflexivity.
Qed.

Lemma lexes_to_concat : forall (xs : list str) (tss : list (list tok)),
  Forall2 lexes_to xs tss -> lexes_to (concat xs) (concat tss).
Proof.
  induction 1 as [|x ts xs tss H1 H IH]; cbn [concat]; [apply lexes_to_nil|].
  apply lexes_to_app; assumption.
Qed.

(* ================= the parser reads well-formed statements back ================= *)

(* structured statements: the domain of the round-trip theorems *)
Definition salias := (list str * option str)%type.        (* components of a dotted name, alias *)
Inductive sstmt :=
| SImport (al : list salias)                                (* import a.b, c as d *)
| SFromStar (lvl : nat) (md : list str)                     (* from ..m import *   *)
| SFrom (lvl : nat) (md : list str) (al : list alias).      (* from ..m import a, b as c *)

Definition modname (lvl : nat) (md : list str) : str := repeat c_dot lvl ++ join_with c_dot md.
Definition to_stmt (ss : sstmt) : stmt :=
  match ss with
  | SImport al => (None, map (fun a : salias => (join_with c_dot (fst a), snd a)) al)
  | SFromStar lvl md => (Some (modname lvl md), [(s_star, None)])
  | SFrom lvl md al => (Some (modname lvl md), al)
  end.

Definition wf_ident (n : str) : Prop := valid_ident n = true.
Definition wf_as (o : option str) : Prop := match o with None => True | Some x => wf_ident x end.
Definition wf_salias (a : salias) : Prop := fst a <> [] /\ Forall wf_ident (fst a) /\ wf_as (snd a).
Definition wf_alias (a : alias) : Prop := wf_ident (fst a) /\ wf_as (snd a).
Definition wf_mod (lvl : nat) (md : list str) : Prop := Forall wf_ident md /\ (lvl <> 0 \/ md <> []).
Definition wf_sstmt (ss : sstmt) : Prop :=
  match ss with
  | SImport al => al <> [] /\ Forall wf_salias al
  | SFromStar lvl md => wf_mod lvl md
  | SFrom lvl md al => wf_mod lvl md /\ al <> [] /\ Forall wf_alias al
  end.

Definition wf_stmt (st : stmt) : Prop := exists ss, wf_sstmt ss /\ st = to_stmt ss.

Fixpoint dotted_toks (comps : list str) : list tok :=
  match comps with
  | [] => []
  | [c] => [TName c]
  | c :: r => TName c :: TDot :: dotted_toks r
  end.
Definition as_toks (o : option str) : list tok := match o with None => [] | Some x => [TName s_as; TName x] end.
Fixpoint tjoin (sep : tok) (l : list (list tok)) : list tok :=
  match l with
  | [] => []
  | [x] => x
  | x :: r => x ++ sep :: tjoin sep r
  end.
Definition salias_toks (a : salias) : list tok := dotted_toks (fst a) ++ as_toks (snd a).
Definition alias_toks (a : alias) : list tok := TName (fst a) :: as_toks (snd a).
Definition stmt_toks (paren : bool) (ss : sstmt) : list tok :=
  match ss with
  | SImport al => TName s_import :: tjoin TComma (map salias_toks al)
  | SFromStar lvl md => TName s_from :: repeat TDot lvl ++ dotted_toks md ++ [TName s_import; TStar]
  | SFrom lvl md al =>
      let body := tjoin TComma (map alias_toks al) in
      TName s_from :: repeat TDot lvl ++ dotted_toks md ++
        TName s_import :: (if paren then TLpar :: body ++ [TRpar] else body)
  end.

(* ---- tsplit / tjoin ---- *)
Lemma tok_eqb_refl t : tok_eqb t t = true.
Proof. destruct t; cbn; auto. apply str_eqb_refl. Qed.

Lemma tok_eqb_eq a b : tok_eqb a b = true -> a = b.
Proof. destruct a, b; cbn; intros H; try discriminate; auto. apply str_eqb_eq in H. congruence. Qed.

Definition no_tok (sep : tok) (l : list tok) : Prop := Forall (fun t => tok_eqb t sep = false) l.

Lemma tsplit_nonempty sep l : tsplit sep l <> [].
Proof.
  induction l as [|t r IH]; cbn; [discriminate|].
  destruct (tok_eqb t sep); [discriminate|]. destruct (tsplit sep r); discriminate.
Qed.

Lemma tsplit_app_sep sep a r : tsplit sep (a ++ sep :: r) = tsplit sep a ++ tsplit sep r.
Proof.
  induction a as [|t a IH]; cbn [app tsplit].
  - rewrite tok_eqb_refl. reflexivity.
  - destruct (tok_eqb t sep); rewrite IH.
    + reflexivity.
    + pose proof (tsplit_nonempty sep a) as Hne.
      destruct (tsplit sep a) as [|h q]; [congruence|]. reflexivity.
Qed.

Lemma tsplit_word sep w : no_tok sep w -> tsplit sep w = [w].
Proof. induction 1 as [|t w Ht Hw IH]; cbn [tsplit]; [reflexivity|]. rewrite Ht, IH. reflexivity. Qed.

Lemma tsplit_tjoin sep l : l <> [] -> Forall (no_tok sep) l -> tsplit sep (tjoin sep l) = l.
Proof.
  intros Hne Hall. induction l as [|x l IH]; [congruence|].
  inversion Hall as [|? ? Hx Hl]; subst.
  destruct l as [|y l].
  - cbn [tjoin]. apply tsplit_word. exact Hx.
  - change (tjoin sep (x :: y :: l)) with (x ++ sep :: tjoin sep (y :: l)).
    rewrite tsplit_app_sep, IH by (discriminate || assumption).
    rewrite tsplit_word by exact Hx. reflexivity.
Qed.

Lemma Forall_tjoin (P : tok -> Prop) sep l : P sep -> Forall (Forall P) l -> Forall P (tjoin sep l).
Proof.
  intros Hs H. induction H as [|x l Hx Hl IH]; [constructor|].
  destruct l as [|y l]; [exact Hx|].
  change (tjoin sep (x :: y :: l)) with (x ++ sep :: tjoin sep (y :: l)).
  apply Forall_app; split; [exact Hx|]. constructor; [exact Hs|exact IH].
Qed.

Lemma Forall_dotted_toks (P : tok -> Prop) comps : P TDot -> (forall c, P (TName c)) -> Forall P (dotted_toks comps).
Proof.
  intros Hd Hn. induction comps as [|c r IH]; [constructor|].
  destruct r as [|c2 r]; [repeat constructor; apply Hn|].
  change (dotted_toks (c :: c2 :: r)) with (TName c :: TDot :: dotted_toks (c2 :: r)).
  repeat constructor; auto.
Qed.

Lemma Forall_as_toks (P : tok -> Prop) o : (forall c, P (TName c)) -> Forall P (as_toks o).
Proof. intros Hn. destruct o; cbn; repeat constructor; auto. Qed.

(* ---- identifiers ---- *)
Lemma valid_ident_chars n : valid_ident n = true -> forallb is_ident_char n = true.
Proof.
  unfold valid_ident. destruct n as [|c r]; [discriminate|]. intros H.
  apply andb_true_iff in H as [H _]. apply andb_true_iff in H as [_ H]. exact H.
Qed.

Lemma valid_ident_nonempty n : valid_ident n = true -> n <> [].
Proof. destruct n; [discriminate|discriminate]. Qed.

Lemma valid_ident_not_kw n : valid_ident n = true -> is_keyword n = false.
Proof.
  unfold valid_ident. destruct n as [|c r]; [discriminate|]. intros H.
  apply andb_true_iff in H as [_ H]. apply negb_true_iff in H. exact H.
Qed.

Lemma valid_ident_not_import n : valid_ident n = true -> str_eqb n s_import = false.
Proof.
  intros H. destruct (str_eqb n s_import) eqn:E; [|reflexivity].
  apply str_eqb_eq in E. subst n. vm_compute in H. discriminate.
Qed.

Lemma ident_char_not_dot d : is_ident_char d = true -> (c_dot =? d)%N = false.
Proof.
  intros H. destruct (N.eqb_spec c_dot d) as [<-|]; [|reflexivity]. vm_compute in H. discriminate.
Qed.

Lemma valid_ident_no_dot n : valid_ident n = true -> mem_ch c_dot n = false.
Proof.
  intros H. apply valid_ident_chars in H. unfold mem_ch.
  induction n as [|d r IH]; [reflexivity|]. cbn [forallb existsb] in *.
  apply andb_true_iff in H as [Hd Hr]. rewrite (ident_char_not_dot d Hd), (IH Hr). reflexivity.
Qed.

Lemma wf_ident_wf_name n : wf_ident n -> wf_name n.
Proof. intros H. split; [apply valid_ident_nonempty; exact H|apply valid_ident_chars; exact H]. Qed.

(* ---- parse_dotted ---- *)
Definition not_dot_head (rest : list tok) : Prop := match rest with TDot :: _ => False | _ => True end.

Lemma parse_dotted_ok : forall comps rest, comps <> [] -> Forall wf_ident comps -> not_dot_head rest ->
  parse_dotted (dotted_toks comps ++ rest) = Some (join_with c_dot comps, rest).
Proof.
  induction comps as [|c cs IH]; intros rest Hne Hwf Hrest; [congruence|].
  inversion Hwf as [|? ? Hc Hcs]; subst. unfold wf_ident in Hc.
  destruct cs as [|c2 cs].
  - cbn [dotted_toks app join_with]. cbn [parse_dotted]. rewrite Hc.
    destruct rest as [|t rest]; [reflexivity|]. destruct t; try reflexivity. destruct Hrest.
  - change (dotted_toks (c :: c2 :: cs) ++ rest) with (TName c :: TDot :: (dotted_toks (c2 :: cs) ++ rest)).
    cbn [parse_dotted]. rewrite Hc. rewrite (IH rest) by (discriminate || assumption). reflexivity.
Qed.

(* ---- aliases ---- *)
Lemma all_some_map {A B} (f : A -> option B) (g : A -> B) l :
  Forall (fun x => f x = Some (g x)) l -> all_some (map f l) = Some (map g l).
Proof. induction 1 as [|x l Hx Hl IH]; cbn; [reflexivity|]. rewrite Hx, IH. reflexivity. Qed.

Lemma parse_salias_ok a : wf_salias a ->
  parse_alias true (salias_toks a) = Some (join_with c_dot (fst a), snd a).
Proof.
  intros (Hne & Hc & Ha). unfold parse_alias, salias_toks.
  rewrite parse_dotted_ok; try assumption.
  - cbn [orb]. destruct (snd a) as [x|]; cbn [as_toks]; [|reflexivity].
    cbn in Ha. unfold wf_ident in Ha. rewrite Ha. reflexivity.
  - destruct (snd a); cbn; exact I.
Qed.

Lemma parse_alias_ok a : wf_alias a -> parse_alias false (alias_toks a) = Some a.
Proof.
  intros (Hn & Ha). unfold parse_alias, alias_toks. unfold wf_ident in Hn.
  cbn [parse_dotted]. rewrite Hn.
  destruct a as [n o]. cbn [fst snd] in *.
  destruct o as [x|]; cbn [as_toks].
  - cbn in Ha. unfold wf_ident in Ha. rewrite (valid_ident_no_dot n Hn), Ha. reflexivity.
  - rewrite (valid_ident_no_dot n Hn). reflexivity.
Qed.

Lemma no_comma_dotted comps : no_tok TComma (dotted_toks comps).
Proof. apply Forall_dotted_toks; reflexivity. Qed.
Lemma no_comma_salias a : no_tok TComma (salias_toks a).
Proof. apply Forall_app; split; [apply no_comma_dotted|apply Forall_as_toks; reflexivity]. Qed.
Lemma no_comma_alias a : no_tok TComma (alias_toks a).
Proof. constructor; [reflexivity|apply Forall_as_toks; reflexivity]. Qed.

Lemma parse_saliases_ok al : al <> [] -> Forall wf_salias al ->
  parse_aliases true (tsplit TComma (tjoin TComma (map salias_toks al))) =
  Some (map (fun a : salias => (join_with c_dot (fst a), snd a)) al).
Proof.
  intros Hne Hwf. rewrite tsplit_tjoin.
  - unfold parse_aliases. rewrite map_map. apply all_some_map.
    eapply Forall_impl; [|exact Hwf]. intros a Ha. apply parse_salias_ok. exact Ha.
  - destruct al; [congruence|discriminate].
  - apply Forall_forall. intros x Hx. apply in_map_iff in Hx as (a & <- & _). apply no_comma_salias.
Qed.

Lemma parse_aliases_ok al : al <> [] -> Forall wf_alias al ->
  parse_aliases false (tsplit TComma (tjoin TComma (map alias_toks al))) = Some al.
Proof.
  intros Hne Hwf. rewrite tsplit_tjoin.
  - unfold parse_aliases. rewrite map_map. rewrite <- (map_id al) at 2. apply all_some_map.
    eapply Forall_impl; [|exact Hwf]. intros a Ha. apply parse_alias_ok. exact Ha.
  - destruct al; [congruence|discriminate].
  - apply Forall_forall. intros x Hx. apply in_map_iff in Hx as (a & <- & _). apply no_comma_alias.
Qed.

(* ---- the `from` head ---- *)
Lemma break_import_ok : forall pre after, Forall (fun t => tok_eqb t (TName s_import) = false) pre ->
  break_import (pre ++ TName s_import :: after) = Some (pre, after).
Proof.
  induction pre as [|t pre IH]; intros after H; cbn [app break_import].
  - rewrite tok_eqb_refl. reflexivity.
  - inversion H as [|? ? Ht Hp]; subst. rewrite Ht, (IH after Hp). reflexivity.
Qed.

Lemma count_dots_ok : forall lvl rest, not_dot_head rest -> count_dots (repeat TDot lvl ++ rest) = (lvl, rest).
Proof.
  induction lvl as [|n IH]; intros rest H; cbn [repeat app].
  - destruct rest as [|t r]; [reflexivity|]. destruct t; try reflexivity. destruct H.
  - cbn [count_dots]. rewrite (IH rest H). reflexivity.
Qed.

Lemma not_dot_head_dotted comps : Forall wf_ident comps -> not_dot_head (dotted_toks comps).
Proof. destruct comps as [|c [|c2 r]]; cbn; auto. Qed.

Lemma no_import_head lvl md : Forall wf_ident md ->
  Forall (fun t => tok_eqb t (TName s_import) = false) (repeat TDot lvl ++ dotted_toks md).
Proof.
  intros Hwf. apply Forall_app; split.
  - apply Forall_forall. intros t Ht. apply repeat_spec in Ht. subst. reflexivity.
  - induction Hwf as [|c r Hc Hr IH]; [constructor|].
    destruct r as [|c2 r].
    + repeat constructor. cbn. apply valid_ident_not_import. exact Hc.
    + change (dotted_toks (c :: c2 :: r)) with (TName c :: TDot :: dotted_toks (c2 :: r)).
      constructor; [cbn; apply valid_ident_not_import; exact Hc|]. constructor; [reflexivity|exact IH].
Qed.

Lemma from_head_ok lvl md after : wf_mod lvl md ->
  parse_stmt (TName s_from :: repeat TDot lvl ++ dotted_toks md ++ TName s_import :: after) =
  match parse_targets after with
  | Some al => Some (Some (modname lvl md), al)
  | None => None
  end.
Proof.
  intros [Hwf Hnz]. cbn [parse_stmt].
  change (str_eqb s_from s_import) with false. change (str_eqb s_from s_from) with true. cbn iota.
  rewrite app_assoc. rewrite break_import_ok by (apply no_import_head; exact Hwf).
  rewrite count_dots_ok by (apply not_dot_head_dotted; exact Hwf). cbn [fst snd].
  destruct md as [|c md].
  - cbn [dotted_toks]. destruct lvl as [|lvl]; [destruct Hnz; congruence|].
    unfold modname. cbn [join_with]. destruct (parse_targets after); reflexivity.
  - assert (Hd : dotted_toks (c :: md) <> []) by (destruct md; discriminate).
    destruct (dotted_toks (c :: md)) as [|t q] eqn:E; [congruence|]. rewrite <- E.
    rewrite <- (app_nil_r (dotted_toks (c :: md))).
    rewrite parse_dotted_ok by (discriminate || assumption || exact I).
    unfold modname. destruct (parse_targets after); reflexivity.
Qed.

Lemma tjoin_alias_head al : al <> [] -> exists n r, tjoin TComma (map alias_toks al) = TName n :: r.
Proof.
  destruct al as [|a al]; [congruence|]. intros _.
  destruct al as [|b al].
  - exists (fst a), (as_toks (snd a)). reflexivity.
  - exists (fst a), (as_toks (snd a) ++ TComma :: tjoin TComma (map alias_toks (b :: al))). reflexivity.
Qed.

Lemma parse_targets_plain al : al <> [] -> Forall wf_alias al ->
  parse_targets (tjoin TComma (map alias_toks al)) = Some al.
Proof.
  intros Hne Hwf. destruct (tjoin_alias_head al Hne) as (n & r & E).
  unfold parse_targets. rewrite <- (parse_aliases_ok al Hne Hwf). rewrite E. reflexivity.
Qed.

Lemma in_rev_nil_absurd (pieces : list (list tok)) q :
  Forall (fun p => p <> []) pieces -> rev pieces = [] :: q -> False.
Proof.
  intros H E. assert (Hin : In [] pieces) by (apply in_rev; rewrite E; left; reflexivity).
  rewrite Forall_forall in H. apply (H [] Hin). reflexivity.
Qed.

Lemma parse_targets_paren al : al <> [] -> Forall wf_alias al ->
  parse_targets (TLpar :: tjoin TComma (map alias_toks al) ++ [TRpar]) = Some al.
Proof.
  intros Hne Hwf. unfold parse_targets.
  rewrite rev_app_distr. cbn [rev app]. rewrite rev_involutive.
  pose proof (parse_aliases_ok al Hne Hwf) as Hp.
  assert (Hs : tsplit TComma (tjoin TComma (map alias_toks al)) = map alias_toks al).
  { apply tsplit_tjoin; [destruct al; [congruence|discriminate]|].
    apply Forall_forall. intros x Hx. apply in_map_iff in Hx as (a & <- & _). apply no_comma_alias. }
  rewrite Hs in *.
  destruct (rev (map alias_toks al)) as [|[|t p] q] eqn:E; try exact Hp.
  exfalso. eapply in_rev_nil_absurd; [|exact E].
  apply Forall_forall. intros x Hx. apply in_map_iff in Hx as (a & <- & _). discriminate.
Qed.

(* ---- one statement ---- *)
Theorem parse_stmt_ok paren ss : wf_sstmt ss -> parse_stmt (stmt_toks paren ss) = Some (to_stmt ss).
Proof.
  destruct ss as [al|lvl md|lvl md al]; cbn [wf_sstmt stmt_toks to_stmt].
  - intros [Hne Hwf]. cbn [parse_stmt]. change (str_eqb s_import s_import) with true. cbn iota.
    rewrite parse_saliases_ok by assumption. reflexivity.
  - intros Hm. change [TName s_import; TStar] with (TName s_import :: [TStar]).
    rewrite from_head_ok by exact Hm. reflexivity.
  - intros (Hm & Hne & Hwf). rewrite from_head_ok by exact Hm.
    destruct paren.
    + rewrite parse_targets_paren by assumption. reflexivity.
    + rewrite parse_targets_plain by assumption. reflexivity.
Qed.

(* ---- a block of statements ---- *)
Lemma stmt_toks_no_nl paren ss : no_tok TNewline (stmt_toks paren ss).
Proof.
  assert (Hd : forall comps, no_tok TNewline (dotted_toks comps)) by (intros; apply Forall_dotted_toks; reflexivity).
  assert (Ha : forall o, no_tok TNewline (as_toks o)) by (intros; apply Forall_as_toks; reflexivity).
  assert (Hr : forall n, no_tok TNewline (repeat TDot n)).
  { intros n. apply Forall_forall. intros t Ht. apply repeat_spec in Ht. subst. reflexivity. }
  destruct ss as [al|lvl md|lvl md al]; cbn [stmt_toks].
  - constructor; [reflexivity|]. apply Forall_tjoin; [reflexivity|].
    apply Forall_forall. intros x Hx. apply in_map_iff in Hx as (a & <- & _).
    apply Forall_app; split; [apply Hd|apply Ha].
  - constructor; [reflexivity|]. apply Forall_app; split; [apply Hr|].
    apply Forall_app; split; [apply Hd|]. repeat constructor.
  - constructor; [reflexivity|]. apply Forall_app; split; [apply Hr|].
    apply Forall_app; split; [apply Hd|]. constructor; [reflexivity|].
    assert (Hb : no_tok TNewline (tjoin TComma (map alias_toks al))).
    { apply Forall_tjoin; [reflexivity|]. apply Forall_forall. intros x Hx.
      apply in_map_iff in Hx as (a & <- & _). constructor; [reflexivity|apply Ha]. }
    destruct paren; [|exact Hb]. constructor; [reflexivity|].
    apply Forall_app; split; [exact Hb|repeat constructor].
Qed.

Lemma stmt_toks_nonempty paren ss : stmt_toks paren ss <> [].
Proof. destruct ss; discriminate. Qed.

(* token list of a printed block: every statement followed by NEWLINE *)
Definition block_toks (l : list (bool * sstmt)) : list tok :=
  concat (map (fun ps => stmt_toks (fst ps) (snd ps) ++ [TNewline]) l).

Lemma tsplit_block : forall l,
  tsplit TNewline (block_toks l) = map (fun ps => stmt_toks (fst ps) (snd ps)) l ++ [[]].
Proof.
  induction l as [|ps l IH]; [reflexivity|].
  unfold block_toks in *. cbn [map concat]. rewrite <- app_assoc. cbn [app].
  rewrite tsplit_app_sep, IH. rewrite tsplit_word by apply stmt_toks_no_nl. reflexivity.
Qed.

Theorem parse_block_ok : forall l, Forall (fun ps => wf_sstmt (snd ps)) l ->
  parse_lines (tsplit TNewline (block_toks l)) = Some (map (fun ps => to_stmt (snd ps)) l).
Proof.
  intros l Hwf. rewrite tsplit_block. unfold parse_lines.
  rewrite filter_app. cbn [filter app]. rewrite app_nil_r.
  assert (Hf : forall l0 : list (bool * sstmt),
     filter (fun l1 : list tok => match l1 with [] => false | _ :: _ => true end)
            (map (fun ps => stmt_toks (fst ps) (snd ps)) l0) = map (fun ps => stmt_toks (fst ps) (snd ps)) l0).
  { induction l0 as [|ps l0 IH0]; [reflexivity|]. cbn [map filter].
    pose proof (stmt_toks_nonempty (fst ps) (snd ps)) as Hn.
    destruct (stmt_toks (fst ps) (snd ps)); [congruence|]. rewrite IH0. reflexivity. }
  rewrite Hf, map_map. apply all_some_map.
  eapply Forall_impl; [|exact Hwf]. intros ps Hps. apply parse_stmt_ok. exact Hps.
Qed.

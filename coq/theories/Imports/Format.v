(* M4: pyflyby._format.fill / pyfill, ImportStatement.pretty_print, ImportSet.pretty_print
   (black mode out of scope).  Byte-exact; model only, proofs are in FormatProofs.v.

   print_statement models the REPAIRED ImportStatement.pretty_print (fixes/F02-F25-*.diff): a plain
   `import ...` and a `from m import *` are emitted on one line and never go through pyfill. *)
From Coq Require Import NArith List Bool Arith.
From Verif Require Import Base.Chars Base.StrX Imports.Import Imports.ImportSet.
Import ListNotations.

Inductive hang := Never | Auto | Always.
Inductive align := AlignBool (b : bool) | AlignCol (c : nat) | AlignCols (cs : list nat).
Record params := mkParams {
  max_line_length : option nat;          (* None = not set *)
  indent : nat;
  hanging : hang;
  align_imports : align;
  from_spaces : nat;
  separate_from_imports : bool;
  align_future : bool }.

Definition spaces (n : nat) : str := repeat c_sp n.
Definition comma_sp : str := [c_comma; c_sp].

(*  N = params.max_line_length or params._max_line_lenght_default      (None and 0 give 79)  *)
Definition width_of (P : params) : nat :=
  match max_line_length P with Some (S n) => S n | _ => 79 end.

(* ", ".join(tokens) *)
Fixpoint join_str (sep : str) (l : list str) : str :=
  match l with
  | [] => []
  | [x] => x
  | x :: r => x ++ sep ++ join_str sep r
  end.

(* fill(tokens, max_line_length=N, prefix=(first_prefix, cont_prefix), suffix=("", ")")) with the default
   sep=(", ", "") and newline="\n" — the only way pyfill calls it:
     lines = [first_prefix + tokens[0]]
     for token, is_last in zip(tokens[1:], [False]*(len(tokens)-2) + [True]):
         suffix = term_suffix if is_last else nonterm_suffix          # ")" / ""
         sep = (term_sep if is_last else nonterm_sep).rstrip()        # ""  / ","
         if len(lines[-1] + nonterm_sep + token + sep + suffix) <= N:
             lines[-1] += nonterm_sep + token
         else:
             lines[-1] += nonterm_sep.rstrip() + nonterm_suffix + newline
             lines.append(cont_prefix + token)
     lines[-1] += term_sep.rstrip() + term_suffix + newline
     return ''.join(lines)
   `cur` is lines[-1]; the finished lines are emitted in front. *)
Fixpoint fill_go (N : nat) (cont_prefix : str) (cur : str) (rest : list str) : str :=
  match rest with
  | [] => cur ++ [c_rpar; c_nl]
  | tok :: rest' =>
      let is_last := match rest' with [] => true | _ :: _ => false end in
      let suffix := if is_last then [c_rpar] else [] in
      let sep := if is_last then [] else [c_comma] in
      if (length (cur ++ comma_sp ++ tok ++ sep ++ suffix) <=? N)%nat
      then fill_go N cont_prefix (cur ++ comma_sp ++ tok) rest'
      else cur ++ [c_comma; c_nl] ++ fill_go N cont_prefix (cont_prefix ++ tok) rest'
  end.
(* assert len(tokens) > 0 : the empty token list is outside the domain (never produced by a statement) *)
Definition fill (N : nat) (first_prefix cont_prefix : str) (tokens : list str) : str :=
  match tokens with
  | [] => []
  | t :: r => fill_go N cont_prefix (first_prefix ++ t) r
  end.

Definition sum_len (l : list str) : nat := fold_right (fun t a => length t + a)%nat 0%nat l.
Definition max_len (l : list str) : nat := fold_right (fun t a => Nat.max (length t) a) 0%nat l.

(*  len_full = sum(len(tok) for tok in tokens) + 2 * (len(tokens)-1)
    if len(prefix) + len_full <= N: return prefix + ", ".join(tokens) + "\n"
    hanging_indent: never -> False, always -> True, auto -> len(prefix) + maxtoklen + 2 > N
    hanging:     prefix + "(\n" + fill(tokens, N, prefix=" " * indent, suffix=("", ")"))
    non-hanging: pprefix = prefix + "(";  fill(tokens, N, prefix=(pprefix, " " * len(pprefix)), suffix=("", ")"))  *)
Definition pyfill (prefix : str) (tokens : list str) (P : params) : str :=
  let N := width_of P in
  let len_full := (sum_len tokens + 2 * (length tokens - 1))%nat in
  if (length prefix + len_full <=? N)%nat then prefix ++ join_str comma_sp tokens ++ [c_nl]
  else
    let hi := match hanging P with
              | Never => false
              | Always => true
              | Auto => (N <? length prefix + max_len tokens + 2)%nat
              end in
    if hi then prefix ++ [c_lpar; c_nl] ++ fill N (spaces (indent P)) (spaces (indent P)) tokens
    else let pprefix := prefix ++ [c_lpar] in
         fill N pprefix (spaces (length pprefix)) tokens.

(*  t = "%s as %s" % (importname, asname)  /  "%s" % (importname,)  *)
Definition alias_token (a : alias) : str :=
  match snd a with
  | Some x => fst a ++ [c_sp] ++ s_as ++ [c_sp] ++ x
  | None => fst a
  end.

Definition ljust (s : str) (n : nat) : str := s ++ spaces (n - length s).

(*  s0 = ''; s = ''
    if self.fromname is not None:
        s += "from%s%s " % (' ' * from_spaces, self.fromname)
        if import_column is not None:
            if len(s) > import_column: s0 = s + '\\\n'; s = ' ' * import_column
            else:                      s = s.ljust(import_column)
    s += "import "                                                                   *)
Definition stmt_head (import_column : option nat) (fs : nat) (fromname : option str) : str * str :=
  match fromname with
  | None => ([], s_import ++ [c_sp])
  | Some m =>
      let s := s_from ++ spaces fs ++ m ++ [c_sp] in
      match import_column with
      | None => ([], s ++ s_import ++ [c_sp])
      | Some col =>
          if (col <? length s)%nat then (s ++ [c_bslash; c_nl], spaces col ++ s_import ++ [c_sp])
          else ([], ljust s col ++ s_import ++ [c_sp])
      end
  end.

Definition strs_is_star (tokens : list str) : bool :=
  match tokens with [t] => str_eqb t s_star | _ => false end.

(*  (repaired)  if self.fromname is None or tokens == ["*"]:
                    res = s0 + s + ", ".join(tokens) + "\n"
                else:
                    res = s0 + pyfill(s, tokens, params=params)                       *)
Definition print_statement (P : params) (import_column : option nat) (fs : nat) (st : stmt) : str :=
  let hd := stmt_head import_column fs (fst st) in
  let tokens := map alias_token (snd st) in
  match fst st with
  | None => fst hd ++ snd hd ++ join_str comma_sp tokens ++ [c_nl]
  | Some _ =>
      if strs_is_star tokens then fst hd ++ snd hd ++ join_str comma_sp tokens ++ [c_nl]
      else fst hd ++ pyfill (snd hd) tokens P
  end.

(* the code before the repair (F2, F25): everything goes through pyfill *)
Definition print_statement_unrepaired (P : params) (import_column : option nat) (fs : nat) (st : stmt) : str :=
  let hd := stmt_head import_column fs (fst st) in
  fst hd ++ pyfill (snd hd) (map alias_token (snd st)) P.

Definition count_nl (s : str) : nat := length (filter (fun c => (c =? c_nl)%N) s).

(*  def do_align(statement): return statement.fromname != '__future__' or params.align_future  *)
Definition do_align (P : params) (st : stmt) : bool :=
  negb (opt_str_eqb (fst st) (Some s_future)) || align_future P.

Definition clamp_spaces (P : params) : nat := Nat.max 1 (from_spaces P).

(*  def pp(statement, import_column):
        if do_align(statement): statement.pretty_print(params, import_column=import_column, from_spaces=from_spaces)
        else:                   statement.pretty_print(params, import_column=None, from_spaces=1)   *)
Definition pp (P : params) (col : option nat) (st : stmt) : str :=
  if do_align P st then print_statement P col (clamp_spaces P) st
  else print_statement P None 1 st.

(*  argmin over sorted(map.items()): first strictly smaller value wins, ties -> smaller column  *)
Fixpoint argmin_go (best_k best_v : nat) (l : list (nat * nat)) : nat :=
  match l with
  | [] => best_k
  | (k, v) :: r => if (v <? best_v)%nat then argmin_go k v r else argmin_go best_k best_v r
  end.

Inductive perr := EConflict | ENoColumns.

(*  fromimp_stmts = [s for s in statements if s.fromname and do_align(s)]
    import_column = max(len(s.fromname) for s in fromimp_stmts) + from_spaces + 5   *)
Definition from_len (P : params) (st : stmt) : option nat :=
  match fst st with
  | Some ((_ :: _) as m) => if do_align P st then Some (length m) else None
  | _ => None
  end.

Definition choose_column (P : params) (sts : list stmt) : perr + option nat :=
  match sts with
  | [] => inr None
  | _ :: _ =>
    match align_imports P with
    | AlignBool false => inr None
    | AlignBool true =>
        match flat_map (fun st => match from_len P st with Some n => [n] | None => [] end) sts with
        | [] => inr None
        | ls => inr (Some (fold_right Nat.max 0 ls + clamp_spaces P + 5))%nat
        end
    | AlignCol c => inr (Some c)
    | AlignCols cs =>
        match sort_u Nat.compare cs with
        | [] => inl ENoColumns
        | [c] => inr (Some c)
        | c :: rest =>
            (*  count_lines(c) = sum(s.pretty_print(params, import_column=c, from_spaces=from_spaces).count("\n") for s in statements)
                — not through pp: __future__ statements are aligned here even when align_future is off *)
            let count c := fold_right (fun st a => count_nl (print_statement P (Some c) (clamp_spaces P) st) + a)%nat 0%nat sts in
            inr (Some (argmin_go c (count c) (map (fun c' => (c', count c')) rest)))
        end
    end
  end.

(*  ImportSet.pretty_print(params):
      if not allow_conflicts and self.conflicting_imports: raise ConflictingImportsError
      from_spaces = max(1, params.from_spaces)
      statements = self.get_statements(separate_from_imports=params.separate_from_imports)
      import_column = ...
      return ''.join(pp(statement, import_column) for statement in statements)              *)
Definition print_set_r (P : params) (S : import_set) : perr + str :=
  match conflicting_imports S with
  | _ :: _ => inl EConflict
  | [] =>
      let sts := get_statements (separate_from_imports P) S in
      match choose_column P sts with
      | inl e => inl e
      | inr col => inr (concat (map (pp P col) sts))
      end
  end.

(*  pretty_print(params, allow_conflicts=True)  (what __repr__ uses): no conflict check  *)
Definition print_set_allow_conflicts (P : params) (S : import_set) : perr + str :=
  let sts := get_statements (separate_from_imports P) S in
  match choose_column P sts with
  | inl e => inl e
  | inr col => inr (concat (map (pp P col) sts))
  end.

Definition print_set (P : params) (S : import_set) : option str :=
  match print_set_r P S with inr s => Some s | inl _ => None end.

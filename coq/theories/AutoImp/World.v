(* M8 - World: the part of Python's import system that pyflyby's auto-importer relies on
   (DESIGN Appendix G).  An ORACLE: nothing here is pyflyby code except `mexists`
   (= _modules.ModuleHandle.exists); `load` / `exec_import` restate what CPython's import
   statement does on a universe of plain modules, and are validated against real packages on
   disk by the correspondence check on every run (harness/c06.py).
   No proofs in this file. *)
From Coq Require Import NArith List Bool.
Import ListNotations.

(* ---------- names, dotted names, objects ---------- *)

Definition name := N.                       (* identifiers are ids allocated by the harness *)
Definition dotted := list name.             (* "a.b.c" = [a;b;c], never empty in well-formed input *)

Fixpoint dotted_eqb (a b : dotted) : bool :=
  match a, b with
  | [], [] => true
  | x :: a', y :: b' => (x =? y)%N && dotted_eqb a' b'
  | _, _ => false
  end.

(* object identities (Python `is`):
     OMod d   - the module object created by executing the file of dotted name d
     OVal d k - the value bound to the static attribute k by the body of module d
     OExt n   - any other object of the user (pre-bound values, proxy modules, tripwires) *)
Inductive obj :=
  | OMod (d : dotted)
  | OVal (d : dotted) (k : name)
  | OExt (n : N).

Definition obj_eqb (a b : obj) : bool :=
  match a, b with
  | OMod d, OMod e => dotted_eqb d e
  | OVal d k, OVal e j => dotted_eqb d e && (k =? j)%N
  | OExt n, OExt m => (n =? m)%N
  | _, _ => false
  end.

(* ---------- static part: what is on sys.path ---------- *)

Record modinfo := MI { mi_pkg : bool; mi_attrs : list name; mi_raises : bool }.
Definition world := dotted -> option modinfo.

(* prefixes [a;b;c] = [[a];[a;b];[a;b;c]]   (DottedIdentifier.prefixes, dotted_prefixes) *)
Fixpoint prefixes_from (acc : dotted) (d : dotted) : list dotted :=
  match d with
  | [] => []
  | x :: r => (acc ++ [x]) :: prefixes_from (acc ++ [x]) r
  end.
Definition prefixes (d : dotted) : list dotted := prefixes_from [] d.
Definition proper_prefixes (d : dotted) : list dotted := removelast (prefixes d).
Definition parent (d : dotted) : dotted := removelast d.
Definition root (d : dotted) : name := hd 0%N d.

Definition is_pkg (w : world) (p : dotted) : bool :=
  match w p with Some mi => mi_pkg mi | None => false end.
(* "d exists as a file": d is in the tree and every proper prefix is a package of the tree *)
Definition is_file (w : world) (d : dotted) : bool :=
  match w d with
  | None => false
  | Some _ => forallb (is_pkg w) (proper_prefixes d)
  end.
Definition raises (w : world) (d : dotted) : bool :=
  match w d with Some mi => mi_raises mi | None => false end.
Definition static_attrs (w : world) (d : dotted) : list name :=
  match w d with Some mi => mi_attrs mi | None => [] end.

(* ---------- dynamic part ---------- *)

Definition ns := list (dotted * obj).       (* a namespace dict; keys are strings, possibly dotted *)
Definition imp := (dotted * dotted)%type.   (* Import: (fullname, import_as) *)

Definition imp_eqb (a b : imp) : bool := dotted_eqb (fst a) (fst b) && dotted_eqb (snd a) (snd b).

(* ghost log: module bodies executed by the import system (EExec d ok: ok=false when the body
   raised) and import statements executed by _try_import - compared with the log the generated
   modules and a recording `exec` write on the real side *)
Inductive ev :=
  | EExec (d : dotted) (ok : bool)
  | ETry (i : imp) (ok : bool).      (* _try_import reached `exec(stmt)`; ok=false when it raised *)

Record state := ST {
  nss    : list ns;                          (* namespace stack, most global first; nss[-1] is the target *)
  loaded : list (dotted * obj);              (* sys.modules *)
  attrs  : list ((obj * name) * obj);        (* attributes of objects (first match wins) *)
  failed : list imp;                         (* _autoimp._IMPORT_FAILED *)
  cell   : list (dotted * bool);             (* the `autoimported` map (first match wins) *)
  excache : list (dotted * bool);            (* ModuleHandle(..).exists cached_property, process-wide *)
  elog   : list ev                           (* ghost: executed module bodies, oldest first *)
}.

Fixpoint assoc {A} (k : dotted) (l : list (dotted * A)) : option A :=
  match l with
  | [] => None
  | (k', v) :: r => if dotted_eqb k k' then Some v else assoc k r
  end.

Fixpoint get_attr (at_ : list ((obj * name) * obj)) (o : obj) (k : name) : option obj :=
  match at_ with
  | [] => None
  | ((o', k'), v) :: r => if obj_eqb o o' && (k =? k')%N then Some v else get_attr r o k
  end.

Definition set_loaded (d : dotted) (o : obj) (s : state) : state :=
  ST (nss s) ((d, o) :: loaded s) (attrs s) (failed s) (cell s) (excache s) (elog s).
Definition set_attr (o : obj) (k : name) (v : obj) (s : state) : state :=
  ST (nss s) (loaded s) (((o, k), v) :: attrs s) (failed s) (cell s) (excache s) (elog s).
Definition add_log (e : ev) (s : state) : state :=
  ST (nss s) (loaded s) (attrs s) (failed s) (cell s) (excache s) (elog s ++ [e]).
Definition set_nss (n : list ns) (s : state) : state :=
  ST n (loaded s) (attrs s) (failed s) (cell s) (excache s) (elog s).
Definition add_failed (i : imp) (s : state) : state :=
  ST (nss s) (loaded s) (attrs s) (i :: failed s) (cell s) (excache s) (elog s).
Definition set_cell (d : dotted) (b : bool) (s : state) : state :=
  ST (nss s) (loaded s) (attrs s) (failed s) ((d, b) :: cell s) (excache s) (elog s).
Definition set_excache (d : dotted) (b : bool) (s : state) : state :=
  ST (nss s) (loaded s) (attrs s) (failed s) (cell s) ((d, b) :: excache s) (elog s).

(* ---------- load: what `import d` does to sys.modules ---------- *)

Inductive lres := LOk | LImportError | LRaised.

(* executing the body of module p: its static attributes become attributes of the module *)
Fixpoint init_attrs (p : dotted) (ks : list name) (s : state) : state :=
  match ks with
  | [] => s
  | k :: r => set_attr (OMod p) k (OVal p k) (init_attrs p r s)
  end.

(* after a successful load the module is set as an attribute of its parent package
   (importlib._bootstrap._find_and_load_unlocked: setattr(parent_module, child, module)) *)
Definition bind_in_parent (p : dotted) (s : state) : state :=
  match parent p with
  | [] => s
  | par => match assoc par (loaded s) with
           | Some po => set_attr po (last p 0%N) (OMod p) s
           | None => s
           end
  end.

(* for each prefix of d in order: already in sys.modules => next; not a file => ImportError;
   body raises => that exception (earlier prefixes stay loaded, the failing module does not);
   else register it, run its body, bind it in its parent *)
Fixpoint load_prefixes (w : world) (ps : list dotted) (s : state) : state * lres :=
  match ps with
  | [] => (s, LOk)
  | p :: r =>
      match assoc p (loaded s) with
      | Some _ => load_prefixes w r s
      | None =>
          if negb (is_file w p) then (s, LImportError)
          else if raises w p then (add_log (EExec p false) s, LRaised)
          else load_prefixes w r
                 (bind_in_parent p (init_attrs p (static_attrs w p) (set_loaded p (OMod p) (add_log (EExec p true) s))))
      end
  end.
Definition load (w : world) (d : dotted) (s : state) : state * lres := load_prefixes w (prefixes d) s.

(* ---------- exec_import: `exec(str(imp), scratch); scratch[name0]` ----------
   str(Import.from_parts(full, as)):
     as = full                      ->  import a.b.c              binds a   = sys.modules['a']
     no dot in full                 ->  import a as b             binds b   = module a
     otherwise                      ->  from mod import mem as x  binds x   = getattr(mod, mem), else submodule mod.mem
   Result None = the statement raised. *)
Definition exec_import (w : world) (i : imp) (s : state) : state * option obj :=
  let full := fst i in
  let as_ := snd i in
  if dotted_eqb as_ full then
    let (s1, r) := load w full s in
    match r with
    | LOk => (s1, assoc [root full] (loaded s1))
    | _ => (s1, None)
    end
  else
    match parent full with
    | [] =>
        let (s1, r) := load w full s in
        match r with
        | LOk => (s1, assoc full (loaded s1))
        | _ => (s1, None)
        end
    | md =>
        let (s1, r) := load w md s in
        match r with
        | LOk =>
            match assoc md (loaded s1) with
            | None => (s1, None)
            | Some m =>
                match get_attr (attrs s1) m (last full 0%N) with
                | Some v => (s1, Some v)
                | None =>
                    let (s2, r2) := load w full s1 in
                    match r2 with
                    | LOk => (s2, assoc full (loaded s2))
                    | _ => (s2, None)
                    end
                end
            end
        | _ => (s1, None)
        end
    end.

(* ---------- ModuleHandle(d).exists  (pyflyby/_modules.py:197-220) ----------
     @cached_property                       -- cached per name for the life of the process
     def exists(self):
         name = str(self.name)
         if name in sys.modules: return True
         if self.parent and not self.parent.exists: return False
         try: pkg = importlib.util.find_spec(name)     -- imports the parent package (side effect!)
         except Exception: pkg = None
         return pkg is not None
   `chain` = d, parent d, ..., root  (structural recursion instead of recursion on the parent). *)
Fixpoint mexists_chain (w : world) (chain : list dotted) (s : state) : state * bool :=
  match chain with
  | [] => (s, true)
  | d :: up =>
      match assoc d (excache s) with
      | Some b => (s, b)
      | None =>
          let (s', b) :=
            match assoc d (loaded s) with
            | Some _ => (s, true)
            | None =>
                match up with
                | [] => (s, is_file w d)
                | par :: _ =>
                    let (s1, pe) := mexists_chain w up s in
                    if negb pe then (s1, false)
                    else let (s2, r) := load w par s1 in
                         match r with
                         | LOk => (s2, is_file w d)
                         | _ => (s2, false)
                         end
                end
            end in
          (set_excache d b s', b)
      end
  end.
Definition mexists (w : world) (d : dotted) (s : state) : state * bool :=
  mexists_chain w (rev (prefixes d)) s.

(* C20 (effect trace of symbol_needs_import) and the facts about `needs` used by C06 / C07. *)
From Coq Require Import NArith List Bool Lia.
From Verif Require Import AutoImp.World AutoImp.Needs AutoImp.TryImport AutoImp.AutoImport AutoImp.Spec
                          AutoImp.WorldProofs.
Import ListNotations.

(* ---------- prefixes ---------- *)

Lemma prefixes_from_spec : forall d acc p,
  In p (prefixes_from acc d) -> exists x r1 r2, d = x :: r1 ++ r2 /\ p = acc ++ x :: r1.
Proof.
  induction d as [|x d IH]; intros acc p H; simpl in H; [contradiction|].
  destruct H as [H|H].
  - exists x, [], d. split; [reflexivity|]. subst. reflexivity.
  - apply IH in H. destruct H as (y & r1 & r2 & E1 & E2). exists x, (y :: r1), r2. split.
    + simpl. rewrite E1. reflexivity.
    + rewrite E2, <- app_assoc. reflexivity.
Qed.

Lemma prefixes_spec : forall d p, In p (prefixes d) -> exists x r1 r2, p = x :: r1 /\ d = p ++ r2.
Proof.
  intros d p H. apply prefixes_from_spec in H. destruct H as (x & r1 & r2 & E1 & E2).
  simpl in E2. exists x, r1, r2. split; [assumption|]. subst. reflexivity.
Qed.

Lemma prefixes_root : forall d p, In p (prefixes d) -> root p = root d /\ p <> [].
Proof.
  intros d p H. apply prefixes_spec in H. destruct H as (x & r1 & r2 & E1 & E2). subst. split; [reflexivity|discriminate].
Qed.

Lemma root_in_prefixes : forall x r, In [x] (prefixes (x :: r)).
Proof. intros. left. reflexivity. Qed.

Lemma skipn_app_len : forall A (a b : list A), skipn (length a) (a ++ b) = b.
Proof. induction a; simpl; auto. Qed.

(* ---------- the trace of walk ---------- *)

Lemma walk_trace : forall ld at_ parts var pname o a,
  In (GetAttr o a) (snd (walk ld at_ var pname parts)) ->
  exists d rest, assoc d ld = Some o /\ pname ++ parts = d ++ a :: rest.
Proof.
  induction parts as [|part rest IH]; intros var pname o a H; simpl in H; [contradiction|].
  destruct (assoc pname ld) as [m|] eqn:Em; [|contradiction].
  destruct (obj_eqb var m) eqn:Eo; simpl in H; [|contradiction].
  apply obj_eqb_eq in Eo. subst m.
  destruct (get_attr at_ var part) as [v|] eqn:Eg.
  - destruct (walk ld at_ v (pname ++ [part]) rest) as [r t] eqn:Ew. simpl in H. destruct H as [H|H].
    + inversion H; subst. exists pname, rest. split; [assumption|reflexivity].
    + assert (H' : In (GetAttr o a) (snd (walk ld at_ v (pname ++ [part]) rest))) by (rewrite Ew; exact H).
      apply IH in H'. destruct H' as (d & rest' & E1 & E2). exists d, rest'. split; [assumption|].
      rewrite <- E2, <- app_assoc. reflexivity.
  - simpl in H. destruct H as [H|[]]. inversion H; subst. exists pname, rest. split; [assumption|reflexivity].
Qed.

Lemma scan_trace : forall ld at_ full pairs e,
  In e (snd (scan ld at_ full pairs)) ->
  exists n p var, In (n, p) pairs /\ assoc p n = Some var /\
                  In e (snd (walk ld at_ var p (skipn (length p) full))).
Proof.
  induction pairs as [|[n p] r IH]; intros e H; simpl in H; [contradiction|].
  destruct (assoc p n) as [var|] eqn:Ea.
  - destruct (walk ld at_ var p (skipn (length p) full)) as [res t] eqn:Ew.
    assert (Hhere : In e t -> exists n0 p0 var0, In (n0, p0) ((n, p) :: r) /\ assoc p0 n0 = Some var0 /\
                       In e (snd (walk ld at_ var0 p0 (skipn (length p0) full)))).
    { intro Ht. exists n, p, var. split; [left; reflexivity|]. split; [assumption|]. rewrite Ew. exact Ht. }
    destruct res; simpl in H; try (apply Hhere; exact H).
    revert H. destruct (scan ld at_ full r) as [b t'] eqn:Es. intro H. simpl in H. apply in_app_or in H. destruct H as [H|H].
    + apply Hhere; exact H.
    + destruct (IH e) as (n0 & p0 & var0 & H1 & H2 & H3); [exact H|].
      exists n0, p0, var0. split; [right; assumption|]. split; assumption.
  - destruct (IH e H) as (n0 & p0 & var0 & H1 & H2 & H3).
    exists n0, p0, var0. split; [right; assumption|]. split; assumption.
Qed.

Lemma in_pairs_of : forall nss_ full n p,
  In (n, p) (pairs_of nss_ full) <-> In n nss_ /\ In p (prefixes full).
Proof.
  intros. unfold pairs_of. rewrite in_flat_map. split.
  - intros (n' & H1 & H2). apply in_map_iff in H2. destruct H2 as (p' & E & H2). inversion E; subst.
    split; [apply in_rev; assumption | apply in_rev; assumption].
  - intros [H1 H2]. exists n. split; [apply in_rev in H1; exact H1|]. apply in_map_iff. exists p.
    split; [reflexivity | apply in_rev in H2; exact H2].
Qed.

(* C20: every getattr(o, a) the analysis performs is on the object registered in sys.modules under a
   dotted prefix d of the analysed name, and a is the next component the code itself spells *)
Theorem getattr_registered : forall s n o a,
  In (GetAttr o a) (snd (needs_import s n)) ->
  exists d rest, assoc d (loaded s) = Some o /\ n = d ++ a :: rest.
Proof.
  intros s n o a H. unfold needs_import in H. apply scan_trace in H.
  destruct H as (ns0 & p & var & H1 & H2 & H3). apply in_pairs_of in H1. destruct H1 as [_ H1].
  apply prefixes_spec in H1. destruct H1 as (x & r1 & r2 & E1 & E2).
  rewrite E2 in H3. rewrite skipn_app_len in H3. apply walk_trace in H3.
  destruct H3 as (d & rest & A & B). exists d, rest. split; [assumption | congruence].
Qed.

Theorem all_effects_are_reads : forall s n, Forall is_read (snd (needs_import s n)).
Proof. intros. apply Forall_forall. intros [o a] _. exact I. Qed.

(* the analysis is a function of the three things it reads; it has no other input and no state output *)
Theorem needs_pure : forall s s' n,
  nss s = nss s' -> loaded s = loaded s' -> attrs s = attrs s' -> needs_import s n = needs_import s' n.
Proof. intros s s' n H1 H2 H3. unfold needs_import. rewrite H1, H2, H3. reflexivity. Qed.

(* ---------- needs = true: every binding found on the way was the registered module, lacking the next attribute ---------- *)

Lemma scan_true : forall ld at_ full pairs,
  fst (scan ld at_ full pairs) = true ->
  forall n p var, In (n, p) pairs -> assoc p n = Some var ->
    fst (walk ld at_ var p (skipn (length p) full)) = WAttrErr.
Proof.
  induction pairs as [|[n p] r IH]; intros H n0 p0 var0 Hin Ha; [contradiction|].
  simpl in H. destruct Hin as [E|Hin].
  - inversion E; subst. rewrite Ha in H.
    destruct (walk ld at_ var0 p0 (skipn (length p0) full)) as [res t]. destruct res; simpl in H; try discriminate. reflexivity.
  - destruct (assoc p n) as [var|].
    + destruct (walk ld at_ var p (skipn (length p) full)) as [res t]. destruct res; simpl in H; try discriminate.
      destruct (scan ld at_ full r) as [b t'] eqn:Es. simpl in H. subst b. eapply IH; eauto.
    + eapply IH; eauto.
Qed.

Lemma scan_false : forall ld at_ full pairs,
  fst (scan ld at_ full pairs) = false <->
  exists n p var, In (n, p) pairs /\ assoc p n = Some var /\
    fst (walk ld at_ var p (skipn (length p) full)) <> WAttrErr.
Proof.
  induction pairs as [|[n p] r IH]; simpl.
  - split; [discriminate | intros (n & p & var & [] & _)].
  - destruct (assoc p n) as [var|] eqn:Ea.
    + destruct (walk ld at_ var p (skipn (length p) full)) as [res t] eqn:Ew.
      destruct res; simpl.
      * split; [intros _ | reflexivity]. exists n, p, var. split; [left; reflexivity|]. split; [assumption|]. rewrite Ew. discriminate.
      * split; [intros _ | reflexivity]. exists n, p, var. split; [left; reflexivity|]. split; [assumption|]. rewrite Ew. discriminate.
      * destruct (scan ld at_ full r) as [b t'] eqn:Es. simpl in *. rewrite IH. split.
        -- intros (n0 & p0 & v0 & H1 & H2 & H3). exists n0, p0, v0. split; [right; assumption|]. split; assumption.
        -- intros (n0 & p0 & v0 & [E|H1] & H2 & H3).
           ++ inversion E; subst. rewrite Ea in H2. inversion H2; subst. rewrite Ew in H3. simpl in H3. congruence.
           ++ exists n0, p0, v0. split; [assumption|]. split; assumption.
    + rewrite IH. split.
      * intros (n0 & p0 & v0 & H1 & H2 & H3). exists n0, p0, v0. split; [right; assumption|]. split; assumption.
      * intros (n0 & p0 & v0 & [E|H1] & H2 & H3).
        -- inversion E; subst. congruence.
        -- exists n0, p0, v0. split; [assumption|]. split; assumption.
Qed.

Lemma ns_get_in : forall s lvl k v, ns_get s lvl k = Some v -> exists n, In n (nss s) /\ assoc k n = Some v.
Proof.
  intros s lvl k v H. unfold ns_get in H. destruct (nth_error (nss s) lvl) as [n|] eqn:E; [|discriminate].
  exists n. split; [eapply nth_error_In; eauto | assumption].
Qed.

(* a name still needs import although its root is bound: the root is bound to THE registered
   module of that name (and the name has more than one component) *)
Lemma needs_root_bound : forall s x r lvl v,
  needs s (x :: r) = true -> ns_get s lvl [x] = Some v ->
  assoc [x] (loaded s) = Some v /\ r <> [].
Proof.
  intros s x r lvl v Hn Hg. unfold needs, needs_import in Hn.
  apply ns_get_in in Hg. destruct Hg as (n & Hin & Ha).
  pose proof (scan_true _ _ _ _ Hn n [x] v) as Hw.
  assert (Hp : In (n, [x]) (pairs_of (nss s) (x :: r))).
  { apply in_pairs_of. split; [assumption | apply root_in_prefixes]. }
  specialize (Hw Hp Ha). simpl in Hw.
  destruct r as [|part rest]; [simpl in Hw; discriminate|].
  simpl in Hw. destruct (assoc [x] (loaded s)) as [m|] eqn:Em; [|simpl in Hw; discriminate].
  destruct (obj_eqb v m) eqn:Eo; [|simpl in Hw; discriminate].
  apply obj_eqb_eq in Eo. subst. split; [reflexivity | discriminate].
Qed.

(* a one-identifier name that needs import is bound nowhere *)
Lemma needs_single_unbound : forall s x lvl, needs s [x] = true -> ns_get s lvl [x] = None.
Proof.
  intros s x lvl Hn. destruct (ns_get s lvl [x]) as [v|] eqn:E; [|reflexivity].
  destruct (needs_root_bound _ _ _ _ _ Hn E) as [_ H]. congruence.
Qed.

(* the analysis hands back the very state it was given *)
Theorem namespaces_unchanged : forall s n, fst (fst (find_missing_ident s n)) = s.
Proof. intros s n. unfold find_missing_ident. destruct (needs_import s n). reflexivity. Qed.

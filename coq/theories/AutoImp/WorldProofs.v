(* Basic facts about World: equalities, what load / exec_import / mexists leave untouched,
   monotonicity of sys.modules. *)
From Coq Require Import NArith List Bool Lia.
From Verif Require Import AutoImp.World.
Import ListNotations.

Lemma dotted_eqb_eq : forall a b, dotted_eqb a b = true <-> a = b.
Proof.
  induction a as [|x a IH]; destruct b as [|y b]; simpl; split; intro H; try congruence; try reflexivity.
  - apply andb_true_iff in H. destruct H as [H1 H2]. apply N.eqb_eq in H1. apply IH in H2. congruence.
  - inversion H; subst. apply andb_true_iff. split. apply N.eqb_refl. apply IH. reflexivity.
Qed.
Lemma dotted_eqb_refl : forall a, dotted_eqb a a = true.
Proof. intro a. apply dotted_eqb_eq. reflexivity. Qed.
Lemma dotted_eqb_neq : forall a b, dotted_eqb a b = false <-> a <> b.
Proof.
  intros a b. split; intro H.
  - intro E. apply dotted_eqb_eq in E. congruence.
  - destruct (dotted_eqb a b) eqn:E; [apply dotted_eqb_eq in E; contradiction | reflexivity].
Qed.

Lemma obj_eqb_eq : forall a b, obj_eqb a b = true <-> a = b.
Proof.
  destruct a, b; simpl; split; intro H; try congruence.
  - apply dotted_eqb_eq in H. congruence.
  - inversion H. apply dotted_eqb_refl.
  - apply andb_true_iff in H. destruct H as [H1 H2]. apply dotted_eqb_eq in H1. apply N.eqb_eq in H2. congruence.
  - inversion H. rewrite dotted_eqb_refl, N.eqb_refl. reflexivity.
  - apply N.eqb_eq in H. congruence.
  - inversion H. apply N.eqb_refl.
Qed.
Lemma obj_eqb_refl : forall a, obj_eqb a a = true.
Proof. intro a. apply obj_eqb_eq. reflexivity. Qed.

Lemma imp_eqb_eq : forall a b, imp_eqb a b = true <-> a = b.
Proof.
  intros [a1 a2] [b1 b2]. unfold imp_eqb. simpl. rewrite andb_true_iff, !dotted_eqb_eq.
  split; [intros [? ?]; congruence | intro H; inversion H; auto].
Qed.

(* ---------- what the import system does not touch ---------- *)

(* "u": the user-visible part other than sys.modules / attributes / log *)
Definition same_user (s s' : state) : Prop :=
  nss s' = nss s /\ failed s' = failed s /\ cell s' = cell s.

Lemma same_user_refl : forall s, same_user s s.
Proof. intro s. repeat split. Qed.
Lemma same_user_trans : forall a b c, same_user a b -> same_user b c -> same_user a c.
Proof. unfold same_user. intros a b c (H1 & H2 & H3) (H4 & H5 & H6). repeat split; congruence. Qed.

Lemma init_attrs_fields : forall p ks s,
  nss (init_attrs p ks s) = nss s /\ failed (init_attrs p ks s) = failed s /\
  cell (init_attrs p ks s) = cell s /\ loaded (init_attrs p ks s) = loaded s /\
  excache (init_attrs p ks s) = excache s /\ elog (init_attrs p ks s) = elog s.
Proof.
  induction ks as [|k r IH]; intro s; simpl; [repeat split|].
  destruct (IH s) as (H1 & H2 & H3 & H4 & H5 & H6). repeat split; assumption.
Qed.

Lemma bind_in_parent_fields : forall p s,
  nss (bind_in_parent p s) = nss s /\ failed (bind_in_parent p s) = failed s /\
  cell (bind_in_parent p s) = cell s /\ loaded (bind_in_parent p s) = loaded s /\
  excache (bind_in_parent p s) = excache s /\ elog (bind_in_parent p s) = elog s.
Proof.
  intros p s. unfold bind_in_parent. destruct (parent p); [repeat split|].
  destruct (assoc _ (loaded s)); repeat split.
Qed.

Lemma load_prefixes_user : forall w ps s s' r,
  load_prefixes w ps s = (s', r) -> same_user s s' /\ excache s' = excache s.
Proof.
  induction ps as [|p ps IH]; intros s s' r H; simpl in H.
  - inversion H; subst. split; [apply same_user_refl | reflexivity].
  - destruct (assoc p (loaded s)) eqn:El; [eapply IH; eauto|].
    destruct (negb (is_file w p)); [inversion H; subst; split; [apply same_user_refl | reflexivity]|].
    destruct (raises w p); [inversion H; subst; split; [repeat split | reflexivity]|].
    apply IH in H. destruct H as [(H1 & H2 & H3) H4].
    destruct (bind_in_parent_fields p (init_attrs p (static_attrs w p) (set_loaded p (OMod p) (add_log (EExec p true) s)))) as (B1 & B2 & B3 & B4 & B5 & B6).
    destruct (init_attrs_fields p (static_attrs w p) (set_loaded p (OMod p) (add_log (EExec p true) s))) as (I1 & I2 & I3 & I4 & I5 & I6).
    unfold same_user. rewrite H1, H2, H3, H4, B1, B2, B3, B5, I1, I2, I3, I5. simpl. repeat split.
Qed.

Lemma load_user : forall w d s s' r, load w d s = (s', r) -> same_user s s' /\ excache s' = excache s.
Proof. intros. eapply load_prefixes_user; eauto. Qed.

Lemma exec_import_user : forall w i s s' r,
  exec_import w i s = (s', r) -> same_user s s' /\ excache s' = excache s.
Proof.
  intros w [full as_] s s' r H. unfold exec_import in H. simpl in H.
  destruct (dotted_eqb as_ full).
  - destruct (load w full s) as [s1 r1] eqn:E1. apply load_user in E1.
    destruct r1; inversion H; subst; assumption.
  - destruct (parent full) as [|n l] eqn:Ep.
    + destruct (load w full s) as [s1 r1] eqn:E1. apply load_user in E1.
      destruct r1; inversion H; subst; assumption.
    + destruct (load w (n :: l) s) as [s1 r1] eqn:E1. apply load_user in E1.
      destruct r1; try (inversion H; subst; assumption).
      destruct (assoc (n :: l) (loaded s1)); [|inversion H; subst; assumption].
      destruct (get_attr (attrs s1) o (last full 0%N)); [inversion H; subst; assumption|].
      destruct (load w full s1) as [s2 r2] eqn:E2. apply load_user in E2.
      destruct E1 as [U1 C1]. destruct E2 as [U2 C2].
      assert (same_user s s2 /\ excache s2 = excache s) by (split; [eapply same_user_trans; eauto | congruence]).
      destruct r2; inversion H; subst; assumption.
Qed.

Lemma mexists_chain_user : forall w chain s s' b,
  mexists_chain w chain s = (s', b) -> same_user s s'.
Proof.
  induction chain as [|d up IH]; intros s s' b H; simpl in H.
  - inversion H; subst. apply same_user_refl.
  - destruct (assoc d (excache s)); [inversion H; subst; apply same_user_refl|].
    destruct (assoc d (loaded s)).
    + inversion H; subst. repeat split.
    + destruct up as [|par up'].
      * inversion H; subst. repeat split.
      * destruct (mexists_chain w (par :: up') s) as [s1 pe] eqn:E1. apply IH in E1.
        destruct (negb pe).
        -- inversion H; subst. destruct E1 as (A & B & C). repeat split; assumption.
        -- destruct (load w par s1) as [s2 r] eqn:E2. apply load_user in E2. destruct E2 as [E2 _].
           pose proof (same_user_trans _ _ _ E1 E2) as (A & B & C).
           destruct r; inversion H; subst; repeat split; assumption.
Qed.

Lemma mexists_user : forall w d s s' b, mexists w d s = (s', b) -> same_user s s'.
Proof. intros. eapply mexists_chain_user; eauto. Qed.

(* ---------- sys.modules only grows; the log only gets EExec entries from the import system ---------- *)

Definition loaded_mono (s s' : state) : Prop :=
  forall k o, assoc k (loaded s) = Some o -> assoc k (loaded s') = Some o.

Lemma loaded_mono_refl : forall s, loaded_mono s s.
Proof. intros s k o H. exact H. Qed.
Lemma loaded_mono_trans : forall a b c, loaded_mono a b -> loaded_mono b c -> loaded_mono a c.
Proof. intros a b c H1 H2 k o H. apply H2, H1, H. Qed.
Lemma loaded_mono_eq : forall s s', loaded s' = loaded s -> loaded_mono s s'.
Proof. intros s s' E k o H. rewrite E. exact H. Qed.

Definition tries_of (l : list ev) : list (imp * bool) :=
  flat_map (fun e => match e with ETry i b => [(i, b)] | _ => [] end) l.

Lemma tries_of_app : forall a b, tries_of (a ++ b) = tries_of a ++ tries_of b.
Proof. intros. unfold tries_of. apply flat_map_app. Qed.

Lemma load_prefixes_mono : forall w ps s s' r,
  load_prefixes w ps s = (s', r) -> loaded_mono s s' /\ tries_of (elog s') = tries_of (elog s).
Proof.
  induction ps as [|p ps IH]; intros s s' r H; simpl in H.
  - inversion H; subst. split; [apply loaded_mono_refl | reflexivity].
  - destruct (assoc p (loaded s)) eqn:El; [eapply IH; eauto|].
    destruct (negb (is_file w p)); [inversion H; subst; split; [apply loaded_mono_refl | reflexivity]|].
    destruct (raises w p).
    { inversion H; subst. split; [apply loaded_mono_eq; reflexivity|]. simpl. rewrite tries_of_app. simpl. apply app_nil_r. }
    apply IH in H. destruct H as [M T].
    destruct (bind_in_parent_fields p (init_attrs p (static_attrs w p) (set_loaded p (OMod p) (add_log (EExec p true) s)))) as (B1 & B2 & B3 & B4 & B5 & B6).
    destruct (init_attrs_fields p (static_attrs w p) (set_loaded p (OMod p) (add_log (EExec p true) s))) as (I1 & I2 & I3 & I4 & I5 & I6).
    split.
    + intros k o Hk. apply M. rewrite B4, I4. simpl.
      destruct (dotted_eqb k p) eqn:E. 2:{ exact Hk. } apply dotted_eqb_eq in E. subst. congruence.
    + rewrite T, B6, I6. simpl. rewrite tries_of_app. simpl. apply app_nil_r.
Qed.

Lemma load_mono : forall w d s s' r, load w d s = (s', r) -> loaded_mono s s' /\ tries_of (elog s') = tries_of (elog s).
Proof. intros. eapply load_prefixes_mono; eauto. Qed.

Lemma exec_import_mono : forall w i s s' r,
  exec_import w i s = (s', r) -> loaded_mono s s' /\ tries_of (elog s') = tries_of (elog s).
Proof.
  intros w [full as_] s s' r H. unfold exec_import in H. simpl in H.
  destruct (dotted_eqb as_ full).
  - destruct (load w full s) as [s1 r1] eqn:E1. apply load_mono in E1.
    destruct r1; inversion H; subst; assumption.
  - destruct (parent full) as [|n l] eqn:Ep.
    + destruct (load w full s) as [s1 r1] eqn:E1. apply load_mono in E1.
      destruct r1; inversion H; subst; assumption.
    + destruct (load w (n :: l) s) as [s1 r1] eqn:E1. apply load_mono in E1.
      destruct r1; try (inversion H; subst; assumption).
      destruct (assoc (n :: l) (loaded s1)); [|inversion H; subst; assumption].
      destruct (get_attr (attrs s1) o (last full 0%N)); [inversion H; subst; assumption|].
      destruct (load w full s1) as [s2 r2] eqn:E2. apply load_mono in E2.
      destruct E1 as [U1 C1]. destruct E2 as [U2 C2].
      assert (loaded_mono s s2 /\ tries_of (elog s2) = tries_of (elog s)) by (split; [eapply loaded_mono_trans; eauto | congruence]).
      destruct r2; inversion H; subst; assumption.
Qed.

(* the value a plain `import a.b.c` yields is sys.modules['a'] *)
Lemma exec_import_plain : forall w d s s' v,
  exec_import w (d, d) s = (s', Some v) -> assoc [root d] (loaded s') = Some v.
Proof.
  intros w d s s' v H. unfold exec_import in H. simpl in H. rewrite dotted_eqb_refl in H.
  destruct (load w d s) as [s1 r1]. destruct r1; try discriminate.
  injection H as E1 E2. subst s1. exact E2.
Qed.

Lemma mexists_chain_mono : forall w chain s s' b,
  mexists_chain w chain s = (s', b) -> loaded_mono s s' /\ tries_of (elog s') = tries_of (elog s).
Proof.
  induction chain as [|d up IH]; intros s s' b H; simpl in H.
  - inversion H; subst. split; [apply loaded_mono_refl | reflexivity].
  - destruct (assoc d (excache s)); [inversion H; subst; split; [apply loaded_mono_refl | reflexivity]|].
    destruct (assoc d (loaded s)).
    + inversion H; subst. split; [apply loaded_mono_eq; reflexivity | reflexivity].
    + destruct up as [|par up'].
      * inversion H; subst. split; [apply loaded_mono_eq; reflexivity | reflexivity].
      * destruct (mexists_chain w (par :: up') s) as [s1 pe] eqn:E1. apply IH in E1. destruct E1 as [M1 T1].
        destruct (negb pe).
        -- inversion H; subst. split; [intros k o Hk; simpl; apply M1, Hk | simpl; assumption].
        -- destruct (load w par s1) as [s2 r] eqn:E2. apply load_mono in E2. destruct E2 as [M2 T2].
           assert (loaded_mono s s2) by (eapply loaded_mono_trans; eauto).
           destruct r; inversion H; subst; (split; [intros k o Hk; simpl; auto | simpl; congruence]).
Qed.

Lemma mexists_mono : forall w d s s' b,
  mexists w d s = (s', b) -> loaded_mono s s' /\ tries_of (elog s') = tries_of (elog s).
Proof. intros. eapply mexists_chain_mono; eauto. Qed.

(* C07: ambiguity / unknown names are never guessed, the call result is the conjunction,
   provenance, and success binds every root (no NameError). *)
From Coq Require Import NArith List Bool Lia.
From Verif Require Import AutoImp.World AutoImp.Needs AutoImp.TryImport AutoImp.AutoImport AutoImp.Spec
                          AutoImp.WorldProofs AutoImp.NeedsProofs AutoImp.AutoImportProofs AutoImp.TryImportProofs.
Import ListNotations.

(* ---------- ambiguity ---------- *)

(* two or more candidates for the deepest known prefix: reported as failure, and NOTHING is executed
   or bound: only the cell map may change *)
Theorem ambiguous_fails : forall w idx m st st' r i1 i2 l,
  known_import idx m = Some (i1 :: i2 :: l) -> needs st m = true ->
  auto_import_symbol w idx m st = (st', r) ->
  r = RFalse /\ nss st' = nss st /\ loaded st' = loaded st /\ attrs st' = attrs st /\
  failed st' = failed st /\ elog st' = elog st.
Proof.
  intros w idx m st st' r i1 i2 l Hk Hn H. unfold auto_import_symbol in H. rewrite Hn in H. simpl in H.
  destruct (assoc m (cell st)); [inversion H; subst; repeat split|].
  rewrite Hk in H. inversion H; subst. repeat split.
Qed.

(* ---------- unknown ---------- *)

Lemma scan_all_none : forall ld at_ full pairs,
  (forall n p, In (n, p) pairs -> assoc p n = None) -> scan ld at_ full pairs = (true, []).
Proof.
  induction pairs as [|[n p] r IH]; intro H; simpl; [reflexivity|].
  rewrite (H n p (or_introl eq_refl)). apply IH. intros n0 p0 Hin. apply H. right. assumption.
Qed.

Lemma needs_root_in : forall s x r n v,
  needs s (x :: r) = true -> In n (nss s) -> assoc [x] n = Some v -> assoc [x] (loaded s) = Some v.
Proof.
  intros s x r n v Hn Hin Ha. apply In_nth_error in Hin. destruct Hin as [lvl Hl].
  assert (Hg : ns_get s lvl [x] = Some v) by (unfold ns_get; rewrite Hl; exact Ha).
  destruct (needs_root_bound _ _ _ _ _ Hn Hg). assumption.
Qed.

(* no DB entry for any prefix, and no importable module of the root's name (not in sys.modules,
   no file, and the exists-cache does not claim otherwise): failure, nothing bound, nothing imported *)
Theorem unknown_fails : forall w idx x r st st' res,
  known_import idx (x :: r) = None ->
  assoc [x] (loaded st) = None -> is_file w [x] = false -> assoc [x] (excache st) <> Some true ->
  needs st (x :: r) = true ->
  auto_import_symbol w idx (x :: r) st = (st', res) ->
  res = RFalse /\ nss st' = nss st /\ loaded st' = loaded st /\ elog st' = elog st.
Proof.
  intros w idx x r st st' res Hk Hl Hf Hc Hn H.
  assert (Hroot : needs st [x] = true).
  { unfold needs, needs_import. rewrite scan_all_none; [reflexivity|].
    intros n p Hin. apply in_pairs_of in Hin. destruct Hin as [Hin Hp]. simpl in Hp. destruct Hp as [Hp|[]]. subst p.
    destruct (assoc [x] n) as [v|] eqn:Ea; [|reflexivity].
    pose proof (needs_root_in _ _ _ _ _ Hn Hin Ea). congruence. }
  unfold auto_import_symbol in H. rewrite Hn in H. simpl negb in H. cbv iota in H.
  destruct (assoc (x :: r) (cell st)); [inversion H; subst; repeat split|].
  rewrite Hk in H.
  change (prefixes (x :: r)) with ([x] :: prefixes_from [x] r) in H.
  simpl prefix_loop in H. rewrite Hroot in H. simpl negb in H. cbv iota in H.
  assert (Body : (let (s1, e) := mexists w [x] st in
               if negb e then (set_cell [x] false s1, RFalse)
               else let (s2, ok) := try_import w ([x], [x]) s1 in
                    let s3 := set_cell [x] ok s2 in
                    if ok then prefix_loop w (prefixes_from [x] r) s3 else (s3, RFalse)) = (st', res) ->
              res = RFalse /\ nss st' = nss st /\ loaded st' = loaded st /\ elog st' = elog st).
  { clear H. intro H. unfold mexists in H. simpl in H.
    destruct (assoc [x] (excache st)) as [[|]|] eqn:Ec; [congruence| |].
    - simpl in H. inversion H; subst. repeat split.
    - rewrite Hl, Hf in H. simpl in H. inversion H; subst. repeat split. }
  destruct (assoc [x] (cell st)) as [[|]|]; try (apply Body; exact H).
  inversion H; subst. repeat split.
Qed.

(* ---------- the call result is the conjunction ---------- *)

Lemma symbols_false : forall w idx ms s s' r, symbols w idx ms s false = (s', r) -> r <> RTrue.
Proof.
  induction ms as [|m r0 IH]; intros s s' r H; simpl in H; [inversion H; discriminate|].
  destruct (auto_import_symbol w idx m s) as [s1 b]. destruct b; [eapply IH; eauto | eapply IH; eauto | inversion H; discriminate].
Qed.

Lemma symbols_app : forall w idx pre post s ok,
  symbols w idx (pre ++ post) s ok =
  let (s1, r1) := symbols w idx pre s ok in
  match r1 with
  | RCrash => (s1, RCrash)
  | RTrue => symbols w idx post s1 true
  | RFalse => symbols w idx post s1 false
  end.
Proof.
  induction pre as [|m r0 IH]; intros post s ok; simpl.
  - destruct ok; reflexivity.
  - destruct (auto_import_symbol w idx m s) as [s1 b]. destruct b; try apply IH. reflexivity.
Qed.

(* if the symbol call made for any one of the names reports failure, the whole call does *)
Theorem one_failure_fails_call : forall w idx pre m post st st' r,
  auto_import w idx (Some (pre ++ m :: post)) st = (st', r) ->
  snd (auto_import_symbol w idx m (fst (symbols w idx pre st true))) = RFalse ->
  r <> RTrue.
Proof.
  intros w idx pre m post st st' r H Hm. simpl in H. rewrite symbols_app in H.
  destruct (symbols w idx pre st true) as [s1 r1] eqn:E1. simpl in Hm.
  destruct r1.
  - simpl in H. destruct (auto_import_symbol w idx m s1) as [s2 b]. simpl in Hm. subst b.
    eapply symbols_false; eauto.
  - eapply symbols_false; eauto.
  - inversion H; discriminate.
Qed.

(* ---------- provenance ---------- *)

Lemma first_key_deepest : forall idx ps v,
  first_key idx ps = Some v ->
  exists pre p post, ps = pre ++ p :: post /\ assoc p idx = Some v /\ forall q, In q pre -> assoc q idx = None.
Proof.
  induction ps as [|p r IH]; intros v H; simpl in H; [discriminate|].
  destruct (assoc p idx) as [v'|] eqn:E.
  - inversion H; subst. exists [], p, r. split; [reflexivity|]. split; [assumption | intros q []].
  - destruct (IH _ H) as (pre & p' & post & E1 & E2 & E3). exists (p :: pre), p', post.
    split; [simpl; congruence|]. split; [assumption|]. intros q [Hq|Hq]; [subst; assumption | apply E3; assumption].
Qed.

(* known_import answers with the entry of the DEEPEST prefix of the name that is a key *)
Theorem known_import_deepest : forall idx m v,
  known_import idx m = Some v ->
  exists shallower p deeper, prefixes m = shallower ++ p :: deeper /\ assoc p idx = Some v /\
                             forall q, In q deeper -> assoc q idx = None.
Proof.
  intros idx m v H. apply first_key_deepest in H. destruct H as (pre & p & post & E1 & E2 & E3).
  exists (rev post), p, (rev pre). split.
  - rewrite <- (rev_involutive (prefixes m)), E1, rev_app_distr. simpl. rewrite <- app_assoc. reflexivity.
  - split; [assumption|]. intros q Hq. apply E3. apply in_rev. assumption.
Qed.

(* every binding a call adds comes from the single DB candidate of the deepest known prefix of a
   missing name, or from `import pm` for a prefix pm of a missing name as spelled in the code *)
Theorem provenance : forall w idx ms st st' ok,
  idx_ok idx -> auto_import w idx (Some ms) st = (st', ok) ->
  forall lvl k v, ns_get st lvl k = None -> ns_get st' lvl k = Some v ->
    exists m i, In m ms /\ yields w i v /\
      (known_import idx m = Some [i] \/ exists pm, In pm (prefixes m) /\ i = (pm, pm)).
Proof.
  intros w idx ms st st' ok Hidx H lvl k v H1 H2.
  destruct (only_needed _ _ _ _ _ _ Hidx H _ _ _ H1 H2) as (_ & m & Hin & _ & _ & i & Hs & Hy).
  exists m, i. split; [assumption|]. split; [assumption | exact Hs].
Qed.

(* ---------- success binds every root: executing the code raises no NameError ---------- *)

Definition root_bound (s : state) (m : dotted) : Prop := exists lvl v, ns_get s lvl [root m] = Some v.

Lemma plain_keys_prefix : forall s lvl p v m,
  plain_keys s -> ns_get s lvl p = Some v -> In p (prefixes m) -> p = [root m].
Proof.
  intros s lvl p v m Hp Hg Hin. unfold ns_get in Hg. destruct (nth_error (nss s) lvl) as [n|] eqn:En; [|discriminate].
  apply nth_error_In in En. apply assoc_in in Hg.
  pose proof (Hp _ _ _ En Hg) as L. destruct (prefixes_spec _ _ Hin) as (x & r1 & r2 & E1 & E2).
  subst p. destruct r1; simpl in L; [|discriminate]. subst m. reflexivity.
Qed.

Lemma in_nth_ns_get : forall s n p v, In n (nss s) -> assoc p n = Some v -> exists lvl, ns_get s lvl p = Some v.
Proof.
  intros s n p v Hin Ha. apply In_nth_error in Hin. destruct Hin as [lvl Hl]. exists lvl. unfold ns_get. rewrite Hl. exact Ha.
Qed.

Lemma not_needs_root_bound : forall s m, plain_keys s -> needs s m = false -> root_bound s m.
Proof.
  intros s m Hp Hn. unfold needs, needs_import in Hn. apply scan_false in Hn.
  destruct Hn as (n & p & var & Hin & Ha & _). apply in_pairs_of in Hin. destruct Hin as [Hin Hpre].
  destruct (in_nth_ns_get _ _ _ _ Hin Ha) as [lvl Hg].
  pose proof (plain_keys_prefix _ _ _ _ _ Hp Hg Hpre) as E. subst p. exists lvl, var. exact Hg.
Qed.

Lemma root_bound_added : forall P a b m, added P a b -> root_bound a m -> root_bound b m.
Proof. intros P a b m A (lvl & v & H). exists lvl, v. eapply added_frame; eauto. Qed.

Lemma root_bound_nss : forall a b m, nss b = nss a -> root_bound a m -> root_bound b m.
Proof. intros a b m E (lvl & v & H). exists lvl, v. unfold ns_get in *. rewrite E. exact H. Qed.

Lemma plain_keys_nss : forall a b, nss b = nss a -> plain_keys a -> plain_keys b.
Proof. intros a b E H n k v Hin Hk. rewrite E in Hin. eapply H; eauto. Qed.

Lemma bind_last_in : forall k v l n, In n (bind_last k v l) -> In n l \/ n = (k, v) :: last l [].
Proof.
  induction l as [|x r IH]; intros n H; simpl in H; [contradiction|].
  destruct r as [|y r'].
  - destruct H as [H|[]]. right. simpl. congruence.
  - change (bind_last k v (x :: y :: r')) with (x :: bind_last k v (y :: r')) in H. destruct H as [H|H].
    + left. left. assumption.
    + apply IH in H. destruct H as [H|H]; [left; right; assumption | right; exact H].
Qed.

Lemma last_in : forall (l : list ns), l <> [] -> In (last l []) l.
Proof.
  induction l as [|x r IH]; intro H; [congruence|]. destruct r as [|y r']; [left; reflexivity|].
  right. apply IH. discriminate.
Qed.

(* a successful _try_import leaves the top-level name of the import bound in the target namespace *)
Lemma try_import_ok_bound : forall w i s s',
  nss s <> [] -> try_import w i s = (s', true) ->
  exists v, ns_get s' (last_level s') [root (snd i)] = Some v.
Proof.
  intros w i s s' Hne H. unfold try_import in H.
  destruct (mem_imp i (failed s)); [inversion H|].
  destruct (exec_import w i s) as [s0 r] eqn:Ex.
  pose proof (exec_import_user _ _ _ _ _ Ex) as [(U1 & _ & _) _].
  destruct r as [imported|]; cbv zeta in H; [|inversion H].
  remember (add_log (ETry i true) s0) as s1 eqn:Es1.
  assert (Hn1 : nss s1 = nss s) by (subst s1; simpl; assumption). clear Es1.
  assert (Hne1 : nss s1 <> []) by (rewrite Hn1; assumption).
  destruct (assoc [root (snd i)] (last (nss s1) [])) as [pre|] eqn:Ea.
  - destruct (obj_eqb pre imported); inversion H; subst s'. exists pre.
    unfold ns_get, last_level. rewrite last_nth by assumption. exact Ea.
  - inversion H; subst s'. exists imported. rewrite ns_get_bind_last by assumption.
    assert (LL : last_level (set_nss (bind_last [root (snd i)] imported (nss s1)) s1) = last_level s1).
    { unfold last_level. simpl. rewrite bind_last_length. reflexivity. }
    rewrite LL, PeanoNat.Nat.eqb_refl, dotted_eqb_refl. reflexivity.
Qed.

Lemma try_import_plain_keys : forall w i s s' b, try_import w i s = (s', b) -> plain_keys s -> plain_keys s'.
Proof.
  intros w i s s' b H Hp. unfold try_import in H.
  destruct (mem_imp i (failed s)); [inversion H; subst; assumption|].
  destruct (exec_import w i s) as [s0 r] eqn:Ex.
  pose proof (exec_import_user _ _ _ _ _ Ex) as [(U1 & _ & _) _].
  destruct r as [imported|]; cbv zeta in H.
  - remember (add_log (ETry i true) s0) as s1 eqn:Es1.
    assert (Hn1 : nss s1 = nss s) by (subst s1; simpl; assumption). clear Es1.
    assert (P1 : plain_keys s1) by (eapply plain_keys_nss; eauto).
    destruct (assoc [root (snd i)] (last (nss s1) [])).
    + destruct (obj_eqb o imported); inversion H; subst; assumption.
    + inversion H; subst. intros n k v Hin Hk. simpl in Hin. apply bind_last_in in Hin. destruct Hin as [Hin|E].
      * eapply P1; eauto.
      * subst n. destruct Hk as [Hk|Hk]; [inversion Hk; reflexivity|].
        destruct (nss s1) as [|x r] eqn:En; [simpl in Hk; contradiction|].
        eapply P1; [rewrite En; apply last_in; discriminate | exact Hk].
  - inversion H; subst. eapply plain_keys_nss; [|exact Hp]. simpl. assumption.
Qed.

Lemma added_nonempty : forall P a b, added P a b -> nss a <> [] -> nss b <> [].
Proof. intros P a b (L & _) H E. rewrite E in L. destruct (nss a); [congruence | discriminate]. Qed.

Lemma prefix_loop_plain_keys : forall w pms s s' r, prefix_loop w pms s = (s', r) -> plain_keys s -> plain_keys s'.
Proof.
  induction pms as [|pm r0 IH]; intros s s' r H Hp; simpl in H; [inversion H; subst; assumption|].
  destruct (needs s pm); simpl negb in H; cbv iota in H; [|eapply IH; eauto].
  assert (Body : (let (s1, e) := mexists w pm s in
               if negb e then (set_cell pm false s1, RFalse)
               else let (s2, ok) := try_import w (pm, pm) s1 in
                    let s3 := set_cell pm ok s2 in
                    if ok then prefix_loop w r0 s3 else (s3, RFalse)) = (s', r) -> plain_keys s').
  { clear H. intro H. destruct (mexists w pm s) as [s1 e] eqn:Em.
    pose proof (mexists_user _ _ _ _ _ Em) as (N1 & _ & _).
    assert (P1 : plain_keys s1) by (eapply plain_keys_nss; eauto).
    destruct e; simpl negb in H; cbv iota in H.
    - destruct (try_import w (pm, pm) s1) as [s2 ok] eqn:Et. cbv zeta in H.
      pose proof (try_import_plain_keys _ _ _ _ _ Et P1) as P2.
      assert (P3 : plain_keys (set_cell pm ok s2)) by (eapply plain_keys_nss; [|exact P2]; reflexivity).
      destruct ok; [eapply IH; eauto | inversion H; subst; assumption].
    - inversion H; subst. eapply plain_keys_nss; [|exact P1]. reflexivity. }
  destruct (assoc pm (cell s)) as [[|]|]; try (apply Body; exact H). inversion H; subst. assumption.
Qed.

Lemma symbol_plain_keys : forall w idx m s s' r, auto_import_symbol w idx m s = (s', r) -> plain_keys s -> plain_keys s'.
Proof.
  intros w idx m s s' r H Hp. unfold auto_import_symbol in H.
  destruct (needs s m); simpl negb in H; cbv iota in H; [|inversion H; subst; assumption].
  destruct (assoc m (cell s)); [inversion H; subst; assumption|].
  destruct (known_import idx m) as [cands|]; [|eapply prefix_loop_plain_keys; eauto].
  destruct cands as [|i [|i2 rest]].
  - inversion H; subst. assumption.
  - destruct (needs s (snd i)); [|eapply prefix_loop_plain_keys; eauto].
    destruct (try_import w i s) as [s1 ok] eqn:Et. pose proof (try_import_plain_keys _ _ _ _ _ Et Hp) as P1.
    destruct ok; simpl negb in H; cbv iota in H.
    + cbv zeta in H.
      assert (P2 : plain_keys (set_cell (snd i) true s1)) by (eapply plain_keys_nss; [|exact P1]; reflexivity).
      destruct (dotted_eqb (snd i) m); [inversion H; subst; assumption|].
      destruct (negb (dotted_eqb (snd i) (fst i))); [inversion H; subst; assumption|].
      eapply prefix_loop_plain_keys; eauto.
    + inversion H; subst. eapply plain_keys_nss; [|exact P1]. reflexivity.
  - inversion H; subst. eapply plain_keys_nss; [|exact Hp]. reflexivity.
Qed.

Lemma prefix_loop_true_bound : forall w pms s s',
  (forall pm, In pm pms -> pm <> []) ->
  prefix_loop w pms s = (s', RTrue) -> plain_keys s -> nss s <> [] ->
  forall pm, In pm pms -> root_bound s' pm.
Proof.
  induction pms as [|pm r0 IH]; intros s s' Hne H Hp Hn pm0 Hin; [contradiction|].
  assert (Hne0 : forall q, In q r0 -> q <> []) by (intros; apply Hne; right; assumption).
  destruct (prefix_loop_added _ _ _ _ _ Hne H) as [Aall _].
  simpl in H.
  destruct (needs s pm) eqn:En; simpl negb in H; cbv iota in H.
  2:{ destruct Hin as [E|Hin].
      - subst pm0. eapply root_bound_added; [exact Aall|]. apply not_needs_root_bound; assumption.
      - eapply IH; eauto. }
  assert (Body : (let (s1, e) := mexists w pm s in
               if negb e then (set_cell pm false s1, RFalse)
               else let (s2, ok) := try_import w (pm, pm) s1 in
                    let s3 := set_cell pm ok s2 in
                    if ok then prefix_loop w r0 s3 else (s3, RFalse)) = (s', RTrue) -> root_bound s' pm0).
  { clear H. intro H. destruct (mexists w pm s) as [s1 e] eqn:Em.
    pose proof (mexists_user _ _ _ _ _ Em) as (N1 & _ & _).
    assert (P1 : plain_keys s1) by (eapply plain_keys_nss; eauto).
    assert (Hn1 : nss s1 <> []) by (rewrite N1; assumption).
    destruct e; simpl negb in H; cbv iota in H; [|inversion H].
    destruct (try_import w (pm, pm) s1) as [s2 ok] eqn:Et. cbv zeta in H.
    destruct ok; [|inversion H].
    pose proof (try_import_plain_keys _ _ _ _ _ Et P1) as P2.
    destruct (try_import_ok_bound _ _ _ _ Hn1 Et) as [v Hv]. simpl snd in Hv.
    destruct (try_import_spec _ _ _ _ _ Et) as (A2 & _ & _).
    pose proof (added_nonempty _ _ _ A2 Hn1) as Hn2.
    set (s3 := set_cell pm true s2) in *.
    assert (P3 : plain_keys s3) by (eapply plain_keys_nss; [|exact P2]; reflexivity).
    assert (Hn3 : nss s3 <> []) by exact Hn2.
    destruct (prefix_loop_added _ _ _ _ _ Hne0 H) as [A3 _].
    destruct Hin as [E|Hin].
    - subst pm0. eapply root_bound_added; [exact A3|]. exists (last_level s2), v. exact Hv.
    - eapply IH; eauto. }
  destruct (assoc pm (cell s)) as [[|]|]; try (apply Body; exact H). inversion H.
Qed.

Lemma symbol_true_bound : forall w idx m s s',
  idx_ok idx -> m <> [] -> plain_keys s -> nss s <> [] ->
  auto_import_symbol w idx m s = (s', RTrue) -> root_bound s' m.
Proof.
  intros w idx m s s' Hidx Hm Hp Hn H.
  destruct (auto_import_symbol_added _ _ _ _ _ _ H) as [Aall _].
  unfold auto_import_symbol in H.
  destruct (needs s m) eqn:En; simpl negb in H; cbv iota in H.
  2:{ inversion H; subst. apply not_needs_root_bound; assumption. }
  destruct (assoc m (cell s)); [inversion H|].
  assert (Loop : forall s0, plain_keys s0 -> nss s0 <> [] -> prefix_loop w (prefixes m) s0 = (s', RTrue) -> root_bound s' m).
  { intros s0 P0 N0 H0. destruct m as [|x r]; [congruence|].
    pose proof (prefix_loop_true_bound _ _ _ _ (prefixes_nonempty (x :: r)) H0 P0 N0 [x] (root_in_prefixes x r)) as B.
    exact B. }
  destruct (known_import idx m) as [cands|] eqn:Ek; [|apply (Loop s); assumption].
  destruct cands as [|i [|i2 rest]]; [inversion H | | inversion H].
  destruct (needs s (snd i)) eqn:Eni; [|apply (Loop s); assumption].
  destruct (try_import w i s) as [s1 ok] eqn:Et.
  destruct ok; simpl negb in H; cbv iota in H; [|inversion H].
  cbv zeta in H.
  destruct (try_import_ok_bound _ _ _ _ Hn Et) as [v Hv].
  destruct (known_import_key _ _ _ Ek) as (p & Hpre & Ha).
  destruct (Hidx _ _ i Ha (or_introl eq_refl)) as [Esnd _].
  destruct (prefixes_root _ _ Hpre) as [Rp _].
  assert (B1 : root_bound (set_cell (snd i) true s1) m).
  { exists (last_level s1), v. rewrite Esnd, Rp in Hv. exact Hv. }
  pose proof (try_import_plain_keys _ _ _ _ _ Et Hp) as P1.
  destruct (try_import_spec _ _ _ _ _ Et) as (A1 & _ & _).
  pose proof (added_nonempty _ _ _ A1 Hn) as N1.
  destruct (dotted_eqb (snd i) m); [inversion H; subst; exact B1|].
  destruct (negb (dotted_eqb (snd i) (fst i))); [inversion H; subst; exact B1|].
  apply (Loop (set_cell (snd i) true s1)); [eapply plain_keys_nss; [|exact P1]; reflexivity | exact N1 | exact H].
Qed.

Lemma symbols_true_bound : forall w idx ms s s' ok,
  idx_ok idx -> plain_keys s -> nss s <> [] ->
  symbols w idx ms s ok = (s', RTrue) ->
  forall m, In m ms -> m <> [] -> root_bound s' m.
Proof.
  induction ms as [|m0 r0 IH]; intros s s' ok Hidx Hp Hn H m Hin Hm; [contradiction|].
  simpl in H. destruct (auto_import_symbol w idx m0 s) as [s1 b] eqn:Es.
  pose proof (symbol_plain_keys _ _ _ _ _ _ Es Hp) as P1.
  destruct (auto_import_symbol_added _ _ _ _ _ _ Es) as [A1 _].
  pose proof (added_nonempty _ _ _ A1 Hn) as N1.
  destruct b.
  - destruct (symbols_added _ _ _ _ _ _ _ H) as [A2 _].
    destruct Hin as [E|Hin].
    + subst m0. eapply root_bound_added; [exact A2|]. apply (symbol_true_bound w idx m s s1); assumption.
    + eapply IH; eauto.
  - exfalso. eapply symbols_false; eauto.
  - inversion H.
Qed.

(* C07 success, in the form the property states it: after a True result every name the code reads
   has its top-level name bound in some namespace of the stack - executing the code cannot raise
   NameError for it (namespaces keyed by identifiers, as every real namespace is) *)
Theorem success_roots_bound : forall w idx ms st st',
  idx_ok idx -> plain_keys st -> nss st <> [] ->
  auto_import w idx (Some ms) st = (st', RTrue) ->
  forall m, In m ms -> m <> [] -> exists lvl v, ns_get st' lvl [root m] = Some v.
Proof. intros w idx ms st st' Hidx Hp Hn H m Hin Hm. eapply symbols_true_bound; eauto. Qed.

(* without plain_keys it is false: a dotted key "a.b" in a namespace makes a.b "not need import"
   although a is unbound (the quirk of looking up str(partial_name) in real namespaces) *)
Theorem success_roots_bound_needs_plain_keys :
  exists w idx ms st st', idx_ok idx /\ nss st <> [] /\
    auto_import w idx (Some ms) st = (st', RTrue) /\
    exists m, In m ms /\ m <> [] /\ forall lvl, ns_get st' lvl [root m] = None.
Proof.
  exists (fun _ => None), [], [[1%N; 2%N]], (ST [[([1%N; 2%N], OExt 1%N)]] [] [] [] [] [] []). eexists.
  split; [intros k v i H; discriminate|]. split; [discriminate|]. split; [vm_compute; reflexivity|].
  exists [1%N; 2%N]. split; [left; reflexivity|]. split; [discriminate|].
  intro lvl. destruct lvl as [|[|lvl]]; reflexivity.
Qed.

(* ---------- the needs-form of success (DESIGN Appendix I `success_resolves`) is false ---------- *)
(* 1=pa 2=sa 3=ta 4=xb.  pa/__init__.py says `sa = 'val'` AND pa/sa.py exists (with ta, without xb);
   pa is imported and bound.  The code reads pa.sa.xb and ta; DB: from pa.sa import ta.
   pa.sa.xb does not need import while pa.sa is the string; importing ta loads the submodule, which
   replaces the attribute pa.sa: now pa.sa.xb needs import - after a True result.
   (Reproduced on pyflyby: finding F07a; executing the code raises AttributeError, not NameError.) *)
Definition f07a_w : world :=
  fun d => if dotted_eqb d [1%N] then Some (MI true [2%N] false)
           else if dotted_eqb d [1%N; 2%N] then Some (MI false [3%N] false) else None.
Definition f07a_st : state :=
  ST [[([1%N], OMod [1%N])]] [([1%N], OMod [1%N])] [((OMod [1%N], 2%N), OVal [1%N] 2%N)] [] [] [] [].
Definition f07a_idx : index_t := index [([1;2;3], [3])]%N [] false.

Theorem success_resolves_refuted :
  exists w idx ms st st', idx_ok idx /\ plain_keys st /\
    auto_import w idx (Some ms) st = (st', RTrue) /\ exists m, In m ms /\ needs st' m = true.
Proof.
  exists f07a_w, f07a_idx, [[1;2;4]; [3]]%N, f07a_st. eexists.
  split; [apply index_ok; constructor; [right; reflexivity | constructor]|].
  split; [intros n k v Hn Hk; simpl in Hn; destruct Hn as [E|[]]; subst n; destruct Hk as [E2|[]]; inversion E2; reflexivity|].
  split; [vm_compute; reflexivity|].
  exists [1;2;4]%N. split; [left; reflexivity | vm_compute; reflexivity].
Qed.

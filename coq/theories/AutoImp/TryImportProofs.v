(* by_fullname_or_import_as: every candidate stored under a key is spelled with that key. *)
From Coq Require Import NArith List Bool Lia.
From Verif Require Import AutoImp.World AutoImp.Needs AutoImp.TryImport AutoImp.AutoImport AutoImp.Spec
                          AutoImp.WorldProofs.
Import ListNotations.

Definition keys_ok (d : index_t) : Prop :=
  forall k v i, In (k, v) d -> In i v -> snd i = k /\ imp_wf i.

Lemma assoc_in : forall A k (v : A) l, assoc k l = Some v -> In (k, v) l.
Proof.
  induction l as [|[k' v'] r IH]; intro H; simpl in H; [discriminate|].
  destruct (dotted_eqb k k') eqn:E.
  - apply dotted_eqb_eq in E. inversion H; subst. left. reflexivity.
  - right. apply IH. assumption.
Qed.

Lemma idx_add_in : forall k i d k0 v0,
  In (k0, v0) (idx_add k i d) ->
  In (k0, v0) d \/ (k0 = k /\ forall j, In j v0 -> j = i \/ exists v, In (k, v) d /\ In j v).
Proof.
  induction d as [|[k' v'] r IH]; intros k0 v0 H; simpl in H.
  - destruct H as [H|[]]. inversion H; subst. right. split; [reflexivity|]. intros j [Hj|[]]. left. congruence.
  - destruct (dotted_eqb k k') eqn:E.
    + apply dotted_eqb_eq in E. subst k'. destruct H as [H|H].
      * inversion H; subst. right. split; [reflexivity|]. intros j Hj.
        destruct (mem_imp i v').
        -- right. exists v'. split; [left; reflexivity | assumption].
        -- apply in_app_or in Hj. destruct Hj as [Hj|[Hj|[]]].
           ++ right. exists v'. split; [left; reflexivity | assumption].
           ++ left. congruence.
      * left. right. assumption.
    + destruct H as [H|H].
      * left. left. assumption.
      * apply IH in H. destruct H as [H|[H1 H2]].
        -- left. right. assumption.
        -- right. split; [assumption|]. intros j Hj. destruct (H2 j Hj) as [|(v & Hv & Hjv)]; [left; assumption|].
           right. exists v. split; [right; assumption | assumption].
Qed.

Lemma idx_add_ok : forall k i d, keys_ok d -> snd i = k -> imp_wf i -> keys_ok (idx_add k i d).
Proof.
  intros k i d Hd Hs Hw k0 v0 j Hin Hj. apply idx_add_in in Hin. destruct Hin as [Hin|[E H]].
  - eapply Hd; eauto.
  - subst k0. destruct (H j Hj) as [E|(v & Hv & Hjv)].
    + subst j. split; assumption.
    + eapply Hd; eauto.
Qed.

Lemma fold_prefix_ok : forall ps d, keys_ok d -> keys_ok (fold_left (fun d p => idx_add p (p, p) d) ps d).
Proof.
  induction ps as [|p r IH]; intros d Hd; simpl; [assumption|].
  apply IH. apply idx_add_ok; [assumption | reflexivity | left; reflexivity].
Qed.

Lemma idx_add_imp_ok : forall d i, keys_ok d -> imp_wf i -> keys_ok (idx_add_imp d i).
Proof. intros d i Hd Hw. unfold idx_add_imp. apply fold_prefix_ok. apply idx_add_ok; [assumption | reflexivity | assumption]. Qed.

Lemma fold_db_ok : forall db d, keys_ok d -> Forall imp_wf db -> keys_ok (fold_left idx_add_imp db d).
Proof.
  induction db as [|i r IH]; intros d Hd Hf; simpl; [assumption|].
  inversion Hf; subst. apply IH; [apply idx_add_imp_ok; assumption | assumption].
Qed.

Theorem index_ok : forall db forget de, Forall imp_wf db -> idx_ok (index db forget de).
Proof.
  intros db forget de Hf.
  assert (K : keys_ok (index db forget de)).
  { pose proof (fold_db_ok db [] (fun k v i H => match H with end) Hf) as K0.
    assert (K1 : keys_ok (map (fun kv => (fst kv, filter (fun i => negb (mem_imp i forget)) (snd kv)))
                              (fold_left idx_add_imp db []))).
    { intros k v i Hin Hi. apply in_map_iff in Hin. destruct Hin as ([k' v'] & E & Hin). simpl in E. inversion E; subst.
      apply filter_In in Hi. destruct Hi as [Hi _]. eapply K0; eauto. }
    unfold index. destruct de; [|exact K1].
    intros k v i Hin Hi. apply filter_In in Hin. destruct Hin as [Hin _]. eapply K1; eauto. }
  intros k v i Ha Hi. apply assoc_in in Ha. eapply K; eauto.
Qed.

(* the repaired builder never leaves an empty candidate tuple (what the callers assert) *)
Theorem index_repaired_nonempty : forall db forget k, assoc k (index db forget true) <> Some [].
Proof.
  intros db forget k H. apply assoc_in in H. unfold index in H. apply filter_In in H. destruct H as [_ H]. simpl in H. discriminate.
Qed.

(* without __forget_imports__ the builder as it is never does either *)
Lemma idx_add_nonempty : forall k i d, (forall k0, ~ In (k0, []) d) -> forall k0, ~ In (k0, []) (idx_add k i d).
Proof.
  induction d as [|[k' v'] r IH]; intros Hd k0 H; simpl in H.
  - destruct H as [H|[]]. inversion H.
  - destruct (dotted_eqb k k').
    + destruct H as [H|H].
      * inversion H as [[E1 E2]]. destruct (mem_imp i v').
        -- subst. apply (Hd k0). left. reflexivity.
        -- destruct v'; discriminate.
      * apply (Hd k0). right. assumption.
    + destruct H as [H|H].
      * apply (Hd k0). left. assumption.
      * apply (IH (fun k1 H1 => Hd k1 (or_intror H1)) k0 H).
Qed.

Lemma filter_noforget : forall v : list imp, filter (fun i => negb (mem_imp i [])) v = v.
Proof.
  induction v as [|a r IHr]; [reflexivity|].
  change (a :: filter (fun i => negb (mem_imp i [])) r = a :: r). f_equal. exact IHr.
Qed.

Theorem index_noforget_nonempty : forall db de k, assoc k (index db [] de) <> Some [].
Proof.
  intros db de k H. apply assoc_in in H.
  assert (R : forall k0, ~ In (k0, []) (fold_left idx_add_imp db [])).
  { assert (G : forall l d, (forall k0, ~ In (k0, []) d) -> forall k0, ~ In (k0, []) (fold_left idx_add_imp l d)).
    { induction l as [|i r IH]; intros d Hd; simpl; [assumption|]. apply IH. unfold idx_add_imp.
      assert (P : forall ps d0, (forall k0, ~ In (k0, []) d0) ->
                  forall k0, ~ In (k0, []) (fold_left (fun d p => idx_add p (p, p) d) ps d0)).
      { induction ps as [|p ps IHp]; intros d0 Hd0; simpl; [assumption|]. apply IHp. apply idx_add_nonempty. assumption. }
      apply P. apply idx_add_nonempty. assumption. }
    apply G. intros k0 []. }
  unfold index in H.
  assert (M : In (k, []) (map (fun kv => (fst kv, filter (fun i => negb (mem_imp i [])) (snd kv)))
                            (fold_left idx_add_imp db []))).
  { destruct de; [apply filter_In in H; tauto | assumption]. }
  apply in_map_iff in M. destruct M as ([k' v'] & E & Hin). simpl in E. injection E as E1 E2.
  rewrite filter_noforget in E2. subst k' v'. apply (R k Hin).
Qed.

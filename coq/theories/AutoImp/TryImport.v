(* M8 - ImportDB.by_fullname_or_import_as, get_known_import, _try_import.
   No proofs in this file. *)
From Coq Require Import NArith List Bool.
From Verif Require Import AutoImp.World AutoImp.Needs.
Import ListNotations.

(* ---------- by_fullname_or_import_as (pyflyby/_importdb.py:626-656) ----------
     d = defaultdict(set)
     for imp in self.known_imports.imports:
         d[imp.import_as].add(imp)
         for prefix in dotted_prefixes(imp.fullname)[:-1]:
             d[prefix].add(Import.from_parts(prefix, prefix))
     return dict((k, tuple(sorted(v - set(self.forget_imports.imports)))) for k, v in d.items())
   Values are sets: only membership and cardinality are observable by the callers.
   `drop_empty = false` is the code as it is (a key can keep the EMPTY tuple: F21);
   `drop_empty = true` is the repaired builder (keys with no candidate left are dropped). *)
Definition index_t := list (dotted * list imp).

Definition mem_imp (i : imp) (l : list imp) : bool := existsb (imp_eqb i) l.

Fixpoint idx_add (k : dotted) (i : imp) (d : index_t) : index_t :=
  match d with
  | [] => [(k, [i])]
  | (k', v) :: r => if dotted_eqb k k' then (k', if mem_imp i v then v else v ++ [i]) :: r
                    else (k', v) :: idx_add k i r
  end.

Definition idx_add_imp (d : index_t) (i : imp) : index_t :=
  fold_left (fun d p => idx_add p (p, p) d) (proper_prefixes (fst i)) (idx_add (snd i) i d).

Definition index (db forget : list imp) (drop_empty : bool) : index_t :=
  let raw := map (fun kv => (fst kv, filter (fun i => negb (mem_imp i forget)) (snd kv)))
                 (fold_left idx_add_imp db []) in
  if drop_empty then filter (fun kv => match snd kv with [] => false | _ => true end) raw else raw.

(* ---------- get_known_import (pyflyby/_autoimp.py:1749-1758) ----------
     for partial_name in fullname.prefixes[::-1]:
         try: return db.by_fullname_or_import_as[str(partial_name)]
         except KeyError: pass
     return None *)
Fixpoint first_key (idx : index_t) (ps : list dotted) : option (list imp) :=
  match ps with
  | [] => None
  | p :: r => match assoc p idx with Some v => Some v | None => first_key idx r end
  end.
Definition known_import (idx : index_t) (full : dotted) : option (list imp) :=
  first_key idx (rev (prefixes full)).

(* ---------- _try_import (pyflyby/_autoimp.py:1777-1841) ----------
     if imp in _IMPORT_FAILED: return False
     name0 = imp.import_as.split(".", 1)[0]
     try: exec(stmt, scratch); imported = scratch[name0]
     except Exception: _IMPORT_FAILED.add(imp); return False
     try: preexisting = namespace[name0]
     except KeyError: namespace[name0] = imported
     else:
         if preexisting is not imported: return False
     return True
   `namespace` is namespaces[-1]. *)
Fixpoint bind_last (k : dotted) (v : obj) (l : list ns) : list ns :=
  match l with
  | [] => []                      (* ScopeStack refuses an empty list of scopes *)
  | [n] => [(k, v) :: n]
  | n :: r => n :: bind_last k v r
  end.

Definition try_import (w : world) (i : imp) (s : state) : state * bool :=
  if mem_imp i (failed s) then (s, false)
  else
    let name0 := [root (snd i)] in
    let (s0, r) := exec_import w i s in
    let s1 := add_log (ETry i (match r with Some _ => true | None => false end)) s0 in
    match r with
    | None => (add_failed i s1, false)
    | Some imported =>
        match assoc name0 (last (nss s1) []) with
        | None => (set_nss (bind_last name0 imported (nss s1)) s1, true)
        | Some pre => if obj_eqb pre imported then (s1, true) else (s1, false)
        end
    end.

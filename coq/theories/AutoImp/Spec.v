(* M8 - vocabulary of the C06 / C07 / C20 statements (definitions only, no proofs). *)
From Coq Require Import NArith List Bool.
From Verif Require Import AutoImp.World AutoImp.Needs AutoImp.TryImport AutoImp.AutoImport.
Import ListNotations.

(* namespaces[lvl][k] *)
Definition ns_get (s : state) (lvl : nat) (k : dotted) : option obj :=
  match nth_error (nss s) lvl with
  | Some n => assoc k n
  | None => None
  end.
Definition last_level (s : state) : nat := pred (length (nss s)).

(* every binding of k anywhere in the stack is the object v *)
Definition agree (s : state) (k : dotted) (v : obj) : Prop :=
  forall lvl v', ns_get s lvl k = Some v' -> v' = v.

(* an Import as ImportDB can hold it: `import a.b.c`, or one bound identifier
   (`import a as b`, `from a import b [as c]`) *)
Definition imp_wf (i : imp) : Prop := snd i = fst i \/ length (snd i) = 1.
(* what by_fullname_or_import_as guarantees about its values (proved of `index` in TryImportProofs) *)
Definition idx_ok (idx : index_t) : Prop :=
  forall k v i, assoc k idx = Some v -> In i v -> snd i = k /\ imp_wf i.

(* where an import executed for the missing name m may come from (C07 provenance):
   the single candidate of the deepest prefix of m known to the DB, or `import pm` for a prefix
   pm of the name as spelled in the code *)
Definition source_of (idx : index_t) (m : dotted) (i : imp) : Prop :=
  known_import idx m = Some [i] \/ exists pm, In pm (prefixes m) /\ i = (pm, pm).

(* v is what executing the import statement i yields (in some state the run went through) *)
Definition yields (w : world) (i : imp) (v : obj) : Prop :=
  exists sA sB, exec_import w i sA = (sB, Some v).

(* the ghost log: import statements whose execution raised *)
Definition failed_tries (l : list ev) : list imp :=
  flat_map (fun e => match e with ETry i false => [i] | _ => [] end) l.

Definition is_clear (o : op) : bool := match o with OClearFailed => true | _ => false end.

(* all effects are reads (the effect type has no other constructor) *)
Definition is_read (e : effect) : Prop := match e with GetAttr _ _ => True end.

(* every key of every namespace is a plain identifier (real user namespaces) *)
Definition plain_keys (s : state) : Prop :=
  forall n k v, In n (nss s) -> In (k, v) n -> length k = 1.

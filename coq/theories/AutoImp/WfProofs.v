(* C07 success_resolves in the needs-form: the invariant WF (Inv.v) is preserved by every operation of
   the model, "does not need import" is stable under the extensions the operations make, and a
   successful auto_import_symbol leaves its name resolved. *)
From Coq Require Import NArith List Bool Lia.
From Verif Require Import AutoImp.World AutoImp.Needs AutoImp.TryImport AutoImp.AutoImport AutoImp.Spec AutoImp.Inv
                          AutoImp.WorldProofs AutoImp.NeedsProofs AutoImp.AutoImportProofs AutoImp.TryImportProofs
                          AutoImp.ResolveProofs.
Import ListNotations.

Definition ext (s s' : state) : Prop :=
  loaded_mono s s' /\
  (forall o k v, get_attr (attrs s) o k = Some v -> get_attr (attrs s') o k = Some v).

Lemma ext_refl : forall s, ext s s.
Proof. intro s. split; [apply loaded_mono_refl | auto]. Qed.
Lemma ext_trans : forall a b c, ext a b -> ext b c -> ext a c.
Proof. intros a b c [M1 A1] [M2 A2]. split; [eapply loaded_mono_trans; eauto | auto]. Qed.

(* ---------- one module load ---------- *)
Definition load_one (w : world) (p : dotted) (s : state) : state :=
  bind_in_parent p (init_attrs p (static_attrs w p) (set_loaded p (OMod p) (add_log (EExec p true) s))).

Lemma get_attr_cons : forall o' k' v at_ o k,
  get_attr (((o', k'), v) :: at_) o k = if obj_eqb o o' && (k =? k')%N then Some v else get_attr at_ o k.
Proof. reflexivity. Qed.

Lemma get_attr_init : forall p ks s o k,
  get_attr (attrs (init_attrs p ks s)) o k =
  if obj_eqb o (OMod p) && existsb (N.eqb k) ks then Some (OVal p k) else get_attr (attrs s) o k.
Proof.
  induction ks as [|k0 r IH]; intros s o k; simpl.
  - rewrite andb_false_r. reflexivity.
  - rewrite IH. destruct (obj_eqb o (OMod p)); simpl; [|reflexivity].
    destruct (k =? k0)%N eqn:E; simpl; [|reflexivity]. apply N.eqb_eq in E. subst. reflexivity.
Qed.

Lemma parent_app : forall d, d <> [] -> parent d ++ [last d 0%N] = d.
Proof. intros d H. unfold parent. symmetry. apply app_removelast_last. assumption. Qed.

Lemma parent_length : forall d, parent d <> [] -> 2 <= length d.
Proof.
  intros d H. destruct d as [|x [|y r]]; simpl in *; try congruence; lia.
Qed.

Lemma parent_neq : forall d, d <> [] -> parent d <> d.
Proof.
  intros d H E. pose proof (parent_app d H) as P. rewrite E in P.
  apply (f_equal (@length name)) in P. rewrite app_length in P. simpl in P. lia.
Qed.

Lemma loaded_load_one : forall w p s, loaded (load_one w p s) = (p, OMod p) :: loaded s.
Proof.
  intros. unfold load_one.
  destruct (bind_in_parent_fields p (init_attrs p (static_attrs w p) (set_loaded p (OMod p) (add_log (EExec p true) s)))) as (_ & _ & _ & B4 & _).
  destruct (init_attrs_fields p (static_attrs w p) (set_loaded p (OMod p) (add_log (EExec p true) s))) as (_ & _ & _ & I4 & _).
  rewrite B4, I4. reflexivity.
Qed.

Lemma nss_load_one : forall w p s, nss (load_one w p s) = nss s.
Proof.
  intros. unfold load_one.
  destruct (bind_in_parent_fields p (init_attrs p (static_attrs w p) (set_loaded p (OMod p) (add_log (EExec p true) s)))) as (B1 & _).
  destruct (init_attrs_fields p (static_attrs w p) (set_loaded p (OMod p) (add_log (EExec p true) s))) as (I1 & _).
  rewrite B1, I1. reflexivity.
Qed.

(* attributes after one load, when the parent (if any) is registered as the module of its name *)
Lemma get_attr_load_one : forall w p s o k,
  p <> [] ->
  (parent p = [] \/ assoc (parent p) (loaded s) = Some (OMod (parent p))) ->
  get_attr (attrs (load_one w p s)) o k =
  if negb (match parent p with [] => true | _ => false end) && obj_eqb o (OMod (parent p)) && (k =? last p 0%N)%N
  then Some (OMod p)
  else if obj_eqb o (OMod p) && existsb (N.eqb k) (static_attrs w p) then Some (OVal p k)
  else get_attr (attrs s) o k.
Proof.
  intros w p s o k Hp Hpar. unfold load_one.
  set (s3 := init_attrs p (static_attrs w p) (set_loaded p (OMod p) (add_log (EExec p true) s))).
  assert (L3 : loaded s3 = (p, OMod p) :: loaded s).
  { subst s3. destruct (init_attrs_fields p (static_attrs w p) (set_loaded p (OMod p) (add_log (EExec p true) s))) as (_ & _ & _ & I4 & _). rewrite I4. reflexivity. }
  assert (A3 : get_attr (attrs s3) o k =
               if obj_eqb o (OMod p) && existsb (N.eqb k) (static_attrs w p) then Some (OVal p k) else get_attr (attrs s) o k).
  { subst s3. rewrite get_attr_init. reflexivity. }
  unfold bind_in_parent. destruct (parent p) as [|x r] eqn:Epar.
  - simpl. exact A3.
  - destruct Hpar as [Hpar|Hpar]; [discriminate|].
    rewrite L3. rewrite assoc_cons.
    assert (Hneq : dotted_eqb (x :: r) p = false).
    { apply dotted_eqb_neq. rewrite <- Epar. apply parent_neq. assumption. }
    rewrite Hneq, Hpar. simpl attrs. rewrite get_attr_cons. simpl negb. rewrite andb_true_l.
    destruct (obj_eqb o (OMod (x :: r)) && (k =? last p 0%N)%N); [reflexivity | exact A3].
Qed.

Lemma existsb_In : forall k ks, existsb (N.eqb k) ks = true -> In k ks.
Proof. intros k ks H. apply existsb_exists in H. destruct H as (x & Hx & E). apply N.eqb_eq in E. subst. assumption. Qed.

Lemma load_one_ok : forall w p s,
  noclash w -> WF w s -> p <> [] -> assoc p (loaded s) = None -> is_file w p = true ->
  (parent p = [] \/ assoc (parent p) (loaded s) <> None) ->
  WF w (load_one w p s) /\ ext s (load_one w p s).
Proof.
  intros w p s Hnc Hwf Hp Hnl Hfile Hpar.
  assert (Hpar' : parent p = [] \/ assoc (parent p) (loaded s) = Some (OMod (parent p))).
  { destruct Hpar as [H|H]; [left; assumption|]. right.
    destruct (assoc (parent p) (loaded s)) as [o|] eqn:E; [|congruence]. rewrite (wf_loaded _ _ Hwf _ _ E). reflexivity. }
  pose proof (fun o k => get_attr_load_one w p s o k Hp Hpar') as GA.
  pose proof (loaded_load_one w p s) as LL.
  assert (LA : forall d, assoc d (loaded (load_one w p s)) = if dotted_eqb d p then Some (OMod p) else assoc d (loaded s)).
  { intro d. rewrite LL. apply assoc_cons. }
  assert (Mono : loaded_mono s (load_one w p s)).
  { intros k o Hk. rewrite LA. destruct (dotted_eqb k p) eqn:E; [|assumption]. apply dotted_eqb_eq in E. subst. congruence. }
  (* old attributes survive *)
  assert (Stable : forall o k v, get_attr (attrs s) o k = Some v -> get_attr (attrs (load_one w p s)) o k = Some v).
  { intros o k v Hg. rewrite GA.
    destruct (negb match parent p with [] => true | _ :: _ => false end && obj_eqb o (OMod (parent p)) && (k =? last p 0)%N) eqn:E1.
    - apply andb_true_iff in E1. destruct E1 as [E1 Ek]. apply andb_true_iff in E1. destruct E1 as [Epn Eo].
      apply obj_eqb_eq in Eo. apply N.eqb_eq in Ek. subst o k.
      assert (Pn : parent p ++ [last p 0%N] = p) by (apply parent_app; assumption).
      pose proof (wf_sub _ _ Hwf _ _ _ Hg) as Hs. rewrite Pn in Hs. rewrite (Hs Hfile). reflexivity.
    - destruct (obj_eqb o (OMod p) && existsb (N.eqb k) (static_attrs w p)) eqn:E2; [|assumption].
      apply andb_true_iff in E2. destruct E2 as [Eo _]. apply obj_eqb_eq in Eo. subst o.
      exfalso. apply (wf_attr_owner _ _ Hwf _ _ _ Hg). assumption. }
  split; [|split; assumption].
  (* new attribute lookup, by cases *)
  assert (Cases : forall o k v, get_attr (attrs (load_one w p s)) o k = Some v ->
            (parent p <> [] /\ o = OMod (parent p) /\ k = last p 0%N /\ v = OMod p) \/
            (o = OMod p /\ In k (static_attrs w p) /\ v = OVal p k) \/
            get_attr (attrs s) o k = Some v).
  { intros o k v Hg. rewrite GA in Hg.
    destruct (negb match parent p with [] => true | _ :: _ => false end && obj_eqb o (OMod (parent p)) && (k =? last p 0)%N) eqn:E1.
    - apply andb_true_iff in E1. destruct E1 as [E1 Ek]. apply andb_true_iff in E1. destruct E1 as [Epn Eo].
      apply obj_eqb_eq in Eo. apply N.eqb_eq in Ek. left.
      assert (Hpn : parent p <> []) by (intro E0; rewrite E0 in Epn; discriminate).
      inversion Hg; subst. split; [exact Hpn|]. split; [reflexivity|]. split; reflexivity.
    - destruct (obj_eqb o (OMod p) && existsb (N.eqb k) (static_attrs w p)) eqn:E2; [|right; right; assumption].
      apply andb_true_iff in E2. destruct E2 as [Eo Ek]. apply obj_eqb_eq in Eo. apply existsb_In in Ek.
      inversion Hg; subst. right. left. repeat split. assumption. }
  constructor.
  - (* wf_loaded *) intros d o Hd. rewrite LA in Hd. destruct (dotted_eqb d p) eqn:E.
    + apply dotted_eqb_eq in E. subst. congruence.
    + eapply wf_loaded; eauto.
  - (* wf_ns *) intros n k d Hin Ha. rewrite nss_load_one in Hin. apply Mono. eapply wf_ns; eauto.
  - (* wf_attr_alive *) intros o k d Hg. destruct (Cases _ _ _ Hg) as [(Hpn & Eo & Ek & Ev)|[(Eo & Ek & Ev)|Hold]].
    + inversion Ev; subst d. split; [rewrite LA, dotted_eqb_refl; reflexivity | apply parent_length; assumption].
    + discriminate.
    + destruct (wf_attr_alive _ _ Hwf _ _ _ Hold) as [H1 H2]. split; [apply Mono; assumption | assumption].
  - (* wf_attr_owner *) intros d k v Hg. destruct (Cases _ _ _ Hg) as [(Hpn & Eo & Ek & Ev)|[(Eo & Ek & Ev)|Hold]].
    + inversion Eo; subst d. destruct Hpar' as [H|H]; [congruence|]. rewrite (Mono _ _ H). discriminate.
    + inversion Eo; subst d. rewrite LA, dotted_eqb_refl. discriminate.
    + pose proof (wf_attr_owner _ _ Hwf _ _ _ Hold) as H. destruct (assoc d (loaded s)) as [o|] eqn:E; [|congruence].
      rewrite (Mono _ _ E). discriminate.
  - (* wf_parent *) intros d Hd Hpd. rewrite LA in Hd. destruct (dotted_eqb d p) eqn:E.
    + apply dotted_eqb_eq in E. subst d. destruct Hpar' as [H|H]; [congruence|]. split.
      * rewrite (Mono _ _ H). discriminate.
      * rewrite GA.
        assert (E1 : negb match parent p with [] => true | _ :: _ => false end = true) by (destruct (parent p); [congruence | reflexivity]).
        rewrite E1, obj_eqb_refl, N.eqb_refl. reflexivity.
    + destruct (wf_parent _ _ Hwf d Hd Hpd) as [H1 H2]. split.
      * destruct (assoc (parent d) (loaded s)) as [o|] eqn:E2; [|congruence]. rewrite (Mono _ _ E2). discriminate.
      * apply Stable. assumption.
  - (* wf_sub *) intros d k v Hg Hf. destruct (Cases _ _ _ Hg) as [(Hpn & Eo & Ek & Ev)|[(Eo & Ek & Ev)|Hold]].
    + inversion Eo; subst d k v. rewrite parent_app by assumption. reflexivity.
    + inversion Eo; subst d. rewrite (Hnc p k Ek) in Hf. discriminate.
    + eapply wf_sub; eauto.
Qed.

Lemma WF_same : forall w s s', nss s' = nss s -> loaded s' = loaded s -> attrs s' = attrs s -> WF w s -> WF w s'.
Proof.
  intros w s s' E1 E2 E3 H. destruct H as [H1 H2 H3 H4 H5 H6].
  constructor; rewrite ?E1, ?E2, ?E3; assumption.
Qed.

Lemma ext_same : forall s s', loaded s' = loaded s -> attrs s' = attrs s -> ext s s'.
Proof. intros s s' E1 E2. split; [apply loaded_mono_eq; assumption | rewrite E2; auto]. Qed.

Lemma ext_same_l : forall a a' b, loaded a' = loaded a -> attrs a' = attrs a -> ext a b -> ext a' b.
Proof. intros a a' b E1 E2 [M A]. split; [intros k o H; apply M; rewrite <- E1; assumption | rewrite E2; assumption]. Qed.

Lemma removelast_snoc : forall (acc : dotted) x, parent (acc ++ [x]) = acc.
Proof. intros. unfold parent. apply removelast_last. Qed.

Lemma load_prefixes_from_ok : forall w d acc s s' r,
  noclash w -> WF w s -> (acc = [] \/ assoc acc (loaded s) <> None) ->
  load_prefixes w (prefixes_from acc d) s = (s', r) ->
  WF w s' /\ ext s s' /\ (r = LOk -> forall p, In p (prefixes_from acc d) -> assoc p (loaded s') <> None).
Proof.
  induction d as [|x d IH]; intros acc s s' r Hnc Hwf Hacc H; simpl in H |- *.
  { inversion H; subst. split; [assumption|]. split; [apply ext_refl | intros _ p []]. }
  remember (acc ++ [x]) as p eqn:Ep in *.
  assert (Hp : p <> []) by (rewrite Ep; destruct acc; discriminate).
  assert (Hpar : parent p = acc) by (rewrite Ep; apply removelast_snoc).
  clear Ep.
  destruct (assoc p (loaded s)) as [o|] eqn:El.
  - assert (Hacc' : p = [] \/ assoc p (loaded s) <> None) by (right; congruence).
    destruct (IH _ _ _ _ Hnc Hwf Hacc' H) as (W & E & A). split; [assumption|]. split; [assumption|].
    intros Hr q [Hq|Hq]; [pose proof (proj1 E _ _ El) as Hm; rewrite <- Hq, Hm; discriminate | apply A; assumption].
  - destruct (negb (is_file w p)) eqn:Ef.
    { inversion H; subst. split; [assumption|]. split; [apply ext_refl | discriminate]. }
    destruct (raises w p).
    { inversion H; subst. split; [eapply WF_same; [| | |exact Hwf]; reflexivity|]. split; [apply ext_same; reflexivity | discriminate]. }
    apply negb_false_iff in Ef.
    assert (Hpar' : parent p = [] \/ assoc (parent p) (loaded s) <> None) by (rewrite Hpar; assumption).
    destruct (load_one_ok w p s Hnc Hwf Hp El Ef Hpar') as [W1 E1].
    change (bind_in_parent p (init_attrs p (static_attrs w p) (set_loaded p (OMod p) (add_log (EExec p true) s)))) with (load_one w p s) in H.
    assert (Lp : assoc p (loaded (load_one w p s)) = Some (OMod p)).
    { rewrite loaded_load_one, assoc_cons, dotted_eqb_refl. reflexivity. }
    assert (Hacc' : p = [] \/ assoc p (loaded (load_one w p s)) <> None) by (right; congruence).
    destruct (IH _ _ _ _ Hnc W1 Hacc' H) as (W & E & A). split; [assumption|]. split; [eapply ext_trans; eauto|].
    intros Hr q [Hq|Hq]; [pose proof (proj1 E _ _ Lp) as Hm; rewrite <- Hq, Hm; discriminate | apply A; assumption].
Qed.

Lemma load_ok : forall w d s s' r,
  noclash w -> WF w s -> load w d s = (s', r) ->
  WF w s' /\ ext s s' /\ (r = LOk -> forall p, In p (prefixes d) -> assoc p (loaded s') <> None).
Proof. intros w d s s' r Hnc Hwf H. eapply (load_prefixes_from_ok w d []); eauto. Qed.

(* a value is "alive": if it is a module object, it is the registered module of its name *)
Definition alive (s : state) (v : obj) : Prop := forall d, v = OMod d -> assoc d (loaded s) = Some (OMod d).

Lemma alive_loaded : forall w s d v, WF w s -> assoc d (loaded s) = Some v -> alive s v.
Proof. intros w s d v Hwf H d' E. subst. pose proof (wf_loaded _ _ Hwf _ _ H) as E. inversion E; subst. assumption. Qed.

Lemma alive_attr : forall w s o k v, WF w s -> get_attr (attrs s) o k = Some v -> alive s v.
Proof. intros w s o k v Hwf H d E. subst. apply (wf_attr_alive _ _ Hwf _ _ _ H). Qed.

Lemma alive_ext : forall s s' v, ext s s' -> alive s v -> alive s' v.
Proof. intros s s' v [M _] H d E. apply M. apply H. assumption. Qed.

Lemma exec_import_ok : forall w i s s' r,
  noclash w -> WF w s -> exec_import w i s = (s', r) ->
  WF w s' /\ ext s s' /\ (forall v, r = Some v -> alive s' v) /\
  (forall v, r = Some v -> snd i = fst i -> forall p, In p (prefixes (fst i)) -> assoc p (loaded s') <> None).
Proof.
  intros w [full as_] s s' r Hnc Hwf H. unfold exec_import in H. simpl fst in *. simpl snd in *.
  destruct (dotted_eqb as_ full) eqn:Eq.
  - destruct (load w full s) as [s1 r1] eqn:E1. destruct (load_ok _ _ _ _ _ Hnc Hwf E1) as (W1 & X1 & A1).
    destruct r1; inversion H; subst; (split; [assumption|]; split; [assumption|]; split; [|]); try (intros v Hv; discriminate).
    + intros v Hv. eapply alive_loaded; eauto.
    + intros v Hv _ p Hp. apply A1; [reflexivity | assumption].
  - assert (Hne : as_ <> full) by (apply dotted_eqb_neq; assumption).
    destruct (parent full) as [|n l] eqn:Ep.
    + destruct (load w full s) as [s1 r1] eqn:E1. destruct (load_ok _ _ _ _ _ Hnc Hwf E1) as (W1 & X1 & A1).
      destruct r1; inversion H; subst; (split; [assumption|]; split; [assumption|]; split; [|]); try (intros v Hv; discriminate); try (intros v Hv Hc; congruence).
      intros v Hv. eapply alive_loaded; eauto.
    + destruct (load w (n :: l) s) as [s1 r1] eqn:E1. destruct (load_ok _ _ _ _ _ Hnc Hwf E1) as (W1 & X1 & A1).
      destruct r1; try (inversion H; subst; (split; [assumption|]; split; [assumption|]; split; [|]); intros v Hv; discriminate).
      destruct (assoc (n :: l) (loaded s1)) as [m|] eqn:Em;
        [|inversion H; subst; (split; [assumption|]; split; [assumption|]; split; [|]); intros v Hv; discriminate].
      destruct (get_attr (attrs s1) m (last full 0%N)) as [v0|] eqn:Eg.
      * inversion H; subst. split; [assumption|]. split; [assumption|]. split.
        -- intros v Hv. inversion Hv; subst. eapply alive_attr; eauto.
        -- intros v Hv Hc. congruence.
      * destruct (load w full s1) as [s2 r2] eqn:E2. destruct (load_ok _ _ _ _ _ Hnc W1 E2) as (W2 & X2 & A2).
        assert (X : ext s s2) by (eapply ext_trans; eauto).
        destruct r2; inversion H; subst; (split; [assumption|]; split; [assumption|]; split; [|]); try (intros v Hv; discriminate); try (intros v Hv Hc; congruence).
        intros v Hv. eapply alive_loaded; eauto.
Qed.

Lemma mexists_chain_ok : forall w chain s s' b,
  noclash w -> WF w s -> mexists_chain w chain s = (s', b) -> WF w s' /\ ext s s'.
Proof.
  induction chain as [|d up IH]; intros s s' b Hnc Hwf H; simpl in H.
  - inversion H; subst. split; [assumption | apply ext_refl].
  - destruct (assoc d (excache s)); [inversion H; subst; split; [assumption | apply ext_refl]|].
    assert (SC : forall s0 bb, WF w s0 -> ext s s0 -> WF w (set_excache d bb s0) /\ ext s (set_excache d bb s0)).
    { intros s0 bb W X. split; [eapply WF_same; [| | |exact W]; reflexivity|].
      eapply ext_trans; [exact X | apply ext_same; reflexivity]. }
    destruct (assoc d (loaded s)).
    + inversion H; subst. apply SC; [assumption | apply ext_refl].
    + destruct up as [|par up'].
      * inversion H; subst. apply SC; [assumption | apply ext_refl].
      * destruct (mexists_chain w (par :: up') s) as [s1 pe] eqn:E1. destruct (IH _ _ _ Hnc Hwf E1) as [W1 X1].
        destruct (negb pe).
        -- inversion H; subst. apply SC; assumption.
        -- destruct (load w par s1) as [s2 r] eqn:E2. destruct (load_ok _ _ _ _ _ Hnc W1 E2) as (W2 & X2 & _).
           assert (X : ext s s2) by (eapply ext_trans; eauto).
           destruct r; inversion H; subst; apply SC; assumption.
Qed.

Lemma mexists_ok : forall w d s s' b, noclash w -> WF w s -> mexists w d s = (s', b) -> WF w s' /\ ext s s'.
Proof. intros. eapply mexists_chain_ok; eauto. Qed.

(* ---------- _try_import and above keep WF, and only extend sys.modules / attributes ---------- *)

Lemma try_import_wf : forall w i s s' b,
  noclash w -> WF w s -> try_import w i s = (s', b) -> WF w s' /\ ext s s'.
Proof.
  intros w i s s' b Hnc Hwf H. unfold try_import in H.
  destruct (mem_imp i (failed s)); [inversion H; subst; split; [assumption | apply ext_refl]|].
  destruct (exec_import w i s) as [s0 r] eqn:Ex.
  destruct (exec_import_ok _ _ _ _ _ Hnc Hwf Ex) as (W0 & X0 & Al & _).
  destruct r as [imported|]; cbv zeta in H.
  - remember (add_log (ETry i true) s0) as s1 eqn:Es1.
    assert (W1 : WF w s1) by (subst s1; eapply WF_same; [| | |exact W0]; reflexivity).
    assert (X1 : ext s s1) by (subst s1; eapply ext_trans; [exact X0 | apply ext_same; reflexivity]).
    assert (A1 : alive s1 imported) by (subst s1; intros d E; apply (Al _ eq_refl d E)).
    clear Es1.
    destruct (assoc [root (snd i)] (last (nss s1) [])).
    + destruct (obj_eqb o imported); inversion H; subst; split; assumption.
    + inversion H; subst. split.
      * destruct W1 as [H1 H2 H3 H4 H5 H6]. constructor; try assumption.
        intros n k d Hin Ha. change (loaded (set_nss (bind_last [root (snd i)] imported (nss s1)) s1)) with (loaded s1).
        change (In n (bind_last [root (snd i)] imported (nss s1))) in Hin. apply bind_last_in in Hin. destruct Hin as [Hin|E]; [eapply H2; eauto|].
        subst n. rewrite assoc_cons in Ha. destruct (dotted_eqb k [root (snd i)]).
        -- inversion Ha; subst. apply A1. reflexivity.
        -- assert (Hne : nss s1 <> []) by (intro En; rewrite En in Ha; simpl in Ha; discriminate).
           eapply H2; [apply last_in; exact Hne | exact Ha].
      * eapply ext_trans; [exact X1 | apply ext_same; reflexivity].
  - inversion H; subst. split; [eapply WF_same; [| | |exact W0]; reflexivity|].
    eapply ext_trans; [exact X0 | apply ext_same; reflexivity].
Qed.

Lemma set_cell_wf : forall w k b s, WF w s -> WF w (set_cell k b s).
Proof. intros. eapply WF_same; [| | |eassumption]; reflexivity. Qed.
Lemma set_cell_ext : forall a k b s, ext a s -> ext a (set_cell k b s).
Proof. intros. eapply ext_trans; [eassumption | apply ext_same; reflexivity]. Qed.

Lemma prefix_loop_wf : forall w pms s s' r,
  noclash w -> WF w s -> prefix_loop w pms s = (s', r) -> WF w s' /\ ext s s'.
Proof.
  induction pms as [|pm r0 IH]; intros s s' r Hnc Hwf H; simpl in H.
  { inversion H; subst. split; [assumption | apply ext_refl]. }
  destruct (needs s pm); simpl negb in H; cbv iota in H; [|eapply IH; eauto].
  assert (Body : (let (s1, e) := mexists w pm s in
               if negb e then (set_cell pm false s1, RFalse)
               else let (s2, ok) := try_import w (pm, pm) s1 in
                    let s3 := set_cell pm ok s2 in
                    if ok then prefix_loop w r0 s3 else (s3, RFalse)) = (s', r) -> WF w s' /\ ext s s').
  { clear H. intro H. destruct (mexists w pm s) as [s1 e] eqn:Em.
    destruct (mexists_ok _ _ _ _ _ Hnc Hwf Em) as [W1 X1].
    destruct e; simpl negb in H; cbv iota in H.
    - destruct (try_import w (pm, pm) s1) as [s2 ok] eqn:Et. cbv zeta in H.
      destruct (try_import_wf _ _ _ _ _ Hnc W1 Et) as [W2 X2].
      assert (X : ext s (set_cell pm ok s2)) by (apply set_cell_ext; eapply ext_trans; eauto).
      destruct ok.
      + destruct (IH _ _ _ Hnc (set_cell_wf _ _ _ _ W2) H) as [W3 X3]. split; [assumption | eapply ext_trans; eauto].
      + inversion H; subst. split; [apply set_cell_wf; assumption | assumption].
    - inversion H; subst. split; [apply set_cell_wf; assumption | apply set_cell_ext; assumption]. }
  destruct (assoc pm (cell s)) as [[|]|]; try (apply Body; exact H).
  inversion H; subst. split; [assumption | apply ext_refl].
Qed.

Lemma symbol_wf : forall w idx m s s' r,
  noclash w -> WF w s -> auto_import_symbol w idx m s = (s', r) -> WF w s' /\ ext s s'.
Proof.
  intros w idx m s s' r Hnc Hwf H. unfold auto_import_symbol in H.
  destruct (needs s m); simpl negb in H; cbv iota in H; [|inversion H; subst; split; [assumption | apply ext_refl]].
  destruct (assoc m (cell s)); [inversion H; subst; split; [assumption | apply ext_refl]|].
  destruct (known_import idx m) as [cands|]; [|eapply prefix_loop_wf; eauto].
  destruct cands as [|i [|i2 rest]].
  - inversion H; subst. split; [assumption | apply ext_refl].
  - destruct (needs s (snd i)); [|eapply prefix_loop_wf; eauto].
    destruct (try_import w i s) as [s1 ok] eqn:Et. destruct (try_import_wf _ _ _ _ _ Hnc Hwf Et) as [W1 X1].
    destruct ok; simpl negb in H; cbv iota in H.
    + cbv zeta in H.
      pose proof (set_cell_wf w (snd i) true _ W1) as W2. pose proof (set_cell_ext s (snd i) true _ X1) as X2.
      destruct (dotted_eqb (snd i) m); [inversion H; subst; split; assumption|].
      destruct (negb (dotted_eqb (snd i) (fst i))); [inversion H; subst; split; assumption|].
      destruct (prefix_loop_wf _ _ _ _ _ Hnc W2 H) as [W3 X3]. split; [assumption | eapply ext_trans; eauto].
    + inversion H; subst. split; [apply set_cell_wf; assumption | apply set_cell_ext; assumption].
  - inversion H; subst. split; [apply set_cell_wf; assumption | apply set_cell_ext; apply ext_refl].
Qed.

Lemma symbols_wf : forall w idx ms s ok s' r,
  noclash w -> WF w s -> symbols w idx ms s ok = (s', r) -> WF w s' /\ ext s s'.
Proof.
  induction ms as [|m r0 IH]; intros s ok s' r Hnc Hwf H; simpl in H.
  { inversion H; subst. split; [assumption | apply ext_refl]. }
  destruct (auto_import_symbol w idx m s) as [s1 b] eqn:Es. destruct (symbol_wf _ _ _ _ _ _ Hnc Hwf Es) as [W1 X1].
  destruct b.
  - destruct (IH _ _ _ _ Hnc W1 H) as [W2 X2]. split; [assumption | eapply ext_trans; eauto].
  - destruct (IH _ _ _ _ Hnc W1 H) as [W2 X2]. split; [assumption | eapply ext_trans; eauto].
  - inversion H; subst. split; assumption.
Qed.

(* ---------- "does not need import" is stable under extension ---------- *)

Lemma walk_stable : forall w s s' parts var pname,
  WF w s -> WF w s' -> ext s s' -> alive s var ->
  fst (walk (loaded s) (attrs s) var pname parts) <> WAttrErr ->
  fst (walk (loaded s') (attrs s') var pname parts) <> WAttrErr.
Proof.
  intros w s s' parts. induction parts as [|part rest IH]; intros var pname Hwf Hwf' [M A] Hal H; simpl in *; [discriminate|].
  destruct (assoc pname (loaded s)) as [m|] eqn:El.
  - rewrite (M _ _ El). destruct (obj_eqb var m) eqn:Eo; simpl in *; [|discriminate].
    destruct (get_attr (attrs s) var part) as [v|] eqn:Eg; [|simpl in H; congruence].
    rewrite (A _ _ _ Eg).
    destruct (walk (loaded s) (attrs s) v (pname ++ [part]) rest) as [r1 t1] eqn:W1.
    destruct (walk (loaded s') (attrs s') v (pname ++ [part]) rest) as [r2 t2] eqn:W2. simpl in *.
    pose proof (IH v (pname ++ [part]) Hwf Hwf' (conj M A) (alive_attr _ _ _ _ _ Hwf Eg)) as IH'.
    rewrite W1, W2 in IH'. simpl in IH'. apply IH'. assumption.
  - destruct (assoc pname (loaded s')) as [o|] eqn:El'; [|simpl; discriminate].
    pose proof (wf_loaded _ _ Hwf' _ _ El') as Eo. subst o.
    destruct (obj_eqb var (OMod pname)) eqn:Ev; simpl; [|discriminate].
    apply obj_eqb_eq in Ev. rewrite (Hal _ Ev) in El. discriminate.
Qed.

Lemma needs_false_iff : forall s m,
  needs s m = false <->
  exists lvl p var, In p (prefixes m) /\ ns_get s lvl p = Some var /\
    fst (walk (loaded s) (attrs s) var p (skipn (length p) m)) <> WAttrErr.
Proof.
  intros s m. unfold needs, needs_import. rewrite scan_false. split.
  - intros (n & p & var & Hin & Ha & Hw). apply in_pairs_of in Hin. destruct Hin as [Hn Hp].
    destruct (in_nth_ns_get _ _ _ _ Hn Ha) as [lvl Hg]. exists lvl, p, var. repeat split; assumption.
  - intros (lvl & p & var & Hp & Hg & Hw). apply ns_get_in in Hg. destruct Hg as (n & Hn & Ha).
    exists n, p, var. split; [apply in_pairs_of; split; assumption|]. split; assumption.
Qed.

Lemma alive_ns : forall w s lvl k v, WF w s -> ns_get s lvl k = Some v -> alive s v.
Proof.
  intros w s lvl k v Hwf Hg d E. subst. apply ns_get_in in Hg. destruct Hg as (n & Hn & Ha). eapply wf_ns; eauto.
Qed.

Lemma needs_stable : forall w s s' m,
  WF w s -> WF w s' -> ext s s' ->
  (forall lvl k v, ns_get s lvl k = Some v -> ns_get s' lvl k = Some v) ->
  needs s m = false -> needs s' m = false.
Proof.
  intros w s s' m Hwf Hwf' X F H. apply needs_false_iff in H. destruct H as (lvl & p & var & Hp & Hg & Hw).
  apply needs_false_iff. exists lvl, p, var. split; [assumption|]. split; [apply F; assumption|].
  apply (walk_stable w s s'); try assumption. eapply alive_ns; eauto.
Qed.

(* ---------- a successful symbol call leaves its name resolved ---------- *)

Lemma prefixes_from_complete : forall r1 d acc x r2,
  d = x :: r1 ++ r2 -> In (acc ++ x :: r1) (prefixes_from acc d).
Proof.
  induction r1 as [|y r1 IH]; intros d acc x r2 E; subst d; simpl.
  - left. reflexivity.
  - right. specialize (IH (y :: r1 ++ r2) (acc ++ [x]) y r2 eq_refl). rewrite <- app_assoc in IH. exact IH.
Qed.

Lemma prefixes_complete : forall p r, p <> [] -> In p (prefixes (p ++ r)).
Proof.
  intros p r H. destruct p as [|x r1]; [congruence|]. apply (prefixes_from_complete r1 _ [] x r). reflexivity.
Qed.

Lemma last_prefixes_from : forall d acc, d <> [] -> last (prefixes_from acc d) [] = acc ++ d.
Proof.
  induction d as [|x d IH]; intros acc H; [congruence|]. simpl prefixes_from.
  destruct d as [|y d'].
  - reflexivity.
  - change (last ((acc ++ [x]) :: prefixes_from (acc ++ [x]) (y :: d')) []) with (last (prefixes_from (acc ++ [x]) (y :: d')) []).
    rewrite IH by discriminate. rewrite <- app_assoc. reflexivity.
Qed.

Lemma walk_chain : forall w s, WF w s -> forall parts pname,
  pname <> [] -> assoc pname (loaded s) <> None ->
  (forall pre post, parts = pre ++ post -> pre <> [] -> assoc (pname ++ pre) (loaded s) <> None) ->
  fst (walk (loaded s) (attrs s) (OMod pname) pname parts) = WDone.
Proof.
  intros w s Hwf. induction parts as [|part rest IH]; intros pname Hne Hl Hall; [reflexivity|].
  destruct (assoc pname (loaded s)) as [o|] eqn:El; [|congruence].
  pose proof (wf_loaded _ _ Hwf _ _ El) as Eo. subst o.
  cbn [walk]. rewrite El, obj_eqb_refl. cbn [negb].
  assert (Ld : assoc (pname ++ [part]) (loaded s) <> None) by (apply (Hall [part] rest); [reflexivity | discriminate]).
  assert (Pp : parent (pname ++ [part]) = pname) by apply removelast_snoc.
  assert (Pne : parent (pname ++ [part]) <> []) by (rewrite Pp; assumption).
  destruct (wf_parent _ _ Hwf _ Ld Pne) as [_ Hg]. rewrite Pp, last_last in Hg. rewrite Hg.
  specialize (IH (pname ++ [part])).
  destruct (walk (loaded s) (attrs s) (OMod (pname ++ [part])) (pname ++ [part]) rest) as [r1 t1] eqn:W1.
  cbn [fst] in *. apply IH.
  - destruct pname; discriminate.
  - assumption.
  - intros pre post E Hp. rewrite <- app_assoc. simpl. apply (Hall (part :: pre) post); [rewrite E; reflexivity | discriminate].
Qed.

Lemma plain_resolved : forall w s lvl x rest,
  WF w s -> ns_get s lvl [x] = assoc [x] (loaded s) -> 
  (forall p, In p (prefixes (x :: rest)) -> assoc p (loaded s) <> None) ->
  needs s (x :: rest) = false.
Proof.
  intros w s lvl x rest Hwf Hg Hall. apply needs_false_iff.
  assert (Lx : assoc [x] (loaded s) <> None) by (apply Hall; apply root_in_prefixes).
  destruct (assoc [x] (loaded s)) as [v|] eqn:El; [|congruence].
  pose proof (wf_loaded _ _ Hwf _ _ El) as Ev. subst v.
  exists lvl, [x], (OMod [x]). split; [apply root_in_prefixes|]. split; [assumption|].
  simpl skipn. rewrite (walk_chain w s Hwf rest [x]); [discriminate | discriminate | congruence |].
  intros pre post E Hp. apply Hall. subst rest. apply (prefixes_complete (x :: pre) post). discriminate.
Qed.

(* after a successful `import pm`: pm's root is bound, in the target namespace, to sys.modules[root],
   and every prefix of pm is loaded *)
Lemma try_import_plain_bound : forall w pm s s',
  noclash w -> WF w s -> nss s <> [] -> try_import w (pm, pm) s = (s', true) ->
  ns_get s' (last_level s') [root pm] = assoc [root pm] (loaded s') /\
  assoc [root pm] (loaded s') <> None /\
  forall p, In p (prefixes pm) -> assoc p (loaded s') <> None.
Proof.
  intros w pm s s' Hnc Hwf Hne H. unfold try_import in H.
  destruct (mem_imp (pm, pm) (failed s)); [inversion H|].
  destruct (exec_import w (pm, pm) s) as [s0 r] eqn:Ex.
  pose proof (exec_import_user _ _ _ _ _ Ex) as [(U1 & _ & _) _].
  destruct (exec_import_ok _ _ _ _ _ Hnc Hwf Ex) as (_ & _ & _ & All).
  destruct r as [imported|]; cbv zeta in H; [|inversion H].
  pose proof (exec_import_plain _ _ _ _ _ Ex) as Hroot.
  specialize (All imported eq_refl eq_refl). simpl fst in All.
  remember (add_log (ETry (pm, pm) true) s0) as s1 eqn:Es1.
  assert (Hn1 : nss s1 = nss s) by (subst s1; simpl; assumption).
  assert (Hl1 : loaded s1 = loaded s0) by (subst s1; reflexivity). clear Es1.
  assert (Hne1 : nss s1 <> []) by (rewrite Hn1; assumption).
  simpl snd in H.
  destruct (assoc [root pm] (last (nss s1) [])) as [pre|] eqn:Ea.
  - destruct (obj_eqb pre imported) eqn:Eo; inversion H; subst s'. apply obj_eqb_eq in Eo. subst pre.
    rewrite Hl1. split; [|split; [congruence | assumption]].
    unfold ns_get, last_level. rewrite last_nth by assumption. congruence.
  - inversion H; subst s'. simpl loaded. rewrite Hl1. split; [|split; [congruence | assumption]].
    rewrite ns_get_bind_last by assumption.
    assert (LL : last_level (set_nss (bind_last [root pm] imported (nss s1)) s1) = last_level s1).
    { unfold last_level. simpl. rewrite bind_last_length. reflexivity. }
    rewrite LL, PeanoNat.Nat.eqb_refl, dotted_eqb_refl. simpl. congruence.
Qed.

Lemma try_import_plain_resolved : forall w pm s s',
  noclash w -> WF w s -> nss s <> [] -> pm <> [] ->
  try_import w (pm, pm) s = (s', true) -> needs s' pm = false.
Proof.
  intros w pm s s' Hnc Hwf Hne Hpm H.
  destruct (try_import_wf _ _ _ _ _ Hnc Hwf H) as [W' _].
  destruct (try_import_plain_bound _ _ _ _ Hnc Hwf Hne H) as (B1 & B2 & B3).
  destruct pm as [|x rest]; [congruence|]. simpl root in *.
  eapply plain_resolved; eauto.
Qed.

Lemma needs_cell_irrelevant : forall k b s m, needs (set_cell k b s) m = needs s m.
Proof. reflexivity. Qed.

Lemma prefix_loop_last : forall w pms s s',
  noclash w -> WF w s -> nss s <> [] -> pms <> [] -> (forall pm, In pm pms -> pm <> []) ->
  prefix_loop w pms s = (s', RTrue) -> needs s' (last pms []) = false.
Proof.
  induction pms as [|pm r0 IH]; intros s s' Hnc Hwf Hne Hnn Hall H; [congruence|].
  assert (Hpm : pm <> []) by (apply Hall; left; reflexivity).
  assert (Hall0 : forall q, In q r0 -> q <> []) by (intros; apply Hall; right; assumption).
  assert (Cont : forall s0, WF w s0 -> nss s0 <> [] -> needs s0 pm = false ->
                 prefix_loop w r0 s0 = (s', RTrue) -> needs s' (last (pm :: r0) []) = false).
  { intros s0 W0 N0 Hn0 H0. destruct r0 as [|q r1].
    - simpl in H0. inversion H0; subst. exact Hn0.
    - change (last (pm :: q :: r1) []) with (last (q :: r1) []). eapply IH; eauto. discriminate. }
  simpl in H. destruct (needs s pm) eqn:En; simpl negb in H; cbv iota in H; [|apply (Cont s); assumption].
  assert (Body : (let (s1, e) := mexists w pm s in
               if negb e then (set_cell pm false s1, RFalse)
               else let (s2, ok) := try_import w (pm, pm) s1 in
                    let s3 := set_cell pm ok s2 in
                    if ok then prefix_loop w r0 s3 else (s3, RFalse)) = (s', RTrue) ->
              needs s' (last (pm :: r0) []) = false).
  { clear H. intro H. destruct (mexists w pm s) as [s1 e] eqn:Em.
    destruct (mexists_ok _ _ _ _ _ Hnc Hwf Em) as [W1 _].
    pose proof (mexists_user _ _ _ _ _ Em) as (N1 & _ & _).
    assert (Hne1 : nss s1 <> []) by (rewrite N1; assumption).
    destruct e; simpl negb in H; cbv iota in H; [|inversion H].
    destruct (try_import w (pm, pm) s1) as [s2 ok] eqn:Et. cbv zeta in H. destruct ok; [|inversion H].
    destruct (try_import_wf _ _ _ _ _ Hnc W1 Et) as [W2 _].
    destruct (try_import_spec _ _ _ _ _ Et) as (A2 & _ & _).
    apply (Cont (set_cell pm true s2)).
    - apply set_cell_wf; assumption.
    - exact (added_nonempty _ _ _ A2 Hne1).
    - rewrite needs_cell_irrelevant. apply (try_import_plain_resolved w pm s1 s2); assumption.
    - exact H. }
  destruct (assoc pm (cell s)) as [[|]|]; try (apply Body; exact H). inversion H.
Qed.

Lemma exec_import_alias_value : forall w i s s' v,
  noclash w -> WF w s -> exec_import w i s = (s', Some v) -> snd i <> fst i ->
  forall x, v = OMod [x] -> fst i = [x].
Proof.
  intros w [full as_] s s' v Hnc Hwf H Hne x Ev. simpl fst in *. simpl snd in *. unfold exec_import in H. simpl fst in H. simpl snd in H.
  destruct (dotted_eqb as_ full) eqn:Eq; [apply dotted_eqb_eq in Eq; congruence|].
  destruct (parent full) as [|n l] eqn:Ep.
  - destruct (load w full s) as [s1 r1] eqn:E1. destruct (load_ok _ _ _ _ _ Hnc Hwf E1) as (W1 & _ & _).
    destruct r1; try (inversion H; fail). injection H as E2 E3. subst s'.
    pose proof (wf_loaded _ _ W1 _ _ E3) as E4. congruence.
  - destruct (load w (n :: l) s) as [s1 r1] eqn:E1. destruct (load_ok _ _ _ _ _ Hnc Hwf E1) as (W1 & _ & _).
    destruct r1; try (inversion H; fail).
    destruct (assoc (n :: l) (loaded s1)) as [m|] eqn:Em; [|inversion H].
    destruct (get_attr (attrs s1) m (last full 0%N)) as [v0|] eqn:Eg.
    + injection H as E2 E3. subst. destruct (wf_attr_alive _ _ W1 _ _ _ Eg) as [_ L]. simpl in L. lia.
    + destruct (load w full s1) as [s2 r2] eqn:E2. destruct (load_ok _ _ _ _ _ Hnc W1 E2) as (W2 & _ & _).
      destruct r2; try (inversion H; fail). injection H as E3 E4. subst s'.
      pose proof (wf_loaded _ _ W2 _ _ E4) as E5. congruence.
Qed.

Lemma try_import_true_value : forall w i s s',
  nss s <> [] -> try_import w i s = (s', true) ->
  exists v sB, exec_import w i s = (sB, Some v) /\
               ns_get s' (last_level s') [root (snd i)] = Some v.
Proof.
  intros w i s s' Hne H. unfold try_import in H.
  destruct (mem_imp i (failed s)); [inversion H|].
  destruct (exec_import w i s) as [s0 r] eqn:Ex.
  pose proof (exec_import_user _ _ _ _ _ Ex) as [(U1 & _ & _) _].
  destruct r as [imported|]; cbv zeta in H; [|inversion H].
  remember (add_log (ETry i true) s0) as s1 eqn:Es1.
  assert (Hn1 : nss s1 = nss s) by (subst s1; simpl; assumption). clear Es1.
  assert (Hne1 : nss s1 <> []) by (rewrite Hn1; assumption).
  exists imported, s0. split; [reflexivity|].
  destruct (assoc [root (snd i)] (last (nss s1) [])) as [pre|] eqn:Ea.
  - destruct (obj_eqb pre imported) eqn:Eo; inversion H; subst s'. apply obj_eqb_eq in Eo. subst pre.
    unfold ns_get, last_level. rewrite last_nth by assumption. exact Ea.
  - inversion H; subst s'. rewrite ns_get_bind_last by assumption.
    assert (LL : last_level (set_nss (bind_last [root (snd i)] imported (nss s1)) s1) = last_level s1).
    { unfold last_level. simpl. rewrite bind_last_length. reflexivity. }
    rewrite LL, PeanoNat.Nat.eqb_refl, dotted_eqb_refl. reflexivity.
Qed.

Lemma last_prefixes : forall m, m <> [] -> last (prefixes m) [] = m.
Proof. intros m H. unfold prefixes. rewrite last_prefixes_from by assumption. reflexivity. Qed.

Lemma prefixes_not_nil : forall m, m <> [] -> prefixes m <> [].
Proof. intros [|x r] H; [congruence | discriminate]. Qed.

Lemma symbol_resolves : forall w idx m s s',
  noclash w -> WF w s -> idx_ok idx -> nss s <> [] -> m <> [] ->
  auto_import_symbol w idx m s = (s', RTrue) -> needs s' m = false.
Proof.
  intros w idx m s s' Hnc Hwf Hidx Hne Hm H. unfold auto_import_symbol in H.
  destruct (needs s m) eqn:En; simpl negb in H; cbv iota in H; [|inversion H; subst; assumption].
  destruct (assoc m (cell s)); [inversion H|].
  assert (Loop : forall s0, WF w s0 -> nss s0 <> [] -> prefix_loop w (prefixes m) s0 = (s', RTrue) -> needs s' m = false).
  { intros s0 W0 N0 H0.
    pose proof (prefix_loop_last w (prefixes m) s0 s' Hnc W0 N0 (prefixes_not_nil m Hm) (prefixes_nonempty m) H0) as L.
    exact (eq_ind _ (fun z => needs s' z = false) L _ (last_prefixes m Hm)). }
  destruct (known_import idx m) as [cands|] eqn:Ek; [|apply (Loop s); assumption].
  destruct cands as [|i [|i2 rest]]; [inversion H| |inversion H].
  destruct (needs s (snd i)) eqn:Eni; [|apply (Loop s); assumption].
  destruct (try_import w i s) as [s1 ok] eqn:Et. destruct ok; simpl negb in H; cbv iota in H; [|inversion H].
  cbv zeta in H.
  destruct (try_import_wf _ _ _ _ _ Hnc Hwf Et) as [W1 _].
  destruct (try_import_spec _ _ _ _ _ Et) as (A1 & _ & _).
  pose proof (added_nonempty _ _ _ A1 Hne) as N1.
  destruct (known_import_key _ _ _ Ek) as (p & Hp & Ha).
  destruct (Hidx _ _ i Ha (or_introl eq_refl)) as [Esnd Hiwf].
  destruct (prefixes_spec _ _ Hp) as (x & r1 & r2 & Ep & Em).
  destruct (try_import_true_value _ _ _ _ Hne Et) as (v & sB & Ex & Hv).
  destruct (dotted_eqb (snd i) m) eqn:E1.
  - (* the DB import is exactly the name *)
    apply dotted_eqb_eq in E1. inversion H; subst s'. rewrite needs_cell_irrelevant.
    destruct Hiwf as [Hplain|Hone].
    + assert (Ei : i = (m, m)).
      { clear - Hplain E1. destruct i as [f a]. simpl in Hplain, E1. rewrite <- Hplain, E1. reflexivity. }
      rewrite Ei in Et. apply (try_import_plain_resolved w m s s1); assumption.
    + rewrite E1 in Hone, Hv. destruct m as [|y [|z t]]; simpl in Hone; try discriminate.
      apply needs_false_iff. exists (last_level s1), [y], v. split; [apply root_in_prefixes|]. split; [exact Hv|].
      simpl. discriminate.
  - destruct (negb (dotted_eqb (snd i) (fst i))) eqn:E2.
    + (* alias / from-import: bound to something that is not the registered module of that name *)
      apply negb_true_iff in E2. apply dotted_eqb_neq in E2. inversion H; subst s'. rewrite needs_cell_irrelevant.
      destruct Hiwf as [Hplain|Hone]; [congruence|].
      rewrite Esnd in Hone, Hv. rewrite Ep in Hone, Hv, Em. destruct r1; simpl in Hone; [|discriminate Hone]. simpl root in Hv.
      apply needs_false_iff. exists (last_level s1), [x], v. split; [rewrite Em; apply root_in_prefixes|]. split; [exact Hv|].
      rewrite Em. simpl skipn. destruct r2 as [|part rest'].
      { exfalso. apply dotted_eqb_neq in E1. apply E1. rewrite Esnd, Ep, Em. reflexivity. }
      simpl. destruct (assoc [x] (loaded s1)) as [o|] eqn:El; [|simpl; discriminate].
      pose proof (wf_loaded _ _ W1 _ _ El) as Eo. subst o.
      destruct (obj_eqb v (OMod [x])) eqn:Ev; simpl; [|discriminate].
      apply obj_eqb_eq in Ev. exfalso. apply E2. rewrite Esnd, Ep. symmetry.
      apply (exec_import_alias_value w i s sB v Hnc Hwf Ex E2 x Ev).
    + (* plain import of a proper prefix: go on with the prefix loop *)
      apply (Loop (set_cell (snd i) true s1)); [apply set_cell_wf; assumption | exact N1 | exact H].
Qed.

Lemma symbols_resolve : forall w idx ms s s' ok,
  noclash w -> WF w s -> idx_ok idx -> nss s <> [] ->
  symbols w idx ms s ok = (s', RTrue) ->
  forall m, In m ms -> m <> [] -> needs s' m = false.
Proof.
  induction ms as [|m0 r0 IH]; intros s s' ok Hnc Hwf Hidx Hne H m Hin Hm; [contradiction|].
  simpl in H. destruct (auto_import_symbol w idx m0 s) as [s1 b] eqn:Es.
  destruct (symbol_wf _ _ _ _ _ _ Hnc Hwf Es) as [W1 X1].
  destruct (auto_import_symbol_added _ _ _ _ _ _ Es) as [A1 _].
  pose proof (added_nonempty _ _ _ A1 Hne) as N1.
  destruct b.
  - destruct Hin as [E|Hin].
    + subst m0. destruct (symbols_wf _ _ _ _ _ _ _ Hnc W1 H) as [W2 X2].
      destruct (symbols_added _ _ _ _ _ _ _ H) as [A2 _].
      apply (needs_stable w s1 s' m W1 W2 X2).
      * intros lvl k v0 Hg. eapply added_frame; eauto.
      * apply (symbol_resolves w idx m s s1); assumption.
    + eapply IH; eauto.
  - exfalso. eapply symbols_false; eauto.
  - inversion H.
Qed.

(* C07 success in the needs-form, for well-formed states of worlds without attribute/submodule clashes *)
Theorem success_resolves_wf : forall w idx ms st st',
  noclash w -> WF w st -> idx_ok idx -> nss st <> [] ->
  auto_import w idx (Some ms) st = (st', RTrue) ->
  forall m, In m ms -> m <> [] -> needs st' m = false.
Proof. intros w idx ms st st' Hnc Hwf Hidx Hne H m Hin Hm. eapply symbols_resolve; eauto. Qed.

(* ---------- the boolean checkers evaluated by the harness imply the invariant ---------- *)

Lemma get_attr_in : forall at_ o k v, get_attr at_ o k = Some v -> In ((o, k), v) at_.
Proof.
  induction at_ as [|[[o' k'] v'] r IH]; intros o k v H; simpl in H; [discriminate|].
  destruct (obj_eqb o o' && (k =? k')%N) eqn:E.
  - apply andb_true_iff in E. destruct E as [E1 E2]. apply obj_eqb_eq in E1. apply N.eqb_eq in E2.
    inversion H; subst. left. reflexivity.
  - right. apply IH. assumption.
Qed.

Lemma reg_ok_sound : forall ld d, reg_ok ld (OMod d) = true -> assoc d ld = Some (OMod d).
Proof.
  intros ld d H. simpl in H. destruct (assoc d ld) as [m|]; [|discriminate]. apply obj_eqb_eq in H. congruence.
Qed.

Theorem wfp_b_sound : forall w s, wfp_b w s = true -> WF w s.
Proof.
  intros w s H. unfold wfp_b in H.
  apply andb_true_iff in H. destruct H as [H H4]. apply andb_true_iff in H. destruct H as [H H3].
  apply andb_true_iff in H. destruct H as [H1 H2].
  rewrite forallb_forall in H1, H2, H3, H4.
  assert (A3 : forall o k v, get_attr (attrs s) o k = Some v ->
            reg_ok (loaded s) v = true /\
            match v with OMod d => Nat.leb 2 (length d) | _ => true end = true /\
            match o with
            | OMod d => match assoc d (loaded s) with Some _ => true | None => false end
                        && (if is_file w (d ++ [k]) then obj_eqb v (OMod (d ++ [k])) else true)
            | _ => true
            end = true).
  { intros o k v Hg. apply get_attr_in in Hg. specialize (H3 _ Hg). simpl in H3.
    apply andb_true_iff in H3. destruct H3 as [H3 Hc]. apply andb_true_iff in H3. destruct H3 as [Ha Hb].
    repeat split; assumption. }
  constructor.
  - intros d o Ha. apply assoc_in in Ha. specialize (H1 _ Ha). simpl in H1. apply obj_eqb_eq in H1. assumption.
  - intros n k d Hn Ha. apply assoc_in in Ha. specialize (H2 _ Hn). rewrite forallb_forall in H2.
    specialize (H2 _ Ha). apply reg_ok_sound. exact H2.
  - intros o k d Hg. destruct (A3 _ _ _ Hg) as (Ha & Hb & _). split; [apply reg_ok_sound; assumption|].
    apply PeanoNat.Nat.leb_le. assumption.
  - intros d k v Hg. destruct (A3 _ _ _ Hg) as (_ & _ & Hc). apply andb_true_iff in Hc. destruct Hc as [Hc _].
    destruct (assoc d (loaded s)); [discriminate | discriminate].
  - intros d Hd Hp. destruct (assoc d (loaded s)) as [o|] eqn:Ea; [|congruence]. apply assoc_in in Ea.
    specialize (H4 _ Ea). simpl in H4. destruct (parent d) as [|x r] eqn:Ep; [congruence|].
    destruct (assoc (x :: r) (loaded s)); [|discriminate].
    destruct (get_attr (attrs s) (OMod (x :: r)) (last d 0%N)) as [v|]; [|discriminate].
    apply obj_eqb_eq in H4. subst v. split; [discriminate | reflexivity].
  - intros d k v Hg Hf. destruct (A3 _ _ _ Hg) as (_ & _ & Hc). apply andb_true_iff in Hc. destruct Hc as [_ Hc].
    rewrite Hf in Hc. apply obj_eqb_eq in Hc. assumption.
Qed.

Theorem noclash_b_sound : forall mods, noclash_b mods = true -> noclash (fun d => assoc d mods).
Proof.
  intros mods H d k Hk. unfold noclash_b in H. rewrite forallb_forall in H. unfold static_attrs in Hk.
  destruct (assoc d mods) as [mi|] eqn:Ea; [|contradiction]. apply assoc_in in Ea.
  specialize (H _ Ea). simpl in H. rewrite forallb_forall in H. specialize (H _ Hk).
  apply negb_true_iff in H. exact H.
Qed.

(* C06: frame, only_needed, failure_atomic, unparsable_noop over call sequences. *)
From Coq Require Import NArith List Bool Lia.
From Verif Require Import AutoImp.World AutoImp.Needs AutoImp.TryImport AutoImp.AutoImport AutoImp.Spec
                          AutoImp.WorldProofs.
Import ListNotations.

(* ---------- association lists, bind_last ---------- *)

Lemma assoc_cons : forall A k k' (v : A) l,
  assoc k ((k', v) :: l) = if dotted_eqb k k' then Some v else assoc k l.
Proof. reflexivity. Qed.

Lemma bind_last_length : forall k v l, length (bind_last k v l) = length l.
Proof.
  induction l as [|n r IH]; [reflexivity|]. destruct r as [|n' r']; [reflexivity|].
  change (bind_last k v (n :: n' :: r')) with (n :: bind_last k v (n' :: r')).
  change (length (n :: bind_last k v (n' :: r'))) with (S (length (bind_last k v (n' :: r')))). rewrite IH. reflexivity.
Qed.

Lemma bind_last_nth : forall k v l lvl,
  nth_error (bind_last k v l) lvl =
  if Nat.eqb (S lvl) (length l) then Some ((k, v) :: last l []) else nth_error l lvl.
Proof.
  induction l as [|n r IH]; intro lvl.
  - simpl. destruct lvl; reflexivity.
  - destruct r as [|n' r'].
    + simpl. destruct lvl as [|lvl]; simpl; [reflexivity|]. destruct lvl; reflexivity.
    + change (bind_last k v (n :: n' :: r')) with (n :: bind_last k v (n' :: r')).
      destruct lvl as [|lvl].
      * simpl. reflexivity.
      * simpl nth_error. rewrite IH. change (length (n :: n' :: r')) with (S (length (n' :: r'))).
        change (last (n :: n' :: r') []) with (last (n' :: r') []).
        reflexivity.
Qed.

Lemma last_nth : forall (l : list ns), l <> [] -> nth_error l (pred (length l)) = Some (last l []).
Proof.
  induction l as [|n r IH]; intro H; [congruence|].
  destruct r as [|n' r']; [reflexivity|].
  change (last (n :: n' :: r') []) with (last (n' :: r') []).
  change (pred (length (n :: n' :: r'))) with (S (pred (length (n' :: r')))).
  simpl nth_error. apply IH. discriminate.
Qed.

(* ---------- the extension relation ---------- *)

Definition added (P : dotted -> obj -> Prop) (s s' : state) : Prop :=
  length (nss s') = length (nss s) /\
  (forall lvl k v, ns_get s lvl k = Some v -> ns_get s' lvl k = Some v) /\
  (forall lvl k v, ns_get s lvl k = None -> ns_get s' lvl k = Some v -> lvl = last_level s /\ P k v).

Lemma added_same : forall P s s', nss s' = nss s -> added P s s'.
Proof.
  intros P s s' H. unfold added, ns_get. rewrite H. split; [reflexivity|]. split; [auto|].
  intros lvl k v H1 H2. congruence.
Qed.

Lemma added_trans : forall (P Q : dotted -> obj -> Prop) a b c,
  added P a b -> added Q b c -> (forall k v, Q k v -> P k v) -> added P a c.
Proof.
  intros P Q a b c (L1 & F1 & A1) (L2 & F2 & A2) HQ. split; [congruence|]. split.
  - intros lvl k v H. apply F2, F1, H.
  - intros lvl k v H1 H2. destruct (ns_get b lvl k) as [v'|] eqn:Eb.
    + pose proof (F2 _ _ _ Eb) as H3. rewrite H2 in H3. inversion H3; subst. apply A1; assumption.
    + destruct (A2 _ _ _ Eb H2) as [H3 H4]. split; [|apply HQ, H4].
      unfold last_level in *. congruence.
Qed.

Lemma added_weaken : forall (P Q : dotted -> obj -> Prop) a b,
  added P a b -> (forall k v, P k v -> Q k v) -> added Q a b.
Proof.
  intros P Q a b (L & F & A) H. split; [assumption|]. split; [assumption|].
  intros lvl k v H1 H2. destruct (A _ _ _ H1 H2). split; auto.
Qed.

Lemma added_frame : forall P a b, added P a b ->
  forall lvl k v, ns_get a lvl k = Some v -> ns_get b lvl k = Some v.
Proof. intros P a b (_ & F & _). exact F. Qed.

Lemma agree_anti : forall P a b k v, added P a b -> agree b k v -> agree a k v.
Proof. intros P a b k v H Hb lvl v' H1. eapply Hb. eapply added_frame; eauto. Qed.

(* ---------- _try_import ---------- *)

Lemma mem_imp_true : forall i l, mem_imp i l = true <-> In i l.
Proof.
  intros i l. unfold mem_imp. rewrite existsb_exists. split.
  - intros (x & Hx & E). apply imp_eqb_eq in E. subst. assumption.
  - intro H. exists i. split; [assumption | apply imp_eqb_eq; reflexivity].
Qed.

Lemma ns_get_bind_last : forall k v s lvl k',
  nss s <> [] ->
  ns_get (set_nss (bind_last k v (nss s)) s) lvl k' =
  if Nat.eqb lvl (last_level s) && dotted_eqb k' k then Some v else ns_get s lvl k'.
Proof.
  intros k v s lvl k' Hne. unfold ns_get, last_level. simpl nss. rewrite bind_last_nth.
  destruct (nss s) as [|n r] eqn:En; [congruence|].
  simpl length. simpl pred.
  destruct (Nat.eqb (S lvl) (S (length r))) eqn:E1.
  - apply PeanoNat.Nat.eqb_eq in E1. assert (lvl = length r) by lia. subst lvl.
    rewrite PeanoNat.Nat.eqb_refl. simpl andb. rewrite assoc_cons.
    pose proof (last_nth (n :: r)) as HL. simpl length in HL. simpl pred in HL. rewrite HL by discriminate.
    reflexivity.
  - assert (Nat.eqb lvl (length r) = false) as E2.
    { apply PeanoNat.Nat.eqb_neq. apply PeanoNat.Nat.eqb_neq in E1. lia. }
    rewrite E2. reflexivity.
Qed.

(* what one _try_import can do to the stack *)
Lemma try_import_spec : forall w i s s' b,
  try_import w i s = (s', b) ->
  added (fun k v => k = [root (snd i)] /\ exists sB, exec_import w i s = (sB, Some v)) s s'
  /\ (b = false -> nss s' = nss s)
  /\ cell s' = cell s.
Proof.
  intros w i s s' b H. unfold try_import in H.
  destruct (mem_imp i (failed s)).
  { inversion H; subst. split; [apply added_same; reflexivity | split; [reflexivity|reflexivity]]. }
  destruct (exec_import w i s) as [s0 r] eqn:Ex.
  pose proof (exec_import_user _ _ _ _ _ Ex) as [(U1 & U2 & U3) _].
  destruct r as [imported|].
  - cbv zeta in H.
    remember (add_log (ETry i true) s0) as s1 eqn:Es1.
    assert (Hn1 : nss s1 = nss s) by (subst s1; simpl; assumption).
    assert (Hc1 : cell s1 = cell s) by (subst s1; simpl; assumption).
    clear Es1.
    destruct (assoc [root (snd i)] (last (nss s1) [])) as [pre|] eqn:Ea.
    + destruct (obj_eqb pre imported); inversion H; subst s' b;
        (split; [apply added_same; assumption | split; [intros _; assumption | assumption]]).
    + inversion H; subst s' b. split; [|split; [discriminate | simpl; assumption]].
      destruct (nss s) as [|n0 r0] eqn:Ens.
      { apply added_same. simpl. rewrite Hn1, Ens. reflexivity. }
      assert (Hne : nss s1 <> []) by (rewrite Hn1; discriminate).
      split; [simpl nss; rewrite bind_last_length; congruence|].
      assert (G : forall lvl k, ns_get s1 lvl k = ns_get s lvl k).
      { intros. unfold ns_get. rewrite Hn1, Ens. reflexivity. }
      assert (LL : last_level s1 = last_level s) by (unfold last_level; rewrite Hn1, Ens; reflexivity).
      split.
      * intros lvl k v Hk. rewrite ns_get_bind_last by assumption.
        destruct (Nat.eqb lvl (last_level s1) && dotted_eqb k [root (snd i)]) eqn:E; [|rewrite G; assumption].
        apply andb_true_iff in E. destruct E as [E1 E2]. apply PeanoNat.Nat.eqb_eq in E1. apply dotted_eqb_eq in E2. subst.
        rewrite <- G in Hk. unfold ns_get, last_level in Hk. rewrite last_nth in Hk by assumption. congruence.
      * intros lvl k v Hk1 Hk2. rewrite ns_get_bind_last in Hk2 by assumption.
        destruct (Nat.eqb lvl (last_level s1) && dotted_eqb k [root (snd i)]) eqn:E; [|rewrite G in Hk2; congruence].
        apply andb_true_iff in E. destruct E as [E1 E2]. apply PeanoNat.Nat.eqb_eq in E1. apply dotted_eqb_eq in E2.
        inversion Hk2; subst. split; [congruence|]. split; [reflexivity|]. exists s0. reflexivity.
  - inversion H; subst. split; [apply added_same; simpl; assumption|]. split; [intros _; simpl; assumption | simpl; assumption].
Qed.

From Verif Require Import AutoImp.NeedsProofs.

Lemma try_import_mono : forall w i s s' b,
  try_import w i s = (s', b) -> loaded_mono s s' /\ excache s' = excache s.
Proof.
  intros w i s s' b H. unfold try_import in H.
  destruct (mem_imp i (failed s)); [inversion H; subst; split; [apply loaded_mono_refl | reflexivity]|].
  destruct (exec_import w i s) as [s0 r] eqn:Ex.
  pose proof (exec_import_mono _ _ _ _ _ Ex) as [M _].
  pose proof (exec_import_user _ _ _ _ _ Ex) as [_ C].
  destruct r as [imported|]; cbv zeta in H.
  - destruct (assoc [root (snd i)] (last (nss (add_log (ETry i true) s0)) [])).
    + destruct (obj_eqb o imported); inversion H; subst; (split; [exact M | exact C]).
    + inversion H; subst. split; [exact M | exact C].
  - inversion H; subst. split; [exact M | exact C].
Qed.

Lemma added_nss_eq : forall P a b a' b', nss a' = nss a -> nss b' = nss b -> added P a b -> added P a' b'.
Proof.
  intros P a b a' b' Ea Eb (L & F & A). unfold added, ns_get, last_level in *. rewrite Ea, Eb.
  split; [assumption|]. split; assumption.
Qed.

Lemma agree_nss_eq : forall a a' k v, nss a' = nss a -> agree a k v -> agree a' k v.
Proof. intros a a' k v E H lvl v' Hg. apply (H lvl). unfold ns_get in *. rewrite <- E. exact Hg. Qed.

(* `import pm` executed for a prefix that still needs import although its root is bound somewhere:
   that binding is sys.modules[root], which is also what the import yields *)
Lemma agree_plain : forall w s s1 sB pm v,
  needs s pm = true -> pm <> [] -> loaded_mono s s1 ->
  exec_import w (pm, pm) s1 = (sB, Some v) -> agree s [root pm] v.
Proof.
  intros w s s1 sB pm v Hn Hne M Ex lvl v' Hg. destruct pm as [|x rr]; [congruence|].
  simpl root in *. destruct (needs_root_bound _ _ _ _ _ Hn Hg) as [Hl _].
  pose proof (exec_import_mono _ _ _ _ _ Ex) as [M2 _].
  apply M, M2 in Hl. apply exec_import_plain in Ex. simpl root in Ex. congruence.
Qed.

Definition loop_post (w : world) (pms : list dotted) (s : state) (k : dotted) (v : obj) : Prop :=
  exists pm, In pm pms /\ k = [root pm] /\ agree s k v /\ yields w (pm, pm) v.

Lemma prefix_loop_added : forall w pms s s' r,
  (forall pm, In pm pms -> pm <> []) -> prefix_loop w pms s = (s', r) ->
  added (loop_post w pms s) s s' /\ loaded_mono s s'.
Proof.
  induction pms as [|pm r0 IH]; intros s s' r Hne H; simpl in H.
  { inversion H; subst. split; [apply added_same; reflexivity | apply loaded_mono_refl]. }
  assert (Hne0 : forall pm0, In pm0 r0 -> pm0 <> []) by (intros; apply Hne; right; assumption).
  assert (Hpm : pm <> []) by (apply Hne; left; reflexivity).
  assert (Wk : forall s0 k v, loop_post w r0 s0 k v -> loop_post w (pm :: r0) s0 k v).
  { intros s0 k v (pm0 & H1 & H2). exists pm0. split; [right; assumption | assumption]. }
  destruct (needs s pm) eqn:En; simpl negb in H; cbv iota in H.
  2:{ destruct (IH _ _ _ Hne0 H) as [A M]. split; [eapply added_weaken; [exact A | apply Wk] | exact M]. }
  assert (Body : (let (s1, e) := mexists w pm s in
               if negb e then (set_cell pm false s1, RFalse)
               else let (s2, ok) := try_import w (pm, pm) s1 in
                    let s3 := set_cell pm ok s2 in
                    if ok then prefix_loop w r0 s3 else (s3, RFalse)) = (s', r) ->
              added (loop_post w (pm :: r0) s) s s' /\ loaded_mono s s').
  { clear H. intro H.
    destruct (mexists w pm s) as [s1 e] eqn:Em.
    pose proof (mexists_user _ _ _ _ _ Em) as (N1 & _ & _).
    pose proof (mexists_mono _ _ _ _ _ Em) as [M1 _].
    destruct e; simpl negb in H; cbv iota in H.
    2:{ inversion H; subst. split; [apply added_same; simpl; assumption | intros k o Hk; simpl; apply M1, Hk]. }
    destruct (try_import w (pm, pm) s1) as [s2 ok] eqn:Et. cbv zeta in H.
    pose proof (try_import_spec _ _ _ _ _ Et) as (A1 & F1 & C1).
    pose proof (try_import_mono _ _ _ _ _ Et) as [M2 _].
    assert (A3 : added (loop_post w (pm :: r0) s) s (set_cell pm ok s2)).
    { apply (added_nss_eq _ s1 s2); [symmetry; assumption | reflexivity |].
      eapply added_weaken; [exact A1|]. intros k v (E & sB & Ex). simpl snd in E.
      exists pm. split; [left; reflexivity|]. split; [assumption|]. split.
      - subst k. eapply agree_plain; eauto.
      - exists s1, sB. exact Ex. }
    assert (M3 : loaded_mono s (set_cell pm ok s2)).
    { intros k o Hk. simpl. apply M2, M1, Hk. }
    destruct ok.
    - destruct (IH _ _ _ Hne0 H) as [A4 M4]. split; [|eapply loaded_mono_trans; eauto].
      eapply added_trans; [exact A3 | exact A4 |].
      intros k v Hp. apply Wk in Hp. destruct Hp as (pm0 & H1 & H2 & H3 & H4).
      exists pm0. split; [assumption|]. split; [assumption|]. split; [|assumption].
      eapply agree_anti; eauto.
    - inversion H; subst. split; assumption. }
  destruct (assoc pm (cell s)) as [[|]|]; try (apply Body; exact H).
  inversion H; subst. split; [apply added_same; reflexivity | apply loaded_mono_refl].
Qed.

Lemma first_key_in : forall idx ps v, first_key idx ps = Some v -> exists p, In p ps /\ assoc p idx = Some v.
Proof.
  induction ps as [|p r IH]; intros v H; simpl in H; [discriminate|].
  destruct (assoc p idx) as [v'|] eqn:E.
  - inversion H; subst. exists p. split; [left; reflexivity | assumption].
  - destruct (IH _ H) as (p' & H1 & H2). exists p'. split; [right; assumption | assumption].
Qed.

Lemma known_import_key : forall idx m v, known_import idx m = Some v ->
  exists p, In p (prefixes m) /\ assoc p idx = Some v.
Proof.
  intros idx m v H. apply first_key_in in H. destruct H as (p & H1 & H2). exists p. split; [apply in_rev; assumption | assumption].
Qed.

(* the post-condition of one auto_import_symbol(m) started in state s *)
Definition just (w : world) (idx : index_t) (s : state) (m : dotted) (k : dotted) (v : obj) : Prop :=
  k = [root m] /\ agree s k v /\ exists i, source_of idx m i /\ yields w i v.

Lemma loop_post_just : forall w idx s m k v,
  loop_post w (prefixes m) s k v -> just w idx s m k v.
Proof.
  intros w idx s m k v (pm & H1 & H2 & H3 & H4). destruct (prefixes_root _ _ H1) as [R _].
  split; [congruence|]. split; [assumption|]. exists (pm, pm). split; [right; exists pm; split; [assumption | reflexivity] | assumption].
Qed.

Lemma prefixes_nonempty : forall m pm, In pm (prefixes m) -> pm <> [].
Proof. intros m pm H. apply prefixes_root in H. tauto. Qed.

Definition justc (w : world) (idx : index_t) (s : state) (m : dotted) (k : dotted) (v : obj) : Prop :=
  idx_ok idx -> just w idx s m k v.

Lemma auto_import_symbol_added : forall w idx m s s' r,
  auto_import_symbol w idx m s = (s', r) ->
  added (justc w idx s m) s s' /\ loaded_mono s s'.
Proof.
  intros w idx m s s' r H. unfold auto_import_symbol in H.
  assert (Same : forall s1, nss s1 = nss s -> loaded_mono s s1 -> added (justc w idx s m) s s1 /\ loaded_mono s s1).
  { intros s1 E M. split; [apply added_same; assumption | assumption]. }
  destruct (needs s m) eqn:En; simpl negb in H; cbv iota in H.
  2:{ inversion H; subst. apply Same; [reflexivity | apply loaded_mono_refl]. }
  destruct (assoc m (cell s)).
  { inversion H; subst. apply Same; [reflexivity | apply loaded_mono_refl]. }
  assert (Loop : forall s0, prefix_loop w (prefixes m) s0 = (s', r) ->
                 added (justc w idx s0 m) s0 s' /\ loaded_mono s0 s').
  { intros s0 H0. destruct (prefix_loop_added _ _ _ _ _ (prefixes_nonempty m) H0) as [A M].
    split; [eapply added_weaken; [exact A | intros k v Hp _; apply loop_post_just; exact Hp] | exact M]. }
  destruct (known_import idx m) as [cands|] eqn:Ek; [|apply Loop; exact H].
  destruct cands as [|i [|i2 rest]].
  - inversion H; subst. apply Same; [reflexivity | apply loaded_mono_refl].
  - destruct (needs s (snd i)) eqn:Eni; [|apply Loop; exact H].
    destruct (try_import w i s) as [s1 ok] eqn:Et.
    pose proof (try_import_spec _ _ _ _ _ Et) as (A1 & F1 & C1).
    pose proof (try_import_mono _ _ _ _ _ Et) as [M1 _].
    assert (A2 : added (justc w idx s m) s s1).
    { eapply added_weaken; [exact A1|]. intros k v (E & sB & Ex) Hidx.
      destruct (known_import_key _ _ _ Ek) as (p & Hp & Ha).
      destruct (Hidx _ _ i Ha (or_introl eq_refl)) as [Esnd Hwf].
      destruct (prefixes_root _ _ Hp) as [Rp Pne].
      split; [subst k; rewrite Esnd; congruence|]. split.
      - subst k. destruct Hwf as [Hplain|Hone].
        + assert (Ei : i = (p, p)) by (destruct i as [f a]; simpl in *; congruence).
          rewrite Ei in Ex. rewrite Esnd.
          eapply (agree_plain w s s sB p v); [rewrite <- Esnd; assumption | assumption | apply loaded_mono_refl | exact Ex].
        + destruct (snd i) as [|x [|y t]] eqn:Es; simpl in Hone; try discriminate.
          intros lvl v' Hg. simpl root in Hg. rewrite (needs_single_unbound _ _ lvl Eni) in Hg. discriminate.
      - exists i. split; [left; assumption | exists s, sB; exact Ex]. }
    destruct ok; simpl negb in H; cbv iota in H.
    2:{ inversion H; subst. split; [eapply added_nss_eq; [reflexivity | | exact A2]; reflexivity | intros k o Hk; simpl; apply M1, Hk]. }
    cbv zeta in H.
    assert (A3 : added (justc w idx s m) s (set_cell (snd i) true s1)) by (eapply added_nss_eq; [reflexivity | | exact A2]; reflexivity).
    assert (M3 : loaded_mono s (set_cell (snd i) true s1)) by (intros k o Hk; simpl; apply M1, Hk).
    destruct (dotted_eqb (snd i) m); [inversion H; subst; split; assumption|].
    destruct (negb (dotted_eqb (snd i) (fst i))); [inversion H; subst; split; assumption|].
    destruct (Loop _ H) as [A4 M4]. split; [|eapply loaded_mono_trans; eauto].
    eapply added_trans; [exact A3 | exact A4|].
    intros k v J Hidx. destruct (J Hidx) as (J1 & J2 & J3). split; [assumption|]. split; [eapply agree_anti; eauto | assumption].
  - inversion H; subst. apply Same; [reflexivity | apply loaded_mono_eq; reflexivity].
Qed.

Definition call_post (w : world) (idx : index_t) (ms : list dotted) (s : state) (k : dotted) (v : obj) : Prop :=
  idx_ok idx -> exists m, In m ms /\ just w idx s m k v.

Lemma symbols_added : forall w idx ms s ok s' r,
  symbols w idx ms s ok = (s', r) ->
  added (call_post w idx ms s) s s' /\ loaded_mono s s'.
Proof.
  induction ms as [|m r0 IH]; intros s ok s' r H; simpl in H.
  { inversion H; subst. split; [apply added_same; reflexivity | apply loaded_mono_refl]. }
  destruct (auto_import_symbol w idx m s) as [s1 b] eqn:Es.
  destruct (auto_import_symbol_added _ _ _ _ _ _ Es) as [A1 M1].
  assert (A1' : added (call_post w idx (m :: r0) s) s s1).
  { eapply added_weaken; [exact A1|]. intros k v J Hidx. exists m. split; [left; reflexivity | apply J, Hidx]. }
  assert (Rest : forall ok0, symbols w idx r0 s1 ok0 = (s', r) ->
                 added (call_post w idx (m :: r0) s) s s' /\ loaded_mono s s').
  { intros ok0 H0. destruct (IH _ _ _ _ H0) as [A2 M2]. split; [|eapply loaded_mono_trans; eauto].
    eapply added_trans; [exact A1' | exact A2 |].
    intros k v J Hidx. destruct (J Hidx) as (m0 & Hin & J1 & J2 & J3).
    exists m0. split; [right; assumption|]. split; [assumption|]. split; [eapply agree_anti; eauto | assumption]. }
  destruct b.
  - eapply Rest; eauto.
  - eapply Rest; eauto.
  - inversion H; subst. split; assumption.
Qed.

Lemma auto_import_added : forall w idx ms s s' r,
  auto_import w idx ms s = (s', r) ->
  added (call_post w idx (match ms with Some l => l | None => [] end) s) s s' /\ loaded_mono s s'.
Proof.
  intros w idx [l|] s s' r H; simpl in H.
  - eapply symbols_added; eauto.
  - inversion H; subst. split; [apply added_same; reflexivity | apply loaded_mono_refl].
Qed.

(* ================= C06 ================= *)

(* frame: no call of any history rebinds or deletes a binding of any level *)
Theorem frame_ns : forall w idx calls st st',
  run_calls w idx calls st = st' ->
  forall lvl k v, ns_get st lvl k = Some v -> ns_get st' lvl k = Some v.
Proof.
  intros w idx calls. induction calls as [|o r IH]; intros st st' H lvl k v Hg; simpl in H.
  - subst. assumption.
  - eapply IH; [exact H|]. destruct o as [ms| |]; simpl.
    + destruct (auto_import w idx ms st) as [s1 b] eqn:E. destruct (auto_import_added _ _ _ _ _ _ E) as [A _].
      simpl. eapply added_frame; eauto.
    + exact Hg.
    + exact Hg.
Qed.

(* the number of levels never changes either *)
Theorem frame_levels : forall w idx calls st, length (nss (run_calls w idx calls st)) = length (nss st).
Proof.
  intros w idx calls. induction calls as [|o r IH]; intro st; simpl; [reflexivity|].
  rewrite IH. destruct o as [ms| |]; simpl; try reflexivity.
  destruct (auto_import w idx ms st) as [s1 b] eqn:E. destruct (auto_import_added _ _ _ _ _ _ E) as [(L & _) _]. exact L.
Qed.

(* only_needed: whatever one call adds is, at the last level, the root of a missing name the call
   was given; every other binding of that root in the stack is the very same object; and the value
   is what executing the import chosen for that name (source_of) yields *)
Theorem only_needed : forall w idx ms st st' ok,
  idx_ok idx ->
  auto_import w idx (Some ms) st = (st', ok) ->
  forall lvl k v, ns_get st lvl k = None -> ns_get st' lvl k = Some v ->
    lvl = last_level st /\
    exists m, In m ms /\ k = [root m] /\ agree st k v /\
              exists i, source_of idx m i /\ yields w i v.
Proof.
  intros w idx ms st st' ok Hidx H lvl k v H1 H2.
  destruct (auto_import_added _ _ _ _ _ _ H) as [(_ & _ & A) _].
  destruct (A _ _ _ H1 H2) as [HL J]. split; [assumption|].
  destruct (J Hidx) as (m & Hin & J1 & J2 & J3). exists m. repeat split; assumption.
Qed.

(* failure_atomic, part 1: a failing _try_import leaves every namespace as it was, and either the
   import is now in _IMPORT_FAILED or it was executed and clashed with a different pre-existing object *)
Theorem failure_atomic : forall w i st st',
  try_import w i st = (st', false) ->
  nss st' = nss st /\
  (In i (failed st') \/
   exists sB v pre, exec_import w i st = (sB, Some v) /\
                    assoc [root (snd i)] (last (nss st) []) = Some pre /\ pre <> v).
Proof.
  intros w i st st' H. destruct (try_import_spec _ _ _ _ _ H) as (_ & F & _). split; [apply F; reflexivity|].
  unfold try_import in H. destruct (mem_imp i (failed st)) eqn:Em.
  { inversion H; subst. left. apply mem_imp_true. assumption. }
  destruct (exec_import w i st) as [s0 r] eqn:Ex.
  pose proof (exec_import_user _ _ _ _ _ Ex) as [(U1 & _ & _) _].
  destruct r as [imported|]; cbv zeta in H.
  - simpl nss in H. rewrite U1 in H.
    destruct (assoc [root (snd i)] (last (nss st) [])) as [pre|] eqn:Ea; [|inversion H].
    destruct (obj_eqb pre imported) eqn:Eo; [inversion H|].
    right. exists s0, imported, pre. split; [reflexivity|]. split; [reflexivity|].
    intro E. subst. rewrite obj_eqb_refl in Eo. discriminate.
  - inversion H; subst. left. simpl. left. reflexivity.
Qed.

(* failure_atomic, part 2: an import in _IMPORT_FAILED is not attempted again: the whole state,
   ghost log of executed statements included, is untouched *)
Theorem failed_not_retried : forall w i st, In i (failed st) -> try_import w i st = (st, false).
Proof. intros w i st H. unfold try_import. apply mem_imp_true in H. rewrite H. reflexivity. Qed.

(* failure_atomic, part 3: a name recorded in the cell map is not attempted again in that cell *)
Theorem cell_not_retried : forall w idx m st b,
  assoc m (cell st) = Some b ->
  auto_import_symbol w idx m st = (st, if needs st m then RFalse else RTrue).
Proof.
  intros w idx m st b H. unfold auto_import_symbol. destruct (needs st m); simpl; [rewrite H|]; reflexivity.
Qed.

Theorem unparsable_noop : forall w idx st, auto_import w idx None st = (st, RFalse).
Proof. reflexivity. Qed.

(* ---------- a failing symbol leaves its mark in the cell map ---------- *)

Lemma prefix_loop_fail : forall w pms s s',
  prefix_loop w pms s = (s', RFalse) -> exists pm, In pm pms /\ assoc pm (cell s') = Some false.
Proof.
  induction pms as [|pm r0 IH]; intros s s' H; simpl in H; [inversion H|].
  assert (Wk : (exists pm0, In pm0 r0 /\ assoc pm0 (cell s') = Some false) ->
               exists pm0, In pm0 (pm :: r0) /\ assoc pm0 (cell s') = Some false).
  { intros (pm0 & H1 & H2). exists pm0. split; [right; assumption | assumption]. }
  destruct (needs s pm); simpl negb in H; cbv iota in H; [|apply Wk; eapply IH; eauto].
  assert (Body : (let (s1, e) := mexists w pm s in
               if negb e then (set_cell pm false s1, RFalse)
               else let (s2, ok) := try_import w (pm, pm) s1 in
                    let s3 := set_cell pm ok s2 in
                    if ok then prefix_loop w r0 s3 else (s3, RFalse)) = (s', RFalse) ->
              exists pm0, In pm0 (pm :: r0) /\ assoc pm0 (cell s') = Some false).
  { clear H. intro H. destruct (mexists w pm s) as [s1 e]. destruct e; simpl negb in H; cbv iota in H.
    - destruct (try_import w (pm, pm) s1) as [s2 ok]. cbv zeta in H. destruct ok.
      + apply Wk. eapply IH; eauto.
      + inversion H; subst. exists pm. split; [left; reflexivity|]. simpl. rewrite dotted_eqb_refl. reflexivity.
    - inversion H; subst. exists pm. split; [left; reflexivity|]. simpl. rewrite dotted_eqb_refl. reflexivity. }
  destruct (assoc pm (cell s)) as [[|]|] eqn:Ec; try (apply Body; exact H).
  inversion H; subst. exists pm. split; [left; reflexivity | assumption].
Qed.

Theorem symbol_failure_recorded : forall w idx m st st',
  auto_import_symbol w idx m st = (st', RFalse) ->
  assoc m (cell st') <> None \/ exists pm, In pm (prefixes m) /\ assoc pm (cell st') = Some false.
Proof.
  intros w idx m st st' H. unfold auto_import_symbol in H.
  destruct (needs st m); simpl negb in H; cbv iota in H; [|inversion H].
  destruct (assoc m (cell st)) eqn:Ec; [inversion H; subst; left; congruence|].
  assert (Mark : assoc m (cell (set_cell m false st)) <> None) by (simpl; rewrite dotted_eqb_refl; discriminate).
  destruct (known_import idx m) as [cands|]; [|right; eapply prefix_loop_fail; eauto].
  destruct cands as [|i [|i2 rest]]; [inversion H | | inversion H; subst; left; exact Mark].
  destruct (needs st (snd i)); [|right; eapply prefix_loop_fail; eauto].
  destruct (try_import w i st) as [s1 ok]. destruct ok; simpl negb in H; cbv iota in H.
  - cbv zeta in H. destruct (dotted_eqb (snd i) m); [inversion H|].
    destruct (negb (dotted_eqb (snd i) (fst i))); [inversion H|]. right. eapply prefix_loop_fail; eauto.
  - inversion H; subst. left. simpl. rewrite dotted_eqb_refl. discriminate.
Qed.

(* ---------- no statement that raised is executed again while _IMPORT_FAILED is not cleared ---------- *)

Lemma failed_tries_of : forall l, failed_tries l = map fst (filter (fun p => negb (snd p)) (tries_of l)).
Proof.
  induction l as [|e r IH]; [reflexivity|]. unfold failed_tries, tries_of in *. simpl flat_map.
  destruct e as [d ok|i ok]; simpl; [exact IH|]. destruct ok; simpl; rewrite IH; reflexivity.
Qed.

Definition tinv (s : state) : Prop :=
  NoDup (failed_tries (elog s)) /\ incl (failed_tries (elog s)) (failed s).

Lemma tinv_eq' : forall s s', failed s' = failed s -> failed_tries (elog s') = failed_tries (elog s) -> tinv s -> tinv s'.
Proof. intros s s' E1 E2 [H1 H2]. unfold tinv. rewrite E1, E2. split; assumption. Qed.

Lemma tinv_eq : forall s s', failed s' = failed s -> tries_of (elog s') = tries_of (elog s) -> tinv s -> tinv s'.
Proof. intros s s' E1 E2 H. apply (tinv_eq' s); [assumption | rewrite !failed_tries_of, E2; reflexivity | assumption]. Qed.

Lemma failed_tries_app : forall a b, failed_tries (a ++ b) = failed_tries a ++ failed_tries b.
Proof. intros. unfold failed_tries. apply flat_map_app. Qed.

Lemma NoDup_app_intro_single : forall A (l : list A) a, NoDup l -> ~ In a l -> NoDup (l ++ [a]).
Proof.
  induction l as [|x r IH]; intros a Hn Hi; simpl.
  - constructor; [intros [] | constructor].
  - inversion Hn; subst. constructor.
    + intro Hx. apply in_app_or in Hx. destruct Hx as [Hx|[Hx|[]]]; [contradiction|]. subst. apply Hi. left. reflexivity.
    + apply IH; [assumption|]. intro Ha. apply Hi. right. assumption.
Qed.

Lemma try_import_tinv : forall w i s s' b, try_import w i s = (s', b) -> tinv s -> tinv s'.
Proof.
  intros w i s s' b H Hi. unfold try_import in H.
  destruct (mem_imp i (failed s)) eqn:Em; [inversion H; subst; assumption|].
  destruct (exec_import w i s) as [s0 r] eqn:Ex.
  pose proof (exec_import_mono _ _ _ _ _ Ex) as [_ T].
  pose proof (exec_import_user _ _ _ _ _ Ex) as [(_ & U & _) _].
  assert (I0 : tinv s0) by (eapply tinv_eq; eauto).
  destruct r as [imported|]; cbv zeta in H.
  - assert (Ok : forall s1, failed s1 = failed s0 -> elog s1 = elog s0 ++ [ETry i true] -> tinv s1).
    { intros s1 E1 E2. apply (tinv_eq' s0); [assumption | | assumption].
      rewrite E2, failed_tries_app. simpl. apply app_nil_r. }
    destruct (assoc [root (snd i)] (last (nss (add_log (ETry i true) s0)) [])).
    + destruct (obj_eqb o imported); inversion H; subst; apply Ok; reflexivity.
    + inversion H; subst. apply Ok; reflexivity.
  - inversion H; subst. destruct I0 as [N0 C0]. unfold tinv. simpl. rewrite failed_tries_app. simpl.
    assert (Hni : ~ In i (failed_tries (elog s0))).
    { intro Hin. apply C0 in Hin. rewrite U in Hin. apply mem_imp_true in Hin. congruence. }
    split.
    + apply NoDup_app_intro_single; assumption.
    + intros x Hx. apply in_app_or in Hx. destruct Hx as [Hx|[Hx|[]]]; [right; apply C0; assumption | left; assumption].
Qed.

Lemma prefix_loop_tinv : forall w pms s s' r, prefix_loop w pms s = (s', r) -> tinv s -> tinv s'.
Proof.
  induction pms as [|pm r0 IH]; intros s s' r H Hi; simpl in H; [inversion H; subst; assumption|].
  destruct (needs s pm); simpl negb in H; cbv iota in H; [|eapply IH; eauto].
  assert (Body : (let (s1, e) := mexists w pm s in
               if negb e then (set_cell pm false s1, RFalse)
               else let (s2, ok) := try_import w (pm, pm) s1 in
                    let s3 := set_cell pm ok s2 in
                    if ok then prefix_loop w r0 s3 else (s3, RFalse)) = (s', r) -> tinv s').
  { clear H. intro H. destruct (mexists w pm s) as [s1 e] eqn:Em.
    pose proof (mexists_user _ _ _ _ _ Em) as (_ & U & _).
    pose proof (mexists_mono _ _ _ _ _ Em) as [_ T].
    assert (I1 : tinv s1) by (eapply tinv_eq; eauto).
    destruct e; simpl negb in H; cbv iota in H.
    - destruct (try_import w (pm, pm) s1) as [s2 ok] eqn:Et. cbv zeta in H.
      pose proof (try_import_tinv _ _ _ _ _ Et I1) as I2.
      assert (I3 : tinv (set_cell pm ok s2)) by (apply (tinv_eq' s2); [reflexivity | reflexivity | assumption]).
      destruct ok; [eapply IH; eauto | inversion H; subst; assumption].
    - inversion H; subst. apply (tinv_eq' s1); [reflexivity | reflexivity | assumption]. }
  destruct (assoc pm (cell s)) as [[|]|]; try (apply Body; exact H). inversion H; subst. assumption.
Qed.

Lemma symbol_tinv : forall w idx m s s' r, auto_import_symbol w idx m s = (s', r) -> tinv s -> tinv s'.
Proof.
  intros w idx m s s' r H Hi. unfold auto_import_symbol in H.
  destruct (needs s m); simpl negb in H; cbv iota in H; [|inversion H; subst; assumption].
  destruct (assoc m (cell s)); [inversion H; subst; assumption|].
  destruct (known_import idx m) as [cands|]; [|eapply prefix_loop_tinv; eauto].
  destruct cands as [|i [|i2 rest]].
  - inversion H; subst. assumption.
  - destruct (needs s (snd i)); [|eapply prefix_loop_tinv; eauto].
    destruct (try_import w i s) as [s1 ok] eqn:Et. pose proof (try_import_tinv _ _ _ _ _ Et Hi) as I1.
    destruct ok; simpl negb in H; cbv iota in H.
    + cbv zeta in H.
      assert (I2 : tinv (set_cell (snd i) true s1)) by (apply (tinv_eq' s1); [reflexivity | reflexivity | assumption]).
      destruct (dotted_eqb (snd i) m); [inversion H; subst; assumption|].
      destruct (negb (dotted_eqb (snd i) (fst i))); [inversion H; subst; assumption|].
      eapply prefix_loop_tinv; eauto.
    + inversion H; subst. apply (tinv_eq' s1); [reflexivity | reflexivity | assumption].
  - inversion H; subst. apply (tinv_eq' s); [reflexivity | reflexivity | assumption].
Qed.

Lemma symbols_tinv : forall w idx ms s ok s' r, symbols w idx ms s ok = (s', r) -> tinv s -> tinv s'.
Proof.
  induction ms as [|m r0 IH]; intros s ok s' r H Hi; simpl in H; [inversion H; subst; assumption|].
  destruct (auto_import_symbol w idx m s) as [s1 b] eqn:Es. pose proof (symbol_tinv _ _ _ _ _ _ Es Hi) as I1.
  destruct b; [eapply IH; eauto | eapply IH; eauto | inversion H; subst; assumption].
Qed.

Theorem no_second_attempt : forall w idx calls st,
  elog st = [] -> forallb (fun o => negb (is_clear o)) calls = true ->
  NoDup (failed_tries (elog (run_calls w idx calls st))).
Proof.
  intros w idx calls st E Hc.
  assert (G : forall calls s, forallb (fun o => negb (is_clear o)) calls = true -> tinv s -> tinv (run_calls w idx calls s)).
  { clear. induction calls as [|o r IH]; intros s Hc Hi; simpl; [assumption|].
    simpl in Hc. apply andb_true_iff in Hc. destruct Hc as [Ho Hr]. apply IH; [assumption|].
    destruct o as [ms| |]; simpl in *; try discriminate.
    - destruct ms as [l|]; simpl; [|assumption].
      destruct (symbols w idx l s true) as [s1 b] eqn:Es. simpl. eapply symbols_tinv; eauto.
    - apply (tinv_eq' s); [reflexivity | reflexivity | assumption]. }
  apply G; [assumption|]. unfold tinv. rewrite E. simpl. split; [constructor | intros x []].
Qed.

(* ---------- the strict reading of only_needed is false (finding F06a) ---------- *)
(* 1=pa 2=sa: pa is a package already imported and bound in the OUTER namespace, pa.sa not yet
   imported; the code reads pa.sa: `import pa.sa` binds pa again, in the target namespace *)
Definition f06a_w : world :=
  fun d => if dotted_eqb d [1%N] then Some (MI true [] false)
           else if dotted_eqb d [1%N; 2%N] then Some (MI false [] false) else None.
Definition f06a_st : state := ST [[([1%N], OMod [1%N])]; []] [([1%N], OMod [1%N])] [] [] [] [] [].

Theorem only_needed_strict_refuted :
  exists w idx ms st st' ok lvl k v,
    idx_ok idx /\ auto_import w idx (Some ms) st = (st', ok) /\
    ns_get st lvl k = None /\ ns_get st' lvl k = Some v /\
    exists lvl', ns_get st lvl' k <> None.
Proof.
  exists f06a_w, [], [[1%N; 2%N]], f06a_st. eexists. eexists. exists 1, [1%N], (OMod [1%N]).
  split; [intros k v i H; discriminate|]. split; [vm_compute; reflexivity|].
  split; [reflexivity|]. split; [reflexivity|]. exists 0. discriminate.
Qed.

(* when the analysis finds nothing to import, the whole auto_import call is a no-op on the whole
   state (namespaces, sys.modules, attributes, both caches, the log of executed code) *)
Theorem no_missing_noop : forall w idx ms st,
  (forall m, In m ms -> needs st m = false) -> auto_import w idx (Some ms) st = (st, RTrue).
Proof.
  intros w idx ms st. simpl. induction ms as [|m r IH]; intro H; simpl; [reflexivity|].
  unfold auto_import_symbol. rewrite (H m (or_introl eq_refl)). simpl. apply IH. intros m0 Hm. apply H. right. assumption.
Qed.

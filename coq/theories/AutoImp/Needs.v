(* M8 - symbol_needs_import on real objects, instrumented with its effect trace (C20).
   pyflyby/_autoimp.py:242-348.  No proofs in this file. *)
From Coq Require Import NArith List Bool.
From Verif Require Import AutoImp.World.
Import ListNotations.

(* The only effect symbol_needs_import can have on a user object: getattr(o, a).
   There is deliberately no constructor for import / call / == / hash / bool: the functions
   below cannot emit them (C20 no_import_no_call is a statement about this type). *)
Inductive effect := GetAttr (o : obj) (a : name).

Inductive wres := WNotMod | WDone | WAttrErr.

(*  for part in suffix_parts:
        if var is not sys.modules.get(pname, object()):   return False          -> WNotMod
        try: var = getattr(var, part)
        except AttributeError: break                                          -> WAttrErr
        pname = "%s.%s" % (pname, part)
    else: return False                                                        -> WDone       *)
Fixpoint walk (ld : list (dotted * obj)) (at_ : list ((obj * name) * obj))
              (var : obj) (pname : dotted) (parts : list name) : wres * list effect :=
  match parts with
  | [] => (WDone, [])
  | part :: rest =>
      match assoc pname ld with
      | None => (WNotMod, [])
      | Some m =>
          if negb (obj_eqb var m) then (WNotMod, [])
          else match get_attr at_ var part with
               | None => (WAttrErr, [GetAttr var part])
               | Some v => let (r, t) := walk ld at_ v (pname ++ [part]) rest in
                           (r, GetAttr var part :: t)
               end
      end
  end.

(*  for ns_idx, ns in reversed(list(enumerate(namespaces))):
        for partial_name in partial_names:           # fullname.prefixes[::-1]
            try: var = ns[str(partial_name)]
            except KeyError: continue
            ... walk ...                             # `break` leaves only the `for part` loop:
                                                     # the next (shorter) partial name of the SAME
                                                     # namespace is tried next
    return True
   `pairs` is the iteration space flattened in that order. *)
Definition pairs_of (nss_ : list ns) (full : dotted) : list (ns * dotted) :=
  flat_map (fun n => map (fun p => (n, p)) (rev (prefixes full))) (rev nss_).

Fixpoint scan (ld : list (dotted * obj)) (at_ : list ((obj * name) * obj)) (full : dotted)
              (pairs : list (ns * dotted)) : bool * list effect :=
  match pairs with
  | [] => (true, [])
  | (n, p) :: r =>
      match assoc p n with
      | None => scan ld at_ full r
      | Some var =>
          let (res, t) := walk ld at_ var p (skipn (length p) full) in
          match res with
          | WAttrErr => let (b, t') := scan ld at_ full r in (b, t ++ t')
          | _ => (false, t)
          end
      end
  end.

(* The builtins are ordinary levels at the bottom of the stack (ScopeStack.__init__ prepends
   builtins.__dict__ and _builtins2); the harness supplies them as nss[0]. *)
Definition needs_import (s : state) (full : dotted) : bool * list effect :=
  scan (loaded s) (attrs s) full (pairs_of (nss s) full).
Definition needs (s : state) (full : dotted) : bool := fst (needs_import s full).

(* find_missing_imports(arg, namespaces) when arg is one dotted identifier (the fast path,
   _autoimp.py:1684-1696):   return [arg] if symbol_needs_import(arg, namespaces) else []
   The state is threaded only to say that it is returned as given. *)
Definition find_missing_ident (s : state) (n : dotted) : state * list dotted * list effect :=
  let (b, t) := needs_import s n in (s, if b then [n] else [], t).

(* Entry points evaluated by the correspondence harness (harness/c06.py, c07.py, c20.py). *)
From Coq Require Import NArith List Bool String.
From Verif Require Import Base.Chars Base.Show
     AutoImp.World AutoImp.Needs AutoImp.TryImport AutoImp.AutoImport AutoImp.Inv AutoImp.FinderEffects.
Import ListNotations.
Open Scope string_scope.

Definition show_dotted (d : dotted) : string := show_list show_N d.
Definition show_obj_ (o : obj) : string :=
  match o with
  | OMod d => "[""m""," ++ show_dotted d ++ "]"
  | OVal d k => "[""v""," ++ show_dotted d ++ "," ++ show_N k ++ "]"
  | OExt n => "[""e""," ++ show_N n ++ "]"
  end.
Definition show_res (r : res) : string :=
  match r with RTrue => """true""" | RFalse => """false""" | RCrash => """crash""" end.
Definition show_ev (e : ev) : string :=
  match e with
  | EExec d ok => "[""exec""," ++ show_dotted d ++ "," ++ show_bool ok ++ "]"
  | ETry i ok => "[""try""," ++ show_dotted (fst i) ++ "," ++ show_dotted (snd i) ++ "," ++ show_bool ok ++ "]"
  end.
Definition show_effect (e : effect) : string :=
  match e with GetAttr o a => "[" ++ show_obj_ o ++ "," ++ show_N a ++ "]" end.

Definition show_state (s : state) : string :=
  show_obj [
    ("nss", show_list (show_list (show_pair show_dotted show_obj_)) (nss s));
    ("loaded", show_list (show_pair show_dotted show_obj_) (loaded s));
    ("attrs", show_list (fun e => "[" ++ show_obj_ (fst (fst e)) ++ "," ++ show_N (snd (fst e)) ++ "," ++ show_obj_ (snd e) ++ "]") (attrs s));
    ("failed", show_list (show_pair show_dotted show_dotted) (failed s));
    ("cell", show_list (show_pair show_dotted show_bool) (cell s));
    ("excache", show_list (show_pair show_dotted show_bool) (excache s));
    ("log", show_list show_ev (elog s))
  ].

Definition conv_mods (mods : list (dotted * (bool * list name * bool))) : list (dotted * modinfo) :=
  map (fun e => (fst e, match snd e with (p, a, r) => MI p a r end)) mods.
Definition mk_world (mods : list (dotted * (bool * list name * bool))) : world :=
  fun d => assoc d (conv_mods mods).

(* initial state of a case: user namespaces (builtins first), extra sys.modules entries and
   attributes of non-universe objects, then the universe modules the case imports beforehand *)
Definition mk_state (w : world) (nss0 : list ns) (loaded0 : list (dotted * obj))
                    (attrs0 : list ((obj * name) * obj)) (preload : list dotted) : state :=
  fold_left (fun s d => fst (load w d s)) preload (ST nss0 loaded0 attrs0 [] [] [] []).

(* harness-only environment action between calls: the user deletes a name (`del x` in a cell) *)
Inductive wop := WOp (o : op) | WDel (lvl : nat) (k : dotted).
Definition ns_remove (k : dotted) (n : ns) : ns := filter (fun kv => negb (dotted_eqb k (fst kv))) n.
Fixpoint del_at (lvl : nat) (k : dotted) (l : list ns) : list ns :=
  match l, lvl with
  | [], _ => []
  | n :: r, O => ns_remove k n :: r
  | n :: r, S j => n :: del_at j k r
  end.

Fixpoint run_ops (w : world) (idx : index_t) (ops : list wop) (s : state) : list string :=
  match ops with
  | [] => []
  | o :: r =>
      let (s', rs) := match o with
                      | WOp (OCall ms) => let (s1, b) := auto_import w idx ms s in (s1, show_res b)
                      | WOp o' => (step w idx s o', "null")
                      | WDel lvl k => (set_nss (del_at lvl k (nss s)) s, "null")
                      end in
      show_obj [("r", rs); ("st", show_state s')] :: run_ops w idx r s'
  end.

Definition show_index (i : index_t) : string :=
  show_list (show_pair show_dotted (show_list (show_pair show_dotted show_dotted))) i.

Definition run_seq (mods : list (dotted * (bool * list name * bool)))
                   (db forget : list imp) (drop_empty : bool)
                   (nss0 : list ns) (loaded0 : list (dotted * obj)) (attrs0 : list ((obj * name) * obj))
                   (preload : list dotted) (ops : list wop) : string :=
  let w := mk_world mods in
  let idx := index db forget drop_empty in
  let s0 := mk_state w nss0 loaded0 attrs0 preload in
  show_obj [("index", show_index idx);
            ("wf", show_bool (wf_b w s0));
            ("wfp", show_bool (wfp_b w s0 && noclash_b (conv_mods mods)));
            ("init", show_state s0);
            ("steps", "[" ++ join "," (run_ops w idx ops s0) ++ "]")].

(* C20: one symbol_needs_import call on a given state *)
Definition run_needs (nss0 : list ns) (loaded0 : list (dotted * obj)) (attrs0 : list ((obj * name) * obj))
                     (full : dotted) : string :=
  let s := ST nss0 loaded0 attrs0 [] [] [] [] in
  let (b, t) := needs_import s full in
  show_obj [("needs", show_bool b); ("trace", show_list show_effect t);
            ("registered", show_bool (forallb (fun e => match e with GetAttr o _ =>
                                     existsb (fun kv => obj_eqb (snd kv) o) loaded0 end) t))].

(* C20: a whole analysis = the thinnest client asking the captured questions in order *)
Definition run_finder (loaded0 : list (dotted * obj)) (attrs0 : list ((obj * name) * obj))
                      (qs : list question) : string :=
  match analyse loaded0 attrs0 (finder_client qs) with
  | (answers, tr, asked) =>
      show_obj [("answers", show_list show_bool answers); ("trace", show_list show_effect tr);
                ("asked", show_list (fun q => show_dotted (snd q)) asked);
                ("registered", show_bool (forallb (fun e => match e with GetAttr o _ =>
                                          existsb (fun kv => obj_eqb (snd kv) o) loaded0 end) tr))]
  end.

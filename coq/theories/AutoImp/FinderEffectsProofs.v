(* C20 lifted from one symbol_needs_import call to a whole analysis. *)
From Coq Require Import NArith List Bool.
From Verif Require Import AutoImp.World AutoImp.Needs AutoImp.Spec AutoImp.FinderEffects
                          AutoImp.WorldProofs AutoImp.NeedsProofs.
Import ListNotations.

Definition trace_of (ld : list (dotted * obj)) (at_ : list ((obj * name) * obj)) (q : question) : list effect :=
  snd (answer ld at_ q).

Lemma run_acc : forall R ld at_ (c : analysis R) tr qs,
  run ld at_ c tr qs =
  let '(r, t, q) := run ld at_ c [] [] in (r, tr ++ t, qs ++ q).
Proof.
  intros R ld at_ c. induction c as [r|q k IH]; intros tr qs; simpl.
  - rewrite !app_nil_r. reflexivity.
  - destruct (answer ld at_ q) as [b t]. rewrite (IH b (tr ++ t) (qs ++ [q])), (IH b t [q]).
    destruct (run ld at_ (k b) [] []) as [[r t'] q']. simpl. rewrite <- !app_assoc. reflexivity.
Qed.

Lemma run_spec : forall R ld at_ (c : analysis R) tr qs,
  exists r q', run ld at_ c tr qs = (r, tr ++ flat_map (trace_of ld at_) q', qs ++ q').
Proof.
  intros R ld at_ c. induction c as [r|q k IH]; intros tr qs.
  - exists r, []. cbn [run flat_map]. rewrite !app_nil_r. reflexivity.
  - cbn [run]. destruct (answer ld at_ q) as [b t] eqn:Ea.
    destruct (IH b (tr ++ t) (qs ++ [q])) as (r & q' & E). exists r, (q :: q'). rewrite E.
    cbn [flat_map]. unfold trace_of at 2. rewrite Ea. cbn [snd]. rewrite <- !app_assoc. reflexivity.
Qed.

(* the effect trace of the whole analysis is exactly the concatenation, in call order, of the traces
   of the symbol_needs_import calls it makes - for EVERY client, i.e. whatever the finder computes *)
Theorem analysis_trace_concat : forall R ld at_ (c : analysis R),
  let '(_, tr, qs) := analyse ld at_ c in tr = flat_map (trace_of ld at_) qs.
Proof.
  intros R ld at_ c. unfold analyse. destruct (run_spec R ld at_ c [] []) as (r & q' & E). rewrite E. reflexivity.
Qed.

Lemma answer_is_needs : forall ld at_ q,
  answer ld at_ q = needs_import (ST (fst q) ld at_ [] [] [] []) (snd q).
Proof. reflexivity. Qed.

(* every attribute read of the whole analysis is a read some symbol_needs_import call makes on the object
   registered in sys.modules under a dotted prefix d of the name THAT call was asked about, for the
   attribute spelled after d *)
Theorem analysis_getattr_registered : forall R ld at_ (c : analysis R) o a,
  let '(_, tr, qs) := analyse ld at_ c in
  In (GetAttr o a) tr ->
  exists q, In q qs /\ exists d rest, assoc d ld = Some o /\ snd q = d ++ a :: rest.
Proof.
  intros R ld at_ c o a. pose proof (analysis_trace_concat R ld at_ c) as H.
  destruct (analyse ld at_ c) as [[r tr] qs]. subst tr. intro Hin.
  apply in_flat_map in Hin. destruct Hin as (q & Hq & Ht). exists q. split; [assumption|].
  unfold trace_of in Ht. rewrite answer_is_needs in Ht. apply getattr_registered in Ht. exact Ht.
Qed.

Theorem analysis_all_reads : forall R ld at_ (c : analysis R),
  let '(_, tr, _) := analyse ld at_ c in Forall is_read tr.
Proof.
  intros R ld at_ c. destruct (analyse ld at_ c) as [[r tr] qs]. apply Forall_forall. intros [o a] _. exact I.
Qed.

(* the analysis has no other output than its result: state (namespaces, sys.modules, attributes) is only read *)
Lemma run_amap : forall R S (f : R -> S) ld at_ (c : analysis R) tr qs,
  run ld at_ (amap f c) tr qs = let '(r, t, q) := run ld at_ c tr qs in (f r, t, q).
Proof.
  intros R S f ld at_ c. induction c as [r|q k IH]; intros tr qs; simpl; [reflexivity|].
  destruct (answer ld at_ q) as [b t]. apply IH.
Qed.

(* the thinnest client asks exactly the given questions, in that order, and returns their answers *)
Theorem finder_client_calls : forall ld at_ qs,
  analyse ld at_ (finder_client qs) =
  (map (fun q => fst (answer ld at_ q)) qs, flat_map (trace_of ld at_) qs, qs).
Proof.
  intros ld at_ qs. unfold analyse. induction qs as [|q r IH]; [reflexivity|].
  cbn [finder_client run map flat_map]. unfold trace_of at 1. destruct (answer ld at_ q) as [b t] eqn:Ea.
  rewrite run_amap, (run_acc _ ld at_ (finder_client r) ([] ++ t) ([] ++ [q])), IH. reflexivity.
Qed.

(* M8 - auto_import_symbol, auto_import, and call sequences sharing the attempt caches.
   pyflyby/_autoimp.py:1844-2026, _interactive.py reset_state_new_cell.  No proofs here. *)
From Coq Require Import NArith List Bool.
From Verif Require Import AutoImp.World AutoImp.Needs AutoImp.TryImport.
Import ListNotations.

(* RCrash = `assert len(imports) >= 1` fails (AssertionError escapes; F21) *)
Inductive res := RTrue | RFalse | RCrash.

(*  for pmodule in ModuleHandle(fullname).ancestors:
        if not symbol_needs_import(pmodule.name, namespaces): continue
        if pmodule_name in autoimported:
            if not autoimported[pmodule_name]: return False
        if not pmodule.exists:
            autoimported[pmodule_name] = False; return False
        result = _try_import("import %s" % pmodule_name, namespaces[-1])
        autoimported[pmodule_name] = result
        if not result: return False
    return True *)
Fixpoint prefix_loop (w : world) (pms : list dotted) (s : state) : state * res :=
  match pms with
  | [] => (s, RTrue)
  | pm :: r =>
      if negb (needs s pm) then prefix_loop w r s
      else match assoc pm (cell s) with
           | Some false => (s, RFalse)
           | _ =>
               let (s1, e) := mexists w pm s in
               if negb e then (set_cell pm false s1, RFalse)
               else let (s2, ok) := try_import w (pm, pm) s1 in
                    let s3 := set_cell pm ok s2 in
                    if ok then prefix_loop w r s3 else (s3, RFalse)
           end
  end.

(*  if not symbol_needs_import(fullname, namespaces): return True
    if DottedIdentifier(fullname) in autoimported: return False
    imports = get_known_import(fullname, db=db)
    if imports is None: pass
    else:
        assert len(imports) >= 1
        if len(imports) > 1:
            autoimported[DottedIdentifier(fullname)] = False; return False
        imp, = imports
        if symbol_needs_import(imp.import_as, namespaces=namespaces):
            if not _try_import(imp, namespaces[-1]):
                autoimported[DottedIdentifier(fullname)] = False; return False
            autoimported[DottedIdentifier(imp.import_as)] = True
            if imp.import_as == fullname: return True
            if imp.import_as != imp.fullname: return True
    <prefix loop> *)
Definition auto_import_symbol (w : world) (idx : index_t) (full : dotted) (s : state) : state * res :=
  if negb (needs s full) then (s, RTrue)
  else match assoc full (cell s) with
  | Some _ => (s, RFalse)
  | None =>
      match known_import idx full with
      | None => prefix_loop w (prefixes full) s
      | Some [] => (s, RCrash)
      | Some (_ :: _ :: _) => (set_cell full false s, RFalse)
      | Some [i] =>
          if needs s (snd i) then
            let (s1, ok) := try_import w i s in
            if negb ok then (set_cell full false s1, RFalse)
            else let s2 := set_cell (snd i) true s1 in
                 if dotted_eqb (snd i) full then (s2, RTrue)
                 else if negb (dotted_eqb (snd i) (fst i)) then (s2, RTrue)
                 else prefix_loop w (prefixes full) s2
          else prefix_loop w (prefixes full) s
      end
  end.

(*  try: fullnames = find_missing_imports(arg, namespaces)
    except SyntaxError: return False
    if not fullnames: return True
    ok = True
    for fullname in fullnames:
        ok &= auto_import_symbol(fullname, namespaces, db, autoimported, ...)
    return ok
   `ms` = the list find_missing_imports returned (oracle argument; Scope/ models the finder). *)
Fixpoint symbols (w : world) (idx : index_t) (ms : list dotted) (s : state) (ok : bool) : state * res :=
  match ms with
  | [] => (s, if ok then RTrue else RFalse)
  | m :: r =>
      let (s1, b) := auto_import_symbol w idx m s in
      match b with
      | RCrash => (s1, RCrash)
      | RTrue => symbols w idx r s1 ok
      | RFalse => symbols w idx r s1 false
      end
  end.

Definition auto_import (w : world) (idx : index_t) (ms : option (list dotted)) (s : state) : state * res :=
  match ms with
  | None => (s, RFalse)               (* SyntaxError *)
  | Some l => symbols w idx l s true
  end.

(* ---------- histories: successive calls sharing _IMPORT_FAILED, ModuleHandle caches, sys.modules ---------- *)
Inductive op :=
  | OCall (ms : option (list dotted))   (* auto_import(code, namespaces, db, autoimported=cell) *)
  | ONewCell                            (* AutoImporter.reset_state_new_cell: cell := {} *)
  | OClearFailed.                       (* clear_failed_imports_cache() *)

Definition step (w : world) (idx : index_t) (s : state) (o : op) : state :=
  match o with
  | OCall ms => fst (auto_import w idx ms s)
  | ONewCell => ST (nss s) (loaded s) (attrs s) (failed s) [] (excache s) (elog s)
  | OClearFailed => ST (nss s) (loaded s) (attrs s) [] (cell s) (excache s) (elog s)
  end.

Definition run_calls (w : world) (idx : index_t) (ops : list op) (s : state) : state :=
  fold_left (step w idx) ops s.

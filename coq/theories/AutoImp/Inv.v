(* M8 - well-formedness of an interpreter state (boolean, so that the harness evaluates it on the
   initial state of every generated case): the facts about sys.modules / module attributes that
   CPython maintains by itself and that C07 success_resolves needs.  No proofs in this file. *)
From Coq Require Import NArith List Bool.
From Verif Require Import AutoImp.World AutoImp.Needs.
Import ListNotations.

(* an object OMod d is "alive" only as the registered module of that name *)
Definition obj_ok (ld : list (dotted * obj)) (o : obj) : bool :=
  match o with
  | OMod d => match assoc d ld with Some m => obj_eqb m (OMod d) | None => false end
  | _ => true
  end.

(* sys.modules is closed under parents, and a loaded submodule is an attribute of its parent *)
Definition entry_ok (ld : list (dotted * obj)) (at_ : list ((obj * name) * obj)) (e : dotted * obj) : bool :=
  match parent (fst e) with
  | [] => true
  | par => match assoc par ld, assoc (fst e) ld with
           | Some po, Some m => match get_attr at_ po (last (fst e) 0%N) with
                                | Some v => obj_eqb v m
                                | None => false
                                end
           | _, _ => false
           end
  end.

(* an attribute of a universe module that is spelled like one of its importable submodules is
   that submodule, loaded (`import p.s` rebinds p.s; nothing else may sit there) *)
Definition attr_ok (w : world) (ld : list (dotted * obj)) (e : (obj * name) * obj) : bool :=
  match fst (fst e) with
  | OMod d => if is_file w (d ++ [snd (fst e)])
              then match assoc (d ++ [snd (fst e)]) ld with
                   | Some m => obj_eqb m (snd e)
                   | None => false
                   end
              else true
  | _ => true
  end.

Definition wf_b (w : world) (s : state) : bool :=
  forallb (fun n => forallb (fun kv => obj_ok (loaded s) (snd kv)) n) (nss s)
  && forallb (fun kv => obj_ok (loaded s) (snd kv)) (loaded s)
  && forallb (fun e => obj_ok (loaded s) (snd e)) (attrs s)
  && forallb (entry_ok (loaded s) (attrs s)) (loaded s)
  && forallb (attr_ok w (loaded s)) (attrs s).

(* M8 - well-formedness of an interpreter state (boolean, so that the harness evaluates it on the
   initial state of every generated case): the facts about sys.modules / module attributes that
   CPython maintains by itself and that C07 success_resolves needs.  No proofs in this file. *)
From Coq Require Import NArith List Bool.
From Verif Require Import AutoImp.World AutoImp.Needs.
Import ListNotations.

(* an object OMod d is "alive" only as the registered module of that name *)
Definition obj_ok (ld : list (dotted * obj)) (o : obj) : bool :=
  match o with
  | OMod d => match assoc d ld with Some m => obj_eqb m (OMod d) | None => false end
  | _ => true
  end.

(* sys.modules is closed under parents, and a loaded submodule is an attribute of its parent *)
Definition entry_ok (ld : list (dotted * obj)) (at_ : list ((obj * name) * obj)) (e : dotted * obj) : bool :=
  match parent (fst e) with
  | [] => true
  | par => match assoc par ld, assoc (fst e) ld with
           | Some po, Some m => match get_attr at_ po (last (fst e) 0%N) with
                                | Some v => obj_eqb v m
                                | None => false
                                end
           | _, _ => false
           end
  end.

(* an attribute of a universe module that is spelled like one of its importable submodules is
   that submodule, loaded (`import p.s` rebinds p.s; nothing else may sit there) *)
Definition attr_ok (w : world) (ld : list (dotted * obj)) (e : (obj * name) * obj) : bool :=
  match fst (fst e) with
  | OMod d => if is_file w (d ++ [snd (fst e)])
              then match assoc (d ++ [snd (fst e)]) ld with
                   | Some m => obj_eqb m (snd e)
                   | None => false
                   end
              else true
  | _ => true
  end.

Definition wf_b (w : world) (s : state) : bool :=
  forallb (fun n => forallb (fun kv => obj_ok (loaded s) (snd kv)) n) (nss s)
  && forallb (fun kv => obj_ok (loaded s) (snd kv)) (loaded s)
  && forallb (fun e => obj_ok (loaded s) (snd e)) (attrs s)
  && forallb (entry_ok (loaded s) (attrs s)) (loaded s)
  && forallb (attr_ok w (loaded s)) (attrs s).

(* ---------- the invariant of C07 success_resolves_wf (Prop form; proofs in WfProofs.v) ---------- *)

(* no module has a static attribute spelled like one of its importable submodules
   (`sa = 1` in pa/__init__.py next to pa/sa.py): the shape behind finding F07a *)
Definition noclash (w : world) : Prop :=
  forall d k, In k (static_attrs w d) -> is_file w (d ++ [k]) = false.

Record WF (w : world) (s : state) : Prop := {
  (* sys.modules[d] is the module object of d (no proxies, no aliases) *)
  wf_loaded : forall d o, assoc d (loaded s) = Some o -> o = OMod d;
  (* a module object held by a namespace is the registered module of its name *)
  wf_ns : forall n k d, In n (nss s) -> assoc k n = Some (OMod d) -> assoc d (loaded s) = Some (OMod d);
  (* a module object held as an attribute is registered, and is a submodule (never a top-level module) *)
  wf_attr_alive : forall o k d, get_attr (attrs s) o k = Some (OMod d) ->
                    assoc d (loaded s) = Some (OMod d) /\ 2 <= length d;
  (* only loaded modules have attributes *)
  wf_attr_owner : forall d k v, get_attr (attrs s) (OMod d) k = Some v -> assoc d (loaded s) <> None;
  (* a loaded submodule is an attribute of its (loaded) parent *)
  wf_parent : forall d, assoc d (loaded s) <> None -> parent d <> [] ->
                assoc (parent d) (loaded s) <> None /\
                get_attr (attrs s) (OMod (parent d)) (last d 0%N) = Some (OMod d);
  (* an attribute spelled like an importable submodule is that submodule *)
  wf_sub : forall d k v, get_attr (attrs s) (OMod d) k = Some v -> is_file w (d ++ [k]) = true -> v = OMod (d ++ [k])
}.

(* boolean checkers (sufficient conditions, WfProofs.wfp_b_sound / noclash_b_sound), evaluated by the
   harness on the initial state of every generated case *)
Definition is_omod (o : obj) : option dotted := match o with OMod d => Some d | _ => None end.
Definition reg_ok (ld : list (dotted * obj)) (v : obj) : bool :=
  match v with
  | OMod d => match assoc d ld with Some m => obj_eqb m (OMod d) | None => false end
  | _ => true
  end.
Definition wfp_b (w : world) (s : state) : bool :=
  forallb (fun e => obj_eqb (snd e) (OMod (fst e))) (loaded s)
  && forallb (fun n => forallb (fun kv => reg_ok (loaded s) (snd kv)) n) (nss s)
  && forallb (fun e => reg_ok (loaded s) (snd e)
                       && match snd e with OMod d => Nat.leb 2 (length d) | _ => true end
                       && match fst (fst e) with
                          | OMod d => match assoc d (loaded s) with Some _ => true | None => false end
                                      && (if is_file w (d ++ [snd (fst e)]) then obj_eqb (snd e) (OMod (d ++ [snd (fst e)])) else true)
                          | _ => true
                          end) (attrs s)
  && forallb (fun e => match parent (fst e) with
                       | [] => true
                       | par => match assoc par (loaded s), get_attr (attrs s) (OMod par) (last (fst e) 0%N) with
                                | Some _, Some v => obj_eqb v (OMod (fst e))
                                | _, _ => false
                                end
                       end) (loaded s).

Definition noclash_b (mods : list (dotted * modinfo)) : bool :=
  let w := fun d => assoc d mods in
  forallb (fun e => forallb (fun k => negb (is_file w (fst e ++ [k]))) (mi_attrs (snd e))) mods.

(* M8 / C20 - the whole name analysis as a CLIENT of symbol_needs_import.
   find_missing_imports (_MissingImportFinder) keeps its own scopes of markers (None, _UseChecker,
   _PrefixUse) and reaches the objects of the user's namespaces only by calling
   symbol_needs_import(fullname, scopestack).  `analysis R` is the type of every computation of that
   shape: it may ask any question (any stack - the user's namespaces plus whatever private scopes it
   pushed - and any dotted name), any number of times, and continue with the answer in any way.
   The Scope/ model of the finder (owned by C05) is not parameterised by the namespace test - its
   namespaces hold names only - so the concrete client used by the correspondence is the thinnest one:
   `finder_client qs`, which asks the list of questions qs in order (qs = the calls captured from the
   real finder on that run).  No proofs in this file. *)
From Coq Require Import NArith List Bool.
From Verif Require Import AutoImp.World AutoImp.Needs.
Import ListNotations.

Definition question := (list ns * dotted)%type.      (* (scopestack passed, fullname) *)

Inductive analysis (R : Type) : Type :=
  | ARet (r : R)
  | AAsk (q : question) (k : bool -> analysis R).
Arguments ARet {R} r.
Arguments AAsk {R} q k.

(* one symbol_needs_import call against the interpreter state (sys.modules, attributes) *)
Definition answer (ld : list (dotted * obj)) (at_ : list ((obj * name) * obj)) (q : question) : bool * list effect :=
  scan ld at_ (snd q) (pairs_of (fst q) (snd q)).

(* operational run: effects and questions are appended as they happen *)
Fixpoint run {R} (ld : list (dotted * obj)) (at_ : list ((obj * name) * obj)) (c : analysis R)
             (tr : list effect) (qs : list question) : R * list effect * list question :=
  match c with
  | ARet r => (r, tr, qs)
  | AAsk q k => let (b, t) := answer ld at_ q in run ld at_ (k b) (tr ++ t) (qs ++ [q])
  end.
Definition analyse {R} ld at_ (c : analysis R) := run ld at_ c [] [].

Fixpoint amap {R S} (f : R -> S) (c : analysis R) : analysis S :=
  match c with
  | ARet r => ARet (f r)
  | AAsk q k => AAsk q (fun b => amap f (k b))
  end.

(* the thinnest client: ask the given questions in order, return the answers *)
Fixpoint finder_client (qs : list question) : analysis (list bool) :=
  match qs with
  | [] => ARet []
  | q :: r => AAsk q (fun b => amap (cons b) (finder_client r))
  end.

(* the module-level fragment (a snippet made of expressions without def / lambda / comprehension):
   one question per maximal dotted read, in evaluation order, always with the same stack *)
Definition module_level_client (stk : list ns) (reads : list dotted) : analysis (list bool) :=
  finder_client (map (fun n => (stk, n)) reads).

(* Entry points for harness/c02.py: import blocks through the C11 ImportSet model. *)
From Coq Require Import NArith List String Bool.
From Verif Require Import Base.Chars Base.Show Imports.Import Imports.ImportSet Imports.Wire ImportSem.BlockEnv.
Import ListNotations.
Open Scope string_scope.

(* fix_unused_and_missing_imports, one import block: for (lineno, imp) in unused: remove_import(imp, lineno)
     imports = block.importset.by_import_as[imp.import_as]   (KeyError -> NoSuchImportError, logged)
     if len(imports) > 1: raise;  block.importset = block.importset.without_imports([imports[0]]) *)
Definition tidy_block (B : list import) (R : list str) : import_set :=
  fold_left (fun S a => match by_import_as S a with [i] => without_imports S [i] | _ => S end) R (from_imports true B).

Definition run_block (sep : bool) (B : list (str * str)) (R : list str) : string :=
  let b := mk_imports B in
  show_obj [("set", show_imports (imports_of (from_imports true b)));
            ("reformat", show_imports (canonical sep (from_imports true b)));
            ("tidy", show_imports (canonical sep (tidy_block b R)))].

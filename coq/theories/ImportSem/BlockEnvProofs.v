(* C02 - block_render_preserves_env: re-rendering a compatible import block (ImportSet with ignore_shadowed,
   grouped and sorted statements) preserves what every name denotes and what is loaded. *)
From Coq Require Import NArith List Bool Lia.
From Verif Require Import Base.Chars Base.StrX Base.StrXProofs Imports.Import Imports.ImportSet Imports.ImportProofs
                          Imports.ImportSetProofs Imports.RoundTripProofs ImportSem.BlockEnv.
Import ListNotations.

Lemma lookup_env_some : forall B x v, lookup_env B x = Some v -> exists i, In i B /\ bound_name i = x /\ value_of i = v.
Proof.
  induction B as [|i B IH]; cbn; intros x v H. discriminate.
  destruct (lookup_env B x) eqn:E.
  - injection H as <-. destruct (IH _ _ E) as (j & Hj & A & C). exists j. auto.
  - destruct (str_eqb (bound_name i) x) eqn:E2; try discriminate. injection H as <-.
    exists i. split; auto. split; auto. apply str_eqb_eq. exact E2.
Qed.
Lemma lookup_env_binder : forall B x i, In i B -> bound_name i = x -> exists v, lookup_env B x = Some v.
Proof.
  induction B as [|j B IH]; cbn; intros x i Hin Hb. contradiction.
  destruct (lookup_env B x) eqn:E; eauto.
  destruct Hin as [->|Hin].
  - subst x. rewrite str_eqb_refl. eauto.
  - destruct (IH _ _ Hin Hb) as (v & Hv). congruence.
Qed.

(* under compatibility the environment depends on the set of imports only *)
Lemma lookup_env_set : forall B B', compatible B -> (forall i, In i B' <-> In i B) ->
  forall x, lookup_env B' x = lookup_env B x.
Proof.
  intros B B' Hc Hset x.
  destruct (lookup_env B' x) as [v'|] eqn:E'; destruct (lookup_env B x) as [v|] eqn:E; auto.
  - apply lookup_env_some in E' as (i & Hi & A & C). apply lookup_env_some in E as (j & Hj & A2 & C2).
    apply Hset in Hi. subst v v'. f_equal. apply (proj1 Hc); auto. congruence.
  - apply lookup_env_some in E' as (i & Hi & A & C). apply Hset in Hi.
    destruct (lookup_env_binder B x i Hi A) as (v & Hv). congruence.
  - apply lookup_env_some in E as (i & Hi & A & C). apply Hset in Hi.
    destruct (lookup_env_binder B' x i Hi A) as (v' & Hv). congruence.
Qed.

Lemma filter_shadowed_keeps : forall B i, compatible B -> In i B -> In i (filter_shadowed B).
Proof.
  induction B as [|j B IH]; intros i Hc Hin. contradiction.
  assert (Hc' : compatible B).
  { destruct Hc as [C1 C2]. split; intros; [apply C1|apply C2]; auto; right; auto. }
  cbn. destruct (is_star j || negb (existsb (fun k => str_eqb (import_as k) (import_as j)) B)) eqn:E.
  - destruct Hin as [->|Hin]. left; reflexivity. right. apply IH; auto.
  - apply orb_false_iff in E as [Es Ee]. apply negb_false_iff in Ee.
    apply existsb_exists in Ee as (k & Hk & Hek). apply str_eqb_eq in Hek.
    destruct Hin as [->|Hin].
    + assert (i = k). { apply (proj2 Hc); auto. left; reflexivity. right; exact Hk. } subst k. apply IH; auto.
    + apply IH; auto.
Qed.

Lemma rendered_set : forall sep B, Forall wf_import B -> compatible B ->
  forall i, In i (rendered sep B) <-> In i B.
Proof.
  intros sep B Hwf Hc i. unfold rendered.
  rewrite canonical_in by (apply from_imports_wf; exact Hwf).
  unfold from_imports. split.
  - intro H. apply sort_u_in in H. apply filter_shadowed_in in H. exact H.
  - intro H. apply (sort_u_in_rev import_compare import_compare_eq import_compare_refl). apply filter_shadowed_keeps; auto.
Qed.

(* block_render_preserves_env (partial: under `compatible B`) *)
Theorem block_render_preserves_env_partial : forall sep B, Forall wf_import B -> compatible B ->
  (forall x, lookup_env (rendered sep B) x = lookup_env B x) /\
  (forall m, In m (loaded (rendered sep B)) <-> In m (loaded B)).
Proof.
  intros sep B Hwf Hc. split.
  - apply lookup_env_set. exact Hc. apply rendered_set; assumption.
  - intro m. unfold loaded. rewrite !in_map_iff. split; intros (i & E & Hi); exists i; split; auto;
      apply (rendered_set sep B Hwf Hc); exact Hi.
Qed.

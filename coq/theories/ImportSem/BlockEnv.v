(* C02 - the meaning of a block of import statements (specification side): which object every top-level
   name denotes after the imports have been executed in order, and which submodules have been loaded.
   Over the Import record of Imports/Import.v (the C11 model).  Definitions only. *)
From Coq Require Import NArith List Bool.
From Verif Require Import Base.Chars Base.StrX Imports.Import Imports.ImportSet.
Import ListNotations.

(* `import a.b.c` (import_as = fullname): binds the root `a` to the package `a`;
   every other form binds import_as to the object named by fullname *)
Definition is_plain (i : import) : bool := str_eqb (import_as i) (fullname i).
Definition root (s : str) : str := match split_on c_dot s with [] => [] | r :: _ => r end.
Definition bound_name (i : import) : str := if is_plain i then root (fullname i) else import_as i.
(* the object: (is it "the package of that root name", dotted path) *)
Definition value_of (i : import) : bool * str := if is_plain i then (true, root (fullname i)) else (false, fullname i).

(* last binder of each top-level name wins *)
Fixpoint lookup_env (B : list import) (x : str) : option (bool * str) :=
  match B with
  | [] => None
  | i :: r => match lookup_env r x with
              | Some v => Some v
              | None => if str_eqb (bound_name i) x then Some (value_of i) else None
              end
  end.
(* executing an import loads the module it names (and its parents): the set only grows *)
Definition loaded (B : list import) : list str := map fullname B.

(* a block whose imports never bind one name to two different objects, and in which two different
   (non-star) imports never have the same import_as *)
Definition compatible (B : list import) : Prop :=
  (forall i j, In i B -> In j B -> bound_name i = bound_name j -> value_of i = value_of j) /\
  (forall i j, In i B -> In j B -> is_star i = false -> import_as i = import_as j -> i = j).

(* the imports executed by the printed statements of ImportSet(B, ignore_shadowed=True) *)
Definition rendered (sep : bool) (B : list import) : list import := canonical sep (from_imports true B).

(* string_literals() reports the string constants of the (walked) tree in source order. *)
From Coq Require Import Arith Bool List NArith Lia ZifyBool Sorting.Sorted.
From Verif Require Import Base.Chars Text.FilePos Text.FileText Text.FileTextProofs Text.StrLits.
Import ListNotations.

Definition le (a b : pos) : Prop := pos_leb a b = true.
Definition nle (x y : anode) : Prop := le (a_start x) (a_start y).

Lemma le_refl a : le a a.
Proof. apply pos_leb_refl. Qed.
Lemma le_trans a b c : le a b -> le b c -> le a c.
Proof. apply pos_leb_trans. Qed.
Lemma le_total a b : pos_leb a b = false -> le b a.
Proof. unfold le, pos_leb. lia. Qed.

Lemma pos_max_l a b : le a (pos_max a b).
Proof. unfold pos_max. destruct (pos_leb a b) eqn:E; [exact E|apply le_refl]. Qed.
Lemma pos_max_r a b : le b (pos_max a b).
Proof. unfold pos_max. destruct (pos_leb a b) eqn:E; [apply le_refl|apply le_total; exact E]. Qed.

Section Bounds.
Variable g : anode -> pos.
Definition upper (cs : list anode) (acc : pos) : pos := fold_left (fun acc c => pos_max acc (g c)) cs acc.

Lemma upper_ge_acc : forall cs acc, le acc (upper cs acc).
Proof.
  induction cs as [|c r IH]; intros acc; [apply le_refl|].
  cbn. eapply le_trans; [apply pos_max_l|apply IH].
Qed.
End Bounds.

Lemma sorted_app {A} (R : A -> A -> Prop) a b :
  StronglySorted R a -> StronglySorted R b -> (forall x y, In x a -> In y b -> R x y) -> StronglySorted R (a ++ b).
Proof.
  induction 1 as [|x a Hs IH Hx]; intros Hb Hab; [exact Hb|].
  cbn. constructor.
  - apply IH; [exact Hb|]. intros u v Hu Hv. apply Hab; [right; exact Hu|exact Hv].
  - apply Forall_app. split; [exact Hx|]. apply Forall_forall. intros y Hy. apply Hab; [left; reflexivity|exact Hy].
Qed.

Lemma sorted_filter {A} (R : A -> A -> Prop) p l : StronglySorted R l -> StronglySorted R (filter p l).
Proof.
  induction 1 as [|x l Hs IH Hx]; [constructor|].
  cbn. destruct (p x); [|exact IH]. constructor; [exact IH|].
  apply Forall_forall. intros y Hy. apply filter_In in Hy as [Hy _]. rewrite Forall_forall in Hx. auto.
Qed.

Lemma concat_opt_cons {A} (o : option (list A)) r ls :
  concat_opt (o :: r) = Some ls -> exists x y, o = Some x /\ concat_opt r = Some y /\ ls = x ++ y.
Proof.
  cbn. destruct o as [x|]; [|discriminate]. destruct (concat_opt r) as [y|]; [|discriminate].
  intros H. inversion H. eauto.
Qed.

Lemma max_start_ge f n : le (a_start n) (max_start f n).
Proof. destruct f; [apply le_refl|]. cbn [max_start]. apply (upper_ge_acc (max_start f)). Qed.

Definition bounded (lo hi : pos) (l : list anode) : Prop :=
  Forall (fun x => le lo (a_start x) /\ le (a_start x) hi) l.

(* the invariant of the pre-order walk *)
Definition walk_inv (fuel : nat) : Prop := forall n l,
  ordered fuel n = true -> walk fuel n = Some l ->
  StronglySorted nle l /\ bounded (a_start n) (max_start fuel n) l.

Lemma kids_inv f : walk_inv f -> forall cs lo ls,
  chain_ok f lo cs = true -> forallb (ordered f) cs = true ->
  concat_opt (map (walk f) cs) = Some ls ->
  StronglySorted nle ls /\ Forall (fun x => le lo (a_start x)) ls /\
  forall acc, Forall (fun x => le (a_start x) (upper (max_start f) cs acc)) ls.
Proof.
  intros IHf. induction cs as [|c r IH]; intros lo ls Hch Hord Hc.
  - cbn in Hc. inversion Hc. repeat split; constructor.
  - cbn [map] in Hc. apply concat_opt_cons in Hc as [lc [lr [Hwc [Hcr ->]]]].
    cbn [chain_ok] in Hch. apply andb_true_iff in Hch as [Hlo Hch].
    cbn [forallb] in Hord. apply andb_true_iff in Hord as [Hoc Hor].
    destruct (IHf c lc Hoc Hwc) as [Hsc Hbc].
    destruct (IH (max_start f c) lr Hch Hor Hcr) as [Hsr [Hlr Hur]].
    unfold bounded in Hbc. rewrite Forall_forall in Hbc, Hlr.
    split; [|split].
    + apply sorted_app; [exact Hsc|exact Hsr|]. intros x y Hx Hy. unfold nle.
      eapply le_trans; [apply (proj2 (Hbc x Hx))|apply Hlr; exact Hy].
    + apply Forall_app. split; apply Forall_forall; intros x Hx.
      * eapply le_trans; [exact Hlo|apply (proj1 (Hbc x Hx))].
      * eapply le_trans; [exact Hlo|]. eapply le_trans; [apply max_start_ge|apply Hlr; exact Hx].
    + intros acc. cbn [upper fold_left]. apply Forall_app. split.
      * apply Forall_forall. intros x Hx.
        eapply le_trans; [apply (proj2 (Hbc x Hx))|].
        eapply le_trans; [apply pos_max_r|apply (upper_ge_acc (max_start f))].
      * apply Hur.
Qed.

Lemma walk_inv_all : forall fuel, walk_inv fuel.
Proof.
  induction fuel as [|f IHf]; intros n l Ho Hw; [discriminate|].
  cbn [ordered] in Ho. apply andb_true_iff in Ho as [Hch Hord].
  cbn [walk] in Hw. destruct (concat_opt (map (walk f) (children n))) as [ls|] eqn:Ec; [|discriminate].
  inversion Hw; subst l.
  destruct (kids_inv f IHf _ _ _ Hch Hord Ec) as [Hs [Hlo Hup]].
  specialize (Hup (a_start n)). rewrite Forall_forall in Hlo, Hup.
  split.
  - constructor; [exact Hs|]. apply Forall_forall. intros x Hx. apply Hlo. exact Hx.
  - unfold bounded. constructor.
    + split; [apply le_refl|apply max_start_ge].
    + apply Forall_forall. intros x Hx. split; [apply Hlo; exact Hx|]. cbn [max_start]. apply Hup. exact Hx.
Qed.

(* the reported string constants are in source order *)
Theorem string_literals_sorted fuel root ls :
  ordered fuel root = true -> string_literals fuel root = Some ls ->
  StronglySorted (fun x y => pos_leb (a_start x) (a_start y) = true) ls.
Proof.
  unfold string_literals. intros Ho H. destruct (walk fuel root) as [l|] eqn:Ew; [|discriminate].
  inversion H; subst ls. apply sorted_filter. exact (proj1 (walk_inv_all fuel root l Ho Ew)).
Qed.

(* ... and they are exactly the string constants reachable through the child relation *)
Inductive reach : anode -> anode -> Prop :=
| reach_refl n : reach n n
| reach_step n c x : In c (children n) -> reach c x -> reach n x.

Lemma concat_opt_in {A B} (g : A -> option (list B)) : forall cs ls c,
  concat_opt (map g cs) = Some ls -> In c cs -> exists lc, g c = Some lc /\ incl lc ls.
Proof.
  induction cs as [|c0 r IH]; intros ls c Hc Hin; [contradiction|].
  cbn [map] in Hc. apply concat_opt_cons in Hc as [x [y [Hx [Hy ->]]]].
  destruct Hin as [->|Hin].
  - exists x. split; [exact Hx|apply incl_appl, incl_refl].
  - destruct (IH y c Hy Hin) as [lc [Hg Hi]]. exists lc. split; [exact Hg|apply incl_appr; exact Hi].
Qed.

Lemma walk_reach : forall fuel n l x, walk fuel n = Some l -> reach n x -> In x l.
Proof.
  induction fuel as [|f IH]; intros n l x Hw Hr; [discriminate|].
  cbn [walk] in Hw. destruct (concat_opt (map (walk f) (children n))) as [ls|] eqn:Ec; [|discriminate].
  inversion Hw; subst l. inversion Hr as [|? c ? Hc Hcx]; subst; [left; reflexivity|].
  right. destruct (concat_opt_in (walk f) _ _ c Ec Hc) as [lc [Hwc Hi]]. apply Hi. eapply IH; eauto.
Qed.

Lemma walk_only_reach : forall fuel n l x, walk fuel n = Some l -> In x l -> reach n x.
Proof.
  induction fuel as [|f IH]; intros n l x Hw Hin; [discriminate|].
  cbn [walk] in Hw. destruct (concat_opt (map (walk f) (children n))) as [ls|] eqn:Ec; [|discriminate].
  inversion Hw; subst l. destruct Hin as [->|Hin]; [constructor|].
  clear Hw.
  assert (Hgen : forall cs ls', (forall c, In c cs -> In c (children n)) ->
            concat_opt (map (walk f) cs) = Some ls' -> In x ls' -> reach n x).
  { induction cs as [|c r IHr]; intros ls' Hsub Ec' Hin'.
    - cbn in Ec'. inversion Ec'; subst. contradiction.
    - cbn [map] in Ec'. apply concat_opt_cons in Ec' as [lc [lr [Hwc [Hcr ->]]]].
      apply in_app_iff in Hin' as [Hin'|Hin'].
      + apply reach_step with (c := c); [apply Hsub; left; reflexivity|]. eapply IH; eauto.
      + apply (IHr lr); [intros c' Hc'; apply Hsub; right; exact Hc'|exact Hcr|exact Hin']. }
  apply (Hgen (children n) ls); auto.
Qed.

Theorem string_literals_exact fuel root ls :
  string_literals fuel root = Some ls ->
  forall x, In x ls <-> (a_is_str x = true /\ reach root x).
Proof.
  unfold string_literals. intros H x. destruct (walk fuel root) as [l|] eqn:Ew; [|discriminate].
  inversion H; subst ls. rewrite filter_In. split; intros [H1 H2].
  - split; [exact H2|eapply walk_only_reach; eauto].
  - split; [eapply walk_reach; eauto|exact H1].
Qed.

(* M2 - pyflyby._parse: _is_comment_or_blank, _split_code_lines, PythonBlock.statements.
   The model is of the tree with the fixes F01 (character columns), F03 (walk stops at the
   node's last line), F35 (decorator "@" position), F37 (comment line ending in a backslash at
   end of input) applied.   No proofs here.

   CPython's top-level node list is an oracle argument: for each node its start position
   (as annotated by _annotate_ast_startpos: text.startpos + (lineno-1, character column)), the
   absolute number of its last line (node.last_lineno = text.startpos.lineno + end_lineno - 1),
   and an uninterpreted tag (node kind / payload; Split never looks at it). *)
From Coq Require Import Arith Bool List NArith.
From Verif Require Import Base.Chars Base.StrX Text.FilePos Text.FileText.
Import ListNotations.

(* str.isspace(): the characters str.rstrip() removes *)
Definition is_space (c : ch) : bool :=
  ((9 <=? c) && (c <=? 13))%N || ((28 <=? c) && (c <=? 32))%N || (c =? 133)%N || (c =? 160)%N
  || (c =? 5760)%N || ((8192 <=? c) && (c <=? 8202))%N || (c =? 8232)%N || (c =? 8233)%N
  || (c =? 8239)%N || (c =? 8287)%N || (c =? 12288)%N.

(*  def _is_comment_or_blank(line, /):
        return re.sub("#.*", "", line).rstrip() == ""
    "." matches everything but "\n" and a line holds none, so the substitution drops everything
    from the first "#"; the rest is "" after rstrip iff it is all whitespace.       *)
Fixpoint is_comment_or_blank (l : str) : bool :=
  match l with
  | [] => true
  | c :: r => if (c =? c_hash)%N then true else is_space c && is_comment_or_blank r
  end.

(*  line.endswith("\\")  *)
Fixpoint ends_with_bslash (l : str) : bool :=
  match l with
  | [] => false
  | [c] => (c =? c_bslash)%N
  | _ :: r => ends_with_bslash r
  end.

(*  def _ends_with_backslash(line):            (fix C10a: CRLF line ends keep their carriage return)
        if line.endswith("\r"): line = line[:-1]
        return line.endswith("\\")                                                   *)
Definition strip_cr (l : str) : str :=
  match rev l with
  | c :: r => if (c =? c_cr)%N then rev r else l
  | [] => l
  end.
Definition line_continues (l : str) : bool := ends_with_bslash (strip_cr l).

(*          while (endpos.lineno-1 > last_node_lineno and
                   _is_comment_or_blank(text[endpos.lineno-1]) and
                   (not _ends_with_backslash(text[endpos.lineno-2]) or
                    (endpos.lineno-2 > last_node_lineno and
                     _is_comment_or_blank(text[endpos.lineno-2])))):
                endpos = FilePos(endpos.lineno-1, 1)
   walk_back t lastl fuel L = the final endpos.lineno, None = IndexError from text[...]
   or fuel exhausted (impossible for fuel > L: every iteration decrements L and needs L-1 > lastl;
   proved in SplitProofs.walk_total) *)
Fixpoint walk_back (t : text) (lastl : nat) (fuel : nat) (L : nat) : option nat :=
  match fuel with
  | O => None
  | S f =>
      if lastl <? L - 1 then
        match get_line t (L - 1) with
        | None => None
        | Some l1 =>
            if is_comment_or_blank l1 then
              match get_line t (L - 2) with
              | None => None
              | Some l2 =>
                  if negb (line_continues l2) || ((lastl <? L - 2) && is_comment_or_blank l2)
                  then walk_back t lastl f (L - 1)
                  else Some L
              end
            else Some L
        end
      else Some L
  end.

Section Split.
Variable K : Type.

Record node := mkNode { n_start : pos; n_last : nat; n_tag : K }.
Definition piece := (option node * text)%type.

(* one iteration of the loop `for node, next_node in zip(ast_nodes, ast_nodes[1:] + [end_sentinel])`
   (the branch `if hasattr(node, 'endpos')` is dead: nothing sets that attribute)

        startpos = node.startpos;  next_startpos = next_node.startpos
        assert startpos < next_startpos
        endpos = next_startpos
        assert endpos <= text.endpos
        last_node_lineno = max(startpos.lineno, getattr(node, "last_lineno", startpos.lineno))
        if endpos.colno != 1:
            if endpos == text.endpos:
                if (endpos.lineno > last_node_lineno and _is_comment_or_blank(text[endpos.lineno])):
                    assert startpos.lineno < endpos.lineno
                    if (not _ends_with_backslash(text[endpos.lineno-1]) or
                        (endpos.lineno-1 > last_node_lineno and
                         _is_comment_or_blank(text[endpos.lineno-1]))):       (F37)
                        endpos = FilePos(endpos.lineno,1)
        if endpos.colno == 1:
            while ...   (walk_back)
        assert startpos < endpos <= next_startpos
        yield ([node], text[startpos:endpos])
        if endpos != next_startpos:
            yield ([], text[endpos:next_startpos])                                     *)
Definition node_endpos (t : text) (n : node) (next : pos) : option pos :=
  let lastl := Nat.max (lineno (n_start n)) (n_last n) in
  let e1 : option pos :=
    if colno next =? 1 then Some next
    else if pos_eqb next (endpos t) then
      if lastl <? lineno next then
        match get_line t (lineno next) with
        | None => None
        | Some l =>
            if is_comment_or_blank l then
              if negb (lineno (n_start n) <? lineno next) then None
              else match get_line t (lineno next - 1) with
                   | None => None
                   | Some p => if negb (line_continues p) || ((lastl <? lineno next - 1) && is_comment_or_blank p)
                               then Some (mkPos (lineno next) 1) else Some next
                   end
            else Some next
        end
      else Some next
    else Some next in
  match e1 with
  | None => None
  | Some e1 =>
      if colno e1 =? 1 then
        match walk_back t lastl (S (lineno e1)) (lineno e1) with
        | None => None
        | Some L => Some (mkPos L 1)
        end
      else Some e1
  end.

Definition split_one (t : text) (n : node) (next : pos) : option (list piece) :=
  if negb (pos_ltb (n_start n) next) then None else
  if negb (pos_leb next (endpos t)) then None else
  match node_endpos t n next with
  | None => None
  | Some e =>
      if negb (pos_ltb (n_start n) e && pos_leb e next) then None else
      match slice t (n_start n) e with
      | None => None
      | Some s =>
          if pos_eqb e next then Some [(Some n, s)]
          else match slice t e next with
               | None => None
               | Some s2 => Some [(Some n, s); (None, s2)]
               end
      end
  end.

Definition next_start (t : text) (rest : list node) : pos :=
  match rest with
  | [] => endpos t                 (* end_sentinel.startpos = text.endpos *)
  | m :: _ => n_start m
  end.

Fixpoint split_nodes (t : text) (ns : list node) : option (list piece) :=
  match ns with
  | [] => Some []
  | n :: rest =>
      match split_one t n (next_start t rest) with
      | None => None
      | Some ps =>
          match split_nodes t rest with
          | None => None
          | Some r => Some (ps ++ r)
          end
      end
  end.

(*  def _split_code_lines(ast_nodes, text):
        if not ast_nodes:
            yield ([], text); return
        assert text.startpos <= ast_nodes[0].startpos
        assert ast_nodes[-1].startpos < text.endpos
        if text.startpos != ast_nodes[0].startpos:
            yield ([], text[text.startpos:ast_nodes[0].startpos])
        ... loop ...                                                                  *)
Definition split_code_lines (ns : list node) (t : text) : option (list piece) :=
  match ns with
  | [] => Some [(None, t)]
  | n0 :: _ =>
      if negb (pos_leb (startpos t) (n_start n0)) then None else
      if negb (pos_ltb (n_start (last ns n0)) (endpos t)) then None else
      match (if pos_eqb (startpos t) (n_start n0) then Some []
             else match slice t (startpos t) (n_start n0) with
                  | None => None
                  | Some s => Some [(None, s)]
                  end) with
      | None => None
      | Some lead =>
          match split_nodes t ns with
          | None => None
          | Some r => Some (lead ++ r)
          end
      end
  end.

(*  PythonBlock.statements, the leading-newline normalisation:
        for block in statement_blocks:
            while block.text.joined.startswith("\n") and block.text.joined != "\n":
                first, *other = block.text.lines
                no_newline_blocks.append(PythonBlock(first+'\n', startpos=block.startpos, ...))
                block = PythonBlock("\n".join(other), startpos=block.startpos, ...)
            no_newline_blocks.append(block)
    joined starts with "\n"  iff  lines = "" :: other with other non-empty;  joined = "\n"  iff
    lines = ["", ""].  The split-off blocks and the remainder are *fresh* PythonBlocks (parsed
    again on demand, start position NOT advanced - the stale startpos the property allows); a
    remainder made of comments and blanks has no node, hence `None` once the loop has run.   *)
Fixpoint norm_lines (sp : pos) (k : option node) (ran : bool) (ls : list str) : list piece :=
  match ls with
  | [] :: ((o1 :: orest) as other) =>
      match o1, orest with
      | [], [] => [(if ran then None else k, mkText ls sp)]               (* joined = "\n" *)
      | _, _ => (None, mkText [[]; []] sp) :: norm_lines sp k true other
      end
  | _ => [(if ran then None else k, mkText ls sp)]
  end.

Definition norm_piece (p : piece) : list piece :=
  norm_lines (startpos (snd p)) (fst p) false (lines (snd p)).

Definition statements (ns : list node) (t : text) : option (list piece) :=
  match split_code_lines ns t with
  | None => None
  | Some ps => Some (flat_map norm_piece ps)
  end.

(* ---- oracle-side well-formedness of the node list (evaluated by the harness on every case) ---- *)

(* the position points at a character of the text (not at a line end) *)
Definition at_char (t : text) (p : pos) : bool :=
  match lineno_to_index t (lineno p) with
  | None => false
  | Some i =>
      match colno_to_index t i (colno p), nth_error (lines t) i with
      | Some j, Some l => j <? length l
      | _, _ => false
      end
  end.

Fixpoint starts_increasing (ns : list node) : bool :=
  match ns with
  | [] => true
  | n :: rest =>
      match rest with
      | [] => true
      | m :: _ => pos_ltb (n_start n) (n_start m) && starts_increasing rest
      end
  end.

Definition wf_nodes (t : text) (ns : list node) : bool :=
  starts_increasing ns
  && forallb (fun n => at_char t (n_start n) && pos_leb (startpos t) (n_start n)) ns.

(* node end positions `es` (second oracle): each node ends on its last line, not after the
   next node's start / the end of the text *)
Fixpoint ends_ok (t : text) (ns : list node) (es : list pos) : bool :=
  match ns, es with
  | [], [] => true
  | n :: rest, e :: erest =>
      (lineno e <=? Nat.max (lineno (n_start n)) (n_last n))
      && pos_leb e (next_start t rest) && ends_ok t rest erest
  | _, _ => false
  end.

(* grammar fact about the text before the first node (the whole text if there is none): only
   comments and blanks *)
Definition leading_ok (t : text) (ns : list node) : bool :=
  match ns with
  | [] => forallb is_comment_or_blank (lines t)
  | n0 :: _ =>
      match slice t (startpos t) (n_start n0) with
      | Some s => forallb is_comment_or_blank (lines s)
      | None => true
      end
  end.

Definition code_pieces (ps : list piece) : list piece :=
  filter (fun p => match fst p with Some _ => true | None => false end) ps.

Definition piece_nodes (ps : list piece) : list node :=
  flat_map (fun p => match fst p with Some n => [n] | None => [] end) ps.

End Split.

Arguments mkNode {K}.
Arguments n_start {K}.
Arguments n_last {K}.
Arguments n_tag {K}.
Arguments node_endpos {K}.
Arguments split_one {K}.
Arguments next_start {K}.
Arguments split_nodes {K}.
Arguments split_code_lines {K}.
Arguments norm_lines {K}.
Arguments norm_piece {K}.
Arguments statements {K}.
Arguments starts_increasing {K}.
Arguments wf_nodes {K}.
Arguments ends_ok {K}.
Arguments leading_ok {K}.
Arguments code_pieces {K}.
Arguments piece_nodes {K}.

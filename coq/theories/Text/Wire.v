(* Entry points evaluated by the correspondence harness (harness/c10.py). *)
From Coq Require Import NArith List String Bool.
From Verif Require Import Base.Chars Base.Show Text.FilePos Text.FileText Text.Split.
Import ListNotations.
Open Scope string_scope.

Definition show_pos (p : pos) : string := show_list show_nat [lineno p; colno p].

(* nodes arrive as (lineno, colno, last_lineno); the tag is the node's index *)
Fixpoint mk_nodes (i : N) (l : list (nat * nat * nat)) : list (node N) :=
  match l with
  | [] => []
  | (ln, cn, la) :: r => mkNode (mkPos ln cn) la i :: mk_nodes (i + 1)%N r
  end.

Definition show_piece (p : piece N) : string :=
  show_obj [("node", show_option (fun n => show_N (n_tag n)) (fst p));
            ("text", show_str (joined (snd p)));
            ("sp", show_pos (startpos (snd p)))].

Definition run_statements (s : str) (sl sc : nat) (nodes : list (nat * nat * nat)) (ends : list (nat * nat)) : string :=
  let t := of_str s (mkPos sl sc) in
  let ns := mk_nodes 0 nodes in
  show_obj [("wf", show_bool (wf_nodes t ns));
            ("ends_ok", show_bool (ends_ok t ns (map (fun e => mkPos (fst e) (snd e)) ends)));
            ("lead_ok", show_bool (leading_ok t ns));
            ("endpos", show_pos (endpos t));
            ("pieces", show_option (show_list show_piece) (statements ns t))].

Definition run_slice (s : str) (sl sc al ac bl bc : nat) : string :=
  let t := of_str s (mkPos sl sc) in
  show_option (fun r => show_obj [("text", show_str (joined r)); ("sp", show_pos (startpos r)); ("ep", show_pos (endpos r))])
              (slice t (mkPos al ac) (mkPos bl bc)).

Definition run_cb (l : str) : string := show_bool (is_comment_or_blank l).

(* string_literals() over the abstract AST built by the harness (Text/StrLits.v) *)
From Verif Require Import Text.StrLits.
Definition run_strlits (fuel : nat) (root : anode) : string :=
  show_obj [("ordered", show_bool (ordered fuel root));
            ("lits", show_option (show_list (fun n => show_pos (a_start n))) (string_literals fuel root))].

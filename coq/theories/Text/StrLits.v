(* M2 (string literals) - pyflyby._parse._iter_child_nodes_in_order_internal_1 (child order per node
   kind, with the repaired FunctionDef / ClassDef type_params and JoinedStr orders),
   _walk_ast_nodes_in_order (pre-order, depth first) and PythonBlock.string_literals, over an abstract
   AST given by the harness: kind, CPython's raw (lineno, col_offset) [the sort key of Call / JoinedStr],
   annotated start position (oracle), "is a str/bytes Constant", and the node-valued fields in the
   order of CPython's `_fields` (a missing optional child / a None list item is None).
   No proofs here. *)
From Coq Require Import Arith Bool List NArith.
From Verif Require Import Base.Chars Text.FilePos.
Import ListNotations.

Inductive akind :=
| AKDict            (* fields: keys, values *)
| AKFuncDef         (* FunctionDef / AsyncFunctionDef: args, body, decorator_list, returns, type_params *)
| AKArguments       (* posonlyargs, args, vararg, kwonlyargs, kw_defaults, kwarg, defaults *)
| AKIfExp           (* test, body, orelse *)
| AKCall            (* func, args, keywords *)
| AKKeyword         (* value *)
| AKClassDef        (* bases, keywords, body, decorator_list, type_params *)
| AKJoinedStr       (* values *)
| AKFormattedValue  (* value, format_spec *)
| AKMatchAs         (* pattern *)
| AKMatchMapping    (* keys, patterns *)
| AKDefault.        (* every other node: all node-valued fields, in _fields order *)

Inductive anode := ANode (k : akind) (raw : nat * nat) (start : pos) (is_str : bool)
                         (fields : list (list (option anode))).

Definition a_kind (n : anode) := let '(ANode k _ _ _ _) := n in k.
Definition a_raw (n : anode) := let '(ANode _ r _ _ _) := n in r.
Definition a_start (n : anode) := let '(ANode _ _ s _ _) := n in s.
Definition a_is_str (n : anode) := let '(ANode _ _ _ b _) := n in b.
Definition a_fields (n : anode) := let '(ANode _ _ _ _ f) := n in f.

(*  _flatten_ast_nodes: None is skipped  *)
Definition somes (l : list (option anode)) : list anode :=
  flat_map (fun o => match o with Some x => [x] | None => [] end) l.
(*  list(zip(a, b)) flattened  *)
Fixpoint zip_flat (a b : list (option anode)) : list anode :=
  match a, b with
  | x :: a', y :: b' => somes [x; y] ++ zip_flat a' b'
  | _, _ => []
  end.
Definition fld (i : nat) (fs : list (list (option anode))) : list (option anode) := nth i fs [].

(*  Call:       sorted([(k.value.lineno, k.value.col_offset, k) for k in node.keywords] +
                       [(k.lineno, k.col_offset, k) for k in node.args])
    JoinedStr:  sorted(node.values, key=lambda v: (v.lineno, v.col_offset))              *)
Definition sort_key (n : anode) : nat * nat :=
  match a_kind n with
  | AKKeyword => match somes (fld 0 (a_fields n)) with v :: _ => a_raw v | [] => a_raw n end
  | _ => a_raw n
  end.
Definition key_leb (a b : nat * nat) : bool :=
  (fst a <? fst b) || ((fst a =? fst b) && (snd a <=? snd b)).
Fixpoint insert_by_key (x : anode) (l : list anode) : list anode :=
  match l with
  | [] => [x]
  | y :: r => if key_leb (sort_key x) (sort_key y) then x :: l else y :: insert_by_key x r
  end.
Definition sort_by_key (l : list anode) : list anode := fold_right insert_by_key [] l.

(*  _iter_child_nodes_in_order(node)  *)
Definition children (n : anode) : list anode :=
  let fs := a_fields n in
  match a_kind n with
  | AKDict => zip_flat (fld 0 fs) (fld 1 fs)                     (* yield list(zip(node.keys, node.values)) *)
  | AKFuncDef =>                                                   (* type_comment, decorator_list, type_params, args, returns, body *)
      somes (fld 2 fs) ++ somes (fld 4 fs) ++ somes (fld 0 fs) ++ somes (fld 3 fs) ++ somes (fld 1 fs)
  | AKArguments =>                                                 (* args = posonlyargs + args; num_no_default = len(args) - len(defaults)
                                                                      yield args[:num_no_default]; yield list(zip(args[num_no_default:], defaults))
                                                                      (vararg, kwonlyargs, kw_defaults, kwarg are not walked) *)
      let args := fld 0 fs ++ fld 1 fs in
      let defaults := fld 6 fs in
      let nnd := length args - length defaults in
      somes (firstn nnd args) ++ zip_flat (skipn nnd args) defaults
  | AKIfExp => somes (fld 1 fs) ++ somes (fld 0 fs) ++ somes (fld 2 fs)      (* body, test, orelse *)
  | AKCall => somes (fld 0 fs) ++ sort_by_key (somes (fld 2 fs) ++ somes (fld 1 fs))
  | AKClassDef =>                                                  (* decorator_list, type_params, bases, body  (keywords are not walked) *)
      somes (fld 3 fs) ++ somes (fld 4 fs) ++ somes (fld 0 fs) ++ somes (fld 2 fs)
  | AKJoinedStr => sort_by_key (somes (fld 0 fs))
  | AKFormattedValue => somes (fld 0 fs)                           (* yield node.value,   (format_spec is not walked) *)
  | AKMatchAs => somes (fld 0 fs)                                  (* pattern  (name is a str) *)
  | AKMatchMapping => zip_flat (fld 0 fs) (fld 1 fs)
  | AKKeyword | AKDefault => flat_map somes fs                     (* ast.iter_child_nodes *)
  end.

Fixpoint concat_opt {A} (l : list (option (list A))) : option (list A) :=
  match l with
  | [] => Some []
  | None :: _ => None
  | Some x :: r => match concat_opt r with Some y => Some (x ++ y) | None => None end
  end.

(*  _walk_ast_nodes_in_order: todo = [node]; while todo: node = todo.pop(); yield node;
                              todo.extend(reversed(list(_iter_child_nodes_in_order(node))))
    = pre-order.  fuel = depth bound; None = out of fuel  *)
Fixpoint walk (fuel : nat) (n : anode) : option (list anode) :=
  match fuel with
  | O => None
  | S f => match concat_opt (map (walk f) (children n)) with
           | Some l => Some (n :: l)
           | None => None
           end
  end.

(*  string_literals: for node in _walk_ast_nodes_in_order(...): if _is_ast_str_or_byte(node): yield node  *)
Definition string_literals (fuel : nat) (root : anode) : option (list anode) :=
  match walk fuel root with Some l => Some (filter a_is_str l) | None => None end.

(* ---- oracle-side predicate on the start positions (evaluated on every case) ----
   every node starts no later than its first child (in the order above), and everything below a
   child starts no later than the next child *)
Definition pos_max (a b : pos) : pos := if pos_leb a b then b else a.
Fixpoint max_start (fuel : nat) (n : anode) : pos :=
  match fuel with
  | O => a_start n
  | S f => fold_left (fun acc c => pos_max acc (max_start f c)) (children n) (a_start n)
  end.
Fixpoint chain_ok (f : nat) (lo : pos) (cs : list anode) : bool :=
  match cs with
  | [] => true
  | c :: r => pos_leb lo (a_start c) && chain_ok f (max_start f c) r
  end.
Fixpoint ordered (fuel : nat) (n : anode) : bool :=
  match fuel with
  | O => false
  | S f => chain_ok f (a_start n) (children n) && forallb (ordered f) (children n)
  end.

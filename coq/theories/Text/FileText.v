(* M1 - pyflyby._file.FileText: a contiguous run of lines with a start position.  No proofs here.
   Invariants of the Python class (FileText.__new__ / _from_lines): `lines` is never empty
   (str.split always returns at least one item) and no line contains a newline. *)
From Coq Require Import Arith Bool List NArith.
From Verif Require Import Base.Chars Base.StrX Text.FilePos.
Import ListNotations.

Record text := mkText { lines : list str; startpos : pos }.

(*  self._lines = tuple(arg.split('\n'));  self.startpos = FilePos(startpos)   *)
Definition of_str (s : str) (p : pos) : text := mkText (split_on c_nl s) p.

(*  joined = '\n'.join(self.lines)   *)
Definition joined (t : text) : str := join_with c_nl (lines t).

Definition last_line (ls : list str) : str := last ls [].

(*  def endpos(self):
        lineno = startpos.lineno + len(lines) - 1
        if len(lines) == 1: colno = startpos.colno + len(lines[-1])
        else:               colno = 1 + len(lines[-1])                              *)
Definition endpos (t : text) : pos :=
  let n := length (lines t) in
  mkPos (lineno (startpos t) + n - 1)
        (if n =? 1 then colno (startpos t) + length (last_line (lines t))
         else 1 + length (last_line (lines t))).

(*  def _lineno_to_index(self, lineno):
        lineindex = lineno - self.startpos.lineno
        if not 0 <= lineindex < len(self.lines): raise IndexError                   *)
Definition lineno_to_index (t : text) (l : nat) : option nat :=
  if (lineno (startpos t) <=? l) && (l - lineno (startpos t) <? length (lines t))
  then Some (l - lineno (startpos t)) else None.

(*  def _colno_to_index(self, lineindex, colno):
        coloffset = self.startpos.colno if lineindex == 0 else 1
        colindex = colno - coloffset
        line = self.lines[lineindex]
        if not 0 <= colindex <= len(line): raise IndexError                         *)
Definition colno_to_index (t : text) (li c : nat) : option nat :=
  let off := if li =? 0 then colno (startpos t) else 1 in
  match nth_error (lines t) li with
  | None => None
  | Some line => if (off <=? c) && (c - off <=? length line) then Some (c - off) else None
  end.

(*  text[lineno]  (int argument):  return self.lines[L(arg)]   *)
Definition get_line (t : text) (l : nat) : option str :=
  match lineno_to_index t l with
  | Some i => nth_error (lines t) i
  | None => None
  end.

(*  result_split[-1] = result_split[-1][:stop_colindex]  *)
Fixpoint clip_last (ls : list str) (j : nat) : list str :=
  match ls with
  | [] => []
  | [l] => [firstn j l]
  | l :: r => l :: clip_last r j
  end.
(*  result_split[0] = result_split[0][start_colindex:]  *)
Definition clip_first (ls : list str) (j : nat) : list str :=
  match ls with
  | [] => []
  | l :: r => skipn j l :: r
  end.

(* index-space slice of a line list: lines i1..i2, the last clipped to [:j2], then the first to [j1:] *)
Definition islice (ls : list str) (i1 j1 i2 j2 : nat) : list str :=
  clip_first (clip_last (firstn (S (i2 - i1)) (skipn i1 ls)) j2) j1.

(*  text[FilePos a : FilePos b]   (FileText.__getitem__ with a slice of two positions)
        start_lineindex = L(startpos.lineno); start_colindex = C(start_lineindex, startpos.colno)
        stop_lineindex  = L(stoppos.lineno);  stop_colindex  = C(stop_lineindex, stoppos.colno)
        assert 0 <= start_lineindex <= stop_lineindex < len(self.lines)
        result_split = list(self.lines[start_lineindex:stop_lineindex+1])
        result_split[-1] = result_split[-1][:stop_colindex]
        result_split[0] = result_split[0][start_colindex:]
        result_lineno = start_lineindex + self.startpos.lineno
        result_colno = start_colindex + self.startpos.colno  if start_lineindex == 0  else start_colindex + 1
   None = IndexError / AssertionError.  (The "return self" shortcut for the full range yields
   the same lines and the same start position as the general path.)                  *)
Definition slice (t : text) (a b : pos) : option text :=
  match lineno_to_index t (lineno a) with None => None | Some i1 =>
  match colno_to_index t i1 (colno a) with None => None | Some j1 =>
  match lineno_to_index t (lineno b) with None => None | Some i2 =>
  match colno_to_index t i2 (colno b) with None => None | Some j2 =>
  if i1 <=? i2 then
    Some (mkText (islice (lines t) i1 j1 i2 j2)
                 (mkPos (i1 + lineno (startpos t))
                        (if i1 =? 0 then j1 + colno (startpos t) else j1 + 1)))
  else None
  end end end end.

(*  FileText.concatenate(args):
        if len(args) == 1: return args[0]
        return FileText(''.join([l.joined for l in args]), startpos=args[0].startpos)
    (an empty list raises IndexError on args[0])                                      *)
Definition concatenate (ts : list text) : option text :=
  match ts with
  | [] => None
  | [t] => Some t
  | t :: _ => Some (of_str (concat (map joined ts)) (startpos t))
  end.

(* Theorems about the statement splitter (C10). *)
From Coq Require Import Arith Bool List NArith Lia ZifyBool.
From Verif Require Import Base.Chars Base.StrX Base.StrXProofs Text.FilePos Text.FileText Text.Split
                          Text.FileTextProofs.
Import ListNotations.

Section SplitProofs.
Variable K : Type.
Notation node := (node K).
Notation piece := (piece K).

Definition ptexts (ps : list piece) : str := concat (map (fun p => joined (snd p)) ps).

Lemma ptexts_app a b : ptexts (a ++ b) = ptexts a ++ ptexts b.
Proof. unfold ptexts. rewrite map_app, concat_app. reflexivity. Qed.

(* ------------------------------------------------------------------------------------------ *)
(* losslessness: success of the splitter alone implies that the pieces tile the text          *)

Lemma split_one_inv t (n : node) next ps :
  split_one t n next = Some ps ->
  pos_ltb (n_start n) next = true /\ pos_leb next (endpos t) = true /\
  exists e s, node_endpos t n next = Some e /\ pos_ltb (n_start n) e = true /\ pos_leb e next = true /\
    slice t (n_start n) e = Some s /\
    ((e = next /\ ps = [(Some n, s)]) \/
     (pos_eqb e next = false /\ exists s2, slice t e next = Some s2 /\ ps = [(Some n, s); (None, s2)])).
Proof.
  unfold split_one. intros H.
  destruct (pos_ltb (n_start n) next) eqn:E1; cbn [negb] in H; [|discriminate].
  destruct (pos_leb next (endpos t)) eqn:E2; cbn [negb] in H; [|discriminate].
  destruct (node_endpos t n next) as [e|] eqn:E3; [|discriminate].
  destruct (pos_ltb (n_start n) e && pos_leb e next) eqn:E4; cbn [negb] in H; [|discriminate].
  apply andb_true_iff in E4 as [E4 E5].
  destruct (slice t (n_start n) e) as [s|] eqn:E6; [|discriminate].
  split; [reflexivity|]. split; [reflexivity|].
  exists e, s. repeat split; try assumption.
  destruct (pos_eqb e next) eqn:E7.
  - left. apply pos_eqb_eq in E7. inversion H. auto.
  - right. split; [reflexivity|].
    destruct (slice t e next) as [s2|] eqn:E8; [|discriminate].
    exists s2. inversion H. auto.
Qed.

Lemma split_one_concat t (n : node) next ps :
  split_one t n next = Some ps ->
  exists oa ob, off_of t (n_start n) = Some oa /\ off_of t next = Some ob /\
                oa <= ob /\ ob <= length (joined t) /\ ptexts ps = sub (joined t) oa ob.
Proof.
  intros H. apply split_one_inv in H as [Hlt [Hle [e [s [_ [Hse [Hen [Hs Hcase]]]]]]]].
  apply pos_ltb_leb in Hse.
  destruct (slice_joined _ _ _ _ Hs Hse) as [oa [oe [Ha [He [Hae [Hel Hj]]]]]].
  destruct Hcase as [[-> ->]|[_ [s2 [Hs2 ->]]]].
  - exists oa, oe. repeat split; try assumption.
    unfold ptexts. cbn. rewrite app_nil_r. exact Hj.
  - destruct (slice_joined _ _ _ _ Hs2 Hen) as [oe' [ob [He' [Hb [Heb [Hbl Hj2]]]]]].
    rewrite He in He'. inversion He'; subst oe'.
    exists oa, ob. repeat split; try assumption; [lia|].
    unfold ptexts. cbn. rewrite app_nil_r, Hj, Hj2. apply sub_add; assumption.
Qed.

Lemma split_nodes_concat t : forall (rest : list node) (n : node) ps,
  split_nodes t (n :: rest) = Some ps ->
  exists oa, off_of t (n_start n) = Some oa /\ oa <= length (joined t) /\
             ptexts ps = sub (joined t) oa (length (joined t)).
Proof.
  induction rest as [|m rest IH]; intros n ps H.
  - cbn [split_nodes next_start] in H.
    destruct (split_one t n (endpos t)) as [p1|] eqn:E1; [|discriminate].
    inversion H; subst ps. rewrite app_nil_r.
    destruct (split_one_concat _ _ _ _ E1) as [oa [ob [Ha [Hb [Hab [Hbl Hp]]]]]].
    apply off_end in Hb. subst ob. exists oa. auto.
  - change (split_nodes t (n :: m :: rest)) with
      (match split_one t n (n_start m) with
       | None => None
       | Some ps => match split_nodes t (m :: rest) with None => None | Some r => Some (ps ++ r) end
       end) in H.
    destruct (split_one t n (n_start m)) as [p1|] eqn:E1; [|discriminate].
    destruct (split_nodes t (m :: rest)) as [r|] eqn:E2; [|discriminate].
    inversion H; subst ps.
    destruct (split_one_concat _ _ _ _ E1) as [oa [ob [Ha [Hb [Hab [Hbl Hp]]]]]].
    destruct (IH m r E2) as [om [Hm [Hml Hr]]].
    rewrite Hb in Hm. inversion Hm; subst om.
    exists oa. split; [exact Ha|]. split; [lia|].
    rewrite ptexts_app, Hp, Hr. apply sub_add; assumption.
Qed.

Lemma split_code_lines_concat (ns : list node) t ps :
  split_code_lines ns t = Some ps -> ptexts ps = joined t.
Proof.
  unfold split_code_lines. intros H. destruct ns as [|n0 rest].
  - inversion H. unfold ptexts. cbn. apply app_nil_r.
  - destruct (pos_leb (startpos t) (n_start n0)) eqn:E1; cbn [negb] in H; [|discriminate].
    destruct (pos_ltb (n_start (last (n0 :: rest) n0)) (endpos t)) eqn:E2; cbn [negb] in H; [|discriminate].
    destruct (pos_eqb (startpos t) (n_start n0)) eqn:E3.
    + destruct (split_nodes t (n0 :: rest)) as [r|] eqn:E4; [|discriminate].
      inversion H; subst ps. cbn [app].
      destruct (split_nodes_concat _ _ _ _ E4) as [oa [Ha [Hal Hr]]].
      apply pos_eqb_eq in E3. rewrite <- E3 in Ha. apply off_start in Ha. subst oa.
      rewrite Hr. apply sub_full.
    + destruct (slice t (startpos t) (n_start n0)) as [s|] eqn:E5; [|discriminate].
      destruct (split_nodes t (n0 :: rest)) as [r|] eqn:E4; [|discriminate].
      inversion H; subst ps.
      destruct (split_nodes_concat _ _ _ _ E4) as [oa [Ha [Hal Hr]]].
      destruct (slice_joined _ _ _ _ E5 E1) as [o0 [oa' [H0 [Ha' [H0a [_ Hj]]]]]].
      rewrite Ha in Ha'. inversion Ha'; subst oa'.
      apply off_start in H0. subst o0.
      change (ptexts ((None, s) :: r)) with (joined s ++ ptexts r). rewrite Hr, Hj.
      rewrite sub_add by lia. apply sub_full.
Qed.

Lemma norm_lines_concat sp (k : option node) : forall ls ran,
  ptexts (norm_lines sp k ran ls) = join_with c_nl ls.
Proof.
  induction ls as [|l rest IH]; intros ran.
  - unfold ptexts. cbn. reflexivity.
  - destruct l as [|c l'].
    + destruct rest as [|o1 orest].
      * unfold ptexts. cbn. reflexivity.
      * change (norm_lines sp k ran ([] :: o1 :: orest)) with
          (match o1, orest with
           | [], [] => [(if ran then None else k, mkText ([] :: o1 :: orest) sp)]
           | _, _ => (None, mkText [[]; []] sp) :: norm_lines sp k true (o1 :: orest)
           end).
        assert (Hgen : ptexts ((None, mkText [[]; []] sp) :: norm_lines sp k true (o1 :: orest)) =
                       join_with c_nl ([] :: o1 :: orest)).
        { change (ptexts ((None, mkText [[]; []] sp) :: norm_lines sp k true (o1 :: orest)))
            with ([c_nl] ++ ptexts (norm_lines sp k true (o1 :: orest))).
          rewrite IH. reflexivity. }
        destruct o1 as [|c1 o1']; [destruct orest as [|o2 orest']|]; exact Hgen.
    + unfold ptexts. cbn [norm_lines map concat snd joined lines]. apply app_nil_r.
Qed.

Lemma norm_piece_concat (p : piece) : ptexts (norm_piece p) = joined (snd p).
Proof. unfold norm_piece. apply norm_lines_concat. Qed.

Lemma flat_map_norm_concat (ps : list piece) : ptexts (flat_map norm_piece ps) = ptexts ps.
Proof.
  induction ps as [|p ps IH]; [reflexivity|].
  cbn [flat_map]. rewrite ptexts_app, norm_piece_concat, IH. reflexivity.
Qed.

Theorem split_lossless (ns : list node) t ps :
  statements ns t = Some ps -> ptexts ps = joined t.
Proof.
  unfold statements. destruct (split_code_lines ns t) as [ps0|] eqn:E; [|discriminate].
  intros H. inversion H. rewrite flat_map_norm_concat. eapply split_code_lines_concat; eauto.
Qed.

(* ------------------------------------------------------------------------------------------ *)
(* ownership: the pieces that own a node are, in order, exactly the nodes; they start at the
   node's start position                                                                      *)

Definition starts_ok (ps : list piece) : Prop :=
  Forall (fun p => match fst p with Some n => startpos (snd p) = n_start n | None => True end) ps.

(* first line of the piece's text is not empty: the piece does not begin with a newline *)
Definition first_line_nonempty (s : text) : Prop :=
  match lines s with [] => False | l :: _ => l <> [] end.

Definition node_pieces_ok (ps : list piece) : Prop :=
  Forall (fun p => match fst p with Some _ => first_line_nonempty (snd p) | None => True end) ps.

Lemma at_char_spec t p : at_char t p = true <->
  exists i j l, to_index t p = Some (i, j) /\ nth_error (lines t) i = Some l /\ j < length l.
Proof.
  unfold at_char, to_index. split.
  - intros H. destruct (lineno_to_index t (lineno p)) as [i|]; [|discriminate].
    destruct (colno_to_index t i (colno p)) as [j|]; [|discriminate].
    destruct (nth_error (lines t) i) as [l|] eqn:E; [|discriminate].
    exists i, j, l. split; [reflexivity|]. split; [exact E|]. lia.
  - intros [i [j [l [H1 [H2 H3]]]]].
    destruct (lineno_to_index t (lineno p)) as [i'|]; [|discriminate].
    destruct (colno_to_index t i' (colno p)) as [j'|]; [|discriminate].
    inversion H1; subst. rewrite H2. lia.
Qed.

Lemma islice_first (ls : list str) i1 j1 i2 j2 (l1 : str) :
  nth_error ls i1 = Some l1 -> i1 <= i2 -> i2 < length ls ->
  exists rest, islice ls i1 j1 i2 j2 = (if i1 =? i2 then skipn j1 (firstn j2 l1) else skipn j1 l1) :: rest.
Proof.
  intros Hn Hle Hlt. unfold islice.
  assert (Hs : exists tl, skipn i1 ls = l1 :: tl).
  { clear Hle Hlt. revert i1 Hn. induction ls as [|x r IH]; intros i1 Hn; [destruct i1; discriminate|].
    destruct i1 as [|i1']; [cbn in Hn; inversion Hn; eexists; reflexivity|].
    cbn [skipn]. apply IH. exact Hn. }
  destruct Hs as [tl Hs]. rewrite Hs.
  destruct (i1 =? i2) eqn:E.
  - replace (i2 - i1) with 0 by lia. cbn. eexists. reflexivity.
  - destruct (i2 - i1) as [|d] eqn:Ed; [lia|].
    assert (Htl : tl <> []).
    { intros ->. apply (f_equal (@length _)) in Hs. rewrite skipn_length in Hs. cbn in Hs. lia. }
    change (firstn (S (S d)) (l1 :: tl)) with (l1 :: firstn (S d) tl).
    rewrite clip_last_cons' by (apply firstn_S_nonempty; exact Htl).
    cbn [clip_first]. eexists. reflexivity.
Qed.

Lemma slice_first_nonempty t a b s :
  slice t a b = Some s -> at_char t a = true -> pos_ltb a b = true -> first_line_nonempty s.
Proof.
  intros Hs Hc Hlt.
  apply at_char_spec in Hc as [i [j [l [Hi [Hn Hj]]]]].
  pose proof (pos_ltb_leb _ _ Hlt) as Hle.
  apply slice_spec in Hs as [i1 [j1 [i2 [j2 [Ha [Hb [Hi12 ->]]]]]]].
  rewrite Hi in Ha. inversion Ha; subst i1 j1.
  pose proof Hb as Hb'. apply to_index_spec in Hb' as [l2 [Hn2 [Hj2 [Hl2 Hc2]]]].
  assert (Hlt2 : i2 < length (lines t)) by (apply nth_error_Some; congruence).
  destruct (islice_first (lines t) i j i2 j2 l Hn Hi12 Hlt2) as [rest Hr].
  unfold first_line_nonempty. cbn [lines]. rewrite Hr.
  destruct (i =? i2) eqn:E.
  - assert (i2 = i) by lia. subst i2. rewrite Hn in Hn2. inversion Hn2; subst l2.
    apply to_index_spec in Hi as [l' [_ [_ [Hl1 Hc1]]]].
    apply pos_ltb_spec in Hlt.
    assert (j < j2) by lia.
    intros E0. apply (f_equal (@length _)) in E0. rewrite skipn_length, firstn_length in E0. cbn in E0. lia.
  - intros E0. apply (f_equal (@length _)) in E0. rewrite skipn_length in E0. cbn in E0. lia.
Qed.

Lemma norm_lines_keep sp (k : option node) l rest :
  l <> [] -> norm_lines sp k false (l :: rest) = [(k, mkText (l :: rest) sp)].
Proof. intros H. destruct l; [congruence|reflexivity]. Qed.

Lemma norm_piece_keep (n : node) s :
  first_line_nonempty s -> norm_piece (Some n, s) = [(Some n, s)].
Proof.
  unfold first_line_nonempty, norm_piece. destruct s as [ls sp]. cbn [snd fst lines startpos].
  destruct ls as [|l rest]; [contradiction|]. intros H. apply norm_lines_keep. exact H.
Qed.

Lemma norm_lines_none sp : forall ls ran,
  Forall (fun p : piece => fst p = None) (norm_lines sp None ran ls).
Proof.
  induction ls as [|l rest IH]; intros ran.
  - cbn. constructor; [destruct ran; reflexivity|constructor].
  - destruct l as [|c l'].
    + destruct rest as [|o1 orest].
      * cbn. constructor; [destruct ran; reflexivity|constructor].
      * change (norm_lines sp None ran ([] :: o1 :: orest)) with
          (match o1, orest with
           | [], [] => [(if ran then None else None, mkText ([] :: o1 :: orest) sp)]
           | _, _ => (None, mkText [[]; []] sp) :: norm_lines sp (@None node) true (o1 :: orest)
           end).
        destruct o1 as [|c1 o1']; [destruct orest as [|o2 orest']|].
        -- constructor; [destruct ran; reflexivity|constructor].
        -- constructor; [reflexivity|apply IH].
        -- constructor; [reflexivity|apply IH].
    + cbn. constructor; [destruct ran; reflexivity|constructor].
Qed.

Lemma piece_nodes_app (a b : list piece) : piece_nodes (a ++ b) = piece_nodes a ++ piece_nodes b.
Proof. unfold piece_nodes. apply flat_map_app. Qed.

Lemma piece_nodes_none (ps : list piece) :
  Forall (fun p : piece => fst p = None) ps -> piece_nodes ps = [].
Proof.
  induction 1 as [|p ps Hp _ IH]; [reflexivity|].
  unfold piece_nodes in *. cbn [flat_map]. rewrite Hp, IH. reflexivity.
Qed.

Lemma code_pieces_app (a b : list piece) : code_pieces (a ++ b) = code_pieces a ++ code_pieces b.
Proof. unfold code_pieces. apply filter_app. Qed.

Lemma code_pieces_none (ps : list piece) :
  Forall (fun p : piece => fst p = None) ps -> code_pieces ps = [].
Proof.
  induction 1 as [|p ps Hp _ IH]; [reflexivity|].
  unfold code_pieces in *. cbn [filter]. rewrite Hp, IH. reflexivity.
Qed.

(* normalisation leaves the node pieces alone when none of them begins with a newline *)
Lemma flat_map_norm_nodes (ps : list piece) :
  node_pieces_ok ps ->
  piece_nodes (flat_map norm_piece ps) = piece_nodes ps /\
  code_pieces (flat_map norm_piece ps) = code_pieces ps /\
  (starts_ok ps -> starts_ok (flat_map norm_piece ps)).
Proof.
  induction 1 as [|p ps Hp _ IH]; [repeat split; auto|].
  destruct IH as [IH1 [IH2 IH3]].
  cbn [flat_map]. rewrite piece_nodes_app, code_pieces_app, IH1, IH2.
  destruct p as [[n|] s]; cbn [fst snd] in Hp.
  - rewrite norm_piece_keep by exact Hp. repeat split.
    intros Hs. inversion Hs; subst. constructor; [assumption|]. apply IH3. assumption.
  - pose proof (norm_lines_none (startpos s) (lines s) false) as Hn.
    change (norm_lines (startpos s) None false (lines s)) with (norm_piece ((None, s) : piece)) in Hn.
    rewrite (piece_nodes_none _ Hn), (code_pieces_none _ Hn).
    repeat split.
    intros Hs. inversion Hs; subst. unfold starts_ok. apply Forall_app. split; [|apply IH3; assumption].
    eapply Forall_impl; [|exact Hn]. intros q Hq. rewrite Hq. exact I.
Qed.

Lemma starts_increasing_cons (n m : node) rest :
  starts_increasing (n :: m :: rest) = pos_ltb (n_start n) (n_start m) && starts_increasing (m :: rest).
Proof. reflexivity. Qed.

Lemma split_one_nodes t (n : node) next ps :
  split_one t n next = Some ps -> at_char t (n_start n) = true ->
  piece_nodes ps = [n] /\ starts_ok ps /\ node_pieces_ok ps.
Proof.
  intros H Hc. apply split_one_inv in H as [Hlt [Hle [e [s [_ [Hse [Hen [Hs Hcase]]]]]]]].
  pose proof (slice_startpos _ _ _ _ Hs) as Hsp.
  pose proof (slice_first_nonempty _ _ _ _ Hs Hc Hse) as Hfl.
  destruct Hcase as [[-> ->]|[_ [s2 [Hs2 ->]]]].
  - repeat split; repeat constructor; assumption.
  - repeat split; repeat constructor; assumption.
Qed.

Lemma split_nodes_nodes t : forall (ns : list node) ps,
  split_nodes t ns = Some ps -> forallb (fun n => at_char t (n_start n)) ns = true ->
  piece_nodes ps = ns /\ starts_ok ps /\ node_pieces_ok ps.
Proof.
  induction ns as [|n rest IH]; intros ps H Hc.
  - inversion H. repeat split; constructor.
  - cbn [split_nodes] in H. cbn [forallb] in Hc. apply andb_true_iff in Hc as [Hc1 Hc2].
    destruct (split_one t n (next_start t rest)) as [p1|] eqn:E1; [|discriminate].
    destruct (split_nodes t rest) as [r|] eqn:E2; [|discriminate].
    inversion H; subst ps.
    destruct (split_one_nodes _ _ _ _ E1 Hc1) as [A1 [A2 A3]].
    destruct (IH r eq_refl Hc2) as [B1 [B2 B3]].
    rewrite piece_nodes_app, A1, B1. repeat split.
    + apply Forall_app; auto.
    + apply Forall_app; auto.
Qed.

Lemma wf_nodes_at_char t (ns : list node) :
  wf_nodes t ns = true -> forallb (fun n => at_char t (n_start n)) ns = true.
Proof.
  unfold wf_nodes. intros H. apply andb_true_iff in H as [_ H].
  rewrite forallb_forall in *. intros n Hn. specialize (H n Hn). lia.
Qed.

Lemma split_code_lines_nodes (ns : list node) t ps :
  split_code_lines ns t = Some ps -> wf_nodes t ns = true ->
  piece_nodes ps = ns /\ starts_ok ps /\ node_pieces_ok ps.
Proof.
  unfold split_code_lines. intros H Hwf. apply wf_nodes_at_char in Hwf.
  destruct ns as [|n0 rest].
  - inversion H. repeat split; repeat constructor.
  - destruct (pos_leb (startpos t) (n_start n0)); cbn [negb] in H; [|discriminate].
    destruct (pos_ltb (n_start (last (n0 :: rest) n0)) (endpos t)); cbn [negb] in H; [|discriminate].
    destruct (split_nodes t (n0 :: rest)) as [r|] eqn:E4.
    2:{ destruct (pos_eqb (startpos t) (n_start n0)); [discriminate|].
        destruct (slice t (startpos t) (n_start n0)); discriminate. }
    destruct (split_nodes_nodes _ _ _ E4 Hwf) as [B1 [B2 B3]].
    destruct (pos_eqb (startpos t) (n_start n0)).
    + inversion H; subst ps. cbn [app]. auto.
    + destruct (slice t (startpos t) (n_start n0)) as [s|]; [|discriminate].
      inversion H; subst ps. change (piece_nodes ((None, s) :: r)) with (piece_nodes r).
      repeat split; [exact B1| |]; (constructor; [exact I|assumption]).
Qed.

Theorem one_node_per_piece (ns : list node) t ps :
  wf_nodes t ns = true -> statements ns t = Some ps -> piece_nodes ps = ns.
Proof.
  unfold statements. intros Hwf H. destruct (split_code_lines ns t) as [ps0|] eqn:E; [|discriminate].
  inversion H; subst ps.
  destruct (split_code_lines_nodes _ _ _ E Hwf) as [B1 [B2 B3]].
  destruct (flat_map_norm_nodes _ B3) as [C1 _]. rewrite C1. exact B1.
Qed.

Theorem piece_startpos (ns : list node) t ps :
  wf_nodes t ns = true -> statements ns t = Some ps ->
  forall n s, In (Some n, s) ps -> startpos s = n_start n.
Proof.
  unfold statements. intros Hwf H. destruct (split_code_lines ns t) as [ps0|] eqn:E; [|discriminate].
  inversion H; subst ps.
  destruct (split_code_lines_nodes _ _ _ E Hwf) as [B1 [B2 B3]].
  destruct (flat_map_norm_nodes _ B3) as [_ [_ C3]]. specialize (C3 B2).
  intros n s Hin. unfold starts_ok in C3. rewrite Forall_forall in C3.
  apply (C3 _ Hin).
Qed.


(* ------------------------------------------------------------------------------------------ *)
(* syntax alignment: every node-owning piece extends at least to the end of its node          *)

Lemma walk_back_spec t lastl : forall fuel L L',
  walk_back t lastl fuel L = Some L' -> L' <= L /\ (L' = L \/ lastl < L').
Proof.
  induction fuel as [|f IH]; intros L L' H; [discriminate|].
  cbn [walk_back] in H.
  destruct (lastl <? L - 1) eqn:E1; [|inversion H; lia].
  destruct (get_line t (L - 1)) as [l1|]; [|discriminate].
  destruct (is_comment_or_blank l1); [|inversion H; lia].
  destruct (get_line t (L - 2)) as [l2|]; [|discriminate].
  destruct (negb (line_continues l2) || ((lastl <? L - 2) && is_comment_or_blank l2)); [|inversion H; lia].
  apply IH in H. lia.
Qed.

Definition last_line_of (n : node) : nat := Nat.max (lineno (n_start n)) (n_last n).

Lemma node_endpos_spec t (n : node) next e :
  node_endpos t n next = Some e ->
  e = next \/ (colno e = 1 /\ last_line_of n < lineno e /\ lineno e <= lineno next).
Proof.
  unfold node_endpos, last_line_of. set (lastl := Nat.max (lineno (n_start n)) (n_last n)).
  intros H.
  assert (Hwalk : forall e1, (e1 = next \/ (e1 = mkPos (lineno next) 1 /\ lastl < lineno next)) ->
            (if colno e1 =? 1
             then match walk_back t lastl (S (lineno e1)) (lineno e1) with
                  | Some L => Some (mkPos L 1) | None => None end
             else Some e1) = Some e ->
            e = next \/ (colno e = 1 /\ lastl < lineno e /\ lineno e <= lineno next)).
  { intros e1 He1 Hw. destruct (colno e1 =? 1) eqn:Ec.
    - destruct (walk_back t lastl (S (lineno e1)) (lineno e1)) as [L|] eqn:EW; [|discriminate].
      inversion Hw; subst e. apply walk_back_spec in EW as [HL1 HL2]. cbn [colno lineno].
      destruct He1 as [->|[-> Hlt]].
      + destruct HL2 as [->|HL2]; [left; destruct next as [ln cn]; cbn in *; f_equal; lia|right; lia].
      + cbn [lineno] in *. right. lia.
    - inversion Hw; subst e. destruct He1 as [->|[-> _]]; [left; reflexivity|cbn in Ec; discriminate]. }
  destruct (colno next =? 1) eqn:Ec1; [apply (Hwalk next); [left; reflexivity|exact H]|].
  destruct (pos_eqb next (endpos t)); [|apply (Hwalk next); [left; reflexivity|exact H]].
  destruct (lastl <? lineno next) eqn:El; [|apply (Hwalk next); [left; reflexivity|exact H]].
  destruct (get_line t (lineno next)) as [l|]; [|discriminate].
  destruct (is_comment_or_blank l); [|apply (Hwalk next); [left; reflexivity|exact H]].
  destruct (lineno (n_start n) <? lineno next); cbn [negb] in H; [|discriminate].
  destruct (get_line t (lineno next - 1)) as [p|]; [|discriminate].
  destruct (negb (line_continues p) || ((lastl <? lineno next - 1) && is_comment_or_blank p)).
  - apply (Hwalk (mkPos (lineno next) 1)); [right; split; [reflexivity|lia]|exact H].
  - apply (Hwalk next); [left; reflexivity|exact H].
Qed.

Definition ends_before (e : pos) (p : piece) : Prop := pos_leb e (endpos (snd p)) = true.

Lemma split_one_aligned t (n : node) next ps e :
  split_one t n next = Some ps ->
  lineno e <= last_line_of n -> pos_leb e next = true ->
  Forall2 (fun p e => ends_before e p) (code_pieces ps) [e].
Proof.
  intros H Hl Hn. apply split_one_inv in H as [Hlt [Hle [e' [s [Hne [Hse [Hen [Hs Hcase]]]]]]]].
  pose proof (slice_endpos _ _ _ _ Hs (pos_ltb_leb _ _ Hse)) as Hep.
  assert (Hal : ends_before e (Some n, s)).
  { unfold ends_before. cbn [snd]. rewrite Hep.
    apply node_endpos_spec in Hne as [->|[Hc [Hll Hln]]]; [exact Hn|].
    apply pos_leb_spec. lia. }
  destruct Hcase as [[-> ->]|[_ [s2 [Hs2 ->]]]]; cbn; repeat constructor; exact Hal.
Qed.

Lemma ends_ok_cons t (n : node) rest e erest :
  ends_ok t (n :: rest) (e :: erest) =
  (lineno e <=? Nat.max (lineno (n_start n)) (n_last n)) && pos_leb e (next_start t rest) && ends_ok t rest erest.
Proof. reflexivity. Qed.

Lemma split_nodes_aligned t : forall (ns : list node) es ps,
  split_nodes t ns = Some ps -> ends_ok t ns es = true ->
  Forall2 (fun p e => ends_before e p) (code_pieces ps) es.
Proof.
  induction ns as [|n rest IH]; intros es ps H He.
  - inversion H. destruct es; [constructor|discriminate].
  - destruct es as [|e erest]; [discriminate|]. rewrite ends_ok_cons in He.
    apply andb_true_iff in He as [He He3]. apply andb_true_iff in He as [He1 He2].
    cbn [split_nodes] in H.
    destruct (split_one t n (next_start t rest)) as [p1|] eqn:E1; [|discriminate].
    destruct (split_nodes t rest) as [r|] eqn:E2; [|discriminate].
    inversion H; subst ps. rewrite code_pieces_app.
    change (e :: erest) with ([e] ++ erest). apply Forall2_app.
    + eapply split_one_aligned; eauto. unfold last_line_of. lia.
    + apply IH; auto.
Qed.

Theorem syntax_aligned (ns : list node) t es ps :
  wf_nodes t ns = true -> ends_ok t ns es = true -> statements ns t = Some ps ->
  Forall2 (fun p e => pos_leb e (endpos (snd p)) = true) (code_pieces ps) es.
Proof.
  unfold statements. intros Hwf He H. destruct (split_code_lines ns t) as [ps0|] eqn:E; [|discriminate].
  inversion H; subst ps.
  destruct (split_code_lines_nodes _ _ _ E Hwf) as [_ [_ B3]].
  destruct (flat_map_norm_nodes _ B3) as [_ [C2 _]]. rewrite C2.
  unfold split_code_lines in E. destruct ns as [|n0 rest].
  - inversion E. destruct es; [constructor|discriminate].
  - destruct (pos_leb (startpos t) (n_start n0)); cbn [negb] in E; [|discriminate].
    destruct (pos_ltb (n_start (last (n0 :: rest) n0)) (endpos t)); cbn [negb] in E; [|discriminate].
    destruct (split_nodes t (n0 :: rest)) as [r|] eqn:E4.
    2:{ destruct (pos_eqb (startpos t) (n_start n0)); [discriminate|].
        destruct (slice t (startpos t) (n_start n0)); discriminate. }
    pose proof (split_nodes_aligned _ _ _ _ E4 He) as Hal.
    destruct (pos_eqb (startpos t) (n_start n0)).
    + inversion E; subst ps0. exact Hal.
    + destruct (slice t (startpos t) (n_start n0)) as [s|]; [|discriminate].
      inversion E; subst ps0. exact Hal.
Qed.


(* ------------------------------------------------------------------------------------------ *)
(* node-less pieces hold only comment / blank lines                                           *)

Definition all_cb (ls : list str) : Prop := Forall (fun l => is_comment_or_blank l = true) ls.

Lemma cb_firstn : forall (l : str) j, is_comment_or_blank l = true -> is_comment_or_blank (firstn j l) = true.
Proof.
  induction l as [|c r IH]; intros j H; [destruct j; reflexivity|].
  destruct j as [|j']; [reflexivity|]. cbn [firstn is_comment_or_blank] in *.
  destruct (c =? c_hash)%N; [reflexivity|].
  apply andb_true_iff in H as [H1 H2]. rewrite H1, (IH j' H2). reflexivity.
Qed.

Lemma nth_error_skipn' {A} : forall (l : list A) i k, nth_error (skipn i l) k = nth_error l (i + k).
Proof.
  induction l as [|x r IH]; intros i k.
  - rewrite skipn_nil. destruct k, (i + _); reflexivity.
  - destruct i as [|i']; [reflexivity|]. cbn [skipn Nat.add nth_error]. apply IH.
Qed.

Lemma nth_error_firstn' {A} : forall (l : list A) n k x, nth_error (firstn n l) k = Some x -> nth_error l k = Some x /\ k < n.
Proof.
  induction l as [|y r IH]; intros n k x H.
  - rewrite firstn_nil in H. destruct k; discriminate.
  - destruct n as [|n']; [destruct k; discriminate|].
    destruct k as [|k']; [cbn in *; split; [exact H|lia]|].
    cbn [firstn nth_error] in *. apply IH in H as [H1 H2]. split; [exact H1|lia].
Qed.

Lemma nth_error_clip_last : forall (X : list str) j k x,
  nth_error (clip_last X j) k = Some x ->
  exists y, nth_error X k = Some y /\ ((S k < length X /\ x = y) \/ (S k = length X /\ x = firstn j y)).
Proof.
  induction X as [|y [|z r] IH]; intros j k x H.
  - destruct k; discriminate.
  - destruct k as [|k']; [|destruct k'; discriminate]. cbn in H. inversion H; subst.
    exists y. split; [reflexivity|]. right. split; reflexivity.
  - rewrite clip_last_cons in H. destruct k as [|k'].
    + cbn in H. inversion H; subst. exists x. split; [reflexivity|]. left. cbn [length]. split; [lia|reflexivity].
    + cbn [nth_error] in H. apply IH in H as [y' [H1 H2]]. exists y'. split; [exact H1|].
      cbn [length] in *. destruct H2 as [[H2 ->]|[H2 ->]]; [left|right]; split; (lia || reflexivity).
Qed.

Lemma islice_lines (ls : list str) i1 i2 j2 x :
  In x (islice ls i1 0 i2 j2) -> i1 <= i2 -> i2 < length ls ->
  exists k y, i1 <= k <= i2 /\ nth_error ls k = Some y /\ ((k < i2 /\ x = y) \/ (k = i2 /\ x = firstn j2 y)).
Proof.
  intros Hin Hle Hlt. unfold islice in Hin.
  assert (Hcf : forall X : list str, clip_first X 0 = X) by (intros [|a r]; reflexivity).
  rewrite Hcf in Hin. apply In_nth_error in Hin as [k Hk].
  apply nth_error_clip_last in Hk as [y [Hy Hcase]].
  assert (HlenF : length (firstn (S (i2 - i1)) (skipn i1 ls)) = S (i2 - i1)) by (rewrite firstn_length, skipn_length; lia).
  apply nth_error_firstn' in Hy as [Hy Hk2]. rewrite nth_error_skipn' in Hy.
  exists (i1 + k), y. split; [lia|]. split; [exact Hy|].
  rewrite HlenF in Hcase. destruct Hcase as [[H1 ->]|[H1 ->]]; [left|right]; split; (lia || reflexivity).
Qed.

Lemma get_line_nth t k l : get_line t k = Some l ->
  lineno (startpos t) <= k /\ nth_error (lines t) (k - lineno (startpos t)) = Some l.
Proof.
  unfold get_line, lineno_to_index. intros H.
  destruct ((lineno (startpos t) <=? k) && (k - lineno (startpos t) <? length (lines t))) eqn:E; [|discriminate].
  split; [lia|exact H].
Qed.

Lemma walk_back_cb t lastl : forall fuel L L',
  walk_back t lastl fuel L = Some L' ->
  forall k, L' <= k < L -> exists l, get_line t k = Some l /\ is_comment_or_blank l = true.
Proof.
  induction fuel as [|f IH]; intros L L' H k Hk; [discriminate|].
  cbn [walk_back] in H.
  destruct (lastl <? L - 1) eqn:E1; [|inversion H; lia].
  destruct (get_line t (L - 1)) as [l1|] eqn:G1; [|discriminate].
  destruct (is_comment_or_blank l1) eqn:C1; [|inversion H; lia].
  destruct (get_line t (L - 2)) as [l2|]; [|discriminate].
  destruct (negb (line_continues l2) || ((lastl <? L - 2) && is_comment_or_blank l2)); [|inversion H; lia].
  destruct (Nat.eq_dec k (L - 1)) as [->|Hne]; [exists l1; auto|].
  apply (IH _ _ H). lia.
Qed.

Lemma node_endpos_cb t (n : node) next e :
  node_endpos t n next = Some e -> e <> next ->
  (forall k, lineno e <= k < lineno next -> exists l, get_line t k = Some l /\ is_comment_or_blank l = true) /\
  (colno next <> 1 -> exists l, get_line t (lineno next) = Some l /\ is_comment_or_blank l = true).
Proof.
  unfold node_endpos. set (lastl := Nat.max (lineno (n_start n)) (n_last n)).
  intros H Hne.
  assert (Hwalk : forall e1, lineno e1 = lineno next -> (colno e1 <> 1 -> e1 = next) ->
            (if colno e1 =? 1
             then match walk_back t lastl (S (lineno e1)) (lineno e1) with
                  | Some L => Some (mkPos L 1) | None => None end
             else Some e1) = Some e ->
            forall k, lineno e <= k < lineno next -> exists l, get_line t k = Some l /\ is_comment_or_blank l = true).
  { intros e1 Hl Hc Hw k Hk. destruct (colno e1 =? 1) eqn:Ec.
    - destruct (walk_back t lastl (S (lineno e1)) (lineno e1)) as [L|] eqn:EW; [|discriminate].
      inversion Hw; subst e. cbn [lineno] in Hk. eapply walk_back_cb; [exact EW|lia].
    - inversion Hw; subst e. exfalso. apply Hne. apply Hc. lia. }
  destruct (colno next =? 1) eqn:Ec1.
  { split; [apply (Hwalk next); auto|intros; lia]. }
  assert (Hstay : (if colno next =? 1
                   then match walk_back t lastl (S (lineno next)) (lineno next) with
                        | Some L => Some (mkPos L 1) | None => None end
                   else Some next) = Some e -> False).
  { rewrite Ec1. intros Hs. inversion Hs. apply Hne. symmetry. assumption. }
  destruct (pos_eqb next (endpos t)); [|exfalso; exact (Hstay H)].
  destruct (lastl <? lineno next) eqn:El; [|exfalso; exact (Hstay H)].
  destruct (get_line t (lineno next)) as [l|] eqn:G; [|discriminate].
  destruct (is_comment_or_blank l) eqn:C; [|exfalso; exact (Hstay H)].
  destruct (lineno (n_start n) <? lineno next); cbn [negb] in H; [|discriminate].
  destruct (get_line t (lineno next - 1)) as [p|]; [|discriminate].
  destruct (negb (line_continues p) || ((lastl <? lineno next - 1) && is_comment_or_blank p)); [|exfalso; exact (Hstay H)].
  split; [|intros _; exists l; auto].
  apply (Hwalk (mkPos (lineno next) 1)); [reflexivity|cbn; intros; lia|exact H].
Qed.

Definition noncode_ok (ps : list piece) : Prop :=
  Forall (fun p => fst p = None -> all_cb (lines (snd p))) ps.

Lemma split_one_noncode t (n : node) next ps :
  split_one t n next = Some ps -> noncode_ok ps.
Proof.
  intros H. apply split_one_inv in H as [Hlt [Hle [e [s [Hne [Hse [Hen [Hs Hcase]]]]]]]].
  destruct Hcase as [[-> ->]|[Hneq [s2 [Hs2 ->]]]].
  - constructor; [discriminate|constructor].
  - constructor; [discriminate|]. constructor; [|constructor]. intros _. cbn [snd].
    assert (Hne' : e <> next) by (intros ->; rewrite pos_eqb_refl in Hneq; discriminate).
    destruct (node_endpos_cb _ _ _ _ Hne Hne') as [Hlines Hlast].
    apply node_endpos_spec in Hne as [->|[Hc [Hll Hln]]]; [congruence|].
    apply slice_spec in Hs as [a1 [a2 [a3 [a4 [Ha [_ _]]]]]].
    apply to_index_spec in Ha as [_ [_ [_ [Hstart _]]]].
    apply slice_spec in Hs2 as [i1 [j1 [i2 [j2 [He [Hn [Hi ->]]]]]]].
    apply to_index_spec in He as [le [Hnle [Hjle [Hle1 Hce]]]].
    apply to_index_spec in Hn as [ln [Hnln [Hjln [Hln1 Hcn]]]].
    unfold last_line_of in Hll. unfold col_off in *.
    assert (Hi1 : i1 <> 0) by lia.
    replace (i1 =? 0) with false in Hce by lia.
    assert (j1 = 0) by lia. subst j1.
    assert (Hlt2 : i2 < length (lines t)) by (apply nth_error_Some; congruence).
    unfold all_cb. cbn [lines]. apply Forall_forall. intros x Hx.
    destruct (islice_lines _ _ _ _ _ Hx Hi Hlt2) as [k [y [Hk [Hy Hcase]]]].
    destruct Hcase as [[Hk2 ->]|[-> ->]].
    + destruct (Hlines (lineno (startpos t) + k)) as [l [Hg Hcb]]; [lia|].
      apply get_line_nth in Hg as [_ Hg]. replace (lineno (startpos t) + k - lineno (startpos t)) with k in Hg by lia.
      rewrite Hy in Hg. inversion Hg; subst. exact Hcb.
    + destruct (Nat.eq_dec (colno next) 1) as [Hc1|Hc1].
      * replace (i2 =? 0) with false in Hcn by lia. assert (j2 = 0) by lia. subst j2. reflexivity.
      * destruct (Hlast Hc1) as [l [Hg Hcb]]. apply get_line_nth in Hg as [_ Hg].
        replace (lineno next - lineno (startpos t)) with i2 in Hg by lia.
        rewrite Hy in Hg. inversion Hg; subst. apply cb_firstn. exact Hcb.
Qed.

Lemma split_nodes_noncode t : forall (ns : list node) ps, split_nodes t ns = Some ps -> noncode_ok ps.
Proof.
  induction ns as [|n rest IH]; intros ps H.
  - inversion H. constructor.
  - cbn [split_nodes] in H.
    destruct (split_one t n (next_start t rest)) as [p1|] eqn:E1; [|discriminate].
    destruct (split_nodes t rest) as [r|] eqn:E2; [|discriminate].
    inversion H; subst ps. apply Forall_app. split; [eapply split_one_noncode; eauto|apply IH; reflexivity].
Qed.

Lemma forallb_all_cb ls : forallb is_comment_or_blank ls = true -> all_cb ls.
Proof. intros H. apply Forall_forall. rewrite forallb_forall in H. exact H. Qed.

Lemma split_code_lines_noncode (ns : list node) t ps :
  split_code_lines ns t = Some ps -> leading_ok t ns = true -> noncode_ok ps.
Proof.
  unfold split_code_lines, leading_ok. intros H Hl. destruct ns as [|n0 rest].
  - inversion H. constructor; [|constructor]. intros _. apply forallb_all_cb. exact Hl.
  - destruct (pos_leb (startpos t) (n_start n0)); cbn [negb] in H; [|discriminate].
    destruct (pos_ltb (n_start (last (n0 :: rest) n0)) (endpos t)); cbn [negb] in H; [|discriminate].
    destruct (split_nodes t (n0 :: rest)) as [r|] eqn:E4.
    2:{ destruct (pos_eqb (startpos t) (n_start n0)); [discriminate|].
        destruct (slice t (startpos t) (n_start n0)); discriminate. }
    pose proof (split_nodes_noncode _ _ _ E4) as Hr.
    destruct (pos_eqb (startpos t) (n_start n0)).
    + inversion H; subst ps. exact Hr.
    + destruct (slice t (startpos t) (n_start n0)) as [s|]; [|discriminate].
      inversion H; subst ps. constructor; [|exact Hr]. intros _. apply forallb_all_cb. exact Hl.
Qed.

Lemma norm_lines_cb sp (k : option node) : forall ls ran,
  all_cb ls -> Forall (fun q : piece => all_cb (lines (snd q))) (norm_lines sp k ran ls).
Proof.
  induction ls as [|l rest IH]; intros ran H.
  - cbn. constructor; [exact H|constructor].
  - destruct l as [|c l'].
    + destruct rest as [|o1 orest].
      * cbn. constructor; [exact H|constructor].
      * change (norm_lines sp k ran ([] :: o1 :: orest)) with
          (match o1, orest with
           | [], [] => [(if ran then None else k, mkText ([] :: o1 :: orest) sp)]
           | _, _ => (None, mkText [[]; []] sp) :: norm_lines sp k true (o1 :: orest)
           end).
        assert (Hrest : all_cb (o1 :: orest)) by (inversion H; assumption).
        assert (Hnl : all_cb [[]; []]) by (repeat constructor).
        destruct o1 as [|c1 o1']; [destruct orest as [|o2 orest']|].
        -- constructor; [exact H|constructor].
        -- constructor; [exact Hnl|apply IH; exact Hrest].
        -- constructor; [exact Hnl|apply IH; exact Hrest].
    + cbn. constructor; [exact H|constructor].
Qed.

Theorem noncode_pieces_blank_or_comment (ns : list node) t ps :
  wf_nodes t ns = true -> leading_ok t ns = true -> statements ns t = Some ps ->
  forall s, In (None, s) ps -> Forall (fun l => is_comment_or_blank l = true) (lines s).
Proof.
  unfold statements. intros Hwf Hl H. destruct (split_code_lines ns t) as [ps0|] eqn:E; [|discriminate].
  inversion H; subst ps.
  destruct (split_code_lines_nodes _ _ _ E Hwf) as [_ [_ B3]].
  pose proof (split_code_lines_noncode _ _ _ E Hl) as Hn.
  intros s Hin. apply in_flat_map in Hin as [p [Hp Hin]].
  unfold node_pieces_ok in B3. unfold noncode_ok in Hn. rewrite Forall_forall in B3, Hn.
  specialize (B3 p Hp). specialize (Hn p Hp).
  destruct p as [[n|] s0]; cbn [fst snd] in *.
  - rewrite norm_piece_keep in Hin by exact B3. destruct Hin as [Heq|[]]. discriminate.
  - pose proof (norm_lines_cb (startpos s0) None (lines s0) false (Hn eq_refl)) as Hall.
    rewrite Forall_forall in Hall. apply (Hall _ Hin).
Qed.


(* ------------------------------------------------------------------------------------------ *)
(* totality: on a well-formed node list the splitter raises nothing                           *)

Lemma nth_error_last (ls : list str) : ls <> [] -> nth_error ls (length ls - 1) = Some (last ls []).
Proof.
  induction ls as [|x [|y r] IH]; intros H; [congruence|reflexivity|].
  replace (length (x :: y :: r) - 1) with (S (length (y :: r) - 1)) by (cbn [length]; lia).
  cbn [nth_error]. change (last (x :: y :: r) []) with (last (y :: r) []). apply IH. discriminate.
Qed.

Lemma last_In {A} (l : list A) d : l <> [] -> In (last l d) l.
Proof.
  induction l as [|x [|y r] IH]; intros H; [congruence|left; reflexivity|].
  right. change (last (x :: y :: r) d) with (last (y :: r) d). apply IH. discriminate.
Qed.

Lemma to_index_endpos t : lines t <> [] ->
  to_index t (endpos t) = Some (length (lines t) - 1, length (last_line (lines t))).
Proof.
  intros Hne. apply to_index_spec.
  assert (Hlen : length (lines t) <> 0) by (destruct (lines t); [congruence|discriminate]).
  exists (last_line (lines t)). split; [apply nth_error_last; exact Hne|].
  split; [lia|]. unfold endpos, col_off. cbn [lineno colno]. split; [lia|].
  destruct (length (lines t) =? 1) eqn:E.
  - replace (length (lines t) - 1 =? 0) with true by lia. reflexivity.
  - replace (length (lines t) - 1 =? 0) with false by lia. reflexivity.
Qed.

Lemma at_char_lt_end t p : at_char t p = true -> pos_ltb p (endpos t) = true.
Proof.
  intros H. apply at_char_spec in H as [i [j [l [Hi [Hn Hj]]]]].
  pose proof (nth_error_nonempty _ _ _ Hn) as Hne.
  pose proof (to_index_endpos t Hne) as He.
  apply to_index_spec in Hi as [l' [Hn' [_ [Hl Hc]]]]. rewrite Hn in Hn'. inversion Hn'; subst l'.
  apply to_index_spec in He as [le [Hne' [_ [Hle Hce]]]].
  assert (Hlt : i < length (lines t)) by (apply nth_error_Some; congruence).
  apply pos_ltb_spec. destruct (Nat.eq_dec i (length (lines t) - 1)) as [->|Hneq]; [|left; lia].
  right. split; [lia|].
  rewrite (nth_error_last _ Hne) in Hn. inversion Hn; subst l. unfold last_line in *. lia.
Qed.

Lemma get_line_some t k : lineno (startpos t) <= k -> k < lineno (startpos t) + length (lines t) ->
  exists l, get_line t k = Some l.
Proof.
  intros H1 H2. unfold get_line, lineno_to_index.
  replace ((lineno (startpos t) <=? k) && (k - lineno (startpos t) <? length (lines t))) with true by lia.
  destruct (nth_error (lines t) (k - lineno (startpos t))) as [l|] eqn:E; [eexists; reflexivity|].
  apply nth_error_None in E. lia.
Qed.

Lemma walk_total t lastl : forall fuel L,
  L - 1 - lastl < fuel -> lineno (startpos t) <= lastl -> L - 1 < lineno (startpos t) + length (lines t) ->
  exists L', walk_back t lastl fuel L = Some L'.
Proof.
  induction fuel as [|f IH]; intros L Hf Hl Hmax; [lia|].
  cbn [walk_back]. destruct (lastl <? L - 1) eqn:E1; [|eexists; reflexivity].
  destruct (get_line_some t (L - 1)) as [l1 ->]; [lia|lia|].
  destruct (is_comment_or_blank l1); [|eexists; reflexivity].
  destruct (get_line_some t (L - 2)) as [l2 ->]; [lia|lia|].
  destruct (negb (line_continues l2) || ((lastl <? L - 2) && is_comment_or_blank l2)); [|eexists; reflexivity].
  apply IH; lia.
Qed.

Lemma node_endpos_total t (n : node) next i2 j2 :
  to_index t next = Some (i2, j2) -> lineno (startpos t) <= lineno (n_start n) ->
  exists e, node_endpos t n next = Some e.
Proof.
  intros Hn Hs. apply to_index_spec in Hn as [ln [Hnl [_ [Hl _]]]].
  assert (Hlt : i2 < length (lines t)) by (apply nth_error_Some; congruence).
  unfold node_endpos. set (lastl := Nat.max (lineno (n_start n)) (n_last n)).
  assert (Hwalk : forall e1, lineno e1 = lineno next ->
            exists e, (if colno e1 =? 1
                       then match walk_back t lastl (S (lineno e1)) (lineno e1) with
                            | Some L => Some (mkPos L 1) | None => None end
                       else Some e1) = Some e).
  { intros e1 He1. destruct (colno e1 =? 1); [|eexists; reflexivity].
    destruct (walk_total t lastl (S (lineno e1)) (lineno e1)) as [L' ->]; [lia|lia|lia|]. eexists; reflexivity. }
  destruct (colno next =? 1); [apply Hwalk; reflexivity|].
  destruct (pos_eqb next (endpos t)); [|apply Hwalk; reflexivity].
  destruct (lastl <? lineno next) eqn:El; [|apply Hwalk; reflexivity].
  destruct (get_line_some t (lineno next)) as [l ->]; [lia|lia|].
  destruct (is_comment_or_blank l); [|apply Hwalk; reflexivity].
  replace (lineno (n_start n) <? lineno next) with true by lia. cbn [negb].
  destruct (get_line_some t (lineno next - 1)) as [p ->]; [lia|lia|].
  destruct (negb (line_continues p) || ((lastl <? lineno next - 1) && is_comment_or_blank p)); apply Hwalk; reflexivity.
Qed.

Lemma slice_some t a b i1 j1 i2 j2 :
  to_index t a = Some (i1, j1) -> to_index t b = Some (i2, j2) -> i1 <= i2 -> exists s, slice t a b = Some s.
Proof. intros Ha Hb Hle. eexists. apply slice_spec. exists i1, j1, i2, j2. repeat split; eauto. Qed.

Lemma split_one_total t (n : node) next i2 j2 :
  at_char t (n_start n) = true -> to_index t next = Some (i2, j2) ->
  pos_ltb (n_start n) next = true -> pos_leb next (endpos t) = true ->
  exists ps, split_one t n next = Some ps.
Proof.
  intros Hc Hn Hlt Hle. unfold split_one. rewrite Hlt, Hle. cbn [negb].
  apply at_char_spec in Hc as [i1 [j1 [l1 [Hi1 [Hn1 Hj1]]]]].
  pose proof Hi1 as Hi1'. apply to_index_spec in Hi1' as [_ [_ [_ [Hl1 Hc1]]]].
  destruct (node_endpos_total t n next i2 j2 Hn) as [e He]; [lia|]. rewrite He.
  pose proof Hn as Hn'. apply to_index_spec in Hn' as [ln [Hnl [Hjn [Hl2 Hc2]]]].
  assert (Hlt2 : i2 < length (lines t)) by (apply nth_error_Some; congruence).
  pose proof (pos_ltb_leb _ _ Hlt) as Hlen.
  pose proof (to_index_order _ _ _ _ _ _ _ Hi1 Hn Hlen) as Hord.
  apply node_endpos_spec in He as [->|[Hce [Hll Hln]]].
  - rewrite Hlt, pos_leb_refl. cbn [andb negb].
    destruct (slice_some t (n_start n) next _ _ _ _ Hi1 Hn) as [s ->]; [lia|].
    rewrite pos_eqb_refl. eexists; reflexivity.
  - unfold last_line_of in Hll. unfold col_off in *.
    assert (He : to_index t e = Some (lineno e - lineno (startpos t), 0)).
    { apply to_index_spec.
      destruct (nth_error (lines t) (lineno e - lineno (startpos t))) as [le|] eqn:E.
      2:{ apply nth_error_None in E. lia. }
      exists le. split; [reflexivity|]. split; [lia|]. split; [lia|].
      unfold col_off. replace (lineno e - lineno (startpos t) =? 0) with false by lia. lia. }
    assert (Hse : pos_ltb (n_start n) e = true) by (apply pos_ltb_spec; lia).
    assert (Hen : pos_leb e next = true).
    { apply pos_leb_spec. destruct (Nat.eq_dec (lineno e) (lineno next)); [|left; lia].
      right. split; [assumption|]. replace (i2 =? 0) with false in Hc2 by lia. lia. }
    rewrite Hse, Hen. cbn [andb negb].
    destruct (slice_some t (n_start n) e _ _ _ _ Hi1 He) as [s ->]; [lia|].
    destruct (pos_eqb e next); [eexists; reflexivity|].
    destruct (slice_some t e next _ _ _ _ He Hn) as [s2 ->]; [lia|]. eexists; reflexivity.
Qed.

Lemma split_nodes_total t : forall (ns : list node),
  forallb (fun n => at_char t (n_start n)) ns = true -> starts_increasing ns = true ->
  exists ps, split_nodes t ns = Some ps.
Proof.
  induction ns as [|n rest IH]; intros Hc Hinc; [eexists; reflexivity|].
  cbn [forallb] in Hc. apply andb_true_iff in Hc as [Hc1 Hc2].
  cbn [split_nodes].
  assert (Hone : exists ps, split_one t n (next_start t rest) = Some ps).
  { destruct rest as [|m rest'].
    - cbn [next_start].
      pose proof Hc1 as Hc1'. apply at_char_spec in Hc1' as [i [j [l [_ [Hn _]]]]].
      eapply split_one_total; [exact Hc1|apply to_index_endpos; eapply nth_error_nonempty; eauto| |apply pos_leb_refl].
      apply at_char_lt_end. exact Hc1.
    - cbn [next_start]. rewrite starts_increasing_cons in Hinc. apply andb_true_iff in Hinc as [Hlt _].
      cbn [forallb] in Hc2. apply andb_true_iff in Hc2 as [Hm _].
      pose proof Hm as Hm'. apply at_char_spec in Hm' as [i [j [l [Hi _]]]].
      eapply split_one_total; [exact Hc1|exact Hi|exact Hlt|].
      apply pos_ltb_leb, at_char_lt_end. exact Hm. }
  destruct Hone as [p1 ->].
  destruct (IH Hc2) as [r ->].
  { destruct rest as [|m rest']; [reflexivity|]. rewrite starts_increasing_cons in Hinc.
    apply andb_true_iff in Hinc as [_ H]. exact H. }
  eexists; reflexivity.
Qed.

Theorem statements_total (ns : list node) t :
  wf_nodes t ns = true -> exists ps, statements ns t = Some ps.
Proof.
  intros Hwf. unfold statements.
  assert (H : exists ps0, split_code_lines ns t = Some ps0); [|destruct H as [ps0 ->]; eexists; reflexivity].
  pose proof (wf_nodes_at_char _ _ Hwf) as Hc.
  unfold wf_nodes in Hwf. apply andb_true_iff in Hwf as [Hinc Hall].
  unfold split_code_lines. destruct ns as [|n0 rest]; [eexists; reflexivity|].
  assert (Hle0 : pos_leb (startpos t) (n_start n0) = true).
  { rewrite forallb_forall in Hall. specialize (Hall n0 (or_introl eq_refl)). lia. }
  rewrite Hle0. cbn [negb].
  assert (Hlast : at_char t (n_start (last (n0 :: rest) n0)) = true).
  { rewrite forallb_forall in Hc. apply Hc. apply last_In. discriminate. }
  rewrite (at_char_lt_end _ _ Hlast). cbn [negb].
  destruct (split_nodes_total t (n0 :: rest) Hc Hinc) as [r ->].
  destruct (pos_eqb (startpos t) (n_start n0)); [eexists; reflexivity|].
  assert (Hc0 : at_char t (n_start n0) = true) by (cbn [forallb] in Hc; apply andb_true_iff in Hc as [H _]; exact H).
  apply at_char_spec in Hc0 as [i [j [l [Hi [Hn _]]]]].
  assert (Hs : to_index t (startpos t) = Some (0, 0)).
  { apply to_index_spec. destruct (lines t) as [|l0 r0] eqn:E; [destruct i; discriminate|].
    exists l0. split; [reflexivity|]. split; [lia|]. split; [lia|]. unfold col_off. cbn. lia. }
  destruct (slice_some t (startpos t) (n_start n0) _ _ _ _ Hs Hi) as [s ->]; [lia|].
  eexists; reflexivity.
Qed.

End SplitProofs.

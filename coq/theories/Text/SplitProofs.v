(* Theorems about the statement splitter (C10). *)
From Coq Require Import Arith Bool List NArith Lia ZifyBool.
From Verif Require Import Base.Chars Base.StrX Base.StrXProofs Text.FilePos Text.FileText Text.Split
                          Text.FileTextProofs.
Import ListNotations.

Section SplitProofs.
Variable K : Type.
Notation node := (node K).
Notation piece := (piece K).

Definition ptexts (ps : list piece) : str := concat (map (fun p => joined (snd p)) ps).

Lemma ptexts_app a b : ptexts (a ++ b) = ptexts a ++ ptexts b.
Proof. unfold ptexts. rewrite map_app, concat_app. reflexivity. Qed.

(* ------------------------------------------------------------------------------------------ *)
(* losslessness: success of the splitter alone implies that the pieces tile the text          *)

Lemma split_one_inv t (n : node) next ps :
  split_one t n next = Some ps ->
  pos_ltb (n_start n) next = true /\ pos_leb next (endpos t) = true /\
  exists e s, node_endpos t n next = Some e /\ pos_ltb (n_start n) e = true /\ pos_leb e next = true /\
    slice t (n_start n) e = Some s /\
    ((e = next /\ ps = [(Some n, s)]) \/
     (pos_eqb e next = false /\ exists s2, slice t e next = Some s2 /\ ps = [(Some n, s); (None, s2)])).
Proof.
  unfold split_one. intros H.
  destruct (pos_ltb (n_start n) next) eqn:E1; cbn [negb] in H; [|discriminate].
  destruct (pos_leb next (endpos t)) eqn:E2; cbn [negb] in H; [|discriminate].
  destruct (node_endpos t n next) as [e|] eqn:E3; [|discriminate].
  destruct (pos_ltb (n_start n) e && pos_leb e next) eqn:E4; cbn [negb] in H; [|discriminate].
  apply andb_true_iff in E4 as [E4 E5].
  destruct (slice t (n_start n) e) as [s|] eqn:E6; [|discriminate].
  split; [reflexivity|]. split; [reflexivity|].
  exists e, s. repeat split; try assumption.
  destruct (pos_eqb e next) eqn:E7.
  - left. apply pos_eqb_eq in E7. inversion H. auto.
  - right. split; [reflexivity|].
    destruct (slice t e next) as [s2|] eqn:E8; [|discriminate].
    exists s2. inversion H. auto.
Qed.

Lemma split_one_concat t (n : node) next ps :
  split_one t n next = Some ps ->
  exists oa ob, off_of t (n_start n) = Some oa /\ off_of t next = Some ob /\
                oa <= ob /\ ob <= length (joined t) /\ ptexts ps = sub (joined t) oa ob.
Proof.
  intros H. apply split_one_inv in H as [Hlt [Hle [e [s [_ [Hse [Hen [Hs Hcase]]]]]]]].
  apply pos_ltb_leb in Hse.
  destruct (slice_joined _ _ _ _ Hs Hse) as [oa [oe [Ha [He [Hae [Hel Hj]]]]]].
  destruct Hcase as [[-> ->]|[_ [s2 [Hs2 ->]]]].
  - exists oa, oe. repeat split; try assumption.
    unfold ptexts. cbn. rewrite app_nil_r. exact Hj.
  - destruct (slice_joined _ _ _ _ Hs2 Hen) as [oe' [ob [He' [Hb [Heb [Hbl Hj2]]]]]].
    rewrite He in He'. inversion He'; subst oe'.
    exists oa, ob. repeat split; try assumption; [lia|].
    unfold ptexts. cbn. rewrite app_nil_r, Hj, Hj2. apply sub_add; assumption.
Qed.

Lemma split_nodes_concat t : forall (rest : list node) (n : node) ps,
  split_nodes t (n :: rest) = Some ps ->
  exists oa, off_of t (n_start n) = Some oa /\ oa <= length (joined t) /\
             ptexts ps = sub (joined t) oa (length (joined t)).
Proof.
  induction rest as [|m rest IH]; intros n ps H.
  - cbn [split_nodes next_start] in H.
    destruct (split_one t n (endpos t)) as [p1|] eqn:E1; [|discriminate].
    inversion H; subst ps. rewrite app_nil_r.
    destruct (split_one_concat _ _ _ _ E1) as [oa [ob [Ha [Hb [Hab [Hbl Hp]]]]]].
    apply off_end in Hb. subst ob. exists oa. auto.
  - change (split_nodes t (n :: m :: rest)) with
      (match split_one t n (n_start m) with
       | None => None
       | Some ps => match split_nodes t (m :: rest) with None => None | Some r => Some (ps ++ r) end
       end) in H.
    destruct (split_one t n (n_start m)) as [p1|] eqn:E1; [|discriminate].
    destruct (split_nodes t (m :: rest)) as [r|] eqn:E2; [|discriminate].
    inversion H; subst ps.
    destruct (split_one_concat _ _ _ _ E1) as [oa [ob [Ha [Hb [Hab [Hbl Hp]]]]]].
    destruct (IH m r E2) as [om [Hm [Hml Hr]]].
    rewrite Hb in Hm. inversion Hm; subst om.
    exists oa. split; [exact Ha|]. split; [lia|].
    rewrite ptexts_app, Hp, Hr. apply sub_add; assumption.
Qed.

Lemma split_code_lines_concat (ns : list node) t ps :
  split_code_lines ns t = Some ps -> ptexts ps = joined t.
Proof.
  unfold split_code_lines. intros H. destruct ns as [|n0 rest].
  - inversion H. unfold ptexts. cbn. apply app_nil_r.
  - destruct (pos_leb (startpos t) (n_start n0)) eqn:E1; cbn [negb] in H; [|discriminate].
    destruct (pos_ltb (n_start (last (n0 :: rest) n0)) (endpos t)) eqn:E2; cbn [negb] in H; [|discriminate].
    destruct (pos_eqb (startpos t) (n_start n0)) eqn:E3.
    + destruct (split_nodes t (n0 :: rest)) as [r|] eqn:E4; [|discriminate].
      inversion H; subst ps. cbn [app].
      destruct (split_nodes_concat _ _ _ _ E4) as [oa [Ha [Hal Hr]]].
      apply pos_eqb_eq in E3. rewrite <- E3 in Ha. apply off_start in Ha. subst oa.
      rewrite Hr. apply sub_full.
    + destruct (slice t (startpos t) (n_start n0)) as [s|] eqn:E5; [|discriminate].
      destruct (split_nodes t (n0 :: rest)) as [r|] eqn:E4; [|discriminate].
      inversion H; subst ps.
      destruct (split_nodes_concat _ _ _ _ E4) as [oa [Ha [Hal Hr]]].
      destruct (slice_joined _ _ _ _ E5 E1) as [o0 [oa' [H0 [Ha' [H0a [_ Hj]]]]]].
      rewrite Ha in Ha'. inversion Ha'; subst oa'.
      apply off_start in H0. subst o0.
      change (ptexts ((None, s) :: r)) with (joined s ++ ptexts r). rewrite Hr, Hj.
      rewrite sub_add by lia. apply sub_full.
Qed.

Lemma norm_lines_concat sp (k : option node) : forall ls ran,
  ptexts (norm_lines sp k ran ls) = join_with c_nl ls.
Proof.
  induction ls as [|l rest IH]; intros ran.
  - unfold ptexts. cbn. reflexivity.
  - destruct l as [|c l'].
    + destruct rest as [|o1 orest].
      * unfold ptexts. cbn. reflexivity.
      * change (norm_lines sp k ran ([] :: o1 :: orest)) with
          (match o1, orest with
           | [], [] => [(if ran then None else k, mkText ([] :: o1 :: orest) sp)]
           | _, _ => (None, mkText [[]; []] sp) :: norm_lines sp k true (o1 :: orest)
           end).
        assert (Hgen : ptexts ((None, mkText [[]; []] sp) :: norm_lines sp k true (o1 :: orest)) =
                       join_with c_nl ([] :: o1 :: orest)).
        { change (ptexts ((None, mkText [[]; []] sp) :: norm_lines sp k true (o1 :: orest)))
            with ([c_nl] ++ ptexts (norm_lines sp k true (o1 :: orest))).
          rewrite IH. reflexivity. }
        destruct o1 as [|c1 o1']; [destruct orest as [|o2 orest']|]; exact Hgen.
    + unfold ptexts. cbn [norm_lines map concat snd joined lines]. apply app_nil_r.
Qed.

Lemma norm_piece_concat (p : piece) : ptexts (norm_piece p) = joined (snd p).
Proof. unfold norm_piece. apply norm_lines_concat. Qed.

Lemma flat_map_norm_concat (ps : list piece) : ptexts (flat_map norm_piece ps) = ptexts ps.
Proof.
  induction ps as [|p ps IH]; [reflexivity|].
  cbn [flat_map]. rewrite ptexts_app, norm_piece_concat, IH. reflexivity.
Qed.

Theorem split_lossless (ns : list node) t ps :
  statements ns t = Some ps -> ptexts ps = joined t.
Proof.
  unfold statements. destruct (split_code_lines ns t) as [ps0|] eqn:E; [|discriminate].
  intros H. inversion H. rewrite flat_map_norm_concat. eapply split_code_lines_concat; eauto.
Qed.

(* ------------------------------------------------------------------------------------------ *)
(* ownership: the pieces that own a node are, in order, exactly the nodes; they start at the
   node's start position                                                                      *)

Definition starts_ok (ps : list piece) : Prop :=
  Forall (fun p => match fst p with Some n => startpos (snd p) = n_start n | None => True end) ps.

(* first line of the piece's text is not empty: the piece does not begin with a newline *)
Definition first_line_nonempty (s : text) : Prop :=
  match lines s with [] => False | l :: _ => l <> [] end.

Definition node_pieces_ok (ps : list piece) : Prop :=
  Forall (fun p => match fst p with Some _ => first_line_nonempty (snd p) | None => True end) ps.

Lemma at_char_spec t p : at_char t p = true <->
  exists i j l, to_index t p = Some (i, j) /\ nth_error (lines t) i = Some l /\ j < length l.
Proof.
  unfold at_char, to_index. split.
  - intros H. destruct (lineno_to_index t (lineno p)) as [i|]; [|discriminate].
    destruct (colno_to_index t i (colno p)) as [j|]; [|discriminate].
    destruct (nth_error (lines t) i) as [l|] eqn:E; [|discriminate].
    exists i, j, l. split; [reflexivity|]. split; [exact E|]. lia.
  - intros [i [j [l [H1 [H2 H3]]]]].
    destruct (lineno_to_index t (lineno p)) as [i'|]; [|discriminate].
    destruct (colno_to_index t i' (colno p)) as [j'|]; [|discriminate].
    inversion H1; subst. rewrite H2. lia.
Qed.

Lemma islice_first (ls : list str) i1 j1 i2 j2 (l1 : str) :
  nth_error ls i1 = Some l1 -> i1 <= i2 -> i2 < length ls ->
  exists rest, islice ls i1 j1 i2 j2 = (if i1 =? i2 then skipn j1 (firstn j2 l1) else skipn j1 l1) :: rest.
Proof.
  intros Hn Hle Hlt. unfold islice.
  assert (Hs : exists tl, skipn i1 ls = l1 :: tl).
  { clear Hle Hlt. revert i1 Hn. induction ls as [|x r IH]; intros i1 Hn; [destruct i1; discriminate|].
    destruct i1 as [|i1']; [cbn in Hn; inversion Hn; eexists; reflexivity|].
    cbn [skipn]. apply IH. exact Hn. }
  destruct Hs as [tl Hs]. rewrite Hs.
  destruct (i1 =? i2) eqn:E.
  - replace (i2 - i1) with 0 by lia. cbn. eexists. reflexivity.
  - destruct (i2 - i1) as [|d] eqn:Ed; [lia|].
    assert (Htl : tl <> []).
    { intros ->. apply (f_equal (@length _)) in Hs. rewrite skipn_length in Hs. cbn in Hs. lia. }
    change (firstn (S (S d)) (l1 :: tl)) with (l1 :: firstn (S d) tl).
    rewrite clip_last_cons' by (apply firstn_S_nonempty; exact Htl).
    cbn [clip_first]. eexists. reflexivity.
Qed.

Lemma slice_first_nonempty t a b s :
  slice t a b = Some s -> at_char t a = true -> pos_ltb a b = true -> first_line_nonempty s.
Proof.
  intros Hs Hc Hlt.
  apply at_char_spec in Hc as [i [j [l [Hi [Hn Hj]]]]].
  pose proof (pos_ltb_leb _ _ Hlt) as Hle.
  apply slice_spec in Hs as [i1 [j1 [i2 [j2 [Ha [Hb [Hi12 ->]]]]]]].
  rewrite Hi in Ha. inversion Ha; subst i1 j1.
  pose proof Hb as Hb'. apply to_index_spec in Hb' as [l2 [Hn2 [Hj2 [Hl2 Hc2]]]].
  assert (Hlt2 : i2 < length (lines t)) by (apply nth_error_Some; congruence).
  destruct (islice_first (lines t) i j i2 j2 l Hn Hi12 Hlt2) as [rest Hr].
  unfold first_line_nonempty. cbn [lines]. rewrite Hr.
  destruct (i =? i2) eqn:E.
  - assert (i2 = i) by lia. subst i2. rewrite Hn in Hn2. inversion Hn2; subst l2.
    apply to_index_spec in Hi as [l' [_ [_ [Hl1 Hc1]]]].
    apply pos_ltb_spec in Hlt.
    assert (j < j2) by lia.
    intros E0. apply (f_equal (@length _)) in E0. rewrite skipn_length, firstn_length in E0. cbn in E0. lia.
  - intros E0. apply (f_equal (@length _)) in E0. rewrite skipn_length in E0. cbn in E0. lia.
Qed.

Lemma norm_lines_keep sp (k : option node) l rest :
  l <> [] -> norm_lines sp k false (l :: rest) = [(k, mkText (l :: rest) sp)].
Proof. intros H. destruct l; [congruence|reflexivity]. Qed.

Lemma norm_piece_keep (n : node) s :
  first_line_nonempty s -> norm_piece (Some n, s) = [(Some n, s)].
Proof.
  unfold first_line_nonempty, norm_piece. destruct s as [ls sp]. cbn [snd fst lines startpos].
  destruct ls as [|l rest]; [contradiction|]. intros H. apply norm_lines_keep. exact H.
Qed.

Lemma norm_lines_none sp : forall ls ran,
  Forall (fun p : piece => fst p = None) (norm_lines sp None ran ls).
Proof.
  induction ls as [|l rest IH]; intros ran.
  - cbn. constructor; [destruct ran; reflexivity|constructor].
  - destruct l as [|c l'].
    + destruct rest as [|o1 orest].
      * cbn. constructor; [destruct ran; reflexivity|constructor].
      * change (norm_lines sp None ran ([] :: o1 :: orest)) with
          (match o1, orest with
           | [], [] => [(if ran then None else None, mkText ([] :: o1 :: orest) sp)]
           | _, _ => (None, mkText [[]; []] sp) :: norm_lines sp (@None node) true (o1 :: orest)
           end).
        destruct o1 as [|c1 o1']; [destruct orest as [|o2 orest']|].
        -- constructor; [destruct ran; reflexivity|constructor].
        -- constructor; [reflexivity|apply IH].
        -- constructor; [reflexivity|apply IH].
    + cbn. constructor; [destruct ran; reflexivity|constructor].
Qed.

Lemma piece_nodes_app (a b : list piece) : piece_nodes (a ++ b) = piece_nodes a ++ piece_nodes b.
Proof. unfold piece_nodes. apply flat_map_app. Qed.

Lemma piece_nodes_none (ps : list piece) :
  Forall (fun p : piece => fst p = None) ps -> piece_nodes ps = [].
Proof.
  induction 1 as [|p ps Hp _ IH]; [reflexivity|].
  unfold piece_nodes in *. cbn [flat_map]. rewrite Hp, IH. reflexivity.
Qed.

Lemma code_pieces_app (a b : list piece) : code_pieces (a ++ b) = code_pieces a ++ code_pieces b.
Proof. unfold code_pieces. apply filter_app. Qed.

Lemma code_pieces_none (ps : list piece) :
  Forall (fun p : piece => fst p = None) ps -> code_pieces ps = [].
Proof.
  induction 1 as [|p ps Hp _ IH]; [reflexivity|].
  unfold code_pieces in *. cbn [filter]. rewrite Hp, IH. reflexivity.
Qed.

(* normalisation leaves the node pieces alone when none of them begins with a newline *)
Lemma flat_map_norm_nodes (ps : list piece) :
  node_pieces_ok ps ->
  piece_nodes (flat_map norm_piece ps) = piece_nodes ps /\
  code_pieces (flat_map norm_piece ps) = code_pieces ps /\
  (starts_ok ps -> starts_ok (flat_map norm_piece ps)).
Proof.
  induction 1 as [|p ps Hp _ IH]; [repeat split; auto|].
  destruct IH as [IH1 [IH2 IH3]].
  cbn [flat_map]. rewrite piece_nodes_app, code_pieces_app, IH1, IH2.
  destruct p as [[n|] s]; cbn [fst snd] in Hp.
  - rewrite norm_piece_keep by exact Hp. repeat split.
    intros Hs. inversion Hs; subst. constructor; [assumption|]. apply IH3. assumption.
  - pose proof (norm_lines_none (startpos s) (lines s) false) as Hn.
    change (norm_lines (startpos s) None false (lines s)) with (norm_piece ((None, s) : piece)) in Hn.
    rewrite (piece_nodes_none _ Hn), (code_pieces_none _ Hn).
    repeat split.
    intros Hs. inversion Hs; subst. unfold starts_ok. apply Forall_app. split; [|apply IH3; assumption].
    eapply Forall_impl; [|exact Hn]. intros q Hq. rewrite Hq. exact I.
Qed.

Lemma starts_increasing_cons (n m : node) rest :
  starts_increasing (n :: m :: rest) = pos_ltb (n_start n) (n_start m) && starts_increasing (m :: rest).
Proof. reflexivity. Qed.

Lemma split_one_nodes t (n : node) next ps :
  split_one t n next = Some ps -> at_char t (n_start n) = true ->
  piece_nodes ps = [n] /\ starts_ok ps /\ node_pieces_ok ps.
Proof.
  intros H Hc. apply split_one_inv in H as [Hlt [Hle [e [s [_ [Hse [Hen [Hs Hcase]]]]]]]].
  pose proof (slice_startpos _ _ _ _ Hs) as Hsp.
  pose proof (slice_first_nonempty _ _ _ _ Hs Hc Hse) as Hfl.
  destruct Hcase as [[-> ->]|[_ [s2 [Hs2 ->]]]].
  - repeat split; repeat constructor; assumption.
  - repeat split; repeat constructor; assumption.
Qed.

Lemma split_nodes_nodes t : forall (ns : list node) ps,
  split_nodes t ns = Some ps -> forallb (fun n => at_char t (n_start n)) ns = true ->
  piece_nodes ps = ns /\ starts_ok ps /\ node_pieces_ok ps.
Proof.
  induction ns as [|n rest IH]; intros ps H Hc.
  - inversion H. repeat split; constructor.
  - cbn [split_nodes] in H. cbn [forallb] in Hc. apply andb_true_iff in Hc as [Hc1 Hc2].
    destruct (split_one t n (next_start t rest)) as [p1|] eqn:E1; [|discriminate].
    destruct (split_nodes t rest) as [r|] eqn:E2; [|discriminate].
    inversion H; subst ps.
    destruct (split_one_nodes _ _ _ _ E1 Hc1) as [A1 [A2 A3]].
    destruct (IH r eq_refl Hc2) as [B1 [B2 B3]].
    rewrite piece_nodes_app, A1, B1. repeat split.
    + apply Forall_app; auto.
    + apply Forall_app; auto.
Qed.

Lemma wf_nodes_at_char t (ns : list node) :
  wf_nodes t ns = true -> forallb (fun n => at_char t (n_start n)) ns = true.
Proof.
  unfold wf_nodes. intros H. apply andb_true_iff in H as [_ H].
  rewrite forallb_forall in *. intros n Hn. specialize (H n Hn). lia.
Qed.

Lemma split_code_lines_nodes (ns : list node) t ps :
  split_code_lines ns t = Some ps -> wf_nodes t ns = true ->
  piece_nodes ps = ns /\ starts_ok ps /\ node_pieces_ok ps.
Proof.
  unfold split_code_lines. intros H Hwf. apply wf_nodes_at_char in Hwf.
  destruct ns as [|n0 rest].
  - inversion H. repeat split; repeat constructor.
  - destruct (pos_leb (startpos t) (n_start n0)); cbn [negb] in H; [|discriminate].
    destruct (pos_ltb (n_start (last (n0 :: rest) n0)) (endpos t)); cbn [negb] in H; [|discriminate].
    destruct (split_nodes t (n0 :: rest)) as [r|] eqn:E4.
    2:{ destruct (pos_eqb (startpos t) (n_start n0)); [discriminate|].
        destruct (slice t (startpos t) (n_start n0)); discriminate. }
    destruct (split_nodes_nodes _ _ _ E4 Hwf) as [B1 [B2 B3]].
    destruct (pos_eqb (startpos t) (n_start n0)).
    + inversion H; subst ps. cbn [app]. auto.
    + destruct (slice t (startpos t) (n_start n0)) as [s|]; [|discriminate].
      inversion H; subst ps. change (piece_nodes ((None, s) :: r)) with (piece_nodes r).
      repeat split; [exact B1| |]; (constructor; [exact I|assumption]).
Qed.

Theorem one_node_per_piece (ns : list node) t ps :
  wf_nodes t ns = true -> statements ns t = Some ps -> piece_nodes ps = ns.
Proof.
  unfold statements. intros Hwf H. destruct (split_code_lines ns t) as [ps0|] eqn:E; [|discriminate].
  inversion H; subst ps.
  destruct (split_code_lines_nodes _ _ _ E Hwf) as [B1 [B2 B3]].
  destruct (flat_map_norm_nodes _ B3) as [C1 _]. rewrite C1. exact B1.
Qed.

Theorem piece_startpos (ns : list node) t ps :
  wf_nodes t ns = true -> statements ns t = Some ps ->
  forall n s, In (Some n, s) ps -> startpos s = n_start n.
Proof.
  unfold statements. intros Hwf H. destruct (split_code_lines ns t) as [ps0|] eqn:E; [|discriminate].
  inversion H; subst ps.
  destruct (split_code_lines_nodes _ _ _ E Hwf) as [B1 [B2 B3]].
  destruct (flat_map_norm_nodes _ B3) as [_ [_ C3]]. specialize (C3 B2).
  intros n s Hin. unfold starts_ok in C3. rewrite Forall_forall in C3.
  apply (C3 _ Hin).
Qed.

End SplitProofs.

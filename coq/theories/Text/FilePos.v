(* M1 - pyflyby._file.FilePos: a (lineno, colno) position, both 1-based.  No proofs here. *)
From Coq Require Import Arith Bool.

Record pos := mkPos { lineno : nat; colno : nat }.

(* FilePos._data comparisons: tuples (lineno, colno), lexicographic *)
Definition pos_eqb (a b : pos) : bool := (lineno a =? lineno b) && (colno a =? colno b).
Definition pos_ltb (a b : pos) : bool :=
  (lineno a <? lineno b) || ((lineno a =? lineno b) && (colno a <? colno b)).
Definition pos_leb (a b : pos) : bool :=
  (lineno a <? lineno b) || ((lineno a =? lineno b) && (colno a <=? colno b)).

(*  def __add__(self, delta):
        ldelta, cdelta = self._intint(delta)
        assert ldelta >= 0 and cdelta >= 0
        if ldelta == 0:
            return FilePos(self.lineno, self.colno + cdelta)
        else:
            return FilePos(self.lineno + ldelta, 1 + cdelta)                       *)
Definition pos_add (p : pos) (ldelta cdelta : nat) : pos :=
  if ldelta =? 0 then mkPos (lineno p) (colno p + cdelta)
  else mkPos (lineno p + ldelta) (1 + cdelta).

(* FilePos.__new__ raises ValueError for lineno < 1 or colno < 1 *)
Definition pos_ok (p : pos) : bool := (1 <=? lineno p) && (1 <=? colno p).

(* Slicing algebra of FileText: a slice is a substring of the joined text, at offsets that are
   monotone in the positions.  *)
From Coq Require Import Arith Bool List NArith Lia ZifyBool.
From Verif Require Import Base.Chars Base.StrX Base.StrXProofs Text.FilePos Text.FileText.
Import ListNotations.

(* ---------- positions ---------- *)

Lemma pos_eqb_eq a b : pos_eqb a b = true <-> a = b.
Proof.
  destruct a as [la ca], b as [lb cb]; unfold pos_eqb; cbn [lineno colno]. split.
  - intros H. apply andb_true_iff in H as [H1 H2]. apply Nat.eqb_eq in H1, H2. subst. reflexivity.
  - intros H. inversion H; subst. rewrite !Nat.eqb_refl. reflexivity.
Qed.

Lemma pos_eqb_refl a : pos_eqb a a = true.
Proof. apply pos_eqb_eq. reflexivity. Qed.

Lemma pos_leb_refl a : pos_leb a a = true.
Proof. unfold pos_leb. rewrite Nat.eqb_refl, Nat.leb_refl, orb_true_r. reflexivity. Qed.

Lemma pos_ltb_leb a b : pos_ltb a b = true -> pos_leb a b = true.
Proof. unfold pos_ltb, pos_leb. intros H. lia. Qed.

Lemma pos_leb_spec a b : pos_leb a b = true <-> lineno a < lineno b \/ (lineno a = lineno b /\ colno a <= colno b).
Proof. unfold pos_leb. lia. Qed.

Lemma pos_ltb_spec a b : pos_ltb a b = true <-> lineno a < lineno b \/ (lineno a = lineno b /\ colno a < colno b).
Proof. unfold pos_ltb. lia. Qed.

Lemma pos_leb_trans a b c : pos_leb a b = true -> pos_leb b c = true -> pos_leb a c = true.
Proof. rewrite !pos_leb_spec. lia. Qed.

(* ---------- substrings ---------- *)

Definition sub (s : str) (a b : nat) : str := firstn (b - a) (skipn a s).

Lemma skipn_skipn' {A} (x y : nat) : forall l : list A, skipn x (skipn y l) = skipn (y + x) l.
Proof.
  induction y as [|y IH]; intros l; [reflexivity|].
  destruct l; [rewrite !skipn_nil; reflexivity|]. cbn. apply IH.
Qed.

Lemma sub_add s a b c : a <= b -> b <= c -> sub s a b ++ sub s b c = sub s a c.
Proof.
  intros Hab Hbc. unfold sub.
  replace (c - a) with ((b - a) + (c - b)) by lia.
  replace (skipn b s) with (skipn (b - a) (skipn a s)).
  2:{ rewrite skipn_skipn'. f_equal. lia. }
  generalize (skipn a s) as t. intros t.
  rewrite <- (firstn_skipn (b - a) (firstn (b - a + (c - b)) t)).
  f_equal.
  - rewrite firstn_firstn. f_equal. lia.
  - rewrite skipn_firstn_comm. f_equal. lia.
Qed.

Lemma sub_full s : sub s 0 (length s) = s.
Proof. unfold sub. cbn. rewrite Nat.sub_0_r. apply firstn_all. Qed.

Lemma sub_shift (p r : str) a b : sub (p ++ r) (length p + a) (length p + b) = sub r a b.
Proof.
  unfold sub. replace (length p + b - (length p + a)) with (b - a) by lia.
  f_equal. rewrite skipn_app. rewrite skipn_all2 by lia. cbn.
  f_equal. lia.
Qed.

(* ---------- joined / offsets in index space ---------- *)

Lemma join_cons (l : str) rest : rest <> [] -> join_with c_nl (l :: rest) = l ++ c_nl :: join_with c_nl rest.
Proof. destruct rest; [congruence|reflexivity]. Qed.

(* offset of (line index i, column index j) in the joined text *)
Fixpoint offset (ls : list str) (i j : nat) {struct i} : nat :=
  match i, ls with
  | O, _ => j
  | S i', l :: rest => length l + 1 + offset rest i' j
  | S _, [] => j
  end.

Lemma offset_S (l : str) rest i j : offset (l :: rest) (S i) j = length l + 1 + offset rest i j.
Proof. reflexivity. Qed.

Lemma nth_error_nonempty {A} (l : list A) i x : nth_error l i = Some x -> l <> [].
Proof. destruct l; [destruct i; discriminate|discriminate]. Qed.

Lemma clip_last_cons (l x : str) r j : clip_last (l :: x :: r) j = l :: clip_last (x :: r) j.
Proof. reflexivity. Qed.

Lemma clip_last_cons' (l : str) X j : X <> [] -> clip_last (l :: X) j = l :: clip_last X j.
Proof. destruct X; [congruence|reflexivity]. Qed.

Lemma clip_last_nonempty (ls : list str) j : ls <> [] -> clip_last ls j <> [].
Proof. destruct ls as [|l [|x r]]; [congruence|discriminate|discriminate]. Qed.

Lemma firstn_S_nonempty {A} (l : list A) n : l <> [] -> firstn (S n) l <> [].
Proof. destruct l; [congruence|discriminate]. Qed.

Lemma islice_0 (ls : list str) i2 j2 : ls <> [] -> islice ls 0 0 i2 j2 = clip_last (firstn (S i2) ls) j2.
Proof.
  intros Hne. unfold islice. rewrite Nat.sub_0_r. cbn [skipn].
  pose proof (clip_last_nonempty (firstn (S i2) ls) j2 (firstn_S_nonempty ls i2 Hne)) as H.
  destruct (clip_last (firstn (S i2) ls) j2); [congruence|]. reflexivity.
Qed.

Lemma islice_joined : forall (ls : list str) i1 j1 i2 j2 (l1 l2 : str),
  nth_error ls i1 = Some l1 -> j1 <= length l1 ->
  nth_error ls i2 = Some l2 -> j2 <= length l2 ->
  i1 <= i2 ->
  join_with c_nl (islice ls i1 j1 i2 j2) = sub (join_with c_nl ls) (offset ls i1 j1) (offset ls i2 j2).
Proof.
  induction ls as [|l rest IH]; intros i1 j1 i2 j2 l1 l2 H1 Hj1 H2 Hj2 Hle.
  - destruct i1; discriminate.
  - destruct i1 as [|i1'], i2 as [|i2']; try lia.
    + (* both on the first line *)
      cbn in H1, H2. inversion H1; inversion H2; subst l1 l2.
      assert (Hj : exists T, join_with c_nl (l :: rest) = l ++ T).
      { destruct rest; [exists []; cbn; rewrite app_nil_r; reflexivity|eexists; reflexivity]. }
      destruct Hj as [T ->].
      unfold islice. cbn [Nat.sub skipn firstn clip_last clip_first offset].
      change (join_with c_nl [skipn j1 (firstn j2 l)]) with (skipn j1 (firstn j2 l)).
      unfold sub.
      rewrite skipn_app. replace (j1 - length l) with 0 by lia. cbn [skipn].
      rewrite firstn_app. replace (j2 - j1 - length (skipn j1 l)) with 0 by (rewrite skipn_length; lia).
      cbn [firstn]. rewrite app_nil_r. rewrite skipn_firstn_comm. reflexivity.
    + (* starts on the first line, ends further down *)
      cbn in H1. inversion H1; subst l1. cbn [nth_error] in H2.
      pose proof (nth_error_nonempty _ _ _ H2) as Hne.
      unfold islice. rewrite Nat.sub_0_r. cbn [skipn].
      change (firstn (S (S i2')) (l :: rest)) with (l :: firstn (S i2') rest).
      rewrite clip_last_cons' by (apply firstn_S_nonempty; exact Hne).
      cbn [clip_first].
      rewrite join_cons by (apply clip_last_nonempty, firstn_S_nonempty; exact Hne).
      rewrite <- (islice_0 rest i2' j2 Hne).
      destruct rest as [|l' rest']; [congruence|].
      rewrite (IH 0 0 i2' j2 l' l2) by (cbn; auto; lia).
      rewrite (join_cons l (l' :: rest')) by discriminate.
      change (offset (l :: l' :: rest') (S i2') j2) with (length l + 1 + offset (l' :: rest') i2' j2).
      change (offset (l :: l' :: rest') 0 j1) with j1. change (offset (l' :: rest') 0 0) with 0.
      generalize (join_with c_nl (l' :: rest')) as R; intros R.
      generalize (offset (l' :: rest') i2' j2) as o; intros o.
      unfold sub. rewrite Nat.sub_0_r. cbn [skipn].
      rewrite skipn_app. replace (j1 - length l) with 0 by lia. cbn [skipn].
      rewrite firstn_app. rewrite skipn_length.
      replace (length l + 1 + o - j1 - (length l - j1)) with (S o) by lia.
      rewrite (firstn_all2 (skipn j1 l)) by (rewrite skipn_length; lia).
      reflexivity.
    + (* both beyond the first line *)
      cbn [nth_error] in H1, H2.
      pose proof (nth_error_nonempty _ _ _ H1) as Hne.
      change (islice (l :: rest) (S i1') j1 (S i2') j2) with (islice rest i1' j1 i2' j2).
      rewrite (IH i1' j1 i2' j2 l1 l2) by (auto; lia).
      rewrite join_cons by exact Hne. cbn [offset].
      change (l ++ c_nl :: join_with c_nl rest) with (l ++ [c_nl] ++ join_with c_nl rest).
      rewrite app_assoc.
      replace (length l + 1 + offset rest i1' j1) with (length (l ++ [c_nl]) + offset rest i1' j1) by (rewrite app_length; cbn; lia).
      replace (length l + 1 + offset rest i2' j2) with (length (l ++ [c_nl]) + offset rest i2' j2) by (rewrite app_length; cbn; lia).
      rewrite sub_shift. reflexivity.
Qed.

Lemma join_length_cons (l : str) rest : rest <> [] ->
  length (join_with c_nl (l :: rest)) = length l + 1 + length (join_with c_nl rest).
Proof. intros H. rewrite join_cons by exact H. rewrite app_length. cbn. lia. Qed.

Lemma offset_le_len : forall (ls : list str) i j (l : str), nth_error ls i = Some l -> j <= length l ->
  offset ls i j <= length (join_with c_nl ls).
Proof.
  induction ls as [|l0 rest IH]; intros i j l H Hj.
  - destruct i; discriminate.
  - destruct i as [|i'].
    + cbn in H. inversion H; subst. cbn [offset].
      destruct rest; [cbn; lia|]. rewrite join_length_cons by discriminate. lia.
    + cbn [nth_error] in H. cbn [offset].
      rewrite join_length_cons by (eapply nth_error_nonempty; eauto).
      specialize (IH i' j l H Hj). lia.
Qed.

Lemma offset_mono : forall (ls : list str) i1 j1 i2 j2 (l1 l2 : str),
  nth_error ls i1 = Some l1 -> j1 <= length l1 ->
  nth_error ls i2 = Some l2 -> j2 <= length l2 ->
  (i1 < i2 \/ (i1 = i2 /\ j1 <= j2)) ->
  offset ls i1 j1 <= offset ls i2 j2.
Proof.
  induction ls as [|l rest IH]; intros i1 j1 i2 j2 l1 l2 H1 Hj1 H2 Hj2 Hlt.
  - destruct i1; discriminate.
  - destruct i1 as [|i1'], i2 as [|i2']; try lia.
    + cbn [offset]. lia.
    + cbn in H1. inversion H1; subst. cbn [offset]. lia.
    + cbn [nth_error] in H1, H2. cbn [offset].
      specialize (IH i1' j1 i2' j2 l1 l2 H1 Hj1 H2 Hj2). lia.
Qed.

Lemma offset_last : forall (ls : list str), ls <> [] ->
  offset ls (length ls - 1) (length (last_line ls)) = length (join_with c_nl ls).
Proof.
  induction ls as [|l rest IH]; intros Hne; [congruence|].
  destruct rest as [|l' rest'].
  - cbn. reflexivity.
  - replace (length (l :: l' :: rest') - 1) with (S (length (l' :: rest') - 1)) by (cbn [length]; lia).
    rewrite offset_S. unfold last_line in *. change (last (l :: l' :: rest') []) with (last (l' :: rest') []).
    rewrite IH by discriminate. rewrite (join_length_cons l (l' :: rest')) by discriminate. reflexivity.
Qed.

(* ---------- positions of a text ---------- *)

Definition to_index (t : text) (p : pos) : option (nat * nat) :=
  match lineno_to_index t (lineno p) with
  | None => None
  | Some i => match colno_to_index t i (colno p) with
              | None => None
              | Some j => Some (i, j)
              end
  end.

Definition col_off (t : text) (i : nat) : nat := if i =? 0 then colno (startpos t) else 1.

Lemma to_index_spec t p i j :
  to_index t p = Some (i, j) <->
  exists l, nth_error (lines t) i = Some l /\ j <= length l /\
            lineno p = lineno (startpos t) + i /\ colno p = col_off t i + j.
Proof.
  unfold to_index, lineno_to_index, colno_to_index, col_off. split.
  - intros H.
    destruct ((lineno (startpos t) <=? lineno p) && (lineno p - lineno (startpos t) <? length (lines t))) eqn:E1; [|discriminate].
    destruct (nth_error (lines t) (lineno p - lineno (startpos t))) as [l|] eqn:E2; [|discriminate].
    destruct (((if lineno p - lineno (startpos t) =? 0 then colno (startpos t) else 1) <=? colno p) &&
              (colno p - (if lineno p - lineno (startpos t) =? 0 then colno (startpos t) else 1) <=? length l)) eqn:E3; [|discriminate].
    inversion H; subst i j. exists l. repeat split; try assumption; lia.
  - intros [l [Hn [Hj [Hl Hc]]]].
    assert (Hlen : i < length (lines t)) by (apply nth_error_Some; congruence).
    replace (lineno p - lineno (startpos t)) with i by lia.
    replace ((lineno (startpos t) <=? lineno p) && (i <? length (lines t))) with true by lia.
    rewrite Hn.
    replace (((if i =? 0 then colno (startpos t) else 1) <=? colno p) &&
             (colno p - (if i =? 0 then colno (startpos t) else 1) <=? length l)) with true by lia.
    f_equal. f_equal. lia.
Qed.

Definition off_of (t : text) (p : pos) : option nat :=
  match to_index t p with
  | Some (i, j) => Some (offset (lines t) i j)
  | None => None
  end.

Lemma slice_spec t a b s :
  slice t a b = Some s <->
  exists i1 j1 i2 j2, to_index t a = Some (i1, j1) /\ to_index t b = Some (i2, j2) /\ i1 <= i2 /\
    s = mkText (islice (lines t) i1 j1 i2 j2)
               (mkPos (i1 + lineno (startpos t)) (if i1 =? 0 then j1 + colno (startpos t) else j1 + 1)).
Proof.
  unfold slice, to_index. split.
  - intros H.
    destruct (lineno_to_index t (lineno a)) as [i1|]; [|discriminate].
    destruct (colno_to_index t i1 (colno a)) as [j1|]; [|discriminate].
    destruct (lineno_to_index t (lineno b)) as [i2|]; [|discriminate].
    destruct (colno_to_index t i2 (colno b)) as [j2|]; [|discriminate].
    destruct (i1 <=? i2) eqn:E; [|discriminate].
    inversion H. exists i1, j1, i2, j2. repeat split. lia.
  - intros [i1 [j1 [i2 [j2 [Ha [Hb [Hle Hs]]]]]]].
    destruct (lineno_to_index t (lineno a)) as [i1'|]; [|discriminate].
    destruct (colno_to_index t i1' (colno a)) as [j1'|]; [|discriminate].
    destruct (lineno_to_index t (lineno b)) as [i2'|]; [|discriminate].
    destruct (colno_to_index t i2' (colno b)) as [j2'|]; [|discriminate].
    inversion Ha; inversion Hb; subst.
    replace (i1 <=? i2) with true by lia. reflexivity.
Qed.

Lemma slice_startpos t a b s : slice t a b = Some s -> startpos s = a.
Proof.
  intros H. apply slice_spec in H as [i1 [j1 [i2 [j2 [Ha [_ [_ ->]]]]]]].
  apply to_index_spec in Ha as [l [_ [_ [Hl Hc]]]]. unfold col_off in Hc.
  destruct a as [la ca]; cbn [lineno colno startpos] in *. f_equal; [lia|].
  destruct (i1 =? 0); lia.
Qed.

Lemma to_index_order t a b i1 j1 i2 j2 :
  to_index t a = Some (i1, j1) -> to_index t b = Some (i2, j2) -> pos_leb a b = true ->
  i1 < i2 \/ (i1 = i2 /\ j1 <= j2).
Proof.
  intros Ha Hb Hle.
  apply to_index_spec in Ha as [l1 [_ [_ [Hl1 Hc1]]]].
  apply to_index_spec in Hb as [l2 [_ [_ [Hl2 Hc2]]]].
  apply pos_leb_spec in Hle. unfold col_off in *.
  destruct (Nat.lt_trichotomy i1 i2) as [H|[H|H]]; [left; exact H| |lia].
  subst i2. right. split; [reflexivity|]. destruct (i1 =? 0); lia.
Qed.

Lemma slice_joined t a b s :
  slice t a b = Some s -> pos_leb a b = true ->
  exists oa ob, off_of t a = Some oa /\ off_of t b = Some ob /\ oa <= ob /\ ob <= length (joined t) /\
                joined s = sub (joined t) oa ob.
Proof.
  intros H Hle. apply slice_spec in H as [i1 [j1 [i2 [j2 [Ha [Hb [Hi ->]]]]]]].
  pose proof (to_index_order _ _ _ _ _ _ _ Ha Hb Hle) as Hord.
  unfold off_of. rewrite Ha, Hb.
  apply to_index_spec in Ha as [l1 [Hn1 [Hj1 _]]].
  apply to_index_spec in Hb as [l2 [Hn2 [Hj2 _]]].
  exists (offset (lines t) i1 j1), (offset (lines t) i2 j2).
  split; [reflexivity|]. split; [reflexivity|].
  split; [eapply offset_mono; eauto|].
  split; [eapply offset_le_len; eauto|].
  unfold joined. cbn [lines]. eapply islice_joined; eauto.
Qed.

Lemma off_start t o : off_of t (startpos t) = Some o -> o = 0.
Proof.
  unfold off_of. destruct (to_index t (startpos t)) as [[i j]|] eqn:E; [|discriminate].
  intros H. inversion H; subst o.
  apply to_index_spec in E as [l [_ [_ [Hl Hc]]]]. unfold col_off in Hc.
  assert (i = 0) by lia. subst i. cbn in Hc. assert (j = 0) by lia. subst j. reflexivity.
Qed.

Lemma off_end t o : off_of t (endpos t) = Some o -> o = length (joined t).
Proof.
  unfold off_of. destruct (to_index t (endpos t)) as [[i j]|] eqn:E; [|discriminate].
  intros H. inversion H; subst o.
  apply to_index_spec in E as [l [Hn [Hj [Hl Hc]]]].
  pose proof (nth_error_nonempty _ _ _ Hn) as Hne.
  unfold endpos in Hl, Hc. cbn [lineno colno] in Hl, Hc. unfold col_off in Hc.
  assert (Hlen : length (lines t) <> 0) by (destruct (lines t); [congruence|discriminate]).
  assert (Hi : i = length (lines t) - 1) by lia. subst i.
  assert (Hj2 : j = length (last_line (lines t))).
  { destruct (length (lines t) =? 1) eqn:E1.
    - replace (length (lines t) - 1 =? 0) with true in Hc by lia. lia.
    - replace (length (lines t) - 1 =? 0) with false in Hc by lia. lia. }
  subst j. unfold joined. apply offset_last. exact Hne.
Qed.

Lemma clip_last_length : forall (X : list str) j, length (clip_last X j) = length X.
Proof.
  induction X as [|x [|y r] IH]; intros j; [reflexivity|reflexivity|].
  rewrite clip_last_cons. cbn [length]. rewrite IH. reflexivity.
Qed.

Lemma islice_length (ls : list str) i1 j1 i2 j2 : i1 <= i2 -> i2 < length ls -> length (islice ls i1 j1 i2 j2) = S (i2 - i1).
Proof.
  intros Hle Hlt. unfold islice.
  assert (H1 : length (firstn (S (i2 - i1)) (skipn i1 ls)) = S (i2 - i1)).
  { rewrite firstn_length, skipn_length. lia. }
  assert (H3 : forall X j, length (clip_first X j) = length X) by (intros [|x r] j; reflexivity).
  rewrite H3, clip_last_length, H1. reflexivity.
Qed.

Lemma last_clip_last : forall (X : list str) j, X <> [] -> last (clip_last X j) [] = firstn j (last X []).
Proof.
  induction X as [|x [|y r] IH]; intros j Hne; [congruence|reflexivity|].
  rewrite clip_last_cons.
  change (last (x :: y :: r) []) with (last (y :: r) []).
  assert (Hc : clip_last (y :: r) j <> []) by (apply clip_last_nonempty; discriminate).
  destruct (clip_last (y :: r) j) as [|c cr] eqn:EC; [congruence|].
  change (last (x :: c :: cr) []) with (last (c :: cr) []).
  rewrite <- EC. apply IH. discriminate.
Qed.

Lemma last_firstn_skipn : forall (ls : list str) i n l, nth_error ls (i + n) = Some l ->
  last (firstn (S n) (skipn i ls)) [] = l.
Proof.
  induction ls as [|x r IH]; intros i n l H.
  - destruct (i + n); discriminate.
  - destruct i as [|i'].
    + cbn [skipn]. cbn [Nat.add] in H. revert x r IH l H. induction n as [|n IHn]; intros x r IH l H.
      * cbn in H. inversion H. reflexivity.
      * cbn [nth_error] in H. destruct r as [|y r']; [destruct n; discriminate|].
        change (firstn (S (S n)) (x :: y :: r')) with (x :: firstn (S n) (y :: r')).
        change (last (x :: firstn (S n) (y :: r')) []) with (last (firstn (S n) (y :: r')) []).
        apply IHn; [|exact H]. intros i n0 l0 H0. apply (IH (S i) n0 l0). exact H0.
    + cbn [skipn]. apply IH. exact H.
Qed.

Lemma slice_endpos t a b s : slice t a b = Some s -> pos_leb a b = true -> endpos s = b.
Proof.
  intros H Hle. pose proof (slice_startpos _ _ _ _ H) as Hsp.
  apply slice_spec in H as [i1 [j1 [i2 [j2 [Ha [Hb [Hi Hs]]]]]]].
  pose proof (to_index_order _ _ _ _ _ _ _ Ha Hb Hle) as Hord.
  apply to_index_spec in Ha as [l1 [Hn1 [Hj1 [Hl1 Hc1]]]].
  apply to_index_spec in Hb as [l2 [Hn2 [Hj2 [Hl2 Hc2]]]].
  assert (Hlt : i2 < length (lines t)) by (apply nth_error_Some; congruence).
  unfold endpos. rewrite Hsp. subst s. cbn [lines].
  rewrite islice_length by assumption.
  assert (Hlast : last_line (islice (lines t) i1 j1 i2 j2) =
                  if i1 =? i2 then skipn j1 (firstn j2 l2) else firstn j2 l2).
  { unfold last_line, islice.
    assert (Hne : firstn (S (i2 - i1)) (skipn i1 (lines t)) <> []).
    { apply firstn_S_nonempty. intros E. apply (f_equal (@length _)) in E. rewrite skipn_length in E. cbn in E. lia. }
    assert (HL : last (clip_last (firstn (S (i2 - i1)) (skipn i1 (lines t))) j2) [] = firstn j2 l2).
    { rewrite last_clip_last by exact Hne. f_equal. apply last_firstn_skipn.
      replace (i1 + (i2 - i1)) with i2 by lia. exact Hn2. }
    destruct (i1 =? i2) eqn:E.
    - assert (i2 = i1) by lia. subst i2. rewrite Nat.sub_diag in *.
      destruct (skipn i1 (lines t)) as [|x r] eqn:ES; [cbn in Hne; congruence|].
      cbn [firstn clip_last clip_first last] in *. rewrite HL. reflexivity.
    - destruct (clip_last (firstn (S (i2 - i1)) (skipn i1 (lines t))) j2) as [|x r] eqn:EC.
      + exfalso. revert EC. apply clip_last_nonempty. exact Hne.
      + assert (Hr : r <> []).
        { intros Er. subst r. apply (f_equal (@length _)) in EC.
          rewrite clip_last_length, firstn_length, skipn_length in EC. cbn [length] in EC. lia. }
        cbn [clip_first]. destruct r as [|y r']; [congruence|].
        change (last (skipn j1 x :: y :: r') []) with (last (y :: r') []).
        change (last (x :: y :: r') []) with (last (y :: r') []) in HL. exact HL. }
  rewrite Hlast. unfold col_off in *.
  destruct b as [lb cb]; cbn [lineno colno] in *. destruct a as [la ca]; cbn [lineno colno] in *.
  f_equal; [lia|].
  destruct (i1 =? i2) eqn:E.
  - assert (i2 = i1) by lia. subst i2. replace (S (i1 - i1) =? 1) with true by lia.
    rewrite skipn_length, firstn_length. destruct (i1 =? 0); lia.
  - replace (S (i2 - i1) =? 1) with false by lia. rewrite firstn_length.
    replace (i2 =? 0) with false in Hc2 by lia. lia.
Qed.

Theorem slice_additive t a b c s1 s2 s3 :
  slice t a b = Some s1 -> slice t b c = Some s2 -> slice t a c = Some s3 ->
  pos_leb a b = true -> pos_leb b c = true ->
  joined s1 ++ joined s2 = joined s3.
Proof.
  intros H1 H2 H3 Hab Hbc.
  destruct (slice_joined _ _ _ _ H1 Hab) as [oa [ob [Ea [Eb [Lab [_ J1]]]]]].
  destruct (slice_joined _ _ _ _ H2 Hbc) as [ob' [oc [Eb' [Ec [Lbc [_ J2]]]]]].
  destruct (slice_joined _ _ _ _ H3 (pos_leb_trans _ _ _ Hab Hbc)) as [oa' [oc' [Ea' [Ec' [_ [_ J3]]]]]].
  rewrite Eb in Eb'. inversion Eb'; subst ob'.
  rewrite Ea in Ea'. inversion Ea'; subst oa'.
  rewrite Ec in Ec'. inversion Ec'; subst oc'.
  rewrite J1, J2, J3. apply sub_add; assumption.
Qed.

From Coq Require Import NArith List Bool Lia.
From Verif Require Import Base.Chars Base.StrX.
Import ListNotations.

Lemma str_eqb_eq a b : str_eqb a b = true <-> a = b.
Proof.
  revert b; induction a as [|x a IH]; intros [|y b]; simpl; split; intros H; try congruence; auto.
  - apply andb_true_iff in H as [H1 H2]. apply N.eqb_eq in H1. apply IH in H2. congruence.
  - inversion H; subst. rewrite N.eqb_refl. simpl. apply IH. reflexivity.
Qed.

Lemma str_eqb_refl a : str_eqb a a = true.
Proof. apply str_eqb_eq. reflexivity. Qed.

Lemma str_eqb_sym a b : str_eqb a b = str_eqb b a.
Proof.
  destruct (str_eqb a b) eqn:E1, (str_eqb b a) eqn:E2; try reflexivity.
  - apply str_eqb_eq in E1; subst. rewrite str_eqb_refl in E2. discriminate.
  - apply str_eqb_eq in E2; subst. rewrite str_eqb_refl in E1. discriminate.
Qed.

Lemma strs_eqb_eq a b : strs_eqb a b = true <-> a = b.
Proof.
  revert b; induction a as [|x a IH]; intros [|y b]; simpl; split; intros H; try congruence; auto.
  - apply andb_true_iff in H as [H1 H2]. apply str_eqb_eq in H1. apply IH in H2. congruence.
  - inversion H; subst. rewrite str_eqb_refl. simpl. apply IH. reflexivity.
Qed.

Lemma split_on_nonempty sep s : split_on sep s <> [].
Proof.
  induction s as [|c r IH]; simpl; [discriminate|].
  destruct (c =? sep)%N; [discriminate|]. destruct (split_on sep r); discriminate.
Qed.

Lemma join_split sep s : join_with sep (split_on sep s) = s.
Proof.
  induction s as [|c r IH]; simpl; [reflexivity|].
  destruct (c =? sep)%N eqn:E.
  - apply N.eqb_eq in E; subst c.
    pose proof (split_on_nonempty sep r) as Hne.
    destruct (split_on sep r) as [|h t] eqn:Es; [congruence|].
    simpl. simpl in IH. rewrite IH. reflexivity.
  - pose proof (split_on_nonempty sep r) as Hne.
    destruct (split_on sep r) as [|h t] eqn:Es; [congruence|].
    destruct t as [|h2 t2]; simpl in *; rewrite <- IH; reflexivity.
Qed.

Definition no_sep (sep : ch) (s : str) : Prop := Forall (fun c => (c =? sep)%N = false) s.

Lemma split_on_no_sep sep s : Forall (no_sep sep) (split_on sep s).
Proof.
  induction s as [|c r IH]; simpl.
  - repeat constructor.
  - destruct (c =? sep)%N eqn:E.
    + constructor; [constructor|exact IH].
    + destruct (split_on sep r) as [|h t]; [repeat constructor; exact E|].
      inversion IH; subst. constructor; [constructor; assumption|assumption].
Qed.

Lemma split_on_app_sep sep a r :
  split_on sep (a ++ sep :: r) = split_on sep a ++ split_on sep r.
Proof.
  induction a as [|c a IH]; simpl.
  - rewrite N.eqb_refl. reflexivity.
  - destruct (c =? sep)%N; rewrite IH.
    + reflexivity.
    + pose proof (split_on_nonempty sep a) as Hne.
      destruct (split_on sep a) as [|h t]; [congruence|]. reflexivity.
Qed.

Lemma split_on_word sep w : no_sep sep w -> split_on sep w = [w].
Proof.
  induction 1 as [|c w Hc Hw IH]; simpl; [reflexivity|]. rewrite Hc, IH. reflexivity.
Qed.

Lemma join_with_app sep l1 l2 :
  l1 <> [] -> l2 <> [] -> join_with sep (l1 ++ l2) = join_with sep l1 ++ sep :: join_with sep l2.
Proof.
  intros H1 H2. induction l1 as [|x l1 IH]; [congruence|].
  destruct l1 as [|y l1].
  - simpl. destruct l2; [congruence|reflexivity].
  - change (join_with sep ((x :: y :: l1) ++ l2)) with (x ++ sep :: join_with sep ((y :: l1) ++ l2)).
    rewrite IH by discriminate.
    change (join_with sep (x :: y :: l1)) with (x ++ sep :: join_with sep (y :: l1)).
    rewrite <- app_assoc. reflexivity.
Qed.

Lemma split_join sep l :
  l <> [] -> Forall (no_sep sep) l -> split_on sep (join_with sep l) = l.
Proof.
  intros Hne Hall. induction l as [|x l IH]; [congruence|].
  inversion Hall as [|? ? Hx Hl]; subst.
  destruct l as [|y l].
  - simpl. apply split_on_word. exact Hx.
  - change (join_with sep (x :: y :: l)) with (x ++ sep :: join_with sep (y :: l)).
    rewrite split_on_app_sep, IH by (discriminate || assumption).
    rewrite split_on_word by exact Hx. reflexivity.
Qed.

Lemma Forall_skipn {A} (P : A -> Prop) n l : Forall P l -> Forall P (skipn n l).
Proof.
  revert l; induction n as [|n IH]; intros l H; simpl; [exact H|].
  destruct l; [constructor|]. inversion H; subst. apply IH. assumption.
Qed.

Lemma starts_with_app p s : starts_with p (p ++ s) = true.
Proof. induction p as [|a p IH]; simpl; [reflexivity|]. rewrite N.eqb_refl. exact IH. Qed.

Lemma starts_with_iff p s : starts_with p s = true <-> exists r, s = p ++ r.
Proof.
  revert s; induction p as [|a p IH]; intros s; simpl.
  - split; [intros _; exists s; reflexivity|reflexivity].
  - destruct s as [|b s].
    + split; [discriminate|intros [r Hr]; discriminate].
    + rewrite andb_true_iff, N.eqb_eq, IH. split.
      * intros [-> [r ->]]. exists r. reflexivity.
      * intros [r Hr]. inversion Hr; subst. split; [reflexivity|exists r; reflexivity].
Qed.

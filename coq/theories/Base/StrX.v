(* String helpers shared by the models (Python str.split / str.join / startswith). No proofs here. *)
From Coq Require Import NArith List Bool.
From Verif Require Import Base.Chars.
Import ListNotations.

(* Python  s.split(sep)  for a one-character separator: never returns the empty list. *)
Fixpoint split_on (sep : ch) (s : str) : list str :=
  match s with
  | [] => [[]]
  | c :: r => if (c =? sep)%N then [] :: split_on sep r
              else match split_on sep r with
                   | [] => [[c]]
                   | h :: t => (c :: h) :: t
                   end
  end.

(* Python  sep.join(l) *)
Fixpoint join_with (sep : ch) (l : list str) : str :=
  match l with
  | [] => []
  | [x] => x
  | x :: r => x ++ sep :: join_with sep r
  end.

Fixpoint starts_with (p s : str) : bool :=
  match p, s with
  | [], _ => true
  | a :: p', b :: s' => (a =? b)%N && starts_with p' s'
  | _ :: _, [] => false
  end.

Fixpoint strs_eqb (a b : list str) : bool :=
  match a, b with
  | [], [] => true
  | x :: a', y :: b' => str_eqb x y && strs_eqb a' b'
  | _, _ => false
  end.

Definition mem_ch (c : ch) (l : list ch) : bool := existsb (fun d => (c =? d)%N) l.

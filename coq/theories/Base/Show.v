(* JSON-ish printers used only to ship model results to the harness. *)
From Coq Require Import NArith List String Ascii Bool.
From Verif Require Import Base.Chars.
Import ListNotations.
Open Scope string_scope.

Fixpoint dec_digits (fuel : nat) (n : N) (acc : string) : string :=
  match fuel with
  | O => acc
  | S f => let acc' := String (ascii_of_N (48 + N.modulo n 10)) acc in
           if (n <? 10)%N then acc' else dec_digits f (N.div n 10) acc'
  end.
Definition show_N (n : N) : string := dec_digits 40 n EmptyString.
Definition show_nat (n : nat) : string := show_N (N.of_nat n).
Definition show_bool (b : bool) : string := if b then "true" else "false".
Definition show_str (s : str) : string := """" ++ enc s ++ """".
Definition show_string (s : string) : string := """" ++ s ++ """".

Fixpoint join (sep : string) (l : list string) : string :=
  match l with
  | [] => ""
  | [x] => x
  | x :: r => x ++ sep ++ join sep r
  end.
Definition show_list {A} (f : A -> string) (l : list A) : string := "[" ++ join "," (map f l) ++ "]".
Definition show_option {A} (f : A -> string) (o : option A) : string :=
  match o with None => "null" | Some x => f x end.
Definition show_pair {A B} (f : A -> string) (g : B -> string) (p : A * B) : string :=
  "[" ++ f (fst p) ++ "," ++ g (snd p) ++ "]".
Definition show_obj (fields : list (string * string)) : string :=
  "{" ++ join "," (map (fun kv => """" ++ fst kv ++ """:" ++ snd kv) fields) ++ "}".
